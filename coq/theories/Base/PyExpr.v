(* PyExpr — the value model and the small expression language shared by C20 (rendered assertions)
   and C23 (literals): Python values (None, bool, int, float, complex, str, bytes, enum members,
   list/tuple/set/dict, plus the helper objects the rendered assertions need), expressions
   (names, literal tokens, unary minus, attribute access, calls such as float('inf') /
   complex(a, b) / set() / len(x) / isinstance(x, T) / pytest.approx(v, abs=, rel=, nan_ok=),
   container displays, == and `is`), and an evaluator for exactly these forms.

   Floats are PrimFloat (binary64): signed zeros and infinities are distinct values, there is one
   NaN.  The text of number / string tokens is NOT modelled: a token is an element of an abstract
   type produced by [repr_*] and read back by [parse_*]; the round trip
   (float(repr x) = x for finite x with clear sign bit, int(str n) = n, eval(repr s) = s) is a Section
   hypothesis wherever it is needed (see Proofs/C23.v, Proofs/C20.v) and is sampled against CPython
   by the correspondence checks. *)
From Coq Require Import List ZArith NArith Bool String Ascii.
From Coq Require Import PrimFloat FloatOps FloatAxioms SpecFloat.
Import ListNotations.
Open Scope Z_scope.

Module PyExpr.

(* ---------------------------------------------------------------------------------------------- *)
(* Floats *)
Inductive fcls := FNaN | FInf (neg : bool) | FZero (neg : bool) | FFin (neg : bool).

Definition fclass (f : float) : fcls :=
  match Prim2SF f with
  | S754_nan => FNaN
  | S754_infinity s => FInf s
  | S754_zero s => FZero s
  | S754_finite s _ _ => FFin s
  end.

Definition fnan (f : float) : bool := match fclass f with FNaN => true | _ => false end.      (* math.isnan *)
Definition finf (f : float) : bool := match fclass f with FInf _ => true | _ => false end.    (* math.isinf *)
(* sign bit of a non-NaN float: x < 0 or (x == 0 and copysign(1, x) < 0); false for NaN *)
Definition fneg (f : float) : bool :=
  match fclass f with FNaN => false | FInf s | FZero s | FFin s => s end.
Definition ffinite (f : float) : bool := match fclass f with FZero _ | FFin _ => true | _ => false end.
(* what a Float token may hold: finite, sign bit clear *)
Definition ftok_ok (f : float) : bool := ffinite f && negb (fneg f).

(* exact integer value of a float, if it has one (int == float compares exactly in Python) *)
Definition float_int (f : float) : option Z :=
  match Prim2SF f with
  | S754_zero _ => Some 0
  | S754_finite s m e =>
      let a := if (0 <=? e) then Some (Z.pos m * 2 ^ e)
               else if (Z.pos m mod 2 ^ (- e) =? 0) then Some (Z.pos m / 2 ^ (- e)) else None in
      match a with Some a => Some (if s then - a else a) | None => None end
  | _ => None
  end.

(* ---------------------------------------------------------------------------------------------- *)
(* Values *)
Definition pystr := list N.                       (* code points / byte values *)
Definition s2l (s : string) : pystr := map (fun a => N_of_ascii a) (list_ascii_of_string s).

Inductive value :=
  | VNone
  | VBool (b : bool)
  | VInt (z : Z)
  | VFloat (f : float)
  | VComplex (re im : float)
  | VStr (s : pystr)
  | VBytes (s : pystr)
  | VEnum (cls mem : string)                       (* member of a plain Enum class *)
  | VList (l : list value)
  | VTuple (l : list value)
  | VSet (l : list value)                          (* elements in iteration order *)
  | VDict (l : list (value * value))               (* items in insertion order *)
  | VType (tmod : string) (tqual : list string)    (* a class object: __module__, __qualname__ split at "." *)
  | VObj (tmod : string) (tqual : list string) (len : option Z)   (* any other object: its type and len() *)
  | VApprox (expected abs rel : float) (nan_ok : bool).   (* pytest.approx(...) of a float *)

Section value_ind_nested.
  Variable P : value -> Prop.
  Hypothesis HNone : P VNone.
  Hypothesis HBool : forall b, P (VBool b).
  Hypothesis HInt : forall z, P (VInt z).
  Hypothesis HFloat : forall f, P (VFloat f).
  Hypothesis HComplex : forall a b, P (VComplex a b).
  Hypothesis HStr : forall s, P (VStr s).
  Hypothesis HBytes : forall s, P (VBytes s).
  Hypothesis HEnum : forall c m, P (VEnum c m).
  Hypothesis HList : forall l, Forall P l -> P (VList l).
  Hypothesis HTuple : forall l, Forall P l -> P (VTuple l).
  Hypothesis HSet : forall l, Forall P l -> P (VSet l).
  Hypothesis HDict : forall l, Forall (fun kv => P (fst kv) /\ P (snd kv)) l -> P (VDict l).
  Hypothesis HType : forall a b, P (VType a b).
  Hypothesis HObj : forall a b c, P (VObj a b c).
  Hypothesis HApprox : forall a b c d, P (VApprox a b c d).

  Fixpoint value_ind_nested (v : value) : P v :=
    let fix go (l : list value) : Forall P l :=
      match l with [] => Forall_nil _ | x :: r => Forall_cons x (value_ind_nested x) (go r) end in
    match v with
    | VNone => HNone | VBool b => HBool b | VInt z => HInt z | VFloat f => HFloat f
    | VComplex a b => HComplex a b | VStr s => HStr s | VBytes s => HBytes s | VEnum c m => HEnum c m
    | VList l => HList l (go l) | VTuple l => HTuple l (go l) | VSet l => HSet l (go l)
    | VDict l => HDict l ((fix god (l : list (value * value)) : Forall (fun kv => P (fst kv) /\ P (snd kv)) l :=
                            match l with
                            | [] => Forall_nil _
                            | (k, x) :: r => Forall_cons (k, x) (conj (value_ind_nested k) (value_ind_nested x)) (god r)
                            end) l)
    | VType a b => HType a b | VObj a b c => HObj a b c | VApprox a b c d => HApprox a b c d
    end.
End value_ind_nested.

(* ---------------------------------------------------------------------------------------------- *)
(* Equality (==) on these values *)
Inductive num := NZ (z : Z) | NF (f : float).

Definition num_eq (a b : num) : bool :=
  match a, b with
  | NZ x, NZ y => x =? y
  | NF x, NF y => PrimFloat.eqb x y
  | NZ x, NF y | NF y, NZ x => match float_int y with Some z => x =? z | None => false end
  end.

(* real and imaginary part of a number *)
Definition num_of (v : value) : option (num * num) :=
  match v with
  | VBool b => Some (NZ (if b then 1 else 0), NZ 0)
  | VInt z => Some (NZ z, NZ 0)
  | VFloat f => Some (NF f, NZ 0)
  | VComplex a b => Some (NF a, NF b)
  | _ => None
  end.

Fixpoint strs_eqb (a b : list string) : bool :=
  match a, b with
  | [], [] => true
  | x :: r, y :: r' => String.eqb x y && strs_eqb r r'
  | _, _ => false
  end.

Definition pystr_eqb (a b : pystr) : bool :=
  (Nat.eqb (List.length a) (List.length b)) && forallb (fun p => N.eqb (fst p) (snd p)) (combine a b).

(* pytest 8 ApproxScalar.__eq__ for float actual/expected with explicit abs= and rel= *)
Definition approx_eq (actual expected ab rel : float) (nan_ok : bool) : bool :=
  if PrimFloat.eqb actual expected then true
  else if fnan expected then nan_ok && fnan actual
  else if finf expected then false
  else
    let rt := PrimFloat.mul rel (PrimFloat.abs expected) in
    let tol := if PrimFloat.ltb rt ab then ab else rt in          (* max(rel_tol, abs_tol), both non-NaN here *)
    PrimFloat.leb (PrimFloat.abs (PrimFloat.sub expected actual)) tol.

Fixpoint py_eq (a b : value) {struct a} : bool :=
  match a, b with
  | VNone, VNone => true
  | VStr x, VStr y => pystr_eqb x y
  | VBytes x, VBytes y => pystr_eqb x y
  | VEnum c m, VEnum c' m' => String.eqb c c' && String.eqb m m'
  | VList la, VList lb | VTuple la, VTuple lb =>
      (fix go (la lb : list value) : bool :=
         match la, lb with
         | [], [] => true
         | x :: r, y :: r' => py_eq x y && go r r'
         | _, _ => false
         end) la lb
  | VSet la, VSet lb =>
      Nat.eqb (List.length la) (List.length lb) && forallb (fun x => existsb (fun y => py_eq x y) lb) la
  | VDict la, VDict lb =>
      Nat.eqb (List.length la) (List.length lb) &&
      forallb (fun kv => existsb (fun kv' => py_eq (fst kv) (fst kv') && py_eq (snd kv) (snd kv')) lb) la
  | VType m q, VType m' q' => String.eqb m m' && strs_eqb q q'
  | VFloat x, VApprox e ab rel n => approx_eq x e ab rel n
  | _, _ =>
      match num_of a, num_of b with
      | Some (ar, ai), Some (br, bi) => num_eq ar br && num_eq ai bi
      | _, _ => false
      end
  end.

(* `is` against the singletons None / True / False (the only use in rendered assertions) *)
Definition py_is (a b : value) : bool :=
  match a, b with
  | VNone, VNone => true
  | VBool x, VBool y => Bool.eqb x y
  | _, _ => false
  end.

Fixpoint hashable (v : value) : bool :=
  match v with
  | VList _ | VSet _ | VDict _ => false
  | VTuple l => forallb hashable l
  | _ => true
  end.

(* set / dict construction: an element equal to an earlier one is dropped (a dict keeps the first key
   and takes the later value) *)
Definition mem_eq (v : value) (acc : list value) : bool := existsb (fun a => py_eq a v) acc.

Fixpoint set_build (acc l : list value) : list value :=
  match l with
  | [] => acc
  | x :: r => if mem_eq x acc then set_build acc r else set_build (acc ++ [x]) r
  end.

Fixpoint distinct_from (acc l : list value) : bool :=
  match l with
  | [] => true
  | x :: r => negb (mem_eq x acc) && distinct_from (acc ++ [x]) r
  end.

Fixpoint dict_set (acc : list (value * value)) (k v : value) : list (value * value) :=
  match acc with
  | [] => [(k, v)]
  | (k', v') :: r => if py_eq k' k then (k', v) :: r else (k', v') :: dict_set r k v
  end.

Fixpoint dict_build (acc l : list (value * value)) : list (value * value) :=
  match l with
  | [] => acc
  | (k, v) :: r => dict_build (dict_set acc k v) r
  end.

(* well-formed values: set elements / dict keys hashable and pairwise unequal (what Python
   guarantees of every set and dict object) *)
Fixpoint wfb (v : value) : bool :=
  match v with
  | VList l | VTuple l => forallb wfb l
  | VSet l => forallb wfb l && forallb hashable l && distinct_from [] l
  | VDict l => forallb (fun kv => wfb (fst kv) && wfb (snd kv)) l && forallb (fun kv => hashable (fst kv)) l
               && distinct_from [] (map fst l)
  | _ => true
  end.

(* types *)
Definition builtin (n : string) : string * list string := ("builtins"%string, [n]).
Definition type_of (v : value) : string * list string :=
  match v with
  | VNone => builtin "NoneType" | VBool _ => builtin "bool" | VInt _ => builtin "int"
  | VFloat _ => builtin "float" | VComplex _ _ => builtin "complex" | VStr _ => builtin "str"
  | VBytes _ => builtin "bytes" | VEnum c _ => ("?"%string, [c])
  | VList _ => builtin "list" | VTuple _ => builtin "tuple" | VSet _ => builtin "set"
  | VDict _ => builtin "dict" | VType _ _ => builtin "type" | VObj m q _ => (m, q)
  | VApprox _ _ _ _ => ("_pytest.python_api"%string, ["ApproxScalar"%string])
  end.

(* the names of the builtins module that are bound to classes (subset relevant here; sampled
   against dir(builtins) by the C20 correspondence) *)
Definition builtin_types : list string :=
  ["bool"; "int"; "float"; "complex"; "str"; "bytes"; "bytearray"; "list"; "tuple"; "set"; "frozenset"; "dict";
   "range"; "slice"; "object"; "type"; "memoryview"; "property"; "enumerate"; "zip"; "map"; "filter"; "reversed";
   "staticmethod"; "classmethod"; "super"; "BaseException"; "Exception"; "ValueError"; "TypeError"; "KeyError";
   "IndexError"; "RuntimeError"; "StopIteration"; "OSError"; "ArithmeticError"; "ZeroDivisionError";
   "AttributeError"; "NameError"; "LookupError"; "AssertionError"; "NotImplementedError"; "OverflowError"]%string.
Definition is_builtin_type (n : string) : bool := existsb (String.eqb n) builtin_types.

(* str(type.__module__), str(type.__qualname__) *)
Definition qual_str (q : list string) : pystr := s2l (String.concat "." q).

Definition len_of (v : value) : option Z :=
  match v with
  | VStr s | VBytes s => Some (Z.of_nat (List.length s))
  | VList l | VTuple l | VSet l => Some (Z.of_nat (List.length l))
  | VDict l => Some (Z.of_nat (List.length l))
  | VObj _ _ n => n
  | _ => None
  end.

(* ---------------------------------------------------------------------------------------------- *)
(* Expressions.  Token types are parameters. *)
Inductive err := NameError | TypeError | ValueError | Unsupported.
Inductive res (A : Type) := Ok (a : A) | Err (e : err).
Arguments Ok {A} a. Arguments Err {A} e.

Section MapM.
  Context {A B : Type}.
  Variable f : A -> res B.
  Fixpoint mapM (l : list A) : res (list B) :=
    match l with
    | [] => Ok []
    | x :: r => match f x with
                | Ok y => match mapM r with Ok ys => Ok (y :: ys) | Err e => Err e end
                | Err e => Err e
                end
    end.
End MapM.

Section Expr.
  Variables ftok itok stok btok : Type.

  Inductive expr :=
    | EName (n : string)
    | EFloat (t : ftok)                 (* cst.Float *)
    | EInt (t : itok)                   (* cst.Integer *)
    | EStr (t : stok)                   (* cst.SimpleString holding a str literal *)
    | EBytes (t : btok)                 (* cst.SimpleString holding a bytes literal *)
    | ENeg (e : expr)                   (* UnaryOperation(Minus, e) *)
    | EAttr (e : expr) (a : string)
    | ECall (f : expr) (args : list expr) (kw : list (string * expr))
    | EList (l : list expr)
    | ETuple (l : list expr)
    | ESet (l : list expr)
    | EDict (l : list (expr * expr))
    | EEq (a b : expr)
    | EIs (a b : expr)
    | EFStr2 (a : expr) (sep : pystr) (b : expr)   (* f"{a}<sep>{b}" *)
    | EBad.                             (* a node libcst refuses to build (validation error) *)

  (* what a token evaluates to in Python *)
  Variable parse_float : ftok -> float.
  Variable parse_int : itok -> Z.
  Variable parse_str : stok -> pystr.
  Variable parse_bytes : btok -> pystr.

  (* the namespace: dotted path -> object *)
  Definition env := list string -> option value.

  Fixpoint path_of (e : expr) : option (list string) :=
    match e with
    | EName n => Some [n]
    | EAttr e a => match path_of e with Some p => Some (p ++ [a]) | None => None end
    | _ => None
    end.

  Definition unshadowed (g : env) (n : string) : bool := match g [n] with None => true | Some _ => false end.

  Definition kwarg (kw : list (string * value)) (n : string) : option value :=
    match find (fun p => String.eqb (fst p) n) kw with Some p => Some (snd p) | None => None end.

  Definition str_concat (a : value) (sep : pystr) (b : value) : res value :=
    match a, b with
    | VStr x, VStr y => Ok (VStr (x ++ sep ++ y))
    | _, _ => Err Unsupported
    end.

  Definition call_builtin (g : env) (f : expr) (args : list value) (kw : list (string * value)) : res value :=
    match f, args, kw with
    | EName "float", [VStr s], [] =>
        if negb (unshadowed g "float") then Err Unsupported
        else if pystr_eqb s (s2l "inf") then Ok (VFloat infinity)
        else if pystr_eqb s (s2l "-inf") then Ok (VFloat neg_infinity)
        else if pystr_eqb s (s2l "nan") then Ok (VFloat nan)
        else Err Unsupported
    | EName "complex", [VFloat a; VFloat b], [] =>
        if unshadowed g "complex" then Ok (VComplex a b) else Err Unsupported
    | EName "set", [], [] => if unshadowed g "set" then Ok (VSet []) else Err Unsupported
    | EName "len", [v], [] =>
        if negb (unshadowed g "len") then Err Unsupported
        else match len_of v with Some n => Ok (VInt n) | None => Err TypeError end
    | EName "isinstance", [v; VType m q], [] =>
        if negb (unshadowed g "isinstance") then Err Unsupported
        else let t := type_of v in
             Ok (VBool ((String.eqb (fst t) m && strs_eqb (snd t) q)
                        || (String.eqb m "builtins" && strs_eqb q ["object"%string])
                        || (match v with VBool _ => String.eqb m "builtins" && strs_eqb q ["int"%string] | _ => false end)))
    | EAttr (EName "pytest") "approx", [VFloat e], _ =>
        match kwarg kw "abs", kwarg kw "rel" with
        | Some (VFloat a), Some (VFloat r) =>
            if PrimFloat.ltb a 0 || fnan a || PrimFloat.ltb r 0 || fnan r then Err ValueError
            else match kwarg kw "nan_ok" with
                 | None => Ok (VApprox e a r false)
                 | Some (VBool n) => Ok (VApprox e a r n)
                 | Some _ => Err Unsupported
                 end
        | _, _ => Err Unsupported
        end
    | _, _, _ => Err Unsupported
    end.

  Definition neg_value (v : value) : res value :=
    match v with
    | VInt z => Ok (VInt (- z))
    | VBool b => Ok (VInt (if b then -1 else 0))
    | VFloat f => Ok (VFloat (PrimFloat.opp f))
    | VComplex a b => Ok (VComplex (PrimFloat.opp a) (PrimFloat.opp b))
    | _ => Err TypeError
    end.

  Fixpoint eval (g : env) (e : expr) {struct e} : res value :=
    match e with
    | EName n =>
        if String.eqb n "None" then Ok VNone
        else if String.eqb n "True" then Ok (VBool true)
        else if String.eqb n "False" then Ok (VBool false)
        else match g [n] with
             | Some v => Ok v
             | None => if is_builtin_type n then Ok (VType "builtins" [n]) else Err NameError
             end
    | EFloat t => Ok (VFloat (parse_float t))
    | EInt t => Ok (VInt (parse_int t))
    | EStr t => Ok (VStr (parse_str t))
    | EBytes t => Ok (VBytes (parse_bytes t))
    | ENeg a => match eval g a with Ok v => neg_value v | Err x => Err x end
    | EAttr a n =>
        match path_of (EAttr a n) with
        | Some p => match g p with Some v => Ok v | None => Err NameError end
        | None =>
            match a with
            | ECall (EName "type") [x] [] =>
                if negb (unshadowed g "type") then Err Unsupported else
                match eval g x with
                | Ok v => if String.eqb n "__module__" then Ok (VStr (s2l (fst (type_of v))))
                          else if String.eqb n "__qualname__" then Ok (VStr (qual_str (snd (type_of v))))
                          else Err Unsupported
                | Err x => Err x
                end
            | _ => Err Unsupported
            end
        end
    | ECall f args kw =>
        match mapM (eval g) args with
        | Err x => Err x
        | Ok vs =>
            match mapM (fun p => match eval g (snd p) with Ok v => Ok (fst p, v) | Err x => Err x end) kw with
            | Err x => Err x
            | Ok kvs => call_builtin g f vs kvs
            end
        end
    | EList l => match mapM (eval g) l with Ok vs => Ok (VList vs) | Err x => Err x end
    | ETuple l => match mapM (eval g) l with Ok vs => Ok (VTuple vs) | Err x => Err x end
    | ESet l =>
        match l with
        | [] => Err Unsupported                  (* `{}` is a dict; never rendered *)
        | _ => match mapM (eval g) l with
               | Ok vs => if forallb hashable vs then Ok (VSet (set_build [] vs)) else Err TypeError
               | Err x => Err x
               end
        end
    | EDict l =>
        match mapM (fun p => match eval g (fst p) with
                             | Ok k => match eval g (snd p) with Ok v => Ok (k, v) | Err x => Err x end
                             | Err x => Err x
                             end) l with
        | Ok kvs => if forallb (fun kv => hashable (fst kv)) kvs then Ok (VDict (dict_build [] kvs)) else Err TypeError
        | Err x => Err x
        end
    | EEq a b =>
        match eval g a with
        | Ok va => match eval g b with Ok vb => Ok (VBool (py_eq va vb)) | Err x => Err x end
        | Err x => Err x
        end
    | EIs a b =>
        match eval g a with
        | Ok va => match eval g b with Ok vb => Ok (VBool (py_is va vb)) | Err x => Err x end
        | Err x => Err x
        end
    | EFStr2 a sep b =>
        match eval g a with
        | Ok va => match eval g b with Ok vb => str_concat va sep vb | Err x => Err x end
        | Err x => Err x
        end
    | EBad => Err Unsupported
    end.

  (* no node that libcst would refuse *)
  Fixpoint valid (e : expr) : bool :=
    match e with
    | EBad => false
    | ENeg a => valid a
    | EAttr a _ => valid a
    | ECall f args kw => valid f && forallb valid args && forallb (fun p => valid (snd p)) kw
    | EList l | ETuple l => forallb valid l
    | ESet l => negb (match l with [] => true | _ => false end) && forallb valid l
    | EDict l => forallb (fun p => valid (fst p) && valid (snd p)) l
    | EEq a b | EIs a b => valid a && valid b
    | EFStr2 a _ b => valid a && valid b
    | _ => true
    end.
  (* structural equality of expressions, given equality tests on tokens *)
  Variables (feq : ftok -> ftok -> bool) (ieq : itok -> itok -> bool)
            (seq : stok -> stok -> bool) (beq : btok -> btok -> bool).

  Fixpoint expr_eqb (a b : expr) {struct a} : bool :=
    match a, b with
    | EName n, EName m => String.eqb n m
    | EFloat t, EFloat u => feq t u
    | EInt t, EInt u => ieq t u
    | EStr t, EStr u => seq t u
    | EBytes t, EBytes u => beq t u
    | ENeg x, ENeg y => expr_eqb x y
    | EAttr x n, EAttr y m => expr_eqb x y && String.eqb n m
    | ECall f xs kw, ECall f' ys kw' =>
        expr_eqb f f'
        && (fix go (xs ys : list expr) : bool :=
              match xs, ys with
              | [], [] => true
              | x :: r, y :: r' => expr_eqb x y && go r r'
              | _, _ => false
              end) xs ys
        && (fix gok (xs ys : list (string * expr)) : bool :=
              match xs, ys with
              | [], [] => true
              | (n, x) :: r, (m, y) :: r' => String.eqb n m && expr_eqb x y && gok r r'
              | _, _ => false
              end) kw kw'
    | EList xs, EList ys | ETuple xs, ETuple ys | ESet xs, ESet ys =>
        (fix go (xs ys : list expr) : bool :=
           match xs, ys with
           | [], [] => true
           | x :: r, y :: r' => expr_eqb x y && go r r'
           | _, _ => false
           end) xs ys
    | EDict xs, EDict ys =>
        (fix god (xs ys : list (expr * expr)) : bool :=
           match xs, ys with
           | [], [] => true
           | (k, x) :: r, (k', y) :: r' => expr_eqb k k' && expr_eqb x y && god r r'
           | _, _ => false
           end) xs ys
    | EEq x y, EEq x' y' | EIs x y, EIs x' y' => expr_eqb x x' && expr_eqb y y'
    | EFStr2 x s y, EFStr2 x' s' y' => expr_eqb x x' && pystr_eqb s s' && expr_eqb y y'
    | EBad, EBad => true
    | _, _ => false
    end.
End Expr.

Arguments EName {ftok itok stok btok} n.
Arguments EFloat {ftok itok stok btok} t.
Arguments EInt {ftok itok stok btok} t.
Arguments EStr {ftok itok stok btok} t.
Arguments EBytes {ftok itok stok btok} t.
Arguments ENeg {ftok itok stok btok} e.
Arguments EAttr {ftok itok stok btok} e a.
Arguments ECall {ftok itok stok btok} f args kw.
Arguments EList {ftok itok stok btok} l.
Arguments ETuple {ftok itok stok btok} l.
Arguments ESet {ftok itok stok btok} l.
Arguments EDict {ftok itok stok btok} l.
Arguments EEq {ftok itok stok btok} a b.
Arguments EIs {ftok itok stok btok} a b.
Arguments EFStr2 {ftok itok stok btok} a sep b.
Arguments EBad {ftok itok stok btok}.
Arguments eval {ftok itok stok btok} parse_float parse_int parse_str parse_bytes g e.
Arguments valid {ftok itok stok btok} e.
Arguments path_of {ftok itok stok btok} e.
Arguments expr_eqb {ftok itok stok btok} feq ieq seq beq a b.
Arguments unshadowed g n : simpl never.

(* structural, bit-exact equality test on values (for the correspondence checkers) *)
Definition float_same (a b : float) : bool :=
  match Prim2SF a, Prim2SF b with
  | S754_nan, S754_nan => true
  | S754_infinity s, S754_infinity s' | S754_zero s, S754_zero s' => Bool.eqb s s'
  | S754_finite s m e, S754_finite s' m' e' => Bool.eqb s s' && Pos.eqb m m' && Z.eqb e e'
  | _, _ => false
  end.

Definition opt_eqb {A} (f : A -> A -> bool) (a b : option A) : bool :=
  match a, b with Some x, Some y => f x y | None, None => true | _, _ => false end.

Fixpoint same (a b : value) {struct a} : bool :=
  match a, b with
  | VNone, VNone => true
  | VBool x, VBool y => Bool.eqb x y
  | VInt x, VInt y => x =? y
  | VFloat x, VFloat y => float_same x y
  | VComplex x x', VComplex y y' => float_same x y && float_same x' y'
  | VStr x, VStr y | VBytes x, VBytes y => pystr_eqb x y
  | VEnum c m, VEnum c' m' => String.eqb c c' && String.eqb m m'
  | VList la, VList lb | VTuple la, VTuple lb =>
      (fix go (la lb : list value) : bool :=
         match la, lb with
         | [], [] => true
         | x :: r, y :: r' => same x y && go r r'
         | _, _ => false
         end) la lb
  | VSet la, VSet lb =>       (* iteration order of a set is not part of its value *)
      Nat.eqb (List.length la) (List.length lb) && forallb (fun x => existsb (fun y => same x y) lb) la
  | VDict la, VDict lb =>
      (fix go (la lb : list (value * value)) : bool :=
         match la, lb with
         | [], [] => true
         | (k, x) :: r, (k', y) :: r' => same k k' && same x y && go r r'
         | _, _ => false
         end) la lb
  | VType m q, VType m' q' => String.eqb m m' && strs_eqb q q'
  | VObj m q n, VObj m' q' n' => String.eqb m m' && strs_eqb q q' && opt_eqb Z.eqb n n'
  | VApprox a b c d, VApprox a' b' c' d' => float_same a a' && float_same b b' && float_same c c' && Bool.eqb d d'
  | _, _ => false
  end.

Definition res_same (a b : res value) : bool :=
  match a, b with
  | Ok x, Ok y => same x y
  | Err x, Err y => match x, y with
                    | NameError, NameError | TypeError, TypeError | ValueError, ValueError | Unsupported, Unsupported => true
                    | _, _ => false
                    end
  | _, _ => false
  end.

End PyExpr.
