(* TestCaseIRRuv — TestCase.remove_unused_variables (model [ruv_aux] in Base/TestCaseIR.v, after
   fix C19-keep-assertions) keeps the length, the order, the right-hand sides, the reads and the
   assertions of the statements, only turns dead convertible assignments into expression
   statements, preserves well-formedness (C15) and keeps every asserted variable bound.  The code
   before the fix ([ruv_aux_orig]) loses assertions: refutation witness at the end. *)
From Coq Require Import List NArith ZArith Bool Lia.
From Verif Require Import Base.TestCaseIR Base.TestCaseIRFacts.
Import ListNotations. Import IR.

(* ------------------------------------------------------------------------------------------ *)
(* small facts *)
Lemma drop_In x v l : In x (drop v l) <-> In x l /\ x <> v.
Proof. unfold drop. rewrite filter_In, negb_true_iff, N.eqb_neq. tauto. Qed.

(* the relation between a statement and what remove_unused_variables makes of it *)
Definition unb (s s' : stmt) : Prop :=
  s' = s \/ (s' = unbind s /\ conv s = true /\ bound s <> None).

Lemma unb_uses s s' : unb s s' -> uses s' = uses s.
Proof. intros [->|[-> _]]; reflexivity. Qed.

Lemma unb_asserts s s' : unb s s' -> asserts s' = asserts s.
Proof. intros [->|[-> _]]; reflexivity. Qed.

Lemma unb_node s s' : unb s s' -> node s' = node s.
Proof. intros [->|[-> _]]; reflexivity. Qed.

Lemma unb_aroots s s' : unb s s' -> aroots s' = aroots s.
Proof. intros [->|[-> _]]; reflexivity. Qed.

Lemma unb_bv s s' v : unb s s' -> In v (bv s') -> In v (bv s).
Proof. intros [->|[-> _]] H; [exact H|destruct H]. Qed.

Lemma bv_NoDup s : NoDup (bv s).
Proof. unfold bv. destruct (bound s); repeat constructor. intros []. Qed.

Lemma Forall2_unb_map {B} (f : stmt -> B) l l' :
  (forall s s', unb s s' -> f s' = f s) -> Forall2 unb l l' -> map f l' = map f l.
Proof.
  intros Hf H. induction H as [|s s' l l' Hs _ IH]; [reflexivity|].
  cbn [map]. rewrite IH, (Hf _ _ Hs). reflexivity.
Qed.

Lemma Forall2_unb_length l l' : Forall2 unb l l' -> length l' = length l.
Proof. intro H. induction H; cbn [length]; congruence. Qed.

Lemma Forall2_unb_in l l' s' :
  Forall2 unb l l' -> In s' l' -> exists s, In s l /\ unb s s'.
Proof.
  intro H. induction H as [|s0 s0' l l' Hs _ IH]; intro Hi; [destruct Hi|].
  destruct Hi as [<-|Hi].
  - exists s0. split; [left; reflexivity|exact Hs].
  - destruct (IH Hi) as [s [H1 H2]]. exists s. split; [right; exact H1|exact H2].
Qed.

Lemma Forall2_unb_bvars l l' v : Forall2 unb l l' -> In v (bvars l') -> In v (bvars l).
Proof.
  intro H. induction H as [|s s' l l' Hs _ IH]; intro Hi; [exact Hi|].
  rewrite bvars_cons in *. apply in_app_or in Hi. apply in_or_app. destruct Hi as [Hi|Hi].
  - left. eapply unb_bv; eauto.
  - right. auto.
Qed.

Lemma Forall2_unb_NoDup l l' : Forall2 unb l l' -> NoDup (bvars l) -> NoDup (bvars l').
Proof.
  intro H. induction H as [|s s' l l' Hs Hl IH]; intro Hn; [exact Hn|].
  rewrite bvars_cons in *. apply NoDup_app_intro.
  - apply bv_NoDup.
  - apply IH. eapply NoDup_app_r; eauto.
  - intros x H1 H2. eapply NoDup_app_disj; [exact Hn| |].
    + eapply unb_bv; eauto.
    + eapply Forall2_unb_bvars; eauto.
Qed.

(* ------------------------------------------------------------------------------------------ *)
(* one step of the backward pass: the four cases *)
Lemma ruv_aux_cons s r :
  (bound s = None /\
   ruv_aux (s :: r) = (s :: fst (ruv_aux r), uses s ++ aroots s ++ snd (ruv_aux r)))
  \/ (exists v, bound s = Some v /\ In v (aroots s ++ snd (ruv_aux r)) /\
        ruv_aux (s :: r)
        = (s :: fst (ruv_aux r), uses s ++ drop v (aroots s ++ snd (ruv_aux r))))
  \/ (exists v, bound s = Some v /\ ~ In v (aroots s ++ snd (ruv_aux r)) /\ conv s = true /\
        ruv_aux (s :: r)
        = (unbind s :: fst (ruv_aux r), uses s ++ aroots s ++ snd (ruv_aux r)))
  \/ (exists v, bound s = Some v /\ ~ In v (aroots s ++ snd (ruv_aux r)) /\ conv s = false /\
        ruv_aux (s :: r)
        = (s :: fst (ruv_aux r), uses s ++ aroots s ++ snd (ruv_aux r))).
Proof.
  cbn [ruv_aux]. destruct (ruv_aux r) as [r' alive]. cbn [fst snd].
  destruct (bound s) as [v|] eqn:Eb.
  - destruct (mem v (aroots s ++ alive)) eqn:Em.
    + right. left. exists v. apply mem_In in Em. repeat split; auto.
    + apply mem_false in Em. destruct (conv s) eqn:Ec.
      * right. right. left. exists v. repeat split; auto.
      * right. right. right. exists v. repeat split; auto.
  - left. split; reflexivity.
Qed.

Lemma ruv_fst_cons s r :
  exists s', fst (ruv_aux (s :: r)) = s' :: fst (ruv_aux r) /\ unb s s'.
Proof.
  destruct (ruv_aux_cons s r)
    as [[Eb Eq]|[(v&Eb&Hin&Eq)|[(v&Eb&Hnin&Ec&Eq)|(v&Eb&Hnin&Ec&Eq)]]]; rewrite Eq; cbn [fst].
  - exists s. split; [reflexivity|left; reflexivity].
  - exists s. split; [reflexivity|left; reflexivity].
  - exists (unbind s). split; [reflexivity|]. right. repeat split; auto. congruence.
  - exists s. split; [reflexivity|left; reflexivity].
Qed.

(* (A) statement-wise relation *)
Lemma ruv_unb l : Forall2 unb l (fst (ruv_aux l)).
Proof.
  induction l as [|s r IH]; [constructor|].
  destruct (ruv_fst_cons s r) as [s' [Eq Hs]]. rewrite Eq. constructor; assumption.
Qed.

(* (B) liveness soundness *)
Lemma alive_step s r x :
  In x (uses s) \/ In x (aroots s ++ snd (ruv_aux r)) ->
  In x (snd (ruv_aux (s :: r))) \/ In x (bv s).
Proof.
  intro H.
  destruct (ruv_aux_cons s r)
    as [[Eb Eq]|[(v&Eb&Hin&Eq)|[(v&Eb&Hnin&Ec&Eq)|(v&Eb&Hnin&Ec&Eq)]]]; rewrite Eq; cbn [snd].
  - left. apply in_or_app. exact H.
  - destruct (N.eq_dec x v) as [->|Hne].
    + right. apply bv_In. exact Eb.
    + left. apply in_or_app. destruct H as [H|H]; [left; exact H|right].
      apply drop_In. split; assumption.
  - left. apply in_or_app. exact H.
  - left. apply in_or_app. exact H.
Qed.

Lemma ruv_alive_sound l x :
  (exists s, In s l /\ (In x (uses s) \/ In x (aroots s))) ->
  In x (snd (ruv_aux l)) \/ In x (bvars l).
Proof.
  induction l as [|s r IH]; intros [s0 [Hs0 Hx]]; [destruct Hs0|].
  rewrite bvars_cons.
  assert (Hstep : In x (uses s) \/ In x (aroots s ++ snd (ruv_aux r)) \/ In x (bvars r)).
  { destruct Hs0 as [<-|Hs0].
    - destruct Hx as [Hx|Hx]; [left; exact Hx|right; left; apply in_or_app; left; exact Hx].
    - destruct IH as [H|H]; [exists s0; split; assumption| |].
      + right. left. apply in_or_app. right. exact H.
      + right. right. exact H. }
  destruct Hstep as [H|[H|H]].
  - destruct (alive_step s r x (or_introl H)) as [H'|H']; [left; exact H'|].
    right. apply in_or_app. left. exact H'.
  - destruct (alive_step s r x (or_intror H)) as [H'|H']; [left; exact H'|].
    right. apply in_or_app. left. exact H'.
  - right. apply in_or_app. right. exact H.
Qed.

(* the same, phrased on the output list *)
Lemma ruv_alive_sound' l x :
  (exists s', In s' (fst (ruv_aux l)) /\ (In x (uses s') \/ In x (aroots s'))) ->
  In x (snd (ruv_aux l)) \/ In x (bvars l).
Proof.
  intros [s' [Hs' Hx]]. apply ruv_alive_sound.
  destruct (Forall2_unb_in _ _ _ (ruv_unb l) Hs') as [s [Hs Hu]].
  exists s. split; [exact Hs|]. rewrite <- (unb_uses _ _ Hu), <- (unb_aroots _ _ Hu). exact Hx.
Qed.

(* (C) bound variables *)
Lemma ruv_bvars_In l v : In v (bvars (fst (ruv_aux l))) -> In v (bvars l).
Proof. apply Forall2_unb_bvars. apply ruv_unb. Qed.

Lemma ruv_bvars_NoDup l : NoDup (bvars l) -> NoDup (bvars (fst (ruv_aux l))).
Proof. apply Forall2_unb_NoDup. apply ruv_unb. Qed.

(* (D) scoping *)
Lemma scoped_remove v : forall l E,
  scoped (v :: E) l -> (forall s, In s l -> ~ In v (uses s)) -> scoped E l.
Proof.
  induction l as [|s r IH]; intros E Hs Hn; [exact I|].
  cbn [scoped] in *. destruct Hs as [Hu Hr]. split.
  - intros u Hi. destruct (Hu u Hi) as [<-|H]; [|exact H].
    exfalso. eapply Hn; [left; reflexivity|exact Hi].
  - apply IH.
    + eapply scoped_incl; [|exact Hr]. intros x Hx.
      apply in_app_or in Hx. destruct Hx as [Hx|[Hx|Hx]].
      * right. apply in_or_app. left. exact Hx.
      * left. exact Hx.
      * right. apply in_or_app. right. exact Hx.
    + intros s0 Hs0. apply Hn. right. exact Hs0.
Qed.

(* a variable that is dead after [s] and not rebound later is neither read nor asserted later *)
Lemma dead_not_mentioned s r v s' :
  NoDup (bv s ++ bvars r) -> bound s = Some v -> ~ In v (aroots s ++ snd (ruv_aux r)) ->
  In s' (fst (ruv_aux r)) -> ~ In v (uses s') /\ ~ In v (aroots s').
Proof.
  intros Hn Eb Hnin Hs'.
  assert (H : ~ (In v (uses s') \/ In v (aroots s'))).
  { intro Hx. destruct (ruv_alive_sound' r v) as [H|H].
    - exists s'. split; assumption.
    - apply Hnin. apply in_or_app. right. exact H.
    - eapply NoDup_app_disj; [exact Hn| |exact H]. apply bv_In. exact Eb. }
  tauto.
Qed.

Lemma ruv_scoped l : forall E, scoped E l -> NoDup (bvars l) -> scoped E (fst (ruv_aux l)).
Proof.
  induction l as [|s r IH]; intros E Hs Hn; [exact I|].
  cbn [scoped] in Hs. destruct Hs as [Hu Hr]. rewrite bvars_cons in Hn.
  pose proof (IH _ Hr (NoDup_app_r _ _ Hn)) as IHr.
  destruct (ruv_aux_cons s r)
    as [[Eb Eq]|[(v&Eb&Hin&Eq)|[(v&Eb&Hnin&Ec&Eq)|(v&Eb&Hnin&Ec&Eq)]]];
    rewrite Eq; cbn [fst scoped]; (split; [exact Hu|]); try exact IHr.
  change (bv (unbind s) ++ E) with E.
  apply (scoped_remove v).
  - unfold bv in IHr. rewrite Eb in IHr. exact IHr.
  - intros s' Hs'. apply (dead_not_mentioned s r v s' Hn Eb Hnin Hs').
Qed.

(* (E) assertion scoping *)
Lemma ascoped_incl E1 E2 l : (forall x, In x E1 -> In x E2) -> ascoped E1 l -> ascoped E2 l.
Proof.
  revert E1 E2. induction l as [|s r IH]; cbn [ascoped]; intros E1 E2 Hi H; [exact I|].
  destruct H as [H1 H2].
  assert (Hi' : forall x, In x (bv s ++ E1) -> In x (bv s ++ E2)).
  { intros x Hx. apply in_app_or in Hx. apply in_or_app. destruct Hx; auto. }
  split; [intros v Hv; auto|]. eapply IH; [exact Hi'|exact H2].
Qed.

Lemma ascoped_remove v : forall l E,
  ascoped (v :: E) l -> (forall s, In s l -> ~ In v (aroots s)) -> ascoped E l.
Proof.
  induction l as [|s r IH]; intros E Hs Hn; [exact I|].
  cbn [ascoped] in *. destruct Hs as [Hu Hr]. split.
  - intros u Hi. specialize (Hu u Hi). apply in_app_or in Hu. apply in_or_app.
    destruct Hu as [Hu|[<-|Hu]]; [left; exact Hu| |right; exact Hu].
    exfalso. eapply Hn; [left; reflexivity|exact Hi].
  - apply IH.
    + eapply ascoped_incl; [|exact Hr]. intros x Hx.
      apply in_app_or in Hx. destruct Hx as [Hx|[Hx|Hx]].
      * right. apply in_or_app. left. exact Hx.
      * left. exact Hx.
      * right. apply in_or_app. right. exact Hx.
    + intros s0 Hs0. apply Hn. right. exact Hs0.
Qed.

Lemma ruv_ascoped l : forall E, ascoped E l -> NoDup (bvars l) -> ascoped E (fst (ruv_aux l)).
Proof.
  induction l as [|s r IH]; intros E Hs Hn; [exact I|].
  cbn [ascoped] in Hs. destruct Hs as [Hu Hr]. rewrite bvars_cons in Hn.
  pose proof (IH _ Hr (NoDup_app_r _ _ Hn)) as IHr.
  destruct (ruv_aux_cons s r)
    as [[Eb Eq]|[(v&Eb&Hin&Eq)|[(v&Eb&Hnin&Ec&Eq)|(v&Eb&Hnin&Ec&Eq)]]];
    rewrite Eq; cbn [fst ascoped]; try (split; [exact Hu|exact IHr]).
  change (bv (unbind s) ++ E) with E. change (aroots (unbind s)) with (aroots s).
  unfold bv in Hu, IHr. rewrite Eb in Hu, IHr. split.
  - intros x Hx. destruct (Hu x Hx) as [<-|H]; [|exact H].
    exfalso. apply Hnin. apply in_or_app. left. exact Hx.
  - apply (ascoped_remove v); [exact IHr|].
    intros s' Hs'. apply (dead_not_mentioned s r v s' Hn Eb Hnin Hs').
Qed.

(* position-wise: an asserted own variable keeps the statement unchanged *)
Lemma ruv_aux_asserted_stays l : forall i s v,
  nth_error l i = Some s -> bound s = Some v -> In v (aroots s) ->
  nth_error (fst (ruv_aux l)) i = Some s.
Proof.
  induction l as [|x r IH]; intros i s v Hn Eb Hr; [destruct i; discriminate|].
  destruct i as [|i]; cbn [nth_error] in Hn.
  - inversion Hn; subst x.
    assert (Ha : In v (aroots s ++ snd (ruv_aux r))) by (apply in_or_app; left; exact Hr).
    destruct (ruv_aux_cons s r)
      as [[Eb' Eq]|[(w&Eb'&Hin&Eq)|[(w&Eb'&Hnin&Ec&Eq)|(w&Eb'&Hnin&Ec&Eq)]]];
      [congruence|rewrite Eq; reflexivity| |];
      (exfalso; apply Hnin; congruence).
  - destruct (ruv_fst_cons x r) as [x' [Eq _]]. rewrite Eq. cbn [nth_error].
    eapply IH; eauto.
Qed.

(* ------------------------------------------------------------------------------------------ *)
(* the theorems on test cases *)
Lemma ruv_stmts t : stmts (remove_unused_variables t) = fst (ruv_aux (stmts t)).
Proof. reflexivity. Qed.

Theorem ruv_length : forall t, size (remove_unused_variables t) = size t.
Proof. intro t. unfold size. rewrite ruv_stmts. apply Forall2_unb_length. apply ruv_unb. Qed.

(* assertions are preserved position-wise *)
Theorem ruv_keeps_assertions : forall t,
  map asserts (stmts (remove_unused_variables t)) = map asserts (stmts t).
Proof.
  intro t. rewrite ruv_stmts. apply Forall2_unb_map; [exact unb_asserts|apply ruv_unb].
Qed.

(* so are the statements' right-hand sides, reads, and order *)
Theorem ruv_keeps_nodes : forall t,
  map node (stmts (remove_unused_variables t)) = map node (stmts t)
  /\ map uses (stmts (remove_unused_variables t)) = map uses (stmts t).
Proof.
  intro t. rewrite ruv_stmts. split.
  - apply Forall2_unb_map; [exact unb_node|apply ruv_unb].
  - apply Forall2_unb_map; [exact unb_uses|apply ruv_unb].
Qed.

(* each statement is either untouched or a convertible bound statement that was unbound *)
Theorem ruv_only_unbinds : forall t,
  Forall2 (fun s s' => s' = s \/ (s' = unbind s /\ conv s = true /\ bound s <> None))
          (stmts t) (stmts (remove_unused_variables t)).
Proof. intro t. rewrite ruv_stmts. exact (ruv_unb (stmts t)). Qed.

Theorem ruv_counter : forall t, counter (remove_unused_variables t) = counter t.
Proof. reflexivity. Qed.

(* well-formedness (C15) is preserved *)
Theorem ruv_WF : forall t, WF t -> WF (remove_unused_variables t).
Proof.
  intros t [H1 H2 H3 H4]. unfold remove_unused_variables, with_stmts. apply WF_mk.
  - apply ruv_scoped; assumption.
  - apply ruv_bvars_NoDup. exact H2.
  - intros v Hv. apply H4. apply ruv_bvars_In. exact Hv.
Qed.

(* a variable mentioned by an assertion of statement i is still bound at (or before) i *)
Theorem ruv_keeps_asserted_bindings : forall t,
  WF t -> ascoped [] (stmts t) -> ascoped [] (stmts (remove_unused_variables t)).
Proof.
  intros t HW Ha. rewrite ruv_stmts. apply ruv_ascoped; [exact Ha|]. apply (wf_nodup _ HW).
Qed.

(* a statement whose own bound variable is the root of one of its assertions stays bound *)
Theorem ruv_asserted_stays_bound : forall t i s v,
  nth_error (stmts t) i = Some s -> bound s = Some v -> In v (aroots s) ->
  nth_error (stmts (remove_unused_variables t)) i = Some s.
Proof. intros t i s v. rewrite ruv_stmts. apply ruv_aux_asserted_stays. Qed.

(* ------------------------------------------------------------------------------------------ *)
(* decidable assertion scoping (for the concrete witnesses) *)
Lemma ascopedb_spec E l : ascopedb E l = true <-> ascoped E l.
Proof.
  revert E. induction l as [|s r IH]; cbn [ascopedb ascoped]; intro E; [tauto|].
  rewrite andb_true_iff, IH, forallb_forall. split; intros [H1 H2]; split; auto.
  - intros v Hv. apply mem_In. auto.
  - intros v Hv. apply mem_In. auto.
Qed.

(* the code before the fix violates the property: witness *)
Definition orig_witness : tc :=
  mk [ {| bound := Some 0%N; uses := []; sty := Some 1%N;
          asserts := [ {| a_root := Some 0%N; a_render := true; a_id := 7%N |} ];
          conv := true; node := 3%N |} ] 1%N.

Theorem ruv_orig_drops_assertions : exists t,
  WF t /\ ascoped [] (stmts t) /\
  map asserts (stmts (remove_unused_variables_orig t)) <> map asserts (stmts t).
Proof.
  exists orig_witness. split; [|split].
  - apply wfb_spec. reflexivity.
  - apply ascopedb_spec. reflexivity.
  - vm_compute. discriminate.
Qed.

(* the fixed code keeps the assertion (and the binding) on the same witness *)
Example ruv_fixed_on_witness : remove_unused_variables orig_witness = orig_witness.
Proof. vm_compute. reflexivity. Qed.

(* non-vacuity: statement 0 binds a variable read by statement 2, statement 1 binds an unused
   variable that carries an assertion, statement 2 binds an unused, unasserted variable: only
   statement 2 is unbound *)
Definition ex_s0 : stmt :=
  {| bound := Some 0%N; uses := []; sty := Some 1%N; asserts := []; conv := true; node := 10%N |}.
Definition ex_s1 : stmt :=
  {| bound := Some 1%N; uses := []; sty := Some 2%N;
     asserts := [ {| a_root := Some 1%N; a_render := true; a_id := 5%N |} ];
     conv := true; node := 11%N |}.
Definition ex_s2 : stmt :=
  {| bound := Some 2%N; uses := [0%N]; sty := Some 1%N; asserts := []; conv := true;
     node := 12%N |}.
Definition ex_tc : tc := mk [ex_s0; ex_s1; ex_s2] 3%N.

Example ruv_example :
  WF ex_tc /\ ascoped [] (stmts ex_tc) /\
  stmts (remove_unused_variables ex_tc) = [ex_s0; ex_s1; unbind ex_s2] /\
  unbind ex_s2 <> ex_s2 /\
  WF (remove_unused_variables ex_tc) /\
  ascoped [] (stmts (remove_unused_variables ex_tc)).
Proof.
  assert (HW : WF ex_tc) by (apply wfb_spec; reflexivity).
  assert (HA : ascoped [] (stmts ex_tc)) by (apply ascopedb_spec; reflexivity).
  split; [exact HW|]. split; [exact HA|]. split; [|split; [|split]].
  - vm_compute. reflexivity.
  - vm_compute. discriminate.
  - apply ruv_WF. exact HW.
  - apply ruv_keeps_asserted_bindings; assumption.
Qed.
