(* Removal of statement sets and the forward-dependency closure (TestCase.forward_dependencies,
   TestFactory.delete_statement_gracefully): on well-formed test cases one forward sweep already is
   the fixpoint the `while changed` loop computes, and removing the closure keeps the test case
   well-formed. *)
From Coq Require Import List NArith ZArith Bool Lia.
From Verif Require Import Base.TestCaseIR Base.TestCaseIRFacts.
Import ListNotations. Import IR.

(* marks are consistent with a set T of removed variables: removed statements bind only names in
   T, kept statements read no name in T *)
Fixpoint okmarks (T : list var) (marks : list bool) (l : list stmt) : Prop :=
  match marks, l with
  | m :: ms, s :: r =>
      (if m then (forall v, In v (bv s) -> In v T) else (forall u, In u (uses s) -> ~ In u T))
      /\ okmarks T ms r
  | [], [] => True
  | _, _ => False
  end.

Lemma keep_scoped : forall l marks E E' T,
  okmarks T marks l -> scoped E l -> (forall x, In x E -> In x E' \/ In x T) ->
  scoped E' (keep marks l).
Proof.
  induction l as [|s r IH]; intros marks E E' T Hok Hs HE; destruct marks as [|m ms];
    cbn [okmarks keep scoped] in *; try exact I; try contradiction.
  destruct Hok as [Hm Hok]. destruct Hs as [Hu Hs]. destruct m.
  - apply IH with (E := bv s ++ E) (T := T); auto.
    intros x Hx. apply in_app_or in Hx. destruct Hx as [Hx|Hx]; [right; auto|auto].
  - cbn [scoped]. split.
    + intros u Hx. destruct (HE u (Hu u Hx)) as [H|H]; [exact H|]. exfalso. eapply Hm; eauto.
    + apply IH with (E := bv s ++ E) (T := T); auto.
      intros x Hx. apply in_app_or in Hx. destruct Hx as [Hx|Hx].
      * left. apply in_or_app. auto.
      * destruct (HE x Hx); [left; apply in_or_app; auto|right; auto].
Qed.

Lemma keep_split {A} (l1 : list A) x suf (ms : list bool) :
  keep (repeat false (length l1) ++ true :: ms) (l1 ++ x :: suf) = l1 ++ keep ms suf.
Proof. induction l1 as [|y r IH]; simpl; [reflexivity|]. rewrite IH. reflexivity. Qed.

(* ------------------------------------------------------------------------------------------ *)
(* the single sweep *)
Fixpoint sweepT (T : list var) (l : list stmt) : list var :=
  match l with
  | [] => T
  | s :: r => if intersects (uses s) T then sweepT (taint T s) r else sweepT T r
  end.

Lemma taint_In T s x : In x (taint T s) <-> In x T \/ In x (bv s).
Proof.
  unfold taint, bv. destruct (bound s) as [v|]; [|simpl; tauto].
  destruct (mem v T) eqn:E; simpl.
  - apply mem_In in E. split; [auto|]. intros [H|[H|[]]]; [auto|subst; auto].
  - split; [intros [H|H]; auto|]. intros [H|[H|[]]]; auto.
Qed.

Lemma sweepT_mono l : forall T x, In x T -> In x (sweepT T l).
Proof.
  induction l as [|s r IH]; intros T x H; simpl; [exact H|].
  destruct (intersects (uses s) T); apply IH; [apply taint_In|]; auto.
Qed.

Lemma sweepT_sub l : forall T x, In x (sweepT T l) -> In x T \/ In x (bvars l).
Proof.
  induction l as [|s r IH]; intros T x H; cbn [sweepT] in H; [auto|].
  rewrite bvars_cons. destruct (intersects (uses s) T).
  - apply IH in H. destruct H as [H|H].
    + apply taint_In in H. destruct H; [auto|right; apply in_or_app; auto].
    + right. apply in_or_app. auto.
  - apply IH in H. destruct H; [auto|right; apply in_or_app; auto].
Qed.

(* the first pass of the loop is the sweep *)
Lemma pass_first strict l : forall T,
  fst (pass strict T (repeat false (length l)) l) = (sweepT T l, sweep T l).
Proof.
  induction l as [|s r IH]; intro T; cbn [length repeat pass sweepT sweep]; [reflexivity|].
  destruct (intersects (uses s) T).
  - specialize (IH (taint T s)).
    destruct (pass strict (taint T s) (repeat false (length r)) r) as [[T1 ms1] ch1].
    cbn [fst] in *. inversion IH. reflexivity.
  - specialize (IH T).
    destruct (pass strict T (repeat false (length r)) r) as [[T1 ms1] ch1].
    cbn [fst] in *. inversion IH. reflexivity.
Qed.

(* a pass over consistent marks changes nothing *)
Lemma pass_fix strict l : forall T marks,
  okmarks T marks l -> pass strict T marks l = (T, marks, false).
Proof.
  induction l as [|s r IH]; intros T marks Hok; destruct marks as [|m ms];
    cbn [okmarks pass] in *; try reflexivity; try contradiction.
  destruct Hok as [Hm Hok]. destruct m.
  - rewrite (IH _ _ Hok). reflexivity.
  - assert (Hi : intersects (uses s) T = false) by (apply intersects_false; exact Hm).
    rewrite Hi, (IH _ _ Hok). reflexivity.
Qed.

(* closedness of the sweep on scoped, duplicate-free suffixes *)
Lemma sweep_closed : forall l T E,
  scoped E l -> (forall x, In x T -> In x E) -> (forall x, In x E -> ~ In x (bvars l)) ->
  NoDup (bvars l) -> okmarks (sweepT T l) (sweep T l) l.
Proof.
  induction l as [|s r IH]; intros T E Hs HT Hd Hn; cbn [sweepT sweep okmarks]; [exact I|].
  cbn [scoped] in Hs. destruct Hs as [Hu Hs]. rewrite bvars_cons in Hn.
  assert (Hd' : forall x, In x (bv s ++ E) -> ~ In x (bvars r)).
  { intros x Hx Hr. apply in_app_or in Hx. destruct Hx as [Hx|Hx].
    - eapply NoDup_app_disj; eauto.
    - apply (Hd x Hx). rewrite bvars_cons. apply in_or_app. auto. }
  destruct (intersects (uses s) T) eqn:Ei; cbn [okmarks].
  - split.
    + intros v Hv. apply sweepT_mono. apply taint_In. auto.
    + apply IH with (E := bv s ++ E); auto.
      * intros x Hx. apply taint_In in Hx. apply in_or_app. destruct Hx; auto.
      * eapply NoDup_app_r; eauto.
  - split.
    + intros u Hx Hin. apply sweepT_sub in Hin. destruct Hin as [Hin|Hin].
      * eapply (proj1 (intersects_false _ _) Ei); eauto.
      * apply (Hd u (Hu u Hx)). rewrite bvars_cons. apply in_or_app. auto.
    + apply IH with (E := bv s ++ E); auto.
      * intros x Hx. apply in_or_app. auto.
      * eapply NoDup_app_r; eauto.
Qed.

(* forward_closure_single_pass: on such suffixes the `while changed` loop returns the sweep *)
Lemma loop_is_sweep strict l T E :
  scoped E l -> (forall x, In x T -> In x E) -> (forall x, In x E -> ~ In x (bvars l)) ->
  NoDup (bvars l) ->
  loop strict (S (length l)) T (repeat false (length l)) l = sweep T l.
Proof.
  intros Hs HT Hd Hn. pose proof (sweep_closed _ _ _ Hs HT Hd Hn) as Hc.
  pose proof (pass_first strict l T) as Hp.
  cbn [loop]. destruct (pass strict T (repeat false (length l)) l) as [[T1 ms1] ch1].
  cbn [fst] in Hp. inversion Hp; subst T1 ms1. destruct ch1; [|reflexivity].
  destruct l as [|s r]; [reflexivity|]. cbn [length loop].
  rewrite (pass_fix strict _ _ _ Hc). reflexivity.
Qed.

(* ------------------------------------------------------------------------------------------ *)
(* removing a statement with its forward dependencies keeps WF *)
Lemma fwd_marks_sweep strict t i s0 :
  WF t -> nth_error (stmts t) i = Some s0 ->
  fwd_marks strict (stmts t) i = sweep (bv s0) (skipn (S i) (stmts t))
  /\ okmarks (sweepT (bv s0) (skipn (S i) (stmts t))) (sweep (bv s0) (skipn (S i) (stmts t)))
             (skipn (S i) (stmts t)).
Proof.
  intros [H1 H2 H3 H4] Hn. unfold fwd_marks. rewrite Hn.
  pose proof (nth_error_split_eq _ _ _ Hn) as Hsplit.
  set (l1 := firstn i (stmts t)) in *. set (suf := skipn (S i) (stmts t)) in *.
  rewrite Hsplit in H1, H2. rewrite bvars_app, bvars_cons in H2.
  apply scoped_app in H1. destruct H1 as [_ [_ Hsuf]].
  assert (HT : forall x, In x (bv s0) -> In x (bv s0 ++ bvars l1 ++ [])) by (intros; apply in_or_app; auto).
  assert (Hd : forall x, In x (bv s0 ++ bvars l1 ++ []) -> ~ In x (bvars suf)).
  { intros x Hx Hr. apply in_app_or in Hx. destruct Hx as [Hx|Hx].
    - apply NoDup_app_r in H2. eapply NoDup_app_disj; eauto.
    - rewrite app_nil_r in Hx. eapply NoDup_app_disj; [exact H2|exact Hx|].
      apply in_or_app. auto. }
  assert (Hn' : NoDup (bvars suf)) by (apply NoDup_app_r in H2; apply NoDup_app_r in H2; exact H2).
  split.
  - eapply loop_is_sweep; eauto.
  - eapply sweep_closed; eauto.
Qed.

Theorem remove_fwd_WF strict t i : WF t -> WF (remove_fwd strict t i).
Proof.
  intro HW. unfold remove_fwd. destruct (nth_error (stmts t) i) as [s0|] eqn:Hn; [|exact HW].
  destruct (fwd_marks_sweep strict t i s0 HW Hn) as [Hm Hok]. rewrite Hm.
  pose proof (nth_error_split_eq _ _ _ Hn) as Hsplit.
  assert (Hlen : length (firstn i (stmts t)) = i).
  { apply firstn_length_le. apply Nat.lt_le_incl. apply nth_error_Some. congruence. }
  set (l1 := firstn i (stmts t)) in *. set (suf := skipn (S i) (stmts t)) in *.
  rewrite <- (keep_split l1 s0 suf (sweep (bv s0) suf)). rewrite <- Hsplit.
  apply WF_keep; [exact HW|].
  rewrite Hsplit, keep_split.
  destruct HW as [H1 H2 H3 H4]. rewrite Hsplit in H1.
  apply scoped_app in H1. destruct H1 as [Ha [_ Hsuf]].
  apply scoped_app. split; [exact Ha|].
  eapply keep_scoped; [exact Hok|exact Hsuf|].
  intros x Hx. apply in_app_or in Hx. destruct Hx as [Hx|Hx]; [right|left; exact Hx].
  apply sweepT_mono. exact Hx.
Qed.

(* the closure contains exactly what the sweep marks: a kept later statement reads no removed name *)
Theorem forward_closure_single_pass strict t i s0 :
  WF t -> nth_error (stmts t) i = Some s0 ->
  fwd_marks strict (stmts t) i = sweep (bv s0) (skipn (S i) (stmts t)).
Proof. intros HW Hn. exact (proj1 (fwd_marks_sweep strict t i s0 HW Hn)). Qed.
