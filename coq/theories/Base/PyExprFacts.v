(* Facts about Base/PyExpr.v used by C20 and C23: PrimFloat classification lemmas (through the
   stdlib specification FloatAxioms), reflexivity of == on NaN-free values, set/dict construction on
   duplicate-free inputs, evaluation equations. *)
From Coq Require Import List ZArith NArith Bool String Lia.
From Coq Require Import PrimFloat FloatOps FloatAxioms SpecFloat.
From Verif Require Import Base.PyExpr.
Import ListNotations.
Open Scope Z_scope.

Module PyExprFacts.
Import PyExpr.

(* ---------------------------------------------------------------------------------------------- *)
(* floats *)
Lemma fclass_abs f :
  fclass (PrimFloat.abs f) =
  match fclass f with FNaN => FNaN | FInf _ => FInf false | FZero _ => FZero false | FFin _ => FFin false end.
Proof.
  unfold fclass. rewrite abs_spec. destruct (Prim2SF f); reflexivity.
Qed.

Lemma opp_abs f : fneg f = true -> PrimFloat.opp (PrimFloat.abs f) = f.
Proof.
  unfold fneg, fclass. intro H. apply Prim2SF_inj. rewrite opp_spec, abs_spec.
  destruct (Prim2SF f) as [s|s| |s m e]; simpl in *; try discriminate; subst; reflexivity.
Qed.

Lemma abs_nonneg f : fneg f = false -> PrimFloat.abs f = f.
Proof.
  unfold fneg, fclass. intro H. apply Prim2SF_inj. rewrite abs_spec.
  destruct (Prim2SF f) as [s|s| |s m e]; simpl in *; subst; reflexivity.
Qed.

Lemma class_inf f : fclass f = FInf false -> f = infinity.
Proof.
  unfold fclass. intro H. apply Prim2SF_inj.
  destruct (Prim2SF f) as [s|s| |s m e]; try discriminate. injection H as ->. reflexivity.
Qed.

Lemma class_nan f : fclass f = FNaN -> f = nan.
Proof.
  unfold fclass. intro H. apply Prim2SF_inj.
  destruct (Prim2SF f) as [s|s| |s m e]; try discriminate. reflexivity.
Qed.

Lemma class_neg_inf f : fclass f = FInf true -> f = neg_infinity.
Proof.
  unfold fclass. intro H. apply Prim2SF_inj.
  destruct (Prim2SF f) as [s|s| |s m e]; try discriminate. injection H as ->. reflexivity.
Qed.

Lemma ftok_ok_abs f : ffinite (PrimFloat.abs f) = true -> ftok_ok (PrimFloat.abs f) = true.
Proof.
  unfold ftok_ok, ffinite, fneg. rewrite fclass_abs. destruct (fclass f); simpl; congruence.
Qed.

Lemma ffinite_abs f : ffinite (PrimFloat.abs f) = ffinite f.
Proof. unfold ffinite. rewrite fclass_abs. destruct (fclass f); reflexivity. Qed.

Lemma fnan_abs f : fnan (PrimFloat.abs f) = fnan f.
Proof. unfold fnan. rewrite fclass_abs. destruct (fclass f); reflexivity. Qed.

Lemma fclass_opp f :
  fclass (PrimFloat.opp f) =
  match fclass f with FNaN => FNaN | FInf s => FInf (negb s) | FZero s => FZero (negb s) | FFin s => FFin (negb s) end.
Proof. unfold fclass. rewrite opp_spec. destruct (Prim2SF f); reflexivity. Qed.

Lemma opp_opp f : PrimFloat.opp (PrimFloat.opp f) = f.
Proof.
  apply Prim2SF_inj. rewrite !opp_spec.
  destruct (Prim2SF f) as [s|s| |s m e]; simpl; rewrite ?Bool.negb_involutive; reflexivity.
Qed.

Lemma eqb_refl f : fnan f = false -> PrimFloat.eqb f f = true.
Proof.
  unfold fnan, fclass. intro H. rewrite eqb_spec. unfold SFeqb, SFcompare.
  destruct (Prim2SF f) as [s|s| |s m e]; try discriminate; try reflexivity.
  - destruct s; reflexivity.
  - destruct s; rewrite Z.compare_refl, Pos.compare_cont_refl; reflexivity.
Qed.

Lemma float_same_refl f : float_same f f = true.
Proof.
  unfold float_same. destruct (Prim2SF f) as [s|s| |s m e]; try reflexivity;
    rewrite ?Bool.eqb_reflx, ?Pos.eqb_refl, ?Z.eqb_refl; reflexivity.
Qed.

Lemma float_same_eq a b : float_same a b = true -> a = b.
Proof.
  unfold float_same. intro H. apply Prim2SF_inj.
  destruct (Prim2SF a) as [s|s| |s m e], (Prim2SF b) as [s'|s'| |s' m' e']; try discriminate; try reflexivity.
  - apply Bool.eqb_prop in H. congruence.
  - apply Bool.eqb_prop in H. congruence.
  - apply andb_prop in H as [H He]. apply andb_prop in H as [Hs Hm].
    apply Bool.eqb_prop in Hs. apply Pos.eqb_eq in Hm. apply Z.eqb_eq in He. congruence.
Qed.

(* signed zeros are different values *)
Lemma zero_neq_neg_zero : zero <> neg_zero.
Proof. intro H. apply (f_equal Prim2SF) in H. vm_compute in H. discriminate. Qed.

(* ---------------------------------------------------------------------------------------------- *)
(* strings *)
Lemma pystr_eqb_refl s : pystr_eqb s s = true.
Proof.
  unfold pystr_eqb. rewrite Nat.eqb_refl. simpl.
  induction s as [|x r IH]; simpl; [reflexivity|]. rewrite N.eqb_refl. exact IH.
Qed.

Lemma pystr_eqb_eq a b : pystr_eqb a b = true -> a = b.
Proof.
  unfold pystr_eqb. intro H. apply andb_prop in H as [Hl Hc]. apply Nat.eqb_eq in Hl.
  revert b Hl Hc. induction a as [|x r IH]; intros [|y r'] Hl Hc; simpl in *; try discriminate; [reflexivity|].
  apply andb_prop in Hc as [Hx Hc]. apply N.eqb_eq in Hx. subst. f_equal. apply IH; [lia|exact Hc].
Qed.

Lemma strs_eqb_refl l : strs_eqb l l = true.
Proof. induction l as [|x r IH]; simpl; [reflexivity|]. rewrite String.eqb_refl. exact IH. Qed.

Lemma strs_eqb_eq a b : strs_eqb a b = true -> a = b.
Proof.
  revert b. induction a as [|x r IH]; intros [|y r'] H; simpl in H; try discriminate; [reflexivity|].
  apply andb_prop in H as [Hx Hr]. apply String.eqb_eq in Hx. subst. f_equal. apply IH. exact Hr.
Qed.

(* ---------------------------------------------------------------------------------------------- *)
(* == is reflexive on values that contain no NaN (and no approx objects) *)
Fixpoint nan_free (v : value) : bool :=
  match v with
  | VFloat f => negb (fnan f)
  | VComplex a b => negb (fnan a) && negb (fnan b)
  | VList l | VTuple l | VSet l => forallb nan_free l
  | VDict l => forallb (fun kv => nan_free (fst kv) && nan_free (snd kv)) l
  | VApprox _ _ _ _ | VObj _ _ _ => false
  | _ => true
  end.

Lemma seq_eq_refl (l : list value) :
  Forall (fun x => nan_free x = true -> py_eq x x = true) l -> forallb nan_free l = true ->
  (fix go (la lb : list value) : bool :=
     match la, lb with
     | [], [] => true
     | x :: r, y :: r' => py_eq x y && go r r'
     | _, _ => false
     end) l l = true.
Proof.
  induction 1 as [|x r Hx Hr IH]; simpl; intro Hn; [reflexivity|].
  apply andb_prop in Hn as [Hn1 Hn2]. rewrite (Hx Hn1). simpl. exact (IH Hn2).
Qed.

Lemma py_eq_refl : forall v, nan_free v = true -> py_eq v v = true.
Proof.
  induction v using value_ind_nested; intro Hn; simpl in Hn; try discriminate; try reflexivity.
  - simpl. destruct b; reflexivity.
  - simpl. rewrite Z.eqb_refl. reflexivity.
  - simpl. apply negb_true_iff in Hn. rewrite (eqb_refl _ Hn). reflexivity.
  - simpl. apply andb_prop in Hn as [Ha Hb]. apply negb_true_iff in Ha, Hb.
    rewrite (eqb_refl _ Ha), (eqb_refl _ Hb). reflexivity.
  - simpl. apply pystr_eqb_refl.
  - simpl. apply pystr_eqb_refl.
  - simpl. rewrite !String.eqb_refl. reflexivity.
  - simpl. apply seq_eq_refl; assumption.
  - simpl. apply seq_eq_refl; assumption.
  - simpl. rewrite Nat.eqb_refl. simpl. apply forallb_forall. intros x Hx.
    apply existsb_exists. exists x. split; [exact Hx|].
    rewrite Forall_forall in H. apply H; [exact Hx|].
    rewrite forallb_forall in Hn. apply Hn. exact Hx.
  - simpl. rewrite Nat.eqb_refl. simpl. apply forallb_forall. intros kv Hkv.
    apply existsb_exists. exists kv. split; [exact Hkv|].
    rewrite Forall_forall in H. destruct (H kv Hkv) as [Hk Hv].
    rewrite forallb_forall in Hn. specialize (Hn kv Hkv). apply andb_prop in Hn as [Hn1 Hn2].
    rewrite (Hk Hn1), (Hv Hn2). reflexivity.
  - simpl. rewrite String.eqb_refl, strs_eqb_refl. reflexivity.
Qed.

(* ---------------------------------------------------------------------------------------------- *)
(* building a set / dict from pairwise unequal elements keeps all of them, in order *)
Lemma set_build_distinct : forall l acc, distinct_from acc l = true -> set_build acc l = acc ++ l.
Proof.
  induction l as [|x r IH]; intros acc H; simpl in *; [now rewrite app_nil_r|].
  apply andb_prop in H as [Hx Hr]. apply negb_true_iff in Hx. rewrite Hx.
  rewrite (IH _ Hr), <- app_assoc. reflexivity.
Qed.

Lemma dict_set_new : forall acc k v, mem_eq k (map fst acc) = false -> dict_set acc k v = acc ++ [(k, v)].
Proof.
  induction acc as [|[k' v'] r IH]; intros k v H; simpl in *; [reflexivity|].
  apply orb_false_iff in H as [H1 H2]. rewrite H1. f_equal. apply IH. exact H2.
Qed.

Lemma dict_build_distinct : forall l acc,
  distinct_from (map fst acc) (map fst l) = true -> dict_build acc l = acc ++ l.
Proof.
  induction l as [|[k v] r IH]; intros acc H; simpl in *; [now rewrite app_nil_r|].
  apply andb_prop in H as [Hx Hr]. apply negb_true_iff in Hx.
  rewrite (dict_set_new _ _ _ Hx). rewrite IH.
  - rewrite <- app_assoc. reflexivity.
  - rewrite map_app. exact Hr.
Qed.

(* ---------------------------------------------------------------------------------------------- *)
(* mapM *)
Lemma mapM_map_ok {A B} (f : A -> res B) (h : B -> A) (l : list B) :
  Forall (fun x => f (h x) = Ok x) l -> mapM f (map h l) = Ok l.
Proof.
  induction 1 as [|x r Hx Hr IH]; simpl; [reflexivity|]. rewrite Hx, IH. reflexivity.
Qed.

Lemma mapM_exists {A B} (f : A -> res B) (P : B -> Prop) (l : list A) :
  Forall (fun x => exists y, f x = Ok y /\ P y) l -> exists ys, mapM f l = Ok ys /\ Forall P ys.
Proof.
  induction 1 as [|x r [y [Hy Py]] Hr [ys [IH Pys]]]; simpl.
  - exists []. split; [reflexivity|constructor].
  - exists (y :: ys). rewrite Hy, IH. split; [reflexivity|constructor; assumption].
Qed.

Lemma mapM_length {A B} (f : A -> res B) (l : list A) ys : mapM f l = Ok ys -> List.length ys = List.length l.
Proof.
  revert ys. induction l as [|x r IH]; simpl; intros ys H.
  - injection H as <-. reflexivity.
  - destruct (f x); [|discriminate]. destruct (mapM f r) eqn:E; [|discriminate].
    injection H as <-. simpl. f_equal. apply IH. reflexivity.
Qed.

(* ---------------------------------------------------------------------------------------------- *)
(* evaluation equations *)
Section Eval.
  Variables ftok itok stok btok : Type.
  Variable parse_float : ftok -> float.
  Variable parse_int : itok -> Z.
  Variable parse_str : stok -> pystr.
  Variable parse_bytes : btok -> pystr.
  Notation expr := (PyExpr.expr ftok itok stok btok).
  Notation eval := (PyExpr.eval parse_float parse_int parse_str parse_bytes).

  Lemma eval_neg g (a : expr) : eval g (ENeg a) = match eval g a with Ok v => neg_value v | Err x => Err x end.
  Proof. reflexivity. Qed.

  Lemma eval_list g (l : list expr) :
    eval g (EList l) = match mapM (eval g) l with Ok vs => Ok (VList vs) | Err x => Err x end.
  Proof. reflexivity. Qed.

  Lemma eval_tuple g (l : list expr) :
    eval g (ETuple l) = match mapM (eval g) l with Ok vs => Ok (VTuple vs) | Err x => Err x end.
  Proof. reflexivity. Qed.

  Lemma eval_set g (x : expr) r :
    eval g (ESet (x :: r)) =
    match mapM (eval g) (x :: r) with
    | Ok vs => if forallb hashable vs then Ok (VSet (set_build [] vs)) else Err TypeError
    | Err e => Err e
    end.
  Proof. reflexivity. Qed.

  Lemma eval_dict g (l : list (expr * expr)) :
    eval g (EDict l) =
    match mapM (fun p => match eval g (fst p) with
                         | Ok k => match eval g (snd p) with Ok v => Ok (k, v) | Err x => Err x end
                         | Err x => Err x
                         end) l with
    | Ok kvs => if forallb (fun kv => hashable (fst kv)) kvs then Ok (VDict (dict_build [] kvs)) else Err TypeError
    | Err x => Err x
    end.
  Proof. reflexivity. Qed.

  Lemma eval_call g (f : expr) args kw :
    eval g (ECall f args kw) =
    match mapM (eval g) args with
    | Err x => Err x
    | Ok vs =>
        match mapM (fun p => match eval g (snd p) with Ok v => Ok (fst p, v) | Err x => Err x end) kw with
        | Err x => Err x
        | Ok kvs => call_builtin _ _ _ _ g f vs kvs
        end
    end.
  Proof. reflexivity. Qed.

  Lemma eval_eq g (a b : expr) :
    eval g (EEq a b) =
    match eval g a with
    | Ok va => match eval g b with Ok vb => Ok (VBool (py_eq va vb)) | Err x => Err x end
    | Err x => Err x
    end.
  Proof. reflexivity. Qed.

  Lemma eval_is g (a b : expr) :
    eval g (EIs a b) =
    match eval g a with
    | Ok va => match eval g b with Ok vb => Ok (VBool (py_is va vb)) | Err x => Err x end
    | Err x => Err x
    end.
  Proof. reflexivity. Qed.

  Lemma eval_bool_name g (b : bool) :
    eval g (EName (if b then "True" else "False")%string) = Ok (VBool b).
  Proof. destruct b; reflexivity. Qed.

  (* float('inf') / float('-inf') / float('nan'), given the token reads back the string *)
  Lemma eval_float_call g (t : stok) s :
    unshadowed g "float" = true -> parse_str t = s2l s ->
    eval g (ECall (EName "float") [EStr t] []) =
    call_builtin _ _ _ _ g (EName "float" : expr) [VStr (s2l s)] [].
  Proof. intros Hu Hs. rewrite eval_call. simpl. rewrite Hs. reflexivity. Qed.

  Lemma call_float g s v :
    unshadowed g "float" = true ->
    (s = "inf"%string /\ v = infinity) \/ (s = "-inf"%string /\ v = neg_infinity) \/ (s = "nan"%string /\ v = nan) ->
    call_builtin _ _ _ _ g (EName "float" : expr) [VStr (s2l s)] [] = Ok (VFloat v).
  Proof.
    intros Hu H. unfold call_builtin. rewrite Hu.
    destruct H as [[-> ->]|[[-> ->]|[-> ->]]]; reflexivity.
  Qed.
End Eval.

End PyExprFacts.
