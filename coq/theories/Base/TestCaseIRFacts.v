(* Generic lemmas about the test-case IR (Base/TestCaseIR.v): scoping, bound variables, registry,
   reflection of the decidable well-formedness test, and preservation of WF by the elementary
   container operations.  Used by C15 and C19. *)
From Coq Require Import List NArith ZArith Bool Lia.
From Verif Require Import Base.TestCaseIR.
Import ListNotations. Import IR.

Lemma mem_In x l : mem x l = true <-> In x l.
Proof.
  unfold mem. rewrite existsb_exists. split.
  - intros [y [Hy He]]. apply N.eqb_eq in He. subst. exact Hy.
  - intros H. exists x. split; [exact H|apply N.eqb_refl].
Qed.

Lemma mem_false x l : mem x l = false <-> ~ In x l.
Proof.
  rewrite <- mem_In. destruct (mem x l); split; intro H; try congruence;
    try (exfalso; apply H; reflexivity).
Qed.

Lemma memn_In x l : memn x l = true <-> In x l.
Proof.
  unfold memn. rewrite existsb_exists. split.
  - intros [y [Hy He]]. apply Nat.eqb_eq in He. subst. exact Hy.
  - intros H. exists x. split; [exact H|apply Nat.eqb_refl].
Qed.

Lemma intersects_spec a b : intersects a b = true <-> exists x, In x a /\ In x b.
Proof.
  unfold intersects. rewrite existsb_exists. split; intros [x [H1 H2]]; exists x; split; auto;
    apply mem_In; auto.
Qed.

Lemma intersects_false a b : intersects a b = false <-> forall x, In x a -> ~ In x b.
Proof.
  split.
  - intros H x Ha Hb. assert (intersects a b = true) by (apply intersects_spec; eauto). congruence.
  - intros H. destruct (intersects a b) eqn:E; [|reflexivity].
    apply intersects_spec in E. destruct E as [x [Ha Hb]]. exfalso. eapply H; eauto.
Qed.

(* ------------------------------------------------------------------------------------------ *)
(* bound variables *)
Lemma bvars_app l1 l2 : bvars (l1 ++ l2) = bvars l1 ++ bvars l2.
Proof. unfold bvars. apply flat_map_app. Qed.

Lemma bvars_cons s l : bvars (s :: l) = bv s ++ bvars l.
Proof. reflexivity. Qed.

Lemma bv_In s v : In v (bv s) <-> bound s = Some v.
Proof.
  unfold bv. destruct (bound s); simpl; split; intro H.
  - destruct H as [H|[]]. congruence.
  - left. congruence.
  - destruct H.
  - discriminate.
Qed.

Lemma bvars_In l v : In v (bvars l) <-> exists s, In s l /\ bound s = Some v.
Proof.
  unfold bvars. rewrite in_flat_map. split; intros [s [H1 H2]]; exists s; split; auto;
    apply bv_In; auto.
Qed.

Lemma bvars_firstn_skipn l k : bvars l = bvars (firstn k l) ++ bvars (skipn k l).
Proof. rewrite <- bvars_app, firstn_skipn. reflexivity. Qed.

Lemma bvars_firstn_In l k v : In v (bvars (firstn k l)) -> In v (bvars l).
Proof. rewrite (bvars_firstn_skipn l k). intro. apply in_or_app. auto. Qed.

Lemma bvars_skipn_In l k v : In v (bvars (skipn k l)) -> In v (bvars l).
Proof. rewrite (bvars_firstn_skipn l k). intro. apply in_or_app. auto. Qed.

Lemma keep_bvars_In (marks : list bool) l v : In v (bvars (keep marks l)) -> In v (bvars l).
Proof.
  revert marks. induction l as [|s r IH]; intros marks H.
  - destruct marks; exact H.
  - destruct marks as [|m ms]; [exact H|]. simpl in H. destruct m.
    + rewrite bvars_cons. apply in_or_app. right. eapply IH; eauto.
    + rewrite bvars_cons in *. apply in_app_or in H. apply in_or_app. destruct H; [left; auto|].
      right. eapply IH; eauto.
Qed.

Lemma NoDup_app_l {A} (l1 l2 : list A) : NoDup (l1 ++ l2) -> NoDup l1.
Proof.
  induction l1 as [|x r IH]; simpl; intro H; [constructor|].
  inversion H; subst. constructor; [|auto]. intro Hx. apply H2. apply in_or_app. auto.
Qed.

Lemma NoDup_app_r {A} (l1 l2 : list A) : NoDup (l1 ++ l2) -> NoDup l2.
Proof.
  induction l1 as [|x r IH]; simpl; intro H; [exact H|]. inversion H; auto.
Qed.

Lemma NoDup_app_disj {A} (l1 l2 : list A) x : NoDup (l1 ++ l2) -> In x l1 -> In x l2 -> False.
Proof.
  induction l1 as [|y r IH]; simpl; intros H H1 H2; [destruct H1|].
  inversion H; subst. destruct H1 as [->|H1].
  - apply H4. apply in_or_app. auto.
  - eauto.
Qed.

Lemma NoDup_app_intro {A} (l1 l2 : list A) :
  NoDup l1 -> NoDup l2 -> (forall x, In x l1 -> In x l2 -> False) -> NoDup (l1 ++ l2).
Proof.
  induction l1 as [|y r IH]; simpl; intros H1 H2 Hd; [exact H2|].
  inversion H1; subst. constructor.
  - intro Hy. apply in_app_or in Hy. destruct Hy as [Hy|Hy]; [auto|]. eapply Hd; eauto.
  - apply IH; auto. intros x Hx. apply Hd. auto.
Qed.

Lemma keep_bvars_NoDup (marks : list bool) l : NoDup (bvars l) -> NoDup (bvars (keep marks l)).
Proof.
  revert marks. induction l as [|s r IH]; intros marks H.
  - destruct marks; exact H.
  - destruct marks as [|m ms]; [exact H|]. simpl. rewrite bvars_cons in H. destruct m.
    + apply IH. eapply NoDup_app_r; eauto.
    + rewrite bvars_cons. apply NoDup_app_intro.
      * eapply NoDup_app_l; eauto.
      * apply IH. eapply NoDup_app_r; eauto.
      * intros x H1 H2. apply keep_bvars_In in H2. eapply NoDup_app_disj; eauto.
Qed.

(* ------------------------------------------------------------------------------------------ *)
(* scoping *)
Lemma scoped_incl E1 E2 l : (forall x, In x E1 -> In x E2) -> scoped E1 l -> scoped E2 l.
Proof.
  revert E1 E2. induction l as [|s r IH]; simpl; intros E1 E2 Hi H; [exact I|].
  destruct H as [H1 H2]. split; [auto|].
  eapply IH; [|exact H2]. intros x Hx. apply in_app_or in Hx. apply in_or_app.
  destruct Hx; auto.
Qed.

Lemma scoped_app E l1 l2 : scoped E (l1 ++ l2) <-> scoped E l1 /\ scoped (bvars l1 ++ E) l2.
Proof.
  revert E. induction l1 as [|s r IH]; simpl; intro E.
  - tauto.
  - rewrite IH. split.
    + intros [H1 [H2 H3]]. repeat split; auto. eapply scoped_incl; [|exact H3].
      intros x Hx. rewrite <- app_assoc. apply in_app_or in Hx. apply in_or_app.
      destruct Hx as [Hx|Hx]; [right; apply in_or_app; auto|].
      apply in_app_or in Hx. destruct Hx; [left; auto|right; apply in_or_app; auto].
    + intros [[H1 H2] H3]. repeat split; auto. eapply scoped_incl; [|exact H3].
      intros x Hx. rewrite <- app_assoc in Hx. apply in_app_or in Hx. apply in_or_app.
      destruct Hx as [Hx|Hx]; [right; apply in_or_app; auto|].
      apply in_app_or in Hx. destruct Hx; [left; auto|right; apply in_or_app; auto].
Qed.

Lemma scoped_firstn E l k : scoped E l -> scoped E (firstn k l).
Proof. rewrite <- (firstn_skipn k l) at 1. rewrite scoped_app. tauto. Qed.

(* the statement at position i only reads variables bound by the statements before it *)
Lemma scoped_nth E l i s u :
  scoped E l -> nth_error l i = Some s -> In u (uses s) -> In u (bvars (firstn i l) ++ E).
Proof.
  revert E i. induction l as [|x r IH]; intros E i H Hn Hu; [destruct i; discriminate|].
  destruct i; cbn [firstn nth_error scoped] in *.
  - inversion Hn; subst. simpl. apply H. exact Hu.
  - destruct H as [_ H]. specialize (IH _ _ H Hn Hu). rewrite bvars_cons.
    apply in_app_or in IH. apply in_or_app. destruct IH as [IH|IH].
    + left. apply in_or_app. auto.
    + apply in_app_or in IH. destruct IH; [left; apply in_or_app; auto|right; auto].
Qed.

Lemma scopedb_spec E l : scopedb E l = true <-> scoped E l.
Proof.
  revert E. induction l as [|s r IH]; simpl; intro E; [tauto|].
  rewrite andb_true_iff, IH, forallb_forall. split; intros [H1 H2]; split; auto.
  - intros u Hu. apply mem_In. auto.
  - intros u Hu. apply mem_In. auto.
Qed.

Lemma nodupb_spec l : nodupb l = true <-> NoDup l.
Proof.
  induction l as [|x r IH]; simpl.
  - split; [constructor|reflexivity].
  - rewrite andb_true_iff, negb_true_iff, IH, mem_false. split.
    + intros [H1 H2]. constructor; auto.
    + intro H. inversion H; auto.
Qed.

Lemma list_eqb_spec {A} (e : A -> A -> bool) :
  (forall x y, e x y = true <-> x = y) -> forall l1 l2, list_eqb e l1 l2 = true <-> l1 = l2.
Proof.
  intros He. induction l1 as [|x r IH]; destruct l2 as [|y s]; simpl; try (split; congruence).
  rewrite andb_true_iff, He, IH. split; [intros [-> ->]; reflexivity|intro H; inversion H; auto].
Qed.

Lemma reg_eqb_spec r1 r2 : reg_eqb r1 r2 = true <-> r1 = r2.
Proof.
  unfold reg_eqb. apply list_eqb_spec. intros [t1 v1] [t2 v2]. simpl.
  rewrite andb_true_iff, N.eqb_eq. rewrite (list_eqb_spec N.eqb N.eqb_eq).
  split; [intros [-> ->]; reflexivity|intro H; inversion H; auto].
Qed.

Theorem wfb_spec t : wfb t = true <-> WF t.
Proof.
  unfold wfb. rewrite !andb_true_iff, scopedb_spec, nodupb_spec, reg_eqb_spec, forallb_forall.
  split.
  - intros [[[H1 H2] H3] H4]. constructor; auto. intros v Hv. apply N.ltb_lt. auto.
  - intros [H1 H2 H3 H4]. repeat split; auto. intros v Hv. apply N.ltb_lt. auto.
Qed.

(* ------------------------------------------------------------------------------------------ *)
(* registry *)
Lemma rebuild_app l s : rebuild (l ++ [s]) = register (rebuild l) s.
Proof. unfold rebuild. rewrite fold_left_app. reflexivity. Qed.

Lemma reg_get_add r t' v' t v :
  In v (reg_get (reg_add r t' v') t) -> In v (reg_get r t) \/ (t = t' /\ v = v').
Proof.
  induction r as [|[t0 vs] r IH]; simpl.
  - destruct (N.eqb t t') eqn:E; simpl; [|tauto]. apply N.eqb_eq in E.
    intros [H|[]]. right. auto.
  - destruct (N.eqb t' t0) eqn:E1; simpl.
    + apply N.eqb_eq in E1. subst t0. destruct (N.eqb t t') eqn:E2; [|tauto].
      apply N.eqb_eq in E2. intro H. apply in_app_or in H. destruct H as [H|[H|[]]]; auto.
    + destruct (N.eqb t t0); auto.
Qed.

Lemma reg_get_fold l : forall r0 t v,
  In v (reg_get (fold_left register l r0) t) -> In v (reg_get r0 t) \/ In v (bvars l).
Proof.
  induction l as [|s r IH]; cbn [fold_left]; intros r0 t v H; [auto|].
  apply IH in H. destruct H as [H|H].
  - unfold register in H. destruct (bound s) as [b|] eqn:Eb; [|auto].
    destruct (sty s) as [t'|]; [|auto]. apply reg_get_add in H. destruct H as [H|[_ ->]]; [auto|].
    right. rewrite bvars_cons. apply in_or_app. left. apply bv_In. exact Eb.
  - right. rewrite bvars_cons. apply in_or_app. auto.
Qed.

(* variables_of_type only offers variables bound in the test case *)
Lemma reg_get_bvars l t v : In v (reg_get (rebuild l) t) -> In v (bvars l).
Proof. intro H. apply reg_get_fold in H. destruct H as [[]|H]; exact H. Qed.

(* ------------------------------------------------------------------------------------------ *)
(* elementary operations preserve WF *)
Lemma WF_mk l c :
  scoped [] l -> NoDup (bvars l) -> (forall v, In v (bvars l) -> (v < c)%N) -> WF (mk l c).
Proof. intros. constructor; simpl; auto. Qed.

Lemma WF_empty : WF empty.
Proof. apply WF_mk; simpl; auto. constructor. intros v []. Qed.

Lemma clone_WF t : WF t -> WF (clone t).
Proof. intros [H1 H2 H3 H4]. apply WF_mk; auto. Qed.

Lemma clone_eq t : WF t -> clone t = t.
Proof. intros [H1 H2 H3 H4]. destruct t; unfold clone, with_stmts, mk; simpl in *. congruence. Qed.

Lemma next_var_WF t : WF t -> WF (snd (next_var_name t)).
Proof.
  intros [H1 H2 H3 H4]. constructor; simpl; auto. intros v Hv. apply H4 in Hv. lia.
Qed.

Lemma next_var_fresh t : WF t -> ~ In (fst (next_var_name t)) (bvars (stmts t)).
Proof. intros [H1 H2 H3 H4] H. simpl in H. apply H4 in H. lia. Qed.

(* keeping a selection of statements: uniqueness, registry and freshness are automatic *)
Lemma WF_keep t (marks : list bool) :
  WF t -> scoped [] (keep marks (stmts t)) -> WF (with_stmts t (keep marks (stmts t))).
Proof.
  intros [H1 H2 H3 H4] Hs. apply WF_mk; auto.
  - apply keep_bvars_NoDup. exact H2.
  - intros v Hv. apply H4. eapply keep_bvars_In; eauto.
Qed.

Lemma WF_firstn t k : WF t -> WF (with_stmts t (firstn k (stmts t))).
Proof.
  intros [H1 H2 H3 H4]. apply WF_mk.
  - apply scoped_firstn. exact H1.
  - rewrite (bvars_firstn_skipn (stmts t) k) in H2. eapply NoDup_app_l; eauto.
  - intros v Hv. apply H4. eapply bvars_firstn_In; eauto.
Qed.

Lemma chop_WF t p : WF t -> WF (chop t p).
Proof.
  intro H. unfold chop. destruct (p <? 0)%Z.
  - apply WF_mk; simpl; auto. constructor. intros v [].
  - apply WF_firstn. exact H.
Qed.

(* insertion: the new statement reads only variables bound before the insertion point and binds a
   name that is new to the test case and below the counter *)
Definition ins_ok (t : tc) (i : nat) (s : stmt) : Prop :=
  (forall u, In u (uses s) -> In u (bvars (firstn i (stmts t)))) /\
  (forall v, bound s = Some v -> ~ In v (bvars (stmts t)) /\ (v < counter t)%N).

Lemma insert_WF t i s : WF t -> ins_ok t i s -> WF (insert_statement t i s).
Proof.
  intros [H1 H2 H3 H4] [Hu Hb]. unfold insert_statement. apply WF_mk.
  - rewrite <- (firstn_skipn i (stmts t)) in H1. apply scoped_app in H1. destruct H1 as [Ha Hc].
    apply scoped_app. split; [exact Ha|]. simpl. split.
    + intros u Hx. apply in_or_app. left. auto.
    + eapply scoped_incl; [|exact Hc]. intros x Hx. apply in_or_app. right. exact Hx.
  - rewrite bvars_app, bvars_cons.
    rewrite (bvars_firstn_skipn (stmts t) i) in H2.
    apply NoDup_app_intro.
    + eapply NoDup_app_l; eauto.
    + apply NoDup_app_intro.
      * unfold bv. destruct (bound s); repeat constructor. intros [].
      * eapply NoDup_app_r; eauto.
      * intros x Hx Hy. apply bv_In in Hx. apply Hb in Hx. destruct Hx as [Hx _].
        apply Hx. eapply bvars_skipn_In; eauto.
    + intros x Hx Hy. apply in_app_or in Hy. destruct Hy as [Hy|Hy].
      * apply bv_In in Hy. apply Hb in Hy. destruct Hy as [Hy _]. apply Hy.
        eapply bvars_firstn_In; eauto.
      * eapply NoDup_app_disj; eauto.
  - intros v Hv. rewrite bvars_app, bvars_cons in Hv.
    apply in_app_or in Hv. destruct Hv as [Hv|Hv].
    + apply H4. eapply bvars_firstn_In; eauto.
    + apply in_app_or in Hv. destruct Hv as [Hv|Hv].
      * apply bv_In in Hv. apply Hb in Hv. tauto.
      * apply H4. eapply bvars_skipn_In; eauto.
Qed.

Lemma add_as_insert t s : WF t -> add_statement t s = insert_statement t (size t) s.
Proof.
  intros [H1 H2 H3 H4]. unfold add_statement, insert_statement, with_stmts, mk, size.
  rewrite firstn_all, skipn_all. f_equal. rewrite rebuild_app, H3. reflexivity.
Qed.

Lemma add_WF t s : WF t -> ins_ok t (size t) s -> WF (add_statement t s).
Proof. intros H Hi. rewrite add_as_insert by exact H. apply insert_WF; auto. Qed.

(* replacement: the new statement reads only earlier variables and either keeps the bound name, or
   the old statement bound nothing and the new name is new *)
Definition repl_ok (t : tc) (i : nat) (s : stmt) : Prop :=
  (forall u, In u (uses s) -> In u (bvars (firstn i (stmts t)))) /\
  match nth_error (stmts t) i with
  | Some old => bound s = bound old \/
                (bound old = None /\
                 forall v, bound s = Some v -> ~ In v (bvars (stmts t)) /\ (v < counter t)%N)
  | None => True
  end.

Lemma nth_error_split_eq {A} (l : list A) i x :
  nth_error l i = Some x -> l = firstn i l ++ x :: skipn (S i) l.
Proof.
  revert i. induction l as [|y r IH]; intros [|i] H; simpl in *; try discriminate.
  - inversion H. reflexivity.
  - f_equal. apply IH. exact H.
Qed.

Lemma replace_WF t i s : WF t -> repl_ok t i s -> WF (replace_statement t i s).
Proof.
  intros HW [Hu Hb]. unfold replace_statement. destruct (i <? size t) eqn:Ei; [|exact HW].
  apply Nat.ltb_lt in Ei. unfold size in Ei.
  destruct (nth_error (stmts t) i) as [old|] eqn:En;
    [|apply nth_error_None in En; lia].
  destruct HW as [H1 H2 H3 H4].
  pose proof (nth_error_split_eq _ _ _ En) as Hsplit.
  set (l1 := firstn i (stmts t)) in *. set (l2 := skipn (S i) (stmts t)) in *.
  rewrite Hsplit in H1, H2, H4. rewrite bvars_app, bvars_cons in H2, H4.
  apply scoped_app in H1. destruct H1 as [Ha [Hc Hd]].
  assert (Hsub : forall x, In x (bv s) -> In x (bv old) \/
                 (bound old = None /\ ~ In x (bvars l1 ++ bv old ++ bvars l2) /\ (x < counter t)%N)).
  { intros x Hx. apply bv_In in Hx. destruct Hb as [Hb|[Hb1 Hb2]].
    - left. apply bv_In. congruence.
    - right. split; [exact Hb1|]. apply Hb2 in Hx. rewrite Hsplit in Hx.
      rewrite bvars_app, bvars_cons in Hx. exact Hx. }
  assert (Hold : forall x, In x (bv old) -> In x (bv s)).
  { intros x Hx. apply bv_In in Hx. destruct Hb as [Hb|[Hb1 _]]; [apply bv_In; congruence|congruence]. }
  apply WF_mk.
  - apply scoped_app. split; [exact Ha|]. simpl. split.
    + intros u Hx. apply in_or_app. left. auto.
    + eapply scoped_incl; [|exact Hd]. intros x Hx. apply in_app_or in Hx. apply in_or_app.
      destruct Hx as [Hx|Hx]; [left; auto|right; exact Hx].
  - rewrite bvars_app, bvars_cons. apply NoDup_app_intro.
    + eapply NoDup_app_l; eauto.
    + apply NoDup_app_intro.
      * unfold bv. destruct (bound s); repeat constructor. intros [].
      * apply NoDup_app_r in H2. eapply NoDup_app_r; eauto.
      * intros x Hx Hy. apply Hsub in Hx. destruct Hx as [Hx|[_ [Hx _]]].
        -- apply NoDup_app_r in H2. eapply NoDup_app_disj; eauto.
        -- apply Hx. apply in_or_app. right. apply in_or_app. auto.
    + intros x Hx Hy. apply in_app_or in Hy. destruct Hy as [Hy|Hy].
      * apply Hsub in Hy. destruct Hy as [Hy|[_ [Hy _]]].
        -- eapply NoDup_app_disj; [exact H2|exact Hx|]. apply in_or_app. auto.
        -- apply Hy. apply in_or_app. auto.
      * eapply NoDup_app_disj; [exact H2|exact Hx|]. apply in_or_app. auto.
  - intros v Hv. rewrite bvars_app, bvars_cons in Hv. apply in_app_or in Hv.
    destruct Hv as [Hv|Hv]; [apply H4; apply in_or_app; auto|].
    apply in_app_or in Hv. destruct Hv as [Hv|Hv].
    + apply Hsub in Hv. destruct Hv as [Hv|[_ [_ Hv]]]; [|exact Hv].
      apply H4. apply in_or_app. right. apply in_or_app. auto.
    + apply H4. apply in_or_app. right. apply in_or_app. auto.
Qed.
