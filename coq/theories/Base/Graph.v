(* Finite directed graphs over [N] identifiers: executable reachability with a complete
   specification (no fuel hypothesis left in the statement), walks as node lists.
   Used by C06 (post-dominance, control dependence) and C07 (goal graph reachability). *)
From Coq Require Import List NArith Bool Arith Lia.
Import ListNotations.

Module Graph.

Notation edge := (N * N)%type.

Definition memb (x : N) (l : list N) : bool := existsb (N.eqb x) l.

Lemma memb_In x l : memb x l = true <-> In x l.
Proof.
  unfold memb. rewrite existsb_exists. split.
  - intros [y [Hy He]]. apply N.eqb_eq in He. subst. exact Hy.
  - intro H. exists x. split; [exact H | apply N.eqb_refl].
Qed.

Lemma memb_false x l : memb x l = false <-> ~ In x l.
Proof.
  rewrite <- memb_In. destruct (memb x l); split; intro H.
  - discriminate H.
  - exfalso. apply H. reflexivity.
  - intro H1. discriminate H1.
  - reflexivity.
Qed.

(* ---------------------------------------------------------------- reachability (relation) *)
Inductive reach (E : list edge) (a : N) : N -> Prop :=
| reach_refl : reach E a a
| reach_step y z : reach E a y -> In (y, z) E -> reach E a z.

Lemma reach_trans E a b c : reach E a b -> reach E b c -> reach E a c.
Proof.
  intros Hab Hbc. induction Hbc as [|y z _ IH Hyz]; [exact Hab|].
  eapply reach_step; eauto.
Qed.

Lemma reach_one E a b : In (a, b) E -> reach E a b.
Proof. intro H. eapply reach_step; [apply reach_refl | exact H]. Qed.

Lemma reach_incl E E' a b : incl E E' -> reach E a b -> reach E' a b.
Proof.
  intros Hi H. induction H as [|y z _ IH Hyz]; [apply reach_refl|].
  eapply reach_step; [exact IH | apply Hi; exact Hyz].
Qed.

(* ---------------------------------------------------------------- reachability (executable) *)
Definition expand_step (acc : list N) (e : edge) : list N :=
  if memb (fst e) acc && negb (memb (snd e) acc) then snd e :: acc else acc.

Definition expand (E : list edge) (S : list N) : list N := fold_left expand_step E S.

Fixpoint iter (E : list edge) (fuel : nat) (S : list N) : list N :=
  match fuel with
  | O => S
  | Datatypes.S f =>
      let S' := expand E S in
      if Nat.eqb (length S') (length S) then S else iter E f S'
  end.

Definition reach_set (E : list edge) (init : list N) : list N :=
  iter E (Datatypes.S (length init + length E)) (nodup N.eq_dec init).

Definition reachb (E : list edge) (a b : N) : bool := memb b (reach_set E [a]).

(* invariants of one pass *)
Definition sound_set (E : list edge) (init S : list N) : Prop :=
  forall x, In x S -> exists a, In a init /\ reach E a x.

Definition within (E : list edge) (init S : list N) : Prop :=
  incl S (init ++ map snd E).

Lemma expand_step_shape acc e :
  expand_step acc e = acc \/
  (expand_step acc e = snd e :: acc /\ In (fst e) acc /\ ~ In (snd e) acc).
Proof.
  unfold expand_step.
  destruct (memb (fst e) acc) eqn:H1; cbn [andb]; [|left; reflexivity].
  destruct (memb (snd e) acc) eqn:H2; cbn [negb]; [left; reflexivity|].
  right. split; [reflexivity|]. split; [apply memb_In; exact H1 | apply memb_false; exact H2].
Qed.

Lemma expand_app : forall E0 S, exists new, fold_left expand_step E0 S = new ++ S.
Proof.
  induction E0 as [|e r IH]; intro S; cbn [fold_left].
  - exists []. reflexivity.
  - destruct (expand_step_shape S e) as [H | [H _]]; rewrite H.
    + apply IH.
    + destruct (IH (snd e :: S)) as [new Hn]. exists (new ++ [snd e]).
      rewrite Hn, <- app_assoc. reflexivity.
Qed.

Lemma expand_length_ge E0 S : length S <= length (fold_left expand_step E0 S).
Proof. destruct (expand_app E0 S) as [new H]. rewrite H, app_length. lia. Qed.

Lemma expand_incl E0 S : incl S (fold_left expand_step E0 S).
Proof. destruct (expand_app E0 S) as [new H]. rewrite H. apply incl_appr, incl_refl. Qed.

Lemma expand_same_length_eq E0 S :
  length (fold_left expand_step E0 S) = length S -> fold_left expand_step E0 S = S.
Proof.
  destruct (expand_app E0 S) as [new H]. rewrite H, app_length. intro Hl.
  destruct new; [reflexivity | cbn [length] in Hl; lia].
Qed.

(* if a pass adds nothing, every edge of the pass is closed w.r.t. the set *)
Lemma expand_fix_closed : forall E0 S,
  length (fold_left expand_step E0 S) = length S ->
  forall y z, In (y, z) E0 -> In y S -> In z S.
Proof.
  induction E0 as [|e r IH]; intros S Hl y z Hin Hy; [destruct Hin|].
  cbn [fold_left] in Hl.
  pose proof (expand_length_ge r (expand_step S e)) as Hge.
  destruct (expand_step_shape S e) as [H | [H _]].
  - rewrite H in Hl.
    destruct Hin as [He | Hin].
    + subst e. unfold expand_step in H. cbn [fst snd] in H.
      apply memb_In in Hy. rewrite Hy in H. cbn [andb] in H.
      destruct (memb z S) eqn:Hz; [apply memb_In; exact Hz|].
      cbn [negb] in H. exfalso.
      assert (Hlen : length (z :: S) = length S) by (rewrite H; reflexivity).
      cbn [length] in Hlen. lia.
    + eapply IH; eauto.
  - rewrite H in Hl, Hge. cbn [length] in Hge. lia.
Qed.

Lemma expand_NoDup : forall E0 S, NoDup S -> NoDup (fold_left expand_step E0 S).
Proof.
  induction E0 as [|e r IH]; intros S Hn; cbn [fold_left]; [exact Hn|].
  apply IH. destruct (expand_step_shape S e) as [H | [H [_ Hni]]]; rewrite H; [exact Hn|].
  constructor; assumption.
Qed.

Lemma expand_sound E init : forall E0 S, incl E0 E ->
  sound_set E init S -> sound_set E init (fold_left expand_step E0 S).
Proof.
  induction E0 as [|e r IH]; intros S Hi Hs; cbn [fold_left]; [exact Hs|].
  apply IH; [intros x Hx; apply Hi; right; exact Hx|].
  destruct (expand_step_shape S e) as [H | [H [Hf _]]]; rewrite H; [exact Hs|].
  intros x [Hx | Hx]; [|apply Hs; exact Hx]. subst x.
  destruct (Hs _ Hf) as [a [Ha Hr]]. exists a. split; [exact Ha|].
  eapply reach_step; [exact Hr|]. apply Hi. left. destruct e; reflexivity.
Qed.

Lemma expand_within E init : forall E0 S, incl E0 E ->
  within E init S -> within E init (fold_left expand_step E0 S).
Proof.
  induction E0 as [|e r IH]; intros S Hi Hw; cbn [fold_left]; [exact Hw|].
  apply IH; [intros x Hx; apply Hi; right; exact Hx|].
  destruct (expand_step_shape S e) as [H | [H _]]; rewrite H; [exact Hw|].
  intros x [Hx | Hx]; [|apply Hw; exact Hx]. subst x.
  apply in_or_app. right. apply in_map. apply Hi. left. reflexivity.
Qed.

Definition closed (E : list edge) (S : list N) : Prop :=
  forall y z, In (y, z) E -> In y S -> In z S.

Lemma iter_spec E init : forall fuel S,
  NoDup S -> sound_set E init S -> within E init S -> incl init S ->
  length init + length E < fuel + length S ->
  let R := iter E fuel S in
  closed E R /\ sound_set E init R /\ incl init R /\ NoDup R.
Proof.
  induction fuel as [|f IH]; intros S Hnd Hs Hw Hi Hlt.
  - exfalso.
    pose proof (NoDup_incl_length Hnd Hw) as Hle.
    rewrite app_length, map_length in Hle. lia.
  - cbn [iter]. unfold expand.
    destruct (Nat.eqb (length (fold_left expand_step E S)) (length S)) eqn:Heq.
    + apply Nat.eqb_eq in Heq. repeat split; try assumption.
      intros y z Hyz Hy. eapply expand_fix_closed; eauto.
    + apply Nat.eqb_neq in Heq.
      pose proof (expand_length_ge E S) as Hge.
      apply IH.
      * apply expand_NoDup; exact Hnd.
      * apply expand_sound; [apply incl_refl | exact Hs].
      * apply expand_within; [apply incl_refl | exact Hw].
      * eapply incl_tran; [exact Hi | apply expand_incl].
      * lia.
Qed.

Lemma reach_set_props E init :
  let R := reach_set E init in
  closed E R /\ sound_set E init R /\ incl init R /\ NoDup R.
Proof.
  unfold reach_set. apply iter_spec.
  - apply NoDup_nodup.
  - intros x Hx. apply nodup_In in Hx. exists x. split; [exact Hx | apply reach_refl].
  - intros x Hx. apply nodup_In in Hx. apply in_or_app. left. exact Hx.
  - intros x Hx. apply nodup_In. exact Hx.
  - pose proof (NoDup_nodup N.eq_dec init). lia.
Qed.

(* The specification: sound and complete for every finite graph, no side condition. *)
Theorem reach_set_spec E init x :
  In x (reach_set E init) <-> exists a, In a init /\ reach E a x.
Proof.
  destruct (reach_set_props E init) as [Hc [Hs [Hi _]]]. split.
  - apply Hs.
  - intros [a [Ha Hr]]. induction Hr as [|y z _ IH Hyz]; [apply Hi; exact Ha|].
    eapply Hc; eauto.
Qed.

Lemma reach_set_NoDup E init : NoDup (reach_set E init).
Proof. apply reach_set_props. Qed.

Theorem reachb_spec E a b : reachb E a b = true <-> reach E a b.
Proof.
  unfold reachb. rewrite memb_In, reach_set_spec. split.
  - intros [a' [[Ha | []] Hr]]. subst. exact Hr.
  - intro Hr. exists a. split; [left; reflexivity | exact Hr].
Qed.

(* ---------------------------------------------------------------- reversed graphs *)
(* The edge list is also reversed: one pass of [expand] then propagates along a whole backward
   chain of a forward-sorted edge list (fewer passes; irrelevant for the specification). *)
Definition rev_edges (E : list edge) : list edge := rev (map (fun e => (snd e, fst e)) E).

Lemma rev_edges_In E a b : In (a, b) (rev_edges E) <-> In (b, a) E.
Proof.
  unfold rev_edges. rewrite <- in_rev, in_map_iff. split.
  - intros [[x y] [He Hin]]. cbn [fst snd] in He. inversion He; subst. exact Hin.
  - intro H. exists (b, a). split; [reflexivity | exact H].
Qed.

(* "1n" view of reach, used to flip direction *)
Lemma reach_cons E a b c : In (a, b) E -> reach E b c -> reach E a c.
Proof. intros H Hr. eapply reach_trans; [apply reach_one; exact H | exact Hr]. Qed.

Lemma reach_rev E a b : reach (rev_edges E) a b <-> reach E b a.
Proof.
  split; intro H.
  - induction H as [|y z _ IH Hyz]; [apply reach_refl|].
    apply (proj1 (rev_edges_In _ _ _)) in Hyz. eapply reach_cons; eauto.
  - induction H as [|y z _ IH Hyz]; [apply reach_refl|].
    eapply reach_cons; [apply rev_edges_In; exact Hyz | exact IH].
Qed.

(* ---------------------------------------------------------------- walks as node lists *)
(* [walk E x p z]: p lists the nodes of a walk from x to z, both endpoints included. *)
Inductive walk (E : list edge) : N -> list N -> N -> Prop :=
| walk_nil x : walk E x [x] x
| walk_cons x y p z : In (x, y) E -> walk E y p z -> walk E x (x :: p) z.

Lemma walk_head E x p z : walk E x p z -> exists q, p = x :: q.
Proof. intro H. destruct H; eauto. Qed.

Lemma walk_in_start E x p z : walk E x p z -> In x p.
Proof. intro H. destruct (walk_head _ _ _ _ H) as [q ->]. left. reflexivity. Qed.

Lemma walk_in_end E x p z : walk E x p z -> In z p.
Proof. intro H. induction H; [left; reflexivity | right; assumption]. Qed.

Lemma walk_reach E x p z : walk E x p z -> reach E x z.
Proof. intro H. induction H; [apply reach_refl | eapply reach_cons; eauto]. Qed.

Lemma walk_snoc E x p y z : walk E x p y -> In (y, z) E -> walk E x (p ++ [z]) z.
Proof.
  intros H Hyz. induction H as [x | x y' p y Hxy _ IH].
  - cbn [app]. apply walk_cons with (y := z); [exact Hyz | apply walk_nil].
  - cbn [app]. eapply walk_cons; [exact Hxy | apply IH; exact Hyz].
Qed.

Lemma reach_walk E x z : reach E x z -> exists p, walk E x p z.
Proof.
  intro H. induction H as [|y z _ [p Hp] Hyz].
  - exists [x]. apply walk_nil.
  - exists (p ++ [z]). eapply walk_snoc; eauto.
Qed.

Lemma walk_app E x p y q z : walk E x p y -> walk E y (y :: q) z -> walk E x (p ++ q) z.
Proof.
  intros H1 H2. induction H1 as [x | x y' p y Hxy _ IH].
  - cbn [app]. exact H2.
  - cbn [app]. eapply walk_cons; [exact Hxy | apply IH; exact H2].
Qed.

Lemma walk_incl E E' x p z : incl E E' -> walk E x p z -> walk E' x p z.
Proof.
  intros Hi H. induction H; [apply walk_nil|]. eapply walk_cons; [apply Hi|]; eauto.
Qed.

(* ---------------------------------------------------------------- walks avoiding a node *)
Definition avoid (E : list edge) (b : N) : list edge :=
  filter (fun e => negb (N.eqb (fst e) b) && negb (N.eqb (snd e) b)) E.

Lemma avoid_In E b x y : In (x, y) (avoid E b) <-> In (x, y) E /\ x <> b /\ y <> b.
Proof.
  unfold avoid. rewrite filter_In. cbn [fst snd].
  rewrite andb_true_iff, !negb_true_iff, !N.eqb_neq. tauto.
Qed.

Lemma walk_avoid E b x p z :
  walk (avoid E b) x p z -> x <> b -> walk E x p z /\ ~ In b p.
Proof.
  intros H. induction H as [x | x y p z Hxy _ IH]; intro Hx.
  - split; [apply walk_nil|]. intros [H | []]. congruence.
  - apply avoid_In in Hxy. destruct Hxy as [Hxy [_ Hy]].
    destruct (IH Hy) as [Hw Hn]. split; [eapply walk_cons; eauto|].
    intros [H | H]; [congruence | exact (Hn H)].
Qed.

Lemma avoid_walk E b x p z :
  walk E x p z -> ~ In b p -> walk (avoid E b) x p z.
Proof.
  intros H. induction H as [x | x y p z Hxy Hw IH]; intro Hn.
  - apply walk_nil.
  - assert (Hx : x <> b) by (intro; apply Hn; left; assumption).
    assert (Hnp : ~ In b p) by (intro; apply Hn; right; assumption).
    assert (Hy : y <> b).
    { intro. apply Hnp. subst y. eapply walk_in_start; eauto. }
    eapply walk_cons; [apply avoid_In; split; [exact Hxy | split; [exact Hx | exact Hy]] | apply IH; exact Hnp].
Qed.

End Graph.
