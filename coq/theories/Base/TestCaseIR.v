(* TestCaseIR — abstract model of pynguin.testcase.testcase.TestCase / Statement (libcst backed).

   A statement is abstracted to the variable it binds, the variables it reads (in the iteration
   order of Statement.used_variables(), restricted to test-case variables), its bound type (a code),
   its assertions, whether remove_unused_variables can turn it into an expression statement
   ([conv]: a SimpleStatementLine holding an Assign with one target) and a code of its right-hand
   side text with variable names normalised ([node]).  A test case is the statement list plus
   _var_counter and _type_registry (insertion-ordered dict type -> names).

   Definitions only mirror the Python container operations; lemmas are in Base/TestCaseIRFacts.v.
   Used by C15 and C19. *)
From Coq Require Import List NArith ZArith Bool.
Import ListNotations.

Module IR.

Definition var := N.
Definition ty := N.

(* a_root: variable the assertion source is rooted at (None: exception assertion, or a source
   rooted at the module alias); a_render: assertion_to_cst yields a node (false for
   ExceptionAssertion, which the writer renders structurally). *)
Record assertion := { a_root : option var; a_render : bool; a_id : N }.

Record stmt := {
  bound : option var;
  uses : list var;
  sty : option ty;
  asserts : list assertion;
  conv : bool;
  node : N }.

Definition registry := list (ty * list var).

Record tc := { stmts : list stmt; counter : N; reg : registry }.

(* ------------------------------------------------------------------------------------------ *)
(* small helpers *)
Definition mem (x : N) (l : list N) : bool := existsb (N.eqb x) l.
Definition memn (x : nat) (l : list nat) : bool := existsb (Nat.eqb x) l.
Definition intersects (a b : list N) : bool := existsb (fun x => mem x b) a.

Definition bv (s : stmt) : list var := match bound s with Some v => [v] | None => [] end.
Definition bvars (l : list stmt) : list var := flat_map bv l.

(* ------------------------------------------------------------------------------------------ *)
(* registry: _register / _rebuild_registry / variables_of_type *)
Fixpoint reg_add (r : registry) (t : ty) (v : var) : registry :=
  match r with
  | [] => [(t, [v])]
  | (t', vs) :: r' => if N.eqb t t' then (t', vs ++ [v]) :: r' else (t', vs) :: reg_add r' t v
  end.

Definition register (r : registry) (s : stmt) : registry :=
  match bound s, sty s with
  | Some v, Some t => reg_add r t v
  | _, _ => r
  end.

Definition rebuild (l : list stmt) : registry := fold_left register l [].

Fixpoint reg_get (r : registry) (t : ty) : list var :=
  match r with
  | [] => []
  | (t', vs) :: r' => if N.eqb t t' then vs else reg_get r' t
  end.

(* ------------------------------------------------------------------------------------------ *)
(* well-formedness *)
Fixpoint scoped (E : list var) (l : list stmt) : Prop :=
  match l with
  | [] => True
  | s :: r => (forall u, In u (uses s) -> In u E) /\ scoped (bv s ++ E) r
  end.

Record WF (t : tc) : Prop := {
  wf_scoped : scoped [] (stmts t);                         (* every read is bound earlier *)
  wf_nodup : NoDup (bvars (stmts t));                      (* bound names are unique *)
  wf_reg : reg t = rebuild (stmts t);                      (* registry matches the statements *)
  wf_fresh : forall v, In v (bvars (stmts t)) -> (v < counter t)%N   (* next_var_name is fresh *)
}.

(* decidable counterpart (proved equivalent in TestCaseIRFacts) *)
Fixpoint scopedb (E : list var) (l : list stmt) : bool :=
  match l with
  | [] => true
  | s :: r => forallb (fun u => mem u E) (uses s) && scopedb (bv s ++ E) r
  end.

Fixpoint nodupb (l : list N) : bool :=
  match l with
  | [] => true
  | x :: r => negb (mem x r) && nodupb r
  end.

Fixpoint list_eqb {A} (e : A -> A -> bool) (l1 l2 : list A) : bool :=
  match l1, l2 with
  | [], [] => true
  | x :: r, y :: s => e x y && list_eqb e r s
  | _, _ => false
  end.

Definition reg_eqb : registry -> registry -> bool :=
  list_eqb (fun a b => N.eqb (fst a) (fst b) && list_eqb N.eqb (snd a) (snd b)).

Definition wfb (t : tc) : bool :=
  scopedb [] (stmts t) && nodupb (bvars (stmts t)) && reg_eqb (reg t) (rebuild (stmts t))
  && forallb (fun v => N.ltb v (counter t)) (bvars (stmts t)).

(* ------------------------------------------------------------------------------------------ *)
(* container operations *)
Definition mk (l : list stmt) (c : N) : tc := {| stmts := l; counter := c; reg := rebuild l |}.
Definition with_stmts (t : tc) (l : list stmt) : tc := mk l (counter t).
Definition empty : tc := mk [] 0.
Definition size (t : tc) : nat := length (stmts t).

(* add_statement: append + incremental _register *)
Definition add_statement (t : tc) (s : stmt) : tc :=
  {| stmts := stmts t ++ [s]; counter := counter t; reg := register (reg t) s |}.

(* insert_statement: list.insert + rebuild (index >= 0; beyond the end appends) *)
Definition insert_statement (t : tc) (i : nat) (s : stmt) : tc :=
  with_stmts t (firstn i (stmts t) ++ s :: skipn i (stmts t)).

(* keep: drop the marked elements *)
Fixpoint keep {A} (marks : list bool) (l : list A) : list A :=
  match marks, l with
  | m :: ms, x :: r => if m then keep ms r else x :: keep ms r
  | _, _ => l
  end.

Definition idx_marks (p : nat -> bool) (n : nat) : list bool := map p (seq 0 n).

(* remove_statement: pop(index); IndexError leaves the test case unchanged *)
Definition remove_statement (t : tc) (i : nat) : tc :=
  if i <? size t then with_stmts t (keep (idx_marks (Nat.eqb i) (size t)) (stmts t)) else t.

(* replace_statement: _statements[index] = stmt *)
Definition replace_statement (t : tc) (i : nat) (s : stmt) : tc :=
  if i <? size t then with_stmts t (firstn i (stmts t) ++ s :: skipn (S i) (stmts t)) else t.

(* remove_statements_batch *)
Definition remove_batch (t : tc) (idxs : list nat) : tc :=
  with_stmts t (keep (idx_marks (fun j => memn j idxs) (size t)) (stmts t)).

(* chop(position): keeps 0..position; a negative position removes everything.  (The code goes
   through remove_statements_batch(range(position+1, size)); keeping a prefix is the same list.) *)
Definition chop (t : tc) (p : Z) : tc :=
  if (p <? 0)%Z then with_stmts t [] else with_stmts t (firstn (S (Z.to_nat p)) (stmts t)).

Definition next_var_name (t : tc) : var * tc :=
  (counter t, {| stmts := stmts t; counter := N.succ (counter t); reg := reg t |}).

Definition clone (t : tc) : tc := with_stmts t (stmts t).

(* ------------------------------------------------------------------------------------------ *)
(* forward dependencies: TestCase.forward_dependencies (strict = false: `changed` is set whenever a
   statement joins the closure) and TestFactory.delete_statement_gracefully (strict = true:
   `changed` only when a new dead variable appears).  [marks] ranges over the statements after
   the root; T is tainted_names / dead_vars. *)
Definition taint (T : list var) (s : stmt) : list var :=
  match bound s with
  | Some v => if mem v T then T else v :: T
  | None => T
  end.

Fixpoint pass (strict : bool) (T : list var) (marks : list bool) (l : list stmt)
  : list var * list bool * bool :=
  match marks, l with
  | m :: ms, s :: r =>
      if m then
        let '(T', ms', ch) := pass strict T ms r in (T', true :: ms', ch)
      else if intersects (uses s) T then
        let newv := match bound s with Some v => negb (mem v T) | None => false end in
        let '(T', ms', ch) := pass strict (taint T s) ms r in
        (T', true :: ms', if strict then newv || ch else true)
      else
        let '(T', ms', ch) := pass strict T ms r in (T', false :: ms', ch)
  | _, _ => (T, [], false)
  end.

Fixpoint loop (strict : bool) (fuel : nat) (T : list var) (marks : list bool) (l : list stmt)
  : list bool :=
  match fuel with
  | 0 => marks
  | S f => let '(T', ms', ch) := pass strict T marks l in
           if ch then loop strict f T' ms' l else ms'
  end.

Definition fwd_marks (strict : bool) (l : list stmt) (i : nat) : list bool :=
  match nth_error l i with
  | None => []
  | Some s0 => let suf := skipn (S i) l in
               loop strict (S (length suf)) (bv s0) (repeat false (length suf)) suf
  end.

(* remove_statement_with_forward_dependencies / delete_statement_gracefully *)
Definition remove_fwd (strict : bool) (t : tc) (i : nat) : tc :=
  match nth_error (stmts t) i with
  | None => t
  | Some _ => with_stmts t (firstn i (stmts t)
                            ++ keep (fwd_marks strict (stmts t) i) (skipn (S i) (stmts t)))
  end.

(* single forward sweep (what the loop computes on well-formed test cases) *)
Fixpoint sweep (T : list var) (l : list stmt) : list bool :=
  match l with
  | [] => []
  | s :: r => if intersects (uses s) T then true :: sweep (taint T s) r else false :: sweep T r
  end.

(* ------------------------------------------------------------------------------------------ *)
(* append_test_case_from with _resolve_head_references.  The outcomes of randomness.choice are an
   oracle [o] (consumed one per call; a value outside the candidates falls back to the first). *)
Definition lookup {B} (m : list (var * B)) (x : var) : option B :=
  match find (fun p => N.eqb (fst p) x) m with
  | Some p => Some (snd p)
  | None => None
  end.

Definition rename_use (m : list (var * var)) (u : var) : var :=
  match lookup m u with Some v => v | None => u end.

(* dict comprehension over other.statements()[:start]; a later binding overrides *)
Definition head_types (l : list stmt) : list (var * option ty) :=
  fold_left (fun acc s => match bound s with Some v => (v, sty s) :: acc | None => acc end) l [].

Definition pick (cands : list var) (o : list var) : var * list var :=
  match o with
  | c :: o' => ((if mem c cands then c else hd 0%N cands), o')
  | [] => (hd 0%N cands, [])
  end.

Fixpoint resolve (r : registry) (h : list (var * option ty)) (dropped : list var)
         (us : list var) (rn : list (var * var)) (o : list var)
  : bool * list (var * var) * list var :=
  match us with
  | [] => (true, rn, o)
  | u :: us' =>
      if mem u dropped then (false, rn, o)
      else match lookup rn u with
           | Some _ => resolve r h dropped us' rn o
           | None =>
               match lookup h u with
               | Some hty =>
                   let cands := match hty with Some t => reg_get r t | None => [] end in
                   match cands with
                   | [] => (false, rn, o)
                   | _ :: _ => let '(c, o') := pick cands o in
                               resolve r h dropped us' ((u, c) :: rn) o'
                   end
               | None => resolve r h dropped us' rn o
               end
           end
  end.

Definition renamed (s : stmt) (nb : option var) (rn : list (var * var)) : stmt :=
  {| bound := nb; uses := map (rename_use rn) (uses s); sty := sty s;
     asserts := asserts s; conv := conv s; node := node s |}.

Fixpoint append_loop (self : tc) (h : list (var * option ty)) (tail : list stmt)
         (rn : list (var * var)) (dropped : list var) (o : list var) : tc :=
  match tail with
  | [] => self
  | s :: r =>
      let '(ok, rn1, o1) := resolve (reg self) h dropped (uses s) rn o in
      if ok then
        match bound s with
        | Some b =>
            let '(fresh, self1) := next_var_name self in
            let rn2 := (b, fresh) :: rn1 in
            append_loop (add_statement self1 (renamed s (Some fresh) rn2)) h r rn2 dropped o1
        | None =>
            append_loop (add_statement self (renamed s None rn1)) h r rn1 dropped o1
        end
      else append_loop self h r rn1 (bv s ++ dropped) o1
  end.

Definition append_test_case_from (self other : tc) (start : nat) (o : list var) : tc :=
  append_loop self (head_types (firstn start (stmts other))) (skipn start (stmts other)) [] [] o.

(* splice_test_case_chromosomes *)
Definition crossover (maxlen : nat) (parent other : tc) (p1 p2 : nat) (o : list var) : tc :=
  let off := clone parent in
  let off1 := if p1 <? size off then with_stmts off (firstn p1 (stmts off)) else off in
  let off2 := append_test_case_from off1 other p2 o in
  if size off2 <? maxlen then off2 else parent.

(* ------------------------------------------------------------------------------------------ *)
(* remove_unused_variables (after fix C19-keep-assertions): backward liveness; assertion sources
   are uses that happen after their statement; a dead simple assignment becomes an expression
   statement that keeps its assertions. *)
Definition aroots (s : stmt) : list var :=
  flat_map (fun a => match a_root a with Some v => [v] | None => [] end) (asserts s).

Definition unbind (s : stmt) : stmt :=
  {| bound := None; uses := uses s; sty := None; asserts := asserts s; conv := false;
     node := node s |}.

Definition drop (v : var) (l : list var) : list var := filter (fun x => negb (N.eqb x v)) l.

Fixpoint ruv_aux (l : list stmt) : list stmt * list var :=
  match l with
  | [] => ([], [])
  | s :: r =>
      let '(r', alive) := ruv_aux r in
      let alive1 := aroots s ++ alive in
      match bound s with
      | Some v =>
          if mem v alive1 then (s :: r', uses s ++ drop v alive1)
          else ((if conv s then unbind s else s) :: r', uses s ++ alive1)
      | None => (s :: r', uses s ++ alive1)
      end
  end.

Definition remove_unused_variables (t : tc) : tc := with_stmts t (fst (ruv_aux (stmts t))).

(* assertion sources are in scope: the root variable of every assertion of statement i is bound
   by statement i or an earlier one *)
Fixpoint ascoped (E : list var) (l : list stmt) : Prop :=
  match l with
  | [] => True
  | s :: r => (forall v, In v (aroots s) -> In v (bv s ++ E)) /\ ascoped (bv s ++ E) r
  end.

Fixpoint ascopedb (E : list var) (l : list stmt) : bool :=
  match l with
  | [] => true
  | s :: r => forallb (fun v => mem v (bv s ++ E)) (aroots s) && ascopedb (bv s ++ E) r
  end.

(* the code before the fix: liveness ignores assertion sources, the rebuilt statement has no
   assertions (kept for the refutation witness) *)
Definition unbind_orig (s : stmt) : stmt :=
  {| bound := None; uses := uses s; sty := None; asserts := []; conv := false; node := node s |}.

Fixpoint ruv_aux_orig (l : list stmt) : list stmt * list var :=
  match l with
  | [] => ([], [])
  | s :: r =>
      let '(r', alive) := ruv_aux_orig r in
      match bound s with
      | Some v =>
          if mem v alive then (s :: r', uses s ++ drop v alive)
          else ((if conv s then unbind_orig s else s) :: r', uses s ++ alive)
      | None => (s :: r', uses s ++ alive)
      end
  end.

Definition remove_unused_variables_orig (t : tc) : tc :=
  with_stmts t (fst (ruv_aux_orig (stmts t))).

(* ------------------------------------------------------------------------------------------ *)
(* equality tests and canonical forms for the correspondence checkers *)
Definition opt_eqb (a b : option N) : bool :=
  match a, b with
  | Some x, Some y => N.eqb x y
  | None, None => true
  | _, _ => false
  end.

Definition assertion_eqb (a b : assertion) : bool :=
  opt_eqb (a_root a) (a_root b) && Bool.eqb (a_render a) (a_render b) && N.eqb (a_id a) (a_id b).

Fixpoint insert_sorted (x : N) (l : list N) : list N :=
  match l with
  | [] => [x]
  | y :: r => if N.ltb x y then x :: l else if N.eqb x y then l else y :: insert_sorted x r
  end.
Definition canon_set (l : list N) : list N := fold_right insert_sorted [] l.

(* statements are compared with [uses] as a set *)
Definition stmt_eqb (a b : stmt) : bool :=
  opt_eqb (bound a) (bound b) && list_eqb N.eqb (canon_set (uses a)) (canon_set (uses b))
  && opt_eqb (sty a) (sty b) && list_eqb assertion_eqb (asserts a) (asserts b)
  && Bool.eqb (conv a) (conv b) && N.eqb (node a) (node b).

Definition tc_eqb (a b : tc) : bool :=
  list_eqb stmt_eqb (stmts a) (stmts b) && N.eqb (counter a) (counter b) && reg_eqb (reg a) (reg b).

End IR.
