(* Correspondence runner: indices of the cases on which a boolean checker fails. *)
From Coq Require Import List.
Import ListNotations.

Module Corr.
Fixpoint mismatches {A : Type} (chk : A -> bool) (l : list A) (i : nat) : list nat :=
  match l with
  | [] => []
  | x :: r => if chk x then mismatches chk r (S i) else i :: mismatches chk r (S i)
  end.

Lemma mismatches_nil_iff {A} (chk : A -> bool) l i :
  mismatches chk l i = [] <-> forallb chk l = true.
Proof.
  revert i; induction l as [|x r IH]; intro i; simpl; [tauto|].
  destruct (chk x); simpl; [apply IH|]. split; discriminate.
Qed.
End Corr.
