(* C29 — proofs about the filesystem-isolation model. *)
From Coq Require Import List ZArith Bool Lia.
From Verif Require Import Models.C29.
Import ListNotations.
Import C29.
Open Scope Z_scope.

(* ---------- paths ---------- *)
Lemma path_eqb_eq p q : path_eqb p q = true <-> p = q.
Proof.
  revert q. induction p as [|a p IH]; intros [|b q]; simpl.
  - split; reflexivity.
  - split; discriminate.
  - split; discriminate.
  - rewrite andb_true_iff, Z.eqb_eq, IH. split; [intros [-> ->]; reflexivity|intro H; inversion H; auto].
Qed.

Lemma path_eqb_refl p : path_eqb p p = true.
Proof. apply path_eqb_eq. reflexivity. Qed.

Lemma path_eqb_neq p q : path_eqb p q = false <-> p <> q.
Proof. rewrite <- path_eqb_eq. destruct (path_eqb p q); split; congruence. Qed.

Lemma path_eqb_sym p q : path_eqb p q = path_eqb q p.
Proof.
  destruct (path_eqb p q) eqn:E; symmetry.
  - apply path_eqb_eq in E. subst. apply path_eqb_refl.
  - apply path_eqb_neq. apply path_eqb_neq in E. congruence.
Qed.

Lemma is_prefix_refl p : is_prefix p p = true.
Proof. induction p as [|a p IH]; simpl; [reflexivity|]. rewrite Z.eqb_refl, IH. reflexivity. Qed.

Lemma is_prefix_app p x : is_prefix p (p ++ x) = true.
Proof. induction p as [|a p IH]; simpl; [reflexivity|]. rewrite Z.eqb_refl, IH. reflexivity. Qed.

Lemma is_prefix_trans p q r : is_prefix p q = true -> is_prefix q r = true -> is_prefix p r = true.
Proof.
  revert q r. induction p as [|a p IH]; intros [|b q] [|c r]; simpl; try congruence.
  rewrite !andb_true_iff, !Z.eqb_eq. intros [-> H1] [-> H2]. split; [reflexivity|]. eapply IH; eauto.
Qed.

Lemma mem_In p l : mem p l = true <-> In p l.
Proof.
  unfold mem. rewrite existsb_exists. split.
  - intros [y [Hy He]]. apply path_eqb_eq in He. subst. exact Hy.
  - intro H. exists p. split; [exact H|apply path_eqb_refl].
Qed.

Arguments isolated : simpl never.

Lemma isolated_spec cr q :
  isolated cr q = true <-> exists r, In r cr /\ is_prefix r q = true.
Proof. unfold isolated. apply existsb_exists. Qed.

Lemma isolated_cons_self cr q : isolated (q :: cr) q = true.
Proof. unfold isolated. simpl. rewrite is_prefix_refl. reflexivity. Qed.

Lemma isolated_mono cr cr' q :
  (forall r, In r cr -> In r cr') -> isolated cr q = true -> isolated cr' q = true.
Proof. rewrite !isolated_spec. intros H [r [Hr Hp]]. exists r. auto. Qed.

Lemma isolated_member cr q : In q cr -> isolated cr q = true.
Proof. intro H. apply isolated_spec. exists q. split; [exact H|apply is_prefix_refl]. Qed.

Lemma In_forget r p cr :
  In r (filter (fun x => negb (path_eqb x p)) cr) <-> In r cr /\ r <> p.
Proof. rewrite filter_In, negb_true_iff, path_eqb_neq. tauto. Qed.

(* ---------- the invariant ---------- *)
(* the tree that existed before entering is closed under parents *)
Definition wf0 (f0 : fsmap) : Prop :=
  forall r q, is_prefix r q = true -> f0 q <> None -> f0 r <> None.

Record Inv (f0 : fsmap) (st : state) : Prop := {
  invA : forall q, f0 q <> None -> fs st q = f0 q;                   (* pre-existing entries untouched *)
  invB : forall r, In r (created st) -> f0 r = None;                 (* nothing pre-existing is recorded *)
  invC : forall q, f0 q = None -> fs st q <> None -> isolated (created st) q = true
                                                                      (* every new entry is below a recorded path *)
}.

Section Invariant.
Variable f0 : fsmap.
Hypothesis Hwf : wf0 f0.

Lemma below_none r q : f0 r = None -> is_prefix r q = true -> f0 q = None.
Proof.
  intros Hr Hp. destruct (f0 q) eqn:E; [|reflexivity].
  exfalso. apply (Hwf r q Hp); congruence.
Qed.

Lemma isolated_none st q : Inv f0 st -> isolated (created st) q = true -> f0 q = None.
Proof.
  intros HI H. apply isolated_spec in H. destruct H as [r [Hr Hp]].
  eapply below_none; [apply (invB _ _ HI r Hr)|exact Hp].
Qed.

Lemma absent_none st q : Inv f0 st -> fs st q = None -> f0 q = None.
Proof.
  intros HI H. destruct (f0 q) eqn:E; [|reflexivity].
  rewrite <- (invA _ _ HI q) in E by congruence. congruence.
Qed.

(* the guard of the repaired wrappers: whatever is not "foreign" did not exist before *)
Lemma not_foreign_none st q : Inv f0 st -> foreign st q = false -> f0 q = None.
Proof.
  intros HI H. unfold foreign, present in H.
  destruct (fs st q) eqn:E; simpl in H.
  - apply negb_false_iff in H. eapply isolated_none; eauto.
  - eapply absent_none; eauto.
Qed.

Lemma member_none st q : Inv f0 st -> mem q (created st) = true -> f0 q = None.
Proof. intros HI H. apply mem_In in H. apply (invB _ _ HI q H). Qed.

Lemma inv_enter dom0 : Inv f0 (enter f0 dom0).
Proof. constructor; simpl; [reflexivity|tauto|congruence]. Qed.

Lemma inv_record st p : Inv f0 st -> f0 p = None -> Inv f0 (record p st).
Proof.
  intros HI Hp. constructor; simpl.
  - apply (invA _ _ HI).
  - intros r [<-|Hr]; [exact Hp|apply (invB _ _ HI r Hr)].
  - intros q H0 H1. eapply isolated_mono; [|apply (invC _ _ HI q H0 H1)]. intros; simpl; auto.
Qed.

Lemma inv_record_unless st p : Inv f0 st -> Inv f0 (record_unless (foreign st p) p st).
Proof.
  intro HI. unfold record_unless. destruct (foreign st p) eqn:E; [exact HI|].
  apply inv_record; [exact HI|eapply not_foreign_none; eauto].
Qed.

Lemma inv_record_unless' st' b p : Inv f0 st' -> (b = false -> f0 p = None) -> Inv f0 (record_unless b p st').
Proof. intros HI H. destruct b; simpl; [exact HI|apply inv_record; auto]. Qed.

Lemma inv_write st p n : Inv f0 st -> f0 p = None -> Inv f0 (write p n st).
Proof.
  intros HI Hp. constructor; simpl.
  - intros q Hq. destruct (path_eqb q p) eqn:E; [|apply (invA _ _ HI q Hq)].
    apply path_eqb_eq in E. subst. congruence.
  - intros r [<-|Hr]; [exact Hp|apply (invB _ _ HI r Hr)].
  - intros q H0 H1. destruct (path_eqb q p) eqn:E.
    + apply path_eqb_eq in E. subst. apply isolated_cons_self.
    + eapply isolated_mono; [|apply (invC _ _ HI q H0 H1)]. intros; simpl; auto.
Qed.

Lemma inv_del_forget st p : Inv f0 st -> f0 p = None -> Inv f0 (del_forget p st).
Proof.
  intros HI Hp. constructor; simpl.
  - intros q Hq. destruct (is_prefix p q) eqn:E; [|apply (invA _ _ HI q Hq)].
    exfalso. apply Hq. apply (below_none p q Hp E).
  - intros r Hr. apply In_forget in Hr. apply (invB _ _ HI r (proj1 Hr)).
  - intros q H0 H1. destruct (is_prefix p q) eqn:E; [congruence|].
    pose proof (invC _ _ HI q H0 H1) as H. apply isolated_spec in H. destruct H as [r [Hr Hrq]].
    apply isolated_spec. exists r. split; [|exact Hrq]. apply In_forget. split; [exact Hr|].
    intros ->. congruence.
Qed.

Lemma inv_mv st s d : Inv f0 st -> f0 s = None -> f0 d = None -> Inv f0 (mv s d st).
Proof.
  intros HI Hs Hd. constructor; simpl.
  - intros q Hq.
    destruct (is_prefix d q) eqn:E1; [exfalso; apply Hq; apply (below_none d q Hd E1)|].
    destruct (is_prefix s q) eqn:E2; [exfalso; apply Hq; apply (below_none s q Hs E2)|].
    apply (invA _ _ HI q Hq).
  - intros r [<-|Hr]; [exact Hd|]. apply In_forget in Hr. apply (invB _ _ HI r (proj1 Hr)).
  - intros q H0 H1.
    destruct (is_prefix d q) eqn:E1.
    + apply isolated_spec. exists d. split; [left; reflexivity|exact E1].
    + destruct (is_prefix s q) eqn:E2; [congruence|].
      pose proof (invC _ _ HI q H0 H1) as H. apply isolated_spec in H. destruct H as [r [Hr Hrq]].
      apply isolated_spec. exists r. split; [|exact Hrq]. right. apply In_forget. split; [exact Hr|].
      intros ->. congruence.
Qed.

(* rename of a recorded path onto itself: forget, then record again *)
Lemma inv_refresh st s : Inv f0 st -> f0 s = None -> Inv f0 (record s (forget s st)).
Proof.
  intros HI Hs. constructor; simpl.
  - apply (invA _ _ HI).
  - intros r [<-|Hr]; [exact Hs|]. apply In_forget in Hr. apply (invB _ _ HI r (proj1 Hr)).
  - intros q H0 H1.
    pose proof (invC _ _ HI q H0 H1) as H. apply isolated_spec in H. destruct H as [r [Hr Hrq]].
    apply isolated_spec. destruct (path_eqb r s) eqn:E.
    + apply path_eqb_eq in E. subst. exists s. split; [left; reflexivity|exact Hrq].
    + exists r. split; [|exact Hrq]. right. apply In_forget. split; [exact Hr|apply path_eqb_neq; exact E].
Qed.

(* forgetting s again after a step that already forgot it changes nothing *)
Lemma filter_idem {A} (f : A -> bool) l : filter f (filter f l) = filter f l.
Proof.
  induction l as [|x l IH]; simpl; [reflexivity|].
  destruct (f x) eqn:E; simpl; [rewrite E, IH; reflexivity|exact IH].
Qed.

Lemma forget_mv st s d : path_eqb s d = false -> forget s (mv s d st) = mv s d st.
Proof.
  intro H. unfold forget, mv. simpl. rewrite path_eqb_sym in H. rewrite H. simpl.
  rewrite filter_idem. reflexivity.
Qed.

Lemma forget_refresh st s : forget s (record s (forget s st)) = forget s st.
Proof.
  unfold forget, record. simpl. rewrite path_eqb_refl. simpl. rewrite filter_idem. reflexivity.
Qed.

Lemma inv_mk_chain rest : forall st pre st',
  Inv f0 st -> mk_chain st pre rest = Some st' -> Inv f0 st'.
Proof.
  induction rest as [|n r IH]; intros st pre st' HI H; simpl in H.
  - inversion H. subst. exact HI.
  - destruct (fs st (pre ++ [n])) as [[c|]|] eqn:E.
    + discriminate.
    + eapply IH; eauto.
    + eapply IH; [|exact H]. apply inv_write; [exact HI|eapply absent_none; eauto].
Qed.

(* rename(2) under the wrapper's premises: source recorded, target not foreign *)
Lemma inv_native_rename st s d :
  Inv f0 st -> f0 s = None -> f0 d = None -> Inv f0 (fst (native_rename st s d)).
Proof.
  intros HI Hs Hd. unfold native_rename.
  destruct (fs st s) as [ns|]; [|exact HI].
  destruct (path_eqb s d) eqn:E.
  { apply path_eqb_eq in E. subst. simpl. apply inv_refresh; assumption. }
  destruct (is_prefix s d); [exact HI|].
  destruct (is_prefix d s); [exact HI|].
  destruct (negb (is_dir st (parent d))); [exact HI|].
  destruct ns as [c|]; destruct (fs st d) as [[c'|]|]; simpl; try exact HI;
    try (apply inv_mv; assumption).
  destruct (has_child st d); simpl; [exact HI|apply inv_mv; assumption].
Qed.

(* shape of a successful native rename, for the double bookkeeping of shutil.move *)
Lemma native_rename_ok st s d st' :
  native_rename st s d = (st', ROk) ->
  (s = d /\ st' = record s (forget s st)) \/ (path_eqb s d = false /\ st' = mv s d st).
Proof.
  unfold native_rename.
  destruct (fs st s) as [ns|]; [|discriminate].
  destruct (path_eqb s d) eqn:E.
  { apply path_eqb_eq in E. subst. intro H. inversion H. left. auto. }
  destruct (is_prefix s d); [discriminate|].
  destruct (is_prefix d s); [discriminate|].
  destruct (negb (is_dir st (parent d))); [discriminate|].
  destruct ns as [c|]; destruct (fs st d) as [[c'|]|]; try discriminate;
    try solve [intro H; inversion H; right; auto].
  destruct (has_child st d); [discriminate|]. intro H; inversion H; right; auto.
Qed.

Lemma native_rename_ok_present st s d st' :
  native_rename st s d = (st', ROk) -> fs st s <> None.
Proof. unfold native_rename. destruct (fs st s); [congruence|discriminate]. Qed.

Lemma inv_move_finish st s d rd fd :
  Inv f0 st -> f0 s = None -> f0 rd = None -> (fd = false -> f0 d = None) ->
  (s = rd -> fs st s <> None -> d = s /\ fd = false) ->
  Inv f0 (fst (move_finish st s d fd (native_rename st s rd))).
Proof.
  intros HI Hs Hrd Hd Hself. unfold move_finish.
  destruct (native_rename st s rd) as [st' r] eqn:En.
  destruct r; simpl; try exact HI.
  pose proof (native_rename_ok_present _ _ _ _ En) as Hpres.
  apply native_rename_ok in En. destruct En as [[Heq ->]|[Hne ->]].
  - destruct (Hself Heq Hpres) as [-> ->]. rewrite forget_refresh. simpl.
    apply inv_refresh; assumption.
  - rewrite forget_mv by exact Hne.
    apply inv_record_unless'; [apply inv_mv; assumption|exact Hd].
Qed.

Lemma inv_open st p m d : Inv f0 st -> Inv f0 (fst (do_open st p m d)).
Proof.
  intro HI. unfold do_open.
  destruct (writes m && foreign st p) eqn:G; [exact HI|].
  destruct (fs st p) as [[c|]|] eqn:E; simpl; try exact HI.
  - destruct m; simpl in *; try exact HI;
      apply inv_write; try exact HI; eapply not_foreign_none; eauto.
  - assert (Hp : f0 p = None) by (eapply absent_none; eauto).
    destruct m; simpl; try exact HI;
      destruct (is_dir st (parent p)); simpl; try exact HI; apply inv_write; assumption.
Qed.

Lemma inv_os_open st p f d : Inv f0 st -> Inv f0 (fst (do_os_open st p f d)).
Proof.
  intro HI. unfold do_os_open.
  destruct (guarded f) eqn:G; simpl.
  - destruct (foreign st p) eqn:Ef; [exact HI|].
    assert (Hp : f0 p = None) by (eapply not_foreign_none; eauto).
    destruct (o_tmpfile f).
    + destruct (fs st p) as [[c|]|]; simpl; try exact HI.
      destruct (acc_writes (acc f)); simpl; [apply inv_record; assumption|exact HI].
    + destruct (fs st p) as [[c|]|]; simpl.
      * destruct (o_creat f && o_excl f); simpl; [exact HI|apply inv_write; assumption].
      * destruct (o_creat f || o_trunc f || acc_writes (acc f)); simpl; [exact HI|apply inv_record; assumption].
      * destruct (o_creat f); simpl; [|exact HI].
        destruct (is_dir st (parent p)); simpl; [apply inv_write; assumption|exact HI].
  - (* not guarded: no write access, no O_CREAT, O_TRUNC, O_APPEND, O_TMPFILE: nothing can change *)
    unfold guarded in G. apply orb_false_iff in G. destruct G as [G Gt].
    apply orb_false_iff in G. destruct G as [G Ga]. apply orb_false_iff in G. destruct G as [G Gtr].
    apply orb_false_iff in G. destruct G as [Gw Gc]. rewrite Gt, Gc, Gtr, Gw. simpl.
    destruct (fs st p) as [[c|]|]; simpl; exact HI.
Qed.

Lemma inv_touch st p : Inv f0 st -> Inv f0 (fst (do_touch st p)).
Proof.
  intro HI. unfold do_touch. destruct (fs st p) eqn:E; simpl.
  - apply inv_record_unless; exact HI.
  - destruct (is_dir st (parent p)); simpl; [|exact HI].
    apply inv_write; [exact HI|eapply absent_none; eauto].
Qed.

Lemma inv_mkdir st p eo : Inv f0 st -> Inv f0 (fst (do_mkdir st p eo)).
Proof.
  intro HI. unfold do_mkdir. destruct (fs st p) as [[c|]|] eqn:E; simpl; try exact HI.
  - destruct eo; simpl; [apply inv_record_unless|]; exact HI.
  - destruct (is_dir st (parent p)); simpl; [|exact HI].
    apply inv_write; [exact HI|eapply absent_none; eauto].
Qed.

Lemma inv_makedirs st p eo : Inv f0 st -> Inv f0 (fst (do_makedirs st p eo)).
Proof.
  intro HI. unfold do_makedirs. destruct (fs st p) as [[c|]|] eqn:E; simpl; try exact HI.
  - destruct eo; simpl; [apply inv_record_unless|]; exact HI.
  - destruct (mk_chain st [] p) as [st'|] eqn:M; simpl; [|exact HI].
    eapply inv_mk_chain; eauto.
Qed.

Lemma inv_rename st s d : Inv f0 st -> Inv f0 (fst (do_rename st s d)).
Proof.
  intro HI. unfold do_rename.
  destruct (mem s (created st)) eqn:Em; simpl; [|exact HI].
  destruct (foreign st d) eqn:Ef; [exact HI|].
  apply inv_native_rename; [exact HI|eapply member_none; eauto|eapply not_foreign_none; eauto].
Qed.

Lemma inv_copyfile st s d : Inv f0 st -> Inv f0 (fst (do_copyfile st s d)).
Proof.
  intro HI. unfold do_copyfile.
  destruct (path_eqb s d); [exact HI|].
  destruct (fs st s) as [[c|]|]; try exact HI.
  destruct (foreign st d) eqn:Ef; [exact HI|].
  assert (Hd : f0 d = None) by (eapply not_foreign_none; eauto).
  destruct (fs st d) as [[c'|]|]; simpl; try exact HI.
  - apply inv_write; assumption.
  - destruct (is_dir st (parent d)); simpl; [apply inv_write; assumption|exact HI].
Qed.

Lemma inv_copy st s d : Inv f0 st -> Inv f0 (fst (do_copy st s d)).
Proof.
  intro HI. unfold do_copy. cbv zeta.
  match goal with |- context [do_copyfile ?a ?b ?c] =>
    pose proof (inv_copyfile a b c HI) as H; destruct (do_copyfile a b c) as [st' r] end.
  simpl in H. destruct r; simpl; try exact H.
  apply inv_record_unless'; [exact H|]. intro Ef. apply (not_foreign_none st d HI Ef).
Qed.

Lemma inv_move st s d : Inv f0 st -> Inv f0 (fst (do_move st s d)).
Proof.
  intro HI. unfold do_move. cbv zeta.
  destruct (mem s (created st)) eqn:Em; simpl; [|exact HI].
  assert (Hs : f0 s = None) by (eapply member_none; eauto).
  assert (Hnf : foreign st s = false).
  { unfold foreign. rewrite (isolated_member _ _ (proj1 (mem_In _ _) Em)).
    simpl. apply andb_false_r. }
  destruct (is_dir st d) eqn:Ed.
  - destruct (path_eqb s d) eqn:Esd.
    + apply path_eqb_eq in Esd. subst d.
      apply inv_move_finish; auto.
    + destruct (present st (d ++ [base s])) eqn:Ep; [exact HI|].
      apply inv_move_finish; auto.
      * unfold present in Ep. destruct (fs st (d ++ [base s])) eqn:E; [discriminate|].
        eapply absent_none; eauto.
      * intro Ef. eapply not_foreign_none; eauto.
      * intros Heq Hpres. exfalso. unfold present in Ep. rewrite <- Heq in Ep.
        destruct (fs st s); [discriminate|congruence].
  - destruct (foreign st d) eqn:Ef.
    + destruct (fs st s) as [[c|]|]; exact HI.
    + assert (Hd : f0 d = None) by (eapply not_foreign_none; eauto).
      apply inv_move_finish; [exact HI|exact Hs|exact Hd|intros _; exact Hd|].
      intros Heq _. split; [symmetry; exact Heq|reflexivity].
Qed.

Lemma inv_remove st p : Inv f0 st -> Inv f0 (fst (do_remove st p)).
Proof.
  intro HI. unfold do_remove.
  destruct (mem p (created st)) eqn:Em; simpl; [|exact HI].
  destruct (fs st p) as [[c|]|]; simpl; try exact HI.
  apply inv_del_forget; [exact HI|eapply member_none; eauto].
Qed.

Lemma inv_rmdir st p : Inv f0 st -> Inv f0 (fst (do_rmdir st p)).
Proof.
  intro HI. unfold do_rmdir.
  destruct (mem p (created st)) eqn:Em; simpl; [|exact HI].
  destruct (fs st p) as [[c|]|]; simpl; try exact HI.
  destruct (has_child st p); simpl; [exact HI|].
  apply inv_del_forget; [exact HI|eapply member_none; eauto].
Qed.

Lemma inv_rmtree st p : Inv f0 st -> Inv f0 (fst (do_rmtree st p)).
Proof.
  intro HI. unfold do_rmtree.
  destruct (mem p (created st)) eqn:Em; simpl; [|exact HI].
  destruct (fs st p) as [[c|]|]; simpl; try exact HI.
  destruct (has_child st p); simpl; [exact HI|].
  apply inv_del_forget; [exact HI|eapply member_none; eauto].
Qed.

Lemma step_inv st o : Inv f0 st -> Inv f0 (fst (step st o)).
Proof.
  intro HI. destruct o; simpl.
  - apply inv_open; exact HI.
  - apply inv_os_open; exact HI.
  - apply inv_touch; exact HI.
  - apply inv_mkdir; exact HI.
  - apply inv_makedirs; exact HI.
  - apply inv_rename; exact HI.
  - apply inv_copyfile; exact HI.
  - apply inv_copy; exact HI.
  - apply inv_move; exact HI.
  - apply inv_remove; exact HI.
  - apply inv_rmdir; exact HI.
  - apply inv_rmtree; exact HI.
Qed.

Lemma run_inv ops : forall st, Inv f0 st -> Inv f0 (run st ops).
Proof.
  unfold run. induction ops as [|o ops IH]; intros st HI; simpl; [exact HI|].
  apply IH. apply step_inv. exact HI.
Qed.

(* leaving the isolation restores exactly the tree that existed before *)
Lemma exit_restores_inv st q : Inv f0 st -> exit_fs st q = f0 q.
Proof.
  intro HI. unfold exit_fs. destruct (isolated (created st) q) eqn:E.
  - symmetry. eapply isolated_none; eauto.
  - destruct (f0 q) eqn:E0.
    + rewrite <- E0. apply (invA _ _ HI). congruence.
    + destruct (fs st q) eqn:E1; [|reflexivity].
      pose proof (invC _ _ HI q E0) as H. rewrite E1 in H.
      rewrite H in E by congruence. discriminate.
Qed.

End Invariant.

(* ---------- the property ---------- *)
Theorem isolation_restores f0 dom0 ops :
  wf0 f0 -> forall q, exit_fs (run (enter f0 dom0) ops) q = f0 q.
Proof.
  intros Hwf q. apply exit_restores_inv; [exact Hwf|].
  apply run_inv; [exact Hwf|]. apply inv_enter.
Qed.

Theorem preexisting_unchanged f0 dom0 ops :
  wf0 f0 -> forall q n, f0 q = Some n -> exit_fs (run (enter f0 dom0) ops) q = Some n.
Proof. intros Hwf q n H. rewrite isolation_restores by exact Hwf. exact H. Qed.

Theorem created_gone f0 dom0 ops :
  wf0 f0 -> forall q, f0 q = None -> exit_fs (run (enter f0 dom0) ops) q = None.
Proof. intros Hwf q H. rewrite isolation_restores by exact Hwf. exact H. Qed.

(* also while the code under test is running, nothing that existed before is touched *)
Theorem preexisting_never_modified f0 dom0 ops :
  wf0 f0 -> forall q, f0 q <> None -> fs (run (enter f0 dom0) ops) q = f0 q.
Proof.
  intros Hwf q H. apply (invA f0 _ (run_inv f0 Hwf ops _ (inv_enter f0 dom0))). exact H.
Qed.

(* and nothing that existed before is ever recorded for deletion *)
Theorem never_records_preexisting f0 dom0 ops :
  wf0 f0 -> forall q r, f0 q <> None -> In r (created (run (enter f0 dom0) ops)) -> is_prefix r q = false.
Proof.
  intros Hwf q r H Hr.
  pose proof (run_inv f0 Hwf ops _ (inv_enter f0 dom0)) as HI.
  destruct (is_prefix r q) eqn:E; [|reflexivity].
  exfalso. apply H. eapply below_none; eauto. apply (invB f0 _ HI r Hr).
Qed.

(* ---------- a refused operation changes nothing ---------- *)
Lemma native_rename_not_refused st s d : snd (native_rename st s d) <> RRefused.
Proof.
  unfold native_rename.
  destruct (fs st s) as [ns|]; simpl; [|discriminate].
  destruct (path_eqb s d); simpl; [discriminate|].
  destruct (is_prefix s d); simpl; [discriminate|].
  destruct (is_prefix d s); simpl; [discriminate|].
  destruct (negb (is_dir st (parent d))); simpl; [discriminate|].
  destruct ns; destruct (fs st d) as [[c'|]|]; simpl; try discriminate.
  destruct (has_child st d); simpl; discriminate.
Qed.

Lemma move_finish_not_refused st s d fd r : snd (move_finish st s d fd r) <> RRefused.
Proof. unfold move_finish. destruct r as [st' []]; simpl; discriminate. Qed.

Lemma copyfile_refused st s d st' : do_copyfile st s d = (st', RRefused) -> st' = st.
Proof.
  unfold do_copyfile.
  destruct (path_eqb s d); [congruence|].
  destruct (fs st s) as [[c|]|]; try congruence.
  destruct (foreign st d); [congruence|].
  destruct (fs st d) as [[c'|]|]; try congruence.
  destruct (is_dir st (parent d)); congruence.
Qed.

Theorem refused_unchanged st o st' : step st o = (st', RRefused) -> st' = st.
Proof.
  destruct o; simpl.
  - unfold do_open. destruct (writes m && foreign st p); [congruence|].
    destruct (fs st p) as [[c|]|]; try congruence; destruct m; try congruence;
      destruct (is_dir st (parent p)); congruence.
  - unfold do_os_open. destruct (guarded f && foreign st p); [congruence|].
    destruct (o_tmpfile f).
    + destruct (fs st p) as [[c|]|]; try congruence. destruct (acc_writes (acc f)); congruence.
    + destruct (fs st p) as [[c|]|].
      * destruct (o_creat f && o_excl f); [congruence|]. destruct (guarded f); congruence.
      * destruct (o_creat f || o_trunc f || acc_writes (acc f)); congruence.
      * destruct (o_creat f); [|congruence]. destruct (is_dir st (parent p)); congruence.
  - unfold do_touch. destruct (fs st p); [congruence|]. destruct (is_dir st (parent p)); congruence.
  - unfold do_mkdir. destruct (fs st p) as [[c|]|]; try congruence.
    + destruct eo; congruence.
    + destruct (is_dir st (parent p)); congruence.
  - unfold do_makedirs. destruct (fs st p) as [[c|]|]; try congruence.
    + destruct eo; congruence.
    + destruct (mk_chain st [] p); congruence.
  - unfold do_rename. destruct (negb (mem s (created st))); [congruence|].
    destruct (foreign st d); [congruence|].
    intro H. exfalso. apply (native_rename_not_refused st s d). rewrite H. reflexivity.
  - apply copyfile_refused.
  - unfold do_copy. cbv zeta.
    match goal with |- context [do_copyfile ?a ?b ?c] => destruct (do_copyfile a b c) as [st1 r] eqn:E end.
    destruct r; try congruence. intro H. inversion H. subst. eapply copyfile_refused; eauto.
  - unfold do_move. cbv zeta. destruct (negb (mem s (created st))); [congruence|].
    destruct (is_dir st d).
    + destruct (path_eqb s d).
      * intro H. exfalso. eapply move_finish_not_refused. rewrite H. reflexivity.
      * destruct (present st (d ++ [base s])); [congruence|].
        intro H. exfalso. eapply move_finish_not_refused. rewrite H. reflexivity.
    + destruct (foreign st d).
      * destruct (fs st s) as [[c|]|]; congruence.
      * intro H. exfalso. eapply move_finish_not_refused. rewrite H. reflexivity.
  - unfold do_remove. destruct (negb (mem p (created st))); [congruence|].
    destruct (fs st p) as [[c|]|]; congruence.
  - unfold do_rmdir. destruct (negb (mem p (created st))); [congruence|].
    destruct (fs st p) as [[c|]|]; try congruence. destruct (has_child st p); congruence.
  - unfold do_rmtree. destruct (negb (mem p (created st))); [congruence|].
    destruct (fs st p) as [[c|]|]; try congruence. destruct (has_child st p); congruence.
Qed.

(* ---------- os.open: every flag set that can modify is guarded ---------- *)
(* an open whose flags the wrapper lets through unguarded changes nothing at all, whatever the path *)
Theorem os_open_unguarded_harmless st p f d : guarded f = false -> fst (do_os_open st p f d) = st.
Proof.
  intro G. unfold do_os_open. rewrite G. simpl.
  unfold guarded in G. apply orb_false_iff in G. destruct G as [G Gt].
  apply orb_false_iff in G. destruct G as [G Ga]. apply orb_false_iff in G. destruct G as [G Gtr].
  apply orb_false_iff in G. destruct G as [Gw Gc]. rewrite Gt, Gc, Gtr, Gw. simpl.
  destruct (fs st p) as [[c|]|]; reflexivity.
Qed.

(* hence on a path that is not isolated NO flag set has any effect: it is refused or harmless *)
Theorem os_open_foreign_no_effect st p f d : foreign st p = true -> fst (do_os_open st p f d) = st.
Proof.
  intro Ef. destruct (guarded f) eqn:G.
  - unfold do_os_open. rewrite G, Ef. reflexivity.
  - apply os_open_unguarded_harmless. exact G.
Qed.

(* the dangerous combination of the kernel semantics: read-only access with O_TRUNC empties a file;
   it is guarded (and therefore refused on pre-existing files) *)
Example trunc_rdonly_guarded :
  guarded {| acc := ARd; o_creat := false; o_excl := false; o_trunc := true; o_append := false; o_tmpfile := false |} = true
  /\ written {| acc := ARd; o_creat := false; o_excl := false; o_trunc := true; o_append := false; o_tmpfile := false |} [1; 2] [9] = [].
Proof. split; reflexivity. Qed.

(* ---------- initial trees given as lists: the checked premise implies wf0 ---------- *)
Lemma lookup_some_in l q n : lookup l q = Some n -> In (q, n) l.
Proof.
  induction l as [|[p m] l IH]; simpl; [discriminate|].
  destruct (path_eqb p q) eqn:E.
  - apply path_eqb_eq in E. subst. intro H. inversion H. left. reflexivity.
  - intro H. right. apply IH. exact H.
Qed.

Lemma is_prefix_snoc r q a :
  is_prefix r (q ++ [a]) = true -> r = q ++ [a] \/ is_prefix r q = true.
Proof.
  revert q. induction r as [|b r IH]; intros q H.
  - right. reflexivity.
  - destruct q as [|c q]; simpl in H.
    + apply andb_true_iff in H. destruct H as [H1 H2]. apply Z.eqb_eq in H1. subst.
      destruct r; [left; reflexivity|discriminate].
    + apply andb_true_iff in H. destruct H as [H1 H2]. apply Z.eqb_eq in H1. subst.
      destruct (IH q H2) as [->|H]; [left; reflexivity|right; simpl; rewrite Z.eqb_refl; exact H].
Qed.

Lemma wf_initb_sound l : wf_initb l = true -> wf0 (fs_of_list l).
Proof.
  intros Hwf r q. revert r.
  induction q as [|a q IH] using rev_ind; intros r Hp Hq.
  - destruct r; [simpl; congruence|discriminate].
  - apply is_prefix_snoc in Hp. destruct Hp as [->|Hp]; [exact Hq|].
    apply IH; [exact Hp|].
    assert (Hne : q ++ [a] <> []) by (destruct q; discriminate).
    unfold fs_of_list in Hq at 1.
    destruct (q ++ [a]) as [|x y] eqn:Eq; [congruence|]. rewrite <- Eq in *.
    destruct (lookup l (q ++ [a])) as [n|] eqn:El; [|congruence].
    apply lookup_some_in in El.
    unfold wf_initb in Hwf. rewrite forallb_forall in Hwf. specialize (Hwf _ El). simpl in Hwf.
    rewrite Eq in Hwf. rewrite <- Eq in Hwf.
    unfold parent in Hwf. rewrite removelast_last in Hwf.
    destruct (fs_of_list l q) as [[c|]|]; congruence.
Qed.

Theorem isolation_restores_list init ops :
  wf_initb init = true ->
  forall q, exit_fs (run (enter (fs_of_list init) (map fst init)) ops) q = fs_of_list init q.
Proof. intros H q. apply isolation_restores. apply wf_initb_sound. exact H. Qed.

(* ---------- non-vacuity ---------- *)
(* a sandbox with a file, a directory holding a file and an empty directory *)
Definition ex_init : list (path * node) :=
  [([0], File [104; 105]); ([1], Dir); ([1; 0], File [1]); ([2], Dir)].

Example ex_init_wf : wf0 (fs_of_list ex_init).
Proof. apply wf_initb_sound. vm_compute. reflexivity. Qed.

(* the code under test is refused on pre-existing targets, creates and renames files and
   directories, and leaves three recorded paths behind; exit removes them *)
Definition ex_ops : list op :=
  [Open [0] MW [9]; Makedirs [1] true; Open [3] MW [7]; Rename [3] [0]; Copy [3] [1];
   Makedirs [4; 5] false; Move [3] [4; 5]; Rename [4] [4]].

Example ex_run_nontrivial :
  let st := run (enter (fs_of_list ex_init) (map fst ex_init)) ex_ops in
  created st <> [] /\ fs st [4; 5; 3] = Some (File [7]) /\ fs st [1; 3] = Some (File [7]) /\
  fs st [0] = Some (File [104; 105]) /\
  exit_fs st [4; 5; 3] = None /\ exit_fs st [4] = None /\ exit_fs st [1; 3] = None /\
  exit_fs st [1] = Some Dir.
Proof. vm_compute. repeat split; discriminate. Qed.

Example ex_refused :
  snd (step (enter (fs_of_list ex_init) (map fst ex_init)) (Open [0] MW [9])) = RRefused.
Proof. vm_compute. reflexivity. Qed.
