(* C34 — proofs about the ordered-set model. *)
From Coq Require Import List ZArith Bool Lia Permutation.
From Verif Require Import Models.C34.
Import ListNotations.
Import C34.
Open Scope Z_scope.

(* ---------- membership ---------- *)
Lemma mem_In x l : mem x l = true <-> In x l.
Proof.
  unfold mem. rewrite existsb_exists. split.
  - intros [y [Hy He]]. apply Z.eqb_eq in He. subst. exact Hy.
  - intro H. exists x. split; [exact H|apply Z.eqb_refl].
Qed.

Lemma mem_false x l : mem x l = false <-> ~ In x l.
Proof. rewrite <- mem_In. destruct (mem x l); split; congruence. Qed.

Lemma mem_app x a b : mem x (a ++ b) = mem x a || mem x b.
Proof. unfold mem. apply existsb_app. Qed.

(* ---------- reference: first-occurrence de-duplication relative to a set of seen elements ---- *)
Fixpoint dedup (seen xs : list Z) : list Z :=
  match xs with
  | [] => []
  | x :: r => if mem x seen then dedup seen r else x :: dedup (x :: seen) r
  end.

Lemma dedup_ext_on s1 s2 xs :
  (forall y, In y xs -> mem y s1 = mem y s2) -> dedup s1 xs = dedup s2 xs.
Proof.
  revert s1 s2. induction xs as [|x r IH]; intros s1 s2 H; simpl; [reflexivity|].
  rewrite <- (H x (or_introl eq_refl)).
  destruct (mem x s1) eqn:E.
  - apply IH. intros y Hy. apply H. right. exact Hy.
  - f_equal. apply IH. intros y Hy. unfold mem in *. simpl.
    f_equal. apply H. right. exact Hy.
Qed.

Lemma dedup_In seen xs y : In y (dedup seen xs) <-> In y xs /\ ~ In y seen.
Proof.
  revert seen. induction xs as [|x r IH]; intro seen; simpl; [tauto|].
  destruct (mem x seen) eqn:E.
  - rewrite IH. apply mem_In in E. split; [tauto|]. intros [[->|H] Hn]; tauto.
  - apply mem_false in E. simpl. rewrite IH. simpl. split.
    + intros [->|[H Hn]]; [tauto|]. split; [tauto|]. intro; apply Hn; tauto.
    + intros [[->|H] Hn]; [tauto|]. destruct (Z.eq_dec x y) as [->|Hne]; [tauto|].
      right. split; [exact H|]. intros [?|?]; congruence.
Qed.

Lemma dedup_NoDup seen xs : NoDup (dedup seen xs).
Proof.
  revert seen. induction xs as [|x r IH]; intro seen; simpl; [constructor|].
  destruct (mem x seen); [apply IH|]. constructor; [|apply IH].
  rewrite dedup_In. simpl. tauto.
Qed.

Lemma dedup_disjoint seen xs y : In y (dedup seen xs) -> ~ In y seen.
Proof. rewrite dedup_In. tauto. Qed.

Lemma dedup_nodup_id seen xs :
  NoDup xs -> (forall y, In y xs -> ~ In y seen) -> dedup seen xs = xs.
Proof.
  revert seen. induction xs as [|x r IH]; intros seen Hnd Hdis; simpl; [reflexivity|].
  inversion Hnd as [|? ? Hx Hr]; subst.
  assert (E : mem x seen = false) by (apply mem_false; apply Hdis; left; reflexivity).
  rewrite E. f_equal. apply IH; [exact Hr|].
  intros y Hy [->|Hs]; [contradiction|]. apply (Hdis y); [right; exact Hy|exact Hs].
Qed.

(* ---------- add / add_all = append the first occurrences of new elements ---------- *)
Lemma add_all_spec l xs : add_all l xs = l ++ dedup l xs.
Proof.
  unfold add_all. revert l. induction xs as [|x r IH]; intro l; simpl; [now rewrite app_nil_r|].
  unfold add at 2. destruct (mem x l) eqn:E.
  - apply IH.
  - rewrite IH. rewrite <- app_assoc. simpl. do 2 f_equal.
    apply dedup_ext_on. intros y _. rewrite mem_app. unfold mem. simpl.
    rewrite orb_false_r. apply orb_comm.
Qed.

Lemma from_iter_spec xs : from_iter xs = dedup [] xs.
Proof. unfold from_iter. now rewrite add_all_spec. Qed.

Lemma from_iter_In xs y : In y (from_iter xs) <-> In y xs.
Proof. rewrite from_iter_spec, dedup_In. simpl. tauto. Qed.

Lemma from_iter_NoDup xs : NoDup (from_iter xs).
Proof. rewrite from_iter_spec. apply dedup_NoDup. Qed.

Lemma NoDup_app_disjoint (a b : list Z) :
  NoDup a -> NoDup b -> (forall y, In y b -> ~ In y a) -> NoDup (a ++ b).
Proof.
  intros Ha Hb Hd. induction a as [|x a IH]; simpl; [exact Hb|].
  inversion Ha as [|? ? Hx Ha']; subst. constructor.
  - rewrite in_app_iff. intros [H|H]; [contradiction|]. apply (Hd x H). left; reflexivity.
  - apply IH; [exact Ha'|]. intros y Hy Hin. apply (Hd y Hy). right; exact Hin.
Qed.

Lemma add_all_NoDup l xs : NoDup l -> NoDup (add_all l xs).
Proof.
  intro H. rewrite add_all_spec. apply NoDup_app_disjoint; [exact H|apply dedup_NoDup|].
  intros y. apply dedup_disjoint.
Qed.

Lemma add_all_In l xs y : In y (add_all l xs) <-> In y l \/ In y xs.
Proof.
  rewrite add_all_spec, in_app_iff, dedup_In. split; [tauto|].
  intros [H|H]; [tauto|]. destruct (in_dec Z.eq_dec y l); tauto.
Qed.

Lemma add_as_add_all l x : add l x = add_all l [x].
Proof. reflexivity. Qed.

(* ---------- filters ---------- *)
Lemma filter_NoDup (f : Z -> bool) l : NoDup l -> NoDup (filter f l).
Proof. apply NoDup_filter. Qed.

Lemma discard_as_drop l x : discard l x = drop_in l [x].
Proof.
  unfold discard, drop_in. apply filter_ext. intro y. unfold mem. simpl.
  now rewrite orb_false_r.
Qed.

Lemma drop_in_In l o y : In y (drop_in l o) <-> In y l /\ ~ In y o.
Proof.
  unfold drop_in. rewrite filter_In, negb_true_iff, mem_false. tauto.
Qed.

Lemma keep_in_In l o y : In y (keep_in l o) <-> In y l /\ In y o.
Proof. unfold keep_in. rewrite filter_In, mem_In. tauto. Qed.

Lemma drop_in_ext l o1 o2 : (forall y, In y l -> (In y o1 <-> In y o2)) -> drop_in l o1 = drop_in l o2.
Proof.
  intro H. unfold drop_in. induction l as [|x l IH]; simpl; [reflexivity|].
  assert (E : mem x o1 = mem x o2).
  { destruct (mem x o1) eqn:E1, (mem x o2) eqn:E2; try reflexivity.
    - apply mem_In in E1. apply mem_false in E2. exfalso. apply E2, (H x); [left; reflexivity|exact E1].
    - apply mem_In in E2. apply mem_false in E1. exfalso. apply E1, (H x); [left; reflexivity|exact E2]. }
  rewrite E. destruct (negb (mem x o2)); [f_equal|]; apply IH; intros y Hy; apply H; right; exact Hy.
Qed.

Lemma filter_filter_and (f g : Z -> bool) l :
  filter f (filter g l) = filter (fun y => g y && f y) l.
Proof.
  induction l as [|x l IH]; simpl; [reflexivity|].
  destruct (g x) eqn:G; simpl; [destruct (f x); simpl; now rewrite IH|exact IH].
Qed.

Lemma mem_cons y x r : mem y (x :: r) = (y =? x) || mem y r.
Proof. reflexivity. Qed.

Lemma drop_in_nil l : drop_in l [] = l.
Proof. unfold drop_in. induction l as [|y l IH]; [reflexivity|]. simpl in *. now rewrite IH. Qed.

Lemma drop_in_cons l x r : drop_in l (x :: r) = drop_in (discard l x) r.
Proof.
  unfold drop_in, discard. rewrite filter_filter_and. apply filter_ext. intro y.
  rewrite mem_cons. now rewrite negb_orb.
Qed.

Lemma fold_discard l xs : fold_left discard xs l = drop_in l xs.
Proof.
  revert l. induction xs as [|x r IH]; intro l; simpl.
  - now rewrite drop_in_nil.
  - now rewrite IH, drop_in_cons.
Qed.

(* ---------- reference step: survivors keep their order, newcomers follow in first-insertion
   order.  This is the "dict order + mathematical set" model of the property. ---------- *)
Definition cands (o : op) : list Z :=
  match o with
  | Add x => [x]
  | Update it | IOr it | SymDiffUpdate it | IXor it => content it
  | _ => []
  end.

Definition survives (o : op) (l : list Z) (y : Z) : bool :=
  match o with
  | Discard x | Remove x => negb (Z.eqb y x)
  | Pop => match l with [] => true | x :: _ => negb (Z.eqb y x) end
  | Clear => false
  | DifferenceUpdate its => negb (mem y (concat (map content its)))
  | IntersectionUpdate it | IAnd it => mem y (content it)
  | ISub it | SymDiffUpdate it | IXor it => negb (mem y (content it))
  | _ => true
  end.

Definition ref_step (l : list Z) (o : op) : list Z :=
  filter (survives o l) l ++ dedup l (cands o).

Lemma fst_traverse it : fst (traverse it) = content it.
Proof. unfold traverse. destruct (ikind it); reflexivity. Qed.

Lemma traverse_all_spec its : traverse_all its = map content its.
Proof. induction its as [|it r IH]; simpl; [reflexivity|]. now rewrite fst_traverse, IH. Qed.

Lemma filter_true (l : list Z) : filter (fun _ => true) l = l.
Proof. induction l as [|x l IH]; simpl; [reflexivity|now rewrite IH]. Qed.

Lemma filter_false (l : list Z) : filter (fun _ => false) l = [].
Proof. induction l as [|x l IH]; simpl; [reflexivity|exact IH]. Qed.

Lemma discard_notin l v : ~ In v l -> discard l v = l.
Proof.
  intro H. unfold discard. induction l as [|y l IH]; simpl; [reflexivity|].
  destruct (Z.eqb_spec y v) as [->|Hne]; simpl.
  - exfalso. apply H. left; reflexivity.
  - f_equal. apply IH. intro Hin. apply H. right; exact Hin.
Qed.

Lemma drop_in_app a b o : drop_in (a ++ b) o = drop_in a o ++ drop_in b o.
Proof. unfold drop_in. apply filter_app. Qed.

Lemma mem_discard_ne l y v : y <> v -> mem y (discard l v) = mem y l.
Proof.
  intro Hne. unfold discard, mem. induction l as [|z l IH]; simpl; [reflexivity|].
  destruct (Z.eqb_spec z v) as [->|Hzv]; simpl.
  - destruct (Z.eqb_spec y v); [contradiction|]. simpl. exact IH.
  - now rewrite IH.
Qed.

(* toggling distinct values: present ones leave, absent ones are appended *)
Lemma toggle_spec vs : NoDup vs -> forall l,
  fold_left (fun acc v => if mem v acc then discard acc v else add acc v) vs l
  = drop_in l vs ++ dedup l vs.
Proof.
  induction 1 as [|v r Hv Hr IH]; intro l; simpl.
  - now rewrite drop_in_nil, app_nil_r.
  - rewrite IH. destruct (mem v l) eqn:E.
    + rewrite <- drop_in_cons. f_equal.
      apply dedup_ext_on. intros y Hy. apply mem_discard_ne. intro; subst; contradiction.
    + apply mem_false in E. unfold add. rewrite (proj2 (mem_false v l) E).
      rewrite drop_in_app, <- app_assoc. rewrite drop_in_cons, (discard_notin l v E).
      f_equal. unfold drop_in at 1. simpl.
      rewrite (proj2 (mem_false v r) Hv). simpl. f_equal.
      apply dedup_ext_on. intros y _. rewrite mem_app. unfold mem. simpl.
      rewrite orb_false_r. apply orb_comm.
Qed.

Lemma dedup_nodup_drop l xs : NoDup xs -> dedup l xs = drop_in xs l.
Proof.
  revert l. induction xs as [|x r IH]; intros l Hnd; [reflexivity|].
  inversion Hnd as [|? ? Hx Hr]; subst. unfold drop_in. simpl.
  destruct (mem x l) eqn:E; simpl.
  - apply IH. exact Hr.
  - f_equal. fold (drop_in r l). rewrite <- (IH l Hr). apply dedup_ext_on. intros y Hy. unfold mem. simpl.
    destruct (Z.eqb_spec y x) as [->|]; [contradiction|reflexivity].
Qed.

Lemma dedup_via_first_occurrences l c : dedup l c = drop_in (dedup [] c) l.
Proof.
  assert (G : forall s, dedup (l ++ s) c = drop_in (dedup s c) l).
  { induction c as [|x r IH]; intro s; [reflexivity|]. simpl. rewrite mem_app.
    destruct (mem x s) eqn:Es.
    - rewrite orb_true_r. apply IH.
    - rewrite orb_false_r. destruct (mem x l) eqn:El.
      + unfold drop_in. simpl. rewrite El. simpl. fold (drop_in (dedup (x :: s) r) l).
        rewrite <- IH. apply dedup_ext_on. intros y _. rewrite !mem_app, mem_cons.
        destruct (Z.eqb_spec y x) as [->|]; [now rewrite El|reflexivity].
      + unfold drop_in. simpl. rewrite El. simpl. f_equal. fold (drop_in (dedup (x :: s) r) l).
        rewrite <- IH. apply dedup_ext_on. intros y _. rewrite mem_cons, !mem_app, mem_cons.
        destruct (y =? x), (mem y l); reflexivity. }
  specialize (G []). now rewrite app_nil_r in G.
Qed.

Lemma symdiff_update_spec l it :
  symdiff_update l it = drop_in l (content it) ++ dedup l (content it).
Proof.
  unfold symdiff_update. rewrite fst_traverse. set (c := content it).
  rewrite add_all_spec.
  assert (E1 : drop_in l (from_iter c) = drop_in l c).
  { apply drop_in_ext. intros y _. apply from_iter_In. }
  rewrite E1. f_equal. fold (drop_in (from_iter c) l).
  rewrite dedup_nodup_id.
  - rewrite from_iter_spec. symmetry. apply dedup_via_first_occurrences.
  - apply filter_NoDup, from_iter_NoDup.
  - intros y Hy Hin. apply drop_in_In in Hy. apply drop_in_In in Hin. tauto.
Qed.

Lemma symdiff_eq_update l it : symdiff l it = symdiff_update l it.
Proof. reflexivity. Qed.

Definition wf_it (it : iterable) : Prop := is_set it = true -> NoDup (content it).

Lemma ixor_spec l it : wf_it it -> ixor l it = drop_in l (content it) ++ dedup l (content it).
Proof.
  intro W. unfold ixor. rewrite fst_traverse. destruct (is_set it) eqn:S.
  - apply toggle_spec. apply W. exact S.
  - rewrite toggle_spec by apply from_iter_NoDup. f_equal.
    + apply drop_in_ext. intros y _. apply from_iter_In.
    + rewrite (dedup_nodup_drop l (from_iter (content it))) by apply from_iter_NoDup.
      rewrite from_iter_spec. symmetry. apply dedup_via_first_occurrences.
Qed.

Definition wf_op (o : op) : Prop := match o with IXor it => wf_it it | _ => True end.

Theorem step_refines_ref l o : wf_op o -> fst (step l o) = ref_step l o.
Proof.
  intro W. unfold ref_step.
  destruct o; simpl; rewrite ?fst_traverse, ?traverse_all_spec, ?filter_true, ?app_nil_r;
    try reflexivity.
  - rewrite add_as_add_all. apply add_all_spec.
  - destruct (mem x l) eqn:E; simpl; [reflexivity|].
    apply mem_false in E. symmetry. apply (discard_notin l x E).
  - destruct l as [|x r]; reflexivity.
  - symmetry. apply filter_false.
  - apply add_all_spec.
  - apply symdiff_update_spec.
  - apply add_all_spec.
  - apply fold_discard.
  - apply ixor_spec. exact W.
Qed.

(* ---------- invariant ---------- *)
Lemma add_NoDup l x : NoDup l -> NoDup (add l x).
Proof. intro H. rewrite add_as_add_all. now apply add_all_NoDup. Qed.

Lemma discard_NoDup l x : NoDup l -> NoDup (discard l x).
Proof. apply filter_NoDup. Qed.

Theorem step_NoDup l o : NoDup l -> NoDup (fst (step l o)).
Proof.
  intro H. destruct o; simpl; try exact H;
    try (apply filter_NoDup; exact H); try (apply add_all_NoDup; exact H).
  - now apply add_NoDup.
  - destruct (mem x l); simpl; [now apply discard_NoDup|exact H].
  - destruct l; simpl; [exact H|]. apply (discard_NoDup (z :: l) z H).
  - constructor.
  - unfold symdiff_update. apply add_all_NoDup, filter_NoDup, H.
  - rewrite fold_discard. apply filter_NoDup, H.
  - unfold ixor. generalize (if is_set it then fst (traverse it) else from_iter (fst (traverse it))).
    intro vs. revert l H. induction vs as [|v r IH]; intros l H; simpl; [exact H|].
    apply IH. destruct (mem v l); [now apply discard_NoDup|now apply add_NoDup].
Qed.

Theorem run_NoDup init ops : NoDup (run init ops).
Proof.
  unfold run. generalize (from_iter_NoDup init). generalize (from_iter init) as l.
  induction ops as [|o r IH]; intros l H; simpl; [exact H|]. apply IH, step_NoDup, H.
Qed.

Theorem membership_spec l o y : wf_op o ->
  (In y (fst (step l o)) <->
   (In y l /\ survives o l y = true) \/ (In y (cands o) /\ ~ In y l)).
Proof.
  intro W. rewrite step_refines_ref by exact W. unfold ref_step.
  rewrite in_app_iff, filter_In, dedup_In. tauto.
Qed.

(* ---------- sequence protocol ---------- *)
Theorem getitem_in_range l i :
  - len l <= i < len l ->
  exists x, getitem l i = OInt x /\ nth_error l (Z.to_nat (i mod len l)) = Some x.
Proof.
  intro R. unfold getitem, len in *.
  assert (Hpos : 0 < Z.of_nat (length l)) by lia.
  destruct (i <? 0) eqn:Neg.
  - apply Z.ltb_lt in Neg.
    assert (E : i mod Z.of_nat (length l) = i + Z.of_nat (length l)).
    { symmetry. apply (Z.mod_unique_pos _ _ (-1)); lia. }
    rewrite E.
    replace ((0 <=? i + Z.of_nat (length l)) && (i + Z.of_nat (length l) <? Z.of_nat (length l))) with true
      by (symmetry; apply andb_true_iff; split; [apply Z.leb_le|apply Z.ltb_lt]; lia).
    destruct (nth_error l (Z.to_nat (i + Z.of_nat (length l)))) eqn:N; [eauto|].
    apply nth_error_None in N. lia.
  - apply Z.ltb_ge in Neg. rewrite Z.mod_small by lia.
    replace ((0 <=? i) && (i <? Z.of_nat (length l))) with true
      by (symmetry; apply andb_true_iff; split; [apply Z.leb_le|apply Z.ltb_lt]; lia).
    destruct (nth_error l (Z.to_nat i)) eqn:N; [eauto|].
    apply nth_error_None in N. lia.
Qed.

Theorem getitem_out_of_range l i :
  ~ (- len l <= i < len l) -> getitem l i = OErr IndexError.
Proof.
  intro R. unfold getitem, len in *. destruct (i <? 0) eqn:Neg.
  - apply Z.ltb_lt in Neg.
    destruct ((0 <=? i + Z.of_nat (length l)) && (i + Z.of_nat (length l) <? Z.of_nat (length l))) eqn:B;
      [|reflexivity].
    apply andb_true_iff in B. destruct B as [B1 B2]. apply Z.leb_le in B1. apply Z.ltb_lt in B2. lia.
  - apply Z.ltb_ge in Neg.
    destruct ((0 <=? i) && (i <? Z.of_nat (length l))) eqn:B; [|reflexivity].
    apply andb_true_iff in B. destruct B as [B1 B2]. apply Z.leb_le in B1. apply Z.ltb_lt in B2. lia.
Qed.

Lemma index_from_spec l x i :
  (forall k, index_from l x i = OInt k -> i <= k /\ nth_error l (Z.to_nat (k - i)) = Some x) /\
  (index_from l x i = OErr ValueError <-> ~ In x l) /\
  (exists k, index_from l x i = OInt k) \/ index_from l x i = OErr ValueError.
Proof.
  revert i. induction l as [|y r IH]; intro i; simpl.
  - right. reflexivity.
  - destruct (Z.eqb_spec y x) as [->|Hne].
    + left. split; [|split].
      * intros k E. injection E as <-. rewrite Z.sub_diag. simpl. split; [lia|reflexivity].
      * split; [discriminate|]. intro H. exfalso. apply H. left; reflexivity.
      * eauto.
    + destruct (IH (i + 1)) as [[H1 [H2 H3]]|H]; [left|right; exact H].
      split; [|split].
      * intros k E. destruct (H1 k E) as [Hle Hn]. split; [lia|].
        replace (Z.to_nat (k - i)) with (S (Z.to_nat (k - (i + 1)))) by lia. exact Hn.
      * rewrite H2. split; intros H; [intros [?|?]; [congruence|tauto]|intro; apply H; right; assumption].
      * exact H3.
Qed.

Lemma index_from_OInt l x : forall i k,
  index_from l x i = OInt k -> i <= k /\ nth_error l (Z.to_nat (k - i)) = Some x.
Proof.
  induction l as [|y r IH]; intros i k; simpl; [discriminate|].
  destruct (Z.eqb_spec y x) as [->|Hne].
  - intros E. injection E as <-. rewrite Z.sub_diag. simpl. split; [lia|reflexivity].
  - intros E. destruct (IH (i + 1) k E) as [Hle Hn]. split; [lia|].
    replace (Z.to_nat (k - i)) with (S (Z.to_nat (k - (i + 1)))) by lia. exact Hn.
Qed.

Lemma index_from_In l x : forall i, In x l -> exists k, index_from l x i = OInt k.
Proof.
  induction l as [|y r IH]; intros i Hin; simpl; [destruct Hin|].
  destruct (Z.eqb_spec y x) as [->|Hne]; [eauto|].
  destruct Hin as [->|Hin]; [congruence|]. apply IH. exact Hin.
Qed.

Lemma index_from_total l x : forall i, (exists k, index_from l x i = OInt k) \/ index_from l x i = OErr ValueError.
Proof.
  induction l as [|y r IH]; intros i; simpl; [right; reflexivity|].
  destruct (Z.eqb y x); [left; eauto|apply IH].
Qed.

Lemma nth_error_skipn_add (l : list Z) : forall a j, nth_error (skipn a l) j = nth_error l (a + j).
Proof.
  induction l as [|y r IH]; intros a j.
  - rewrite skipn_nil. destruct j, a; reflexivity.
  - destruct a as [|a]; simpl; [reflexivity|apply IH].
Qed.

Lemma nth_error_firstn_lt (l : list Z) : forall m j, (j < m)%nat -> nth_error (firstn m l) j = nth_error l j.
Proof.
  induction l as [|y r IH]; intros m j Hj.
  - rewrite firstn_nil. reflexivity.
  - destruct m as [|m]; [lia|]. destruct j as [|j]; simpl; [reflexivity|]. apply IH. lia.
Qed.

Lemma nth_error_window (l : list Z) a m j x :
  nth_error (firstn m (skipn a l)) j = Some x <-> (j < m)%nat /\ nth_error l (a + j) = Some x.
Proof.
  split.
  - intros H. assert (Hj : (j < m)%nat).
    { destruct (Nat.lt_ge_cases j m) as [Hlt|Hge]; [exact Hlt|].
      assert (nth_error (firstn m (skipn a l)) j = None) as E; [|congruence].
      apply nth_error_None. etransitivity; [apply firstn_le_length|exact Hge]. }
    split; [exact Hj|]. rewrite nth_error_firstn_lt in H by exact Hj. rewrite nth_error_skipn_add in H. exact H.
  - intros [Hj H]. rewrite nth_error_firstn_lt by exact Hj. rewrite nth_error_skipn_add. exact H.
Qed.

Lemma norm_start_nonneg n s : 0 <= n -> 0 <= norm_start n s.
Proof. unfold norm_start. intros Hn. destruct (Z.ltb_spec s 0); lia. Qed.

(* Sequence.index with bounds: a result lies in the normalised window and holds the value *)
Theorem index_range_sound l x start stop p :
  index_range l x start stop = OInt p ->
  norm_start (len l) start <= p < norm_stop (len l) stop /\ nth_error l (Z.to_nat p) = Some x.
Proof.
  unfold index_range. intros E.
  pose proof (norm_start_nonneg (len l) start ltac:(unfold len; lia)) as Ha.
  apply index_from_OInt in E. destruct E as [Hle Hn].
  apply nth_error_window in Hn. destruct Hn as [Hj Hn].
  split; [lia|]. replace (Z.to_nat p) with (Z.to_nat (norm_start (len l) start) + Z.to_nat (p - norm_start (len l) start))%nat by lia.
  exact Hn.
Qed.

(* ... and a value that occurs inside the window is found *)
Theorem index_range_complete l x start stop p :
  norm_start (len l) start <= p < norm_stop (len l) stop -> nth_error l (Z.to_nat p) = Some x ->
  exists q, index_range l x start stop = OInt q.
Proof.
  unfold index_range. intros Hp Hn.
  pose proof (norm_start_nonneg (len l) start ltac:(unfold len; lia)) as Ha.
  apply index_from_In. eapply nth_error_In.
  apply (nth_error_window l _ _ (Z.to_nat (p - norm_start (len l) start)) x). split; [lia|].
  replace (Z.to_nat (norm_start (len l) start) + Z.to_nat (p - norm_start (len l) start))%nat with (Z.to_nat p) by lia.
  exact Hn.
Qed.

Theorem index_range_total l x start stop :
  (exists q, index_range l x start stop = OInt q) \/ index_range l x start stop = OErr ValueError.
Proof. unfold index_range. apply index_from_total. Qed.

(* on a set (no duplicates) the result is THE position of the value *)
Theorem index_range_exact l x start stop p : NoDup l -> 0 <= p ->
  norm_start (len l) start <= p < norm_stop (len l) stop -> nth_error l (Z.to_nat p) = Some x ->
  index_range l x start stop = OInt p.
Proof.
  intros Hnd Hp0 Hp Hn.
  destruct (index_range_complete l x start stop p Hp Hn) as [q Hq]. rewrite Hq. f_equal.
  destruct (index_range_sound l x start stop q Hq) as [Hqr Hqn].
  pose proof (norm_start_nonneg (len l) start ltac:(unfold len; lia)) as Ha.
  assert (Z.to_nat q = Z.to_nat p) as E.
  { apply (proj1 (NoDup_nth_error l) Hnd); [apply nth_error_Some; congruence|congruence]. }
  lia.
Qed.

(* ---------- set queries ---------- *)
Lemma subset_spec a b : subset a b = true <-> (forall x, In x a -> In x b).
Proof.
  unfold subset. rewrite forallb_forall. split; intros H x Hx.
  - apply mem_In, H, Hx.
  - apply mem_In, H, Hx.
Qed.

Lemma pigeon (a b : list Z) : NoDup a -> (forall x, In x a -> In x b) -> (length a <= length b)%nat.
Proof. intros Ha Hi. apply NoDup_incl_length; [exact Ha|exact Hi]. Qed.

Theorem issubset_spec l it : NoDup l ->
  (issubset l it = true <-> forall x, In x l -> In x (content it)).
Proof.
  intro Hl. unfold issubset, len. rewrite fst_traverse.
  destruct (sized it && (Z.of_nat (length (content it)) <? Z.of_nat (length l))) eqn:F.
  - apply andb_true_iff in F. destruct F as [_ F]. apply Z.ltb_lt in F.
    split; [discriminate|]. intro H. pose proof (pigeon _ _ Hl H). lia.
  - apply subset_spec.
Qed.

Theorem issuperset_spec l it : wf_it it ->
  (issuperset l it = true <-> forall x, In x (content it) -> In x l).
Proof.
  intro W. unfold issuperset, len. rewrite fst_traverse.
  destruct (is_set it && (Z.of_nat (length l) <? Z.of_nat (length (content it)))) eqn:F.
  - apply andb_true_iff in F. destruct F as [S F]. apply Z.ltb_lt in F.
    split; [discriminate|]. intro H. pose proof (pigeon _ _ (W S) H). lia.
  - rewrite forallb_forall. split; intros H x Hx; apply mem_In, H, Hx.
Qed.

Theorem union_spec l its :
  snd (step l (Union its)) = OList (l ++ dedup l (concat (map content its))).
Proof. simpl. now rewrite traverse_all_spec, add_all_spec. Qed.

Theorem difference_spec l its y :
  forall r, snd (step l (Difference its)) = OList r ->
  (In y r <-> In y l /\ ~ In y (concat (map content its))).
Proof. simpl. intros r E. injection E as E. subst r. rewrite traverse_all_spec. apply drop_in_In. Qed.

Lemma inter_all_In ls y : ls <> [] -> (In y (inter_all ls) <-> forall l, In l ls -> In y l).
Proof.
  induction ls as [|a r IH]; [congruence|]. intros _. destruct r as [|b r'].
  - simpl. split; [intros H l [<-|[]]; exact H|intro H; apply H; left; reflexivity].
  - change (inter_all (a :: b :: r')) with (keep_in a (inter_all (b :: r'))).
    rewrite keep_in_In, IH by congruence. split.
    + intros [Ha Hr] l [<-|Hl]; [exact Ha|apply Hr, Hl].
    + intro H. split; [apply H; left; reflexivity|intros l Hl; apply H; right; exact Hl].
Qed.

Theorem intersection_result l its : its <> [] ->
  snd (step l (Intersection its)) = OList (keep_in l (inter_all (map content its))).
Proof.
  intro Hne. destruct its as [|it0 its']; [congruence|].
  rewrite <- traverse_all_spec. reflexivity.
Qed.

Theorem intersection_members l its y : its <> [] ->
  (In y (keep_in l (inter_all (map content its))) <->
   In y l /\ forall it, In it its -> In y (content it)).
Proof.
  intro Hne. rewrite keep_in_In.
  rewrite (inter_all_In (map content its) y) by (destruct its; simpl; congruence).
  split; intros [Hl H]; (split; [exact Hl|]).
  - intros it Hit. apply H. apply in_map. exact Hit.
  - intros c Hc. apply in_map_iff in Hc. destruct Hc as [it [<- Hit]]. apply H, Hit.
Qed.

Theorem symdiff_spec l it :
  snd (step l (SymDiff it)) = OList (drop_in l (content it) ++ dedup l (content it)).
Proof. simpl. now rewrite symdiff_eq_update, symdiff_update_spec. Qed.

(* ---------- every iterable argument is traversed exactly once: a one-shot iterator gives the
   same result as a list with the same elements ---------- *)
Definition retag_it (k : kind) (it : iterable) : iterable := {| ikind := k; content := content it |}.
Definition retag (k : kind) (o : op) : op :=
  match o with
  | Update it => Update (retag_it k it)
  | DifferenceUpdate its => DifferenceUpdate (map (retag_it k) its)
  | IntersectionUpdate it => IntersectionUpdate (retag_it k it)
  | SymDiffUpdate it => SymDiffUpdate (retag_it k it)
  | IOr it => IOr (retag_it k it) | IAnd it => IAnd (retag_it k it)
  | ISub it => ISub (retag_it k it) | IXor it => IXor (retag_it k it)
  | Union its => Union (map (retag_it k) its)
  | Intersection its => Intersection (map (retag_it k) its)
  | Difference its => Difference (map (retag_it k) its)
  | SymDiff it => SymDiff (retag_it k it)
  | IsSubset it => IsSubset (retag_it k it)
  | IsSuperset it => IsSuperset (retag_it k it)
  | IsDisjoint it => IsDisjoint (retag_it k it)
  | Sub it => Sub (retag_it k it)
  | o => o
  end.

Lemma traverse_all_retag k its : traverse_all (map (retag_it k) its) = map content its.
Proof. rewrite traverse_all_spec, map_map. reflexivity. Qed.

Lemma issubset_retag l it : NoDup l ->
  issubset l (retag_it KIter it) = issubset l (retag_it KList it).
Proof.
  intro Hl.
  pose proof (issubset_spec l (retag_it KIter it) Hl) as A.
  pose proof (issubset_spec l (retag_it KList it) Hl) as B.
  cbn [retag_it content] in A, B.
  destruct (issubset l (retag_it KIter it)), (issubset l (retag_it KList it)); try reflexivity.
  - symmetry. apply B, A. reflexivity.
  - apply A, B. reflexivity.
Qed.

Theorem one_traversal l o : NoDup l -> step l (retag KIter o) = step l (retag KList o).
Proof.
  intro Hl. destruct o; try reflexivity; cbn [retag step];
    rewrite ?fst_traverse, ?traverse_all_retag; try reflexivity.
  - destruct its; reflexivity.
  - now rewrite issubset_retag.
Qed.

(* ---------- history form ---------- *)
Theorem run_refines_reference init ops :
  Forall wf_op ops -> run init ops = fold_left ref_step ops (dedup [] init).
Proof.
  unfold run. rewrite from_iter_spec. generalize (dedup [] init) as l.
  induction ops as [|o r IH]; intros l W; simpl; [reflexivity|].
  inversion W as [|? ? Wo Wr]; subst. rewrite step_refines_ref by exact Wo. apply IH, Wr.
Qed.

(* non-vacuity: a history that exercises negative indexing, one-shot iterators and a real set *)
Example history_ok :
  let it k c := {| ikind := k; content := c |} in
  let ops := [Add 5; Update (it KIter [3; 5; 7; 3]); SymDiffUpdate (it KIter [7; 9; 9]);
              IXor (it KSet [1; 3]); Discard 42; Pop] in
  Forall wf_op ops /\ run [2; 2; 1] ops = [5; 9] /\
  snd (step [1; 5; 9] (GetItem (-1))) = OInt 9 /\
  snd (step [1; 5; 9] (IsSubset (it KIter [9; 5; 1; 0]))) = OBool true.
Proof.
  cbv zeta. split; [|vm_compute; auto].
  assert (W : wf_it {| ikind := KSet; content := [1; 3] |}).
  { intros _. constructor; [simpl; intros [H|[]]; discriminate H|].
    constructor; [intros []|constructor]. }
  repeat (apply Forall_cons; [first [exact I|exact W]|]). apply Forall_nil.
Qed.
