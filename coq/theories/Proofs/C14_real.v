(* C14 — rank selection over the reals: index in range, monotone, better ranks never less likely. *)
From Coq Require Import Reals Lra Psatz.
From Verif Require Import Models.C14_real.
Import C14R.
Open Scope R_scope.

Section Formula.
Variables b r : R.
Hypothesis Hb : 1 < b.
Hypothesis Hr0 : 0 <= r.
Hypothesis Hr1 : r < 1.

Let s := sqrt (disc b r).

Lemma disc_bounds : (b - 2) * (b - 2) < disc b r <= b * b.
Proof.
  unfold disc.
  assert (0 < (b - 1) * (1 - r)) by (apply Rmult_lt_0_compat; lra).
  assert (0 <= (b - 1) * r) by (apply Rmult_le_pos; lra).
  split; lra.
Qed.

Lemma s_nonneg : 0 <= s.
Proof. apply sqrt_pos. Qed.

Lemma s_sq : s * s = disc b r.
Proof. apply sqrt_sqrt. pose proof disc_bounds as D. pose proof (Rle_0_sqr (b - 2)) as Q. unfold Rsqr in Q. lra. Qed.

Lemma g_eq : g b r * (2 * (b - 1)) = b - s.
Proof. unfold g. fold s. field. lra. Qed.

Lemma s_le_b : s <= b.
Proof. pose proof s_nonneg. pose proof s_sq. pose proof disc_bounds. nra. Qed.

Lemma s_gt : 2 - b < s.
Proof. pose proof s_nonneg. pose proof s_sq. pose proof disc_bounds. nra. Qed.

Lemma s_gt' : b - 2 < s.
Proof. pose proof s_nonneg. pose proof s_sq. pose proof disc_bounds. nra. Qed.

Lemma g_range_sec : 0 <= g b r < 1.
Proof.
  pose proof g_eq. pose proof s_le_b. pose proof s_gt. split.
  - apply Rmult_le_reg_r with (2 * (b - 1)); [lra|]. rewrite H. lra.
  - apply Rmult_lt_reg_r with (2 * (b - 1)); [lra|]. rewrite H. lra.
Qed.

(* for b > 2 the positions beyond 1/(b-1) are cut off *)
Lemma g_cutoff_sec : (b - 1) * g b r < 1.
Proof.
  pose proof g_eq. pose proof s_gt'.
  assert (g b r * (2 * (b - 1)) < 2) by lra. lra.
Qed.

(* g is the root of (b-1) y^2 - b y + r: h inverts it *)
Lemma h_g_sec : h b (g b r) = r.
Proof.
  pose proof g_eq as Hg. pose proof s_sq as Hs. unfold disc in Hs. unfold h.
  set (G := g b r) in *.
  apply Rmult_eq_reg_l with (4 * (b - 1)); [|lra].
  replace (4 * (b - 1) * (b * G - (b - 1) * G * G))
    with (2 * b * (G * (2 * (b - 1))) - (G * (2 * (b - 1))) * (G * (2 * (b - 1)))) by ring.
  rewrite Hg. nra.
Qed.

Lemma g_threshold_sec y : 0 <= y <= 1 -> (b - 1) * y <= 1 -> (y <= g b r <-> h b y <= r).
Proof.
  intros Hy Hcut. pose proof g_eq as Hg. pose proof s_sq as Hs. pose proof s_nonneg as Hs0.
  unfold disc in Hs. unfold h.
  assert (Ht : 0 <= b - 2 * (b - 1) * y) by nra.
  split.
  - intro Hle. assert (y * (2 * (b - 1)) <= g b r * (2 * (b - 1))) by (apply Rmult_le_compat_r; lra).
    assert (s <= b - 2 * (b - 1) * y) by lra.
    assert (s * s <= (b - 2 * (b - 1) * y) * (b - 2 * (b - 1) * y)) by nra.
    nra.
  - intro Hle.
    assert (s * s <= (b - 2 * (b - 1) * y) * (b - 2 * (b - 1) * y)) by nra.
    assert (s <= b - 2 * (b - 1) * y) by nra.
    apply Rmult_le_reg_r with (2 * (b - 1)); [lra|]. lra.
Qed.
End Formula.

Lemma g_range b r : 1 < b -> 0 <= r < 1 -> 0 <= g b r < 1.
Proof. intros Hb [H0 H1]. apply g_range_sec; assumption. Qed.

Lemma g_cutoff b r : 1 < b -> 0 <= r < 1 -> (b - 1) * g b r < 1.
Proof. intros Hb [H0 H1]. apply g_cutoff_sec; assumption. Qed.

Lemma h_g b r : 1 < b -> 0 <= r < 1 -> h b (g b r) = r.
Proof. intros Hb [H0 H1]. apply h_g_sec; assumption. Qed.

Lemma g_threshold b r y : 1 < b -> 0 <= r < 1 -> 0 <= y <= 1 -> (b - 1) * y <= 1 ->
  (y <= g b r <-> h b y <= r).
Proof. intros Hb [H0 H1]. apply g_threshold_sec; assumption. Qed.

(* the real-valued index n * g lies in [0, n): its integer part is an index of the population *)
Lemma index_in_range b r n : 1 < b -> 0 <= r < 1 -> 0 < n -> 0 <= n * g b r < n.
Proof. intros Hb Hr Hn. pose proof (g_range b r Hb Hr). nra. Qed.

(* a larger random value never selects a better (smaller) position *)
Lemma g_monotone b r1 r2 : 1 < b -> 0 <= r1 -> r1 <= r2 -> r2 < 1 -> g b r1 <= g b r2.
Proof.
  intros Hb H0 H12 H1.
  pose proof (g_range b r1 Hb (conj H0 (Rle_lt_trans _ _ _ H12 H1))) as G1.
  pose proof (g_cutoff b r1 Hb (conj H0 (Rle_lt_trans _ _ _ H12 H1))) as C1.
  apply (g_threshold b r2 (g b r1) Hb); [lra|lra|lra|].
  rewrite h_g; [exact H12|exact Hb|lra].
Qed.

(* index i is selected exactly for the random values in [h(i/n), h((i+1)/n)) *)
Lemma selects_iff b r n i : 1 < b -> 0 <= r < 1 -> 0 < n -> 0 <= i -> i + 1 <= n ->
  (b - 1) * (i + 1) <= n ->
  (selects b r n i <-> h b (i / n) <= r < h b ((i + 1) / n)).
Proof.
  intros Hb Hr Hn Hi Hi1 Hcut. unfold selects.
  assert (Hy1 : 0 <= i / n <= 1).
  { split; [apply Rmult_le_pos; [lra|left; apply Rinv_0_lt_compat; lra]|].
    apply Rmult_le_reg_r with n; [lra|]. unfold Rdiv. rewrite Rmult_assoc, Rinv_l; lra. }
  assert (Hy2 : 0 <= (i + 1) / n <= 1).
  { split; [apply Rmult_le_pos; [lra|left; apply Rinv_0_lt_compat; lra]|].
    apply Rmult_le_reg_r with n; [lra|]. unfold Rdiv. rewrite Rmult_assoc, Rinv_l; lra. }
  assert (Hc1 : (b - 1) * (i / n) <= 1).
  { apply Rmult_le_reg_r with n; [lra|]. unfold Rdiv.
    replace ((b - 1) * (i * / n) * n) with ((b - 1) * i * (/ n * n)) by ring. rewrite Rinv_l; nra. }
  assert (Hc2 : (b - 1) * ((i + 1) / n) <= 1).
  { apply Rmult_le_reg_r with n; [lra|]. unfold Rdiv.
    replace ((b - 1) * ((i + 1) * / n) * n) with ((b - 1) * (i + 1) * (/ n * n)) by ring. rewrite Rinv_l; nra. }
  pose proof (g_threshold b r (i / n) Hb Hr Hy1 Hc1) as T1.
  pose proof (g_threshold b r ((i + 1) / n) Hb Hr Hy2 Hc2) as T2.
  assert (E1 : i <= n * g b r <-> i / n <= g b r).
  { split; intro H.
    - apply Rmult_le_reg_r with n; [lra|]. unfold Rdiv. rewrite Rmult_assoc, Rinv_l; lra.
    - apply Rmult_le_compat_r with (r := n) in H; [|lra]. unfold Rdiv in H. rewrite Rmult_assoc, Rinv_l in H; lra. }
  assert (E2 : i + 1 <= n * g b r <-> (i + 1) / n <= g b r).
  { split; intro H.
    - apply Rmult_le_reg_r with n; [lra|]. unfold Rdiv. rewrite Rmult_assoc, Rinv_l; lra.
    - apply Rmult_le_compat_r with (r := n) in H; [|lra]. unfold Rdiv in H. rewrite Rmult_assoc, Rinv_l in H; lra. }
  split.
  - intros [H1 H2]. split; [apply T1, E1, H1|].
    apply Rnot_le_lt. intro H. apply T2, E2 in H. lra.
  - intros [H1 H2]. split; [apply E1, T1, H1|].
    apply Rnot_le_lt. intro H. apply E2, T2 in H. lra.
Qed.

(* ... and these intervals never get longer with the rank: for a uniformly distributed random
   value a worse rank is never more likely than a better one *)
Lemma widths_nonincreasing b n i : 1 <= b -> 0 < n ->
  h b ((i + 2) / n) - h b ((i + 1) / n) <= h b ((i + 1) / n) - h b (i / n).
Proof.
  intros Hb Hn. unfold h.
  assert (E : h b ((i + 2) / n) - h b ((i + 1) / n) - (h b ((i + 1) / n) - h b (i / n))
              = - 2 * (b - 1) * (/ n * / n)).
  { unfold h. field. lra. }
  unfold h in E. assert (0 < / n) by (apply Rinv_0_lt_compat; lra).
  assert (0 <= 2 * (b - 1) * (/ n * / n)) by (apply Rmult_le_pos; [lra|nra]).
  lra.
Qed.

(* non-vacuity: the default bias 1.68 and a random value adjacent to 1 *)
Example ex_selects_last : selects (168 / 100) (99 / 100) 10 9.
Proof.
  apply selects_iff; try lra. unfold h. lra.
Qed.
