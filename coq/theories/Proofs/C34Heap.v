(* C34 — proofs about the store of ordered-set objects (Models/C34Heap.v). *)
From Coq Require Import List ZArith Bool Lia PeanoNat.
From Verif Require Import Models.C34 Models.C34Heap Proofs.C34.
Import ListNotations.
Import C34 C34H.
Open Scope Z_scope.

Lemma set_nth_length h i x : length (set_nth h i x) = length h.
Proof.
  revert i. induction h as [|y r IH]; intros i; simpl; [reflexivity|].
  destruct i as [|k]; simpl; [reflexivity|]. rewrite IH. reflexivity.
Qed.

Lemma nth_error_set_nth_other h i j x : i <> j -> nth_error (set_nth h i x) j = nth_error h j.
Proof.
  revert i j. induction h as [|y r IH]; intros i j Hij; simpl; [reflexivity|].
  destruct i as [|k]; destruct j as [|m]; simpl; try reflexivity; try congruence.
  apply IH. congruence.
Qed.

Lemma nth_error_set_nth_same h i x ob : nth_error h i = Some ob -> nth_error (set_nth h i x) i = Some x.
Proof.
  revert i. induction h as [|y r IH]; intros i Hi; destruct i as [|k]; simpl in *; try discriminate.
  - reflexivity.
  - apply IH. exact Hi.
Qed.

Lemma nth_error_app_old (h t : heap) j ob : nth_error h j = Some ob -> nth_error (h ++ t) j = Some ob.
Proof.
  intros Hj. rewrite nth_error_app1; [exact Hj|]. apply nth_error_Some. congruence.
Qed.

(* an operation that is neither a mutator method nor an in-place operator leaves the value alone *)
Lemma step_query_unchanged l o :
  mutator_method o = false -> rebind_value l o = None -> fst (step l o) = l.
Proof.
  destruct o; simpl; intros Hm Hr; try discriminate; try reflexivity.
Qed.

Definition targets (o : hop) (j : nat) : Prop := match o with HApply i _ => i = j | _ => False end.

(* frame: a step that is not applied to object j does not change object j *)
Theorem hstep_frame h o j ob :
  nth_error h j = Some ob -> ~ targets o j -> nth_error (fst (hstep h o)) j = Some ob.
Proof.
  intros Hj Ht. destruct o as [i fr|xs fr|i o]; simpl in *.
  - destruct (nth_error h i) as [oi|]; simpl; [apply nth_error_app_old|]; exact Hj.
  - apply nth_error_app_old. exact Hj.
  - destruct (nth_error h i) as [oi|] eqn:Hi; simpl; [|exact Hj].
    destruct (frozen oi).
    + destruct (mutator_method o); simpl; [exact Hj|].
      destruct (rebind_value (items oi) o) as [l|]; simpl.
      * apply nth_error_app_old. exact Hj.
      * destruct (step (items oi) o) as [l r]; simpl.
        rewrite nth_error_set_nth_other; [exact Hj|exact Ht].
    + destruct (step (items oi) o) as [l r]; simpl.
      rewrite nth_error_set_nth_other; [exact Hj|exact Ht].
Qed.

(* a frozen object is never changed by any step, whatever it is applied to *)
Theorem hstep_frozen h o j ob :
  nth_error h j = Some ob -> frozen ob = true -> nth_error (fst (hstep h o)) j = Some ob.
Proof.
  intros Hj Hf. destruct o as [i fr|xs fr|i o].
  - apply hstep_frame; [exact Hj|simpl; tauto].
  - apply hstep_frame; [exact Hj|simpl; tauto].
  - destruct (Nat.eq_dec i j) as [->|Hne]; [|apply hstep_frame; [exact Hj|simpl; exact Hne]].
    simpl. rewrite Hj, Hf.
    destruct (mutator_method o) eqn:Hm; simpl; [exact Hj|].
    destruct (rebind_value (items ob) o) as [l|] eqn:Hr; simpl.
    + apply nth_error_app_old. exact Hj.
    + pose proof (step_query_unchanged (items ob) o Hm Hr) as Hq.
      destruct (step (items ob) o) as [l r]; simpl in *. subst l.
      rewrite (nth_error_set_nth_same h j _ ob Hj). destruct ob as [f it]; simpl in *. subst f. reflexivity.
Qed.

Theorem hrun_frozen ops : forall h j ob,
  nth_error h j = Some ob -> frozen ob = true -> nth_error (hrun h ops) j = Some ob.
Proof.
  induction ops as [|o ops IH]; intros h j ob Hj Hf; simpl; [exact Hj|].
  apply IH; [|exact Hf]. apply hstep_frozen; assumption.
Qed.

(* a step applied to a mutable object j performs exactly the single-object step on it *)
Lemma hstep_target h j o ob :
  nth_error h j = Some ob -> frozen ob = false ->
  nth_error (fst (hstep h (HApply j o))) j = Some {| frozen := false; items := fst (step (items ob) o) |}.
Proof.
  intros Hj Hf. simpl. rewrite Hj, Hf.
  destruct (step (items ob) o) as [l r]; simpl.
  apply (nth_error_set_nth_same h j _ ob Hj).
Qed.

(* independence: the value of a mutable object after any history over the whole store is the
   single-object run of the operations that were applied to it, and nothing else *)
Theorem hrun_independent ops : forall h j ob,
  nth_error h j = Some ob -> frozen ob = false ->
  nth_error (hrun h ops) j =
    Some {| frozen := false; items := fold_left (fun l o => fst (step l o)) (proj j ops) (items ob) |}.
Proof.
  induction ops as [|o ops IH]; intros h j ob Hj Hf; simpl.
  - destruct ob as [f it]; simpl in *. subst f. exact Hj.
  - destruct o as [i fr|xs fr|i o].
    + apply IH; [|exact Hf]. apply hstep_frame; [exact Hj|simpl; tauto].
    + apply IH; [|exact Hf]. apply hstep_frame; [exact Hj|simpl; tauto].
    + destruct (Nat.eqb i j) eqn:Hij.
      * apply Nat.eqb_eq in Hij. subst i. simpl.
        rewrite (IH _ j {| frozen := false; items := fst (step (items ob) o) |}); [reflexivity| |reflexivity].
        apply hstep_target; assumption.
      * apply Nat.eqb_neq in Hij. apply IH; [|exact Hf]. apply hstep_frame; [exact Hj|simpl; exact Hij].
Qed.

(* objects are created with the value (deduplicated, first-insertion order) of their source and
   the source is left alone *)
Theorem hstep_new_from h i fr ob :
  nth_error h i = Some ob ->
  fst (hstep h (HNewFrom i fr)) = h ++ [{| frozen := fr; items := from_iter (items ob) |}].
Proof. intros Hi. simpl. rewrite Hi. reflexivity. Qed.

Lemma from_iter_nodup_id l : NoDup l -> from_iter l = l.
Proof.
  intros Hl. rewrite from_iter_spec. rewrite dedup_nodup_drop; [|exact Hl]. apply drop_in_nil.
Qed.

(* every object of every reachable store is duplicate free *)
Definition heap_ok (h : heap) : Prop := Forall (fun ob => NoDup (items ob)) h.

Lemma heap_ok_set_nth h i x : heap_ok h -> NoDup (items x) -> heap_ok (set_nth h i x).
Proof.
  unfold heap_ok. revert i. induction h as [|y r IH]; intros i Hh Hx; simpl; [constructor|].
  inversion Hh as [|? ? Hy Hr]; subst.
  destruct i as [|k]; constructor; auto.
Qed.

Lemma heap_ok_snoc h x : heap_ok h -> NoDup (items x) -> heap_ok (h ++ [x]).
Proof. unfold heap_ok. intros Hh Hx. apply Forall_app. split; [exact Hh|constructor; [exact Hx|constructor]]. Qed.

Lemma heap_ok_nth h i ob : heap_ok h -> nth_error h i = Some ob -> NoDup (items ob).
Proof.
  unfold heap_ok. intros Hh Hi. rewrite Forall_forall in Hh. apply Hh. eapply nth_error_In. exact Hi.
Qed.

Theorem hstep_ok h o : heap_ok h -> heap_ok (fst (hstep h o)).
Proof.
  intros Hh. destruct o as [i fr|xs fr|i o]; simpl.
  - destruct (nth_error h i) as [oi|]; simpl; [|exact Hh].
    apply heap_ok_snoc; [exact Hh|simpl; apply from_iter_NoDup].
  - apply heap_ok_snoc; [exact Hh|simpl; apply from_iter_NoDup].
  - destruct (nth_error h i) as [oi|] eqn:Hi; simpl; [|exact Hh].
    pose proof (heap_ok_nth h i oi Hh Hi) as Hoi.
    pose proof (step_NoDup (items oi) o Hoi) as Hs.
    destruct (frozen oi).
    + destruct (mutator_method o); simpl; [exact Hh|].
      destruct (rebind_value (items oi) o) as [l|]; simpl.
      * apply heap_ok_snoc; [exact Hh|simpl; apply from_iter_NoDup].
      * destruct (step (items oi) o) as [l r]; simpl in *. apply heap_ok_set_nth; [exact Hh|exact Hs].
    + destruct (step (items oi) o) as [l r]; simpl in *. apply heap_ok_set_nth; [exact Hh|exact Hs].
Qed.

Theorem hrun_ok ops : forall h, heap_ok h -> heap_ok (hrun h ops).
Proof.
  induction ops as [|o ops IH]; intros h Hh; simpl; [exact Hh|]. apply IH. apply hstep_ok. exact Hh.
Qed.

(* a copy of a reachable object has exactly its value *)
Theorem hstep_copy_same_value h i fr ob : heap_ok h ->
  nth_error h i = Some ob ->
  nth_error (fst (hstep h (HNewFrom i fr))) (length h) = Some {| frozen := fr; items := items ob |}.
Proof.
  intros Hh Hi. rewrite (hstep_new_from h i fr ob Hi).
  rewrite nth_error_app2; [|lia]. rewrite Nat.sub_diag. simpl.
  rewrite from_iter_nodup_id; [reflexivity|]. eapply heap_ok_nth; eassumption.
Qed.

(* non-vacuity: a store with a frozen and a mutable object built from it *)
Example independent_example :
  let h := hrun [] [HNewIter [3; 1; 2] false; HNewFrom 0 true; HNewFrom 1 false;
                    HApply 2 (Add 4); HApply 2 (Discard 3); HApply 0 Clear] in
  map items h = [[]; [3; 1; 2]; [1; 2; 4]].
Proof. reflexivity. Qed.
