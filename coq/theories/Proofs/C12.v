(* C12 — proofs about the cache/flag model (Models/C12.v). *)
From Coq Require Import List ZArith Bool Lia Permutation.
From Verif Require Import Models.C12.
Import ListNotations. Import C12.
Open Scope Z_scope.

(* ---------------------------------------------------------------- dicts *)
Section AssocFacts.
Context {V : Type}.
Implicit Types (l : list (Z * V)).

Lemma lookup_in k l v : lookup k l = Some v -> In (k, v) l.
Proof.
  induction l as [|[k' v'] r IH]; simpl; [discriminate|].
  destruct (Z.eqb k k') eqn:E.
  - intros H; inversion H; subst. apply Z.eqb_eq in E; subst. now left.
  - intros H; right; auto.
Qed.

Lemma has_true_iff k l : has k l = true <-> In k (keys l).
Proof.
  unfold has. induction l as [|[k' v'] r IH]; simpl.
  - split; [discriminate|tauto].
  - destruct (Z.eqb k k') eqn:E.
    + apply Z.eqb_eq in E; subst. split; auto.
    + apply Z.eqb_neq in E. rewrite IH. split; [auto|]. intros [H|H]; [congruence|auto].
Qed.

Lemma has_false_iff k l : has k l = false <-> ~ In k (keys l).
Proof. rewrite <- has_true_iff. destruct (has k l); split; congruence. Qed.

Lemma keys_put k v l : keys (put k v l) = if has k l then keys l else keys l ++ [k].
Proof.
  unfold has. induction l as [|[k' v'] r IH]; simpl; [reflexivity|].
  destruct (Z.eqb k k') eqn:E; simpl.
  - apply Z.eqb_eq in E; subst; reflexivity.
  - rewrite IH. destruct (lookup k r); reflexivity.
Qed.

Lemma in_put k v l k' v' : In (k', v') (put k v l) -> (k', v') = (k, v) \/ In (k', v') l.
Proof.
  induction l as [|[k2 v2] r IH]; simpl.
  - intros [H|[]]; auto.
  - destruct (Z.eqb k k2) eqn:E; simpl.
    + intros [H|H]; auto.
    + intros [H|H]; auto. destruct (IH H); auto.
Qed.

Lemma has_put_same k v l : has k (put k v l) = true.
Proof.
  apply has_true_iff. rewrite keys_put. destruct (has k l) eqn:E.
  - now apply has_true_iff.
  - apply in_or_app; right; now left.
Qed.

Lemma has_put_mono k v l g : has g l = true -> has g (put k v l) = true.
Proof.
  rewrite !has_true_iff, keys_put. destruct (has k l); auto. intros; apply in_or_app; auto.
Qed.

Lemma incl_keys_put k v l fs : incl (keys l) fs -> In k fs -> incl (keys (put k v l)) fs.
Proof.
  intros H Hk. rewrite keys_put. destruct (has k l); auto.
  apply incl_app; auto. intros x [<-|[]]; auto.
Qed.

End AssocFacts.

Lemma NoDup_snoc {A} (l : list A) x : NoDup l -> ~ In x l -> NoDup (l ++ [x]).
Proof.
  induction l as [|y r IH]; simpl; intros Hn Hx.
  - constructor; [auto|constructor].
  - inversion Hn; subst. constructor.
    + rewrite in_app_iff; simpl. intros [H|[H|[]]]; auto.
    + apply IH; auto.
Qed.

Lemma NoDup_keys_put {V} k (v : V) l : NoDup (keys l) -> NoDup (keys (put k v l)).
Proof.
  intros H. rewrite keys_put. destruct (has k l) eqn:E; auto.
  apply has_false_iff in E. apply NoDup_snoc; auto.
Qed.

Lemma map_snd_keys {V} (g : Z -> V) (l : list (Z * V)) :
  (forall k v, In (k, v) l -> v = g k) -> map snd l = map g (keys l).
Proof.
  induction l as [|[k v] r IH]; simpl; intros H; [reflexivity|].
  f_equal; [apply H; now left|apply IH; intros; apply H; now right].
Qed.

Lemma zsum_perm l l' : Permutation l l' -> zsum l = zsum l'.
Proof. induction 1; simpl; lia. Qed.

Lemma keys_length {V} (l : list (Z * V)) : length (keys l) = length l.
Proof. apply map_length. Qed.

(* ---------------------------------------------------------------- generic cache theory *)
Section Generic.
Variables B R : Type.
Variable run : B -> bool -> (B * bool) * R.
Variable F : Z -> R -> Z.
Variable K : Z -> R -> bool.
Variable C : Z -> R -> Z.
Variable cur : B -> R.               (* the result of executing the current content from scratch *)
Variable ok : B -> bool -> Prop.     (* the body/flag invariant that makes [run] answer [cur] *)
Hypothesis run_ok : forall b ch b' ch' r, ok b ch -> run b ch = ((b', ch'), r) ->
  r = cur b /\ cur b' = cur b /\ ok b' ch' /\ ok b' false /\ (ch' = false \/ ch' = ch).

Notation cobj := (cobj B).
Notation one := (one run F K C).
Notation comp := (comp run F K C).
Notation check_cache := (check_cache run F K C).
Notation step := (step run F K C).

Definition Match (o : cobj) : Prop :=
  (forall f v, In (f, v) (fit o) -> v = F f (cur (body o))) /\
  (forall f b, In (f, b) (isc o) -> b = K f (cur (body o)) \/ b = (F f (cur (body o)) =? 0)) /\
  (forall c v, In (c, v) (cov o) -> v = C c (cur (body o))).

Definition WF (o : cobj) : Prop :=
  incl (keys (fit o)) (funcs o) /\ incl (keys (isc o)) (funcs o) /\ incl (keys (cov o)) (cfuncs o) /\
  NoDup (keys (fit o)) /\ NoDup (keys (isc o)) /\ NoDup (keys (cov o)) /\ ok (body o) (changed o).

Definition Inv (o : cobj) : Prop := WF o /\ (changed o = false -> Match o).

Definition hasw (w : which) (f : Z) (o : cobj) : bool :=
  match w with WFit => has f (fit o) | WIsc => has f (isc o) | WCov => has f (cov o) end.

(* what one loop iteration / a whole loop establishes *)
Definition loop_post (w : which) (o o' : cobj) : Prop :=
  WF o' /\ Match o' /\ cur (body o') = cur (body o) /\ funcs o' = funcs o /\ cfuncs o' = cfuncs o /\
  (forall g, hasw w g o = true -> hasw w g o' = true) /\
  (o' = o \/ ok (body o') false) /\ (changed o = false -> changed o' = false).

Lemma loop_post_refl w o : WF o -> Match o -> loop_post w o o.
Proof. intros; repeat split; auto; try apply H; try apply H0. Qed.

Lemma loop_post_trans w o o1 o2 : loop_post w o o1 -> loop_post w o1 o2 -> loop_post w o o2.
Proof.
  intros (W1 & M1 & C1 & F1 & G1 & H1 & D1 & E1) (W2 & M2 & C2 & F2 & G2 & H2 & D2 & E2).
  repeat split; try apply W2; try apply M2; try congruence; auto.
  destruct D2 as [->|D2]; auto.
Qed.

Lemma one_post w o f : WF o -> Match o -> In f (registered w o) ->
  loop_post w o (one w o f) /\ hasw w f (one w o f) = true.
Proof.
  intros W M Hf.
  destruct W as (W1 & W2 & W3 & N1 & N2 & N3 & OK).
  destruct M as (M1 & M2 & M3).
  assert (W0 : WF o) by (repeat split; assumption).
  assert (M0 : Match o) by (repeat split; assumption).
  unfold one, exec.
  destruct (run (body o) (changed o)) as [[b' ch'] r] eqn:ER.
  destruct (run_ok _ _ _ _ _ OK ER) as (Hr & Hc & Hok & Hokf & Hch).
  destruct w; simpl in Hf |- *.
  - destruct (has f (fit o)) eqn:E.
    + split; [apply loop_post_refl; auto|exact E].
    + split; [|apply has_put_same].
      repeat split; simpl; auto using incl_keys_put, NoDup_keys_put.
      * intros g v Hin. apply in_put in Hin. destruct Hin as [Hin|Hin].
        -- inversion Hin; subst. now rewrite Hc.
        -- rewrite Hc; auto.
      * intros g v Hin. apply in_put in Hin. destruct Hin as [Hin|Hin].
        -- inversion Hin; subst. right. now rewrite Hc.
        -- rewrite Hc; auto.
      * intros g v Hin. rewrite Hc; auto.
      * intros g Hg. now apply has_put_mono.
      * intros Hfalse. rewrite Hfalse in Hch. destruct Hch; auto.
  - destruct (has f (isc o)) eqn:E.
    + split; [apply loop_post_refl; auto|exact E].
    + split; [|apply has_put_same].
      repeat split; simpl; auto using incl_keys_put, NoDup_keys_put.
      * intros g v Hin. rewrite Hc; auto.
      * intros g v Hin. apply in_put in Hin. destruct Hin as [Hin|Hin].
        -- inversion Hin; subst. left. now rewrite Hc.
        -- rewrite Hc; auto.
      * intros g v Hin. rewrite Hc; auto.
      * intros g Hg. now apply has_put_mono.
      * intros Hfalse. rewrite Hfalse in Hch. destruct Hch; auto.
  - destruct (has f (cov o)) eqn:E.
    + split; [apply loop_post_refl; auto|exact E].
    + split; [|apply has_put_same].
      repeat split; simpl; auto using incl_keys_put, NoDup_keys_put.
      * intros g v Hin. rewrite Hc; auto.
      * intros g v Hin. rewrite Hc; auto.
      * intros g v Hin. apply in_put in Hin. destruct Hin as [Hin|Hin].
        -- inversion Hin; subst. now rewrite Hc.
        -- rewrite Hc; auto.
      * intros g Hg. now apply has_put_mono.
      * intros Hfalse. rewrite Hfalse in Hch. destruct Hch; auto.
Qed.

Lemma registered_same w (o o' : cobj) : funcs o' = funcs o -> cfuncs o' = cfuncs o -> registered w o' = registered w o.
Proof. intros H1 H2; destruct w; simpl; congruence. Qed.

Lemma loop_lemma w fs : forall o, WF o -> Match o -> incl fs (registered w o) ->
  loop_post w o (fold_left (one w) fs o) /\
  (forall f, In f fs -> hasw w f (fold_left (one w) fs o) = true).
Proof.
  induction fs as [|f r IH]; intros o W M Hi; simpl.
  - split; [apply loop_post_refl; auto|intros ? []].
  - assert (Hf : In f (registered w o)) by (apply Hi; now left).
    destruct (one_post w o f W M Hf) as [P1 H1].
    pose proof P1 as (W1 & M1 & C1 & F1 & G1 & Hm & D1 & E1).
    assert (Hi' : incl r (registered w (one w o f))).
    { rewrite (registered_same w _ _ F1 G1). intros x Hx; apply Hi; now right. }
    destruct (IH _ W1 M1 Hi') as [P2 H2].
    split; [eapply loop_post_trans; eauto|].
    intros g [<-|Hg]; auto.
    destruct P2 as (_ & _ & _ & _ & _ & Hm2 & _). auto.
Qed.

Definition wanted (w : which) (only : option Z) (o : cobj) : list Z :=
  match only with None => registered w o | Some f => [f] end.

Lemma cache_len_keys w (o : cobj) : cache_len w o = len (match w with WFit => keys (fit o) | WIsc => keys (isc o) | WCov => keys (cov o) end).
Proof. destruct w; unfold cache_len, len; now rewrite keys_length. Qed.

Lemma hasw_keys w f (o : cobj) : hasw w f o = true <->
  In f (match w with WFit => keys (fit o) | WIsc => keys (isc o) | WCov => keys (cov o) end).
Proof. destruct w; simpl; apply has_true_iff. Qed.

(* _check_cache: afterwards the caches agree with the current content, everything asked for is present *)
Lemma check_cache_post w only o : Inv o -> incl (wanted w only o) (registered w o) ->
  let o' := check_cache w only o in
  Inv o' /\ Match o' /\ cur (body o') = cur (body o) /\ funcs o' = funcs o /\ cfuncs o' = cfuncs o /\
  (forall f, In f (wanted w only o) -> hasw w f o' = true).
Proof.
  intros [W HM] Hi. unfold check_cache.
  destruct (changed o) eqn:Ech.
  - (* changed: invalidate, compute, clear the flag if something was computed *)
    set (oi := invalidate o).
    assert (Wi : WF oi).
    { destruct W as (W1 & W2 & W3 & N1 & N2 & N3 & OK).
      repeat split; simpl; try (intros x []); try constructor. exact OK. }
    assert (Mi : Match oi) by (repeat split; simpl; intros ? ? []).
    assert (Hii : incl (wanted w only o) (registered w oi)) by (destruct w; exact Hi).
    assert (Hw : wanted w only oi = wanted w only o) by (destruct only, w; reflexivity).
    destruct (loop_lemma w (wanted w only o) oi Wi Mi Hii) as [P Hall].
    unfold comp. fold (wanted w only oi). rewrite Hw.
    set (o1 := fold_left (one w) (wanted w only o) oi) in *.
    destruct P as (W1 & M1 & C1 & F1 & G1 & Hm & D1 & E1).
    destruct (0 <? cache_len w o1) eqn:El; simpl.
    + assert (OKf : ok (body o1) false).
      { destruct D1 as [D1|D1]; auto. rewrite D1 in El. destruct w; discriminate El. }
      destruct W1 as (A1 & A2 & A3 & A4 & A5 & A6 & A7).
      repeat split; simpl; auto; try apply M1.
    + repeat split; auto; try apply W1; try apply M1.
  - destruct (negb (cache_len w o =? len (registered w o))) eqn:El.
    + specialize (HM eq_refl).
      destruct (loop_lemma w (wanted w only o) o W HM Hi) as [P Hall].
      unfold comp. fold (wanted w only o).
      destruct P as (W1 & M1 & C1 & F1 & G1 & Hm & D1 & E1).
      repeat split; auto; try apply W1; try apply M1.
    + specialize (HM eq_refl). apply negb_false_iff, Z.eqb_eq in El.
      repeat split; auto; try apply W; try apply HM.
      intros f Hf. apply Hi in Hf. apply hasw_keys.
      rewrite cache_len_keys in El. unfold len in El. apply Nat2Z.inj in El.
      destruct W as (W1 & W2 & W3 & N1 & N2 & N3 & OK).
      destruct w; simpl in *.
      * apply (NoDup_length_incl N1 (l' := funcs o)); auto. lia.
      * apply (NoDup_length_incl N2 (l' := funcs o)); auto. lia.
      * apply (NoDup_length_incl N3 (l' := cfuncs o)); auto. lia.
Qed.

(* ---- discipline and specification of one operation ---- *)
Definition disc (o : cobj) (op : gop B) : Prop :=
  match op with
  | Edit b fl => ok b fl /\ (fl = false -> changed o = false /\ cur b = cur (body o))
  | GetFitnessFor f | GetIsCovered f => In f (funcs o)
  | GetCoverageFor c => In c (cfuncs o)
  | SetFit f v => In f (funcs o) /\ (changed o = false -> v = F f (cur (body o)))
  | SetCov c v => In c (cfuncs o) /\ (changed o = false -> v = C c (cur (body o)))
  | _ => True
  end.

Definition same_set (a b : list Z) : Prop := forall x, In x a <-> In x b.

Definition spec (o : cobj) (op : gop B) (r : out) : Prop :=
  let x := cur (body o) in
  match op with
  | GetFitnessFor f => r = OVal (F f x)
  | GetIsCovered f => exists b, r = OBool b /\ (b = K f x \/ b = (F f x =? 0))
  | GetCoverageFor c => r = OVal (C c x)
  | GetFitness => exists ks, NoDup ks /\ same_set ks (funcs o) /\ r = OVal (zsum (map (fun f => F f x) ks))
  | GetCoverage => cfuncs o <> [] ->
      exists ks, NoDup ks /\ same_set ks (cfuncs o) /\ r = OMean (zsum (map (fun c => C c x) ks)) (len ks)
  | _ => True
  end.

Definition frame (o : cobj) (op : gop B) (o' : cobj) : Prop :=
  match op with
  | Edit _ _ => True
  | _ => cur (body o') = cur (body o)
  end.

Lemma get_present {V} k (l : list (Z * V)) (mk : V -> out) : has k l = true ->
  exists v, In (k, v) l /\ get k l mk = mk v.
Proof.
  unfold has, get. destruct (lookup k l) eqn:E; [|discriminate].
  intros _. exists v. split; auto. now apply lookup_in.
Qed.

Theorem step_correct o op : Inv o -> disc o op ->
  Inv (fst (step o op)) /\ spec o op (snd (step o op)) /\ frame o op (fst (step o op)).
Proof.
  intros I D. pose proof I as [W HM].
  destruct W as (W1 & W2 & W3 & N1 & N2 & N3 & OK).
  destruct op; simpl in *.
  - (* Edit *)
    destruct D as [D1 D2]. split; [|split; exact Logic.I].
    split; [repeat split; simpl; auto|]. simpl. intros ->.
    destruct (D2 eq_refl) as [Hc Hcur]. destruct (HM Hc) as (M1 & M2 & M3).
    repeat split; simpl; rewrite Hcur; auto.
  - (* Clone *) split; [exact I|split; [exact Logic.I|reflexivity]].
  - (* AddFit *)
    split; [|split; [exact Logic.I|reflexivity]].
    split; [repeat split; simpl; auto using incl_appl|exact HM].
  - (* AddCov *)
    split; [|split; [exact Logic.I|reflexivity]].
    split; [repeat split; simpl; auto using incl_appl|exact HM].
  - (* GetFitness *)
    destruct (check_cache_post WFit None o I (incl_refl _)) as (I' & M' & C' & F' & G' & Hall).
    split; [exact I'|split; [|exact C']].
    exists (keys (fit (check_cache WFit None o))). destruct I' as [W' _].
    destruct W' as (A1 & A2 & A3 & A4 & A5 & A6 & A7).
    split; [exact A4|split].
    + intros x; split; intros Hx.
      * rewrite <- F'. now apply A1.
      * apply has_true_iff. apply (Hall x). exact Hx.
    + f_equal. f_equal. rewrite <- C'. apply map_snd_keys. apply M'.
  - (* GetFitnessFor *)
    assert (Hi : incl (wanted WFit (Some f) o) (registered WFit o)) by (intros x [<-|[]]; exact D).
    destruct (check_cache_post WFit (Some f) o I Hi) as (I' & M' & C' & F' & G' & Hall).
    split; [exact I'|split; [|exact C']].
    destruct (get_present f (fit (check_cache WFit (Some f) o)) OVal) as (v & Hin & ->).
    { apply (Hall f). now left. }
    f_equal. rewrite <- C'. now apply M'.
  - (* GetIsCovered *)
    assert (Hi : incl (wanted WIsc (Some f) o) (registered WIsc o)) by (intros x [<-|[]]; exact D).
    destruct (check_cache_post WIsc (Some f) o I Hi) as (I' & M' & C' & F' & G' & Hall).
    split; [exact I'|split; [|exact C']].
    destruct (get_present f (isc (check_cache WIsc (Some f) o)) OBool) as (v & Hin & ->).
    { apply (Hall f). now left. }
    exists v. split; auto. rewrite <- C'. now apply M'.
  - (* GetCoverage *)
    destruct (check_cache_post WCov None o I (incl_refl _)) as (I' & M' & C' & F' & G' & Hall).
    split; [exact I'|split; [|exact C']].
    intros Hne.
    exists (keys (cov (check_cache WCov None o))). destruct I' as [W' _].
    destruct W' as (A1 & A2 & A3 & A4 & A5 & A6 & A7).
    split; [exact A6|split].
    + intros x; split; intros Hx.
      * rewrite <- G'. now apply A3.
      * apply has_true_iff. apply (Hall x). exact Hx.
    + destruct (cov (check_cache WCov None o)) as [|p l] eqn:El.
      * exfalso. destruct (cfuncs o) as [|c r] eqn:Ec; [congruence|].
        assert (Hc : hasw WCov c (check_cache WCov None o) = true) by (apply Hall; simpl; rewrite Ec; now left).
        simpl in Hc. rewrite El in Hc. discriminate.
      * rewrite <- El. unfold len. rewrite keys_length. f_equal.
        rewrite <- C'. f_equal. apply map_snd_keys. apply M'.
  - (* GetCoverageFor *)
    assert (Hi : incl (wanted WCov (Some c) o) (registered WCov o)) by (intros x [<-|[]]; exact D).
    destruct (check_cache_post WCov (Some c) o I Hi) as (I' & M' & C' & F' & G' & Hall).
    split; [exact I'|split; [|exact C']].
    destruct (get_present c (cov (check_cache WCov (Some c) o)) OVal) as (v & Hin & ->).
    { apply (Hall c). now left. }
    f_equal. rewrite <- C'. now apply M'.
  - (* Invalidate *)
    split; [|split; [exact Logic.I|reflexivity]].
    split; [repeat split; simpl; try (intros ? []); try constructor; auto|].
    intros _. repeat split; simpl; intros ? ? [].
  - (* SetFit *)
    destruct D as [D1 D2]. split; [|split; [exact Logic.I|reflexivity]].
    split; [repeat split; simpl; auto using incl_keys_put, NoDup_keys_put|].
    simpl. intros Hc. destruct (HM Hc) as (M1 & M2 & M3).
    repeat split; simpl; auto.
    intros g x Hin. apply in_put in Hin. destruct Hin as [Hin|Hin]; auto.
    inversion Hin; subst. auto.
  - (* SetCov *)
    destruct D as [D1 D2]. split; [|split; [exact Logic.I|reflexivity]].
    split; [repeat split; simpl; auto using incl_keys_put, NoDup_keys_put|].
    simpl. intros Hc. destruct (HM Hc) as (M1 & M2 & M3).
    repeat split; simpl; auto.
    intros g x Hin. apply in_put in Hin. destruct Hin as [Hin|Hin]; auto.
    inversion Hin; subst. auto.
Qed.

(* funcs lists are only ever extended by AddFit/AddCov *)
Lemma zsum_same_set ks fs (g : Z -> Z) : NoDup ks -> NoDup fs -> same_set ks fs ->
  zsum (map g ks) = zsum (map g fs) /\ len ks = len fs.
Proof.
  intros N1 N2 S. assert (P : Permutation ks fs) by (apply NoDup_Permutation; auto).
  split; [apply zsum_perm, Permutation_map, P|unfold len; f_equal; apply Permutation_length, P].
Qed.
End Generic.

(* ---------------------------------------------------------------- test-case chromosomes *)
Definition tcur (b : tbody) : Z := fst b.
Definition tok (b : tbody) (ch : bool) : Prop := ch = false -> snd b = None \/ snd b = Some (fst b).

Lemma trun_ok : forall b ch b' ch' r, tok b ch -> trun b ch = ((b', ch'), r) ->
  r = tcur b /\ tcur b' = tcur b /\ tok b' ch' /\ tok b' false /\ (ch' = false \/ ch' = ch).
Proof.
  intros [c l] ch b' ch' r Hok. unfold trun, tok, tcur in *; simpl in *.
  destruct l as [x|].
  - destruct ch.
    + intros H; inversion H; subst; simpl. repeat split; auto.
    + intros H; inversion H; subst; simpl.
      destruct (Hok eq_refl) as [Hx|Hx]; [discriminate|]. inversion Hx; subst.
      repeat split; auto.
  - intros H; inversion H; subst; simpl. repeat split; auto.
Qed.

Section WithOracles.
Variable O : oracles.

Definition TInv : tc -> Prop := Inv _ _ (tF O) (tK O) (tC O) tcur tok.
Definition tdisc : tc -> top -> Prop := disc _ _ (tF O) (tC O) tcur tok.
Definition tspec : tc -> top -> out -> Prop := spec _ _ (tF O) (tK O) (tC O) tcur.

Lemma tstep_correct t op : TInv t -> tdisc t op ->
  TInv (fst (tstep O t op)) /\ tspec t op (snd (tstep O t op)) /\
  frame _ _ tcur t op (fst (tstep O t op)).
Proof. apply (step_correct _ _ trun (tF O) (tK O) (tC O) tcur tok trun_ok). Qed.

Lemma tnew_inv c : TInv (tnew c).
Proof.
  split; [repeat split; simpl; try (intros ? []); try constructor|discriminate].
  unfold tok; discriminate.
Qed.

(* ---------------------------------------------------------------- test-suite chromosomes *)
Definition scur (b : list tc) : list Z := map content b.
Definition sok (b : list tc) (ch : bool) : Prop := Forall TInv b.

Lemma exec_member_ok t : TInv t ->
  TInv (fst (exec_member t)) /\ snd (exec_member t) = content t /\ content (fst (exec_member t)) = content t.
Proof.
  intros [W HM]. pose proof W as (W1 & W2 & W3 & N1 & N2 & N3 & OK).
  assert (Fresh : TInv (invalidate (with_exec t (content t, Some (content t)) false)) /\
                  content (invalidate (with_exec t (content t, Some (content t)) false)) = content t).
  { split; [|reflexivity]. split.
    - repeat split; simpl; try (intros ? []); try apply NoDup_nil. unfold tok; simpl; intros _; right; reflexivity.
    - intros _. repeat split; simpl; intros ? ? []. }
  unfold exec_member. destruct (last t) as [r|] eqn:El.
  - destruct (changed t) eqn:Ec; simpl.
    + destruct Fresh; auto.
    + split; [split; [exact W|intros _; apply HM; reflexivity]|]. split; [|reflexivity].
      unfold tok in OK. unfold last in El. destruct (OK eq_refl) as [H|H]; [congruence|].
      rewrite El in H. inversion H. reflexivity.
  - simpl. destruct Fresh; auto.
Qed.

Lemma srun_ok : forall b ch b' ch' r, sok b ch -> srun b ch = ((b', ch'), r) ->
  r = scur b /\ scur b' = scur b /\ sok b' ch' /\ sok b' false /\ (ch' = false \/ ch' = ch).
Proof.
  intros b ch b' ch' r Hok H. unfold srun in H. inversion H; subst; clear H.
  unfold sok, scur in *.
  assert (A : map (fun t => snd (exec_member t)) b = map content b /\
              map content (map (fun t => fst (exec_member t)) b) = map content b /\
              Forall TInv (map (fun t => fst (exec_member t)) b)).
  { induction Hok as [|t r Ht Hr IH]; simpl; [repeat split; constructor|].
    destruct (exec_member_ok t Ht) as (A1 & A2 & A3). destruct IH as (B1 & B2 & B3).
    repeat split; [congruence|congruence|constructor; auto]. }
  destruct A as (A1 & A2 & A3). repeat split; auto.
Qed.

Definition SInv : suite -> Prop := Inv _ _ (sF O) (sK O) (sC O) scur sok.
Definition sgdisc : suite -> gop (list tc) -> Prop := disc _ _ (sF O) (sC O) scur sok.
Definition sgspec : suite -> gop (list tc) -> out -> Prop := spec _ _ (sF O) (sK O) (sC O) scur.

Definition edits_content (t : tc) (op : top) : Prop :=
  match op with Edit b _ => fst b <> content t | _ => False end.

Definition sdisc (s : suite) (op : sop) : Prop :=
  match op with
  | SG g => sgdisc s g
  | SMember i top sf =>
      match nth_error (body s) i with
      | Some t => tdisc t top /\ (edits_content t top -> sf = true)
      | None => True
      end
  end.

Definition sspec (s : suite) (op : sop) (r : out) : Prop :=
  match op with
  | SG g => sgspec s g r
  | SMember i top _ =>
      match nth_error (body s) i with
      | Some t => tspec t top r
      | None => True
      end
  end.

Lemma upd_nth_Forall {A} (P : A -> Prop) i x l : Forall P l -> P x -> Forall P (upd_nth i x l).
Proof.
  revert i; induction l as [|y r IH]; intros i Hl Hx; destruct i; simpl; try constructor;
    inversion Hl; subst; auto.
Qed.

Lemma upd_nth_map {A C} (g : A -> C) i x l y :
  nth_error l i = Some y -> g x = g y -> map g (upd_nth i x l) = map g l.
Proof.
  revert i; induction l as [|z r IH]; intros i Hn Hg; destruct i; simpl in *; try discriminate.
  - inversion Hn; subst. now rewrite Hg.
  - f_equal. now apply IH.
Qed.

Lemma snew_inv : SInv snew.
Proof.
  split; [repeat split; simpl; try (intros ? []); try constructor|discriminate].
Qed.

Theorem sstep_correct s op : SInv s -> sdisc s op ->
  SInv (fst (sstep O s op)) /\ sspec s op (snd (sstep O s op)).
Proof.
  intros I D. destruct op as [g|i top sf]; simpl in *.
  - destruct (step_correct _ _ srun (sF O) (sK O) (sC O) scur sok srun_ok s g I D) as (A & B & _). auto.
  - destruct (nth_error (body s) i) as [t|] eqn:En; [|split; auto].
    destruct D as [D1 D2].
    pose proof I as [W HM]. pose proof W as (W1 & W2 & W3 & N1 & N2 & N3 & OK).
    assert (Ht : TInv t) by (eapply Forall_forall; [exact OK|eapply nth_error_In; eauto]).
    destruct (tstep_correct t top Ht D1) as (A & Bs & Fr).
    destruct (tstep O t top) as [t' o'] eqn:Es; simpl in *.
    split; [|exact Bs].
    assert (OK' : Forall TInv (upd_nth i t' (body s))) by (apply upd_nth_Forall; auto).
    split; [repeat split; simpl; auto|].
    simpl. intros Hfl. apply orb_false_iff in Hfl. destruct Hfl as [Hc Hsf].
    assert (Hcont : content t' = content t).
    { destruct top; simpl in Fr; try exact Fr.
      destruct (Z.eq_dec (fst b) (content t)) as [e|n].
      - unfold tstep in Es. simpl in Es. inversion Es; subst. exact e.
      - rewrite (D2 n) in Hsf. discriminate. }
    destruct (HM Hc) as (M1 & M2 & M3).
    assert (Hcur : scur (upd_nth i t' (body s)) = scur (body s)) by (eapply upd_nth_map; eauto).
    repeat split; simpl; rewrite Hcur; auto.
Qed.

(* ---------------------------------------------------------------- whole histories *)
(* As long as the discipline has been respected so far, every answer meets its specification. *)
Fixpoint thist_ok (t : tc) (ops : list top) : Prop :=
  match ops with
  | [] => True
  | op :: r => tdisc t op -> tspec t op (snd (tstep O t op)) /\ thist_ok (fst (tstep O t op)) r
  end.

Fixpoint shist_ok (s : suite) (ops : list sop) : Prop :=
  match ops with
  | [] => True
  | op :: r => sdisc s op -> sspec s op (snd (sstep O s op)) /\ shist_ok (fst (sstep O s op)) r
  end.

Theorem tc_history_correct : forall ops t, TInv t -> thist_ok t ops.
Proof.
  induction ops as [|op r IH]; intros t I; simpl; [exact Logic.I|].
  intros D. destruct (tstep_correct t op I D) as (A & Bs & _). split; auto.
Qed.

Theorem suite_history_correct : forall ops s, SInv s -> shist_ok s ops.
Proof.
  induction ops as [|op r IH]; intros s I; simpl; [exact Logic.I|].
  intros D. destruct (sstep_correct s op I D) as (A & Bs). split; auto.
Qed.

(* the same as an invariant over fold_left, for disciplined histories *)
Fixpoint tdisciplined (t : tc) (ops : list top) : Prop :=
  match ops with [] => True | op :: r => tdisc t op /\ tdisciplined (fst (tstep O t op)) r end.
Fixpoint sdisciplined (s : suite) (ops : list sop) : Prop :=
  match ops with [] => True | op :: r => sdisc s op /\ sdisciplined (fst (sstep O s op)) r end.

Theorem tc_history_invariant : forall ops t, TInv t -> tdisciplined t ops -> TInv (trun_hist O t ops).
Proof.
  induction ops as [|op r IH]; intros t I D; simpl in *; [exact I|].
  destruct D as [D1 D2]. apply IH; auto. now destruct (tstep_correct t op I D1).
Qed.

Theorem suite_history_invariant : forall ops s, SInv s -> sdisciplined s ops -> SInv (srun_hist O s ops).
Proof.
  induction ops as [|op r IH]; intros s I D; simpl in *; [exact I|].
  destruct D as [D1 D2]. apply IH; auto. now destruct (sstep_correct s op I D1).
Qed.

(* Readable corollaries for a state satisfying the invariant. *)
Corollary fitness_for_fresh t f : TInv t -> In f (funcs t) ->
  snd (tstep O t (GetFitnessFor f)) = OVal (tF O f (content t)).
Proof. intros I D. now destruct (tstep_correct t (GetFitnessFor f) I D) as (_ & Bs & _). Qed.

Corollary is_covered_fresh t f : TInv t -> In f (funcs t) ->
  (forall c, tK O f c = (tF O f c =? 0)) ->
  snd (tstep O t (GetIsCovered f)) = OBool (tK O f (content t)).
Proof.
  intros I D Hc. destruct (tstep_correct t (GetIsCovered f) I D) as (_ & Bs & _).
  destruct Bs as (b & -> & [->| ->]); [reflexivity|]. now rewrite Hc.
Qed.

Corollary coverage_for_fresh t c : TInv t -> In c (cfuncs t) ->
  snd (tstep O t (GetCoverageFor c)) = OVal (tC O c (content t)).
Proof. intros I D. now destruct (tstep_correct t (GetCoverageFor c) I D) as (_ & Bs & _). Qed.

Corollary fitness_sum_fresh t : TInv t -> NoDup (funcs t) ->
  snd (tstep O t GetFitness) = OVal (zsum (map (fun f => tF O f (content t)) (funcs t))).
Proof.
  intros I N. destruct (tstep_correct t GetFitness I Logic.I) as (_ & Bs & _).
  destruct Bs as (ks & Nk & S & ->). f_equal. now apply zsum_same_set.
Qed.

Corollary coverage_mean_fresh t : TInv t -> NoDup (cfuncs t) -> cfuncs t <> [] ->
  snd (tstep O t GetCoverage) = OMean (zsum (map (fun c => tC O c (content t)) (cfuncs t))) (len (cfuncs t)).
Proof.
  intros I N Hne. destruct (tstep_correct t GetCoverage I Logic.I) as (_ & Bs & _).
  destruct (Bs Hne) as (ks & Nk & S & ->).
  destruct (zsum_same_set ks (cfuncs t) (fun c => tC O c (content t)) Nk N S) as [E1 E2].
  cbv beta. change (tcur (body t)) with (content t). rewrite E1, E2. reflexivity.
Qed.

Corollary suite_fitness_for_fresh s f : SInv s -> In f (funcs s) ->
  snd (sstep O s (SG (GetFitnessFor f))) = OVal (sF O f (map content (body s))).
Proof. intros I D. now destruct (sstep_correct s (SG (GetFitnessFor f)) I D) as (_ & Bs). Qed.

Corollary suite_coverage_for_fresh s c : SInv s -> In c (cfuncs s) ->
  snd (sstep O s (SG (GetCoverageFor c))) = OVal (sC O c (map content (body s))).
Proof. intros I D. now destruct (sstep_correct s (SG (GetCoverageFor c)) I D) as (_ & Bs). Qed.

(* a suite query re-executes exactly the stale members and leaves every member consistent *)
Corollary suite_query_refreshes_members s f : SInv s -> In f (funcs s) ->
  Forall TInv (body (fst (sstep O s (SG (GetFitnessFor f))))) /\
  map content (body (fst (sstep O s (SG (GetFitnessFor f))))) = map content (body s).
Proof.
  intros I D.
  destruct (step_correct _ _ srun (sF O) (sK O) (sC O) scur sok srun_ok s (GetFitnessFor f) I D) as (A & _ & Fr).
  split; [apply A|exact Fr].
Qed.

End WithOracles.

(* ---------------------------------------------------------------- non-vacuity and necessity *)
Definition exO : oracles := mk_oracles
  {| ftab := [[3; 0; 2]; [1; 4; 0]]; ktab := [[0; 1; 0]; [0; 0; 1]]; ctab := [[4; 2; 0]]; scons := true |}.

(* a reachable, non-trivial disciplined history: register, query, edit with the flag, query again *)
Example tc_example_history :
  let ops := [AddFit 0; AddCov 0; GetFitnessFor 0; Edit (2, Some 0) true; GetFitness; GetCoverage;
              Edit (1, Some 2) true; GetIsCovered 0] in
  tdisciplined exO (tnew 0) ops /\
  map (fun k => snd (tstep exO (trun_hist exO (tnew 0) (firstn k ops)) (nth k ops Clone))) [2%nat; 4%nat; 5%nat; 7%nat]
  = [OVal 3; OVal 2; OMean 0 1; OBool true].
Proof. split; [|vm_compute; reflexivity]. vm_compute. repeat split; auto; try discriminate. Qed.

Example suite_example_history :
  let m := tnew 1 in
  let ops := [SG (Edit [tnew 0; tnew 1] true); SG (AddFit 1); SG (GetFitnessFor 1);
              SMember 0 (Edit (2, None) true) true; SG (GetFitnessFor 1)] in
  sdisciplined exO snew ops /\
  snd (sstep exO (srun_hist exO snew (firstn 4 ops)) (SG (GetFitnessFor 1))) = OVal (sF exO 1 [2; 1]).
Proof.
  split; [|vm_compute; reflexivity].
  simpl. repeat split; auto; try discriminate; try (intros; exfalso; discriminate).
  constructor; [apply tnew_inv|constructor; [apply tnew_inv|constructor]].
Qed.

(* The discipline is necessary: an operator that changes the content without setting the flag (the
   defect of TestCaseMutation.mutate before the repair) yields a stale answer. *)
Example undisciplined_edit_is_stale :
  let t := trun_hist exO (tnew 0) [AddFit 0; GetFitnessFor 0; Edit (1, Some 0) false] in
  snd (tstep exO t (GetFitnessFor 0)) = OVal 3 /\ tF exO 0 (content t) = 0.
Proof. vm_compute. split; reflexivity. Qed.

(* Queries for unregistered functions are outside the statement: they leave a foreign key in the
   cache, after which a registered function can be missing although the sizes agree. *)
Example unregistered_query_breaks_lookup :
  let t := trun_hist exO (tnew 0) [AddFit 0; AddFit 1; GetFitnessFor 7; GetFitnessFor 0] in
  snd (tstep exO t (GetFitnessFor 1)) = OErr KeyError.
Proof. vm_compute. reflexivity. Qed.

(* The unrepaired _check_cache cleared the flag even when nothing was computed.  Model of that
   variant and the witness history (replayed on the implementation by the corpus). *)
Definition check_cache_old {B R} run F K C (w : which) (only : option Z) (o : cobj B) : cobj B :=
  if changed o then
    let o1 := @comp B R run F K C w only (invalidate o) in with_exec o1 (body o1) false
  else if negb (cache_len w o =? len (registered w o)) then comp run F K C w only o
  else o.

Example old_check_cache_stale :
  let t0 := trun_hist exO (tnew 0) [AddCov 0; GetCoverageFor 0; Edit (1, Some 0) true] in
  let t1 := check_cache_old trun (tF exO) (tK exO) (tC exO) WFit None t0 in   (* get_fitness(), no fitness function *)
  snd (tstep exO t1 (GetCoverageFor 0)) = OVal 4 /\ tC exO 0 (content t1) = 2 /\
  snd (tstep exO (fst (tstep exO t0 GetFitness)) (GetCoverageFor 0)) = OVal 2.
Proof. vm_compute. repeat split; reflexivity. Qed.

(* The covered verdict that the cache derives from a fitness value is "fitness = 0" EXACTLY
   (math.isclose(v, 0.0) without absolute tolerance is v == 0.0): a tiny non-zero fitness
   (a near miss of a float comparison) is never cached as covered. *)
Lemma lookup_put_same {V} k (v : V) l : lookup k (put k v l) = Some v.
Proof.
  induction l as [|[k' v'] r IH]; simpl; [now rewrite Z.eqb_refl|].
  destruct (Z.eqb k k') eqn:E; simpl; [now rewrite Z.eqb_refl|now rewrite E].
Qed.

Theorem fitness_verdict_exact {B R} (run : B -> bool -> (B * bool) * R) F K C (o : cobj B) f :
  has f (fit o) = false ->
  exists v, lookup f (fit (one run F K C WFit o f)) = Some v /\
            lookup f (isc (one run F K C WFit o f)) = Some (v =? 0).
Proof.
  intros H. unfold one. rewrite H. destruct (exec run o) as [o1 r]. simpl.
  exists (F f r). split; apply lookup_put_same.
Qed.
