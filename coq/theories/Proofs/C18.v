(* C18 — proofs about the writer model. *)
From Coq Require Import List NArith Bool.
From Verif Require Import Models.C18.
Import ListNotations.
Import C18.

(* ---------- names ---------- *)
Lemma name_eqb_eq a b : name_eqb a b = true <-> a = b.
Proof.
  destruct a, b; simpl; split; intro H; try reflexivity; try discriminate;
    try (apply N.eqb_eq in H; subst; reflexivity);
    try (inversion H; subst; apply N.eqb_refl).
Qed.

Lemma name_eqb_refl a : name_eqb a a = true.
Proof. apply name_eqb_eq. reflexivity. Qed.

Lemma mem_In n l : mem n l = true <-> In n l.
Proof.
  unfold mem. rewrite existsb_exists. split.
  - intros [y [Hy He]]. apply name_eqb_eq in He. subst. exact Hy.
  - intro H. exists n. split; [exact H|apply name_eqb_refl].
Qed.

Lemma mem_app n a b : mem n (a ++ b) = mem n a || mem n b.
Proof. unfold mem. apply existsb_app. Qed.

Lemma ok_name_spec G n : ok_name G n = true <-> is_builtin n = true \/ In n G.
Proof. unfold ok_name. rewrite orb_true_iff, mem_In. tauto. Qed.

Lemma ok_name_incl G G' n :
  (forall x, In x G -> In x G') -> ok_name G n = true -> ok_name G' n = true.
Proof. intros Hi. rewrite !ok_name_spec. intros [H|H]; [left; exact H|right; apply Hi, H]. Qed.

Lemma forallb_ok_incl G G' l :
  (forall x, In x G -> In x G') -> forallb (ok_name G) l = true -> forallb (ok_name G') l = true.
Proof.
  intros Hi. rewrite !forallb_forall. intros H x Hx. eapply ok_name_incl; [exact Hi|apply H, Hx].
Qed.

(* ---------- closedness: monotone in the environment, compositional ---------- *)
Lemma closed_header_incl h : forall G G',
  (forall x, In x G -> In x G') -> closed_header G h = true -> closed_header G' h = true.
Proof.
  induction h as [|t r IH]; intros G G' Hi H; simpl in *; [reflexivity|].
  apply andb_true_iff in H. destruct H as [H1 H2]. apply andb_true_iff. split.
  - eapply forallb_ok_incl; eauto.
  - eapply IH; [|exact H2]. intros x Hx. apply in_app_iff in Hx. apply in_app_iff.
    destruct Hx as [Hx|Hx]; [left; exact Hx|right; apply Hi, Hx].
Qed.

Lemma closed_header_app a : forall G b,
  closed_header G a = true -> closed_header (flat_map binds_top a ++ G) b = true ->
  closed_header G (a ++ b) = true.
Proof.
  induction a as [|t r IH]; intros G b Ha Hb; simpl in *; [exact Hb|].
  apply andb_true_iff in Ha. destruct Ha as [H1 H2]. apply andb_true_iff. split; [exact H1|].
  apply IH; [exact H2|]. eapply closed_header_incl; [|exact Hb].
  intros x Hx. rewrite !in_app_iff in *. tauto.
Qed.

Lemma closed_body_incl b : forall G G',
  (forall x, In x G -> In x G') -> closed_body G b = true -> closed_body G' b = true.
Proof.
  induction b as [|t r IH]; intros G G' Hi H; simpl in *; [reflexivity|].
  apply andb_true_iff in H. destruct H as [H1 H2]. apply andb_true_iff. split.
  - eapply forallb_ok_incl; eauto.
  - eapply IH; [|exact H2]. intros x Hx. apply in_app_iff in Hx. apply in_app_iff.
    destruct Hx as [Hx|Hx]; [left; exact Hx|right; apply Hi, Hx].
Qed.

(* the declarative reading of closed_body: every use is a builtin, in the environment, or bound
   by an earlier item of the same body *)
Lemma closed_body_spec b : forall G,
  closed_body G b = true ->
  forall pre it post n, b = pre ++ it :: post -> In n (uses_item it) ->
    is_builtin n = true \/ In n G \/ In n (flat_map binds_item pre).
Proof.
  induction b as [|t r IH]; intros G H pre it post n Hb Hn.
  - destruct pre; discriminate.
  - simpl in H. apply andb_true_iff in H. destruct H as [H1 H2].
    destruct pre as [|p pre']; simpl in Hb; inversion Hb; subst.
    + rewrite forallb_forall in H1. specialize (H1 n Hn). apply ok_name_spec in H1.
      destruct H1 as [Hb1|Hg]; [left; exact Hb1|right; left; exact Hg].
    + destruct (IH _ H2 pre' it post n eq_refl Hn) as [Hx|[Hx|Hx]].
      * left; exact Hx.
      * apply in_app_iff in Hx. destruct Hx as [Hx|Hx].
        -- right; right. simpl. apply in_app_iff. left; exact Hx.
        -- right; left; exact Hx.
      * right; right. simpl. apply in_app_iff. right; exact Hx.
Qed.

Lemma closed_header_spec h : forall G,
  closed_header G h = true ->
  forall pre t post n, h = pre ++ t :: post -> In n (uses_top t) ->
    is_builtin n = true \/ In n G \/ In n (flat_map binds_top pre).
Proof.
  induction h as [|t r IH]; intros G H pre it post n Hb Hn.
  - destruct pre; discriminate.
  - simpl in H. apply andb_true_iff in H. destruct H as [H1 H2].
    destruct pre as [|p pre']; simpl in Hb; inversion Hb; subst.
    + rewrite forallb_forall in H1. specialize (H1 n Hn). apply ok_name_spec in H1.
      destruct H1 as [Hb1|Hg]; [left; exact Hb1|right; left; exact Hg].
    + destruct (IH _ H2 pre' it post n eq_refl Hn) as [Hx|[Hx|Hx]].
      * left; exact Hx.
      * apply in_app_iff in Hx. destruct Hx as [Hx|Hx].
        -- right; right. simpl. apply in_app_iff. left; exact Hx.
        -- right; left; exact Hx.
      * right; right. simpl. apply in_app_iff. right; exact Hx.
Qed.

Lemma closed_asserts G l rest :
  forallb (fun a => forallb (ok_name G) (uses_assert a)) l = true ->
  closed_body G rest = true ->
  closed_body G (map IAssert l ++ rest) = true.
Proof.
  intros Hl Hr. induction l as [|a r IH]; simpl in *; [exact Hr|].
  apply andb_true_iff in Hl. destruct Hl as [H1 H2]. rewrite H1. simpl. apply IH, H2.
Qed.

(* ---------- the globals of the written module ---------- *)
Lemma binds_sut_block c : flat_map binds_top (sut_block c) = [Sys; SutRoot; Alias] ++ publics c.
Proof. unfold sut_block. destruct (publics c); simpl; rewrite ?app_nil_r; reflexivity. Qed.

Lemma binds_exc_block c suite :
  flat_map binds_top (exc_block c suite) = map snd (exc_imports c suite).
Proof. unfold exc_block. destruct (exc_imports c suite); simpl; rewrite ?app_nil_r; reflexivity. Qed.

Lemma globals_write c suite :
  globals (write c suite) =
    if seed c then [Random; Pytest] ++ map snd (exc_imports c suite) ++ [Sys; SutRoot; Alias] ++ publics c
    else (if needs_pytest c suite then [Pytest] else [])
         ++ ([Sys; SutRoot; Alias] ++ publics c) ++ map snd (exc_imports c suite).
Proof.
  unfold globals, write. cbn [header]. destruct (seed c).
  - rewrite !flat_map_app, binds_exc_block, binds_sut_block. simpl. rewrite app_nil_r. reflexivity.
  - rewrite !flat_map_app, binds_exc_block, binds_sut_block.
    destruct (needs_pytest c suite); reflexivity.
Qed.

Lemma globals_alias c suite : In Alias (globals (write c suite)).
Proof.
  rewrite globals_write. destruct (seed c).
  - simpl. right; right. apply in_app_iff. right. simpl. tauto.
  - apply in_app_iff. right. apply in_app_iff. left. simpl. tauto.
Qed.

Lemma globals_public c suite n : In n (publics c) -> In n (globals (write c suite)).
Proof.
  intro H. rewrite globals_write. destruct (seed c).
  - simpl. right; right. apply in_app_iff. right. simpl. tauto.
  - apply in_app_iff. right. apply in_app_iff. left. simpl. tauto.
Qed.

Lemma globals_exc c suite m n : In (m, n) (exc_imports c suite) -> In n (globals (write c suite)).
Proof.
  intro H. assert (Hs : In n (map snd (exc_imports c suite))).
  { apply in_map_iff. exists (m, n). split; [reflexivity|exact H]. }
  rewrite globals_write. destruct (seed c).
  - simpl. right; right. apply in_app_iff. left. exact Hs.
  - apply in_app_iff. right. apply in_app_iff. right. exact Hs.
Qed.

Lemma globals_pytest c suite : needs_pytest c suite = true -> In Pytest (globals (write c suite)).
Proof.
  intro H. rewrite globals_write. destruct (seed c) eqn:Es.
  - simpl. tauto.
  - rewrite H. simpl. tauto.
Qed.

Lemma seed_needs c suite : seed c = true -> needs_pytest c suite = true.
Proof. intro H. unfold needs_pytest. rewrite H. reflexivity. Qed.

(* ---------- the header is closed ---------- *)
Lemma closed_sut_block c G : closed_header G (sut_block c) = true.
Proof.
  unfold sut_block. destruct (publics c); simpl; unfold ok_name; simpl; reflexivity.
Qed.

Lemma closed_exc_block c suite G : closed_header G (exc_block c suite) = true.
Proof. unfold exc_block. destruct (exc_imports c suite); reflexivity. Qed.

Lemma header_closed c suite : closed_header [] (header (write c suite)) = true.
Proof.
  unfold write. cbn [header]. destruct (seed c).
  - apply (closed_header_app [TImport Random; TImport Pytest; TPatch]); [reflexivity|].
    apply (closed_header_app (exc_block c suite)); [apply closed_exc_block|].
    apply (closed_header_app (sut_block c)); [apply closed_sut_block|].
    cbn [closed_header uses_top forallb]. rewrite !andb_true_r.
    apply ok_name_spec; right; rewrite !in_app_iff; right; right; simpl; tauto.
  - apply closed_header_app.
    + destruct (needs_pytest c suite); reflexivity.
    + apply closed_header_app; [apply closed_sut_block|apply closed_exc_block].
Qed.

(* ---------- bodies are closed ---------- *)
Definition mentions (b : list item) : bool := existsb (fun it => mem Pytest (uses_item it)) b.

Lemma mentions_app a b : mentions (a ++ b) = mentions a || mentions b.
Proof. apply existsb_app. Qed.

Lemma or_pass_mentions b : mentions (or_pass b) = mentions b.
Proof. destruct b; reflexivity. Qed.

Lemma amb_ok c G L n :
  In Alias G -> (forall x, In x (publics c) -> In x G) ->
  (n = Pytest -> In Pytest G) ->
  ambient c n || mem n L = true -> ok_name (L ++ G) n = true.
Proof.
  intros HA HP Hpy H. apply ok_name_spec. apply orb_true_iff in H. destruct H as [H|H].
  - unfold ambient in H. rewrite !orb_true_iff in H. destruct H as [[[H|H]|H]|H].
    + left; exact H.
    + apply name_eqb_eq in H. subst. right. apply in_app_iff. right; exact HA.
    + apply name_eqb_eq in H. right. apply in_app_iff. right. rewrite H. apply Hpy, H.
    + apply mem_In in H. right. apply in_app_iff. right. apply HP, H.
  - apply mem_In in H. right. apply in_app_iff. left; exact H.
Qed.

Lemma items_closed c G tc : forall L,
  In Alias G -> (forall x, In x (publics c) -> In x G) ->
  (mentions (flat_map (items_of c) tc) = true -> In Pytest G) ->
  (forall s e, In s tc -> wrapped c s = Some e -> ok_name G (e_name e) = true) ->
  wf_tc c L tc = true ->
  closed_body (L ++ G) (flat_map (items_of c) tc) = true.
Proof.
  induction tc as [|s r IH]; intros L HA HP Hpy HE Hwf; [reflexivity|].
  simpl in Hwf. apply andb_true_iff in Hwf. destruct Hwf as [Hs Hr].
  unfold wf_stmt in Hs. rewrite !andb_true_iff in Hs. destruct Hs as [[Hu Has] _].
  change (flat_map (items_of c) (s :: r)) with (items_of c s ++ flat_map (items_of c) r) in *.
  rewrite mentions_app in Hpy.
  assert (Hrest : closed_body ((s_bind s ++ L) ++ G) (flat_map (items_of c) r) = true).
  { apply IH; auto.
    - intro Hm. apply Hpy. rewrite Hm. apply orb_true_r.
    - intros s0 e Hin. apply HE. right; exact Hin. }
  unfold items_of in *. simpl.
  apply andb_true_iff. split.
  - (* the statement itself *)
    assert (Hsu : forallb (ok_name (L ++ G)) (s_uses s) = true).
    { rewrite forallb_forall in *. intros n Hn. apply (amb_ok c); auto.
      intro Hp. subst n. apply Hpy. apply orb_true_iff. left. simpl.
      apply orb_true_iff. left.
      destruct (option_map e_name (wrapped c s)); simpl; [reflexivity|].
      apply mem_In. exact Hn. }
    destruct (wrapped c s) as [e|] eqn:Ew; simpl; [|exact Hsu].
    rewrite Hsu. rewrite andb_true_r. apply andb_true_iff. split.
    + apply ok_name_spec. right. apply in_app_iff. right. apply Hpy.
      apply orb_true_iff. left. reflexivity.
    + eapply ok_name_incl; [|apply (HE s e); [left; reflexivity|exact Ew]].
      intros x Hx. apply in_app_iff. right; exact Hx.
  - (* its assertions, then the rest *)
    rewrite <- app_assoc in Hrest. apply closed_asserts; [|exact Hrest].
    rewrite forallb_forall in *. intros a Ha. specialize (Has a Ha).
    rewrite forallb_forall in *. intros n Hn. rewrite app_assoc.
    apply (amb_ok c); auto.
    intro Hp. subst n. apply Hpy. apply orb_true_iff. left. simpl. apply orb_true_iff. right.
    unfold mentions.
    apply existsb_exists. exists (IAssert a). split.
    + apply in_map, Ha.
    + simpl. apply mem_In, Hn.
Qed.

Lemma closed_or_pass G b : closed_body G b = true -> closed_body G (or_pass b) = true.
Proof. destruct b; [reflexivity|auto]. Qed.

Lemma wrapped_exc c s e : wrapped c s = Some e -> s_exc s = Some e /\ handled c s = true.
Proof.
  unfold wrapped. destruct (s_exc s) as [e'|]; [|discriminate].
  destruct (handled c s); [|discriminate]. intro H. inversion H. subst. auto.
Qed.

Lemma wf_tc_exc c tc : forall L s e, wf_tc c L tc = true -> In s tc -> s_exc s = Some e -> wf_exc e = true.
Proof.
  induction tc as [|s0 r IH]; intros L s e Hwf Hin He; [destruct Hin|].
  simpl in Hwf. apply andb_true_iff in Hwf. destruct Hwf as [Hs Hr].
  destruct Hin as [->|Hin]; [|eapply IH; eauto].
  unfold wf_stmt in Hs. rewrite !andb_true_iff in Hs. destruct Hs as [_ Hx].
  rewrite He in Hx. exact Hx.
Qed.

Lemma exc_ok c suite tc s e :
  wf_suite c suite = true -> In tc suite -> In s tc -> wrapped c s = Some e ->
  ok_name (globals (write c suite)) (e_name e) = true.
Proof.
  intros Hwf Htc Hs Hw. apply ok_name_spec.
  destruct (e_mod e) as [m|] eqn:Em.
  - right. apply (globals_exc c suite m). unfold exc_imports, used_excs.
    apply in_flat_map. exists e. split.
    + apply in_flat_map. exists tc. split; [exact Htc|].
      apply in_flat_map. exists s. split; [exact Hs|]. rewrite Hw. left; reflexivity.
    + rewrite Em. left; reflexivity.
  - left. unfold wf_suite in Hwf. rewrite forallb_forall in Hwf. specialize (Hwf tc Htc).
    destruct (wrapped_exc c s e Hw) as [He _].
    pose proof (wf_tc_exc c tc [] s e Hwf Hs He) as Hx. unfold wf_exc in Hx. rewrite Em in Hx. exact Hx.
Qed.

Lemma mention_needs c suite tc :
  In tc suite -> func_mentions_pytest (func_of c tc) = true -> needs_pytest c suite = true.
Proof.
  intros Hin Hm. unfold needs_pytest. apply orb_true_iff. right.
  apply existsb_exists. exists (func_of c tc). split; [apply in_map, Hin|exact Hm].
Qed.

Lemma func_closed c suite tc :
  wf_suite c suite = true -> In tc suite ->
  closed_func (globals (write c suite)) (func_of c tc) = true.
Proof.
  intros Hwf Hin. unfold closed_func. apply andb_true_iff. split.
  - destruct (f_xfail (func_of c tc)) eqn:Ex; [|reflexivity].
    apply mem_In. apply globals_pytest. apply (mention_needs c suite tc Hin).
    unfold func_mentions_pytest. rewrite Ex. reflexivity.
  - simpl. unfold body_of. apply closed_or_pass.
    change (globals (write c suite)) with ([] ++ globals (write c suite)).
    apply items_closed.
    + apply globals_alias.
    + apply globals_public.
    + intro Hm. apply globals_pytest. apply (mention_needs c suite tc Hin).
      unfold func_mentions_pytest. apply orb_true_iff. right. simpl. unfold body_of.
      fold (mentions (or_pass (flat_map (items_of c) tc))). rewrite or_pass_mentions. exact Hm.
    + intros s e Hs Hw. eapply exc_ok; eauto.
    + unfold wf_suite in Hwf. rewrite forallb_forall in Hwf. apply Hwf, Hin.
Qed.

Lemma module_closed c suite : wf_suite c suite = true -> closed_module (write c suite) = true.
Proof.
  intro Hwf. unfold closed_module. rewrite header_closed. simpl.
  apply forallb_forall. intros f Hf. destruct suite as [|t r].
  - simpl in Hf. destruct Hf as [<-|[]]. reflexivity.
  - remember (t :: r) as suite. assert (Hf' : In f (map (func_of c) suite)) by (subst; exact Hf).
    apply in_map_iff in Hf'. destruct Hf' as [tc [<- Htc]]. apply func_closed; assumption.
Qed.

(* The property as stated: every free name of an emitted body item is a builtin, bound by the
   header, or bound by an earlier item of the same function; decorators and the header itself
   only use names bound above them. *)
Lemma names_closed c suite :
  wf_suite c suite = true ->
  let m := write c suite in
  (forall pre t post n, header m = pre ++ t :: post -> In n (uses_top t) ->
     is_builtin n = true \/ In n (flat_map binds_top pre)) /\
  (forall f, In f (funcs m) -> f_xfail f = true -> In Pytest (globals m)) /\
  (forall f pre it post n, In f (funcs m) -> f_body f = pre ++ it :: post -> In n (uses_item it) ->
     is_builtin n = true \/ In n (globals m) \/ In n (flat_map binds_item pre)).
Proof.
  intros Hwf m. pose proof (module_closed c suite Hwf) as H. fold m in H.
  unfold closed_module in H. apply andb_true_iff in H. destruct H as [Hh Hf].
  rewrite forallb_forall in Hf. split; [|split].
  - intros pre t post n Hd Hn.
    destruct (closed_header_spec _ _ Hh pre t post n Hd Hn) as [H|[[]|H]]; tauto.
  - intros f Hin Hx. specialize (Hf f Hin). unfold closed_func in Hf.
    rewrite Hx in Hf. apply andb_true_iff in Hf. apply mem_In. tauto.
  - intros f pre it post n Hin Hb Hn. specialize (Hf f Hin). unfold closed_func in Hf.
    apply andb_true_iff in Hf. destruct Hf as [_ Hc].
    eapply closed_body_spec; eauto.
Qed.

(* `import pytest` is emitted exactly when it is needed *)
Lemma pytest_imported_iff c suite :
  In (TImport Pytest) (header (write c suite)) <-> needs_pytest c suite = true.
Proof.
  unfold write. simpl. destruct (seed c) eqn:Es.
  - split; intro; [apply seed_needs, Es|simpl; tauto].
  - destruct (needs_pytest c suite) eqn:En.
    + split; intro; [reflexivity|simpl; tauto].
    + simpl. split; [|discriminate]. intro H.
      destruct H as [H|[H|[H|H]]]; try discriminate.
      apply in_app_iff in H. destruct H as [H|H].
      * destruct (publics c); simpl in H; intuition discriminate.
      * unfold exc_block in H. destruct (exc_imports c suite); simpl in H; intuition discriminate.
Qed.

Lemma needs_pytest_iff c suite :
  needs_pytest c suite = true <->
  seed c = true \/ exists tc, In tc suite /\ func_mentions_pytest (func_of c tc) = true.
Proof.
  unfold needs_pytest. rewrite !orb_true_iff. split.
  - intros [[H|H]|H].
    + left; exact H.
    + right. apply existsb_exists in H. destruct H as [tc [Hin Hr]]. exists tc. split; [exact Hin|].
      unfold raises_any in Hr. apply existsb_exists in Hr. destruct Hr as [s [Hs He]].
      unfold func_mentions_pytest. simpl.
      destruct (existsb (unexpected c) tc) eqn:Ex; [reflexivity|]. simpl.
      destruct (s_exc s) as [e|] eqn:Ee; [|discriminate].
      assert (Hw : wrapped c s = Some e).
      { unfold wrapped. rewrite Ee. destruct (handled c s) eqn:Eh; [reflexivity|].
        exfalso. assert (Hu : existsb (unexpected c) tc = true).
        { apply existsb_exists. exists s. split; [exact Hs|]. unfold unexpected. rewrite Ee, Eh. reflexivity. }
        congruence. }
      unfold body_of. fold (mentions (or_pass (flat_map (items_of c) tc))). rewrite or_pass_mentions.
      unfold mentions. apply existsb_exists.
      exists (IStmt (Some (e_name e)) s). split.
      * apply in_flat_map. exists s. split; [exact Hs|]. unfold items_of. rewrite Hw. left; reflexivity.
      * reflexivity.
    + right. apply existsb_exists in H. destruct H as [f [Hf Hm]].
      apply in_map_iff in Hf. destruct Hf as [tc [<- Hin]]. exists tc. auto.
  - intros [H|[tc [Hin Hm]]]; [left; left; exact H|].
    right. apply existsb_exists. exists (func_of c tc). split; [apply in_map, Hin|exact Hm].
Qed.

(* ---------- xfail / raises ---------- *)
Lemma unexpected_iff c s :
  unexpected c s = true <->
  exists e, s_exc s = Some e /\ no_xfail c = false /\ s_expected s = false.
Proof.
  unfold unexpected, handled. destruct (s_exc s) as [e|].
  - rewrite negb_true_iff, orb_false_iff. split.
    + intros [H1 H2]. exists e. auto.
    + intros [e' [_ [H1 H2]]]. auto.
  - split; [discriminate|]. intros [e [H _]]. discriminate.
Qed.

Lemma funcs_nth c suite i tc :
  nth_error suite i = Some tc -> nth_error (funcs (write c suite)) i = Some (func_of c tc).
Proof.
  intro H. unfold write. simpl. destruct suite as [|t r]; [destruct i; discriminate|].
  apply map_nth_error. exact H.
Qed.

Lemma xfail_iff_unexpected c suite i tc :
  nth_error suite i = Some tc ->
  exists f, nth_error (funcs (write c suite)) i = Some f /\
    (f_xfail f = true <->
     exists s e, In s tc /\ s_exc s = Some e /\ no_xfail c = false /\ s_expected s = false).
Proof.
  intro H. exists (func_of c tc). split; [apply funcs_nth, H|].
  simpl. rewrite existsb_exists. split.
  - intros [s [Hs Hu]]. apply unexpected_iff in Hu. destruct Hu as [e Hu]. exists s, e. tauto.
  - intros [s [e [Hs Hu]]]. exists s. split; [exact Hs|]. apply unexpected_iff. exists e. exact Hu.
Qed.

Lemma funcs_length c suite : suite <> [] -> length (funcs (write c suite)) = length suite.
Proof. intro H. unfold write. simpl. destruct suite; [congruence|]. apply map_length. Qed.

Definition stmts_of (b : list item) : list stmt :=
  flat_map (fun it => match it with IStmt _ s => [s] | _ => [] end) b.
Definition asserts_of (b : list item) : list assertion :=
  flat_map (fun it => match it with IAssert a => [a] | _ => [] end) b.

Lemma stmts_of_app a b : stmts_of (a ++ b) = stmts_of a ++ stmts_of b.
Proof. apply flat_map_app. Qed.

Lemma stmts_of_asserts l : stmts_of (map IAssert l) = [].
Proof. induction l; simpl; auto. Qed.

Lemma stmts_of_or_pass b : stmts_of (or_pass b) = stmts_of b.
Proof. destruct b; reflexivity. Qed.

(* nothing lost, duplicated or reordered *)
Lemma body_stmts c tc : stmts_of (f_body (func_of c tc)) = tc.
Proof.
  simpl. unfold body_of. rewrite stmts_of_or_pass.
  induction tc as [|s r IH]; [reflexivity|].
  change (flat_map (items_of c) (s :: r)) with (items_of c s ++ flat_map (items_of c) r).
  rewrite stmts_of_app, IH. unfold items_of.
  change (IStmt (option_map e_name (wrapped c s)) s :: map IAssert (filter rendered (s_asserts s)))
    with ([IStmt (option_map e_name (wrapped c s)) s] ++ map IAssert (filter rendered (s_asserts s))).
  rewrite stmts_of_app, stmts_of_asserts. reflexivity.
Qed.

Lemma asserts_of_app a b : asserts_of (a ++ b) = asserts_of a ++ asserts_of b.
Proof. apply flat_map_app. Qed.

Lemma asserts_of_asserts l : asserts_of (map IAssert l) = l.
Proof. induction l; simpl; [reflexivity|]. f_equal. exact IHl. Qed.

Lemma asserts_of_or_pass b : asserts_of (or_pass b) = asserts_of b.
Proof. destruct b; reflexivity. Qed.

Lemma body_asserts c tc :
  asserts_of (f_body (func_of c tc)) = flat_map (fun s => filter rendered (s_asserts s)) tc.
Proof.
  simpl. unfold body_of. rewrite asserts_of_or_pass.
  induction tc as [|s r IH]; [reflexivity|].
  change (flat_map (items_of c) (s :: r)) with (items_of c s ++ flat_map (items_of c) r).
  rewrite asserts_of_app, IH. unfold items_of. simpl. rewrite asserts_of_asserts. reflexivity.
Qed.

Lemma in_body c tc w s :
  In (IStmt w s) (f_body (func_of c tc)) -> In s tc /\ w = option_map e_name (wrapped c s).
Proof.
  simpl. unfold body_of. intro H.
  assert (H' : In (IStmt w s) (flat_map (items_of c) tc)).
  { destruct (flat_map (items_of c) tc); simpl in H; [destruct H as [H|[]]; discriminate|exact H]. }
  apply in_flat_map in H'. destruct H' as [s0 [Hs0 Hi]]. unfold items_of in Hi.
  destruct Hi as [Hi|Hi].
  - inversion Hi; subst. auto.
  - apply in_map_iff in Hi. destruct Hi as [a [Ha _]]. discriminate.
Qed.

Lemma raises_wraps_only_raising c tc w s :
  In (IStmt w s) (f_body (func_of c tc)) ->
  In s tc /\
  (forall E, w = Some E ->
     exists e, s_exc s = Some e /\ e_name e = E /\ (no_xfail c = true \/ s_expected s = true)) /\
  (w = None -> s_exc s = None \/ (no_xfail c = false /\ s_expected s = false)).
Proof.
  intro H. destruct (in_body c tc w s H) as [Hs ->]. split; [exact Hs|]. split.
  - intros E HE. destruct (wrapped c s) as [e|] eqn:Ew; [|discriminate].
    simpl in HE. inversion HE. destruct (wrapped_exc c s e Ew) as [He Hh].
    exists e. split; [exact He|]. split; [reflexivity|].
    unfold handled in Hh. apply orb_true_iff in Hh. exact Hh.
  - intro HN. unfold wrapped in HN. destruct (s_exc s) as [e|]; [|left; reflexivity].
    destruct (handled c s) eqn:Eh; [discriminate|]. right.
    unfold handled in Eh. apply orb_false_iff in Eh. exact Eh.
Qed.

Lemma raising_is_wrapped c tc s e :
  In s tc -> s_exc s = Some e -> (no_xfail c = true \/ s_expected s = true) ->
  In (IStmt (Some (e_name e)) s) (f_body (func_of c tc)).
Proof.
  intros Hs He Hh. simpl. unfold body_of.
  assert (H : In (IStmt (Some (e_name e)) s) (flat_map (items_of c) tc)).
  { apply in_flat_map. exists s. split; [exact Hs|]. unfold items_of, wrapped, handled. rewrite He.
    destruct Hh as [-> | ->]; simpl; rewrite ?orb_true_r; left; reflexivity. }
  destruct (flat_map (items_of c) tc); [destruct H|exact H].
Qed.

(* ---------- what pytest reports for a deterministic SUT ---------- *)
Lemma run_asserts l rest :
  forallb a_holds l = true -> run_body (map IAssert l ++ rest) = run_body rest.
Proof.
  induction l as [|a r IH]; intro H; simpl in *; [reflexivity|].
  apply andb_true_iff in H. destruct H as [H1 H2]. rewrite H1. apply IH, H2.
Qed.

Lemma run_items c tc :
  all_hold tc = true ->
  run_body (flat_map (items_of c) tc) = if existsb (unexpected c) tc then Fail else Pass.
Proof.
  induction tc as [|s r IH]; intro H; [reflexivity|].
  simpl in H. apply andb_true_iff in H. destruct H as [H1 H2].
  change (flat_map (items_of c) (s :: r)) with (items_of c s ++ flat_map (items_of c) r).
  unfold items_of. simpl existsb. unfold unexpected at 1, wrapped.
  destruct (s_exc s) as [e|] eqn:Ee.
  - destruct (handled c s) eqn:Eh; simpl.
    + rewrite Ee, name_eqb_refl. rewrite run_asserts by exact H1. apply IH, H2.
    + rewrite Ee. reflexivity.
  - simpl. rewrite Ee. rewrite run_asserts by exact H1. apply IH, H2.
Qed.

Lemma run_or_pass b : run_body (or_pass b) = run_body b.
Proof. destruct b; reflexivity. Qed.

Lemma report_spec c tc :
  all_hold tc = true ->
  pytest_report (func_of c tc) = if f_xfail (func_of c tc) then XFailed else Passed.
Proof.
  intro H. unfold pytest_report. simpl. unfold body_of. rewrite run_or_pass, run_items by exact H.
  destruct (existsb (unexpected c) tc); reflexivity.
Qed.

(* ---------- non-vacuity: a concrete suite satisfying the hypotheses ---------- *)
Definition ex_cfg : cfg := {| no_xfail := false; seed := false; publics := [Glob 7] |}.
Definition ex_suite : list testcase :=
  [ [ {| s_id := 0; s_bind := [Var 0]; s_uses := []; s_exc := None; s_expected := false;
         s_asserts := [ {| a_kind := AFloat; a_src := Var 0; a_vals := []; a_holds := true |} ] |};
      {| s_id := 1; s_bind := [Var 1]; s_uses := [Alias; Var 0]; s_exc := None; s_expected := false;
         s_asserts := [ {| a_kind := AObject; a_src := Var 1; a_vals := [Glob 7]; a_holds := true |};
                        {| a_kind := AIsInstance Alias; a_src := Var 1; a_vals := []; a_holds := true |} ] |} ];
    [ {| s_id := 0; s_bind := []; s_uses := [Alias; Builtin 9];
         s_exc := Some {| e_name := Glob 3; e_mod := Some 5%N; e_base := false |}; s_expected := true; s_asserts := [] |};
      {| s_id := 1; s_bind := []; s_uses := [Alias];
         s_exc := Some {| e_name := Builtin 4; e_mod := None; e_base := true |}; s_expected := false; s_asserts := [] |} ] ].

Example ex_wf : wf_suite ex_cfg ex_suite = true.
Proof. reflexivity. Qed.

Example ex_write :
  write ex_cfg ex_suite =
  {| header := [TImport Pytest; TImport Sys; TImport SutRoot; TAlias; TFromSut [Glob 7];
                TExcImports [(5%N, Glob 3)]];
     funcs := [func_of ex_cfg (nth 0 ex_suite []); func_of ex_cfg (nth 1 ex_suite [])] |}
  /\ map f_xfail (funcs (write ex_cfg ex_suite)) = [false; true]
  /\ all_hold (nth 0 ex_suite []) = true.
Proof. repeat split. Qed.

(* without the float assertion's pytest.approx and without exceptions no import is emitted *)
Example ex_no_pytest :
  header (write ex_cfg [[ {| s_id := 0; s_bind := [Var 0]; s_uses := []; s_exc := None;
                             s_expected := false; s_asserts := [] |} ]])
  = [TImport Sys; TImport SutRoot; TAlias; TFromSut [Glob 7]].
Proof. reflexivity. Qed.

Lemma pytest_imported_spec c suite :
  In (TImport Pytest) (header (write c suite)) <->
  (seed c = true \/ exists tc, In tc suite /\ func_mentions_pytest (func_of c tc) = true).
Proof. rewrite pytest_imported_iff. apply needs_pytest_iff. Qed.

Lemma body_preserves c tc :
  stmts_of (f_body (func_of c tc)) = tc /\
  asserts_of (f_body (func_of c tc)) = flat_map (fun s => filter rendered (s_asserts s)) tc.
Proof. split; [apply body_stmts|apply body_asserts]. Qed.


(* Every exception kind is handled alike, in particular BaseExceptions that are not Exceptions
   (SystemExit, KeyboardInterrupt, GeneratorExit, user subclasses): the statement is wrapped if
   handled, otherwise the function is marked; it is never emitted bare in an unmarked function. *)
Lemma base_exception_covered c tc s e :
  In s tc -> s_exc s = Some e -> e_base e = true ->
  (no_xfail c = true \/ s_expected s = true -> In (IStmt (Some (e_name e)) s) (f_body (func_of c tc))) /\
  (no_xfail c = false /\ s_expected s = false -> f_xfail (func_of c tc) = true) /\
  (In (IStmt None s) (f_body (func_of c tc)) -> f_xfail (func_of c tc) = true).
Proof.
  intros Hs He _. split; [|split].
  - intro Hh. apply raising_is_wrapped; assumption.
  - intros [Hn Hx]. simpl. apply existsb_exists. exists s. split; [exact Hs|].
    apply unexpected_iff. exists e. auto.
  - intro Hin. destruct (raises_wraps_only_raising c tc None s Hin) as [_ [_ Hnone]].
    destruct (Hnone eq_refl) as [Hno|[Hn Hx]]; [congruence|].
    simpl. apply existsb_exists. exists s. split; [exact Hs|].
    apply unexpected_iff. exists e. auto.
Qed.

Example ex_system_exit :
  let s := {| s_id := 0; s_bind := []; s_uses := [Alias];
              s_exc := Some {| e_name := Builtin 20; e_mod := None; e_base := true |};
              s_expected := false; s_asserts := [] |} in
  f_xfail (func_of ex_cfg [s]) = true /\
  f_body (func_of {| no_xfail := true; seed := false; publics := [] |} [s]) = [IStmt (Some (Builtin 20)) s] /\
  pytest_report (func_of ex_cfg [s]) = XFailed.
Proof. repeat split. Qed.
