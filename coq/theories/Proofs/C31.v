(* C31 — proofs about the orchestration model of the subprocess executor (Models/C31.v). *)
From Coq Require Import List ZArith Bool Lia.
From Verif Require Import Models.C31.
Import ListNotations. Import C31.
Open Scope Z_scope.

Section Orchestration.
  Context {test item : Type}.
  Variable E : test -> list item.
  Variable picklable : item -> bool.

  Lemma fallback_length ts : forall oks, length (fallback E picklable ts oks) = length ts.
  Proof. induction ts as [|t r IH]; intro oks; cbn; [reflexivity|]. rewrite IH. reflexivity. Qed.

  (* one result per test case, whatever crashes *)
  Lemma shape ts batch_ok singles :
    length (execute_multiple E picklable ts batch_ok singles) = length ts.
  Proof.
    unfold execute_multiple. destruct ts as [|t r]; [reflexivity|].
    destruct batch_ok; [apply map_length|].
    destruct r as [|t' r']; [reflexivity|]. apply fallback_length.
  Qed.

  Lemma fallback_nth ts : forall oks i t, nth_error ts i = Some t ->
    nth_error (fallback E picklable ts oks) i = Some (single E picklable t (nth i oks false)).
  Proof.
    induction ts as [|t0 r IH]; intros oks i t H.
    - destruct i; discriminate.
    - destruct i as [|i]; cbn in *.
      + inversion H; subst. destruct oks; reflexivity.
      + rewrite (IH (tl oks) i t H). destruct oks as [|o oks']; cbn; [|reflexivity].
        destruct i; reflexivity.
  Qed.

  (* order: the i-th result belongs to the i-th test: it is that test's transported in-process result, or
     the timeout result *)
  Lemma order ts batch_ok singles i t : nth_error ts i = Some t ->
    nth_error (execute_multiple E picklable ts batch_ok singles) i = Some (via_subprocess E picklable t)
    \/ nth_error (execute_multiple E picklable ts batch_ok singles) i = Some Timeout.
  Proof.
    intro H. unfold execute_multiple. destruct ts as [|t0 r]; [destruct i; discriminate|].
    destruct batch_ok.
    - left. apply map_nth_error. exact H.
    - destruct r as [|t1 r'].
      + destruct i as [|i]; [right; reflexivity|]. destruct i; discriminate.
      + rewrite (fallback_nth (t0 :: t1 :: r') singles i t H). unfold single.
        destruct (nth i singles false); [left|right]; reflexivity.
  Qed.

  Lemma transport_id l : forallb picklable l = true -> transport picklable l = l.
  Proof.
    induction l as [|x r IH]; intro H; [reflexivity|]. cbn in H.
    apply andb_true_iff in H. destruct H as [Hx Hr]. unfold transport in *. cbn [filter].
    rewrite Hx, (IH Hr). reflexivity.
  Qed.

  (* transparency: no crash and everything picklable: the subprocess executor returns exactly what the
     in-process executor returns *)
  Lemma transparent ts singles :
    (forall t, In t ts -> forallb picklable (E t) = true) ->
    execute_multiple E picklable ts true singles = in_process E ts.
  Proof.
    intro H. unfold execute_multiple, in_process. destruct ts as [|t r]; [reflexivity|].
    apply map_ext_in. intros a Ha. unfold via_subprocess. rewrite transport_id; [reflexivity|].
    apply H. exact Ha.
  Qed.

  (* also when the batch fails but every fallback run succeeds (two or more tests) *)
  Lemma fallback_all_ok ts : forall oks, length oks = length ts -> forallb (fun b => b) oks = true ->
    fallback E picklable ts oks = map (via_subprocess E picklable) ts.
  Proof.
    induction ts as [|t r IH]; intros oks L A; [reflexivity|].
    destruct oks as [|o oks']; [discriminate|]. cbn in *.
    apply andb_true_iff in A. destruct A as [Ho Ar]. subst o. cbn.
    rewrite IH; [reflexivity|lia|exact Ar].
  Qed.

  (* transport never invents or reorders items *)
  Lemma transport_sub l x : In x (transport picklable l) -> In x l /\ picklable x = true.
  Proof. unfold transport. apply filter_In. Qed.
End Orchestration.

(* ---- _fix_assertion_trace ----------------------------------------------------------------------- *)
Definition self_map (m : bindings) : Prop := forall k v, lookup m k = Some v -> v = k.

Lemma rename_self m v : self_map m -> rename m v = v.
Proof.
  intro H. unfold rename. destruct (lookup m v) as [o|] eqn:L; [apply H; exact L|reflexivity].
Qed.

Lemma lookup_in b k v : lookup b k = Some v -> In (k, v) b.
Proof.
  induction b as [|[k' v'] r IH]; cbn; [discriminate|].
  destruct (Z.eqb k k') eqn:E.
  - apply Z.eqb_eq in E. subst. intro H. inversion H. left. reflexivity.
  - intro H. right. apply IH. exact H.
Qed.

Lemma in_lookup b k v : NoDup (map fst b) -> In (k, v) b -> lookup b k = Some v.
Proof.
  induction b as [|[k' v'] r IH]; intros N I; [contradiction|].
  cbn in *. inversion N as [|? ? Nk Nr]; subst. destruct I as [I|I].
  - inversion I; subst. rewrite Z.eqb_refl. reflexivity.
  - destruct (Z.eqb k k') eqn:E.
    + apply Z.eqb_eq in E. subst. exfalso. apply Nk. apply (in_map fst) in I. exact I.
    + apply IH; assumption.
Qed.

Lemma memo_of_self old : NoDup (map fst old) ->
  forall new acc, incl new old -> self_map acc ->
  exists m, memo_of old new acc = Some m /\ self_map m.
Proof.
  intro N. induction new as [|[p nw] r IH]; intros acc I S.
  - exists acc. split; [reflexivity|exact S].
  - cbn. assert (Hin : In (p, nw) old) by (apply I; left; reflexivity).
    rewrite (in_lookup old p nw N Hin). apply IH.
    + intros x Hx. apply I. right. exact Hx.
    + intros k v. cbn. destruct (Z.eqb k nw) eqn:E.
      * apply Z.eqb_eq in E. intro H. inversion H. subst. reflexivity.
      * apply S.
Qed.

(* identical bindings (what the subprocess sends back for picklable bindings): the repair is the identity *)
Lemma fix_trace_identity b tr : NoDup (map fst b) -> fix_trace b b tr = Some tr.
Proof.
  intro N. unfold fix_trace.
  destruct (memo_of_self b N b [] (incl_refl b)) as (m & Hm & Sm); [intros k v H; discriminate|].
  rewrite Hm. f_equal.
  induction tr as [|[p l] r IH]; [reflexivity|]. cbn [map fst snd]. rewrite IH. f_equal. f_equal.
  induction l as [|[c v] l' IHl]; [reflexivity|]. cbn [map fst snd]. rewrite IHl, (rename_self m v Sm). reflexivity.
Qed.

(* the repair never changes positions, assertion kinds or the number of assertions *)
Lemma fix_trace_shape old new tr tr' : fix_trace old new tr = Some tr' ->
  map fst tr' = map fst tr /\ map (fun pe => map fst (snd pe)) tr' = map (fun pe => map fst (snd pe)) tr.
Proof.
  unfold fix_trace. destruct (memo_of old new []) as [m|]; [|discriminate].
  intro H. inversion H; subst; clear H. split.
  - rewrite map_map. reflexivity.
  - rewrite map_map. apply map_ext. intros [p l]. cbn. rewrite map_map. reflexivity.
Qed.

(* ---- time limits ------------------------------------------------------------------------------------- *)
Lemma same_limits_eq a b : same_limits a b = true -> a = b.
Proof.
  destruct a as [a1 a2], b as [b1 b2]. unfold same_limits; cbn. intro H.
  apply andb_true_iff in H. destruct H as [H1 H2]. apply Z.eqb_eq in H1, H2. subst. reflexivity.
Qed.

(* a checked limits case: every child-side executor gives every test case the parent's budget *)
Lemma budget_agree c : check_lcase c = true ->
  forall ch size, In ch (l_child c) ->
  budget (fst ch) (snd ch) size = budget (fst (l_parent c)) (snd (l_parent c)) size.
Proof.
  unfold check_lcase. intro H. apply andb_true_iff in H. destruct H as [H _].
  intros ch size I. rewrite forallb_forall in H. rewrite (same_limits_eq _ _ (H ch I)). reflexivity.
Qed.

(* the budget never exceeds either limit's contribution, and grows with the size *)
Lemma budget_bounds mx per size : budget mx per size <= mx /\ budget mx per size <= per * size.
Proof. unfold budget. lia. Qed.

(* why the order matters: with the two limits swapped a 6-statement test gets 5 s instead of 30 s *)
Example swapped_limits_differ : budget 60 5 6 = 30 /\ budget 5 60 6 = 5.
Proof. split; reflexivity. Qed.

(* ---- non-vacuity ---------------------------------------------------------------------------------- *)
Example crash_pattern :
  execute_multiple (fun t : list (Z * bool) => t) (fun it => snd it)
    [[(1, true); (2, false)]; [(3, true)]; [(4, true)]] false [true; false; true]
  = [Items [(1, true)]; Timeout; Items [(4, true)]].
Proof. reflexivity. Qed.

Example single_failed_batch :
  execute_multiple (fun t : list (Z * bool) => t) (fun it => snd it) [[(1, true)]] false [true] = [Timeout].
Proof. reflexivity. Qed.

Example fix_trace_renames :
  fix_trace [(0, 10); (1, 11)] [(0, 20); (1, 21)] [(1, [(7, 21); (8, 5)])] = Some [(1, [(7, 11); (8, 5)])].
Proof. reflexivity. Qed.
