(* C04 — proofs about Models/C04.v. *)
From Coq Require Import List ZArith Bool Lia PrimFloat SpecFloat FloatOps FloatAxioms.
From Verif Require Import Models.C04.
Import ListNotations. Import C04.

(* ---- 1. the order form: needs no fact about floating-point arithmetic ------------------------- *)

(* the taken side is the float +0.0 itself, the other side d satisfies the IEEE comparison 0 < d *)
Definition taken_zero_other_pos (t : bool) (dt df : float) : Prop :=
  if t then dt = 0%float /\ ltb 0 df = true else df = 0%float /\ ltb 0 dt = true.

(* the outcome a callback records for Python's outcome [o]: the auxiliary in-presence predicate,
   which the subject under test does not evaluate, counts a failing membership test as "absent" *)
Definition recorded_outcome (k : kind) (o : outcome) (t : bool) : Prop :=
  o = Ret t \/ (k = KInPresence /\ t = false /\ exists e, o = Raise e).

Lemma sanitise_pos : forall r, ltb 0 (sanitise r) = true.
Proof.
  intros [f|]; cbn [sanitise]; [|reflexivity].
  destruct (ltb 0 f) eqn:E; [exact E|reflexivity].
Qed.

Lemma branch_distances_sound : forall t u dt df,
  branch_distances t u = (dt, df) -> taken_zero_other_pos t dt df.
Proof.
  intros t u dt df H. unfold branch_distances in H. unfold taken_zero_other_pos.
  destruct t; inversion H; subst; split; try reflexivity; apply sanitise_pos.
Qed.

Lemma distances_sound : forall k os o u dt df,
  distances k os o u = inl (Some (dt, df)) ->
  exists t, recorded_outcome k o t /\ taken_zero_other_pos t dt df.
Proof.
  intros k os o u dt df H. unfold distances in H.
  destruct (is_membership k && os) eqn:Em; [discriminate|].
  destruct o as [t|e].
  - exists t. split; [left; reflexivity|].
    destruct k as [c| | |];
      try (apply branch_distances_sound with (u := u); congruence).
    unfold taken_zero_other_pos.
    destruct t; inversion H; subst; split; reflexivity.
  - destruct k as [c| | |]; try discriminate.
    exists false. split.
    + right. split; [reflexivity|]. split; [reflexivity|]. exists e; reflexivity.
    + apply branch_distances_sound with (u := u); congruence.
Qed.

Lemma distances_raise : forall k os o u e,
  distances k os o u = inr e -> o = Raise e /\ k <> KInPresence.
Proof.
  intros k os o u e H. unfold distances in H.
  destruct (is_membership k && os) eqn:Em; [discriminate|].
  destruct o as [t|e']; destruct k as [c| | |]; try discriminate;
    inversion H; subst; split; try reflexivity; discriminate.
Qed.

Lemma distances_skip : forall k os o u,
  distances k os o u = inl None <-> is_membership k && os = true.
Proof.
  intros k os o u. unfold distances.
  destruct (is_membership k && os) eqn:Em.
  - split; reflexivity.
  - split; [|discriminate]. destruct o as [t|e]; destruct k as [c| | |]; discriminate.
Qed.

Lemma distances_total : forall k os t u,
  is_membership k && os = false ->
  exists dt df, distances k os (Ret t) u = inl (Some (dt, df)).
Proof.
  intros k os t u Em. unfold distances. rewrite Em.
  destruct k as [c| | |]; try (destruct (branch_distances t u) as [a b] eqn:E; exists a, b; reflexivity).
  destruct t; eexists; eexists; reflexivity.
Qed.

(* ---- 2. the IEEE form (uses the stdlib specification of primitive floats, FloatAxioms) --------- *)
Inductive fclass := CZero | CPos | CNeg | CNaN.
Definition classify (f : float) : fclass :=
  match Prim2SF f with
  | S754_zero _ => CZero
  | S754_nan => CNaN
  | S754_infinity s | S754_finite s _ _ => if s then CNeg else CPos
  end.

Definition nonneg_not_nan (f : float) : Prop := classify f = CZero \/ classify f = CPos.
Definition is_zero (f : float) : Prop := classify f = CZero.

Lemma Prim2SF_zero : Prim2SF 0 = S754_zero false.
Proof. reflexivity. Qed.

Lemma ltb0_spec : forall x, ltb 0 x = true ->
  classify x = CPos /\ leb 0 x = true /\ eqb x 0 = false.
Proof.
  intros x H. rewrite ltb_spec in H. rewrite leb_spec, eqb_spec. unfold classify.
  rewrite Prim2SF_zero in *.
  destruct (Prim2SF x) as [s|s| |s m e]; cbn in H |- *.
  - discriminate.
  - destruct s; [discriminate|]. repeat split; reflexivity.
  - discriminate.
  - destruct s; [discriminate|]. repeat split; reflexivity.
Qed.

Lemma classify_zero : classify 0 = CZero.
Proof. reflexivity. Qed.

Lemma order_to_ieee : forall t dt df, taken_zero_other_pos t dt df ->
  nonneg_not_nan dt /\ nonneg_not_nan df /\ (is_zero dt <-> t = true) /\ (is_zero df <-> t = false).
Proof.
  intros t dt df H. unfold taken_zero_other_pos in H. unfold nonneg_not_nan, is_zero.
  destruct t; destruct H as [Hz Hp]; subst; apply ltb0_spec in Hp; destruct Hp as [Hc _];
    rewrite Hc, classify_zero; repeat split; auto; try discriminate; intro; discriminate.
Qed.

Lemma order_valid : forall t dt df, taken_zero_other_pos t dt df -> valid dt df = true.
Proof.
  intros t dt df H. unfold taken_zero_other_pos in H. unfold valid.
  destruct t; destruct H as [Hz Hp]; subst; apply ltb0_spec in Hp; destruct Hp as [_ [Hl He]];
    rewrite Hl, He; reflexivity.
Qed.

(* the assertions of _update_metrics never fire: a callback raises only what Python raised *)
Lemma callback_eq : forall k os o u,
  callback k os o u =
  match distances k os o u with
  | inl None => Skipped | inl (Some (dt, df)) => Recorded dt df | inr e => Raised e
  end.
Proof.
  intros k os o u. unfold callback.
  destruct (distances k os o u) as [[[dt df]|]|e] eqn:E; try reflexivity.
  apply distances_sound in E. destruct E as [t [_ Ht]].
  unfold update_metrics. rewrite (order_valid t dt df Ht). reflexivity.
Qed.

Lemma callback_sound : forall k os o u dt df,
  callback k os o u = Recorded dt df ->
  exists t, recorded_outcome k o t /\
    nonneg_not_nan dt /\ nonneg_not_nan df /\ (is_zero dt <-> t = true) /\ (is_zero df <-> t = false).
Proof.
  intros k os o u dt df H. rewrite callback_eq in H.
  destruct (distances k os o u) as [[[a b]|]|e] eqn:E; try discriminate.
  inversion H; subst. apply distances_sound in E. destruct E as [t [Ho Ht]].
  exists t. split; [exact Ho|]. apply order_to_ieee; exact Ht.
Qed.

Lemma callback_exactly_one_zero : forall k os o u dt df,
  callback k os o u = Recorded dt df -> (is_zero dt /\ ~ is_zero df) \/ (~ is_zero dt /\ is_zero df).
Proof.
  intros k os o u dt df H. apply callback_sound in H.
  destruct H as [t [_ [_ [_ [[H1 H2] [H3 H4]]]]]]. destruct t.
  - left. split; [apply H2; reflexivity|]. intro Hz. apply H3 in Hz. discriminate.
  - right. split; [|apply H4; reflexivity]. intro Hz. apply H1 in Hz. discriminate.
Qed.

Lemma callback_raise : forall k os o u e,
  callback k os o u = Raised e -> o = Raise e /\ k <> KInPresence.
Proof.
  intros k os o u e H. rewrite callback_eq in H.
  destruct (distances k os o u) as [[[a b]|]|e'] eqn:E; try discriminate.
  inversion H; subst. apply distances_raise in E. exact E.
Qed.

Lemma callback_records : forall k os t u,
  is_membership k && os = false -> exists dt df, callback k os (Ret t) u = Recorded dt df.
Proof.
  intros k os t u Em. rewrite callback_eq.
  destruct (distances_total k os t u Em) as [dt [df E]]. rewrite E. exists dt, df. reflexivity.
Qed.

(* non-vacuity: concrete behaviours, among them the inputs that broke the unrepaired code *)
Example ex_nan_eq_nan :          (* nan == nan: False; heuristic abs(nan - nan) = nan *)
  callback (KCompare EQ) false (Ret false) (RFloat nan) = Recorded infinity 0.
Proof. reflexivity. Qed.
Example ex_big_int_le :          (* 2**53+1 <= 2**53: False; heuristic float(a) - float(b) = 0.0 *)
  callback (KCompare LE) false (Ret false) (RFloat 0) = Recorded infinity 0.
Proof. reflexivity. Qed.
Example ex_overflow :            (* 10**400 == 1: False; float() raises OverflowError *)
  callback (KCompare EQ) false (Ret false) RRaise = Recorded infinity 0.
Proof. reflexivity. Qed.
Example ex_plain :               (* 5 < 3: False; heuristic 5 - 3 + 1 = 3.0 *)
  callback (KCompare LT) false (Ret false) (RFloat 3) = Recorded 3 0.
Proof. reflexivity. Qed.
Example ex_iterator : callback (KCompare IN) true (Ret true) (RFloat 1) = Skipped.
Proof. reflexivity. Qed.
Example ex_python_raises : callback (KCompare LT) false (Raise 1) (RFloat 1) = Raised 1.
Proof. reflexivity. Qed.

(* ---- 3. string heuristics ---------------------------------------------------------------------- *)
Open Scope Z_scope.

Lemma first_greater_pos : forall off a b, 0 <= off -> 0 < first_greater off a b.
Proof.
  intros off a; induction a as [|x a IH]; intros b Hoff; cbn [first_greater]; [lia|].
  destruct b as [|y b]; [lia|].
  destruct (Z.ltb y x) eqn:E; [apply Z.ltb_lt in E; lia|apply IH; exact Hoff].
Qed.

Lemma string_lt_distance_spec : forall a b,
  (lex_ltb a b = true -> string_lt_distance a b = 0) /\
  (lex_ltb a b = false -> 0 < string_lt_distance a b).
Proof.
  intros a b. unfold string_lt_distance. destruct (lex_ltb a b); split; intro H; try discriminate.
  - reflexivity.
  - apply first_greater_pos; lia.
Qed.

Lemma string_le_distance_spec : forall a b,
  (lex_leb a b = true -> string_le_distance a b = 0) /\
  (lex_leb a b = false -> 0 < string_le_distance a b).
Proof.
  intros a b. unfold string_le_distance. destruct (lex_leb a b); split; intro H; try discriminate.
  - reflexivity.
  - apply first_greater_pos; lia.
Qed.

(* lex_ltb is the strict lexicographic order: irreflexive, and <= (defined by negation of the
   converse) is "< or equal" *)
Lemma lex_ltb_irrefl : forall a, lex_ltb a a = false.
Proof.
  induction a as [|x a IH]; cbn [lex_ltb]; [reflexivity|].
  rewrite Z.ltb_irrefl. exact IH.
Qed.

Lemma lex_leb_spec : forall a b, lex_leb a b = true <-> (lex_ltb a b = true \/ a = b).
Proof.
  unfold lex_leb. induction a as [|x a IH]; intros b.
  - destruct b as [|y b]; cbn [lex_ltb negb]; split; intro H; auto.
  - destruct b as [|y b]; cbn [lex_ltb].
    + split; intro H; [discriminate|]. destruct H as [H|H]; discriminate.
    + destruct (Z.ltb x y) eqn:E1; destruct (Z.ltb y x) eqn:E2;
        try apply Z.ltb_lt in E1; try apply Z.ltb_lt in E2;
        try apply Z.ltb_ge in E1; try apply Z.ltb_ge in E2; cbn [negb].
      * lia.
      * split; auto.
      * split; intro H; [discriminate|]. destruct H as [H|H]; [discriminate|]. inversion H; lia.
      * assert (x = y) by lia. subst y. rewrite IH. split; intros [H|H]; auto.
        -- right; subst; reflexivity.
        -- right. inversion H; reflexivity.
Qed.

Example ex_string_lt : string_lt_distance [98; 97] [97; 98] = 2 /\ string_le_distance [98] [97; 98] = 1.
Proof. split; reflexivity. Qed.
