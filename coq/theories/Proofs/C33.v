(* C33 — proofs about the restart protocol model (Models/C33.v). *)
From Coq Require Import List ZArith Bool Lia.
From Verif Require Import Models.C33.
Import ListNotations. Import C33.
Open Scope Z_scope.

(* ---- the arithmetic of _adjust_search_time_after_crash ---------------------------------------- *)
Lemma adjust_decreases c n d :
  0 < c -> 0 < n -> 0 < d -> 0 <= adjust c n d <= c - 1.
Proof.
  intros Hc Hn Hd. unfold adjust.
  destruct (0 <? c) eqn:E; [|apply Z.ltb_ge in E; lia].
  split.
  - apply Z.div_pos; lia.
  - assert (H : Z.max (c * d - n) 0 / d < c).
    { apply Z.div_lt_upper_bound; [lia|]. nia. }
    lia.
Qed.

Lemma adjust_nonpos c n d : c <= 0 -> adjust c n d = c.
Proof.
  intro H. unfold adjust. destruct (0 <? c) eqn:E; [apply Z.ltb_lt in E; lia|reflexivity].
Qed.

(* no crash, however long it took, ever increases the budget or makes it negative *)
Lemma adjust_le c n d : 0 <= n -> 0 < d -> adjust c n d <= Z.max c 0 /\ (0 < c -> 0 <= adjust c n d).
Proof.
  intros Hn Hd. unfold adjust. destruct (0 <? c) eqn:E.
  - apply Z.ltb_lt in E.
    assert (H : Z.max (c * d - n) 0 / d <= c).
    { apply Z.div_le_upper_bound; [lia|]. nia. }
    split; [lia|]. intros _. apply Z.div_pos; lia.
  - apply Z.ltb_ge in E. split; lia.
Qed.

(* ---- _restart ------------------------------------------------------------------------------- *)
Lemma restart_true s n d s' ev :
  0 < n -> 0 < d -> restart s n d = (true, s', ev) ->
  0 < remaining s' /\ remaining s' <= remaining s - 1 /\ restarts s' = restarts s + 1
  /\ umw s' = umw s
  /\ ev = [EAdjust (remaining s'); ERestart (restarts s') (subproc s')].
Proof.
  intros Hn Hd H. unfold restart in H.
  destruct (adjust (remaining s) n d <=? 0) eqn:E; [discriminate|].
  apply Z.leb_gt in E. inversion H; subst; clear H. cbn [remaining restarts umw subproc].
  assert (Hc : 0 < remaining s).
  { destruct (Z_lt_le_dec 0 (remaining s)) as [L|L]; [exact L|].
    rewrite (adjust_nonpos _ n d L) in E. lia. }
  pose proof (adjust_decreases (remaining s) n d Hc Hn Hd) as A.
  repeat split; try lia.
Qed.

Lemma restart_false s n d s' ev :
  restart s n d = (false, s', ev) ->
  remaining s' <= 0 /\ restarts s' = restarts s /\ subproc s' = subproc s /\ forced s' = forced s
  /\ umw s' = umw s /\ remaining s' = adjust (remaining s) n d
  /\ ev = [EAdjust (remaining s'); EAbort].
Proof.
  intro H. unfold restart in H.
  destruct (adjust (remaining s) n d <=? 0) eqn:E; [|discriminate].
  apply Z.leb_le in E. inversion H; subst; clear H. cbn [remaining restarts umw subproc forced].
  repeat split; lia.
Qed.

Lemma restart_needs_time s n d s' ev :
  restart s n d = (true, s', ev) -> 0 < remaining s /\ 0 < remaining s'.
Proof.
  intro H. unfold restart in H.
  destruct (adjust (remaining s) n d <=? 0) eqn:E; [discriminate|].
  apply Z.leb_gt in E. inversion H; subst; clear H. cbn [remaining].
  split; [|exact E].
  destruct (Z_lt_le_dec 0 (remaining s)) as [L|L]; [exact L|].
  rewrite (adjust_nonpos _ n d L) in E. lia.
Qed.

(* ---- get_result ----------------------------------------------------------------------------- *)
Definition events (x : list event * status * st) : list event := fst (fst x).
Definition result (x : list event * status * st) : status := snd (fst x).
Definition final (x : list event * status * st) : st := snd x.

Lemma run_die_true l s n d s1 ev1 :
  restart s n d = (true, s1, ev1) ->
  events (run (Die n d :: l) s) = ev1 ++ events (run l s1)
  /\ result (run (Die n d :: l) s) = result (run l s1)
  /\ final (run (Die n d :: l) s) = final (run l s1).
Proof.
  intro H. cbn [run]. rewrite H. destruct (run l s1) as [[e r] f]. repeat split.
Qed.

Lemma run_die_false l s n d s1 ev1 :
  restart s n d = (false, s1, ev1) ->
  run (Die n d :: l) s = (ev1, Returned {| wok := false; wrc := None; wcount := restarts s1 |}, s1).
Proof. intro H. cbn [run]. rewrite H. reflexivity. Qed.

(* each restart costs at least one second of the budget: the number of restarts is bounded by the
   budget that was consumed *)
Lemma run_measure l : forall s, Forall wf_outcome l ->
  restarts s <= restarts (final (run l s))
  /\ restarts (final (run l s)) - restarts s
     <= Z.max 0 (remaining s) - Z.max 0 (remaining (final (run l s))).
Proof.
  induction l as [|o l IH]; intros s W.
  - cbn. lia.
  - inversion W as [|? ? Wo Wl]; subst. destruct o as [rc|n d].
    + cbn. lia.
    + cbn in Wo. destruct Wo as [Hn Hd].
      destruct (restart s n d) as [[b s1] ev1] eqn:R. destruct b.
      * destruct (run_die_true l s n d s1 ev1 R) as (_ & _ & F). rewrite F.
        destruct (restart_true s n d s1 ev1 Hn Hd R) as (P1 & P2 & P3 & _).
        specialize (IH s1 Wl). lia.
      * rewrite (run_die_false l s n d s1 ev1 R). unfold final; cbn [snd].
        destruct (restart_false s n d s1 ev1 R) as (P1 & P2 & _ & _ & _ & P6 & _).
        rewrite P2. split; [lia|].
        destruct (Z_lt_le_dec 0 (remaining s)) as [L|L].
        -- lia.
        -- rewrite (adjust_nonpos _ n d L) in P6. lia.
Qed.

Lemma restarts_bounded l s : Forall wf_outcome l ->
  0 <= restarts (final (run l s)) - restarts s <= Z.max 0 (remaining s).
Proof. intro W. pose proof (run_measure l s W). lia. Qed.

(* while the master is still waiting, every worker so far died and was replaced *)
Lemma run_waiting l : forall s, Forall wf_outcome l -> result (run l s) = Waiting ->
  Z.of_nat (length l) = restarts (final (run l s)) - restarts s
  /\ (l <> [] -> 0 < remaining (final (run l s))).
Proof.
  induction l as [|o l IH]; intros s W Hw.
  - cbn. split; [lia|congruence].
  - inversion W as [|? ? Wo Wl]; subst. destruct o as [rc|n d].
    + cbn in Hw. discriminate.
    + cbn in Wo. destruct Wo as [Hn Hd].
      destruct (restart s n d) as [[b s1] ev1] eqn:R. destruct b.
      * destruct (run_die_true l s n d s1 ev1 R) as (_ & Rs & F). rewrite F. rewrite Rs in Hw.
        destruct (restart_true s n d s1 ev1 Hn Hd R) as (P1 & P2 & P3 & _).
        destruct (IH s1 Wl Hw) as [I1 I2]. split.
        -- cbn [length]. lia.
        -- intros _. destruct l as [|o' l'].
           ++ cbn. exact P1.
           ++ apply I2. discriminate.
      * rewrite (run_die_false l s n d s1 ev1 R) in Hw. cbn in Hw. discriminate.
Qed.

(* get_result returns for every crash sequence longer than the budget *)
Lemma terminates l s : Forall wf_outcome l ->
  Z.max 0 (remaining s) < Z.of_nat (length l) -> exists r, result (run l s) = Returned r.
Proof.
  intros W H. destruct (result (run l s)) as [r|] eqn:E; [eauto|].
  destruct (run_waiting l s W E) as [A _]. pose proof (restarts_bounded l s W). lia.
Qed.

Lemma consumed_bound l : forall s, Forall wf_outcome l ->
  Z.of_nat (consumed l s) <= Z.max 0 (remaining s) + 1.
Proof.
  induction l as [|o l IH]; intros s W.
  - cbn. lia.
  - inversion W as [|? ? Wo Wl]; subst. destruct o as [rc|n d].
    + cbn. lia.
    + cbn in Wo. destruct Wo as [Hn Hd]. cbn [consumed].
      destruct (restart s n d) as [[b s1] ev1] eqn:R. destruct b.
      * destruct (restart_true s n d s1 ev1 Hn Hd R) as (P1 & P2 & _).
        specialize (IH s1 Wl). lia.
      * cbn. lia.
Qed.

(* once get_result has returned, nothing later matters (no worker is started afterwards) *)
Lemma run_stable l : forall s l' r, result (run l s) = Returned r -> run (l ++ l') s = run l s.
Proof.
  induction l as [|o l IH]; intros s l' r H.
  - cbn in H. discriminate.
  - destruct o as [rc|n d].
    + reflexivity.
    + cbn [app run]. destruct (restart s n d) as [[b s1] ev1] eqn:R. destruct b; [|reflexivity].
      destruct (run_die_true l s n d s1 ev1 R) as (_ & Rs & _). rewrite Rs in H.
      rewrite (IH s1 l' r H). reflexivity.
Qed.

Lemma run_consumed l : forall s r, result (run l s) = Returned r ->
  run (firstn (consumed l s) l) s = run l s.
Proof.
  induction l as [|o l IH]; intros s r H.
  - cbn in H. discriminate.
  - destruct o as [rc|n d].
    + reflexivity.
    + cbn [consumed]. destruct (restart s n d) as [[b s1] ev1] eqn:R. destruct b.
      * cbn [firstn run]. rewrite R.
        destruct (run_die_true l s n d s1 ev1 R) as (_ & Rs & _). rewrite Rs in H.
        rewrite (IH s1 r H). reflexivity.
      * cbn [firstn run]. rewrite R. reflexivity.
Qed.

(* ---- the shape of every event trace ------------------------------------------------------------ *)
Inductive good_trace : Z -> Z -> list event -> Prop :=
  | gt_nil c k : good_trace c k []
  | gt_abort c k c' : c' <= 0 -> c' <= c -> good_trace c k [EAdjust c'; EAbort]
  | gt_restart c k c' sub r : 0 < c' -> c' <= c - 1 -> good_trace c' (k + 1) r ->
      good_trace c k (EAdjust c' :: ERestart (k + 1) sub :: r).

Lemma trace_good l : forall s, Forall wf_outcome l ->
  good_trace (remaining s) (restarts s) (events (run l s)).
Proof.
  induction l as [|o l IH]; intros s W.
  - cbn. constructor.
  - inversion W as [|? ? Wo Wl]; subst. destruct o as [rc|n d].
    + cbn. constructor.
    + cbn in Wo. destruct Wo as [Hn Hd].
      destruct (restart s n d) as [[b s1] ev1] eqn:R. destruct b.
      * destruct (run_die_true l s n d s1 ev1 R) as (Ev & _ & _). rewrite Ev.
        destruct (restart_true s n d s1 ev1 Hn Hd R) as (P1 & P2 & P3 & _ & P5). subst ev1.
        cbn [app]. rewrite P3. constructor; [exact P1|exact P2|].
        rewrite <- P3. apply IH. exact Wl.
      * rewrite (run_die_false l s n d s1 ev1 R). unfold events; cbn [fst].
        destruct (restart_false s n d s1 ev1 R) as (P1 & _ & _ & _ & _ & P6 & P7). subst ev1.
        constructor; [exact P1|].
        rewrite P6. destruct (Z_lt_le_dec 0 (remaining s)) as [L|L].
        -- destruct (adjust_le (remaining s) n d) as [A _]; lia.
        -- rewrite (adjust_nonpos _ n d L). lia.
Qed.

(* restarts happen only while search time remains, and each strictly reduces it: read off a good trace *)
Lemma good_trace_restart c k ev : good_trace c k ev ->
  forall pre c' k' sub post, ev = pre ++ EAdjust c' :: ERestart k' sub :: post ->
  0 < c' /\ c' < c.
Proof.
  induction 1 as [c k|c k c' H1 H2|c k c' sub r H1 H2 H3 IH]; intros pre c2 k2 sub2 post E.
  - destruct pre; discriminate.
  - destruct pre as [|e [|e' [|e'' pre]]]; cbn in E; discriminate.
  - destruct pre as [|e [|e' pre]]; cbn in E.
    + inversion E; subst. lia.
    + inversion E; subst.
    + inversion E; subst. destruct (IH pre c2 k2 sub2 post eq_refl). lia.
Qed.

Lemma good_trace_no_restart_without_adjust c k ev : good_trace c k ev ->
  forall pre k' sub post, ev = pre ++ ERestart k' sub :: post ->
  exists pre' c', pre = pre' ++ [EAdjust c'] /\ 0 < c'.
Proof.
  induction 1 as [c k|c k c' H1 H2|c k c' sub r H1 H2 H3 IH]; intros pre k2 sub2 post E.
  - destruct pre; discriminate.
  - destruct pre as [|e [|e' [|e'' pre]]]; cbn in E; discriminate.
  - destruct pre as [|e [|e' pre]]; cbn in E.
    + discriminate.
    + inversion E; subst. exists [], c'. split; [reflexivity|lia].
    + inversion E; subst. destruct (IH pre k2 sub2 post eq_refl) as (p & c2 & -> & Hc).
      exists (EAdjust c' :: ERestart (k + 1) sub :: p), c2. split; [reflexivity|exact Hc].
Qed.

(* ---- what the client reports ---------------------------------------------------------------- *)
Definition is_die (o : outcome) : Prop := match o with Die _ _ => True | Deliver _ => False end.

Lemma returned_shape l : forall s r, result (run l s) = Returned r ->
  (wok r = true /\ exists pre post, l = pre ++ Deliver (wrc r) :: post /\ Forall is_die pre
     /\ wcount r = restarts s + Z.of_nat (length pre) /\ wcount r = restarts (final (run l s)))
  \/ (wok r = false /\ wrc r = None /\ exists pre n d post, l = pre ++ Die n d :: post
     /\ Forall is_die pre /\ remaining (final (run l s)) <= 0
     /\ wcount r = restarts s + Z.of_nat (length pre)).
Proof.
  induction l as [|o l IH]; intros s r H.
  - cbn in H. discriminate.
  - destruct o as [rc|n d].
    + cbn in H. inversion H; subst; clear H. left. cbn [wok wrc wcount]. split; [reflexivity|].
      exists [], l. split; [reflexivity|]. split; [constructor|]. split; [cbn; lia|reflexivity].
    + destruct (restart s n d) as [[b s1] ev1] eqn:R. destruct b.
      * destruct (run_die_true l s n d s1 ev1 R) as (_ & Rs & F). rewrite Rs in H. rewrite F.
        assert (K : restarts s1 = restarts s + 1).
        { unfold restart in R. destruct (adjust (remaining s) n d <=? 0); [discriminate|].
          inversion R; subst. reflexivity. }
        destruct (IH s1 r H) as [(A & pre & post & E & Fp & Cn & Cf)|(A & B & pre & n' & d' & post & E & Fp & Rm & Cn)].
        -- left. split; [exact A|]. exists (Die n d :: pre), post.
           split; [rewrite E; reflexivity|]. split; [constructor; [exact I|exact Fp]|].
           split; [cbn [length]; lia|exact Cf].
        -- right. split; [exact A|]. split; [exact B|]. exists (Die n d :: pre), n', d', post.
           split; [rewrite E; reflexivity|]. split; [constructor; [exact I|exact Fp]|].
           split; [exact Rm|cbn [length]; lia].
      * rewrite (run_die_false l s n d s1 ev1 R) in H. cbn in H. inversion H; subst; clear H.
        rewrite (run_die_false l s n d s1 ev1 R). unfold final; cbn [snd wok wrc wcount].
        destruct (restart_false s n d s1 ev1 R) as (P1 & P2 & _).
        right. split; [reflexivity|]. split; [reflexivity|]. exists [], n, d, l.
        split; [reflexivity|]. split; [constructor|]. split; [exact P1|cbn; lia].
Qed.

(* success is reported only if some worker delivered a result carrying ReturnCode.OK *)
Lemma success_needs_delivery l s r :
  result (run l s) = Returned r -> client_rc r = rc_ok ->
  exists pre post, l = pre ++ Deliver (Some rc_ok) :: post /\ Forall is_die pre
    /\ wcount r = restarts s + Z.of_nat (length pre).
Proof.
  intros H C. unfold client_rc in C.
  destruct (returned_shape l s r H) as [(A & pre & post & E & Fp & Cn & _)|(A & _)].
  - rewrite A in C. destruct (wrc r) as [c|] eqn:W; [|discriminate].
    subst c. exists pre, post. repeat split; assumption.
  - rewrite A in C. discriminate.
Qed.

(* any code other than NO_TESTS_GENERATED was delivered by a worker *)
Lemma client_rc_delivered l s r :
  result (run l s) = Returned r -> client_rc r <> rc_no_tests ->
  exists pre post, l = pre ++ Deliver (Some (client_rc r)) :: post /\ Forall is_die pre.
Proof.
  intros H C. unfold client_rc in *.
  destruct (returned_shape l s r H) as [(A & pre & post & E & Fp & _)|(A & _)].
  - rewrite A in *. destruct (wrc r) as [c|] eqn:W; [|congruence].
    exists pre, post. split; assumption.
  - rewrite A in C. congruence.
Qed.

(* iteration budgets (search time <= 0): the first crash ends the run without any restart *)
Lemma no_time_no_restart l s n d : remaining s <= 0 ->
  run (Die n d :: l) s
  = ([EAdjust (remaining s); EAbort],
     Returned {| wok := false; wrc := None; wcount := restarts s |}, s).
Proof.
  intro H. cbn [run]. unfold restart. rewrite (adjust_nonpos _ n d H).
  destruct (remaining s <=? 0) eqn:E; [|apply Z.leb_gt in E; lia].
  destruct s; reflexivity.
Qed.

(* after the first restart the task runs in subprocess mode (when use_master_worker is set) *)
Lemma subproc_monotone l : forall s, subproc s = true -> subproc (final (run l s)) = true.
Proof.
  induction l as [|o l IH]; intros s H.
  - exact H.
  - destruct o as [rc|n d].
    + exact H.
    + destruct (restart s n d) as [[b s1] ev1] eqn:R.
      assert (S1 : subproc s1 = true).
      { unfold restart in R. destruct (adjust (remaining s) n d <=? 0).
        - inversion R; subst. exact H.
        - inversion R; subst. cbn [subproc].
          destruct ((1 <=? restarts s + 1) && umw s && negb (forced s)); [reflexivity|exact H]. }
      destruct b.
      * destruct (run_die_true l s n d s1 ev1 R) as (_ & _ & F). rewrite F. apply IH. exact S1.
      * rewrite (run_die_false l s n d s1 ev1 R). exact S1.
Qed.

Lemma forced_after_restart l s : 0 <= restarts s ->
  umw s = true -> (forced s = true -> subproc s = true) ->
  restarts s < restarts (final (run l s)) -> subproc (final (run l s)) = true.
Proof.
  intros K U Inv Lt. destruct l as [|o l].
  - cbn in Lt. lia.
  - destruct o as [rc|n d].
    + cbn in Lt. lia.
    + destruct (restart s n d) as [[b s1] ev1] eqn:R. destruct b.
      * destruct (run_die_true l s n d s1 ev1 R) as (_ & _ & F). rewrite F.
        apply subproc_monotone.
        unfold restart in R. destruct (adjust (remaining s) n d <=? 0); [discriminate|].
        inversion R; subst; clear R. cbn [subproc]. rewrite U.
        assert (P : (1 <=? restarts s + 1) = true) by (apply Z.leb_le; lia).
        rewrite P. cbn [andb]. destruct (forced s) eqn:Fs; cbn [negb].
        -- apply Inv. reflexivity.
        -- reflexivity.
      * rewrite (run_die_false l s n d s1 ev1 R) in Lt. unfold final in Lt; cbn [snd] in Lt.
        destruct (restart_false s n d s1 ev1 R) as (_ & P2 & _). lia.
Qed.

(* ---- non-vacuity: concrete reachable runs ------------------------------------------------------- *)
Definition s0 : st := {| remaining := 4; restarts := 0; forced := false; subproc := false; umw := true |}.

(* two crashes (1.5 s and 0.25 s), then a worker delivers ReturnCode.OK *)
Example run_two_crashes_then_ok :
  Forall wf_outcome [Die 3 2; Die 1 4; Deliver (Some 0)]
  /\ run [Die 3 2; Die 1 4; Deliver (Some 0)] s0
     = ([EAdjust 2; ERestart 1 true; EAdjust 1; ERestart 2 true],
        Returned {| wok := true; wrc := Some 0; wcount := 2 |},
        {| remaining := 1; restarts := 2; forced := true; subproc := true; umw := true |}).
Proof. split; [repeat constructor|reflexivity]. Qed.

(* a worker that always dies after 0.3 s: four restarts are impossible with a 4 s budget *)
Example run_always_dying :
  run [Die 3 10; Die 3 10; Die 3 10; Die 3 10; Die 3 10; Die 3 10] s0
  = ([EAdjust 3; ERestart 1 true; EAdjust 2; ERestart 2 true; EAdjust 1; ERestart 3 true; EAdjust 0; EAbort],
     Returned {| wok := false; wrc := None; wcount := 3 |},
     {| remaining := 0; restarts := 3; forced := true; subproc := true; umw := true |})
  /\ client_rc {| wok := false; wrc := None; wcount := 3 |} = rc_no_tests.
Proof. split; reflexivity. Qed.

(* the premise 0 < elapsed matters: with a clock that does not advance the budget is not reduced *)
Example zero_elapsed_does_not_reduce : adjust 4 0 1 = 4.
Proof. reflexivity. Qed.
