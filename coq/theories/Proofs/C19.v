(* C19 — proofs about the export model; the theorems about remove_unused_variables itself are in
   Base/TestCaseIRRuv.v. *)
From Coq Require Import List NArith ZArith Bool Lia.
From Verif Require Import Base.TestCaseIR Base.TestCaseIRFacts Base.TestCaseIRRuv Models.C19.
Import ListNotations. Import IR. Import C19.

Lemma export_body_app l1 l2 : export_body (l1 ++ l2) = export_body l1 ++ export_body l2.
Proof. unfold export_body. apply flat_map_app. Qed.

Lemma nth_error_map_eq {A B} (f : A -> B) l1 l2 i x :
  map f l1 = map f l2 -> nth_error l2 i = Some x ->
  exists y, nth_error l1 i = Some y /\ f y = f x.
Proof.
  intros Hm Hn. assert (H : nth_error (map f l1) i = Some (f x)).
  { rewrite Hm. rewrite nth_error_map, Hn. reflexivity. }
  rewrite nth_error_map in H. destruct (nth_error l1 i) as [y|]; [|discriminate].
  exists y. split; [reflexivity|]. simpl in H. congruence.
Qed.

(* every statement of the test case handed to the writer appears in the exported function,
   immediately followed by all of its renderable assertions, in order *)
Theorem export_emits_all t i s :
  nth_error (stmts t) i = Some s ->
  export t = export_body (firstn i (stmts (remove_unused_variables t)))
             ++ (IStmt (node s) :: map IAssert (rendered s))
             ++ export_body (skipn (S i) (stmts (remove_unused_variables t))).
Proof.
  intro Hn.
  destruct (nth_error_map_eq asserts _ _ _ _ (ruv_keeps_assertions t) Hn) as [s' [Hs' Ha]].
  destruct (nth_error_map_eq node _ _ _ _ (proj1 (ruv_keeps_nodes t)) Hn) as [s'' [Hs'' Hnode]].
  rewrite Hs' in Hs''. inversion Hs''; subst s''.
  unfold export. rewrite (nth_error_split_eq _ _ _ Hs') at 1.
  rewrite export_body_app. f_equal. cbn [export_body flat_map].
  change (flat_map export_stmt (skipn (S i) (stmts (remove_unused_variables t))))
    with (export_body (skipn (S i) (stmts (remove_unused_variables t)))).
  unfold export_stmt at 1, rendered. rewrite Ha, Hnode. reflexivity.
Qed.

Lemma export_body_asserts l :
  map (fun i => match i with IAssert a => Some a | IStmt _ => None end)
      (filter is_assert (export_body l))
  = map Some (flat_map rendered l).
Proof.
  induction l as [|s r IH]; [reflexivity|].
  change (export_body (s :: r)) with (export_stmt s ++ export_body r).
  rewrite filter_app, map_app. cbn [flat_map]. rewrite map_app, IH. f_equal.
  unfold export_stmt. cbn [filter is_assert]. generalize (rendered s). intro l0.
  induction l0 as [|a l0 IHl]; [reflexivity|]. cbn [map filter is_assert]. f_equal. exact IHl.
Qed.

Lemma flat_map_rendered_ext l1 l2 : map asserts l1 = map asserts l2 ->
  flat_map rendered l1 = flat_map rendered l2.
Proof.
  revert l2. induction l1 as [|a r IH]; intros [|b r2] H; cbn [map] in H; try discriminate;
    [reflexivity|].
  inversion H. cbn [flat_map]. unfold rendered at 1 3. rewrite H1. f_equal. apply IH. assumption.
Qed.

(* the asserts of the exported function are exactly the renderable assertions of the test case,
   in order: none dropped, none invented *)
Theorem export_asserts_exact t :
  map (fun i => match i with IAssert a => Some a | IStmt _ => None end)
      (filter is_assert (export t))
  = map Some (flat_map rendered (stmts t)).
Proof.
  unfold export. rewrite export_body_asserts. f_equal.
  apply flat_map_rendered_ext. apply ruv_keeps_assertions.
Qed.

(* the statements of the exported function are the statements of the test case, in order *)
Theorem export_statements_exact t :
  flat_map (fun i => match i with IStmt n => [n] | IAssert _ => [] end) (export t)
  = map node (stmts t).
Proof.
  unfold export. rewrite <- (proj1 (ruv_keeps_nodes t)).
  generalize (stmts (remove_unused_variables t)). intro l.
  induction l as [|s r IH]; [reflexivity|].
  change (export_body (s :: r)) with (export_stmt s ++ export_body r).
  rewrite flat_map_app, IH. cbn [map]. unfold export_stmt. cbn [flat_map].
  assert (H : flat_map (fun i => match i with IStmt n => [n] | IAssert _ => [] end)
                       (map IAssert (rendered s)) = []).
  { generalize (rendered s). intro l0. induction l0 as [|a l0 IHl]; [reflexivity|exact IHl]. }
  rewrite H. reflexivity.
Qed.

(* the exception list only selects the wrapper: with one entry per statement the body is the full
   export body, whichever statements raised *)
Lemma build_body_full : forall l excs, length excs = length l -> build_body l excs = export_body l.
Proof.
  induction l as [|s r IH]; intros [|e es] H; simpl in H; try discriminate; [reflexivity|].
  cbn [build_body]. change (export_body (s :: r)) with (export_stmt s ++ export_body r).
  f_equal. apply IH. lia.
Qed.

Theorem export_reexec_complete t raised : export_reexec t raised = export t.
Proof.
  unfold export_reexec, export, per_statement_exceptions. apply build_body_full.
  rewrite map_length, seq_length. reflexivity.
Qed.

(* a shorter list (re-execution loop left early without padding) silently truncates the function *)
Theorem build_body_short_truncates : exists l excs,
  length excs < length l /\ length (build_body l excs) < length (export_body l).
Proof.
  exists [ {| bound := Some 0%N; uses := []; sty := None; asserts := []; conv := true; node := 1%N |};
           {| bound := Some 1%N; uses := []; sty := None;
              asserts := [{| a_root := Some 1%N; a_render := true; a_id := 2%N |}]; conv := true; node := 2%N |} ],
         [true].
  vm_compute. split; lia.
Qed.

(* the code before the fix loses the assertion of an asserted, otherwise unused value *)
Theorem export_orig_drops : exists t,
  WF t /\ ascoped [] (stmts t) /\
  length (filter is_assert (export_orig t)) < length (flat_map rendered (stmts t)).
Proof.
  exists (mk [{| bound := Some 0%N; uses := []; sty := Some 1%N;
                 asserts := [{| a_root := Some 0%N; a_render := true; a_id := 7%N |}];
                 conv := true; node := 3%N |}] 1%N).
  split; [apply wfb_spec; reflexivity|]. split; [|vm_compute; lia].
  cbn. split; [|exact I]. intros v [H|[]]. left. exact H.
Qed.

(* non-vacuity: an asserted unused value, an unasserted unused value, a used value *)
Example ex_tc : tc :=
  mk [ {| bound := Some 0%N; uses := []; sty := Some 1%N; asserts := []; conv := true; node := 1%N |};
       {| bound := Some 1%N; uses := [0%N]; sty := Some 2%N;
          asserts := [{| a_root := Some 1%N; a_render := true; a_id := 5%N |};
                      {| a_root := None; a_render := false; a_id := 6%N |}];
          conv := true; node := 2%N |};
       {| bound := Some 2%N; uses := [0%N]; sty := Some 2%N;
          asserts := [{| a_root := Some 0%N; a_render := true; a_id := 8%N |}];
          conv := true; node := 3%N |} ] 3%N.
Example ex_export :
  WF ex_tc /\ ascoped [] (stmts ex_tc) /\
  map (fun i => match i with IStmt n => (false, n) | IAssert a => (true, a_id a) end) (export ex_tc)
  = [(false, 1%N); (false, 2%N); (true, 5%N); (false, 3%N); (true, 8%N)] /\
  map bound (stmts (remove_unused_variables ex_tc)) = [Some 0%N; Some 1%N; None].
Proof.
  split; [apply wfb_spec; reflexivity|]. split; [|split; reflexivity].
  apply ascopedb_spec. reflexivity.
Qed.
