(* C27 — proofs about the visibility rules and the under-test filter (Models/C27.v). *)
From Coq Require Import List NArith Bool Lia.
From Verif Require Import Models.C27.
Import ListNotations. Import C27. Open Scope N_scope.

(* ---- facts about the three prefix/suffix tests --------------------------------------------------- *)
Lemma sw_cons a r c p : startswith (a :: r) (c :: p) = (c =? a) && startswith r p.
Proof. reflexivity. Qed.
Lemma sw_nil_l c p : startswith [] (c :: p) = false.
Proof. reflexivity. Qed.
Lemma sw_nil s : startswith s [] = true.
Proof. destruct s; reflexivity. Qed.

Lemma sw2_sw1 n : startswith n [us; us] = true -> startswith n [us] = true.
Proof.
  destruct n as [|a r]; [rewrite sw_nil_l; discriminate|]. rewrite !sw_cons, sw_nil.
  destruct (us =? a); cbn [andb]; [reflexivity|discriminate].
Qed.

Lemma letter_not_us b : is_letter b = true -> (us =? b) = false.
Proof.
  intro H. apply N.eqb_neq. intro E. subst b. vm_compute in H. discriminate.
Qed.

Lemma mangled_sw n : is_name_mangled n = true -> startswith n [us] = true /\ startswith n [us; us] = false.
Proof.
  unfold is_name_mangled, re_mangled. destruct n as [|a [|b r]]; try (cbn [andb]; discriminate).
  rewrite !andb_true_iff. intros [[[Ha Hb] _] _]. apply N.eqb_eq in Ha. subst a.
  rewrite !sw_cons, !sw_nil, N.eqb_refl, (letter_not_us _ Hb). split; reflexivity.
Qed.

Lemma mangled_cases n : is_name_mangled n = false \/ (startswith n [us] = true /\ startswith n [us; us] = false).
Proof. destruct (is_name_mangled n) eqn:E; [right; apply mangled_sw; exact E|left; reflexivity]. Qed.

Lemma sw_cases n : startswith n [us; us] = false \/ startswith n [us] = true.
Proof. destruct (startswith n [us; us]) eqn:E; [right; apply sw2_sw1; exact E|left; reflexivity]. Qed.

(* ---- the five name classes partition all strings --------------------------------------------------- *)
Definition classes (n : name) : list bool := [c_public n; c_dunder n; c_private n; c_mangled n; c_protected n].

Lemma name_classes_partition n : length (filter (fun b => b) (classes n)) = 1%nat.
Proof.
  unfold classes, c_public, c_dunder, c_private, c_mangled, c_protected.
  destruct (mangled_cases n) as [M|[M1 M2]]; destruct (sw_cases n) as [S|S].
  - rewrite M, S. destruct (startswith n [us]), (endswith n [us; us]); reflexivity.
  - rewrite M, S. destruct (startswith n [us; us]), (endswith n [us; us]); reflexivity.
  - rewrite M1, M2. destruct (is_name_mangled n), (endswith n [us; us]); reflexivity.
  - rewrite M1, M2. destruct (is_name_mangled n), (endswith n [us; us]); reflexivity.
Qed.

(* the code's prefix-based "protected" is the union of the classes protected and mangled *)
Lemma is_protected_split n : is_protected n = c_protected n || c_mangled n.
Proof.
  unfold is_protected, c_protected, c_mangled.
  destruct (mangled_cases n) as [M|[M1 M2]].
  - rewrite M. destruct (startswith n [us]), (startswith n [us; us]); reflexivity.
  - rewrite M1, M2. destruct (is_name_mangled n); reflexivity.
Qed.

(* ---- skip <-> not eligible ------------------------------------------------------------------------- *)
Lemma skip_spec n v : should_skip n true v = negb (eligible_name v n).
Proof.
  unfold should_skip, eligible_name, is_private, is_protected, c_public, c_dunder, c_protected. cbn [negb].
  destruct (mangled_cases n) as [M|[M1 M2]]; destruct (sw_cases n) as [S|S]; destruct v;
    try rewrite M; try rewrite S; try rewrite M1; try rewrite M2;
    destruct (startswith n [us]), (startswith n [us; us]), (endswith n [us; us]), (is_name_mangled n);
    try reflexivity; try discriminate.
Qed.

Lemma skip_dependency n v : should_skip n false v = is_private n || is_protected n.
Proof. reflexivity. Qed.

Lemma skip_monotone n : 
  (should_skip n true ALL = true -> should_skip n true PROTECTED = true) /\
  (should_skip n true PROTECTED = true -> should_skip n true PUBLIC = true).
Proof.
  split; [discriminate|]. rewrite !skip_spec, !negb_true_iff. cbn [eligible_name].
  intro H. apply orb_false_iff in H. destruct H as [H _]. exact H.
Qed.

Lemma ctor_withheld_own a : ctor_withheld a false false = a.
Proof. destruct a; reflexivity. Qed.

(* ---- the cluster ----------------------------------------------------------------------------------- *)
Lemma analyse_exact v ms m : In m (analyse v ms) <-> In m ms /\ under_test v m = true.
Proof. apply filter_In. Qed.

Lemma nothing_foreign v ms m : In m (analyse v ms) -> m_own m = true.
Proof.
  intro H. apply analyse_exact in H. destruct H as [_ H]. unfold under_test in H.
  rewrite !andb_true_iff in H. tauto.
Qed.

Lemma under_test_exact_partial v m :
  m_reached m = true -> m_async m = false -> m_main_test m = false ->
  (is_constructor m = true -> eligible_name v (m_name m) = true /\ m_listed m = false) ->
  under_test v m = eligible_member v m.
Proof.
  intros Hr Ha Hm Hc. unfold under_test, eligible_member, blacklisted, is_constructor in *.
  rewrite Hr, Ha, Hm. destruct (m_own m) eqn:Ho; [|reflexivity].
  destruct (m_kind m); cbn [andb orb negb].
  - rewrite skip_spec, negb_involutive. destruct (m_listed m), (eligible_name v (m_name m)); reflexivity.
  - destruct (Hc eq_refl) as [H1 H2]. rewrite H1, H2. reflexivity.
  - rewrite skip_spec, negb_involutive. destruct (m_listed m), (eligible_name v (m_name m)); reflexivity.
Qed.

(* full statement refuted: a constructor of a class with a protected name is under test under PUBLIC,
   and an eligible function whose qualname starts with "main" is not *)
Definition hidden_ctor : member :=
  {| m_kind := Constructor; m_name := [95; 72; 105; 100; 100; 101; 110] (* _Hidden *); m_own := true;
     m_reached := true; m_async := false; m_listed := false; m_main_test := false |}.
Definition mainloop_fn : member :=
  {| m_kind := Function; m_name := [109; 97; 105; 110; 108; 111; 111; 112] (* mainloop *); m_own := true;
     m_reached := true; m_async := false; m_listed := false; m_main_test := true |}.

Lemma under_test_exact_refuted :
  (under_test PUBLIC hidden_ctor = true /\ eligible_member PUBLIC hidden_ctor = false) /\
  (under_test PUBLIC mainloop_fn = false /\ eligible_member PUBLIC mainloop_fn = true).
Proof. repeat split; vm_compute; reflexivity. Qed.

(* ---- non-vacuity --------------------------------------------------------------------------------- *)
Definition s (l : list N) := l.
Example ex_classes :
  map classes [ s [103; 101; 116] (* get *); s [95; 95; 108; 101; 110; 95; 95] (* __len__ *);
                s [95; 95; 112] (* __p *); s [95; 70; 111; 111; 95; 95; 112] (* _Foo__p *);
                s [95; 112] (* _p *); s [95]; s [95; 95]; s [] ]
  = [ [true; false; false; false; false]; [false; true; false; false; false];
      [false; false; true; false; false]; [false; false; false; true; false];
      [false; false; false; false; true]; [false; false; false; false; true];
      [false; true; false; false; false]; [true; false; false; false; false] ].
Proof. vm_compute. reflexivity. Qed.

Example ex_partial_applies :
  let m := {| m_kind := Method; m_name := [95; 70; 111; 111; 95; 95; 112]; m_own := true; m_reached := true;
              m_async := false; m_listed := false; m_main_test := false |} in
  map (fun v => under_test v m) [PUBLIC; PROTECTED; ALL] = [false; false; true].
Proof. vm_compute. reflexivity. Qed.
