(* C25 — proofs about the type-system model (Models/C25.v). *)
From Coq Require Import List NArith Bool Arith Lia Relations.
From Verif Require Import Models.C25.
Import ListNotations.
Import C25.

(* ------------------------------------------------------------------------------------------ *)
(* A. lists and sizes *)
Lemma size_pos t : 1 <= size t.
Proof. destruct t; simpl; lia. Qed.

Lemma In_size_le x l : In x l -> size x <= list_sum (map size l).
Proof.
  induction l as [|y l IH]; simpl; [tauto|].
  intros [->|H]; [lia|]. specialize (IH H). lia.
Qed.

Lemma forallb_ext_in {A} (f h : A -> bool) l :
  (forall x, In x l -> f x = h x) -> forallb f l = forallb h l.
Proof.
  induction l as [|y l IH]; simpl; intro H; [reflexivity|].
  rewrite (H y) by auto. rewrite IH; auto.
Qed.

Lemma existsb_ext_in {A} (f h : A -> bool) l :
  (forall x, In x l -> f x = h x) -> existsb f l = existsb h l.
Proof.
  induction l as [|y l IH]; simpl; intro H; [reflexivity|].
  rewrite (H y) by auto. rewrite IH; auto.
Qed.

Lemma forall2b_ext_in {A B} (f h : A -> B -> bool) l r :
  (forall x y, In x l -> In y r -> f x y = h x y) -> forall2b f l r = forall2b h l r.
Proof.
  revert r; induction l as [|x l IH]; intros [|y r] H; simpl; try reflexivity.
  rewrite (H x y) by (simpl; auto). rewrite IH; [reflexivity|].
  intros; apply H; simpl; auto.
Qed.

Lemma map2_ext_in {A B C} (f h : A -> B -> C) l r :
  (forall x y, In x l -> In y r -> f x y = h x y) -> map2 f l r = map2 h l r.
Proof.
  revert r; induction l as [|x l IH]; intros [|y r] H; simpl; try reflexivity.
  rewrite (H x y) by (simpl; auto). rewrite IH; [reflexivity|].
  intros; apply H; simpl; auto.
Qed.

Lemma forall2b_spec {A B} (f : A -> B -> bool) l r :
  forall2b f l r = true <-> Forall2 (fun x y => f x y = true) l r.
Proof.
  revert r; induction l as [|x l IH]; intros [|y r]; simpl; split; intro H;
    try discriminate; try constructor; try (inversion H; fail).
  - apply andb_true_iff in H; tauto.
  - apply IH. apply andb_true_iff in H; tauto.
  - inversion H; subst. apply andb_true_iff; split; [assumption|apply IH; assumption].
Qed.

Lemma forall2b_length {A B} (f : A -> B -> bool) l r :
  forall2b f l r = true -> length l = length r.
Proof.
  revert r; induction l as [|x l IH]; intros [|y r]; simpl; intro H; try discriminate; auto.
  apply andb_true_iff in H. f_equal. apply IH. tauto.
Qed.

Lemma quant_ext_in m (f h : ty -> bool) l :
  (forall x, In x l -> f x = h x) -> quant m f l = quant m h l.
Proof. destruct m; simpl; [apply forallb_ext_in | apply existsb_ext_in | apply existsb_ext_in]. Qed.

(* ------------------------------------------------------------------------------------------ *)
(* B. fuel: the recursion of sub_body only descends to strictly smaller pairs *)
Lemma sub_body_ext m g rec1 rec2 l r :
  (forall x y, size x + size y < size l + size r -> rec1 x y = rec2 x y) ->
  sub_body m g rec1 l r = sub_body m g rec2 l r.
Proof.
  intro H.
  assert (HL : forall ls, l = TUnion ls ->
     quant m (fun x => rec1 x r) ls = quant m (fun x => rec2 x r) ls).
  { intros ls ->. apply quant_ext_in. intros x Hx. apply H.
    apply In_size_le in Hx. simpl. lia. }
  assert (HR : forall rs, r = TUnion rs ->
     existsb (fun y => rec1 l y) rs = existsb (fun y => rec2 l y) rs).
  { intros rs ->. apply existsb_ext_in. intros y Hy. apply H.
    apply In_size_le in Hy. simpl. lia. }
  assert (HI : forall c a c' a', l = TInst c a -> r = TInst c' a' ->
     forall2b (fun x y => rec1 x y && back m (rec1 y x)) a a' =
     forall2b (fun x y => rec2 x y && back m (rec2 y x)) a a').
  { intros c a c' a' -> ->. apply forall2b_ext_in. intros x y Hx Hy.
    apply In_size_le in Hx. apply In_size_le in Hy.
    rewrite (H x y) by (simpl; lia). rewrite (H y x) by (simpl; lia). reflexivity. }
  assert (HT : forall a a', l = TTuple a -> r = TTuple a' ->
     forall2b rec1 a a' = forall2b rec2 a a').
  { intros a a' -> ->. apply forall2b_ext_in. intros x y Hx Hy.
    apply In_size_le in Hx. apply In_size_le in Hy. apply H. simpl. lia. }
  destruct r as [| |c' a'|a'|rs]; destruct l as [| |c a|a|ls]; simpl; try reflexivity;
    try (apply HL; reflexivity); try (apply HR; reflexivity).
  - rewrite (HI c a c' a') by reflexivity. reflexivity.
  - apply HT; reflexivity.
Qed.

Lemma sub_fuel m g f1 : forall f2 l r,
  size l + size r <= f1 -> size l + size r <= f2 -> sub m g f1 l r = sub m g f2 l r.
Proof.
  induction f1 as [|f1 IH]; intros f2 l r H1 H2.
  - pose proof (size_pos l). lia.
  - destruct f2 as [|f2]; [pose proof (size_pos l); lia|].
    simpl. apply sub_body_ext. intros x y Hxy. apply IH; lia.
Qed.

Lemma issub_unfold m g l r : issub m g l r = sub_body m g (issub m g) l r.
Proof.
  unfold issub at 1.
  destruct (size l + size r) as [|n] eqn:E; [pose proof (size_pos l); lia|].
  simpl. apply sub_body_ext. intros x y Hxy. unfold issub. apply sub_fuel; lia.
Qed.

(* C. the same for the distance *)
Lemma dist_body_ext g anyd rec1 rec2 T S :
  (forall x y, size x + size y < size T + size S -> rec1 x y = rec2 x y) ->
  dist_body g anyd rec1 T S = dist_body g anyd rec2 T S.
Proof.
  intro H.
  destruct T as [| |c a|a|ts]; simpl; try reflexivity.
  - destruct S as [| |c' a'|a'|ss]; try reflexivity.
    + destruct (sp g c c'); [|reflexivity].
      destruct (nonempty a && nonempty a'); [|reflexivity].
      rewrite (map2_ext_in rec1 rec2 a a'); [reflexivity|].
      intros x y Hx Hy. apply In_size_le in Hx. apply In_size_le in Hy. apply H. simpl. lia.
    + f_equal. apply map_ext_in. intros e He. apply H.
      apply In_size_le in He. simpl. simpl in He. lia.
  - destruct S as [| |c' a'|a'|ss]; try reflexivity.
    destruct (Nat.eqb (length a) (length a')); [|reflexivity].
    rewrite (map2_ext_in rec1 rec2 a a'); [reflexivity|].
    intros x y Hx Hy. apply In_size_le in Hx. apply In_size_le in Hy. apply H. simpl. lia.
  - f_equal. apply map_ext_in. intros e He. apply H. apply In_size_le in He. simpl. lia.
Qed.

Lemma dist_fuel g anyd f1 : forall f2 T S,
  size T + size S <= f1 -> size T + size S <= f2 -> dist g anyd f1 T S = dist g anyd f2 T S.
Proof.
  induction f1 as [|f1 IH]; intros f2 T S H1 H2.
  - pose proof (size_pos T). lia.
  - destruct f2 as [|f2]; [pose proof (size_pos T); lia|].
    simpl. apply dist_body_ext. intros x y Hxy. apply IH; lia.
Qed.

Lemma distance_unfold g anyd T S :
  distance g anyd T S = dist_body g anyd (distance g anyd) T S.
Proof.
  unfold distance at 1.
  destruct (size T + size S) as [|n] eqn:E; [pose proof (size_pos T); lia|].
  simpl. apply dist_body_ext. intros x y Hxy. unfold distance. apply dist_fuel; lia.
Qed.

(* ------------------------------------------------------------------------------------------ *)
(* D. the class graph: is_subclass is the reflexive-transitive closure of the edges *)
Inductive path (g : graph) : cls -> cls -> Prop :=
| path_refl a : path g a a
| path_step a b c : path g a b -> In (b, c) (edges g) -> path g a c.

Lemma path_trans g a b c : path g a b -> path g b c -> path g a c.
Proof.
  intros H1 H2. revert H1. induction H2 as [b|b m c Hp IH He]; intro H1; [assumption|].
  eapply path_step; [apply IH; exact H1|exact He].
Qed.

Lemma path_clos g a b :
  path g a b <-> clos_refl_trans cls (fun x y => In (x, y) (edges g)) a b.
Proof.
  split; intro H.
  - induction H; [apply rt_refl|]. eapply rt_trans; [eassumption|apply rt_step; assumption].
  - apply clos_rt_rtn1_iff in H. induction H; [apply path_refl|]. eapply path_step; eauto.
Qed.

Lemma memN_In x l : memN x l = true <-> In x l.
Proof.
  unfold memN. rewrite existsb_exists. split.
  - intros [y [Hy E]]. apply N.eqb_eq in E. subst. assumption.
  - intro H. exists x. split; [assumption|apply N.eqb_refl].
Qed.

Lemma In_succs g c s : In s (succs g c) <-> In (c, s) (edges g).
Proof.
  unfold succs. rewrite in_map_iff. split.
  - intros [[a b] [E H]]. simpl in E. subst. apply filter_In in H. destruct H as [H E].
    simpl in E. apply N.eqb_eq in E. subst. assumption.
  - intro H. exists (c, s). split; [reflexivity|]. apply filter_In. split; [assumption|].
    simpl. apply N.eqb_refl.
Qed.

Lemma fresh_In seen cands x : In x (fresh seen cands) -> In x cands.
Proof.
  revert seen; induction cands as [|c r IH]; simpl; intros seen H; [assumption|].
  destruct (memN c seen).
  - right. eapply IH; eauto.
  - destruct H as [->|H]; [auto|]. right. eapply IH; eauto.
Qed.

Lemma lookup_In {A} c (t : list (cls * A)) v : lookup c t = Some v -> In (c, v) t.
Proof.
  induction t as [|[k w] t IH]; simpl; [discriminate|].
  destruct (N.eqb c k) eqn:E.
  - intro H. inversion H; subst. apply N.eqb_eq in E. subst. auto.
  - auto.
Qed.

Lemma lookup_mem {A} c (t : list (cls * A)) : In c (map fst t) -> lookup c t <> None.
Proof.
  induction t as [|[k w] t IH]; simpl; [tauto|].
  intros [E|H].
  - subst. rewrite N.eqb_refl. discriminate.
  - destruct (N.eqb c k); [discriminate|auto].
Qed.

Lemma bfs_prefix g fuel : forall frontier seen d,
  exists rest, bfs g fuel frontier seen d = seen ++ rest.
Proof.
  induction fuel as [|f IH]; intros frontier seen d; cbn [bfs].
  - exists []. rewrite app_nil_r. reflexivity.
  - destruct (fresh (map fst seen) (flat_map (succs g) frontier)) as [|n next] eqn:E.
    + exists []. rewrite app_nil_r. reflexivity.
    + destruct (IH (n :: next) (seen ++ map (fun c => (c, N.succ d)) (n :: next)) (N.succ d)) as [rest Hr].
      rewrite Hr. rewrite <- app_assoc. eexists. reflexivity.
Qed.

Lemma bfs_sound g a fuel : forall frontier seen d,
  (forall c, In c (map fst seen) -> path g a c) ->
  (forall c, In c frontier -> path g a c) ->
  forall c, In c (map fst (bfs g fuel frontier seen d)) -> path g a c.
Proof.
  induction fuel as [|f IH]; intros frontier seen d Hs Hf c; cbn [bfs]; [apply Hs|].
  destruct (fresh (map fst seen) (flat_map (succs g) frontier)) as [|n next] eqn:E; [apply Hs|].
  assert (Hn : forall x, In x (n :: next) -> path g a x).
  { intros x Hx. rewrite <- E in Hx. apply fresh_In in Hx. apply in_flat_map in Hx.
    destruct Hx as [y [Hy Hx]]. apply In_succs in Hx. eapply path_step; [apply Hf; exact Hy|exact Hx]. }
  apply IH; [|exact Hn].
  intros x Hx. rewrite map_app in Hx. apply in_app_or in Hx. destruct Hx as [Hx|Hx]; [apply Hs; exact Hx|].
  rewrite map_map in Hx. simpl in Hx. rewrite map_id in Hx. apply Hn. exact Hx.
Qed.

Lemma dists_sound g a c : In c (map fst (dists g a)) -> path g a c.
Proof.
  unfold dists. apply bfs_sound.
  - simpl. intros x [<-|[]]. apply path_refl.
  - simpl. intros x [<-|[]]. apply path_refl.
Qed.

Lemma dists_start g a : exists rest, dists g a = (a, 0%N) :: rest.
Proof. unfold dists. destruct (bfs_prefix g (length (nodes g)) [a] [(a, 0%N)] 0%N) as [r H]. rewrite H. eexists; reflexivity. Qed.

Lemma sp_refl g a : sp g a a = Some 0%N.
Proof. unfold sp. destruct (dists_start g a) as [r ->]. simpl. rewrite N.eqb_refl. reflexivity. Qed.

Lemma sp_sound g a b d : sp g a b = Some d -> path g a b.
Proof.
  unfold sp. intro H. apply lookup_In in H. apply dists_sound.
  apply in_map_iff. exists (b, d). auto.
Qed.

Lemma subcls_refl g c : subcls g c c = true.
Proof. unfold subcls. rewrite sp_refl. reflexivity. Qed.

Lemma subcls_sound g c d : subcls g c d = true -> path g d c.
Proof. unfold subcls. destruct (sp g d c) eqn:E; [|discriminate]. intros _. eapply sp_sound; eauto. Qed.

Lemma closed_complete g (L : list cls) a b :
  closedb g L = true -> In a L -> path g a b -> In b L.
Proof.
  intros Hc Ha Hp. induction Hp as [|a b c Hp IH He]; [assumption|].
  specialize (IH Ha). unfold closedb in Hc. rewrite forallb_forall in Hc.
  specialize (Hc b IH). rewrite forallb_forall in Hc. apply memN_In. apply Hc. apply In_succs. exact He.
Qed.

Lemma subcls_complete g c d :
  graph_ok g = true -> In d (nodes g) -> path g d c -> subcls g c d = true.
Proof.
  intros Hok Hd Hp. unfold graph_ok in Hok. apply andb_true_iff in Hok. destruct Hok as [Hok _].
  rewrite forallb_forall in Hok. specialize (Hok d Hd).
  assert (Hin : In c (map fst (dists g d))).
  { eapply closed_complete; [exact Hok| |exact Hp]. destruct (dists_start g d) as [r ->]. simpl. auto. }
  unfold subcls, sp. apply lookup_mem in Hin. destruct (lookup c (dists g d)); [reflexivity|congruence].
Qed.

Lemma subcls_iff_path g c d :
  graph_ok g = true -> In d (nodes g) -> (subcls g c d = true <-> path g d c).
Proof. intros Hok Hd. split; [apply subcls_sound|apply subcls_complete; assumption]. Qed.

Lemma subcls_trans g c d e :
  graph_ok g = true -> In e (nodes g) ->
  subcls g c d = true -> subcls g d e = true -> subcls g c e = true.
Proof.
  intros Hok He H1 H2. apply subcls_complete; [assumption|assumption|].
  eapply path_trans; [apply subcls_sound; exact H2|apply subcls_sound; exact H1].
Qed.

(* ------------------------------------------------------------------------------------------ *)
(* E. subtyping laws *)
Lemma issub_any_r m g t : issub m g t TAny = true.
Proof. rewrite issub_unfold. reflexivity. Qed.

Lemma issub_union_l m g ls r :
  r <> TAny -> issub m g (TUnion ls) r = quant m (fun x => issub m g x r) ls.
Proof. intro H. rewrite issub_unfold. destruct r; try reflexivity. congruence. Qed.

Definition is_union (t : ty) : bool := match t with TUnion _ => true | _ => false end.

Lemma issub_union_r m g l rs :
  is_union l = false -> issub m g l (TUnion rs) = existsb (fun y => issub m g l y) rs.
Proof. intro H. rewrite issub_unfold. destruct l; try reflexivity. discriminate. Qed.

Lemma wf_inst g c a x : wf g (TInst c a) = true -> In x a -> wf g x = true.
Proof.
  simpl. intros H Hx. apply andb_true_iff in H. destruct H as [_ H].
  rewrite forallb_forall in H. auto.
Qed.

Lemma wf_tuple g a x : wf g (TTuple a) = true -> In x a -> wf g x = true.
Proof. simpl. intros H Hx. rewrite forallb_forall in H. auto. Qed.

Lemma wf_union g a x : wf g (TUnion a) = true -> In x a -> wf g x = true.
Proof.
  simpl. intros H Hx. apply andb_true_iff in H. destruct H as [_ H].
  rewrite forallb_forall in H. auto.
Qed.

Lemma wf_union_ne g a : wf g (TUnion a) = true -> exists x, In x a.
Proof. simpl. intro H. apply andb_true_iff in H. destruct H as [H _]. destruct a; [discriminate|]. eexists; left; reflexivity. Qed.

(* a member of a union on the right is enough *)
Lemma issub_union_r_intro m g n : forall x e items,
  size x <= n -> (m = Strict \/ wf g x = true) ->
  In e items -> issub m g x e = true -> issub m g x (TUnion items) = true.
Proof.
  induction n as [|n IH]; intros x e items Hn Hm He Hs; [pose proof (size_pos x); lia|].
  destruct (is_union x) eqn:Ux.
  - destruct x as [| | | |xs]; try discriminate.
    rewrite issub_union_l by discriminate.
    assert (Hsz : forall y, In y xs -> size y <= n).
    { intros y Hy. apply In_size_le in Hy. simpl in Hn. lia. }
    assert (Hwf : forall y, In y xs -> m = Strict \/ wf g y = true).
    { intros y Hy. destruct Hm as [Hm|Hm]; [left; exact Hm|right; eapply wf_union; eauto]. }
    destruct (match e with TAny => true | _ => false end) eqn:Ea.
    + (* e = Any *)
      destruct e; try discriminate.
      destruct m; simpl.
      * apply forallb_forall. intros y Hy. eapply IH; eauto. apply issub_any_r.
      * destruct Hm as [Hm|Hm]; [discriminate|]. destruct (wf_union_ne _ _ Hm) as [y Hy].
        apply existsb_exists. exists y. split; [exact Hy|]. eapply IH; eauto. apply issub_any_r.
      * destruct Hm as [Hm|Hm]; [discriminate|]. destruct (wf_union_ne _ _ Hm) as [y Hy].
        apply existsb_exists. exists y. split; [exact Hy|]. eapply IH; eauto. apply issub_any_r.
    + rewrite issub_union_l in Hs by (destruct e; congruence).
      destruct m; simpl in *.
      * rewrite forallb_forall in Hs. apply forallb_forall. intros y Hy. eapply IH; eauto.
      * apply existsb_exists in Hs. destruct Hs as [y [Hy Hs]]. apply existsb_exists. exists y.
        split; [exact Hy|]. eapply IH; eauto.
      * apply existsb_exists in Hs. destruct Hs as [y [Hy Hs]]. apply existsb_exists. exists y.
        split; [exact Hy|]. eapply IH; eauto.
  - rewrite issub_union_r by exact Ux. apply existsb_exists. exists e. auto.
Qed.

Lemma forall2b_diag {A} (f : A -> A -> bool) l :
  (forall x, In x l -> f x x = true) -> forall2b f l l = true.
Proof.
  induction l as [|x l IH]; simpl; intro H; [reflexivity|].
  rewrite H by auto. simpl. apply IH. auto.
Qed.

Lemma issub_refl_gen m g n : forall t,
  size t <= n -> (m = Strict \/ wf g t = true) -> issub m g t t = true.
Proof.
  induction n as [|n IH]; intros t Hn Hm; [pose proof (size_pos t); lia|].
  destruct t as [| |c a|a|ts].
  - apply issub_any_r.
  - rewrite issub_unfold. reflexivity.
  - rewrite issub_unfold. simpl. rewrite subcls_refl. simpl.
    destruct (hg g c) as [k|]; [|reflexivity]. rewrite Nat.eqb_refl.
    apply forall2b_diag. intros x Hx.
    assert (E : issub m g x x = true).
    { apply IH. - apply In_size_le in Hx. simpl in Hn. lia.
      - destruct Hm as [Hm|Hm]; [left; exact Hm|right; eapply wf_inst; eauto]. }
    rewrite E. destruct m; reflexivity.
  - rewrite issub_unfold. simpl. apply forall2b_diag. intros x Hx. apply IH.
    + apply In_size_le in Hx. simpl in Hn. lia.
    + destruct Hm as [Hm|Hm]; [left; exact Hm|right; eapply wf_tuple; eauto].
  - rewrite issub_union_l by discriminate.
    assert (Hx : forall x, In x ts -> issub m g x (TUnion ts) = true).
    { intros x Hx. apply issub_union_r_intro with (n := size x) (e := x); auto.
      - destruct Hm as [Hm|Hm]; [left; exact Hm|right; eapply wf_union; eauto].
      - apply IH. + apply In_size_le in Hx. simpl in Hn. lia.
        + destruct Hm as [Hm|Hm]; [left; exact Hm|right; eapply wf_union; eauto]. }
    destruct m; simpl.
    + apply forallb_forall. exact Hx.
    + destruct Hm as [Hm|Hm]; [discriminate|]. destruct (wf_union_ne _ _ Hm) as [y Hy].
      apply existsb_exists. exists y. auto.
    + destruct Hm as [Hm|Hm]; [discriminate|]. destruct (wf_union_ne _ _ Hm) as [y Hy].
      apply existsb_exists. exists y. auto.
Qed.

Lemma subtype_refl g t : is_subtype g t t = true.
Proof. apply issub_refl_gen with (n := size t); auto. Qed.

Lemma maybe_subtype_refl g t : wf g t = true -> is_maybe_subtype g t t = true.
Proof. intro H. apply issub_refl_gen with (n := size t); auto. Qed.

Lemma subtype_any_top g t : is_subtype g t TAny = true.
Proof. apply issub_any_r. Qed.

Lemma union_left_iff g ts r :
  is_subtype g (TUnion ts) r = true <-> Forall (fun t => is_subtype g t r = true) ts.
Proof.
  unfold is_subtype. destruct (match r with TAny => true | _ => false end) eqn:E.
  - destruct r; try discriminate. split; intro H; [|apply issub_any_r].
    apply Forall_forall. intros x _. apply issub_any_r.
  - rewrite issub_union_l by (destruct r; congruence). simpl.
    rewrite forallb_forall, Forall_forall. reflexivity.
Qed.

(* transitivity *)
Lemma forall2b_trans_in {A} (f : A -> A -> bool) l1 : forall l2 l3,
  (forall x y z, In x l1 -> In y l2 -> In z l3 -> f x y = true -> f y z = true -> f x z = true) ->
  forall2b f l1 l2 = true -> forall2b f l2 l3 = true -> forall2b f l1 l3 = true.
Proof.
  induction l1 as [|x l1 IH]; intros [|y l2] [|z l3] H H1 H2; simpl in *; try discriminate; try reflexivity.
  apply andb_true_iff in H1. apply andb_true_iff in H2. destruct H1 as [A1 B1]. destruct H2 as [A2 B2].
  apply andb_true_iff. split.
  - apply (H x y z); auto.
  - apply (IH l2 l3); auto. intros; eapply H; eauto.
Qed.

Lemma any_free_inst c a x : any_free (TInst c a) = true -> In x a -> any_free x = true.
Proof. simpl. intros H Hx. rewrite forallb_forall in H. auto. Qed.
Lemma any_free_tuple a x : any_free (TTuple a) = true -> In x a -> any_free x = true.
Proof. simpl. intros H Hx. rewrite forallb_forall in H. auto. Qed.
Lemma any_free_union a x : any_free (TUnion a) = true -> In x a -> any_free x = true.
Proof. simpl. intros H Hx. rewrite forallb_forall in H. auto. Qed.

Lemma wf_inst_node g c a : wf g (TInst c a) = true -> In c (nodes g).
Proof.
  simpl. intro H. apply andb_true_iff in H. destruct H as [H _].
  apply andb_true_iff in H. destruct H as [H _]. apply memN_In. exact H.
Qed.

Lemma hg_convex g c m r k :
  hg_convexb g = true -> In m (nodes g) ->
  hg g c = Some k -> hg g r = Some k ->
  subcls g c m = true -> subcls g m r = true -> subcls g c r = true ->
  hg g m = Some k.
Proof.
  intros Hc Hm Ec Er S1 S2 S3. unfold hg_convexb in Hc. rewrite forallb_forall in Hc.
  specialize (Hc (c, k) (lookup_In _ _ _ Ec)). rewrite forallb_forall in Hc.
  specialize (Hc (r, k) (lookup_In _ _ _ Er)). simpl in Hc.
  rewrite Nat.eqb_refl, S3 in Hc. simpl in Hc. rewrite forallb_forall in Hc.
  specialize (Hc m Hm). rewrite S1, S2, Ec in Hc. simpl in Hc.
  destruct (hg g m) as [k'|]; simpl in Hc; [|discriminate].
  apply Nat.eqb_eq in Hc. congruence.
Qed.

Lemma subtype_trans_gen g n :
  graph_ok g = true -> hg_convexb g = true ->
  forall l m r, size l + size m + size r <= n ->
  wf g l = true -> wf g m = true -> wf g r = true -> any_free m = true ->
  issub Strict g l m = true -> issub Strict g m r = true -> issub Strict g l r = true.
Proof.
  intros Hok Hcv. induction n as [|n IH]; intros l m r Hn Wl Wm Wr Am H1 H2;
    [pose proof (size_pos l); lia|].
  destruct (match r with TAny => true | _ => false end) eqn:Er.
  { destruct r; try discriminate. apply issub_any_r. }
  assert (Hr : r <> TAny) by (destruct r; congruence).
  assert (Hm : m <> TAny) by (destruct m; simpl in Am; congruence).
  destruct (is_union l) eqn:Ul.
  { destruct l as [| | | |ls]; try discriminate.
    rewrite issub_union_l in H1 by exact Hm. rewrite issub_union_l by exact Hr. simpl in *.
    rewrite forallb_forall in H1. apply forallb_forall. intros x Hx.
    apply (IH x m r); auto.
    - apply In_size_le in Hx. lia.
    - eapply wf_union; eauto. }
  destruct (is_union m) eqn:Um.
  { destruct m as [| | | |ms]; try discriminate.
    rewrite issub_union_r in H1 by exact Ul. apply existsb_exists in H1. destruct H1 as [mi [Hmi H1]].
    rewrite issub_union_l in H2 by exact Hr. simpl in H2. rewrite forallb_forall in H2.
    apply (IH l mi r); auto.
    - apply In_size_le in Hmi. simpl in Hn. lia.
    - eapply wf_union; eauto.
    - eapply any_free_union; eauto. }
  destruct (is_union r) eqn:Ur.
  { destruct r as [| | | |rs]; try discriminate.
    rewrite issub_union_r in H2 by exact Um. apply existsb_exists in H2. destruct H2 as [rk [Hrk H2]].
    rewrite issub_union_r by exact Ul. apply existsb_exists. exists rk. split; [exact Hrk|].
    apply (IH l m rk); auto.
    - apply In_size_le in Hrk. simpl in Hn. lia.
    - eapply wf_union; eauto. }
  rewrite issub_unfold in H1, H2. rewrite issub_unfold.
  destruct l as [| |cl al|al|ls]; destruct m as [| |cm am|am|ms]; destruct r as [| |cr ar|ar|rs];
    simpl in H1, H2, Ul, Um, Ur |- *; try discriminate; try reflexivity; try congruence.
  - (* instances *)
    apply andb_true_iff in H1. destruct H1 as [S1 G1].
    apply andb_true_iff in H2. destruct H2 as [S2 G2].
    assert (S3 : subcls g cl cr = true).
    { eapply subcls_trans; eauto. eapply wf_inst_node; eauto. }
    rewrite S3. simpl.
    destruct (hg g cl) as [kl|] eqn:El; [|reflexivity].
    destruct (hg g cr) as [kr|] eqn:Ecr; [|reflexivity].
    destruct (Nat.eqb kl kr) eqn:Ek; [|reflexivity].
    apply Nat.eqb_eq in Ek. subst kr.
    assert (Em : hg g cm = Some kl).
    { eapply (hg_convex g cl cm cr); eauto. eapply wf_inst_node; eauto. }
    rewrite Em, Nat.eqb_refl in G1. rewrite Em, Nat.eqb_refl in G2.
    eapply forall2b_trans_in; [|exact G1|exact G2].
    intros x y z Hx Hy Hz P1 P2. simpl in P1, P2, Hn.
    apply andb_true_iff in P1. destruct P1 as [P1 Q1].
    apply andb_true_iff in P2. destruct P2 as [P2 Q2].
    pose proof (In_size_le _ _ Hx). pose proof (In_size_le _ _ Hy). pose proof (In_size_le _ _ Hz).
    assert (Wx : wf g x = true) by (eapply wf_inst; [exact Wl|exact Hx]).
    assert (Wy : wf g y = true) by (eapply wf_inst; [exact Wm|exact Hy]).
    assert (Wz : wf g z = true) by (eapply wf_inst; [exact Wr|exact Hz]).
    assert (Ay : any_free y = true) by (eapply any_free_inst; [exact Am|exact Hy]).
    apply andb_true_iff. split.
    + apply (IH x y z); auto. lia.
    + apply (IH z y x); auto. lia.
  - (* tuples *)
    eapply forall2b_trans_in; [|exact H1|exact H2].
    intros x y z Hx Hy Hz P1 P2.
    pose proof (In_size_le _ _ Hx). pose proof (In_size_le _ _ Hy). pose proof (In_size_le _ _ Hz).
    simpl in Hn.
    apply (IH x y z); auto.
    + lia.
    + eapply wf_tuple; [exact Wl|exact Hx].
    + eapply wf_tuple; [exact Wm|exact Hy].
    + eapply wf_tuple; [exact Wr|exact Hz].
    + eapply any_free_tuple; [exact Am|exact Hy].
Qed.

Lemma subtype_trans_anyfree g l m r :
  graph_ok g = true -> hg_convexb g = true ->
  wf g l = true -> wf g m = true -> wf g r = true -> any_free m = true ->
  is_subtype g l m = true -> is_subtype g m r = true -> is_subtype g l r = true.
Proof. intros. eapply subtype_trans_gen with (n := size l + size m + size r) (m := m); eauto. Qed.

(* ------------------------------------------------------------------------------------------ *)
(* F. is_subtype => is_maybe_subtype => covariant reading *)
Lemma forall2b_impl_in {A B} (f h : A -> B -> bool) l r :
  (forall x y, In x l -> In y r -> f x y = true -> h x y = true) ->
  forall2b f l r = true -> forall2b h l r = true.
Proof.
  revert r; induction l as [|x l IH]; intros [|y r] H H1; simpl in *; try discriminate; try reflexivity.
  apply andb_true_iff in H1. destruct H1 as [A1 B1]. apply andb_true_iff. split.
  - apply H; auto.
  - apply IH; auto.
Qed.

Lemma existsb_impl_in {A} (f h : A -> bool) l :
  (forall x, In x l -> f x = true -> h x = true) -> existsb f l = true -> existsb h l = true.
Proof.
  intros H H1. apply existsb_exists in H1. destruct H1 as [x [Hx H1]].
  apply existsb_exists. exists x. auto.
Qed.

(* m1 weaker than m2: Strict -> Maybe -> MaybeCov *)
Definition weaker (m1 m2 : mode) : Prop :=
  match m1, m2 with
  | Strict, Maybe | Maybe, MaybeCov | Strict, MaybeCov => True
  | _, _ => False
  end.

Lemma issub_weaken g m1 m2 n : weaker m1 m2 ->
  forall l r, size l + size r <= n -> wf g l = true -> wf g r = true ->
  issub m1 g l r = true -> issub m2 g l r = true.
Proof.
  intro Hw. induction n as [|n IH]; intros l r Hn Wl Wr H; [pose proof (size_pos l); lia|].
  destruct (match r with TAny => true | _ => false end) eqn:Er.
  { destruct r; try discriminate. apply issub_any_r. }
  assert (Hr : r <> TAny) by (destruct r; congruence).
  destruct (is_union l) eqn:Ul.
  { destruct l as [| | | |ls]; try discriminate.
    rewrite issub_union_l in H by exact Hr. rewrite issub_union_l by exact Hr.
    assert (Hstep : forall x, In x ls -> issub m1 g x r = true -> issub m2 g x r = true).
    { intros x Hx Hs. apply IH; auto.
      - apply In_size_le in Hx. simpl in Hn. lia.
      - eapply wf_union; eauto. }
    destruct m1, m2; simpl in Hw; try contradiction; simpl in *.
    - destruct (wf_union_ne _ _ Wl) as [x Hx]. rewrite forallb_forall in H.
      apply existsb_exists. exists x. auto.
    - destruct (wf_union_ne _ _ Wl) as [x Hx]. rewrite forallb_forall in H.
      apply existsb_exists. exists x. auto.
    - eapply existsb_impl_in; [|exact H]. auto. }
  destruct (is_union r) eqn:Ur.
  { destruct r as [| | | |rs]; try discriminate.
    rewrite issub_union_r in H by exact Ul. rewrite issub_union_r by exact Ul.
    eapply existsb_impl_in; [|exact H]. intros y Hy Hs. apply IH; auto.
    - apply In_size_le in Hy. simpl in Hn. lia.
    - eapply wf_union; eauto. }
  rewrite issub_unfold in H. rewrite issub_unfold.
  destruct l as [| |cl al|al|ls]; destruct r as [| |cr ar|ar|rs];
    simpl in H, Ul, Ur |- *; try discriminate; try reflexivity; try congruence.
  - apply andb_true_iff in H. destruct H as [S1 G1]. rewrite S1. simpl.
    destruct (hg g cl) as [kl|]; [|reflexivity]. destruct (hg g cr) as [kr|]; [|reflexivity].
    destruct (Nat.eqb kl kr); [|reflexivity].
    eapply forall2b_impl_in; [|exact G1]. intros x y Hx Hy P. simpl in P.
    apply andb_true_iff in P. destruct P as [P Q].
    pose proof (In_size_le _ _ Hx). pose proof (In_size_le _ _ Hy). simpl in Hn.
    assert (Wx : wf g x = true) by (eapply wf_inst; [exact Wl|exact Hx]).
    assert (Wy : wf g y = true) by (eapply wf_inst; [exact Wr|exact Hy]).
    apply andb_true_iff. split.
    + apply IH; auto. lia.
    + destruct m1, m2; simpl in Hw; try contradiction; simpl in *; try reflexivity.
      * apply IH; auto. lia.
  - eapply forall2b_impl_in; [|exact H]. intros x y Hx Hy P.
    pose proof (In_size_le _ _ Hx). pose proof (In_size_le _ _ Hy). simpl in Hn.
    apply IH; auto.
    + lia.
    + eapply wf_tuple; [exact Wl|exact Hx].
    + eapply wf_tuple; [exact Wr|exact Hy].
Qed.

Lemma maybe_weaker g l r :
  wf g l = true -> wf g r = true -> is_subtype g l r = true -> is_maybe_subtype g l r = true.
Proof. intros. eapply issub_weaken with (m1 := Strict) (n := size l + size r); simpl; auto. Qed.

(* with no list/set/dict instance in the requested type the covariant reading is the real one *)
Lemma hg_free_inst g c a : hg_free g (TInst c a) = true -> hg g c = None /\ forallb (hg_free g) a = true.
Proof. simpl. destruct (hg g c); [discriminate|auto]. Qed.

Lemma cov_eq_maybe g n : forall s t, size s + size t <= n ->
  hg_free g t = true -> issub MaybeCov g s t = issub Maybe g s t.
Proof.
  induction n as [|n IH]; intros s t Hn Hf; [pose proof (size_pos s); lia|].
  destruct (match t with TAny => true | _ => false end) eqn:Et.
  { destruct t; try discriminate. rewrite !issub_any_r. reflexivity. }
  assert (Ht : t <> TAny) by (destruct t; congruence).
  destruct (is_union s) eqn:Us.
  { destruct s as [| | | |ss]; try discriminate. rewrite !issub_union_l by exact Ht. simpl.
    apply existsb_ext_in. intros x Hx. apply IH; auto. apply In_size_le in Hx. simpl in Hn. lia. }
  destruct (is_union t) eqn:Ut.
  { destruct t as [| | | |ts]; try discriminate. rewrite !issub_union_r by exact Us.
    apply existsb_ext_in. intros y Hy. apply IH.
    - apply In_size_le in Hy. simpl in Hn. lia.
    - simpl in Hf. rewrite forallb_forall in Hf. auto. }
  rewrite (issub_unfold MaybeCov), (issub_unfold Maybe).
  destruct s as [| |cs als|als|ss]; destruct t as [| |ct alt|alt|ts];
    simpl in Us, Ut |- *; try discriminate; try reflexivity; try congruence.
  - apply hg_free_inst in Hf. destruct Hf as [Hf _]. rewrite Hf.
    destruct (hg g cs); reflexivity.
  - apply forall2b_ext_in. intros x y Hx Hy. apply IH.
    + apply In_size_le in Hx. apply In_size_le in Hy. simpl in Hn. lia.
    + simpl in Hf. rewrite forallb_forall in Hf. auto.
Qed.

(* ------------------------------------------------------------------------------------------ *)
(* G. subtype distance *)
Lemma min_opt_some l d : min_opt l = Some d -> exists d', In (Some d') l.
Proof.
  induction l as [|[x|] l IH]; simpl; intro H; [discriminate| |].
  - exists x. auto.
  - destruct (IH H) as [d' Hd]. exists d'. auto.
Qed.

Lemma min_opt_zero l : In (Some 0%N) l -> min_opt l = Some 0%N.
Proof.
  induction l as [|[x|] l IH]; simpl; intros H; [contradiction| |].
  - destruct H as [H|H].
    + inversion H; subst. destruct (min_opt l); [rewrite N.min_0_l|]; reflexivity.
    + rewrite (IH H). rewrite N.min_0_r. reflexivity.
  - destruct H as [H|H]; [discriminate|auto].
Qed.

Lemma sum_map2_forall2b {A} (f : A -> A -> option N) (h : A -> A -> bool) a : forall a' s,
  length a = length a' -> sum_opt (map2 f a a') = Some s ->
  (forall x y, In x a -> In y a' -> f x y <> None -> h y x = true) ->
  forall2b h a' a = true.
Proof.
  induction a as [|x a IH]; intros [|y a'] s Hl Hs H; simpl in *; try discriminate; try reflexivity.
  destruct (f x y) as [v|] eqn:E; [|discriminate].
  destruct (sum_opt (map2 f a a')) as [s'|] eqn:E'; [|discriminate].
  apply andb_true_iff. split.
  - apply H; auto. congruence.
  - eapply IH; eauto.
Qed.

Lemma sum_map2_diag {A} (f : A -> A -> option N) a :
  (forall x, In x a -> f x x = Some 0%N) -> sum_opt (map2 f a a) = Some 0%N.
Proof.
  induction a as [|x a IH]; simpl; intro H; [reflexivity|].
  rewrite H by auto. rewrite IH by auto. reflexivity.
Qed.

Lemma wf_inst_len g c a k : wf g (TInst c a) = true -> hg g c = Some k -> length a = k.
Proof.
  simpl. intros H E. rewrite E in H. apply andb_true_iff in H. destruct H as [H _].
  apply andb_true_iff in H. destruct H as [_ H]. apply Nat.eqb_eq. exact H.
Qed.

(* a defined distance from t to s implies that s may be a subtype of t, reading list/set/dict
   covariantly (which is what the distance does) *)
Lemma distance_sound_cov_gen g anyd n : forall t s d,
  size t + size s <= n -> wf g t = true -> wf g s = true ->
  distance g anyd t s = Some d -> issub MaybeCov g s t = true.
Proof.
  induction n as [|n IH]; intros t s d Hn Wt Ws H; [pose proof (size_pos t); lia|].
  rewrite distance_unfold in H.
  destruct t as [| |c a|a|ts]; simpl in H.
  - apply issub_any_r.
  - discriminate.
  - destruct s as [| |c' a'|a'|ss]; try discriminate.
    + rewrite issub_unfold. reflexivity.
    + destruct (sp g c c') as [p|] eqn:Ep; [|discriminate].
      rewrite issub_unfold. simpl. unfold subcls. rewrite Ep. simpl.
      destruct (hg g c') as [k'|] eqn:E'; [|reflexivity].
      destruct (hg g c) as [k|] eqn:E; [|reflexivity].
      destruct (Nat.eqb k' k) eqn:Ek; [|reflexivity].
      apply Nat.eqb_eq in Ek. subst k'.
      pose proof (wf_inst_len _ _ _ _ Wt E) as La. pose proof (wf_inst_len _ _ _ _ Ws E') as La'.
      destruct (nonempty a && nonempty a') eqn:Ne.
      * destruct (sum_opt (map2 (distance g anyd) a a')) as [s0|] eqn:Es; [|discriminate].
        eapply sum_map2_forall2b; [congruence|exact Es|].
        intros x y Hx Hy Hd. destruct (distance g anyd x y) as [v|] eqn:Ev; [|congruence].
        rewrite (IH x y v); auto.
        -- apply In_size_le in Hx. apply In_size_le in Hy. simpl in Hn. lia.
        -- eapply wf_inst; [exact Wt|exact Hx].
        -- eapply wf_inst; [exact Ws|exact Hy].
      * destruct a as [|x a]; destruct a' as [|y a']; simpl in *; try reflexivity; try discriminate; lia.
    + destruct (min_opt_some _ _ H) as [d' Hd]. apply in_map_iff in Hd. destruct Hd as [e [Hd He]].
      rewrite issub_union_l by discriminate. simpl. apply existsb_exists. exists e. split; [exact He|].
      apply (IH (TInst c a) e d'); auto.
      * apply In_size_le in He. simpl in Hn. simpl. lia.
      * eapply wf_union; eauto.
  - destruct s as [| |c' a'|a'|ss]; try discriminate.
    destruct (Nat.eqb (length a) (length a')) eqn:El; [|discriminate]. apply Nat.eqb_eq in El.
    rewrite issub_unfold. simpl.
    eapply sum_map2_forall2b; [exact El|exact H|].
    intros x y Hx Hy Hd. destruct (distance g anyd x y) as [v|] eqn:Ev; [|congruence].
    apply (IH x y v); auto.
    + apply In_size_le in Hx. apply In_size_le in Hy. simpl in Hn. lia.
    + eapply wf_tuple; [exact Wt|exact Hx].
    + eapply wf_tuple; [exact Ws|exact Hy].
  - destruct (min_opt_some _ _ H) as [d' Hd]. apply in_map_iff in Hd. destruct Hd as [e [Hd He]].
    apply issub_union_r_intro with (n := size s) (e := e); auto.
    apply (IH e s d'); auto.
    + apply In_size_le in He. simpl in Hn. lia.
    + eapply wf_union; eauto.
Qed.

Lemma distance_defined_sound_cov g anyd t s d :
  wf g t = true -> wf g s = true ->
  distance g anyd t s = Some d -> is_maybe_subtype_cov g s t = true.
Proof. intros. eapply distance_sound_cov_gen with (n := size t + size s); eauto. Qed.

Lemma distance_defined_sound_partial g anyd t s d :
  wf g t = true -> wf g s = true -> hg_free g t = true ->
  distance g anyd t s = Some d -> is_maybe_subtype g s t = true.
Proof.
  intros Wt Ws Hf H. unfold is_maybe_subtype.
  rewrite <- (cov_eq_maybe g (size s + size t)); auto.
  eapply distance_defined_sound_cov; eauto.
Qed.

Lemma refl_ok_forall a x : forallb refl_ok a = true -> In x a -> refl_ok x = true.
Proof. intros H Hx. rewrite forallb_forall in H. auto. Qed.

Lemma distance_refl_gen g anyd n : forall t,
  size t <= n -> refl_ok t = true -> distance g anyd t t = Some 0%N.
Proof.
  induction n as [|n IH]; intros t Hn Hr; [pose proof (size_pos t); lia|].
  destruct t as [| |c a|a|ts]; try discriminate.
  - rewrite distance_unfold. simpl. rewrite sp_refl.
    destruct (nonempty a && nonempty a); [|reflexivity].
    rewrite sum_map2_diag; [reflexivity|].
    intros x Hx. apply IH.
    + apply In_size_le in Hx. simpl in Hn. lia.
    + simpl in Hr. eapply refl_ok_forall; eauto.
  - rewrite distance_unfold. simpl. rewrite Nat.eqb_refl.
    apply sum_map2_diag. intros x Hx. apply IH.
    + apply In_size_le in Hx. simpl in Hn. lia.
    + simpl in Hr. eapply refl_ok_forall; eauto.
  - simpl in Hr. apply existsb_exists in Hr. destruct Hr as [e [He Hr]].
    apply andb_true_iff in Hr. destruct Hr as [Hi Hr]. destruct e as [| |c a| |]; try discriminate.
    rewrite distance_unfold. simpl. apply min_opt_zero.
    apply in_map_iff. exists (TInst c a). split; [|exact He].
    rewrite distance_unfold. simpl. apply min_opt_zero.
    apply in_map_iff. exists (TInst c a). split; [|exact He].
    apply IH; [|exact Hr]. apply In_size_le in He. simpl in Hn. lia.
Qed.

Lemma distance_refl_zero g anyd t : refl_ok t = true -> distance g anyd t t = Some 0%N.
Proof. intro H. apply distance_refl_gen with (n := size t); auto. Qed.

(* ------------------------------------------------------------------------------------------ *)
(* H. what the faithful model refutes (design deviations, recorded as known findings) and
   non-vacuity examples.  Classes: 0 object, 1 str, 2 int, 3 list, 4 bool, 5 float, 6 K (user class
   below list). *)
Definition g_ex : graph :=
  {| nodes := [0; 1; 2; 3; 4; 5; 6]%N;
     edges := [(0, 1); (0, 2); (0, 3); (2, 4); (5, 2); (0, 5); (3, 6)]%N;
     hgs := [(3%N, 1)] |}.
Definition t_obj := TInst 0%N []. Definition t_str := TInst 1%N []. Definition t_int := TInst 2%N [].
Definition t_bool := TInst 4%N []. Definition t_float := TInst 5%N [].
Definition t_list (x : ty) := TInst 3%N [x].
Definition t_K := TInst 6%N [].

Example g_ex_premises : premises g_ex = true.
Proof. vm_compute. reflexivity. Qed.

(* str <: Any <: int, but not str <: int *)
Lemma subtype_trans_refuted :
  exists g l m r, premises g = true /\ wf g l = true /\ wf g m = true /\ wf g r = true /\
    is_subtype g l m = true /\ is_subtype g m r = true /\ is_subtype g l r = false.
Proof. exists g_ex, t_str, TAny, t_int. vm_compute. repeat split; reflexivity. Qed.

(* the middle type may hide the Any anywhere *)
Lemma subtype_trans_refuted_deep :
  exists g l m r, premises g = true /\ m <> TAny /\
    is_subtype g l m = true /\ is_subtype g m r = true /\ is_subtype g l r = false.
Proof.
  exists g_ex, (TTuple [t_str]), (TTuple [TAny]), (TTuple [t_int]).
  split; [vm_compute; reflexivity|]. split; [discriminate|]. vm_compute. repeat split; reflexivity.
Qed.

(* hypotheses of the transitivity theorem are satisfiable with all premises true, non-trivially:
   list[bool | int] <: list[int | bool] <: (list[int | bool] | str), and bool <: int <: float *)
Example subtype_trans_example :
  let l := t_list (TUnion [t_int; t_bool]) in
  let m := t_list (TUnion [t_bool; t_int]) in
  let r := TUnion [t_str; m] in
  graph_ok g_ex = true /\ hg_convexb g_ex = true /\ wf g_ex l = true /\ wf g_ex m = true /\
  wf g_ex r = true /\ any_free m = true /\ is_subtype g_ex l m = true /\ is_subtype g_ex m r = true /\
  is_subtype g_ex t_bool t_int = true /\ is_subtype g_ex t_int t_float = true /\
  is_subtype g_ex t_K (t_list TAny) = true.
Proof. vm_compute. repeat split; reflexivity. Qed.

(* subtype_distance(list[object], list[int]) = 1 although list[int] is no maybe-subtype of
   list[object] (hard-coded generics are invariant for is_maybe_subtype, covariant for the distance) *)
Lemma distance_sound_refuted :
  exists g t s d, premises g = true /\ wf g t = true /\ wf g s = true /\
    distance g 30%N t s = Some d /\ is_maybe_subtype g s t = false.
Proof. exists g_ex, (t_list t_obj), (t_list t_int), 1%N. vm_compute. repeat split; reflexivity. Qed.

Example distance_sound_example :
  wf g_ex (TUnion [t_obj; TNone]) = true /\ hg_free g_ex (TUnion [t_obj; TNone]) = true /\
  distance g_ex 30%N (TUnion [t_obj; TNone]) (TTuple [t_int]) = None /\
  distance g_ex 30%N (TUnion [t_obj; TNone]) (TUnion [t_bool; t_str]) = Some 1%N /\
  distance g_ex 30%N (t_list t_float) t_K = Some 1%N /\
  distance g_ex 30%N (t_list t_float) (t_list t_bool) = Some 2%N.
Proof. vm_compute. repeat split; reflexivity. Qed.

(* identical types at non-zero or undefined distance: None, Any, a union of tuples *)
Lemma distance_refl_refuted :
  distance g_ex 30%N TNone TNone = None /\ distance g_ex 30%N TAny TAny = Some 30%N /\
  distance g_ex 30%N (t_list TAny) (t_list TAny) = Some 30%N /\
  distance g_ex 30%N (TUnion [TTuple [t_int]; TTuple [t_str]]) (TUnion [TTuple [t_int]; TTuple [t_str]]) = None.
Proof. vm_compute. repeat split; reflexivity. Qed.

Example distance_refl_example :
  refl_ok (TUnion [TNone; TTuple [t_int]]) = false /\
  refl_ok (TUnion [TNone; t_list (TTuple [t_int; t_str])]) = true /\
  distance g_ex 30%N (TUnion [TNone; t_list (TTuple [t_int; t_str])])
                     (TUnion [TNone; t_list (TTuple [t_int; t_str])]) = Some 0%N.
Proof. vm_compute. repeat split; reflexivity. Qed.

Lemma subclass_is_reach g c d :
  graph_ok g = true -> In d (nodes g) ->
  (subcls g c d = true <-> clos_refl_trans cls (fun x y => In (x, y) (edges g)) d c).
Proof. intros Hok Hd. rewrite <- path_clos. exact (subcls_iff_path g c d Hok Hd). Qed.

Lemma path_length_sound g a b d : sp g a b = Some d -> subcls g b a = true.
Proof. intro H. unfold subcls. rewrite H. reflexivity. Qed.

(* ------------------------------------------------------------------------------------------ *)
(* I. the set-valued queries are determined by is_subclass *)
Lemma subclasses_in_spec g u c d : In d (subclasses_in g u c) <-> In d u /\ subcls g d c = true.
Proof. unfold subclasses_in. apply (filter_In (fun x => subcls g x c)). Qed.

Lemma superclasses_in_spec g u c d : In d (superclasses_in g u c) <-> In d u /\ subcls g c d = true.
Proof. unfold superclasses_in. apply (filter_In (fun x => subcls g c x)). Qed.

Lemma outside_in_spec g u ks d :
  In d (outside_in g u ks) <-> In d u /\ forall k, In k ks -> subcls g d k = false.
Proof.
  unfold outside_in. rewrite filter_In. split; intros [Hu H]; split; try exact Hu.
  - intros k Hk. apply negb_true_iff in H. destruct (subcls g d k) eqn:E; [|reflexivity].
    assert (X : existsb (fun k0 => subcls g d k0) ks = true) by (apply existsb_exists; exists k; auto).
    congruence.
  - apply negb_true_iff. destruct (existsb (fun k => subcls g d k) ks) eqn:E; [|reflexivity].
    apply existsb_exists in E. destruct E as [k [Hk E]]. rewrite (H k Hk) in E. discriminate.
Qed.

(* a class outside of ks is no subclass of the first of them - in particular asking for the classes
   outside of several hierarchies says nothing new about the first one *)
Lemma outside_disjoint g u ks k d :
  In k ks -> In d (outside_in g u ks) -> ~ In d (subclasses_in g u k).
Proof.
  intros Hk Ho Hs. apply outside_in_spec in Ho. apply subclasses_in_spec in Hs.
  destruct Ho as [_ Ho]. destruct Hs as [_ Hs]. rewrite (Ho k Hk) in Hs. discriminate.
Qed.
