(* C02 — proofs. *)
From Coq Require Import List ZArith Bool Lia.
From Verif Require Import Models.C02.
Import ListNotations. Import C02.

Lemma oline_eqb_eq : forall a b, oline_eqb a b = true -> a = b.
Proof.
  intros [x|] [y|] H; simpl in H; try discriminate; try reflexivity.
  apply Z.eqb_eq in H. subst. reflexivity.
Qed.

(* Generalised invariant: [last] is the line for which the most recent probe of this block fired. *)
Lemma lines_exact_gen : forall ex blk last k,
  let pre := firstn k (instrument ex last blk) in
  ends_on_probe pre = false ->
  (forall z, In z (fired pre) -> In z (lines_of ex (executed_instrs pre))) /\
  (forall z, In z (lines_of ex (executed_instrs pre)) -> In z (fired pre) \/ last = Some z).
Proof.
  intros ex blk. induction blk as [|e r IH]; intros last k pre Hend.
  - subst pre. simpl. rewrite firstn_nil. simpl. split; intros z H; contradiction.
  - destruct k as [|k]; [subst pre; simpl; split; intros z H; contradiction|].
    destruct e as [i|p].
    + cbn [instrument] in pre.
      destruct (excluded ex (line i)) eqn:Eex.
      * (* excluded: passed over *)
        subst pre. cbn [firstn] in *. cbn [ends_on_probe] in Hend.
        destruct (IH last k Hend) as [H1 H2].
        cbn [fired executed_instrs lines_of]. unfold coverable. rewrite Eex. cbn [negb andb].
        destruct (line i); split; assumption.
      * destruct (probe_here i last) eqn:Ep.
        -- (* a probe is placed *)
           subst pre. cbn [firstn] in *.
           destruct k as [|k]; [cbn in Hend; discriminate|].
           cbn [firstn] in *. cbn [ends_on_probe] in Hend.
           destruct (IH (line i) k Hend) as [H1 H2].
           unfold probe_here in Ep. destruct (line i) as [z0|] eqn:El; [|discriminate].
           apply andb_prop in Ep. destruct Ep as [_ Ens]. apply negb_true_iff in Ens.
           cbn [fired executed_instrs lines_of]. unfold coverable. rewrite El, Eex, Ens. cbn [negb andb].
           split; intros z Hz.
           ++ destruct Hz as [<-|Hz]; [left; reflexivity|]. right. apply H1. exact Hz.
           ++ destruct Hz as [<-|Hz]; [left; left; reflexivity|].
              destruct (H2 z Hz) as [Hf|Hl]; [left; right; exact Hf|]. injection Hl as <-. left. left. reflexivity.
        -- (* no probe: no line, same line as the last probe of this block, or RESUME/END_FOR *)
           subst pre. cbn [firstn] in *. cbn [ends_on_probe] in Hend.
           destruct (IH last k Hend) as [H1 H2].
           cbn [fired executed_instrs lines_of]. unfold coverable. rewrite Eex. cbn [negb andb].
           unfold probe_here in Ep.
           destruct (line i) as [z0|] eqn:El; [|split; assumption].
           destruct (skipped (cls i)) eqn:Esk; cbn [negb]; [split; assumption|].
           cbn [negb] in Ep. rewrite andb_true_r in Ep. apply negb_false_iff in Ep.
           apply oline_eqb_eq in Ep.
           split; intros z Hz.
           ++ right. apply H1. exact Hz.
           ++ destruct Hz as [<-|Hz]; [right; symmetry; exact Ep|]. apply H2. exact Hz.
    + cbn [instrument] in pre. subst pre. cbn [firstn] in *. cbn [ends_on_probe] in Hend.
      destruct (IH last k Hend) as [H1 H2]. cbn [fired executed_instrs]. split; assumption.
Qed.

(* lines_exact: for every block, every exclusion set and every probe-complete prefix of the
   instrumented block, the lines reported = the coverable lines of the executed instructions *)
Lemma lines_exact : forall ex blk k,
  let pre := firstn k (instrument_block ex blk) in
  ends_on_probe pre = false ->
  forall z, In z (fired pre) <-> In z (lines_of ex (executed_instrs pre)).
Proof.
  intros ex blk k pre Hend z. destruct (lines_exact_gen ex blk None k Hend) as [H1 H2].
  split; [apply H1|]. intro H. destruct (H2 z H) as [Hf|Hl]; [exact Hf|discriminate].
Qed.

(* even when the prefix ends right after a probe, nothing foreign is reported: the line belongs to
   the next instruction of the block *)
Lemma fired_lines_belong_to_block : forall ex blk last z,
  In z (fired (instrument ex last blk)) -> exists i, In i (oinstrs blk) /\ line i = Some z /\ coverable ex i = true.
Proof.
  intros ex blk. induction blk as [|e r IH]; intros last z H; simpl in H; [contradiction|].
  destruct e as [i|p].
  - destruct (excluded ex (line i)) eqn:Eex.
    + simpl in H. destruct (IH _ _ H) as [j [Hj Hl]]. exists j. split; [right; exact Hj|exact Hl].
    + destruct (probe_here i last) eqn:Ep.
      * unfold probe_here in Ep. destruct (line i) as [z0|] eqn:El; [|discriminate].
        apply andb_prop in Ep. destruct Ep as [_ Ens]. simpl in H.
        destruct H as [<-|H].
        -- exists i. split; [left; reflexivity|]. split; [exact El|]. unfold coverable. rewrite El, Eex, Ens. reflexivity.
        -- destruct (IH _ _ H) as [j [Hj Hl]]. exists j. split; [right; exact Hj|exact Hl].
      * simpl in H. destruct (IH _ _ H) as [j [Hj Hl]]. exists j. split; [right; exact Hj|exact Hl].
  - simpl in H. destruct (IH _ _ H) as [j [Hj Hl]]. exists j. split; [exact Hj|exact Hl].
Qed.

(* the instrumentation only adds probes: deleting them gives back the original raw block *)
Lemma erase_instrument : forall ex blk last, erase (instrument ex last blk) = blk.
Proof.
  intros ex blk. induction blk as [|e r IH]; intro last; simpl; [reflexivity|].
  destruct e as [i|p]; simpl.
  - destruct (excluded ex (line i)); simpl; [rewrite IH; reflexivity|].
    destruct (probe_here i last); simpl; rewrite IH; reflexivity.
  - rewrite IH. reflexivity.
Qed.

(* every probe sits immediately in front of an instruction that carries its line *)
Lemma probe_before_its_line : forall ex blk last l1 l2 pl,
  instrument ex last blk = l1 ++ Probe pl :: l2 -> exists i l3, l2 = II i :: l3 /\ line i = pl.
Proof.
  intros ex blk. induction blk as [|e r IH]; intros last l1 l2 pl H; simpl in H.
  - destruct l1; discriminate.
  - destruct e as [i|p].
    + destruct (excluded ex (line i)).
      * destruct l1 as [|x l1]; [discriminate|]. injection H as _ H. apply (IH _ _ _ _ H).
      * destruct (probe_here i last).
        -- destruct l1 as [|x l1].
           ++ injection H as <- <-. eauto.
           ++ injection H as _ H. destruct l1 as [|y l1]; [discriminate|]. injection H as _ H. apply (IH _ _ _ _ H).
        -- destruct l1 as [|x l1]; [discriminate|]. injection H as _ H. apply (IH _ _ _ _ H).
    + destruct l1 as [|x l1]; [discriminate|]. injection H as _ H. apply (IH _ _ _ _ H).
Qed.

(* lifting to executions: any sequence of probe-complete block prefixes *)
Definition is_prefix_of_block (ex : list Z) (bs : list (list oelem)) (pre : list ielem) : Prop :=
  exists blk k, In blk bs /\ pre = firstn k (instrument_block ex blk) /\ ends_on_probe pre = false.

Lemma lines_exact_run : forall ex bs (run : list (list ielem)),
  Forall (is_prefix_of_block ex bs) run ->
  forall z, In z (flat_map fired run) <-> In z (flat_map (fun p => lines_of ex (executed_instrs p)) run).
Proof.
  intros ex bs run H z. induction H as [|p r Hp Hr IH]; simpl; [tauto|].
  destruct Hp as [blk [k [_ [-> Hend]]]].
  rewrite !in_app_iff, IH. rewrite (lines_exact ex blk k Hend z). tauto.
Qed.

Lemma fired_firstn_incl : forall l k z, In z (fired (firstn k l)) -> In z (fired l).
Proof.
  intros l. induction l as [|e r IH]; intros k z H; destruct k; simpl in *; try contradiction.
  destruct e as [i|p|[z0|]]; simpl in *; try (apply (IH k z H)).
  destruct H as [<-|H]; [left; reflexivity|right; apply (IH k z H)].
Qed.

Lemma fired_registered : forall (bs : list (list ielem)) b k z,
  In b bs -> In z (fired (firstn k b)) -> In z (registry bs).
Proof.
  intros bs. induction bs as [|c r IH]; intros b k z Hb Hz; [contradiction|].
  simpl. apply in_or_app. destruct Hb as [->|Hb].
  - left. apply (fired_firstn_incl _ _ _ Hz).
  - right. apply (IH b k z Hb Hz).
Qed.

(* non-vacuity *)
Example ex_block :
  instrument_block [7%Z]
    [OI {| cls := Resume; line := Some 1%Z |}; OP 0; OI {| cls := Other; line := Some 2%Z |};
     OI {| cls := Other; line := Some 2%Z |}; OI {| cls := Other; line := Some 7%Z |};
     OI {| cls := EndFor; line := Some 3%Z |}; OI {| cls := Other; line := Some 3%Z |}]
  = [II {| cls := Resume; line := Some 1%Z |}; IP 0; Probe (Some 2%Z); II {| cls := Other; line := Some 2%Z |};
     II {| cls := Other; line := Some 2%Z |}; II {| cls := Other; line := Some 7%Z |};
     II {| cls := EndFor; line := Some 3%Z |}; Probe (Some 3%Z); II {| cls := Other; line := Some 3%Z |}].
Proof. reflexivity. Qed.
