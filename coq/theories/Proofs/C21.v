(* C21 — proofs about the model in Models/C21.v *)
From Coq Require Import List ZArith Bool QArith Lia.
From Verif Require Import Models.C21.
Import ListNotations. Import C21.
Open Scope Z_scope.

(* ------------------------------------------------------------------------------------------ *)
(* basic facts                                                                                 *)
Lemma memZ_In x l : memZ x l = true <-> In x l.
Proof.
  unfold memZ. rewrite existsb_exists. split.
  - intros [y [Hy He]]. apply Z.eqb_eq in He. subst; auto.
  - intros H. exists x. split; auto. apply Z.eqb_refl.
Qed.

Lemma memZ_false x l : memZ x l = false <-> ~ In x l.
Proof. rewrite <- memZ_In. destruct (memZ x l); split; congruence. Qed.

Lemma key_eqb_eq a b : key_eqb a b = true <-> a = b.
Proof.
  destruct a as [a1 a2], b as [b1 b2]; unfold key_eqb; cbn [fst snd].
  rewrite andb_true_iff, !Z.eqb_eq. split.
  - intros [H1 H2]; subst; auto.
  - intros H; inversion H; auto.
Qed.

Lemma key_eqb_refl a : key_eqb a a = true.
Proof. apply key_eqb_eq; reflexivity. Qed.

Lemma key_eqb_false a b : key_eqb a b = false <-> a <> b.
Proof. rewrite <- key_eqb_eq. destruct (key_eqb a b); split; congruence. Qed.

Lemma memK_In k l : memK k l = true <-> In k l.
Proof.
  unfold memK. rewrite existsb_exists. split.
  - intros [y [Hy He]]. apply key_eqb_eq in He. subst; auto.
  - intros H. exists k. split; auto. apply key_eqb_refl.
Qed.

Lemma subsetb_incl a b : subsetb a b = true <-> incl a b.
Proof.
  unfold subsetb. rewrite forallb_forall. unfold incl. split; intros H x Hx.
  - apply memZ_In; auto.
  - apply memZ_In; auto.
Qed.

Lemma forallb_false_exists {A} (f : A -> bool) l :
  forallb f l = false -> exists x, In x l /\ f x = false.
Proof.
  induction l as [|x r IH]; cbn [forallb]; [discriminate|].
  destruct (f x) eqn:Hx; cbn [andb].
  - intros H. destruct (IH H) as [y [Hy Hf]]. exists y; split; [right|]; auto.
  - intros _. exists x; split; [left|]; auto.
Qed.

Lemma dedup_In x l : In x (dedup l) <-> In x l.
Proof.
  induction l as [|y r IH]; cbn [dedup]; [tauto|].
  destruct (memZ y r) eqn:Hm.
  - rewrite IH. apply memZ_In in Hm. split; [right; auto|].
    intros [->|H]; auto.
  - cbn [In]. rewrite IH. tauto.
Qed.

Lemma dedup_NoDup l : NoDup (dedup l).
Proof.
  induction l as [|y r IH]; cbn [dedup]; [constructor|].
  destruct (memZ y r) eqn:Hm; auto.
  constructor; auto. rewrite dedup_In. apply memZ_false; auto.
Qed.

Lemma In_insert e x l : In x (insert e l) <-> x = e \/ In x l.
Proof.
  induction l as [|y r IH]; cbn [insert].
  - cbn [In]. split; intros [H|H]; auto.
  - destruct (key_ltb (fst e) (fst y)); cbn [In]; [|rewrite IH]; intuition auto.
Qed.

Lemma In_sortk x l : In x (sortk l) <-> In x l.
Proof.
  induction l as [|y r IH]; cbn [sortk]; [tauto|].
  rewrite In_insert, IH. cbn [In]. intuition auto.
Qed.

Lemma In_universe m km : In m (universe km) <-> exists e, In e km /\ In m (snd e).
Proof.
  unfold universe. rewrite dedup_In, in_concat. split.
  - intros [s [Hs Hm]]. apply in_map_iff in Hs. destruct Hs as [e [He Hin]]. subst. eauto.
  - intros [e [He Hm]]. exists (snd e). split; auto. apply in_map; auto.
Qed.

Lemma In_remove_key e k l : In e (remove_key k l) <-> In e l /\ fst e <> k.
Proof.
  unfold remove_key. rewrite filter_In, negb_true_iff, key_eqb_false. tauto.
Qed.

Lemma In_minus u unc s : In u (minus unc s) <-> In u unc /\ ~ In u s.
Proof. unfold minus. rewrite filter_In, negb_true_iff, memZ_false. tauto. Qed.

Lemma filter_split_length {A} (f : A -> bool) l :
  (length (filter f l) + length (filter (fun x => negb (f x)) l) = length l)%nat.
Proof.
  induction l as [|x r IH]; cbn [filter]; auto.
  destruct (f x); cbn [negb length]; lia.
Qed.

Lemma cover_pos_iff s unc : (0 < cover s unc)%nat <-> exists u, In u unc /\ In u s.
Proof.
  unfold cover. split.
  - intros H. destruct (filter (fun u => memZ u s) unc) as [|u r] eqn:Hf; [cbn in H; lia|].
    assert (Hu : In u (filter (fun u => memZ u s) unc)) by (rewrite Hf; left; auto).
    apply filter_In in Hu. destruct Hu as [Hu Hm]. apply memZ_In in Hm. eauto.
  - intros [u [Hu Hs]].
    assert (Hin : In u (filter (fun u => memZ u s) unc)) by (apply filter_In; split; auto; apply memZ_In; auto).
    destruct (filter (fun u => memZ u s) unc); [destruct Hin|cbn; lia].
Qed.

Lemma minus_length unc s : (length (minus unc s) + cover s unc = length unc)%nat.
Proof. unfold minus, cover. pose proof (filter_split_length (fun u => memZ u s) unc). lia. Qed.

(* keys of a dict determine the entry *)
Definition functional (l : kmap) : Prop :=
  forall e e', In e l -> In e' l -> fst e = fst e' -> e = e'.

Lemma nodup_keys_functional km : NoDup (map fst km) -> functional km.
Proof.
  induction km as [|x r IH]; intros Hnd e e' He He' Hk; [destruct He|].
  cbn [map] in Hnd. inversion Hnd as [|? ? Hnotin Hnd']; subst.
  destruct He as [->|He], He' as [->|He']; auto.
  - exfalso. apply Hnotin. rewrite Hk. apply in_map; auto.
  - exfalso. apply Hnotin. rewrite <- Hk. apply in_map; auto.
  - apply IH; auto.
Qed.

Lemma functional_incl l l' : functional l -> incl l' l -> functional l'.
Proof. intros F Hi e e' He He'. apply F; auto. Qed.

(* ------------------------------------------------------------------------------------------ *)
(* the inner loop                                                                              *)
Lemma best_some cands unc : forall bk bc e,
  best cands unc bk bc = Some e ->
  bk = Some e \/ (In e cands /\ (bc < cover (snd e) unc)%nat).
Proof.
  induction cands as [|x r IH]; intros bk bc e H; cbn [best] in H; [left; auto|].
  destruct (bc <? cover (snd x) unc)%nat eqn:Hlt.
  - apply Nat.ltb_lt in Hlt. apply IH in H. destruct H as [H|[Hin Hc]].
    + inversion H; subst. right. split; [left; auto|auto].
    + right. split; [right; auto|lia].
  - apply IH in H. destruct H as [H|[Hin Hc]]; [left; auto|right; split; [right; auto|auto]].
Qed.

Lemma best_none cands unc : forall bk bc,
  best cands unc bk bc = None ->
  bk = None /\ forall e, In e cands -> (cover (snd e) unc <= bc)%nat.
Proof.
  induction cands as [|x r IH]; intros bk bc H; cbn [best] in H.
  - split; auto. intros e [].
  - destruct (bc <? cover (snd x) unc)%nat eqn:Hlt.
    + apply IH in H. destruct H as [H _]. discriminate.
    + apply Nat.ltb_ge in Hlt. apply IH in H. destruct H as [Hb Hall]. split; auto.
      intros e [<-|He]; auto.
Qed.

(* Termination of `while uncovered:` — every iteration that does not leave the loop strictly
   decreases |uncovered|. *)
Lemma gstep_decreases st st' : gstep st = Some st' -> (gmeasure st' < gmeasure st)%nat.
Proof.
  unfold gstep, gmeasure. destruct (g_unc st) as [|u0 ur] eqn:Hunc; [discriminate|].
  remember (u0 :: ur) as unc eqn:Hu.
  destruct (best (g_cands st) unc None 0) as [e|] eqn:Hb; [|discriminate].
  intros H; inversion H; subst st'; clear H. unfold g_unc at 1.
  apply best_some in Hb. destruct Hb as [Hb|[_ Hc]]; [discriminate|].
  pose proof (minus_length unc (snd e)). lia.
Qed.

Lemma giter_enough_fuel : forall fuel st, (gmeasure st <= fuel)%nat -> exists st', giter fuel st = Some st'.
Proof.
  induction fuel as [|f IH]; intros st Hm.
  - cbn [giter]. destruct (gstep st) as [st'|] eqn:Hs; [|eauto].
    apply gstep_decreases in Hs. lia.
  - cbn [giter]. destruct (gstep st) as [st'|] eqn:Hs; [|eauto].
    apply gstep_decreases in Hs. apply IH. lia.
Qed.

Lemma giter_more_fuel : forall fuel st st', giter fuel st = Some st' -> forall fuel', (fuel <= fuel')%nat -> giter fuel' st = Some st'.
Proof.
  induction fuel as [|f IH]; intros st st' H fuel' Hle.
  - cbn [giter] in H. destruct fuel'; cbn [giter]; destruct (gstep st); auto; discriminate.
  - cbn [giter] in H. destruct fuel' as [|f']; [lia|]. cbn [giter].
    destruct (gstep st); auto. apply IH with (fuel' := f') in H; auto. lia.
Qed.

(* ------------------------------------------------------------------------------------------ *)
(* invariant of the greedy loop                                                                *)
Record Inv (km : kmap) (st : gstate) : Prop := {
  inv_keep : forall e, In e (g_keep st) -> In e km /\ snd e <> [];
  inv_cands : forall e, In e (g_cands st) -> In e km /\ snd e <> [];
  inv_cov : forall m, (exists e, In e km /\ In m (snd e)) ->
                      In m (g_unc st) \/ exists e, In e (g_keep st) /\ In m (snd e);
  inv_unc : forall m, In m (g_unc st) -> exists e, In e (g_cands st) /\ In m (snd e)
}.

Lemma nonemptyb_true {A} (l : list A) : nonemptyb l = true <-> l <> [].
Proof. destruct l; cbn; split; congruence. Qed.

Definition init_state (km : kmap) : gstate :=
  {| g_cands := sortk (filter (fun e => nonemptyb (snd e)) km); g_unc := universe km; g_keep := [] |}.

Lemma Inv_init km : Inv km (init_state km).
Proof.
  constructor; cbn [init_state g_keep g_cands g_unc].
  - intros e [].
  - intros e He. apply In_sortk, filter_In in He. destruct He as [He Hn]. split; auto.
    apply nonemptyb_true; auto.
  - intros m Hm. left. apply In_universe; auto.
  - intros m Hm. apply In_universe in Hm. destruct Hm as [e [He Hin]]. exists e. split; auto.
    apply In_sortk, filter_In. split; auto. cbn beta. apply nonemptyb_true. intros Hn. unfold mset in *. rewrite Hn in Hin. destruct Hin.
Qed.

Lemma Inv_step km st st' : functional km -> Inv km st -> gstep st = Some st' -> Inv km st'.
Proof.
  intros F I H. unfold gstep in H.
  destruct (g_unc st) as [|u0 ur] eqn:Hunc; [discriminate|].
  remember (u0 :: ur) as unc eqn:Hu0.
  destruct (best (g_cands st) unc None 0) as [e|] eqn:Hb; [|discriminate].
  inversion H; subst st'; clear H.
  apply best_some in Hb. destruct Hb as [Hb|[Hin Hc]]; [discriminate|].
  destruct (inv_cands _ _ I e Hin) as [Hekm Hene].
  constructor; cbn [g_keep g_cands g_unc].
  - intros x [<-|Hx]; auto. apply (inv_keep _ _ I); auto.
  - intros x Hx. apply In_remove_key in Hx. destruct Hx as [Hx _]. apply (inv_cands _ _ I); auto.
  - intros m Hm. destruct (inv_cov _ _ I m Hm) as [Hu|[x [Hx Hmx]]].
    + rewrite Hunc in Hu. destruct (memZ m (snd e)) eqn:Hme.
      * right. exists e. split; [left; auto|apply memZ_In; auto].
      * left. apply In_minus. split; auto. apply memZ_false; auto.
    + right. exists x. split; [right; auto|auto].
  - intros m Hm. apply In_minus in Hm. destruct Hm as [Hu Hns].
    rewrite <- Hunc in Hu. destruct (inv_unc _ _ I m Hu) as [x [Hx Hmx]].
    exists x. split; auto. apply In_remove_key. split; auto.
    intros Hk. destruct (inv_cands _ _ I x Hx) as [Hxkm _].
    assert (x = e) by (apply F; auto). subst. contradiction.
Qed.

Lemma giter_Inv km : functional km -> forall fuel st st',
  Inv km st -> giter fuel st = Some st' -> Inv km st' /\ gstep st' = None.
Proof.
  intros F. induction fuel as [|f IH]; intros st st' I H; cbn [giter] in H.
  - destruct (gstep st) eqn:Hs; [discriminate|]. inversion H; subst. auto.
  - destruct (gstep st) as [st1|] eqn:Hs.
    + apply IH with (st := st1); auto. eapply Inv_step; eauto.
    + inversion H; subst. auto.
Qed.

(* the loop is only ever left with nothing uncovered: `best_key is None: break` is dead code *)
Lemma exit_uncovered_empty km st : Inv km st -> gstep st = None -> g_unc st = [].
Proof.
  intros I H. unfold gstep in H. destruct (g_unc st) as [|u0 ur] eqn:Hunc; auto.
  destruct (best (g_cands st) (u0 :: ur) None 0) as [e|] eqn:Hb; [discriminate|].
  apply best_none in Hb. destruct Hb as [_ Hall].
  destruct (inv_unc _ _ I u0) as [x [Hx Hm]]; [rewrite Hunc; left; auto|].
  specialize (Hall x Hx).
  assert (0 < cover (snd x) (u0 :: ur))%nat by (apply cover_pos_iff; exists u0; split; [left|]; auto).
  lia.
Qed.

(* ------------------------------------------------------------------------------------------ *)
(* pruning                                                                                     *)
Lemma lookup_In k l s : lookup k l = Some s -> In (k, s) l.
Proof.
  induction l as [|e r IH]; cbn [lookup]; [discriminate|].
  destruct (key_eqb (fst e) k) eqn:He.
  - intros H; inversion H; subst. apply key_eqb_eq in He. left. destruct e; cbn in *; subst; auto.
  - intros H. right; auto.
Qed.

Lemma lookup_None k l : lookup k l = None -> forall e, In e l -> fst e <> k.
Proof.
  induction l as [|x r IH]; cbn [lookup]; intros H e He; [destruct He|].
  destruct (key_eqb (fst x) k) eqn:Hx; [discriminate|].
  destruct He as [<-|He]; [apply key_eqb_false; auto|auto].
Qed.

Lemma lookup_functional l e : functional l -> In e l -> lookup (fst e) l = Some (snd e).
Proof.
  intros F He. destruct (lookup (fst e) l) as [s|] eqn:Hl.
  - apply lookup_In in Hl. assert (H : (fst e, s) = e) by (apply F; auto). rewrite <- H. reflexivity.
  - exfalso. eapply lookup_None; eauto.
Qed.

Lemma lookup_remove_key k k0 l s : lookup k (remove_key k0 l) = Some s -> lookup k l = Some s.
Proof.
  induction l as [|e r IH]; cbn [remove_key filter lookup]; [discriminate|].
  fold (remove_key k0 r).
  destruct (key_eqb (fst e) k0) eqn:H0; cbn [negb].
  - intros H. destruct (key_eqb (fst e) k) eqn:Hk.
    + exfalso. apply key_eqb_eq in H0, Hk. subst.
      apply lookup_In, In_remove_key in H. destruct H as [_ H]. cbn in H. congruence.
    + auto.
  - cbn [lookup]. destruct (key_eqb (fst e) k); auto.
Qed.

Lemma In_others m keep k : In m (others keep k) <-> exists e, In e keep /\ fst e <> k /\ In m (snd e).
Proof.
  unfold others. rewrite in_concat. split.
  - intros [s [Hs Hm]]. apply in_map_iff in Hs. destruct Hs as [e [<- He]].
    apply In_remove_key in He. destruct He. eauto.
  - intros [e [He [Hk Hm]]]. exists (snd e). split; auto. apply in_map. apply In_remove_key; auto.
Qed.

Lemma prune_incl : forall order keep, incl (prune order keep) keep.
Proof.
  induction order as [|k r IH]; intros keep; cbn [prune]; [apply incl_refl|].
  destruct (lookup k keep) as [s|]; [|apply IH].
  destruct (subsetb s (others keep k)); [|apply IH].
  intros e He. apply IH in He. apply In_remove_key in He. tauto.
Qed.

Definition covered (keep : kmap) (m : Z) : Prop := exists e, In e keep /\ In m (snd e).

Lemma prune_cover : forall order keep, functional keep ->
  forall m, covered keep m -> covered (prune order keep) m.
Proof.
  induction order as [|k r IH]; intros keep F m Hm; cbn [prune]; auto.
  destruct (lookup k keep) as [s|] eqn:Hl; [|apply IH; auto].
  destruct (subsetb s (others keep k)) eqn:Hs; [|apply IH; auto].
  apply IH.
  - eapply functional_incl; eauto. intros e He. apply In_remove_key in He. tauto.
  - destruct Hm as [e [He Hme]]. destruct (key_eqb (fst e) k) eqn:Hk.
    + apply key_eqb_eq in Hk. apply lookup_In in Hl.
      assert (e = (k, s)) by (apply F; auto). subst e. cbn [snd] in Hme.
      apply subsetb_incl in Hs. apply Hs in Hme. apply In_others in Hme.
      destruct Hme as [e' [He' [Hk' Hm']]]. exists e'. split; auto. apply In_remove_key; auto.
    + apply key_eqb_false in Hk. exists e. split; auto. apply In_remove_key; auto.
Qed.

Definition irr (keep : kmap) (k : key) : Prop :=
  forall s, lookup k keep = Some s -> subsetb s (others keep k) = false.

Lemma irr_remove keep k k0 : irr keep k -> irr (remove_key k0 keep) k.
Proof.
  intros H s Hl. apply lookup_remove_key in Hl. specialize (H s Hl).
  destruct (subsetb s (others (remove_key k0 keep) k)) eqn:Hs; auto.
  rewrite <- H. symmetry. apply subsetb_incl. apply subsetb_incl in Hs.
  intros m Hm. apply Hs in Hm. apply In_others in Hm. destruct Hm as [e [He [Hk Hme]]].
  apply In_remove_key in He. apply In_others. exists e. tauto.
Qed.

Lemma prune_irr : forall order keep (P : list key),
  (forall k, In k P -> irr keep k) ->
  forall k, In k P \/ In k order -> irr (prune order keep) k.
Proof.
  induction order as [|k0 r IH]; intros keep P HP k Hk; cbn [prune].
  - destruct Hk as [Hk|[]]. auto.
  - assert (Hk' : In k (k0 :: P) \/ In k r) by (cbn [In]; cbn [In] in Hk; tauto).
    destruct (lookup k0 keep) as [s|] eqn:Hl.
    + destruct (subsetb s (others keep k0)) eqn:Hs.
      * apply IH with (P := k0 :: P); auto. intros k1 [<-|H1].
        -- intros s1 Hl1. apply lookup_In, In_remove_key in Hl1. cbn in Hl1. tauto.
        -- apply irr_remove; auto.
      * apply IH with (P := k0 :: P); auto. intros k1 [<-|H1]; auto.
        intros s1 Hl1. congruence.
    + apply IH with (P := k0 :: P); auto. intros k1 [<-|H1]; auto.
      intros s1 Hl1. congruence.
Qed.

(* ------------------------------------------------------------------------------------------ *)
(* the selection                                                                               *)
Lemma select_full_total km : exists ks, select_full km = Some ks.
Proof.
  unfold select_full.
  destruct (giter_enough_fuel (length (universe km)) (init_state km)) as [st Hst].
  - unfold gmeasure, init_state; cbn [g_unc]; lia.
  - unfold init_state in Hst. rewrite Hst. eauto.
Qed.

Lemma select_total km : exists ks, select km = Some ks.
Proof. unfold select. destruct (select_full_total km) as [ks ->]. cbn. eauto. Qed.

(* more fuel never changes the result: the fuel is not what stops the loop *)
Lemma select_fuel_irrelevant km fuel st :
  (length (universe km) <= fuel)%nat ->
  giter (length (universe km)) (init_state km) = Some st -> giter fuel (init_state km) = Some st.
Proof. intros Hle H. eapply giter_more_fuel; eauto. Qed.

Section Select.
  Variable km : kmap.
  Hypothesis F : functional km.      (* a dict: the key determines the entry *)
  Variable ks : kmap.
  Hypothesis Hsel : select_full km = Some ks.

  Lemma select_parts : exists st,
    giter (length (universe km)) (init_state km) = Some st /\
    ks = sortk (prune (rev (map fst (sortk (g_keep st)))) (g_keep st)).
  Proof.
    unfold select_full in Hsel. fold (init_state km) in Hsel.
    destruct (giter (length (universe km)) (init_state km)) as [st|] eqn:Hg; [|discriminate].
    exists st. split; auto. inversion Hsel; auto.
  Qed.

  Lemma select_full_subset : forall e, In e ks -> In e km /\ snd e <> [].
  Proof.
    destruct select_parts as [st [Hg ->]]. intros e He.
    apply In_sortk, prune_incl in He.
    destruct (giter_Inv km F _ _ _ (Inv_init km) Hg) as [I _].
    apply (inv_keep _ _ I); auto.
  Qed.

  Lemma select_full_covers : forall m,
    (exists e, In e km /\ In m (snd e)) <-> (exists e, In e ks /\ In m (snd e)).
  Proof.
    intros m. split.
    - intros Hm. destruct select_parts as [st [Hg ->]].
      destruct (giter_Inv km F _ _ _ (Inv_init km) Hg) as [I Hexit].
      pose proof (exit_uncovered_empty _ _ I Hexit) as Hemp.
      destruct (inv_cov _ _ I m Hm) as [Hu|Hc]; [rewrite Hemp in Hu; destruct Hu|].
      assert (Fk : functional (g_keep st)).
      { eapply functional_incl; [exact F|]. intros e He. apply (inv_keep _ _ I); auto. }
      destruct (prune_cover (rev (map fst (sortk (g_keep st)))) (g_keep st) Fk m Hc) as [e [He Hme]].
      exists e. split; auto. apply In_sortk; auto.
    - intros [e [He Hm]]. exists e. split; auto. apply select_full_subset; auto.
  Qed.

  (* every kept assertion kills a mutant that no other kept assertion kills *)
  Lemma select_full_irredundant : forall e, In e ks ->
    exists m, In m (snd e) /\ forall e', In e' ks -> fst e' <> fst e -> ~ In m (snd e').
  Proof.
    destruct select_parts as [st [Hg Hks]]. intros e He.
    destruct (giter_Inv km F _ _ _ (Inv_init km) Hg) as [I _].
    set (keep := g_keep st) in *.
    set (R := prune (rev (map fst (sortk keep))) keep) in *.
    assert (HR : forall x, In x ks <-> In x R) by (intros x; rewrite Hks; apply In_sortk).
    assert (FR : functional R).
    { eapply functional_incl; [exact F|]. intros x Hx. apply prune_incl in Hx.
      apply (inv_keep _ _ I); auto. }
    apply HR in He.
    assert (Hirr : irr R (fst e)).
    { apply prune_irr with (P := []); [intros k []|]. right.
      apply in_rev. rewrite rev_involutive. apply in_map. apply In_sortk. apply prune_incl in He. auto. }
    specialize (Hirr (snd e) (lookup_functional R e FR He)).
    unfold subsetb in Hirr. apply forallb_false_exists in Hirr. destruct Hirr as [m [Hm Hno]].
    exists m. split; auto. intros e' He' Hk Hme'. apply memZ_false in Hno. apply Hno.
    apply In_others. exists e'. split; [apply HR; auto|auto].
  Qed.
End Select.

(* the non-minimising filter keeps the kill union as well *)
Lemma relevant_covers km m :
  (exists e, In e km /\ In m (snd e)) <-> (exists e, In e km /\ In (fst e) (relevant km) /\ In m (snd e)).
Proof.
  split.
  - intros [e [He Hm]]. exists e. repeat split; auto. unfold relevant. apply in_map.
    apply filter_In. split; auto. cbn beta. apply nonemptyb_true. intros Hn. unfold mset in *. rewrite Hn in Hm. destruct Hm.
  - intros [e [He [_ Hm]]]. eauto.
Qed.

Example select_example :
  select [((0, 0), []); ((0, 1), [1; 2]); ((1, 0), [2; 3]); ((2, 0), [1; 2; 3]); ((2, 1), [3])]
  = Some [(2, 0)].
Proof. vm_compute. reflexivity. Qed.

(* greedy alone would keep three keys here; pruning drops the first pick *)
Example select_example_prune :
  select [((0, 0), [1; 2; 3; 4]); ((1, 0), [1; 2; 5]); ((2, 0), [3; 4; 6])]
  = Some [(1, 0); (2, 0)].
Proof. vm_compute. reflexivity. Qed.

Example dict_example : NoDup (map fst [((0, 0), [1; 2; 3; 4]); ((1, 0), [1; 2; 5]); ((2, 0), [3; 4; 6])]).
Proof. cbn. repeat constructor; cbn; intuition congruence. Qed.

(* ------------------------------------------------------------------------------------------ *)
(* summary partition and score                                                                 *)
Lemma class_partition i :
  (is_killed i = true /\ is_timeout i = false /\ is_survived i = false) \/
  (is_killed i = false /\ is_timeout i = true /\ is_survived i = false) \/
  (is_killed i = false /\ is_timeout i = false /\ is_survived i = true).
Proof.
  unfold is_killed, is_timeout, is_survived. destruct (nonemptyb (fst i)), (nonemptyb (snd i)); cbn; tauto.
Qed.

Lemma counts_partition infos :
  count is_killed infos + count is_timeout infos + count is_survived infos = Z.of_nat (length infos).
Proof.
  unfold count. induction infos as [|i r IH]; [reflexivity|].
  cbn [filter length].
  destruct (class_partition i) as [[-> [-> ->]]|[[-> [-> ->]]|[-> [-> ->]]]]; cbn [length]; lia.
Qed.

Lemma count_nonneg {A} (p : A -> bool) l : 0 <= count p l.
Proof. unfold count. lia. Qed.

Lemma metrics_bounds infos :
  let '(c, k, t) := metrics infos in 0 <= k /\ 0 <= t /\ k + t <= c.
Proof.
  unfold metrics. pose proof (counts_partition infos).
  pose proof (count_nonneg is_killed infos). pose proof (count_nonneg is_timeout infos).
  pose proof (count_nonneg is_survived infos). lia.
Qed.

Lemma score_nd_bounds infos :
  let '(n, d) := score_nd (metrics infos) in 0 <= n <= d /\ 0 < d.
Proof.
  pose proof (metrics_bounds infos) as H. unfold metrics in *. unfold score_nd.
  destruct (Z.of_nat (length infos) - count is_timeout infos =? 0) eqn:Hd.
  - lia.
  - apply Z.eqb_neq in Hd. lia.
Qed.

Lemma score_in_unit infos : (0 <= score (metrics infos) <= 1)%Q.
Proof.
  pose proof (score_nd_bounds infos) as H. unfold score.
  destruct (score_nd (metrics infos)) as [n d]. destruct H as [[H0 H1] Hd].
  unfold Qle; cbn [Qnum Qden]. rewrite Z2Pos.id by lia. lia.
Qed.

(* the divisor never counts a timed-out mutant, and a killed mutant is never a timed-out one *)
Lemma score_is_killed_over_decided infos :
  score_nd (metrics infos) =
  if count is_killed infos + count is_survived infos =? 0 then (1, 1)
  else (count is_killed infos, count is_killed infos + count is_survived infos).
Proof.
  unfold metrics, score_nd. pose proof (counts_partition infos).
  replace (Z.of_nat (length infos) - count is_timeout infos)
    with (count is_killed infos + count is_survived infos) by lia.
  reflexivity.
Qed.

Lemma count_app {A} (p : A -> bool) a b : count p (a ++ b) = count p a + count p b.
Proof. unfold count. rewrite filter_app, app_length. lia. Qed.

Lemma count_cons_false {A} (p : A -> bool) i b : p i = false -> count p (i :: b) = count p b.
Proof. intros H. unfold count. cbn [filter]. rewrite H. reflexivity. Qed.

(* adding or removing a timed-out mutant anywhere in the table does not change the score *)
Lemma score_ignores_timeouts a b i :
  is_timeout i = true -> score_nd (metrics (a ++ i :: b)) = score_nd (metrics (a ++ b)).
Proof.
  intros Ht. rewrite !score_is_killed_over_decided.
  assert (Hk : is_killed i = false) by (destruct (class_partition i) as [[? [? ?]]|[[? [? ?]]|[? [? ?]]]]; congruence).
  assert (Hs : is_survived i = false) by (destruct (class_partition i) as [[? [? ?]]|[[? [? ?]]|[? [? ?]]]]; congruence).
  rewrite !count_app, !(count_cons_false _ i b) by assumption. reflexivity.
Qed.

(* unchecked mutants (invalid module, or not reached within the budget) get no column *)
Lemma collect_skips_invalid {A} (s1 s2 : list (option A)) :
  collect (length (s1 ++ None :: s2)) (s1 ++ None :: s2) = collect (length (s1 ++ s2)) (s1 ++ s2).
Proof.
  unfold collect. rewrite !firstn_all, !flat_map_app. reflexivity.
Qed.

Lemma collect_ignores_beyond_budget {A} cut (s extra : list (option A)) :
  (cut <= length s)%nat -> collect cut (s ++ extra) = collect cut s.
Proof.
  intros H. unfold collect. rewrite firstn_app. replace (cut - length s)%nat with 0%nat by lia.
  cbn [firstn]. rewrite app_nil_r. reflexivity.
Qed.

Example score_example :
  score_nd (metrics [([], [0]); ([1], [0]); ([], []); ([2], [])]) = (1, 2).
Proof. vm_compute. reflexivity. Qed.

(* ------------------------------------------------------------------------------------------ *)
(* removal of non-holding assertions                                                           *)
Lemma filter_id {A} (f : A -> bool) l : (forall y, In y l -> f y = true) -> filter f l = l.
Proof.
  induction l as [|x r IH]; intros H; cbn [filter]; auto.
  rewrite (H x) by (left; auto). rewrite IH; auto. intros y Hy. apply H; right; auto.
Qed.

Lemma filter_filter {A} (f g : A -> bool) l : filter f (filter g l) = filter (fun x => g x && f x) l.
Proof.
  induction l as [|x r IH]; cbn [filter]; auto.
  destruct (g x); cbn [filter andb]; [destruct (f x)|]; rewrite IH; auto.
Qed.

Lemma remove_first_filter a l : NoDup l -> remove_first a l = filter (fun x => negb (a =? x)) l.
Proof.
  induction l as [|x r IH]; intros Hnd; cbn [remove_first filter]; auto.
  inversion Hnd as [|? ? Hnot Hnd']; subst.
  destruct (a =? x) eqn:He; cbn [negb].
  - apply Z.eqb_eq in He. subst. symmetry. apply filter_id. intros y Hy.
    apply negb_true_iff, Z.eqb_neq. intros ->. contradiction.
  - rewrite IH; auto.
Qed.

Definition dropped (l : list Z) (drop : nat -> bool) (ps : list nat) : list Z :=
  flat_map (fun pos => if drop pos then match nth_error l pos with Some a => [a] | None => [] end else []) ps.

Lemma fold_remove (l : list Z) (drop : nat -> bool) : forall (ps : list nat) (acc : list Z), NoDup acc ->
  fold_left (fun acc pos => if drop pos then match nth_error l pos with
                                              | Some a => remove_first a acc | None => acc end
                            else acc) ps acc
  = filter (fun a => negb (memZ a (dropped l drop ps))) acc.
Proof.
  induction ps as [|p r IH]; intros acc Hnd; cbn [fold_left dropped flat_map].
  - symmetry. apply filter_id. intros; reflexivity.
  - fold (dropped l drop r). destruct (drop p).
    + destruct (nth_error l p) as [a|].
      * rewrite IH by (rewrite remove_first_filter by auto; apply NoDup_filter; auto).
        rewrite remove_first_filter by auto. rewrite filter_filter. apply filter_ext.
        intros x. cbn [app memZ existsb]. fold (memZ x (dropped l drop r)).
        rewrite negb_orb. rewrite (Z.eqb_sym x a). reflexivity.
      * cbn [app]. apply IH; auto.
    + cbn [app]. apply IH; auto.
Qed.

Lemma remove_where_filter l drop : NoDup l ->
  remove_where l drop = filter (fun a => negb (memZ a (dropped l drop (rev (seq 0 (length l)))))) l.
Proof. intros H. unfold remove_where. apply fold_remove; auto. Qed.

Lemma In_dropped l drop a :
  In a (dropped l drop (rev (seq 0 (length l)))) <-> exists p, drop p = true /\ nth_error l p = Some a.
Proof.
  unfold dropped. rewrite in_flat_map. split.
  - intros [p [_ H]]. destruct (drop p) eqn:Hd; [|destruct H].
    destruct (nth_error l p) as [b|] eqn:Hn; [|destruct H]. destruct H as [<-|[]]. eauto.
  - intros [p [Hd Hn]]. exists p. split.
    + apply in_rev. rewrite rev_involutive. apply in_seq.
      assert (p < length l)%nat by (apply nth_error_Some; congruence). lia.
    + rewrite Hd, Hn. left; auto.
Qed.

(* Exactly the assertions reported as failed or erroneous are removed; the others stay, in order. *)
Lemma remove_where_spec l drop : NoDup l -> forall a,
  In a (remove_where l drop) <-> In a l /\ ~ exists p, drop p = true /\ nth_error l p = Some a.
Proof.
  intros Hnd a. rewrite remove_where_filter by auto. rewrite filter_In, negb_true_iff, memZ_false.
  rewrite In_dropped. tauto.
Qed.

Lemma mem_nat_In n l : mem_nat n l = true <-> In n l.
Proof.
  unfold mem_nat. rewrite existsb_exists. split.
  - intros [y [Hy He]]. apply Nat.eqb_eq in He. subst; auto.
  - intros H. exists n. split; auto. apply Nat.eqb_refl.
Qed.

Lemma remove_non_holding_spec l del : NoDup l -> forall a,
  In a (remove_non_holding l del) <-> In a l /\ ~ exists p, In p del /\ nth_error l p = Some a.
Proof.
  intros Hnd a. unfold remove_non_holding. rewrite remove_where_spec by auto.
  split; intros [H1 H2]; split; auto; intros [p [Hp Hn]]; apply H2; exists p; split; auto;
    apply mem_nat_In; auto.
Qed.

Lemma remove_non_holding_keeps_order l del : NoDup l ->
  exists f, remove_non_holding l del = filter f l.
Proof. intros H. unfold remove_non_holding. rewrite remove_where_filter by auto. eauto. Qed.

Example remove_non_holding_example : remove_non_holding [10; 11; 12; 13] [2; 0]%nat = [11; 13].
Proof. vm_compute. reflexivity. Qed.

(* ------------------------------------------------------------------------------------------ *)
(* minimisation of one test: what stays, and that every mutant verdict stays                   *)
Lemma minimize_stmt_keeps_exactly (s : list Z) (sidx : Z) (keep : list key) : NoDup s -> forall a,
  In a (remove_where s (fun pos => negb (memK (sidx, Z.of_nat pos) keep)))
  <-> exists p, nth_error s p = Some a /\ In (sidx, Z.of_nat p) keep.
Proof.
  intros Hnd a. rewrite remove_where_spec by auto. split.
  - intros [Hin Hno]. apply In_nth_error in Hin. destruct Hin as [p Hp]. exists p. split; auto.
    apply memK_In. destruct (memK (sidx, Z.of_nat p) keep) eqn:Hm; auto.
    exfalso. apply Hno. exists p. rewrite Hm. auto.
  - intros [p [Hp Hk]]. split; [eapply nth_error_In; eauto|].
    intros [p' [Hd Hp']]. assert (p' = p).
    { apply (proj1 (NoDup_nth_error s) Hnd); [apply nth_error_Some; congruence|congruence]. }
    subst. apply memK_In in Hk. rewrite Hk in Hd. discriminate.
Qed.

Lemma In_kills_go k : forall row infos j0 j,
  In j (kills_go k row infos j0) <->
  exists n r i, j = j0 + Z.of_nat n /\ nth_error row n = Some (Some r) /\ nth_error infos n = Some i /\
                fst i = [] /\ In k (r_viol r).
Proof.
  induction row as [|c rr IH]; intros infos j0 j.
  - cbn [kills_go]. split; [intros []|]. intros [n [r [i [_ [H _]]]]]. destruct n; discriminate.
  - destruct infos as [|i0 ri].
    + cbn [kills_go]. split; [intros []|]. intros [n [r [i [_ [_ [H _]]]]]]. destruct n; discriminate.
    + cbn [kills_go].
      assert (Hrest : In j (kills_go k rr ri (j0 + 1)) <->
                      exists n r i, j = j0 + Z.of_nat (S n) /\ nth_error rr n = Some (Some r) /\
                                    nth_error ri n = Some i /\ fst i = [] /\ In k (r_viol r)).
      { rewrite IH. split; intros [n [r [i [Hj H]]]]; exists n, r, i; split; auto; lia. }
      assert (Htail : (exists n r i, j = j0 + Z.of_nat (S n) /\ nth_error rr n = Some (Some r) /\
                                    nth_error ri n = Some i /\ fst i = [] /\ In k (r_viol r)) ->
                      exists n r i, j = j0 + Z.of_nat n /\ nth_error (c :: rr) n = Some (Some r) /\
                                    nth_error (i0 :: ri) n = Some i /\ fst i = [] /\ In k (r_viol r)).
      { intros [n [r [i H]]]. exists (S n), r, i. exact H. }
      destruct c as [r0|].
      * destruct (negb (nonemptyb (fst i0)) && memK k (r_viol r0)) eqn:Hc.
        -- cbn [In]. rewrite Hrest. split.
           ++ intros [<-|H]; [|auto]. apply andb_true_iff in Hc. destruct Hc as [Hn Hm].
              exists 0%nat, r0, i0. cbn [nth_error]. repeat split; try lia.
              ** destruct (fst i0); [auto|discriminate].
              ** apply memK_In; auto.
           ++ intros [n [r [i [Hj [Hr [Hi [Ht Hk]]]]]]]. destruct n as [|n].
              ** left. lia.
              ** right. exists n, r, i. auto.
        -- rewrite Hrest. split; auto.
           intros [n [r [i [Hj [Hr [Hi [Ht Hk]]]]]]]. destruct n as [|n]; [|exists n, r, i; auto].
           exfalso. cbn [nth_error] in Hr, Hi. inversion Hr; inversion Hi; subst.
           rewrite Ht in Hc. cbn in Hc. apply memK_In in Hk. congruence.
      * rewrite Hrest. split; auto.
        intros [n [r [i [Hj [Hr [Hi [Ht Hk]]]]]]]. destruct n as [|n]; [discriminate|exists n, r, i; auto].
Qed.

Lemma In_kills_of k row infos j :
  In j (kills_of k row infos) <->
  exists n r i, j = Z.of_nat n /\ nth_error row n = Some (Some r) /\ nth_error infos n = Some i /\
                fst i = [] /\ In k (r_viol r).
Proof. unfold kills_of. rewrite In_kills_go. split; intros [n [r [i [Hj H]]]]; exists n, r, i; split; auto; lia. Qed.

Lemma In_build_kill_map test row infos e :
  In e (build_kill_map test row infos) <-> exists k, In k (reg_keys test) /\ e = (k, kills_of k row infos).
Proof.
  unfold build_kill_map, reg_keys. rewrite in_flat_map. split.
  - intros [p [Hp He]]. destruct (only_exc (snd p)) eqn:Ho; [destruct He|].
    apply in_map_iff in He. destruct He as [k [<- Hk]]. exists k. split; auto.
    apply in_flat_map. exists p. rewrite Ho. auto.
  - intros [k [Hk ->]]. apply in_flat_map in Hk. destruct Hk as [p [Hp Hk]]. exists p. split; auto.
    destruct (only_exc (snd p)); [destruct Hk|]. apply (in_map (fun k => (k, kills_of k row infos))). auto.
Qed.

Lemma build_kill_map_functional test row infos : functional (build_kill_map test row infos).
Proof.
  intros e e' He He' Hk. apply In_build_kill_map in He, He'.
  destruct He as [k [_ ->]], He' as [k' [_ ->]]. cbn [fst] in Hk. subst. reflexivity.
Qed.

Lemma all_keys_split test k : In k (all_keys test) -> In k (exc_keys test) \/ In k (reg_keys test).
Proof.
  unfold all_keys, exc_keys, reg_keys. rewrite !in_flat_map. intros [p [Hp Hk]].
  destruct (only_exc (snd p)) eqn:Ho; [left|right]; exists p; rewrite Ho; auto.
Qed.

(* For every mutant that did not time out, a test's verdict "some assertion is violated" is the
   same for the kept assertions as for all assertions: the minimised test kills what it killed. *)
Lemma minimize_preserves_kills test row infos ks :
  select_full (build_kill_map test row infos) = Some ks ->
  forall n r i, nth_error row n = Some (Some r) -> nth_error infos n = Some i -> fst i = [] ->
    incl (r_viol r) (all_keys test) ->
    (r_viol r <> [] <-> filter (fun k => memK k (map fst ks ++ exc_keys test)) (r_viol r) <> []).
Proof.
  intros Hsel n r i Hr Hi Ht Hwf. split.
  - intros Hne. assert (Hex : exists k0, In k0 (r_viol r)).
    { destruct (r_viol r) as [|k0 vr]; [congruence|]. exists k0; left; auto. }
    destruct Hex as [k0 Hk0].
    destruct (all_keys_split test k0 (Hwf k0 Hk0)) as [Hexc|Hreg].
    + intros Hf. assert (Hin : In k0 (filter (fun k => memK k (map fst ks ++ exc_keys test)) (r_viol r))).
      { apply filter_In. split; auto. apply memK_In, in_or_app. right; auto. }
      rewrite Hf in Hin. destruct Hin.
    + pose proof (build_kill_map_functional test row infos) as F.
      assert (Hcov : exists e, In e (build_kill_map test row infos) /\ In (Z.of_nat n) (snd e)).
      { exists (k0, kills_of k0 row infos). split; [apply In_build_kill_map; eauto|].
        cbn [snd]. apply In_kills_of. exists n, r, i. auto. }
      apply (select_full_covers _ F ks Hsel) in Hcov. destruct Hcov as [e [He Hm]].
      destruct (select_full_subset _ F ks Hsel e He) as [Hekm _].
      apply In_build_kill_map in Hekm. destruct Hekm as [k' [_ ->]]. cbn [snd] in Hm.
      apply In_kills_of in Hm. destruct Hm as [n' [r' [i' [Hn' [Hr' [_ [_ Hk']]]]]]].
      assert (n' = n) by lia. subst n'. rewrite Hr in Hr'. inversion Hr'; subst r'.
      intros Hf. assert (Hin : In k' (filter (fun k => memK k (map fst ks ++ exc_keys test)) (r_viol r))).
      { apply filter_In. split; auto. apply memK_In, in_or_app. left.
        change k' with (fst (k', kills_of k' row infos)). apply in_map; auto. }
      rewrite Hf in Hin. destruct Hin.
  - intros Hf Hv. rewrite Hv in Hf. cbn in Hf. congruence.
Qed.

Example minimize_example :
  let test := [[1; 2]; [-3]; [4]] in
  let row := [Some {| r_timeout := false; r_viol := [(0, 0); (0, 1)]; r_exc := false |};
              Some {| r_timeout := false; r_viol := [(0, 1); (2, 0)]; r_exc := false |};
              Some {| r_timeout := true; r_viol := [(0, 0)]; r_exc := false |}] in
  let infos := [([], [0]); ([], [0]); ([0], [])] in
  build_kill_map test row infos = [((0, 0), [0]); ((0, 1), [0; 1]); ((2, 0), [1])]
  /\ select (build_kill_map test row infos) = Some [(0, 1)]
  /\ minimize_test test [(0, 1)] = [[2]; [-3]; []].
Proof. vm_compute. repeat split. Qed.
