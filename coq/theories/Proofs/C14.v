(* C14 — proofs about the ranking / crowding / rank-selection model (Models/C14.v). *)
From Coq Require Import List ZArith Bool Lia Permutation.
From Verif Require Import Models.C14.
Import ListNotations.
Import C14.
Open Scope Z_scope.

(* ---------- specifications ---------- *)
(* a dominates b w.r.t. the goals: nowhere worse, somewhere strictly better (fitness is minimised) *)
Definition dominates (goals : list nat) (a b : ind) : Prop :=
  (forall g, In g goals -> fit g a <= fit g b) /\ (exists g, In g goals /\ fit g a < fit g b).

(* x is not dominated by any member of l *)
Definition ndb (goals : list nat) (l : list ind) (x : ind) : bool :=
  negb (existsb (fun t => domb goals t x) l).

(* equal (==) chromosomes are interchangeable: same fitness row, same length *)
Definition consistent (l : list ind) : Prop :=
  forall x y, In x l -> In y l -> key x = key y -> x = y.

(* (fitness for g, length) lexicographically at most *)
Definition lexle (g : nat) (a b : ind) : Prop :=
  fit g a < fit g b \/ (fit g a = fit g b /\ len a <= len b).

(* the later fronts: each one is exactly the non-dominated part of what is not yet ranked *)
Fixpoint chain (goals : list nat) (rem : list ind) (fs : list (list ind)) : Prop :=
  match fs with
  | [] => True
  | f :: r => f = filter (ndb goals rem) rem /\ chain goals (remove_list f rem) r
  end.

(* ---------- comparators ---------- *)
Definition lt_some (goals : list nat) (a b : ind) : bool :=
  existsb (fun g => fit g a <? fit g b) goals.

Lemma dom_loop_spec goals a b : forall d1 d2,
  dom_loop goals a b d1 d2 =
  (if Bool.eqb (d1 || lt_some goals a b) (d2 || lt_some goals b a) then 0
   else if d1 || lt_some goals a b then -1 else 1).
Proof.
  induction goals as [|g r IH]; intros d1 d2; cbn [dom_loop lt_some existsb].
  - rewrite !orb_false_r. reflexivity.
  - unfold cmp. fold (lt_some r a b). fold (lt_some r b a).
    destruct (fit g a <? fit g b) eqn:E1.
    + assert (E3 : fit g b <? fit g a = false) by lia. rewrite E3.
      replace (-1 <? 0) with true by reflexivity.
      destruct d2.
      * cbn. rewrite orb_true_r. reflexivity.
      * rewrite IH. cbn. rewrite !orb_true_r. reflexivity.
    + destruct (fit g a >? fit g b) eqn:E2.
      * assert (E3 : fit g b <? fit g a = true) by lia. rewrite E3.
        replace (1 <? 0) with false by reflexivity. replace (1 >? 0) with true by reflexivity.
        destruct d1.
        -- cbn. rewrite orb_true_r. reflexivity.
        -- rewrite IH. cbn. rewrite !orb_true_r. reflexivity.
      * assert (E3 : fit g b <? fit g a = false) by lia. rewrite E3.
        replace (0 <? 0) with false by reflexivity. replace (0 >? 0) with false by reflexivity.
        rewrite IH. cbn. reflexivity.
Qed.

Lemma dom_compare_spec goals a b :
  dom_compare goals a b =
  (if Bool.eqb (lt_some goals a b) (lt_some goals b a) then 0
   else if lt_some goals a b then -1 else 1).
Proof. unfold dom_compare. rewrite dom_loop_spec. reflexivity. Qed.

Lemma dom_compare_range goals a b :
  dom_compare goals a b = -1 \/ dom_compare goals a b = 0 \/ dom_compare goals a b = 1.
Proof.
  rewrite dom_compare_spec.
  destruct (lt_some goals a b), (lt_some goals b a); cbn; auto.
Qed.

Lemma dom_compare_antisym goals a b : dom_compare goals a b = - dom_compare goals b a.
Proof.
  rewrite !dom_compare_spec.
  destruct (lt_some goals a b), (lt_some goals b a); reflexivity.
Qed.

Lemma lt_some_true goals a b :
  lt_some goals a b = true <-> exists g, In g goals /\ fit g a < fit g b.
Proof.
  unfold lt_some. rewrite existsb_exists. split; intros [g [Hg H]]; exists g; split; auto; lia.
Qed.

Lemma lt_some_false goals a b :
  lt_some goals a b = false <-> forall g, In g goals -> fit g b <= fit g a.
Proof.
  split.
  - intros H g Hg. destruct (Z_lt_le_dec (fit g a) (fit g b)) as [Hl|Hl]; [|exact Hl].
    assert (lt_some goals a b = true) by (apply lt_some_true; exists g; auto). congruence.
  - intro H. destruct (lt_some goals a b) eqn:E; [|reflexivity].
    apply lt_some_true in E. destruct E as [g [Hg Hl]]. specialize (H g Hg). lia.
Qed.

Lemma domb_iff goals a b : domb goals a b = true <-> dominates goals a b.
Proof.
  unfold domb, dominates. rewrite dom_compare_spec.
  destruct (lt_some goals a b) eqn:E1; destruct (lt_some goals b a) eqn:E2; cbn.
  - split; [discriminate|]. intros [Hall _]. apply lt_some_true in E2.
    destruct E2 as [g [Hg Hl]]. specialize (Hall g Hg). lia.
  - split; [intros _|reflexivity]. split.
    + apply lt_some_false. exact E2.
    + apply lt_some_true. exact E1.
  - split; [discriminate|]. intros [_ Hex]. apply lt_some_true in Hex. congruence.
  - split; [discriminate|]. intros [_ Hex]. apply lt_some_true in Hex. congruence.
Qed.

Lemma dom_neg goals a b : (dom_compare goals a b <? 0) = domb goals a b.
Proof. unfold domb. destruct (dom_compare_range goals a b) as [H|[H|H]]; rewrite H; reflexivity. Qed.

Lemma dom_pos goals a b : (dom_compare goals a b >? 0) = domb goals b a.
Proof.
  unfold domb. rewrite (dom_compare_antisym goals b a).
  destruct (dom_compare_range goals a b) as [H|[H|H]]; rewrite H; reflexivity.
Qed.

Lemma dominates_irrefl goals a : ~ dominates goals a a.
Proof. intros [_ [g [_ H]]]. lia. Qed.

Lemma dominates_trans goals a b c :
  dominates goals a b -> dominates goals b c -> dominates goals a c.
Proof.
  intros [H1 [g [Hg Hl]]] [H2 _]. split.
  - intros g' Hg'. specialize (H1 g' Hg'). specialize (H2 g' Hg'). lia.
  - exists g. split; [exact Hg|]. specialize (H2 g Hg). lia.
Qed.

Lemma dominates_asym goals a b : dominates goals a b -> ~ dominates goals b a.
Proof. intros H1 H2. exact (dominates_irrefl goals a (dominates_trans _ _ _ _ H1 H2)). Qed.

Lemma domb_irrefl goals a : domb goals a a = false.
Proof.
  destruct (domb goals a a) eqn:E; [|reflexivity].
  apply domb_iff in E. destruct (dominates_irrefl _ _ E).
Qed.

Lemma domb_trans goals a b c :
  domb goals a b = true -> domb goals b c = true -> domb goals a c = true.
Proof. rewrite !domb_iff. apply dominates_trans. Qed.

(* the three outcomes of DominanceComparator.compare, as documented *)
Lemma dom_compare_meaning goals a b :
  (dom_compare goals a b = -1 <-> dominates goals a b) /\
  (dom_compare goals a b = 1 <-> dominates goals b a) /\
  (dom_compare goals a b = 0 <-> ~ dominates goals a b /\ ~ dominates goals b a).
Proof.
  rewrite <- !domb_iff. unfold domb. rewrite (dom_compare_antisym goals b a).
  destruct (dom_compare_range goals a b) as [H|[H|H]]; rewrite H; cbn;
    repeat split; try discriminate; try reflexivity; try tauto; intros; try lia;
    try (intros [? ?]; congruence); try (intro; discriminate).
  all: try (destruct H0; congruence).
Qed.

(* ---------- list removal ---------- *)
Lemma consistent_incl l l' : consistent l -> incl l' l -> consistent l'.
Proof. intros H Hi x y Hx Hy. apply H; apply Hi; assumption. Qed.

Lemma remove_first_incl k l : incl (remove_first k l) l.
Proof.
  induction l as [|x r IH]; cbn [remove_first]; [apply incl_refl|].
  destruct (key x =? k).
  - apply incl_tl, incl_refl.
  - intros y [->|Hy]; [left; reflexivity|right; apply IH; exact Hy].
Qed.

Lemma remove_list_incl xs l : incl (remove_list xs l) l.
Proof.
  unfold remove_list. revert l. induction xs as [|x r IH]; intro l; cbn [fold_left]; [apply incl_refl|].
  eapply incl_tran; [apply IH|apply remove_first_incl].
Qed.

Lemma remove_first_app k pre x r :
  (forall y, In y pre -> key y <> k) -> key x = k ->
  remove_first k (pre ++ x :: r) = pre ++ r.
Proof.
  intros Hpre Hk. induction pre as [|p pre IH]; cbn [app remove_first].
  - apply Z.eqb_eq in Hk. rewrite Hk. reflexivity.
  - assert (Hp : key p =? k = false) by (apply Z.eqb_neq, Hpre; left; reflexivity).
    rewrite Hp. f_equal. apply IH. intros y Hy. apply Hpre. right. exact Hy.
Qed.

(* removing the members of l that satisfy P, one `remove` each, leaves exactly the others *)
Lemma remove_filter_gen (P : ind -> bool) : forall l pre,
  (forall x, In x pre -> P x = false) -> consistent (pre ++ l) ->
  remove_list (filter P l) (pre ++ l) = pre ++ filter (fun x => negb (P x)) l.
Proof.
  induction l as [|x r IH]; intros pre Hpre Hc; cbn [filter].
  - reflexivity.
  - destruct (P x) eqn:Px; cbn [negb].
    + unfold remove_list. cbn [fold_left]. fold (remove_list (filter P r)).
      rewrite remove_first_app; [| |reflexivity].
      * apply IH; [exact Hpre|].
        eapply consistent_incl; [exact Hc|].
        intros y Hy. apply in_app_or in Hy. apply in_or_app.
        destruct Hy as [Hy|Hy]; [left; exact Hy|right; right; exact Hy].
      * intros y Hy Hk.
        assert (y = x).
        { apply Hc; [apply in_or_app; left; exact Hy|apply in_or_app; right; left; reflexivity|exact Hk]. }
        subst y. rewrite (Hpre x Hy) in Px. discriminate.
    + replace (pre ++ x :: r) with ((pre ++ [x]) ++ r) by (rewrite <- app_assoc; reflexivity).
      rewrite IH.
      * rewrite <- app_assoc. reflexivity.
      * intros y Hy. apply in_app_or in Hy. destruct Hy as [Hy|[<-|[]]]; [apply Hpre; exact Hy|exact Px].
      * rewrite <- app_assoc. exact Hc.
Qed.

Lemma remove_filter (P : ind -> bool) l :
  consistent l -> remove_list (filter P l) l = filter (fun x => negb (P x)) l.
Proof. intro Hc. apply (remove_filter_gen P l []); [intros x []|exact Hc]. Qed.

(* ---------- _get_non_dominated_solutions ---------- *)
Lemma scan_spec goals s : forall front acc,
  scan goals s front acc =
  if existsb (fun f => domb goals f s) front then None
  else Some (acc ++ filter (fun f => domb goals s f) front).
Proof.
  induction front as [|b r IH]; intro acc; cbn [scan existsb filter].
  - rewrite app_nil_r. reflexivity.
  - rewrite dom_neg, dom_pos.
    destruct (domb goals s b) eqn:E1.
    + assert (E2 : domb goals b s = false).
      { destruct (domb goals b s) eqn:E2; [|reflexivity].
        apply domb_iff in E1. apply domb_iff in E2. destruct (dominates_asym _ _ _ E1 E2). }
      rewrite E2. cbn [orb]. rewrite IH. rewrite <- app_assoc. reflexivity.
    + destruct (domb goals b s) eqn:E2; cbn [orb]; [reflexivity|]. apply IH.
Qed.

Lemma ndb_true goals l x : ndb goals l x = true <-> forall t, In t l -> domb goals t x = false.
Proof.
  unfold ndb. rewrite negb_true_iff. split.
  - intros H t Ht. destruct (domb goals t x) eqn:E; [|reflexivity].
    assert (existsb (fun t => domb goals t x) l = true) by (apply existsb_exists; exists t; auto).
    congruence.
  - intro H. destruct (existsb (fun t => domb goals t x) l) eqn:E; [|reflexivity].
    apply existsb_exists in E. destruct E as [t [Ht Hd]]. rewrite (H t Ht) in Hd. discriminate.
Qed.

Lemma ndb_false goals l x : ndb goals l x = false <-> exists t, In t l /\ domb goals t x = true.
Proof. unfold ndb. rewrite negb_false_iff. apply existsb_exists. Qed.

Lemma filter_ext_in' {A} (f g : A -> bool) l :
  (forall x, In x l -> f x = g x) -> filter f l = filter g l.
Proof.
  induction l as [|x r IH]; intro H; cbn [filter]; [reflexivity|].
  rewrite (H x (or_introl eq_refl)). rewrite IH; [reflexivity|]. intros y Hy. apply H. right. exact Hy.
Qed.

Lemma filter_filter {A} (f g : A -> bool) l :
  filter f (filter g l) = filter (fun x => g x && f x) l.
Proof.
  induction l as [|x r IH]; cbn [filter]; [reflexivity|].
  destruct (g x); cbn [filter andb]; [destruct (f x)|]; rewrite IH; reflexivity.
Qed.

(* loop invariant: the front holds exactly the members of the processed prefix that no front
   member dominates (so every processed solution is in the front or dominated by a front member) *)
Definition nds_inv (goals : list nat) (prefix front : list ind) : Prop :=
  front = filter (ndb goals front) prefix.

Lemma nds_inv_incl goals prefix front : nds_inv goals prefix front -> incl front prefix.
Proof. intros H x Hx. rewrite H in Hx. apply filter_In in Hx. tauto. Qed.

Lemma nds_step_inv goals prefix front s :
  consistent (prefix ++ [s]) -> nds_inv goals prefix front ->
  nds_inv goals (prefix ++ [s]) (nds_step goals front s).
Proof.
  intros Hc Hinv. unfold nds_step. rewrite scan_spec. cbn [app].
  destruct (existsb (fun f => domb goals f s) front) eqn:Ex.
  - (* s is dominated by a front member *)
    unfold nds_inv. rewrite filter_app. cbn [filter].
    unfold ndb at 2. rewrite Ex. cbn [negb]. rewrite app_nil_r. exact Hinv.
  - (* s joins the front, the members it dominates leave *)
    assert (Hci : consistent (front ++ [s])).
    { eapply consistent_incl; [exact Hc|]. intros y Hy. apply in_app_or in Hy. apply in_or_app.
      destruct Hy as [Hy|Hy]; [left; apply (nds_inv_incl _ _ _ Hinv); exact Hy|right; exact Hy]. }
    assert (Hrm : remove_list (filter (fun f => domb goals s f) front) (front ++ [s])
                  = filter (fun f => negb (domb goals s f)) front ++ [s]).
    { pose proof (remove_filter (fun f => domb goals s f) (front ++ [s]) Hci) as R.
      rewrite filter_app in R. cbn [filter] in R. rewrite domb_irrefl in R. cbn [negb] in R.
      rewrite app_nil_r in R. rewrite filter_app in R. cbn [filter] in R.
      rewrite domb_irrefl in R. cbn [negb] in R. exact R. }
    rewrite Hrm. set (front' := filter (fun f => negb (domb goals s f)) front ++ [s]).
    assert (Hs : ndb goals front' s = true).
    { apply ndb_true. intros t Ht. unfold front' in Ht. apply in_app_or in Ht.
      destruct Ht as [Ht|[<-|[]]]; [|apply domb_irrefl].
      apply filter_In in Ht. destruct Ht as [Ht _].
      destruct (domb goals t s) eqn:E; [|reflexivity].
      assert (existsb (fun f => domb goals f s) front = true) by (apply existsb_exists; exists t; auto).
      congruence. }
    unfold nds_inv. rewrite filter_app. cbn [filter]. rewrite Hs.
    unfold front' at 1. f_equal.
    pose proof Hinv as Hinv'. unfold nds_inv in Hinv'. rewrite Hinv' at 1. rewrite filter_filter.
    apply filter_ext_in'. intros x Hx.
    destruct (ndb goals front' x) eqn:E1.
    + (* not dominated by the new front *)
      pose proof (proj1 (ndb_true _ _ _) E1) as H1.
      assert (Hsx : domb goals s x = false).
      { apply H1. unfold front'. apply in_or_app. right. left. reflexivity. }
      rewrite Hsx. cbn [negb]. rewrite andb_true_r. apply ndb_true. intros f Hf.
      destruct (domb goals f x) eqn:Hfx; [|reflexivity].
      destruct (domb goals s f) eqn:Hsf.
      * rewrite (domb_trans _ _ _ _ Hsf Hfx) in Hsx. discriminate.
      * assert (In f front').
        { unfold front'. apply in_or_app. left. apply filter_In. rewrite Hsf. auto. }
        rewrite (H1 f H) in Hfx. discriminate.
    + apply ndb_false in E1. destruct E1 as [t [Ht Htx]]. unfold front' in Ht.
      apply in_app_or in Ht. destruct Ht as [Ht|[<-|[]]].
      * apply filter_In in Ht. destruct Ht as [Ht _].
        assert (ndb goals front x = false) by (apply ndb_false; exists t; auto).
        rewrite H. reflexivity.
      * rewrite Htx. cbn [negb]. apply andb_false_r.
Qed.

Lemma nds_fold_inv goals : forall rest prefix front,
  consistent (prefix ++ rest) -> nds_inv goals prefix front ->
  nds_inv goals (prefix ++ rest) (fold_left (nds_step goals) rest front).
Proof.
  induction rest as [|s r IH]; intros prefix front Hc Hinv; cbn [fold_left].
  - rewrite app_nil_r. exact Hinv.
  - replace (prefix ++ s :: r) with ((prefix ++ [s]) ++ r) by (rewrite <- app_assoc; reflexivity).
    apply IH.
    + rewrite <- app_assoc. exact Hc.
    + apply nds_step_inv; [|exact Hinv].
      eapply consistent_incl; [exact Hc|]. intros y Hy. apply in_app_or in Hy. apply in_or_app.
      destruct Hy as [Hy|[<-|[]]]; [left; exact Hy|right; left; reflexivity].
Qed.

(* the returned front is exactly the set of non-dominated members of the input, in input order *)
Lemma nds_exact goals sols :
  consistent sols -> nds goals sols = filter (ndb goals sols) sols.
Proof.
  intro Hc. unfold nds.
  pose proof (nds_fold_inv goals sols [] [] Hc eq_refl) as Hinv. cbn [app] in Hinv.
  set (front := fold_left (nds_step goals) sols []) in *.
  unfold nds_inv in Hinv. rewrite Hinv at 1. apply filter_ext_in'. intros x Hx.
  destruct (ndb goals sols x) eqn:E.
  - apply ndb_true. intros t Ht. apply (proj1 (ndb_true _ _ _) E).
    apply (nds_inv_incl _ _ _ Hinv). exact Ht.
  - apply ndb_false in E. destruct E as [t [Ht Htx]]. apply ndb_false.
    destruct (ndb goals front t) eqn:Et.
    + exists t. split; [|exact Htx]. rewrite Hinv. apply filter_In. auto.
    + apply ndb_false in Et. destruct Et as [f [Hf Hft]]. exists f. split; [exact Hf|].
      exact (domb_trans _ _ _ _ Hft Htx).
Qed.

Lemma nds_members goals sols x : consistent sols ->
  (In x (nds goals sols) <-> In x sols /\ forall t, In t sols -> ~ dominates goals t x).
Proof.
  intro Hc. rewrite nds_exact by exact Hc. rewrite filter_In, ndb_true. split.
  - intros [Hx H]. split; [exact Hx|]. intros t Ht Hd. apply domb_iff in Hd. rewrite (H t Ht) in Hd. discriminate.
  - intros [Hx H]. split; [exact Hx|]. intros t Ht. destruct (domb goals t x) eqn:E; [|reflexivity].
    apply domb_iff in E. destruct (H t Ht E).
Qed.

(* the front is never empty for a non-empty input *)
Lemma nds_step_nonempty goals front s : consistent (front ++ [s]) -> nds_step goals front s <> [].
Proof.
  intro Hc. unfold nds_step. rewrite scan_spec. cbn [app].
  destruct (existsb (fun f => domb goals f s) front) eqn:Ex.
  - destruct front; [discriminate|discriminate].
  - pose proof (remove_filter (fun f => domb goals s f) (front ++ [s]) Hc) as R.
    rewrite !filter_app in R. cbn [filter] in R. rewrite domb_irrefl in R. cbn [negb] in R.
    rewrite app_nil_r in R. rewrite R. intro H. apply app_eq_nil in H. destruct H; discriminate.
Qed.

Lemma nds_nonempty goals sols : consistent sols -> sols <> [] -> nds goals sols <> [].
Proof.
  intros Hc Hne. destruct (exists_last Hne) as [pre [s ->]].
  unfold nds. rewrite fold_left_app. cbn [fold_left]. apply nds_step_nonempty.
  pose proof (nds_fold_inv goals pre [] [] (consistent_incl _ _ Hc (incl_appl _ (incl_refl _))) eq_refl) as Hinv.
  cbn [app] in Hinv. eapply consistent_incl; [exact Hc|].
  intros y Hy. apply in_app_or in Hy. apply in_or_app.
  destruct Hy as [Hy|Hy]; [left; apply (nds_inv_incl _ _ _ Hinv); exact Hy|right; exact Hy].
Qed.

(* ---------- the loop over the later fronts ---------- *)
Lemma later_fronts_chain : forall fuel goals pop ranked rem,
  consistent rem -> chain goals rem (later_fronts fuel goals pop ranked rem).
Proof.
  induction fuel as [|f IH]; intros goals pop ranked rem Hc; cbn [later_fronts chain]; [exact I|].
  destruct ((ranked <? pop) && negb (is_nil rem)); cbn [chain]; [|exact I].
  split; [apply nds_exact; exact Hc|].
  apply IH. eapply consistent_incl; [exact Hc|apply remove_list_incl].
Qed.

Lemma filter_length_split {A} (P : A -> bool) l :
  (length (filter P l) + length (filter (fun x => negb (P x)) l) = length l)%nat.
Proof.
  induction l as [|x r IH]; cbn [filter length]; [reflexivity|].
  destruct (P x); cbn [negb length]; lia.
Qed.

(* the fuel (length of the remaining list) is never exhausted *)
Lemma later_fronts_nil fuel goals pop ranked : later_fronts fuel goals pop ranked [] = [].
Proof. destruct fuel; cbn [later_fronts is_nil negb]; [reflexivity|]. rewrite andb_false_r. reflexivity. Qed.

Lemma later_fronts_fuel2 : forall f1 f2 goals pop ranked rem,
  consistent rem -> (length rem <= f1)%nat -> (length rem <= f2)%nat ->
  later_fronts f1 goals pop ranked rem = later_fronts f2 goals pop ranked rem.
Proof.
  induction f1 as [|f IH]; intros f2 goals pop ranked rem Hc H1 H2.
  - destruct rem; [|cbn [length] in H1; lia]. rewrite !later_fronts_nil. reflexivity.
  - destruct rem as [|x r] eqn:Er; [rewrite !later_fronts_nil; reflexivity|].
    rewrite <- Er in *. assert (Hne : rem <> []) by (rewrite Er; discriminate).
    assert (Hl : length rem = S (length r)) by (rewrite Er; reflexivity).
    destruct f2 as [|f2]; [lia|]. cbn [later_fronts].
    destruct ((ranked <? pop) && negb (is_nil rem)); [|reflexivity]. f_equal.
    assert (Hc' : consistent (remove_list (nds goals rem) rem)).
    { eapply consistent_incl; [exact Hc|apply remove_list_incl]. }
    assert (Hshort : (length (remove_list (nds goals rem) rem) <= length r)%nat).
    { pose proof (nds_nonempty goals rem Hc Hne) as Hn.
      rewrite nds_exact in * by exact Hc. rewrite remove_filter by exact Hc.
      pose proof (filter_length_split (ndb goals rem) rem) as Hs.
      destruct (filter (ndb goals rem) rem) eqn:Ef; [congruence|]. cbn [length] in Hs. lia. }
    apply IH; [exact Hc'|lia|lia].
Qed.

Lemma later_fronts_fuel fuel goals pop ranked rem :
  consistent rem -> (length rem <= fuel)%nat ->
  later_fronts fuel goals pop ranked rem = later_fronts (length rem) goals pop ranked rem.
Proof. intros Hc H. apply later_fronts_fuel2; [exact Hc|exact H|lia]. Qed.

(* ---------- _get_zero_front ---------- *)
Lemma lexle_refl g a : lexle g a a.
Proof. unfold lexle. lia. Qed.

Lemma lexle_trans g a b c : lexle g a b -> lexle g b c -> lexle g a c.
Proof. unfold lexle. lia. Qed.

Lemma pref_neg g a b : pref_compare g a (Some b) <? 0 = true -> lexle g a b /\ ~ lexle g b a.
Proof.
  unfold pref_compare, lexle.
  destruct (fit g a <? fit g b) eqn:E1; [lia|].
  destruct (fit g a >? fit g b) eqn:E2; [cbn; discriminate|].
  destruct (len a <? len b) eqn:E3; [lia|].
  destruct (len a >? len b) eqn:E4; cbn; discriminate.
Qed.

Lemma pref_zero g a b : pref_compare g a (Some b) =? 0 = true -> lexle g a b /\ lexle g b a.
Proof.
  unfold pref_compare, lexle.
  destruct (fit g a <? fit g b) eqn:E1; [cbn; discriminate|].
  destruct (fit g a >? fit g b) eqn:E2; [cbn; discriminate|].
  destruct (len a <? len b) eqn:E3; [cbn; discriminate|].
  destruct (len a >? len b) eqn:E4; [cbn; discriminate|]. lia.
Qed.

Lemma pref_pos g a b :
  pref_compare g a (Some b) <? 0 = false -> pref_compare g a (Some b) =? 0 = false -> lexle g b a.
Proof.
  unfold pref_compare, lexle.
  destruct (fit g a <? fit g b) eqn:E1; [cbn; discriminate|].
  destruct (fit g a >? fit g b) eqn:E2; [lia|].
  destruct (len a <? len b) eqn:E3; [cbn; discriminate|].
  destruct (len a >? len b) eqn:E4; [lia|]. cbn. discriminate.
Qed.

(* after the scan for goal g, [best] is a member that is lexicographically minimal among the
   scanned solutions and the previous best — whatever the coins say *)
Lemma best_for_spec g : forall sols best coins,
  (best = None -> sols <> []) ->
  exists b, fst (best_for g sols best coins) = Some b /\
            (In b sols \/ best = Some b) /\
            (forall y, In y sols -> lexle g b y) /\
            (forall b0, best = Some b0 -> lexle g b b0).
Proof.
  induction sols as [|s r IH]; intros best coins Hne.
  - destruct best as [b|]; [|destruct (Hne eq_refl eq_refl)].
    exists b. cbn [best_for fst]. repeat split; auto.
    + intros y [].
    + intros b0 E. inversion E. subst. apply lexle_refl.
  - cbn [best_for].
    assert (Hstep : forall best' coins',
      best' <> None ->
      (forall b', best' = Some b' -> (b' = s \/ best = Some b') /\ lexle g b' s /\
                                     (forall b0, best = Some b0 -> lexle g b' b0)) ->
      exists b, fst (best_for g r best' coins') = Some b /\
            (In b (s :: r) \/ best = Some b) /\
            (forall y, In y (s :: r) -> lexle g b y) /\
            (forall b0, best = Some b0 -> lexle g b b0)).
    { intros best' coins' Hb' Hprop. destruct best' as [b'|]; [|congruence].
      destruct (Hprop b' eq_refl) as [Hin [Hs Hold]].
      destruct (IH (Some b') coins') as [b [Eb [Hbin [Hall Hle]]]]; [discriminate|].
      exists b. split; [exact Eb|]. specialize (Hle b' eq_refl). repeat split.
      - destruct Hbin as [Hbin|Hbin]; [left; right; exact Hbin|].
        inversion Hbin; subst b'. destruct Hin as [->|Hin]; [left; left; reflexivity|right; exact Hin].
      - intros y [<-|Hy]; [eapply lexle_trans; eassumption|apply Hall; exact Hy].
      - intros b0 E0. eapply lexle_trans; [exact Hle|apply Hold; exact E0]. }
    destruct best as [b0|].
    + destruct (pref_compare g s (Some b0) <? 0) eqn:E1.
      * apply pref_neg in E1. destruct E1 as [E1 _].
        apply Hstep; [discriminate|]. intros b' E. inversion E; subst b'.
        split; [left; reflexivity|]. split; [apply lexle_refl|].
        intros b1 E'. inversion E'; subst b1. exact E1.
      * destruct (pref_compare g s (Some b0) =? 0) eqn:E2.
        -- apply pref_zero in E2. destruct E2 as [E2a E2b].
           destruct coins as [|c cs].
           ++ apply Hstep; [discriminate|]. intros b' E. inversion E; subst b'.
              split; [right; reflexivity|]. split; [exact E2b|].
              intros b1 E'. inversion E'; subst b1. apply lexle_refl.
           ++ destruct c.
              ** apply Hstep; [discriminate|]. intros b' E. inversion E; subst b'.
                 split; [left; reflexivity|]. split; [apply lexle_refl|].
                 intros b1 E'. inversion E'; subst b1. exact E2a.
              ** apply Hstep; [discriminate|]. intros b' E. inversion E; subst b'.
                 split; [right; reflexivity|]. split; [exact E2b|].
                 intros b1 E'. inversion E'; subst b1. apply lexle_refl.
        -- pose proof (pref_pos g s b0 E1 E2) as E3.
           apply Hstep; [discriminate|]. intros b' E. inversion E; subst b'.
           split; [right; reflexivity|]. split; [exact E3|].
           intros b1 E'. inversion E'; subst b1. apply lexle_refl.
    + cbn [pref_compare]. replace (-1 <? 0) with true by reflexivity.
      apply Hstep; [discriminate|]. intros b' E. inversion E; subst b'.
      split; [left; reflexivity|]. split; [apply lexle_refl|]. intros b1 E'. discriminate.
Qed.

Definition best_in (g : nat) (sols : list ind) (x : ind) : Prop :=
  In x sols /\ forall y, In y sols -> lexle g x y.

Lemma kmem_true k l : kmem k l = true <-> exists x, In x l /\ key x = k.
Proof.
  unfold kmem. rewrite existsb_exists. split; intros [x [Hx H]]; exists x; split; auto; lia.
Qed.

Lemma oadd_incl front x : incl front (oadd front x).
Proof. unfold oadd. destruct (kmem (key x) front); [apply incl_refl|apply incl_appl, incl_refl]. Qed.

Lemma zero_loop_spec sols : sols <> [] -> consistent sols ->
  forall goals coins front, incl front sols ->
  let F := fst (zero_loop goals sols coins front) in
  incl front F /\ incl F sols /\ forall g, In g goals -> exists x, In x F /\ best_in g sols x.
Proof.
  intros Hne Hc. induction goals as [|g r IH]; intros coins front Hin; cbn [zero_loop].
  - cbn [fst]. split; [apply incl_refl|]. split; [exact Hin|]. intros g [].
  - destruct (best_for_spec g sols None coins (fun _ => Hne)) as [b [Eb [Hb [Hall _]]]].
    destruct (best_for g sols None coins) as [ob coins'] eqn:E. cbn [fst] in Eb. subst ob.
    destruct Hb as [Hb|Hb]; [|discriminate].
    assert (Hin' : incl (oadd front b) sols).
    { unfold oadd. destruct (kmem (key b) front); [exact Hin|].
      apply incl_app; [exact Hin|]. intros y [<-|[]]. exact Hb. }
    destruct (IH coins' (oadd front b) Hin') as [H1 [H2 H3]].
    split; [eapply incl_tran; [apply oadd_incl|exact H1]|]. split; [exact H2|].
    intros g' [<-|Hg']; [|apply H3; exact Hg'].
    (* the best for g, or an equal chromosome already in the front *)
    assert (Hbin : In b (oadd front b)).
    { unfold oadd. destruct (kmem (key b) front) eqn:Ek.
      - apply kmem_true in Ek. destruct Ek as [x [Hx Hk]].
        assert (x = b) by (apply Hc; [apply Hin; exact Hx|exact Hb|exact Hk]). subst x. exact Hx.
      - apply in_or_app; right; left; reflexivity. }
    exists b. split; [apply H1; exact Hbin|]. split; assumption.
Qed.

(* every goal has a best individual (lowest fitness, shortest among those) in the zero front *)
Lemma zero_front_has_best goals sols coins g :
  sols <> [] -> consistent sols -> In g goals ->
  exists x, In x (zero_front goals sols coins) /\ In x sols /\ forall y, In y sols -> lexle g x y.
Proof.
  intros Hne Hc Hg.
  destruct (zero_loop_spec sols Hne Hc goals coins [] (incl_nil_l _)) as [_ [_ H]].
  destruct (H g Hg) as [x [Hx [Hs Hb]]]. exists x. auto.
Qed.

Lemma zero_front_incl goals sols coins : sols <> [] -> consistent sols ->
  incl (zero_front goals sols coins) sols.
Proof.
  intros Hne Hc. destruct (zero_loop_spec sols Hne Hc goals coins [] (incl_nil_l _)) as [_ [H _]]. exact H.
Qed.

(* ---------- compute_ranking_assignment ---------- *)
Lemma ranking_fronts goals pop sols coins :
  sols <> [] -> consistent sols ->
  Z.of_nat (length (zero_front goals sols coins)) < pop ->
  exists fs, ranking goals pop sols coins = zero_front goals sols coins :: fs /\
             chain goals (remove_list (zero_front goals sols coins) sols) fs.
Proof.
  intros Hne Hc Hlt. unfold ranking. destruct sols as [|s0 r0] eqn:Es; [congruence|]. rewrite <- Es in *.
  apply Z.ltb_lt in Hlt. rewrite Hlt. eexists. split; [reflexivity|].
  apply later_fronts_chain. eapply consistent_incl; [exact Hc|apply remove_list_incl].
Qed.

(* when the zero front already fills the configured population, the rest is returned as ONE front,
   which need not be a non-dominated set: the statement "each later front is exactly the
   non-dominated set of the not yet ranked individuals" is false for that branch *)
Definition wit_sols : list ind :=
  [ {| key := 1; row := [0]; len := 1 |}; {| key := 2; row := [1]; len := 1 |};
    {| key := 3; row := [2]; len := 1 |} ].

Lemma ranking_full_zero_front_refuted :
  exists goals pop sols coins,
    sols <> [] /\ consistent sols /\
    ~ (exists fs, ranking goals pop sols coins = zero_front goals sols coins :: fs /\
                  chain goals (remove_list (zero_front goals sols coins) sols) fs).
Proof.
  exists [0%nat], 1, wit_sols, []. split; [discriminate|]. split.
  - intros x y Hx Hy. cbn in Hx, Hy.
    destruct Hx as [<-|[<-|[<-|[]]]]; destruct Hy as [<-|[<-|[<-|[]]]]; cbn; intro; try reflexivity; discriminate.
  - intros [fs [E Hch]]. vm_compute in E. inversion E; subst fs. cbn [chain] in Hch.
    destruct Hch as [Hf _]. vm_compute in Hf. discriminate.
Qed.

(* ---------- the fronts partition the population ---------- *)
Lemma filter_partition_perm {A} (P : A -> bool) l :
  Permutation (filter P l ++ filter (fun x => negb (P x)) l) l.
Proof.
  induction l as [|x r IH]; cbn [filter]; [constructor|].
  destruct (P x); cbn [negb app].
  - constructor. exact IH.
  - eapply Permutation_trans; [apply Permutation_sym, Permutation_middle|]. constructor. exact IH.
Qed.

Lemma later_fronts_complete : forall fuel goals pop ranked rem,
  consistent rem -> (length rem <= fuel)%nat -> ranked + Z.of_nat (length rem) <= pop ->
  Permutation (concat (later_fronts fuel goals pop ranked rem)) rem.
Proof.
  induction fuel as [|f IH]; intros goals pop ranked rem Hc Hf Hp.
  - destruct rem; [constructor|cbn [length] in Hf; lia].
  - cbn [later_fronts]. destruct rem as [|x r] eqn:Er; [rewrite andb_false_r; constructor|].
    rewrite <- Er in *. assert (Hl : (1 <= length rem)%nat) by (rewrite Er; cbn [length]; lia).
    assert (Hlt : ranked <? pop = true) by lia. rewrite Hlt.
    replace (is_nil rem) with false by (rewrite Er; reflexivity). cbn [negb andb concat].
    rewrite nds_exact by exact Hc. rewrite remove_filter by exact Hc.
    pose proof (filter_length_split (ndb goals rem) rem) as Hs.
    pose proof (nds_nonempty goals rem Hc ltac:(rewrite Er; discriminate)) as Hn.
    rewrite nds_exact in Hn by exact Hc.
    assert (1 <= length (filter (ndb goals rem) rem))%nat.
    { destruct (filter (ndb goals rem) rem); [congruence|cbn [length]; lia]. }
    eapply Permutation_trans; [|apply (filter_partition_perm (ndb goals rem))].
    apply Permutation_app_head. apply IH.
    + eapply consistent_incl; [exact Hc|]. intros y Hy. apply filter_In in Hy. tauto.
    + lia.
    + lia.
Qed.

Lemma remove_first_perm l x :
  consistent l -> In x l -> Permutation (x :: remove_first (key x) l) l.
Proof.
  induction l as [|y r IH]; intros Hc Hx; [destruct Hx|]. cbn [remove_first].
  destruct (key y =? key x) eqn:E.
  - apply Z.eqb_eq in E. assert (y = x) by (apply Hc; [left; reflexivity|exact Hx|exact E]). subst. apply Permutation_refl.
  - apply Z.eqb_neq in E. destruct Hx as [->|Hx]; [congruence|].
    eapply Permutation_trans; [apply perm_swap|]. constructor. apply IH; [|exact Hx].
    eapply consistent_incl; [exact Hc|apply incl_tl, incl_refl].
Qed.

Lemma in_remove_first_other k l y : In y l -> key y <> k -> In y (remove_first k l).
Proof.
  induction l as [|x r IH]; intros Hy Hk; [destruct Hy|]. cbn [remove_first].
  destruct (key x =? k) eqn:E.
  - apply Z.eqb_eq in E. destruct Hy as [->|Hy]; [congruence|exact Hy].
  - destruct Hy as [->|Hy]; [left; reflexivity|right; apply IH; assumption].
Qed.

Lemma remove_list_perm : forall xs l,
  consistent l -> NoDup (map key xs) -> incl xs l -> Permutation (xs ++ remove_list xs l) l.
Proof.
  induction xs as [|x r IH]; intros l Hc Hnd Hin; [apply Permutation_refl|].
  unfold remove_list. cbn [fold_left app]. fold (remove_list r (remove_first (key x) l)).
  inversion Hnd as [|k ks Hnk Hnd']; subst.
  eapply Permutation_trans; [|apply (remove_first_perm l x Hc); apply Hin; left; reflexivity].
  constructor. apply IH.
  - eapply consistent_incl; [exact Hc|apply remove_first_incl].
  - exact Hnd'.
  - intros y Hy. apply in_remove_first_other; [apply Hin; right; exact Hy|].
    intro Hk. apply Hnk. rewrite <- Hk. apply in_map. exact Hy.
Qed.

Lemma kmem_false k l : kmem k l = false -> ~ In k (map key l).
Proof.
  intros H Hin. apply in_map_iff in Hin. destruct Hin as [x [Hk Hx]].
  assert (kmem k l = true) by (apply kmem_true; exists x; auto). congruence.
Qed.

Lemma nodup_snoc {A} (a : A) l : NoDup l -> ~ In a l -> NoDup (l ++ [a]).
Proof.
  intros Hn Hi. apply (NoDup_Add (Add_app a l [])). rewrite app_nil_r. split; assumption.
Qed.

Lemma zero_loop_nodup sols : forall goals coins front,
  NoDup (map key front) -> NoDup (map key (fst (zero_loop goals sols coins front))).
Proof.
  induction goals as [|g r IH]; intros coins front Hnd; cbn [zero_loop]; [exact Hnd|].
  destruct (best_for g sols None coins) as [[b|] coins']; apply IH; [|exact Hnd].
  unfold oadd. destruct (kmem (key b) front) eqn:E; [exact Hnd|].
  rewrite map_app. cbn [map]. apply nodup_snoc; [exact Hnd|apply kmem_false; exact E].
Qed.

(* with room for everybody (configured population >= number of individuals) the fronts partition the
   population: every individual is in exactly one front *)
Lemma ranking_partition goals pop sols coins :
  sols <> [] -> consistent sols ->
  Z.of_nat (length (zero_front goals sols coins)) < pop -> Z.of_nat (length sols) <= pop ->
  Permutation (concat (ranking goals pop sols coins)) sols.
Proof.
  intros Hne Hc Hlt Hall. unfold ranking. destruct sols as [|s0 r0] eqn:Es; [congruence|]. rewrite <- Es in *.
  apply Z.ltb_lt in Hlt. rewrite Hlt. cbn [concat].
  set (zero := zero_front goals sols coins) in *.
  assert (Hperm : Permutation (zero ++ remove_list zero sols) sols).
  { apply remove_list_perm; [exact Hc| |apply zero_front_incl; assumption].
    unfold zero, zero_front. apply zero_loop_nodup. constructor. }
  eapply Permutation_trans; [|exact Hperm]. apply Permutation_app_head.
  apply later_fronts_complete.
  - eapply consistent_incl; [exact Hc|apply remove_list_incl].
  - lia.
  - apply Permutation_length in Hperm. rewrite app_length in Hperm. lia.
Qed.

(* ---------- fast_epsilon_dominance_assignment ---------- *)
Lemma minmax_mset g : forall front i mn mset mx,
  ((mn = None /\ mset = []) \/ (mn <> None /\ (1 <= length mset)%nat)) ->
  let '(mn', mset', _) := minmax g front i mn mset mx in
  (length mset' <= length mset + length front)%nat /\
  ((front <> [] \/ mn <> None) -> (1 <= length mset')%nat).
Proof.
  induction front as [|t r IH]; intros i mn mset mx Hinv; cbn [minmax length].
  - split; [lia|]. intros [H|H]; [congruence|]. destruct Hinv as [[-> _]|[_ Hl]]; [congruence|exact Hl].
  - destruct mn as [m|].
    + destruct Hinv as [[E _]|[_ Hl]]; [discriminate|].
      destruct (fit g t <? m) eqn:E1; [|destruct (fit g t =? m) eqn:E2].
      * specialize (IH (S i) (Some (fit g t)) [i] (Z.max (fit g t) mx)).
        destruct (minmax g r (S i) (Some (fit g t)) [i] (Z.max (fit g t) mx)) as [[mn' mset'] mx'].
        destruct IH as [I1 I2]; [right; split; [discriminate|cbn; lia]|].
        cbn [length] in I1. split; [lia|]. intros _. apply I2. right. discriminate.
      * specialize (IH (S i) (Some m) (mset ++ [i]) (Z.max (fit g t) mx)).
        destruct (minmax g r (S i) (Some m) (mset ++ [i]) (Z.max (fit g t) mx)) as [[mn' mset'] mx'].
        rewrite app_length in IH. cbn [length] in IH.
        destruct IH as [I1 I2]; [right; split; [discriminate|lia]|].
        split; [lia|]. intros _. apply I2. right. discriminate.
      * specialize (IH (S i) (Some m) mset (Z.max (fit g t) mx)).
        destruct (minmax g r (S i) (Some m) mset (Z.max (fit g t) mx)) as [[mn' mset'] mx'].
        destruct IH as [I1 I2]; [right; split; [discriminate|lia]|].
        split; [lia|]. intros _. apply I2. right. discriminate.
    + destruct Hinv as [[_ ->]|[E _]]; [|congruence].
      specialize (IH (S i) (Some (fit g t)) [i] (Z.max (fit g t) mx)).
      destruct (minmax g r (S i) (Some (fit g t)) [i] (Z.max (fit g t) mx)) as [[mn' mset'] mx'].
      destruct IH as [I1 I2]; [right; split; [discriminate|cbn; lia]|].
      cbn [length] in *. split; [lia|]. intros _. apply I2. right. discriminate.
Qed.

Definition in_unit (n : nat) (d : Z) : Prop := 0 <= d < Z.of_nat n.

Lemma bump_range n mset v : 0 <= v < Z.of_nat n -> forall d i,
  Forall (in_unit n) d -> Forall (in_unit n) (bump mset v i d) /\ length (bump mset v i d) = length d.
Proof.
  intros Hv. induction d as [|x r IH]; intros i Hd; cbn [bump length]; [split; [constructor|reflexivity]|].
  inversion Hd as [|x' r' Hx Hr]; subst. destruct (IH (S i) Hr) as [I1 I2]. split; [|lia].
  constructor; [|exact I1]. destruct (nmem i mset); [unfold in_unit in *; lia|exact Hx].
Qed.

Lemma crowd_goal_range front d g :
  length d = length front -> Forall (in_unit (length front)) d ->
  Forall (in_unit (length front)) (crowd_goal front d g) /\ length (crowd_goal front d g) = length front.
Proof.
  intros Hl Hd. unfold crowd_goal.
  pose proof (minmax_mset g front 0%nat None [] 0 (or_introl (conj eq_refl eq_refl))) as Hm.
  destruct (minmax g front 0%nat None [] 0) as [[mn mset] mx]. destruct Hm as [M1 M2]. cbn [length] in M1.
  destruct (match mn with Some m => mx =? m | None => false end); [split; assumption|].
  destruct front as [|t r] eqn:Ef.
  - destruct d; [|discriminate]. cbn. split; [constructor|reflexivity].
  - rewrite <- Ef in *. assert (1 <= length mset)%nat by (apply M2; left; rewrite Ef; discriminate).
    destruct (bump_range (length front) mset (Z.of_nat (length front) - Z.of_nat (length mset))
                ltac:(lia) d 0%nat Hd) as [B1 B2].
    split; [exact B1|lia].
Qed.

(* every crowding distance num/len(front) lies in [0, 1): 0 <= num < len(front) *)
Lemma crowding_in_unit goals front :
  Forall (in_unit (length front)) (crowding goals front) /\ length (crowding goals front) = length front.
Proof.
  unfold crowding.
  assert (H0 : Forall (in_unit (length front)) (map (fun _ : ind => 0) front) /\
               length (map (fun _ : ind => 0) front) = length front).
  { split; [|apply map_length]. apply Forall_forall. intros d Hd. apply in_map_iff in Hd.
    destruct Hd as [x [<- Hx]]. unfold in_unit. destruct front; [destruct Hx|cbn [length]; lia]. }
  revert H0. generalize (map (fun _ : ind => 0) front) as d.
  induction goals as [|g r IH]; intros d [Hd Hl]; cbn [fold_left]; [split; assumption|].
  apply IH. apply crowd_goal_range; assumption.
Qed.

(* ---------- RankSelection.get_index ---------- *)
(* whatever the float computation yields (any bias, any random value, any rounding): if an index
   is returned, it lies inside the population *)
Lemma get_index_in_range n b bsq r i : 1 <= n -> get_index n b bsq r = Idx i -> 0 <= i < n.
Proof.
  intros Hn. unfold get_index. destruct (position b bsq r) as [p|e]; [|discriminate].
  destruct (trunc (PrimFloat.mul (of_Z n) p)) as [j|e]; [|discriminate].
  intro E. inversion E. unfold clamp. lia.
Qed.

(* bias 1.0: uniform selection, never a division by zero *)
Lemma get_index_bias_one n bsq r : get_index n PrimFloat.one bsq r = match trunc (PrimFloat.mul (of_Z n) r) with
                                                        | Idx i => Idx (clamp n i) | Err e => Err e end.
Proof. reflexivity. Qed.

(* ---------- non-vacuity ---------- *)
Example ex_sols : list ind :=
  [ {| key := 1; row := [0; 5]; len := 3 |}; {| key := 2; row := [2; 1]; len := 2 |};
    {| key := 1; row := [0; 5]; len := 3 |}; {| key := 3; row := [2; 2]; len := 1 |};
    {| key := 4; row := [3; 3]; len := 1 |} ].

Example ex_consistent : consistent ex_sols /\ ex_sols <> [].
Proof.
  split; [|discriminate]. intros x y Hx Hy. cbn in Hx, Hy.
  destruct Hx as [<-|[<-|[<-|[<-|[<-|[]]]]]]; destruct Hy as [<-|[<-|[<-|[<-|[<-|[]]]]]]; cbn; intro;
    try reflexivity; discriminate.
Qed.

Example ex_ranking :
  map (map key) (ranking [0%nat; 1%nat] 10 ex_sols [true; false]) = [[1; 2]; [1; 3]; [4]].
Proof. vm_compute. reflexivity. Qed.

Example ex_zero_small : Z.of_nat (length (zero_front [0%nat; 1%nat] ex_sols [true; false])) < 10.
Proof. vm_compute. reflexivity. Qed.

Example ex_crowding : crowding [0%nat; 1%nat] ex_sols = [3; 4; 3; 0; 0].
Proof. vm_compute. reflexivity. Qed.
