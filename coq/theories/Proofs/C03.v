(* C03 — proofs. *)
From Coq Require Import List ZArith Bool Lia.
From Verif Require Import Models.C03.
Import ListNotations. Import C03.

Lemma possible_cases : forall v, possible v = true -> In v all_tos.
Proof.
  intros [t n] H. unfold possible in H. simpl in H.
  destruct t, n; simpl in *; try discriminate; auto.
Qed.

Lemma cond_ok_sound : forall lbl j p v, cond_ok lbl j p = true -> possible v = true ->
  edge_label lbl j v = recorded p v.
Proof.
  intros lbl j p v H Hp. unfold cond_ok in H. apply andb_prop in H. destruct H as [_ H].
  rewrite forallb_forall in H. specialize (H v (possible_cases v Hp)).
  apply Bool.eqb_prop in H. exact H.
Qed.

Lemma pair_list_eqb_single : forall l p b, pair_list_eqb l [(p, b)] = true -> l = [(p, b)].
Proof.
  intros l p b H. unfold pair_list_eqb in H. apply andb_prop in H. destruct H as [Hl Hf].
  destruct l as [|[q c] [|y r]]; simpl in Hl; try discriminate.
  simpl in Hf. rewrite andb_true_r in Hf. apply andb_prop in Hf. destruct Hf as [H1 H2].
  apply Nat.eqb_eq in H1. apply Bool.eqb_prop in H2. subst. reflexivity.
Qed.

Lemma in_combine_seq : forall A (g : list A) s t x,
  nth_error g t = Some x -> In (s + t, x) (combine (seq s (length g)) g).
Proof.
  intros A g. induction g as [|y r IH]; intros s t x H; [destruct t; discriminate|].
  destruct t as [|t]; simpl in *.
  - injection H as ->. left. rewrite Nat.add_0_r. reflexivity.
  - right. replace (s + S t) with (S s + t) by lia. apply IH. exact H.
Qed.

Lemma handler_is_plain_target : forall g t, is_handler g t = true -> In t (plain_targets g).
Proof.
  intros g t H. unfold is_handler, nth_block in H.
  destruct (nth_error g t) as [blk|] eqn:E; [|discriminate].
  unfold plain_targets. right. apply in_or_app. right.
  apply in_map_iff. exists (t, blk). split; [reflexivity|].
  apply filter_In. split; [|exact H].
  apply (in_combine_seq _ g 0 t blk E).
Qed.

Lemma succ_is_plain_target : forall g b blk c, nth_error g b = Some blk ->
  (match bterm blk with
   | TCond _ _ _ _ tgt nxt => c = tgt \/ c = nxt
   | TFor _ _ _ => False
   | TOther succs => In c succs end) -> In c (plain_targets g).
Proof.
  intros g b blk c E H. unfold plain_targets. right. apply in_or_app. left.
  apply in_flat_map. exists blk. split; [apply (nth_error_In _ _ E)|].
  destruct (bterm blk); simpl; [destruct H as [-> | ->]; auto|contradiction|exact H].
Qed.

Lemma plain_no_probes : forall g c, check_cfg g = true -> In c (plain_targets g) -> entry_events g c = [].
Proof.
  intros g c H Hin. unfold check_cfg in H. apply andb_prop in H. destruct H as [_ H].
  rewrite forallb_forall in H. specialize (H c Hin). unfold eprobes_of in H.
  destruct (entry_events g c); [reflexivity|discriminate].
Qed.

Lemma block_ok_of : forall g b blk, check_cfg g = true -> nth_error g b = Some blk -> block_ok g blk = true.
Proof.
  intros g b blk H E. unfold check_cfg in H. apply andb_prop in H. destruct H as [H _].
  rewrite forallb_forall in H. apply H. apply (nth_error_In _ _ E).
Qed.

(* Main invariant: the first block of the rest of the run was entered along [inc]. *)
Lemma branches_exact_gen : forall g, check_cfg g = true ->
  forall run cur inc, valid g cur run = true -> entry_events g cur = opt_list inc ->
  recorded_run g run = truth_run g inc run.
Proof.
  intros g Hg run. induction run as [|[b h] r IH]; intros cur inc Hv He; [reflexivity|].
  cbn [valid] in Hv. apply andb_prop in Hv. destruct Hv as [Hv Hrest].
  apply andb_prop in Hv. destruct Hv as [Hb Hok]. apply Nat.eqb_eq in Hb. subst b.
  cbn [recorded_run truth_run fst]. rewrite He. f_equal.
  destruct h as [v|more|n|t|].
  - (* Leave *)
    destruct (next g (cur, Leave v)) as [[c i]|] eqn:En; [|destruct r; discriminate].
    assert (Hr : valid g c r = true) by (destruct r; exact Hrest). clear Hrest.
    cbn [next] in En. unfold pred_event, cond_edge.
    destruct (nth_block g cur) as [blk|] eqn:Eb; [|discriminate].
    destruct (bterm blk) as [pid j lbl p tgt nxt| |] eqn:Et; try discriminate.
    injection En as <- <-.
    pose proof (block_ok_of g cur blk Hg Eb) as Hk. unfold block_ok in Hk. rewrite Et in Hk.
    apply andb_prop in Hk. destruct Hk as [Hk _]. apply andb_prop in Hk. destruct Hk as [Hk _].
    cbn [how_ok] in Hok. rewrite (cond_ok_sound lbl j p v Hk Hok). cbn [app]. f_equal.
    apply (IH _ None Hr). cbn [opt_list]. apply (plain_no_probes g _ Hg).
    apply (succ_is_plain_target g cur blk _ Eb). rewrite Et. destruct (taken j v); auto.
  - (* Iter *)
    destruct (next g (cur, Iter more)) as [[c i]|] eqn:En; [|destruct r; discriminate].
    assert (Hr : valid g c r = true) by (destruct r; exact Hrest). clear Hrest.
    cbn [next] in En. unfold pred_event, cond_edge.
    destruct (nth_block g cur) as [blk|] eqn:Eb; [|discriminate].
    destruct (bterm blk) as [|pid body exit|] eqn:Et; try discriminate.
    injection En as <- <-. cbn [app].
    pose proof (block_ok_of g cur blk Hg Eb) as Hk. unfold block_ok in Hk. rewrite Et in Hk.
    apply andb_prop in Hk. destruct Hk as [Hk _]. apply andb_prop in Hk. destruct Hk as [Hk _].
    apply andb_prop in Hk. destruct Hk as [Hbody Hexit].
    apply (IH _ _ Hr). cbn [opt_list]. unfold eprobes_of in *.
    destruct more; [apply (pair_list_eqb_single _ _ _ Hbody)|apply (pair_list_eqb_single _ _ _ Hexit)].
  - (* Go *)
    destruct (next g (cur, Go n)) as [[c i]|] eqn:En; [|destruct r; discriminate].
    assert (Hr : valid g c r = true) by (destruct r; exact Hrest). clear Hrest.
    cbn [next] in En. unfold pred_event, cond_edge.
    destruct (nth_block g cur) as [blk|] eqn:Eb; [|discriminate].
    destruct (bterm blk) as [| |succs] eqn:Et; try discriminate.
    destruct (existsb (Nat.eqb n) succs) eqn:Ex; [|discriminate]. injection En as <- <-. cbn [app].
    apply (IH _ None Hr). cbn [opt_list]. apply (plain_no_probes g _ Hg).
    apply (succ_is_plain_target g cur blk _ Eb). rewrite Et.
    apply existsb_exists in Ex. destruct Ex as [m [Hm Hnm]]. apply Nat.eqb_eq in Hnm. subst. exact Hm.
  - (* Exc *)
    destruct (next g (cur, Exc t)) as [[c i]|] eqn:En; [|destruct r; discriminate].
    assert (Hr : valid g c r = true) by (destruct r; exact Hrest). clear Hrest.
    cbn [next] in En. unfold pred_event, cond_edge.
    destruct (nth_block g cur) as [blk|] eqn:Eb; [|discriminate].
    destruct (is_handler g t) eqn:Eh; [|discriminate]. injection En as <- <-. cbn [app].
    apply (IH _ None Hr). cbn [opt_list]. apply (plain_no_probes g _ Hg).
    apply (handler_is_plain_target g t Eh).
  - (* Stop *)
    destruct r; [|discriminate]. unfold pred_event, cond_edge.
    destruct (nth_block g cur); reflexivity.
Qed.

Lemma zero_plain : forall g, In 0 (plain_targets g).
Proof. intro g. left. reflexivity. Qed.

(* branches_exact: for every well-formed instrumented CFG and every run from the entry block, the
   recorded (predicate, outcome) sequence equals the sequence of labelled edges the interpreter took *)
Lemma branches_exact : forall g run, check_cfg g = true -> valid g 0 run = true ->
  recorded_run g run = truth_run g None run.
Proof.
  intros g run Hg Hv. apply (branches_exact_gen g Hg run 0 None Hv).
  apply (plain_no_probes g 0 Hg (zero_plain g)).
Qed.

Lemma covered_iff_taken : forall g run pid v, check_cfg g = true -> valid g 0 run = true ->
  (In (pid, v) (recorded_run g run) <-> In (pid, v) (truth_run g None run)).
Proof. intros g run pid v Hg Hv. rewrite (branches_exact g run Hg Hv). tauto. Qed.

(* the labelling before the repair is inconsistent: with POP_JUMP_IF_NONE labelled False and the
   probe recording "is None", a run through the jump reports the outcome it did not take *)
Lemma old_none_labelling_refuted :
  exists g run, valid g 0 run = true /\ recorded_run g run <> truth_run g None run.
Proof.
  exists [ {| eprobes := []; bterm := old_none_block; handler := false |};
           {| eprobes := []; bterm := TOther []; handler := false |};
           {| eprobes := []; bterm := TOther []; handler := false |} ],
         [ (0, Leave {| truthy := false; isnone := true |}); (1, Stop) ].
  split; [reflexivity|]. cbv. discriminate.
Qed.

Lemma old_none_block_rejected : cond_ok false JN PIsNone = false.
Proof. reflexivity. Qed.

(* non-vacuity: a loop with a compare inside *)
Definition ex_cfg : cfg :=
  [ {| eprobes := []; bterm := TOther [1]; handler := false |};
    {| eprobes := []; bterm := TFor 0 2 4; handler := false |};
    {| eprobes := [(0, true)]; bterm := TCond 1 JF false PTruth 1 3; handler := false |};
    {| eprobes := []; bterm := TOther [1]; handler := false |};
    {| eprobes := [(0, false)]; bterm := TOther []; handler := false |} ].
Example ex_cfg_ok : check_cfg ex_cfg = true.
Proof. reflexivity. Qed.
Example ex_run :
  let run := [(0, Go 1); (1, Iter true); (2, Leave {| truthy := true; isnone := false |}); (3, Go 1);
              (1, Iter false); (4, Stop)] in
  valid ex_cfg 0 run = true /\ recorded_run ex_cfg run = [(0, true); (1, true); (0, false)].
Proof. split; reflexivity. Qed.
