(* C30 — proofs about the process-state model and the executor's bracket. *)
From Coq Require Import List ZArith Bool Lia.
From Verif Require Import Models.C30.
Import ListNotations.
Import C30.
Open Scope Z_scope.

Ltac crush_proc :=
  repeat match goal with
         | s : proc |- _ => destruct s
         | r : rng |- _ => destruct r
         | r : sref |- _ => destruct r
         | c : option bool |- _ => destruct c
         end; cbn in *.

(* ---------- what the code under test cannot do ---------- *)
Lemma act_step_pyn e a s : pyn_rng (fst (act_step e a s)) = pyn_rng s.
Proof.
  destruct a; try match goal with fd : nat |- _ => destruct fd as [|[|fd]] end; crush_proc; try reflexivity;
    repeat match goal with
           | |- context [match ?x with _ => _ end] => destruct x; cbn
           end; reflexivity.
Qed.

Lemma run_stmts_pyn e t : forall s, pyn_rng (fst (run_stmts e t s)) = pyn_rng s.
Proof.
  induction t as [|a t IH]; intro s; simpl; [reflexivity|].
  pose proof (act_step_pyn e a s) as H.
  destruct (act_step e a s) as [s' [|x]]; simpl in *.
  - specialize (IH s'). destruct (run_stmts e t s') as [s'' os]. simpl in *. congruence.
  - exact H.
Qed.

(* no action opens a descriptor *)
Lemma act_step_fds e a s :
  (fd0 (fst (act_step e a s)) = true -> fd0 s = true) /\
  (fd1 (fst (act_step e a s)) = true -> fd1 s = true) /\
  (fd2 (fst (act_step e a s)) = true -> fd2 s = true).
Proof.
  destruct a; try match goal with fd : nat |- _ => destruct fd as [|[|fd]] end; crush_proc; try (repeat split; intro H; exact H);
    repeat match goal with
           | |- context [match ?x with _ => _ end] => destruct x; cbn
           end; repeat split; intro H; try exact H; try discriminate.
Qed.

Lemma run_stmts_fds e t : forall s,
  (fd0 (fst (run_stmts e t s)) = true -> fd0 s = true) /\
  (fd1 (fst (run_stmts e t s)) = true -> fd1 s = true) /\
  (fd2 (fst (run_stmts e t s)) = true -> fd2 s = true).
Proof.
  induction t as [|a t IH]; intro s; simpl; [tauto|].
  pose proof (act_step_fds e a s) as H.
  destruct (act_step e a s) as [s' [|x]]; simpl in *.
  - specialize (IH s'). destruct (run_stmts e t s') as [s'' os]. simpl in *. tauto.
  - exact H.
Qed.

(* ---------- the bracket restores Pynguin's view ---------- *)
(* the part that is restored from every state *)
Definition rest_view (s : proc) := (s_in s, (fd0 s, fd1 s, fd2 s), logd s, pyn_rng s).
Definition std_streams (s : proc) : Prop := s_out s = Std /\ s_err s = Std.

Lemma restore_view sv s3 s :
  sv = save s -> pyn_rng s3 = pyn_rng s ->
  (fd0 s3 = true -> fd0 s = true) -> (fd1 s3 = true -> fd1 s = true) -> (fd2 s3 = true -> fd2 s = true) ->
  rest_view (restore sv s3) = rest_view s /\ std_streams (restore sv s3).
Proof.
  intros -> Hp H0 H1 H2. unfold rest_view, std_streams, restore, save. destruct s, s3. cbn in *. subst.
  split; [|split; reflexivity]. repeat f_equal.
  - destruct fd3; [reflexivity|]. destruct fd6; [|reflexivity]. symmetry. auto.
  - destruct fd4; [reflexivity|]. destruct fd7; [|reflexivity]. symmetry. auto.
  - destruct fd5; [reflexivity|]. destruct fd8; [|reflexivity]. symmetry. auto.
Qed.

Lemma view_make_deterministic e s :
  rest_view (make_deterministic e s) = rest_view s /\
  s_out (make_deterministic e s) = s_out s /\ s_err (make_deterministic e s) = s_err s.
Proof. destruct s; repeat split; reflexivity. Qed.

Lemma bracket_restores_prefix_gen e t s :
  let s' := restore (save (make_deterministic e s)) (fst (run_stmts e t (enter (make_deterministic e s)))) in
  rest_view s' = rest_view s /\ std_streams s'.
Proof.
  cbv zeta. destruct (view_make_deterministic e s) as [Hv _]. rewrite <- Hv.
  set (s1 := make_deterministic e s).
  pose proof (run_stmts_pyn e t (enter s1)) as Hp.
  pose proof (run_stmts_fds e t (enter s1)) as [H0 [H1 H2]].
  apply restore_view; [reflexivity| | | | ].
  - rewrite Hp. destruct s1; reflexivity.
  - intro H. apply H0 in H. destruct s1; exact H.
  - intro H. apply H1 in H. destruct s1; exact H.
  - intro H. apply H2 in H. destruct s1; exact H.
Qed.

Lemma views_combine s' s :
  rest_view s' = rest_view s -> std_streams s' -> std_streams s -> pyn_view s' = pyn_view s.
Proof.
  unfold rest_view, std_streams, pyn_view. intros H [A B] [C D]. inversion H. congruence.
Qed.

Lemma bracket_restores_prefix e t s :
  std_streams s ->
  pyn_view (restore (save (make_deterministic e s)) (fst (run_stmts e t (enter (make_deterministic e s)))))
  = pyn_view s.
Proof.
  intro Hs. destruct (bracket_restores_prefix_gen e t s) as [H1 H2]. apply views_combine; assumption.
Qed.

Theorem bracket_restores_gen e t s :
  rest_view (fst (exec_test e t s)) = rest_view s /\ std_streams (fst (exec_test e t s)).
Proof.
  unfold exec_test. cbv zeta.
  pose proof (bracket_restores_prefix_gen e t s) as H. cbv zeta in H.
  destruct (run_stmts e t (enter (make_deterministic e s))) as [s3 os]. exact H.
Qed.

Theorem bracket_restores e t s : std_streams s -> pyn_view (fst (exec_test e t s)) = pyn_view s.
Proof.
  intro Hs. destruct (bracket_restores_gen e t s) as [H1 H2]. apply views_combine; assumption.
Qed.

(* the time-out path: whatever the condemned thread still does during the grace join is covered *)
Lemma timeout_restores_gen e t1 t2 s :
  rest_view (exec_timeout e t1 t2 s) = rest_view s /\ std_streams (exec_timeout e t1 t2 s).
Proof.
  unfold exec_timeout. cbv zeta. destruct (view_make_deterministic e s) as [Hv _]. rewrite <- Hv.
  set (s1 := make_deterministic e s).
  pose proof (run_stmts_pyn e t1 (enter s1)) as Hp1.
  pose proof (run_stmts_fds e t1 (enter s1)) as [A0 [A1 A2]].
  set (s2 := fst (run_stmts e t1 (enter s1))) in *.
  pose proof (run_stmts_pyn e t2 s2) as Hp2.
  pose proof (run_stmts_fds e t2 s2) as [B0 [B1 B2]].
  change (restore_logging (save s1) (osc_restore (save s1) (fst (run_stmts e t2 s2))))
    with (restore (save s1) (fst (run_stmts e t2 s2))).
  apply restore_view; [reflexivity| | | | ].
  - rewrite Hp2, Hp1. destruct s1; reflexivity.
  - intro H. apply B0 in H. apply A0 in H. destruct s1; exact H.
  - intro H. apply B1 in H. apply A1 in H. destruct s1; exact H.
  - intro H. apply B2 in H. apply A2 in H. destruct s1; exact H.
Qed.

Theorem timeout_restores e t1 t2 s :
  std_streams s -> pyn_view (exec_timeout e t1 t2 s) = pyn_view s.
Proof.
  intro Hs. destruct (timeout_restores_gen e t1 t2 s) as [H1 H2]. apply views_combine; assumption.
Qed.

(* handing the logging level back BEFORE the grace join would not do: the condemned thread may still
   call logging.disable while the calling thread waits for it *)
Theorem early_logging_restore_refuted :
  exists e t1 t2 s, std_streams s /\ pyn_view (exec_timeout_early_logging e t1 t2 s) <> pyn_view s.
Proof.
  exists {| cfg_seed := 0; table := [] |}, [], [LogDisable 50],
    {| s_out := Std; s_err := Std; s_in := Std; nullw_closed := false; nullr_closed := false;
       fd0 := true; fd1 := true; fd2 := true; logd := 0;
       mod_rng := (0, O); inst_rng := (0, O); pyn_rng := (0, O); counter := 0; log_cache := None |}.
  split; [split; reflexivity|]. vm_compute. discriminate.
Qed.

(* with a replaced sys.stdout (an application embedding Pynguin, a test runner capturing output)
   the stream is NOT the one from before *)
Definition refute_proc : proc :=
  {| s_out := Other false; s_err := Std; s_in := Std; nullw_closed := false; nullr_closed := false;
     fd0 := true; fd1 := true; fd2 := true; logd := 0;
     mod_rng := (0, O); inst_rng := (0, O); pyn_rng := (0, O); counter := 0; log_cache := None |}.

Theorem bracket_restores_refuted :
  exists e t s, pyn_view (fst (exec_test e t s)) <> pyn_view s.
Proof.
  exists {| cfg_seed := 0; table := [] |}, [], refute_proc. vm_compute. discriminate.
Qed.

Theorem restore_idempotent sv s : restore sv (restore sv s) = restore sv s.
Proof. destruct sv as [? ? [|] [|] [|]], s; reflexivity. Qed.

(* the part of the process state an execution can depend on and the bracket hands back *)
Definition ambient (s : proc) := (fd0 s, fd1 s, fd2 s, logd s).

Lemma rest_view_ambient s' s : rest_view s' = rest_view s -> ambient s' = ambient s.
Proof. unfold rest_view, ambient. intro H. inversion H. reflexivity. Qed.

Lemma item_step_ambient e s i : ambient (item_step e s i) = ambient s.
Proof.
  destruct i; simpl.
  - apply rest_view_ambient. apply (proj1 (bracket_restores_gen e t s)).
  - apply rest_view_ambient. apply (proj1 (timeout_restores_gen e t1 t2 s)).
  - unfold ambient. destruct s. cbn. destruct pyn_rng0. reflexivity.
Qed.

Lemma run_items_ambient e l : forall s, ambient (run_items e s l) = ambient s.
Proof.
  unfold run_items. induction l as [|i l IH]; intro s; simpl; [reflexivity|].
  rewrite IH. apply item_step_ambient.
Qed.

(* executions never touch Pynguin's view, however many run *)
Lemma run_items_execs_view e l : forall s,
  std_streams s -> Forall (fun i => i <> PynDraw) l -> pyn_view (run_items e s l) = pyn_view s.
Proof.
  unfold run_items. induction l as [|i l IH]; intros s Hs H; simpl; [reflexivity|].
  inversion H as [|? ? Hi Hl]. subst.
  destruct i as [t|t1 t2|]; [| |congruence]; simpl.
  - rewrite IH; [apply bracket_restores; exact Hs| |exact Hl].
    apply (proj2 (bracket_restores_gen e t s)).
  - rewrite IH; [apply timeout_restores; exact Hs| |exact Hl].
    apply (proj2 (timeout_restores_gen e t1 t2 s)).
Qed.

(* ---------- results do not depend on what ran before ---------- *)
Definition erase (s : proc) : proc := set_cache None (set_counter 0 (set_pyn (0, O) s)).

Lemma act_step_sim e a s1 s2 :
  a <> ReadCounter -> erase s1 = erase s2 -> cache_ok s1 -> cache_ok s2 ->
  erase (fst (act_step e a s1)) = erase (fst (act_step e a s2)) /\
  snd (act_step e a s1) = snd (act_step e a s2) /\
  cache_ok (fst (act_step e a s1)) /\ cache_ok (fst (act_step e a s2)).
Proof.
  intros Hne H C1 C2. destruct s1, s2. unfold erase in H. cbn in H. inversion H. subst. clear H.
  unfold cache_ok in *. cbn in C1, C2.
  destruct a; try congruence; try match goal with fd : nat |- _ => destruct fd as [|[|fd]] end; 
    repeat match goal with
           | r : rng |- _ => destruct r
           | r : sref |- _ => destruct r
           | c : option bool |- _ => destruct c
           end; cbn in *; subst;
    repeat match goal with
           | |- context [match ?x with _ => _ end] => destruct x; cbn
           end; repeat split; try reflexivity; try assumption.
Qed.

Lemma run_stmts_sim e t : forall s1 s2,
  reads_hidden t = false -> erase s1 = erase s2 -> cache_ok s1 -> cache_ok s2 ->
  erase (fst (run_stmts e t s1)) = erase (fst (run_stmts e t s2)) /\
  snd (run_stmts e t s1) = snd (run_stmts e t s2).
Proof.
  induction t as [|a t IH]; intros s1 s2 H He C1 C2; simpl; [split; [exact He|reflexivity]|].
  simpl in H. apply orb_false_iff in H. destruct H as [Ha Ht].
  assert (Hne : a <> ReadCounter) by (intros ->; discriminate).
  destruct (act_step_sim e a s1 s2 Hne He C1 C2) as [He' [Ho [C1' C2']]].
  destruct (act_step e a s1) as [s1' o1]; destruct (act_step e a s2) as [s2' o2]. simpl in *. subst o2.
  destruct o1 as [|x]; [|split; [exact He'|reflexivity]].
  destruct (IH s1' s2' Ht He' C1' C2') as [He'' Ho'].
  destruct (run_stmts e t s1') as [s1'' os1]; destruct (run_stmts e t s2') as [s2'' os2].
  simpl in *. subst. split; [exact He''|reflexivity].
Qed.

Lemma erase_enter e s1 s2 :
  ambient s1 = ambient s2 ->
  erase (enter (make_deterministic e s1)) = erase (enter (make_deterministic e s2)).
Proof. unfold ambient. destruct s1, s2. cbn. intro H. inversion H. reflexivity. Qed.

Lemma cache_ok_enter e s : cache_ok s -> cache_ok (enter (make_deterministic e s)).
Proof. destruct s. unfold cache_ok. cbn. exact (fun H => H). Qed.

Lemma result_run e t s : result e t s = snd (run_stmts e t (enter (make_deterministic e s))).
Proof.
  unfold result, exec_test. cbv zeta.
  destruct (run_stmts e t (enter (make_deterministic e s))) as [s3 os]. reflexivity.
Qed.

(* after the bracket no stale answer is cached *)
Lemma restore_cache sv s : log_cache (restore sv s) = None.
Proof. destruct sv, s. reflexivity. Qed.

Lemma exec_test_cache e t s : log_cache (fst (exec_test e t s)) = None.
Proof.
  unfold exec_test. cbv zeta.
  destruct (run_stmts e t (enter (make_deterministic e s))) as [s3 os]. apply restore_cache.
Qed.

Lemma exec_timeout_cache e t1 t2 s : log_cache (exec_timeout e t1 t2 s) = None.
Proof. unfold exec_timeout. cbv zeta. apply (restore_cache). Qed.

Lemma item_step_cache_ok e s i : cache_ok s -> cache_ok (item_step e s i).
Proof.
  intro C. destruct i; simpl.
  - unfold cache_ok. rewrite exec_test_cache. exact I.
  - unfold cache_ok. rewrite exec_timeout_cache. exact I.
  - destruct s. cbn in *. destruct pyn_rng0. exact C.
Qed.

Lemma run_items_cache_ok e l : forall s, cache_ok s -> cache_ok (run_items e s l).
Proof.
  unfold run_items. induction l as [|i l IH]; intros s C; simpl; [exact C|].
  apply IH. apply item_step_cache_ok. exact C.
Qed.

Theorem result_depends_on_ambient_only e t s1 s2 :
  reads_hidden t = false -> cache_ok s1 -> cache_ok s2 -> ambient s1 = ambient s2 ->
  result e t s1 = result e t s2.
Proof.
  intros H C1 C2 Ha. rewrite !result_run.
  apply (run_stmts_sim e t _ _ H (erase_enter e s1 s2 Ha) (cache_ok_enter e s1 C1) (cache_ok_enter e s2 C2)).
Qed.

Theorem order_independent e items t s :
  reads_hidden t = false -> cache_ok s -> result e t (run_items e s items) = result e t s.
Proof.
  intros H C. apply result_depends_on_ambient_only;
    [exact H|apply run_items_cache_ok; exact C|exact C|apply run_items_ambient].
Qed.

(* the effective behaviour of existing loggers (isEnabledFor) is as before, not only the number *)
Lemma log_loud_fresh s : log_cache s = None -> log_loud s = loud (logd s).
Proof. unfold log_loud, consult. intros ->. reflexivity. Qed.

Lemma log_loud_ok s : cache_ok s -> log_loud s = loud (logd s).
Proof. unfold cache_ok, log_loud, consult. destruct (log_cache s); simpl; [intros ->|]; reflexivity. Qed.

Lemma rest_view_logd s' s : rest_view s' = rest_view s -> logd s' = logd s.
Proof. unfold rest_view. intro H. inversion H. reflexivity. Qed.

Theorem logging_behaviour_restored e t s :
  cache_ok s -> log_loud (fst (exec_test e t s)) = log_loud s.
Proof.
  intro C. rewrite (log_loud_fresh _ (exec_test_cache e t s)), (log_loud_ok s C).
  rewrite (rest_view_logd _ _ (proj1 (bracket_restores_gen e t s))). reflexivity.
Qed.

Theorem logging_behaviour_restored_timeout e t1 t2 s :
  cache_ok s -> log_loud (exec_timeout e t1 t2 s) = log_loud s.
Proof.
  intro C. rewrite (log_loud_fresh _ (exec_timeout_cache e t1 t2 s)), (log_loud_ok s C).
  rewrite (rest_view_logd _ _ (proj1 (timeout_restores_gen e t1 t2 s))). reflexivity.
Qed.

(* handing only the number back (assigning manager.disable) is not enough *)
Definition exec_test_level_only (e : env) (t : list act) (s : proc) : proc :=
  let s1 := make_deterministic e s in
  let sv := save s1 in
  restore_logging_level_only sv (osc_restore sv (fst (run_stmts e t (enter s1)))).

Theorem level_only_restore_refuted :
  exists e t s, cache_ok s /\ logd (exec_test_level_only e t s) = logd s /\
                log_loud (exec_test_level_only e t s) <> log_loud s.
Proof.
  exists {| cfg_seed := 0; table := [] |}, [LogDisable 50; LogEmit],
    {| s_out := Std; s_err := Std; s_in := Std; nullw_closed := false; nullr_closed := false;
       fd0 := true; fd1 := true; fd2 := true; logd := 0;
       mod_rng := (0, O); inst_rng := (0, O); pyn_rng := (0, O); counter := 0; log_cache := None |}.
  split; [exact I|]. split; [reflexivity|]. vm_compute. discriminate.
Qed.

(* every execution starts with usable null streams and freshly seeded generators *)
Theorem print_never_poisoned e s : result e [Print; PrintErr; ReadIn] s = [Done; Done; Done].
Proof. destruct s; reflexivity. Qed.

Theorem draws_reseeded e s :
  result e [Draw] s = [if low e (cfg_seed e) 0 then Exc ERuntime else Done] /\
  result e [DrawInst] s = [if low e (cfg_seed e) 0 then Exc ERuntime else Done].
Proof.
  destruct s. unfold result, exec_test. cbn.
  destruct (low e (cfg_seed e) 0); split; reflexivity.
Qed.

(* ---------- non-vacuity ---------- *)
Definition ex_env : env := {| cfg_seed := 7; table := [(7, [true; false; true]); (3, [false; true])] |}.
Definition ex_proc : proc :=
  {| s_out := Std; s_err := Std; s_in := Other false; nullw_closed := false; nullr_closed := false;
     fd0 := true; fd1 := true; fd2 := true; logd := 10;
     mod_rng := (1, 5%nat); inst_rng := (5, 0%nat); pyn_rng := (99, 3%nat); counter := 0; log_cache := Some true |}.

(* a test that closes everything, disables logging, reseeds and draws; the state inside the
   bracket really changes, the view afterwards is the one from before *)
Definition ex_test : list act :=
  [CloseOut; CloseIn; SetOut; OsClose 1; OsClose 0; LogDisable 50; Seed 3; Draw; Bump; Draw].

Example ex_bracket :
  let inside := fst (run_stmts ex_env ex_test (enter (make_deterministic ex_env ex_proc))) in
  let after := fst (exec_test ex_env ex_test ex_proc) in
  (s_out inside, fd1 inside, fd0 inside, logd inside, nullw_closed inside) = (Other false, false, false, 50, true) /\
  result ex_env ex_test ex_proc = [Done; Done; Done; Done; Done; Done; Done; Done; Done; Exc ERuntime] /\
  pyn_view after = pyn_view ex_proc /\ nullw_closed after = true /\
  result ex_env [Print; LogCheck; OsFstat 1] after = [Done; Done; Done].
Proof. vm_compute. repeat split; reflexivity. Qed.
