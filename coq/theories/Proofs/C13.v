(* C13 — proofs about the archive model (Models/C13.v). *)
From Coq Require Import List ZArith Bool Lia.
From Verif Require Import Models.C13.
Import ListNotations. Import C13.
Open Scope Z_scope.

(* ---------------------------------------------------------------- basics *)
Lemma mem_In x l : mem x l = true <-> In x l.
Proof.
  unfold mem. rewrite existsb_exists. split.
  - intros (y & Hy & E). apply Z.eqb_eq in E. now subst.
  - intros H. exists x. split; auto. apply Z.eqb_refl.
Qed.

Lemma mem_false x l : mem x l = false <-> ~ In x l.
Proof. rewrite <- mem_In. destruct (mem x l); split; congruence. Qed.

Section AssocFacts.
Context {V : Type}.
Implicit Types (l : list (Z * V)).

Lemma lookup_in k l v : lookup k l = Some v -> In (k, v) l.
Proof.
  induction l as [|[k' v'] r IH]; simpl; [discriminate|].
  destruct (Z.eqb k k') eqn:E.
  - intros H; inversion H; subst. apply Z.eqb_eq in E; subst. now left.
  - intros H; right; auto.
Qed.

Lemma lookup_none k l : lookup k l = None <-> ~ In k (keys l).
Proof.
  induction l as [|[k' v'] r IH]; simpl; [tauto|].
  destruct (Z.eqb k k') eqn:E.
  - apply Z.eqb_eq in E; subst. split; [discriminate|]. intros H; exfalso; apply H; now left.
  - apply Z.eqb_neq in E. rewrite IH. split; intros H; [intros [H1|H1]; [congruence|auto]|auto].
Qed.

Lemma lookup_some_keys k l v : lookup k l = Some v -> In k (keys l).
Proof. intros H. apply lookup_in in H. apply (in_map fst) in H. exact H. Qed.

Lemma in_keys_lookup k l : In k (keys l) -> exists v, lookup k l = Some v.
Proof.
  intros H. destruct (lookup k l) eqn:E; [eauto|]. apply lookup_none in E. contradiction.
Qed.

Lemma lookup_put_eq k v l : lookup k (put k v l) = Some v.
Proof.
  induction l as [|[k' v'] r IH]; simpl.
  - now rewrite Z.eqb_refl.
  - destruct (Z.eqb k k') eqn:E; simpl; [now rewrite Z.eqb_refl|now rewrite E].
Qed.

Lemma lookup_put_neq k k' v l : k' <> k -> lookup k' (put k v l) = lookup k' l.
Proof.
  intros N. induction l as [|[k2 v2] r IH]; simpl.
  - apply Z.eqb_neq in N. now rewrite N.
  - destruct (Z.eqb k k2) eqn:E; simpl.
    + apply Z.eqb_eq in E; subst. apply Z.eqb_neq in N. now rewrite N.
    + destruct (Z.eqb k' k2); auto.
Qed.

Lemma keys_put k v l : keys (put k v l) = if mem k (keys l) then keys l else keys l ++ [k].
Proof.
  induction l as [|[k' v'] r IH]; simpl; [reflexivity|].
  destruct (Z.eqb k k') eqn:E; simpl.
  - apply Z.eqb_eq in E; subst; reflexivity.
  - rewrite IH. destruct (mem k (keys r)); reflexivity.
Qed.

Lemma in_put k v l k' v' : In (k', v') (put k v l) -> (k', v') = (k, v) \/ In (k', v') l.
Proof.
  induction l as [|[k2 v2] r IH]; simpl.
  - intros [H|[]]; auto.
  - destruct (Z.eqb k k2) eqn:E; simpl.
    + intros [H|H]; auto.
    + intros [H|H]; auto. destruct (IH H); auto.
Qed.
End AssocFacts.

Lemma NoDup_snoc {A} (l : list A) x : NoDup l -> ~ In x l -> NoDup (l ++ [x]).
Proof.
  induction l as [|y r IH]; simpl; intros Hn Hx.
  - constructor; [auto|constructor].
  - inversion Hn; subst. constructor.
    + rewrite in_app_iff; simpl. intros [H|[H|[]]]; auto.
    + apply IH; auto.
Qed.

Lemma NoDup_filter' {A} (f : A -> bool) l : NoDup l -> NoDup (filter f l).
Proof.
  induction 1 as [|x l Hx Hn IH]; simpl; [constructor|].
  destruct (f x); auto. constructor; auto. rewrite filter_In. tauto.
Qed.

Lemma in_remove g x l : In x (remove g l) <-> In x l /\ x <> g.
Proof.
  unfold remove. rewrite filter_In. rewrite negb_true_iff, Z.eqb_neq. tauto.
Qed.

Lemma NoDup_oadd g l : NoDup l -> NoDup (oadd g l).
Proof.
  intros H. unfold oadd. destruct (mem g l) eqn:E; auto. apply NoDup_snoc; auto. now apply mem_false.
Qed.

Lemma in_oadd g x l : In x (oadd g l) <-> In x l \/ x = g.
Proof.
  unfold oadd. destruct (mem g l) eqn:E.
  - apply mem_In in E. split; [auto|]. intros [H|H]; subst; auto.
  - rewrite in_app_iff. simpl. split; intros [H|H]; auto. destruct H as [H|[]]; auto.
Qed.

(* ---------------------------------------------------------------- CoverageArchive *)
Definition ckeys (a : arch) : list Z := keys (covered a).

Record AInv (a : arch) : Prop := {
  i_nodup : NoDup (ckeys a);
  i_covers : forall g s, In (g, s) (covered a) -> covers s g = true;
  i_unc : forall g, In g (uncovered a) <-> In g (objectives a) /\ ~ In g (ckeys a);
  i_sub : incl (ckeys a) (objectives a);
  i_nd_obj : NoDup (objectives a);
  i_nd_unc : NoDup (uncovered a);
  i_nd_fired : NoDup (fired a);
  i_fired : forall g, In g (fired a) <-> In g (ckeys a) }.

(* the rule a replacement has to obey (CoverageArchive: strictly shorter) *)
Definition repl (g : Z) (old new : sol) : Prop :=
  covers new g = true /\ ((erroneous old = true /\ clean new = true) \/ ssize new < ssize old).

(* how the entry of a goal may evolve: never back to "uncovered", every change obeys [repl] *)
Inductive evolves (g : Z) : option sol -> option sol -> Prop :=
  | ev_refl o : evolves g o o
  | ev_first s o' : covers s g = true -> evolves g (Some s) o' -> evolves g None o'
  | ev_repl old s o' : repl g old s -> evolves g (Some s) o' -> evolves g (Some old) o'.

Lemma evolves_trans g a b c : evolves g a b -> evolves g b c -> evolves g a c.
Proof. induction 1; intros H2; auto; econstructor; eauto. Qed.

Lemma evolves_some g s o : evolves g (Some s) o -> exists s', o = Some s'.
Proof.
  intros H. remember (Some s) as x eqn:E. revert s E.
  induction H; intros s0 E; subst; eauto; try discriminate.
Qed.

Lemma better_strict_repl g old s : covers s g = true -> better_strict old s = true -> repl g old s.
Proof.
  unfold better_strict, repl. intros Hc H. split; auto.
  destruct (erroneous old && clean s) eqn:E.
  - apply andb_true_iff in E. left; exact E.
  - right. now apply Z.ltb_lt.
Qed.

Lemma assign_inv g s a : AInv a -> In g (objectives a) -> covers s g = true -> AInv (assign g s a).
Proof.
  intros I Hg Hc. destruct I as [I1 I2 I3 I4 I5 I6 I7 I8].
  assert (Hk : ckeys (assign g s a) = if mem g (ckeys a) then ckeys a else ckeys a ++ [g])
    by (unfold ckeys, assign; simpl; apply keys_put).
  assert (Hin : forall x, In x (ckeys (assign g s a)) <-> In x (ckeys a) \/ x = g).
  { intros x. rewrite Hk. destruct (mem g (ckeys a)) eqn:E.
    - apply mem_In in E. split; [auto|]. intros [H|H]; subst; auto.
    - rewrite in_app_iff; simpl. split; intros [H|H]; auto. destruct H as [H|[]]; auto. }
  constructor.
  - rewrite Hk. destruct (mem g (ckeys a)) eqn:E; auto. apply NoDup_snoc; auto. now apply mem_false.
  - simpl. intros g' s' H. apply in_put in H. destruct H as [H|H]; [inversion H; subst; auto|eauto].
  - intros x. simpl. rewrite in_remove, I3, Hin. split.
    + intros [[H1 H2] H3]. split; auto. intros [H|H]; auto.
    + intros [H1 H2]. split; [split; auto|]; intros H; apply H2; auto.
  - intros x Hx. apply Hin in Hx. destruct Hx as [Hx|Hx]; subst; auto.
  - exact I5.
  - simpl. now apply NoDup_filter'.
  - simpl. destruct (mem g (uncovered a)) eqn:E; auto.
    apply mem_In in E. apply I3 in E. apply NoDup_snoc; auto. rewrite I8. tauto.
  - intros x. simpl. rewrite Hin. destruct (mem g (uncovered a)) eqn:E.
    + rewrite in_app_iff, I8. simpl. split; intros [H|H]; auto. destruct H as [H|[]]; auto.
    + rewrite I8. split; [auto|]. intros [H|H]; auto. subst.
      apply mem_false in E. rewrite I3 in E.
      destruct (in_dec Z.eq_dec g (ckeys a)) as [i|n]; auto. exfalso; apply E; auto.
Qed.

Lemma assign_lookup g s a g' :
  lookup g' (covered (assign g s a)) = if Z.eqb g' g then Some s else lookup g' (covered a).
Proof.
  simpl. destruct (Z.eqb g' g) eqn:E.
  - apply Z.eqb_eq in E; subst. apply lookup_put_eq.
  - apply Z.eqb_neq in E. now apply lookup_put_neq.
Qed.

Definition same_frame (a a' : arch) : Prop := objectives a' = objectives a.
Ltac triv3 := split; [assumption|split; [first [reflexivity|apply incl_refl]|intros; apply ev_refl]].

(* one (objective, solution) pair *)
Lemma consider_ok g st s : AInv (fst st) -> In g (objectives (fst st)) ->
  let st' := consider g st s in
  AInv (fst st') /\ same_frame (fst st) (fst st') /\
  (forall g', evolves g' (lookup g' (covered (fst st))) (lookup g' (covered (fst st')))).
Proof.
  intros I Hg. unfold consider.
  destruct (covers s g) eqn:Hc; [|triv3].
  destruct (lookup g (covered (fst st))) as [best|] eqn:El.
  - destruct (better_strict best s) eqn:Hb; [|triv3].
    simpl. split; [now apply assign_inv|]. split; [reflexivity|].
    intros g'. change (lookup g' (put g s (covered (fst st)))) with (lookup g' (covered (assign g s (fst st)))).
    rewrite assign_lookup. destruct (Z.eqb g' g) eqn:E; [|apply ev_refl].
    apply Z.eqb_eq in E; subst. rewrite El. eapply ev_repl; [|apply ev_refl].
    now apply better_strict_repl.
  - simpl. split; [now apply assign_inv|]. split; [reflexivity|].
    intros g'. change (lookup g' (put g s (covered (fst st)))) with (lookup g' (covered (assign g s (fst st)))).
    rewrite assign_lookup. destruct (Z.eqb g' g) eqn:E; [|apply ev_refl].
    apply Z.eqb_eq in E; subst. rewrite El. eapply ev_first; [exact Hc|apply ev_refl].
Qed.

Lemma consider_fold_ok g sols : forall st, AInv (fst st) -> In g (objectives (fst st)) ->
  let st' := fold_left (consider g) sols st in
  AInv (fst st') /\ same_frame (fst st) (fst st') /\
  (forall g', evolves g' (lookup g' (covered (fst st))) (lookup g' (covered (fst st')))).
Proof.
  induction sols as [|s r IH]; intros st I Hg; simpl.
  - triv3.
  - destruct (consider_ok g st s I Hg) as (I1 & F1 & E1).
    assert (Hg1 : In g (objectives (fst (consider g st s)))) by (rewrite F1; exact Hg).
    destruct (IH _ I1 Hg1) as (I2 & F2 & E2).
    split; [exact I2|]. split; [unfold same_frame in *; congruence|].
    intros g'. eapply evolves_trans; eauto.
Qed.

Lemma objectives_fold_ok gs sols : forall st, AInv (fst st) -> incl gs (objectives (fst st)) ->
  let st' := fold_left (fun st g => fold_left (consider g) sols st) gs st in
  AInv (fst st') /\ same_frame (fst st) (fst st') /\
  (forall g', evolves g' (lookup g' (covered (fst st))) (lookup g' (covered (fst st')))).
Proof.
  induction gs as [|g r IH]; intros st I Hi; simpl.
  - triv3.
  - assert (Hg : In g (objectives (fst st))) by (apply Hi; now left).
    destruct (consider_fold_ok g sols st I Hg) as (I1 & F1 & E1).
    assert (Hi1 : incl r (objectives (fst (fold_left (consider g) sols st)))).
    { rewrite F1. intros x Hx; apply Hi; now right. }
    destruct (IH _ I1 Hi1) as (I2 & F2 & E2).
    split; [exact I2|]. split; [unfold same_frame in *; congruence|].
    intros g'. eapply evolves_trans; eauto.
Qed.

Theorem update_ok sols a : AInv a ->
  AInv (fst (update sols a)) /\ objectives (fst (update sols a)) = objectives a /\
  (forall g, evolves g (lookup g (covered a)) (lookup g (covered (fst (update sols a))))).
Proof.
  intros I. unfold update.
  exact (objectives_fold_ok (objectives a) sols (a, false) I (incl_refl _)).
Qed.

Lemma add_goal_ok a g : AInv a ->
  AInv (add_goal a g) /\ covered (add_goal a g) = covered a /\ incl (objectives a) (objectives (add_goal a g)).
Proof.
  intros I. unfold add_goal. destruct (mem g (objectives a)) eqn:E.
  - split; [assumption|split; [reflexivity|apply incl_refl]].
  - apply mem_false in E. destruct I as [I1 I2 I3 I4 I5 I6 I7 I8].
    split; [|split; [reflexivity|simpl; apply incl_appl, incl_refl]].
    assert (Hgk : ~ In g (ckeys a)) by (intros H; apply E; now apply I4).
    constructor; simpl; auto.
    + intros x. rewrite in_oadd, in_app_iff, I3. simpl. unfold ckeys; simpl. split.
      * intros [[H1 H2]|H]; [auto|subst; auto].
      * intros [[H|[H|[]]] H2]; [left; auto|right; auto].
    + intros x Hx. apply in_or_app. left. now apply I4.
    + apply NoDup_snoc; auto.
    + now apply NoDup_oadd.
Qed.

Theorem add_goals_ok gs : forall a, AInv a ->
  AInv (add_goals gs a) /\ covered (add_goals gs a) = covered a /\ incl (objectives a) (objectives (add_goals gs a)).
Proof.
  unfold add_goals. induction gs as [|g r IH]; intros a I; simpl.
  - split; [assumption|split; [reflexivity|apply incl_refl]].
  - destruct (add_goal_ok a g I) as (I1 & C1 & O1). destruct (IH _ I1) as (I2 & C2 & O2).
    split; [exact I2|]. split; [congruence|]. eapply incl_tran; eauto.
Qed.

Lemma new_arch_inv objs : AInv (new_arch objs).
Proof.
  unfold new_arch.
  assert (N : forall l acc, NoDup acc -> NoDup (fold_left (fun l g => oadd g l) l acc)).
  { induction l as [|g r IH]; intros acc H; simpl; auto. apply IH. now apply NoDup_oadd. }
  constructor; simpl.
  - constructor.
  - intros g s [].
  - intros g. unfold ckeys; simpl. tauto.
  - intros x [].
  - apply N; constructor.
  - apply N; constructor.
  - constructor.
  - intros g. unfold ckeys; simpl. tauto.
Qed.

Theorem astep_ok a op : AInv a ->
  AInv (fst (astep a op)) /\ incl (objectives a) (objectives (fst (astep a op))) /\
  (forall g, evolves g (lookup g (covered a)) (lookup g (covered (fst (astep a op))))).
Proof.
  intros I. destruct op as [sols|gs]; simpl.
  - destruct (update sols a) as [a' b] eqn:E.
    pose proof (update_ok sols a I) as H. rewrite E in H. simpl in *.
    destruct H as (H1 & H2 & H3). split; auto. split; auto. rewrite H2. apply incl_refl.
  - destruct (add_goals_ok gs a I) as (H1 & H2 & H3). split; auto. split; auto.
    intros g. rewrite H2. apply ev_refl.
Qed.

Theorem arun_ok ops : forall a, AInv a ->
  AInv (arun a ops) /\ incl (objectives a) (objectives (arun a ops)) /\
  (forall g, evolves g (lookup g (covered a)) (lookup g (covered (arun a ops)))).
Proof.
  unfold arun. induction ops as [|op r IH]; intros a I; simpl.
  - triv3.
  - destruct (astep_ok a op I) as (I1 & O1 & E1). destruct (IH _ I1) as (I2 & O2 & E2).
    split; auto. split; [eapply incl_tran; eauto|]. intros g. eapply evolves_trans; eauto.
Qed.

(* the covered set only grows *)
Corollary covered_monotone ops a : AInv a -> incl (ckeys a) (ckeys (arun a ops)).
Proof.
  intros I g Hg. destruct (arun_ok ops a I) as (_ & _ & E).
  apply in_keys_lookup in Hg. destruct Hg as [s Hs]. specialize (E g). rewrite Hs in E.
  apply evolves_some in E. destruct E as [s' E]. eapply lookup_some_keys; eauto.
Qed.

Corollary archived_covers ops a g s : AInv a -> In (g, s) (covered (arun a ops)) -> covers s g = true.
Proof. intros I H. destruct (arun_ok ops a I) as (I' & _). eapply i_covers; eauto. Qed.

Corollary partition ops a g : AInv a ->
  (In g (uncovered (arun a ops)) <-> In g (objectives (arun a ops)) /\ ~ In g (ckeys (arun a ops))).
Proof. intros I. destruct (arun_ok ops a I) as (I' & _). apply i_unc; auto. Qed.

Corollary callbacks_once ops a : AInv a ->
  NoDup (fired (arun a ops)) /\ forall g, In g (fired (arun a ops)) <-> In g (ckeys (arun a ops)).
Proof. intros I. destruct (arun_ok ops a I) as (I' & _). split; [apply i_nd_fired|apply i_fired]; auto. Qed.

(* a single assignment of the real code = one [consider]; it replaces only according to the rule *)
Theorem replacement_rule g st s old new : AInv (fst st) -> In g (objectives (fst st)) ->
  lookup g (covered (fst st)) = Some old ->
  lookup g (covered (fst (consider g st s))) = Some new -> new <> old ->
  new = s /\ repl g old s.
Proof.
  intros I Hg Ho Hn Hd. unfold consider in Hn.
  destruct (covers s g) eqn:Hc; [|congruence].
  rewrite Ho in Hn. destruct (better_strict old s) eqn:Hb; [|congruence].
  simpl in Hn. rewrite lookup_put_eq in Hn. inversion Hn; subst.
  split; auto. now apply better_strict_repl.
Qed.

(* ---------------------------------------------------------------- _GoalsManager.update *)
Lemma gm_round_ok graph sols m : AInv (garch m) ->
  AInv (garch (fst (gm_round graph sols m))) /\
  incl (objectives (garch m)) (objectives (garch (fst (gm_round graph sols m)))) /\
  incl (current (fst (gm_round graph sols m))) (objectives (garch (fst (gm_round graph sols m)))) /\
  (forall g, evolves g (lookup g (covered (garch m))) (lookup g (covered (garch (fst (gm_round graph sols m)))))).
Proof.
  intros I. unfold gm_round.
  destruct (update_ok sols (garch m) I) as (I1 & O1 & E1).
  match goal with |- context [fold_left ?f (current m) ([], false)] => destruct (fold_left f (current m) ([], false)) as [ng added] end.
  simpl.
  destruct (add_goals_ok ng (fst (update sols (garch m))) I1) as (I2 & C2 & O2).
  split; [exact I2|]. split; [rewrite <- O1; exact O2|]. split.
  - (* every new current goal is an objective afterwards *)
    clear - I1. revert I1. generalize (fst (update sols (garch m))) as a. unfold add_goals.
    induction ng as [|g r IH]; intros a I; simpl; [intros ? []|].
    destruct (add_goal_ok a g I) as (Ia & _ & Oa).
    intros x [<-|Hx]; [|apply (IH _ Ia); exact Hx].
    assert (Hg : In g (objectives (add_goal a g))).
    { unfold add_goal. destruct (mem g (objectives a)) eqn:E; [now apply mem_In|simpl; apply in_or_app; right; now left]. }
    destruct (add_goals_ok r (add_goal a g) Ia) as (_ & _ & Or). apply Or, Hg.
  - intros g. rewrite C2. apply E1.
Qed.

Theorem gm_update_ok fuel graph sols : forall m, AInv (garch m) ->
  AInv (garch (gm_update fuel graph sols m)) /\
  incl (objectives (garch m)) (objectives (garch (gm_update fuel graph sols m))) /\
  (forall g, evolves g (lookup g (covered (garch m))) (lookup g (covered (garch (gm_update fuel graph sols m))))).
Proof.
  induction fuel as [|k IH]; intros m I; simpl.
  - triv3.
  - destruct (gm_round_ok graph sols m I) as (I1 & O1 & _ & E1).
    destruct (gm_round graph sols m) as [m' added]; simpl in *.
    destruct added.
    + destruct (IH m' I1) as (I2 & O2 & E2). split; auto. split; [eapply incl_tran; eauto|].
      intros g. eapply evolves_trans; eauto.
    + split; [assumption|split; assumption].
Qed.

(* ---------------------------------------------------------------- MIOPopulation *)
Fixpoint sorted_desc (l : list pair) : Prop :=
  match l with
  | [] => True
  | x :: r => (forall y, In y r -> ph y <= ph x) /\ sorted_desc r
  end.

Lemma insert_desc_in x l y : In y (insert_desc x l) <-> y = x \/ In y l.
Proof.
  induction l as [|z r IH]; simpl; [intuition|].
  destruct (ph z <? ph x); simpl; [intuition|]. rewrite IH. intuition.
Qed.

Lemma insert_desc_length x l : length (insert_desc x l) = S (length l).
Proof. induction l as [|z r IH]; simpl; auto. destruct (ph z <? ph x); simpl; auto. Qed.

Lemma insert_desc_sorted x l : sorted_desc l -> sorted_desc (insert_desc x l).
Proof.
  induction l as [|z r IH]; simpl; intros H; [split; [intros ? []|exact I]|].
  destruct H as [H1 H2]. destruct (ph z <? ph x) eqn:E; simpl.
  - apply Z.ltb_lt in E. split; [|split; auto].
    intros y [<-|Hy]; [lia|]. specialize (H1 y Hy). lia.
  - apply Z.ltb_ge in E. split; [|auto].
    intros y Hy. apply insert_desc_in in Hy. destruct Hy as [->|Hy]; auto.
Qed.

Lemma sort_desc_facts l : forall acc, sorted_desc acc ->
  sorted_desc (fold_left (fun acc x => insert_desc x acc) l acc) /\
  length (fold_left (fun acc x => insert_desc x acc) l acc) = (length l + length acc)%nat /\
  (forall y, In y (fold_left (fun acc x => insert_desc x acc) l acc) <-> In y l \/ In y acc).
Proof.
  induction l as [|x r IH]; intros acc H; simpl.
  - repeat split; auto. intros [[]|H1]; auto.
  - destruct (IH (insert_desc x acc) (insert_desc_sorted x acc H)) as (A & B & C).
    split; auto. split; [rewrite B, insert_desc_length; lia|].
    intros y. rewrite C, insert_desc_in. intuition.
Qed.

Lemma sort_desc_sorted l : sorted_desc (sort_desc l).
Proof. apply (sort_desc_facts l []). exact I. Qed.
Lemma sort_desc_length l : length (sort_desc l) = length l.
Proof. unfold sort_desc. destruct (sort_desc_facts l [] I) as (_ & B & _). rewrite B. simpl. lia. Qed.
Lemma sort_desc_in l y : In y (sort_desc l) <-> In y l.
Proof. unfold sort_desc. destruct (sort_desc_facts l [] I) as (_ & _ & C). rewrite C. simpl. tauto. Qed.

Record PInv (p : pop) : Prop := {
  p_cap : 1 <= capacity p;
  p_len : len (psols p) <= capacity p;
  p_sorted : sorted_desc (psols p);
  p_range : forall x, In x (psols p) -> 0 < ph x <= HMAX;
  p_top : forall x, In x (psols p) -> ph x = HMAX -> is_covered p = true }.

Definition wf_pop_op (op : pop_op) : Prop :=
  match op with PAdd h _ => 0 <= h <= HMAX | PShrink n => 1 <= n end.

Lemma is_covered_spec p : is_covered p = true ->
  exists x, psols p = [x] /\ capacity p = 1 /\ ph x = HMAX.
Proof.
  unfold is_covered. destruct (psols p) as [|x [|y r]]; try discriminate.
  intros H. apply andb_true_iff in H. destruct H as [H1 H2].
  apply Z.eqb_eq in H1, H2. eauto.
Qed.

Lemma len_app1 {A} (l : list A) x : len (l ++ [x]) = len l + 1.
Proof. unfold len. rewrite app_length. simpl. lia. Qed.

Lemma removelast_length {A} (l : list A) : l <> [] -> S (length (removelast l)) = length l.
Proof.
  induction l as [|x r IH]; [congruence|]. intros _. destruct r as [|y r']; [reflexivity|].
  change (removelast (x :: y :: r')) with (x :: removelast (y :: r')). simpl length.
  f_equal. apply IH. discriminate.
Qed.

Lemma in_removelast {A} (l : list A) y : In y (removelast l) -> In y l.
Proof.
  induction l as [|x r IH]; simpl; auto. destruct r as [|z r']; [intros []|].
  intros [H|H]; auto.
Qed.

Theorem add_solution_inv h s p : PInv p -> 0 <= h <= HMAX -> PInv (fst (add_solution h s p)).
Proof.
  intros [C L S R T] Hh. unfold add_solution.
  destruct (h =? 0) eqn:E0; [constructor; auto|]. apply Z.eqb_neq in E0.
  destruct ((h <? HMAX) && is_covered p) eqn:E1; [constructor; auto|].
  destruct (h =? HMAX) eqn:E2.
  - apply Z.eqb_eq in E2. destruct (is_covered p) eqn:Ec.
    + destruct (is_covered_spec p Ec) as (x & Hx & Hcap & Hph). rewrite Hx.
      destruct (pair_better x {| ph := h; psol := s |}); [|constructor; auto].
      simpl. constructor; simpl; try lia.
      * unfold len; simpl; lia.
      * split; [intros ? []|exact I].
      * intros y [<-|[]]; simpl; lia.
      * intros y [<-|[]] _. unfold is_covered; simpl. rewrite Hcap, E2. reflexivity.
    + simpl. constructor; simpl; try lia.
      * unfold len; simpl; lia.
      * split; [intros ? []|exact I].
      * intros y [<-|[]]; simpl; lia.
      * intros y [<-|[]] _. unfold is_covered; simpl. rewrite E2. reflexivity.
  - apply Z.eqb_neq in E2.
    assert (Hnc : is_covered p = false).
    { destruct (is_covered p); auto. apply andb_false_iff in E1. destruct E1 as [E1|E1]; [|discriminate].
      apply Z.ltb_ge in E1. lia. }
    assert (Hno : forall x, In x (psols p) -> ph x <> HMAX).
    { intros x Hx Hm. rewrite (T x Hx Hm) in Hnc. discriminate. }
    assert (NC : forall q, (forall x, In x (psols q) -> ph x <> HMAX) -> forall x, In x (psols q) -> ph x = HMAX -> is_covered q = true).
    { intros q Hq x Hx Hm. exfalso. eapply Hq; eauto. }
    destruct (len (psols p) <? capacity p) eqn:El.
    + apply Z.ltb_lt in El. simpl. constructor; simpl; auto.
      * unfold len in *. rewrite sort_desc_length, app_length. simpl. lia.
      * apply sort_desc_sorted.
      * intros x Hx. rewrite sort_desc_in in Hx. apply in_app_or in Hx. destruct Hx as [Hx|[<-|[]]]; auto. simpl; lia.
      * intros x Hx Hm. exfalso. rewrite sort_desc_in in Hx. apply in_app_or in Hx.
        destruct Hx as [Hx|[<-|[]]]; [exact (Hno x Hx Hm)|simpl in Hm; lia].
    + destruct (psols p) as [|x0 r0] eqn:Ep; [constructor; simpl; rewrite ?Ep; auto|].
      destruct (pair_better (last (x0 :: r0) {| ph := h; psol := s |}) {| ph := h; psol := s |}).
      * cbn [fst]. constructor; cbn [capacity psols]; auto.
        -- unfold len in *. rewrite sort_desc_length, app_length. cbn [length].
           pose proof (removelast_length (x0 :: r0)) as RL. try rewrite Ep in L.
           assert (x0 :: r0 <> []) by discriminate. specialize (RL H). lia.
        -- apply sort_desc_sorted.
        -- intros x Hx. rewrite sort_desc_in in Hx. apply in_app_or in Hx. destruct Hx as [Hx|[<-|[]]].
           ++ apply R. try rewrite Ep. now apply in_removelast.
           ++ simpl; lia.
        -- intros x Hx Hm. exfalso. rewrite sort_desc_in in Hx. apply in_app_or in Hx.
           destruct Hx as [Hx|[<-|[]]]; [|simpl in Hm; lia].
           apply (Hno x); [try rewrite Ep; now apply in_removelast|exact Hm].
      * cbn [fst]. constructor; cbn [capacity psols]; auto.
        -- unfold len in *. rewrite sort_desc_length. try rewrite Ep in L. exact L.
        -- apply sort_desc_sorted.
        -- intros x Hx. rewrite sort_desc_in in Hx. apply R. try rewrite Ep. exact Hx.
        -- intros x Hx Hm. exfalso. rewrite sort_desc_in in Hx. apply (Hno x); [try rewrite Ep; exact Hx|exact Hm].
Qed.

Lemma in_firstn {A} n (l : list A) x : In x (firstn n l) -> In x l.
Proof.
  revert l; induction n as [|k IH]; intros l; simpl; [intros []|].
  destruct l as [|y r]; simpl; [intros []|]. intros [H|H]; auto.
Qed.

Lemma sorted_firstn n l : sorted_desc l -> sorted_desc (firstn n l).
Proof.
  revert l; induction n as [|k IH]; intros l H; simpl; [exact I|].
  destruct l as [|y r]; simpl; [exact I|]. destruct H as [H1 H2].
  split; [|auto]. intros z Hz. apply H1. eapply in_firstn; eauto.
Qed.

Theorem shrink_inv n p : PInv p -> 1 <= n -> PInv (shrink n p).
Proof.
  intros [C L S R T] Hn. unfold shrink. destruct (is_covered p) eqn:E; [constructor; auto|].
  constructor; simpl.
  - exact Hn.
  - unfold len. rewrite firstn_length. lia.
  - now apply sorted_firstn.
  - intros x Hx. apply R. eapply in_firstn; eauto.
  - intros x Hx Hm. apply in_firstn in Hx. specialize (T x Hx Hm). congruence.
Qed.

Theorem covered_stable_add h s p : is_covered p = true -> 0 <= h <= HMAX ->
  is_covered (fst (add_solution h s p)) = true.
Proof.
  intros Hc Hh. unfold add_solution. rewrite Hc.
  destruct (h =? 0); [exact Hc|].
  destruct (h <? HMAX) eqn:E1; simpl; [exact Hc|]. apply Z.ltb_ge in E1.
  assert (E2 : h = HMAX) by lia. rewrite <- Z.eqb_eq in E2. rewrite E2.
  destruct (is_covered_spec p Hc) as (x & Hx & Hcap & Hph). rewrite Hx.
  destruct (pair_better x {| ph := h; psol := s |}); [|exact Hc].
  unfold is_covered; simpl. rewrite Hcap. apply Z.eqb_eq in E2. subst. reflexivity.
Qed.

Theorem covered_stable_shrink n p : is_covered p = true -> is_covered (shrink n p) = true.
Proof. intros H. unfold shrink. now rewrite H. Qed.

(* a covered target holds exactly one solution, and that solution has h = 1 *)
Theorem covered_single p : is_covered p = true -> exists x, psols p = [x] /\ ph x = HMAX.
Proof. intros H. destruct (is_covered_spec p H) as (x & A & _ & B). eauto. Qed.

Theorem pstep_ok p op : PInv p -> wf_pop_op op ->
  PInv (fst (pstep p op)) /\ (is_covered p = true -> is_covered (fst (pstep p op)) = true).
Proof.
  intros I W. destruct op as [h s|n]; simpl in *.
  - pose proof (add_solution_inv h s p I W). pose proof (covered_stable_add h s p).
    destruct (add_solution h s p); simpl in *. auto.
  - split; [now apply shrink_inv|apply covered_stable_shrink].
Qed.

Theorem prun_ok ops : forall p, PInv p -> Forall wf_pop_op ops ->
  PInv (prun p ops) /\ (is_covered p = true -> is_covered (prun p ops) = true).
Proof.
  unfold prun. induction ops as [|op r IH]; intros p I W; simpl; [auto|].
  inversion W; subst. destruct (pstep_ok p op I H1) as [I1 C1].
  destruct (IH _ I1 H2) as [I2 C2]. auto.
Qed.

Lemma new_pop_inv n : 1 <= n -> PInv {| capacity := n; psols := [] |}.
Proof. intros H. constructor; simpl; auto; try (intros ? []). unfold len; simpl; lia. Qed.

(* sorted: the first solution is a best one; shrinking keeps it *)
Theorem head_is_best p x r : PInv p -> psols p = x :: r -> forall y, In y (psols p) -> ph y <= ph x.
Proof.
  intros [_ _ S _ _] E y Hy. rewrite E in *. destruct S as [S1 _].
  destruct Hy as [<-|Hy]; [lia|auto].
Qed.

Theorem shrink_keeps_best n p : 1 <= n -> hd_error (psols (shrink n p)) = hd_error (psols p).
Proof.
  intros Hn. unfold shrink. destruct (is_covered p); [reflexivity|]. simpl.
  destruct (Z.to_nat n) as [|k] eqn:E; [lia|]. destruct (psols p); reflexivity.
Qed.

(* replacement inside a covered population: MIO accepts an equally long solution *)
Definition repl_weak (old new : sol) : Prop :=
  (erroneous old = true /\ clean new = true) \/ ssize new <= ssize old.

Theorem mio_replacement h s p p' : is_covered p = true -> 0 <= h <= HMAX ->
  add_solution h s p = (p', true) ->
  exists old, psols p = [old] /\ psols p' = [{| ph := HMAX; psol := s |}] /\ h = HMAX /\
              repl_weak (psol old) s.
Proof.
  intros Hc Hh. unfold add_solution. rewrite Hc.
  destruct (h =? 0); [intros H; inversion H|].
  destruct (h <? HMAX) eqn:E1; simpl; [intros H; inversion H|]. apply Z.ltb_ge in E1.
  assert (E2 : h = HMAX) by lia. subst h. rewrite Z.eqb_refl.
  destruct (is_covered_spec p Hc) as (x & Hx & Hcap & Hph). rewrite Hx.
  destruct (pair_better x {| ph := HMAX; psol := s |}) eqn:Eb; [|intros H; inversion H].
  intros H; inversion H; subst; clear H. exists x. repeat split; auto.
  unfold pair_better in Eb. simpl in Eb. rewrite Hph, Z.ltb_irrefl in Eb.
  unfold better_weak in Eb. unfold repl_weak.
  destruct (erroneous (psol x) && clean s) eqn:E.
  - apply andb_true_iff in E. left; exact E.
  - right. now apply Z.leb_le.
Qed.

Definition exsol (i n : Z) : sol := {| sid := i; ssize := n; sst := Clean; spos := 0; scov := [0]; sfit := [(0, 0)] |}.

(* the strict clause of the property ("otherwise strictly shorter") does not hold for MIO *)
Theorem mio_replacement_strict_refuted : exists p h s p' old,
  is_covered p = true /\ 0 <= h <= HMAX /\ add_solution h s p = (p', true) /\ psols p = [old] /\
  ~ ((erroneous (psol old) = true /\ clean s = true) \/ ssize s < ssize (psol old)).
Proof.
  exists {| capacity := 1; psols := [{| ph := HMAX; psol := exsol 1 2 |}] |}, HMAX, (exsol 2 2).
  eexists. eexists. repeat split; try reflexivity; try (unfold HMAX; lia).
  simpl. intros [[H _]|H]; [discriminate|lia].
Qed.

(* ---------------------------------------------------------------- MIOArchive *)
Definition wf_sol (s : sol) : Prop := forall t f, In (t, f) (sfit s) -> 0 <= f.

Lemma fitness_nonneg s t : wf_sol s -> 0 <= fitness s t.
Proof.
  intros W. unfold fitness. destruct (lookup t (sfit s)) eqn:E; [|lia].
  apply lookup_in in E. eapply W; eauto.
Qed.

Lemma chop_fitness s t : fitness (chop s) t = fitness s t.
Proof. unfold chop. destruct (sst s); reflexivity. Qed.

Lemma chop_wf s : wf_sol s -> wf_sol (chop s).
Proof. unfold chop, wf_sol. destruct (sst s); auto. Qed.

Lemma hcode_range f : 0 <= f -> 0 <= hcode f <= HMAX.
Proof.
  intros H. unfold hcode, HMAX. split.
  - apply Z.div_pos; lia.
  - apply Z.div_le_upper_bound; nia.
Qed.

Lemma hcode_max f : 0 <= f -> hcode f = HMAX -> f = 0.
Proof.
  intros H E. unfold hcode, HMAX in E.
  destruct (Z.eq_dec f 0) as [e|n]; auto. exfalso.
  assert (1000 / (1 + f) <= 1000 / 2) by (apply Z.div_le_compat_l; lia).
  change (1000 / 2) with 500 in H0. lia.
Qed.

Definition step_t (s : sol) (tp : Z * pop) : Z * pop :=
  (fst tp, fst (add_solution (hcode (fitness s (fst tp))) (chop s) (snd tp))).

Lemma m_target_fold s pops : forall done fl upd,
  fst (fst (fold_left (m_target s) pops (done, fl, upd))) = done ++ map (step_t s) pops.
Proof.
  induction pops as [|[t p] r IH]; intros done fl upd; simpl; [now rewrite app_nil_r|].
  destruct (add_solution (hcode (fitness s t)) (chop s) p) as [p' added] eqn:E.
  rewrite IH. rewrite <- app_assoc. simpl. unfold step_t at 2. simpl. now rewrite E.
Qed.

Lemma m_solution_pops st s : mpops (fst (m_solution st s)) = map (step_t s) (mpops (fst st)).
Proof.
  unfold m_solution.
  pose proof (m_target_fold s (mpops (fst st)) [] (mfired (fst st)) (snd st)) as H.
  destruct (fold_left (m_target s) (mpops (fst st)) ([], mfired (fst st), snd st)) as [[pops fl] upd].
  simpl in *. exact H.
Qed.

Lemma add_solution_in h s p x : In x (psols (fst (add_solution h s p))) ->
  In x (psols p) \/ x = {| ph := h; psol := s |}.
Proof.
  unfold add_solution.
  destruct (h =? 0); [auto|]. destruct ((h <? HMAX) && is_covered p); [auto|].
  destruct (h =? HMAX).
  - destruct (is_covered p).
    + destruct (psols p) as [|c r] eqn:E; [simpl; rewrite E; auto|].
      destruct (pair_better c {| ph := h; psol := s |}); simpl; [intros [<-|[]]; auto|rewrite E; auto].
    + simpl. intros [<-|[]]; auto.
  - destruct (len (psols p) <? capacity p).
    + simpl. rewrite sort_desc_in, in_app_iff. simpl. intros [H|[<-|[]]]; auto.
    + destruct (psols p) as [|x0 r0] eqn:E; [simpl; rewrite E; auto|].
      destruct (pair_better (last (x0 :: r0) {| ph := h; psol := s |}) {| ph := h; psol := s |}); cbn [fst psols].
      * rewrite sort_desc_in, in_app_iff. intros [H|[<-|[]]]; auto. left. now apply in_removelast.
      * rewrite sort_desc_in. auto.
Qed.

Definition pop_ok (tp : Z * pop) : Prop :=
  PInv (snd tp) /\
  forall x, In x (psols (snd tp)) -> ph x = hcode (fitness (psol x) (fst tp)) /\ 0 <= fitness (psol x) (fst tp).
Definition MInv (a : march) : Prop := Forall pop_ok (mpops a).

Lemma step_t_ok s tp : wf_sol s -> pop_ok tp -> pop_ok (step_t s tp).
Proof.
  intros W [I H]. unfold step_t, pop_ok. simpl.
  pose proof (fitness_nonneg s (fst tp) W) as Hf.
  split; [apply add_solution_inv; auto; now apply hcode_range|].
  intros x Hx. apply add_solution_in in Hx. destruct Hx as [Hx| ->]; auto.
  simpl. rewrite chop_fitness. auto.
Qed.

Definition wf_mop (op : mop) : Prop :=
  match op with MUpdate sols => Forall wf_sol sols | MShrink n => 1 <= n end.

Definition mcovered (a : march) (t : Z) : Prop := exists p, In (t, p) (mpops a) /\ is_covered p = true.

Lemma m_solution_ok st s : wf_sol s -> MInv (fst st) ->
  MInv (fst (m_solution st s)) /\ (forall t, mcovered (fst st) t -> mcovered (fst (m_solution st s)) t) /\
  map fst (mpops (fst (m_solution st s))) = map fst (mpops (fst st)).
Proof.
  intros W I. unfold MInv, mcovered. rewrite m_solution_pops. split; [|split].
  - apply Forall_forall. intros tp Htp. apply in_map_iff in Htp. destruct Htp as (tp0 & <- & H0).
    apply step_t_ok; auto. eapply Forall_forall; eauto.
  - intros t (p & Hin & Hc). exists (snd (step_t s (t, p))). split.
    + apply in_map_iff. exists (t, p). split; auto.
    + unfold step_t; simpl. apply covered_stable_add; auto. apply hcode_range. now apply fitness_nonneg.
  - rewrite map_map. apply map_ext. reflexivity.
Qed.

Lemma m_update_ok sols : forall st, Forall wf_sol sols -> MInv (fst st) ->
  MInv (fst (fold_left m_solution sols st)) /\
  (forall t, mcovered (fst st) t -> mcovered (fst (fold_left m_solution sols st)) t) /\
  map fst (mpops (fst (fold_left m_solution sols st))) = map fst (mpops (fst st)).
Proof.
  induction sols as [|s r IH]; intros st W I; simpl; [auto|].
  inversion W; subst. destruct (m_solution_ok st s H1 I) as (I1 & C1 & K1).
  destruct (IH _ H2 I1) as (I2 & C2 & K2). split; auto. split; [auto|congruence].
Qed.

Theorem mstep_ok a op : MInv a -> wf_mop op ->
  MInv (fst (mstep a op)) /\ (forall t, mcovered a t -> mcovered (fst (mstep a op)) t) /\
  map fst (mpops (fst (mstep a op))) = map fst (mpops a).
Proof.
  intros I W. destruct op as [sols|n]; simpl in *.
  - pose proof (m_update_ok sols (a, false) W I) as H. unfold m_update.
    destruct (fold_left m_solution sols (a, false)); simpl in *. exact H.
  - unfold m_shrink, MInv, mcovered; simpl. split; [|split].
    + apply Forall_forall. intros tp Htp. apply in_map_iff in Htp. destruct Htp as ([t p] & <- & H0).
      pose proof (proj1 (Forall_forall _ _) I _ H0) as [Ip Hp]. simpl in *.
      split; simpl; [now apply shrink_inv|].
      intros x Hx. apply Hp. unfold shrink in Hx. destruct (is_covered p); auto. eapply in_firstn; eauto.
    + intros t (p & Hin & Hc). exists (shrink n p). split; [|now apply covered_stable_shrink].
      apply in_map_iff. exists (t, p). auto.
    + rewrite map_map. apply map_ext. reflexivity.
Qed.

Theorem mrun_ok ops : forall a, MInv a -> Forall wf_mop ops ->
  MInv (mrun a ops) /\ (forall t, mcovered a t -> mcovered (mrun a ops) t) /\
  map fst (mpops (mrun a ops)) = map fst (mpops a).
Proof.
  unfold mrun. induction ops as [|op r IH]; intros a I W; simpl; [auto|].
  inversion W; subst. destruct (mstep_ok a op I H1) as (I1 & C1 & K1).
  destruct (IH _ I1 H2) as (I2 & C2 & K2). split; auto. split; [auto|congruence].
Qed.

Lemma new_march_inv targets n : 1 <= n -> MInv (new_march targets n).
Proof.
  intros H. unfold MInv, new_march; simpl. apply Forall_forall. intros tp Htp.
  apply in_map_iff in Htp. destruct Htp as (t & <- & _). split; simpl; [now apply new_pop_inv|intros ? []].
Qed.

(* every population of a reachable MIO archive respects its capacity; a covered target holds exactly
   one solution and that solution has fitness 0 for the target *)
Theorem mio_capacity a t p : MInv a -> In (t, p) (mpops a) -> len (psols p) <= capacity p.
Proof. intros I H. pose proof (proj1 (Forall_forall _ _) I _ H) as [Ip _]. apply Ip. Qed.

Theorem mio_archived_covers a t p : MInv a -> In (t, p) (mpops a) -> is_covered p = true ->
  exists x, psols p = [x] /\ fitness (psol x) t = 0.
Proof.
  intros I H Hc. pose proof (proj1 (Forall_forall _ _) I _ H) as [Ip Hp]. simpl in *.
  destruct (is_covered_spec p Hc) as (x & Hx & _ & Hph). exists x. split; auto.
  destruct (Hp x) as [E1 E2]; [rewrite Hx; now left|]. apply hcode_max; auto. congruence.
Qed.

(* ---------------------------------------------------------------- non-vacuity *)
Definition exs (i n : Z) (st : status) (cov : list Z) : sol :=
  {| sid := i; ssize := n; sst := st; spos := 0; scov := cov; sfit := map (fun g => (g, 0)) cov |}.

Example arch_example :
  let a := arun (new_arch [0; 1; 2]) [AUpdate [exs 1 5 Exc [0; 1]]; AUpdate [exs 2 7 Clean [0]; exs 3 2 Exc [1; 2]];
                                      AAddGoals [3; 0]; AUpdate [exs 4 1 Clean [3]]] in
  map (fun gs => (fst gs, sid (snd gs))) (covered a) = [(0, 2); (1, 3); (2, 3); (3, 4)] /\ uncovered a = [] /\
  fired a = [0; 1; 2; 3].
Proof. vm_compute. repeat split; reflexivity. Qed.

Example mio_example :
  let a := mrun (new_march [0; 1] 2) [MUpdate [exs 1 3 Clean [0]; exs 2 3 Clean [0]]; MShrink 1; MUpdate [exs 3 1 Exc [1]]] in
  Forall wf_mop [MUpdate [exs 1 3 Clean [0]; exs 2 3 Clean [0]]; MShrink 1; MUpdate [exs 3 1 Exc [1]]] /\
  map (fun tp => (fst tp, map (fun x => sid (psol x)) (psols (snd tp)))) (mpops a) = [(0, [2]); (1, [3])].
Proof.
  split; [|vm_compute; reflexivity].
  assert (W : forall i n st cov, wf_sol (exs i n st cov)).
  { intros i n st cov t f H. unfold exs in H; simpl in H. apply in_map_iff in H.
    destruct H as (g & E & _). inversion E; lia. }
  constructor; [simpl; repeat (constructor; try apply W)|].
  constructor; [simpl; lia|].
  constructor; [simpl; repeat (constructor; try apply W)|constructor].
Qed.

(* the replacement rule is not a strict order: an erroneous short test can be replaced by a clean long
   one, which can be replaced by a shorter erroneous one that is longer than the first (each step obeys
   the rule of the property; the composition does not) *)
Example replacement_rule_chain :
  let a := arun (new_arch [0]) [AUpdate [exs 1 2 Exc [0]]; AUpdate [exs 2 10 Clean [0]]; AUpdate [exs 3 5 Exc [0]]] in
  map (fun gs => sid (snd gs)) (covered a) = [3].
Proof. vm_compute. reflexivity. Qed.

(* h = 1 (target covered) exactly for fitness 0: no positive fitness, however small, maps to h = 1
   (the implementation clamps 1.0 - normalise(f) below 1.0 for f > 0, fix C13-mio-tiny-fitness-covered) *)
Theorem hcode_one_iff_zero f : 0 <= f -> (hcode f = HMAX <-> f = 0).
Proof.
  intros H. split; [now apply hcode_max|]. intros ->. reflexivity.
Qed.
