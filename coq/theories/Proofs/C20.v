(* C20 — proofs about Models/C20.v. *)
From Coq Require Import List ZArith NArith Bool String Lia.
From Coq Require Import PrimFloat FloatAxioms.
From Verif Require Import Base.PyExpr Base.PyExprFacts Models.C20.
Import ListNotations.
Open Scope Z_scope.

Import PyExpr PyExprFacts C20.

Section Atoms.
  Variables ftok itok stok btok : Type.
  Variable repr_float : float -> ftok.
  Variable repr_nat : Z -> itok.
  Variable repr_str : pystr -> stok.
  Variable repr_bytes : pystr -> btok.
  Variable parse_float : ftok -> float.
  Variable parse_int : itok -> Z.
  Variable parse_str : stok -> pystr.
  Variable parse_bytes : btok -> pystr.

  Hypothesis float_rt : forall f, ftok_ok f = true -> parse_float (repr_float f) = f.
  Hypothesis nat_rt : forall n, 0 <= n -> parse_int (repr_nat n) = n.
  Hypothesis str_rt : forall s, parse_str (repr_str s) = s.
  Hypothesis bytes_rt : forall s, parse_bytes (repr_bytes s) = s.

  Notation expr := (PyExpr.expr ftok itok stok btok).
  Notation eval := (PyExpr.eval parse_float parse_int parse_str parse_bytes).
  Notation mfl := (make_float_literal ftok itok stok btok repr_float repr_str).
  Notation v2c := (value_to_cst ftok itok stok btok repr_float repr_nat repr_str repr_bytes).
  Notation rend := (render ftok itok stok btok repr_float repr_nat repr_str repr_bytes).
  Notation chk := (check_value ftok itok stok btok parse_float parse_int parse_str parse_bytes).
  Notation nm := (name_expr ftok itok stok btok).
  Notation texpr := (type_expr ftok itok stok btok).
  Notation imp := (importable ftok itok stok btok parse_float parse_int parse_str parse_bytes).

  (* ------------------------------------------------------------------------------------------ *)
  (* floats *)
  Lemma finite_cases f : fnan f = false -> finf f = false -> ffinite f = true.
  Proof. unfold fnan, finf, ffinite. destruct (fclass f); congruence. Qed.

  Lemma ftok_ok_opp f : ffinite f = true -> fneg f = true -> ftok_ok (PrimFloat.opp f) = true.
  Proof.
    unfold ftok_ok, ffinite, fneg. rewrite fclass_opp. destruct (fclass f) as [|s|s|s]; simpl; try discriminate;
      intros _ ->; reflexivity.
  Qed.

  Lemma ftok_ok_pos f : ffinite f = true -> fneg f = false -> ftok_ok f = true.
  Proof. unfold ftok_ok. intros -> ->. reflexivity. Qed.

  Lemma mfl_valid f : valid (mfl f) = true.
  Proof.
    unfold make_float_literal, mk_float, float_call.
    destruct (fnan f) eqn:En; [reflexivity|]. destruct (finf f) eqn:Ei; [reflexivity|].
    assert (Hf := finite_cases f En Ei). destruct (fneg f) eqn:Es.
    - rewrite (ftok_ok_opp f Hf Es). reflexivity.
    - rewrite (ftok_ok_pos f Hf Es). reflexivity.
  Qed.

  Lemma mfl_eval g f : unshadowed g "float" = true -> eval g (mfl f) = Ok (VFloat f).
  Proof.
    intro Hu. unfold make_float_literal, mk_float, float_call.
    destruct (fnan f) eqn:En.
    { rewrite (eval_float_call _ _ _ _ _ _ _ _ g _ "nan" Hu (str_rt _)).
      rewrite (call_float _ _ _ _ g "nan" nan Hu) by tauto.
      unfold fnan in En. destruct (fclass f) eqn:Ec; try discriminate. rewrite (class_nan _ Ec). reflexivity. }
    destruct (finf f) eqn:Ei.
    { unfold finf in Ei. unfold fneg. destruct (fclass f) as [|s|s|s] eqn:Ec; try discriminate. destruct s.
      - rewrite (eval_float_call _ _ _ _ _ _ _ _ g _ "-inf" Hu (str_rt _)).
        rewrite (call_float _ _ _ _ g "-inf" neg_infinity Hu) by tauto. rewrite (class_neg_inf _ Ec). reflexivity.
      - rewrite (eval_float_call _ _ _ _ _ _ _ _ g _ "inf" Hu (str_rt _)).
        rewrite (call_float _ _ _ _ g "inf" infinity Hu) by tauto. rewrite (class_inf _ Ec). reflexivity. }
    assert (Hf := finite_cases f En Ei). destruct (fneg f) eqn:Es.
    - assert (Hok := ftok_ok_opp f Hf Es). rewrite Hok. rewrite eval_neg. simpl. rewrite (float_rt _ Hok).
      simpl. rewrite opp_opp. reflexivity.
    - assert (Hok := ftok_ok_pos f Hf Es). rewrite Hok. simpl. rewrite (float_rt _ Hok). reflexivity.
  Qed.

  Lemma int_valid z : valid (int_literal ftok itok stok btok repr_nat z) = true.
  Proof.
    unfold int_literal, mk_int. destruct (z <? 0) eqn:E.
    - assert (H : (0 <=? - z) = true) by lia. rewrite H. reflexivity.
    - assert (H : (0 <=? z) = true) by lia. rewrite H. reflexivity.
  Qed.

  Lemma int_eval g z : eval g (int_literal ftok itok stok btok repr_nat z) = Ok (VInt z).
  Proof.
    unfold int_literal, mk_int. destruct (z <? 0) eqn:E.
    - assert (H : (0 <=? - z) = true) by lia. rewrite H. rewrite eval_neg. simpl. rewrite nat_rt by lia.
      simpl. do 2 f_equal. lia.
    - assert (H : (0 <=? z) = true) by lia. rewrite H. simpl. rewrite nat_rt by lia. reflexivity.
  Qed.

  (* ------------------------------------------------------------------------------------------ *)
  (* rendering an assertable value never meets a node libcst rejects *)
  Lemma forallb_map_valid (l : list value) :
    Forall (fun x => valid (v2c x) = true) l -> forallb valid (map v2c l) = true.
  Proof. induction 1 as [|x r Hx Hr IH]; simpl; [reflexivity|]. rewrite Hx, IH. reflexivity. Qed.

  Lemma v2c_valid : forall fuel v, assertable fuel v = true -> valid (v2c v) = true.
  Proof.
    induction fuel as [|k IH]; intros v H; [discriminate|].
    destruct v; simpl in H; try discriminate; try reflexivity.
    - simpl. apply int_valid.
    - simpl. rewrite !mfl_valid. reflexivity.
    - cbn [value_to_cst valid]. apply forallb_map_valid. rewrite forallb_forall in H. apply Forall_forall.
      intros x Hx. apply IH. apply H. exact Hx.
    - cbn [value_to_cst valid]. apply forallb_map_valid. rewrite forallb_forall in H. apply Forall_forall.
      intros x Hx. apply IH. apply H. exact Hx.
    - destruct l as [|y r]; [reflexivity|]. cbn [value_to_cst]. cbn [valid map negb]. cbn [andb].
      change (v2c y :: map v2c r) with (map v2c (y :: r)).
      apply forallb_map_valid. rewrite forallb_forall in H. apply Forall_forall.
      intros x Hx. apply IH. apply H. exact Hx.
    - cbn [value_to_cst valid]. rewrite forallb_forall in H. induction l as [|[a b] r IHr]; [reflexivity|].
      simpl. assert (Hab := H (a, b) (or_introl eq_refl)). simpl in Hab. apply andb_prop in Hab as [Ha Hb].
      rewrite (IH _ Ha), (IH _ Hb). simpl. apply IHr. intros x Hx. apply H. right. exact Hx.
  Qed.

  (* ------------------------------------------------------------------------------------------ *)
  (* evaluating the rendered value gives the value back *)
  Lemma enum_eval g c m :
    enums_bound g (VEnum c m) = true -> eval g (EAttr (EName c) m) = Ok (VEnum c m).
  Proof.
    simpl. intro H. change (eval g (EAttr (EName c) m)) with
      (match g [c; m] with Some v => Ok v | None => Err NameError end).
    destruct (g [c; m]) as [w|]; [|discriminate].
    destruct w; try discriminate. simpl in H. apply andb_prop in H as [H1 H2].
    apply String.eqb_eq in H1, H2. subst. reflexivity.
  Qed.

  Lemma v2c_eval : forall g fuel v,
    C20.builtins_visible g = true -> assertable fuel v = true -> wfb v = true -> enums_bound g v = true ->
    eval g (v2c v) = Ok v.
  Proof.
    intros g fuel v Hg. unfold C20.builtins_visible in Hg.
    repeat (apply andb_prop in Hg as [Hg ?]).
    revert v. induction fuel as [|k IH]; intros v Ha Hw He; [discriminate|].
    destruct v; simpl in Ha; try discriminate.
    - reflexivity.
    - destruct b; reflexivity.
    - apply int_eval.
    - cbn [value_to_cst]. rewrite eval_call.
      change (mapM (eval g) [mfl re; mfl im]) with
        (match eval g (mfl re) with
         | Ok y => match (match eval g (mfl im) with Ok y0 => Ok [y0] | Err e => Err e end) with
                   | Ok ys => Ok (y :: ys) | Err e => Err e end
         | Err e => Err e end).
      rewrite !mfl_eval by assumption. simpl. rewrite H3. reflexivity.
    - simpl. rewrite str_rt. reflexivity.
    - simpl. rewrite bytes_rt. reflexivity.
    - apply enum_eval. exact He.
    - cbn [value_to_cst]. rewrite eval_list. rewrite (mapM_map_ok (eval g) v2c l); [reflexivity|].
      simpl in Hw, He. rewrite forallb_forall in Ha, Hw, He. apply Forall_forall. intros x Hx. apply IH; auto.
    - cbn [value_to_cst]. rewrite eval_tuple. rewrite (mapM_map_ok (eval g) v2c l); [reflexivity|].
      simpl in Hw, He. rewrite forallb_forall in Ha, Hw, He. apply Forall_forall. intros x Hx. apply IH; auto.
    - simpl in Hw, He. apply andb_prop in Hw as [Hw Hd]. apply andb_prop in Hw as [Hw Hh].
      destruct l as [|y r].
      + cbn [value_to_cst]. rewrite eval_call. simpl. rewrite H2. reflexivity.
      + cbn [value_to_cst map]. rewrite eval_set. change (v2c y :: map v2c r) with (map v2c (y :: r)).
        rewrite (mapM_map_ok (eval g) v2c (y :: r)).
        * rewrite Hh. rewrite (set_build_distinct _ _ Hd). reflexivity.
        * rewrite forallb_forall in Ha, Hw, He. apply Forall_forall. intros x Hx. apply IH; auto.
    - simpl in Hw, He. apply andb_prop in Hw as [Hw Hd]. apply andb_prop in Hw as [Hw Hh].
      cbn [value_to_cst]. rewrite eval_dict.
      rewrite (mapM_map_ok _ (fun kv => (v2c (fst kv), v2c (snd kv))) l).
      + rewrite Hh. rewrite (dict_build_distinct _ [] Hd). reflexivity.
      + rewrite forallb_forall in Ha, Hw, He. apply Forall_forall. intros [a b] Hab. simpl.
        specialize (Ha _ Hab). specialize (Hw _ Hab). specialize (He _ Hab). simpl in Ha, Hw, He.
        apply andb_prop in Ha as [Ha1 Ha2]. apply andb_prop in Hw as [Hw1 Hw2]. apply andb_prop in He as [He1 He2].
        rewrite (IH _ Ha1 Hw1 He1), (IH _ Ha2 Hw2 He2). reflexivity.
  Qed.

  (* assertable values contain no float and no NaN, so == is reflexive on them *)
  Lemma assertable_nan_free : forall fuel v, assertable fuel v = true -> nan_free v = true.
  Proof.
    induction fuel as [|k IH]; intros v H; [discriminate|].
    destruct v; simpl in H; try discriminate; try reflexivity.
    - simpl. apply negb_true_iff in H. apply orb_false_iff in H as [-> ->]. reflexivity.
    - simpl. rewrite forallb_forall in H. apply forallb_forall. intros x Hx. apply IH. apply H. exact Hx.
    - simpl. rewrite forallb_forall in H. apply forallb_forall. intros x Hx. apply IH. apply H. exact Hx.
    - simpl. rewrite forallb_forall in H. apply forallb_forall. intros x Hx. apply IH. apply H. exact Hx.
    - simpl. rewrite forallb_forall in H. apply forallb_forall. intros [a b] Hx. specialize (H _ Hx). simpl in *.
      apply andb_prop in H as [Ha Hb]. rewrite (IH _ Ha), (IH _ Hb). reflexivity.
  Qed.

  (* ------------------------------------------------------------------------------------------ *)
  (* the rendered assertions *)
  Lemma name_not_path_call (x : string) attrs :
    path_of (ECall (EName "type") [nm x attrs] [] : expr) = None.
  Proof. reflexivity. Qed.

  Lemma mapM2 g (a b : expr) va vb :
    eval g a = Ok va -> eval g b = Ok vb -> mapM (eval g) [a; b] = Ok [va; vb].
  Proof. intros Ha Hb. simpl. rewrite Ha, Hb. reflexivity. Qed.

  Lemma same_type_eq m q w : same (VType m q) w = true -> w = VType m q.
  Proof.
    destruct w; try discriminate. simpl. intro H. apply andb_prop in H as [H1 H2].
    apply String.eqb_eq in H1. apply strs_eqb_eq in H2. subst. reflexivity.
  Qed.

  Lemma name_valid (x : string) attrs : valid (nm x attrs) = true.
  Proof.
    unfold name_expr. assert (H : valid (EName x : expr) = true) by reflexivity. revert H.
    generalize (EName x : expr). induction attrs as [|a r IH]; intros e He; simpl; [exact He|].
    apply IH. simpl. exact He.
  Qed.

  Lemma texpr_valid alias m q : valid (texpr alias m q) = true.
  Proof.
    unfold type_expr. destruct (String.eqb m "builtins"); [reflexivity|].
    assert (H : valid (EName alias : expr) = true) by reflexivity. revert H.
    generalize (EName alias : expr). induction q as [|a r IH]; intros e He; simpl; [exact He|].
    apply IH. simpl. exact He.
  Qed.

  Lemma len_nonneg v n : len_of v = Some n -> (forall m q k, v = VObj m q (Some k) -> 0 <= k) -> 0 <= n.
  Proof.
    intros H Ho. destruct v; simpl in H; try discriminate; try (injection H as <-; lia).
    subst. eapply Ho. reflexivity.
  Qed.

  (* rendering never fails *)
  Lemma render_total : forall g alias sut prec x attrs v a,
    (forall m q k, v = VObj m q (Some k) -> 0 <= k) ->
    In a (chk g alias sut x attrs v) -> valid (rend alias prec a) = true.
  Proof.
    intros g alias sut prec x attrs v a Ho Hin.
    assert (Hgen : (if assertable 5 v then [AObject x attrs v]
                    else let (m, q) := type_of v in
                         (if imp g alias sut m q then [AIsInstance x attrs m q] else [ATypeName x attrs m q])
                         ++ match len_of v with Some n => [ALength x attrs n] | None => [] end) = chk g alias sut x attrs v
                   \/ exists f, v = VFloat f).
    { destruct v; try (left; reflexivity). right. eexists. reflexivity. }
    destruct Hgen as [Hgen|[f ->]].
    - rewrite <- Hgen in Hin. clear Hgen. destruct (assertable 5 v) eqn:Ea.
      + destruct Hin as [<-|[]]. assert (Hv := v2c_valid 5 v Ea).
        destruct v; simpl; rewrite name_valid; simpl; try exact Hv; reflexivity.
      + destruct (type_of v) as [m q]. apply in_app_or in Hin as [Hin|Hin].
        * destruct (imp g alias sut m q); destruct Hin as [<-|[]]; simpl.
          -- rewrite name_valid, texpr_valid. reflexivity.
          -- rewrite name_valid. reflexivity.
        * destruct (len_of v) as [n|] eqn:El; [|destruct Hin]. destruct Hin as [<-|[]]. simpl.
          rewrite name_valid. unfold mk_int. assert (Hn := len_nonneg v n El Ho).
          assert (H : (0 <=? n) = true) by lia. rewrite H. reflexivity.
    - destruct Hin as [<-|[]]. simpl. rewrite name_valid, !mfl_valid. reflexivity.
  Qed.

  (* the rendered assertion holds for the observed value *)
  Lemma assert_holds : forall g alias sut prec x attrs v a,
    C20.builtins_visible g = true ->
    eval g (nm x attrs) = Ok v ->                 (* the source refers to the observed value *)
    wfb v = true -> enums_bound g v = true ->
    (forall m q k, v = VObj m q (Some k) -> 0 <= k) ->
    PrimFloat.ltb prec zero = false -> fnan prec = false ->
    In a (chk g alias sut x attrs v) -> is_nan_float a = false ->
    eval g (rend alias prec a) = Ok (VBool true).
  Proof.
    intros g alias sut prec x attrs v a Hg Hsrc Hw He Ho Hp1 Hp2 Hin Hnn.
    assert (Hg' := Hg). unfold C20.builtins_visible in Hg'.
    repeat (apply andb_prop in Hg' as [Hg' ?]).
    assert (Hgen : (if assertable 5 v then [AObject x attrs v]
                    else let (m, q) := type_of v in
                         (if imp g alias sut m q then [AIsInstance x attrs m q] else [ATypeName x attrs m q])
                         ++ match len_of v with Some n => [ALength x attrs n] | None => [] end) = chk g alias sut x attrs v
                   \/ exists f, v = VFloat f).
    { destruct v; try (left; reflexivity). right. eexists. reflexivity. }
    destruct Hgen as [Hgen|[f ->]].
    - rewrite <- Hgen in Hin. clear Hgen. destruct (assertable 5 v) eqn:Ea.
      + (* object assertion *)
        destruct Hin as [<-|[]].
        assert (Hv := v2c_eval g 5 v Hg Ea Hw He).
        assert (Hr := py_eq_refl v (assertable_nan_free 5 v Ea)).
        destruct v; try discriminate; cbn [render];
          try (rewrite eval_eq, Hsrc, Hv, Hr; reflexivity);
          rewrite eval_is, Hsrc, Hv; simpl; rewrite ?Bool.eqb_reflx; reflexivity.
      + destruct (type_of v) as [m q] eqn:Et. apply in_app_or in Hin as [Hin|Hin].
        * destruct (imp g alias sut m q) eqn:Ei; destruct Hin as [<-|[]].
          -- (* isinstance *)
             unfold importable in Ei. apply andb_prop in Ei as [Ei _]. apply andb_prop in Ei as [_ Ei].
             cbn [render]. rewrite eval_call.
             destruct (eval g (texpr alias m q)) as [w|] eqn:Ew; [|discriminate].
             simpl in Ei. assert (w = VType m q).
             { destruct w; try discriminate. simpl in Ei. apply andb_prop in Ei as [E1 E2].
               apply String.eqb_eq in E1. apply strs_eqb_eq in E2. subst. reflexivity. }
             subst w. rewrite (mapM2 g _ _ _ _ Hsrc Ew). simpl. rewrite H. simpl. rewrite Et. simpl.
             rewrite String.eqb_refl, strs_eqb_refl. reflexivity.
          -- (* type name *)
             cbn [render]. rewrite eval_eq.
             assert (Hm : eval g (EAttr (ECall (EName "type") [nm x attrs] []) "__module__") = Ok (VStr (s2l m))).
             { simpl. rewrite H0. simpl. rewrite Hsrc. rewrite Et. reflexivity. }
             assert (Hq : eval g (EAttr (ECall (EName "type") [nm x attrs] []) "__qualname__") = Ok (VStr (qual_str q))).
             { simpl. rewrite H0. simpl. rewrite Hsrc. rewrite Et. reflexivity. }
             change (eval g (EFStr2 (EAttr (ECall (EName "type") [nm x attrs] []) "__module__") [46%N]
                                    (EAttr (ECall (EName "type") [nm x attrs] []) "__qualname__")))
               with (match eval g (EAttr (ECall (EName "type") [nm x attrs] []) "__module__") with
                     | Ok va => match eval g (EAttr (ECall (EName "type") [nm x attrs] []) "__qualname__") with
                                | Ok vb => str_concat va [46%N] vb | Err e => Err e end
                     | Err e => Err e end).
             rewrite Hm, Hq. simpl. rewrite str_rt. rewrite pystr_eqb_refl. reflexivity.
        * (* length *)
          destruct (len_of v) as [n|] eqn:El; [|destruct Hin]. destruct Hin as [<-|[]].
          assert (Hn := len_nonneg v n El Ho). cbn [render]. rewrite eval_eq, eval_call.
          simpl mapM. rewrite Hsrc. simpl. rewrite H1. simpl. rewrite El.
          unfold mk_int. assert (Hz : (0 <=? n) = true) by lia. rewrite Hz. simpl. rewrite nat_rt by exact Hn.
          rewrite Z.eqb_refl. reflexivity.
    - (* float assertion, not NaN *)
      destruct Hin as [<-|[]]. simpl in Hnn. cbn [render]. rewrite eval_eq, Hsrc, eval_call.
      simpl mapM. rewrite !mfl_eval by assumption. simpl.
      assert (Hp1' : PrimFloat.ltb prec 0%float = false) by exact Hp1.
      rewrite Hp1', Hp2. simpl. unfold approx_eq. rewrite (eqb_refl f Hnn). reflexivity.
  Qed.
End Atoms.

(* ---------------------------------------------------------------------------------------------- *)
(* Non-vacuity: a namespace and an observed nested value (complex with -0.0, enum member, set, dict,
   bytes) that satisfy every hypothesis of assert_holds; the instance of the atoms is the one the
   correspondence evaluates. *)
Definition sample_value : value :=
  VList [VComplex neg_zero infinity; VEnum "Color"%string "RED"%string; VSet [VInt (-1); VStr [39%N]]; VDict [(VBytes [0%N], VTuple [VNone])]].
Definition sample_env : env :=
  env_of [(["var_0"%string], sample_value); (["Color"%string; "RED"%string], VEnum "Color"%string "RED"%string)].

Example sample_hypotheses :
  C20.builtins_visible sample_env = true /\ wfb sample_value = true /\
  enums_bound sample_env sample_value = true /\ assertable 5 sample_value = true /\
  eval0 sample_env (name_expr float Z pystr pystr "var_0"%string []) = Ok sample_value.
Proof. vm_compute. repeat split. Qed.

Example sample_assertion_holds :
  forall a, In a (check_value0 sample_env "mod_"%string "mod"%string "var_0"%string [] sample_value) ->
  eval0 sample_env (render0 "mod_"%string 0x1.47ae147ae147bp-7%float a) = Ok (VBool true).
Proof.
  intros a Ha. destruct sample_hypotheses as [Hg [Hw [He [_ Hs]]]].
  apply (assert_holds float Z pystr pystr idf idz ids ids idf idz ids ids
           (fun f _ => eq_refl) (fun n _ => eq_refl) (fun s => eq_refl) (fun s => eq_refl)
           sample_env "mod_"%string "mod"%string 0x1.47ae147ae147bp-7%float "var_0"%string [] sample_value a Hg Hs Hw He); try reflexivity.
  - intros m q k H. discriminate.
  - exact Ha.
  - destruct Ha as [<-|[]]. reflexivity.
Qed.

(* The one case in which the rendered assertion does NOT hold (known finding, kept by design: the
   rendering of a NaN FloatAssertion is pinned by the project's tests): an observed NaN. *)
Lemma float_nan_refuted :
  exists g a, In a (check_value0 g "mod_"%string "mod"%string "var_0"%string [] (VFloat nan)) /\
              eval0 g (name_expr float Z pystr pystr "var_0"%string []) = Ok (VFloat nan) /\
              eval0 g (render0 "mod_"%string 0x1.47ae147ae147bp-7%float a) = Ok (VBool false).
Proof.
  exists (env_of [(["var_0"%string], VFloat nan)]), (AFloat "var_0"%string [] nan).
  vm_compute. repeat split. left. reflexivity.
Qed.

(* what libcst rejected before the fixes: a signed Float token *)
Example signed_float_token_rejected :
  valid (mk_float float Z pystr pystr idf neg_zero) = false /\
  valid (make_float_literal0 neg_zero) = true /\
  eval0 (env_of []) (make_float_literal0 neg_zero) = Ok (VFloat neg_zero).
Proof. vm_compute. repeat split. Qed.
