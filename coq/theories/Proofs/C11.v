(* C11 — proofs: lookup characterisation of ExecutionTrace.merge, validity preservation,
   commutativity / associativity / order and grouping independence up to trace equivalence,
   metric functions respect equivalence, coverage monotone and fitness antitone under merge. *)
From Coq Require Import List ZArith QArith Qabs Bool Lia Lqa Permutation.
From Verif Require Import Models.C10 Models.C11.
Import ListNotations.
Import C10 C11.
Open Scope Z_scope.

(* ================================================================================================ *)
(* Part 0: lists of ids                                                                             *)
(* ================================================================================================ *)
Lemma memZ_In x l : memZ x l = true <-> In x l.
Proof.
  unfold memZ. rewrite existsb_exists. split.
  - intros [y [Hy He]]. apply Z.eqb_eq in He. now subst.
  - intro H. exists x. split; [exact H|apply Z.eqb_refl].
Qed.

Lemma memZ_false x l : memZ x l = false <-> ~ In x l.
Proof. rewrite <- memZ_In. destruct (memZ x l); split; congruence. Qed.

Lemma memZ_app x l1 l2 : memZ x (l1 ++ l2) = memZ x l1 || memZ x l2.
Proof. unfold memZ. apply existsb_app. Qed.

Lemma memZ_cons x y l : memZ x (y :: l) = (x =? y) || memZ x l.
Proof. reflexivity. Qed.

Lemma nodupb_NoDup l : nodupb l = true <-> NoDup l.
Proof.
  induction l as [|x r IH]; simpl.
  - split; [constructor|reflexivity].
  - rewrite andb_true_iff, negb_true_iff, memZ_false, IH. split.
    + intros [H1 H2]. now constructor.
    + intro H. inversion H; subst. tauto.
Qed.

Lemma subsetb_incl a b : subsetb a b = true <-> incl a b.
Proof.
  unfold subsetb, incl. rewrite forallb_forall. split; intros H x Hx; apply memZ_In, H, Hx.
Qed.

(* ---------- OrderedSet.update ---------- *)
Lemma memZ_add_set x l y : memZ x (add_set l y) = memZ x l || (x =? y).
Proof.
  unfold add_set. destruct (memZ y l) eqn:E.
  - destruct (Z.eqb_spec x y) as [->|Hne]; [rewrite E; reflexivity|now rewrite orb_false_r].
  - rewrite memZ_app. simpl. now rewrite orb_false_r.
Qed.

Lemma memZ_update_set x l xs : memZ x (update_set l xs) = memZ x l || memZ x xs.
Proof.
  unfold update_set. revert l. induction xs as [|y r IH]; intro l; simpl.
  - now rewrite orb_false_r.
  - rewrite IH, memZ_add_set. now rewrite orb_assoc.
Qed.

Lemma In_update_set x l xs : In x (update_set l xs) <-> In x l \/ In x xs.
Proof. rewrite <- !memZ_In, memZ_update_set, orb_true_iff. tauto. Qed.

Lemma add_set_extends l y : exists s, add_set l y = l ++ s.
Proof.
  unfold add_set. destruct (memZ y l); [exists []; now rewrite app_nil_r|exists [y]; reflexivity].
Qed.

Lemma update_set_extends l xs : exists s, update_set l xs = l ++ s.
Proof.
  unfold update_set. revert l. induction xs as [|y r IH]; intro l; simpl.
  - exists []. now rewrite app_nil_r.
  - destruct (add_set_extends l y) as [s1 E1]. destruct (IH (add_set l y)) as [s2 E2].
    exists (s1 ++ s2). now rewrite E2, E1, app_assoc.
Qed.

Lemma NoDup_add_set l y : NoDup l -> NoDup (add_set l y).
Proof.
  intro H. unfold add_set. destruct (memZ y l) eqn:E; [exact H|].
  apply memZ_false in E. apply (Permutation_NoDup (l := y :: l)); [apply Permutation_cons_append|now constructor].
Qed.

Lemma NoDup_update_set l xs : NoDup l -> NoDup (update_set l xs).
Proof.
  unfold update_set. revert l. induction xs as [|y r IH]; intros l H; simpl; [exact H|].
  apply IH, NoDup_add_set, H.
Qed.

Lemma incl_update_set l xs u : incl l u -> incl xs u -> incl (update_set l xs) u.
Proof. intros H1 H2 x Hx. apply In_update_set in Hx. destruct Hx; auto. Qed.

(* ================================================================================================ *)
(* Part 1: dictionaries and the generic merge loop                                                  *)
(* ================================================================================================ *)
Section DictFacts.
  Context {V : Type}.
  Implicit Types d : dict V.

  Lemma dget_dset d k v k' : dget (dset d k v) k' = if k' =? k then Some v else dget d k'.
  Proof.
    induction d as [|[k0 v0] r IH]; simpl.
    - reflexivity.
    - destruct (Z.eqb_spec k k0) as [->|Hne]; simpl.
      + destruct (Z.eqb_spec k' k0); reflexivity.
      + rewrite IH. destruct (Z.eqb_spec k' k0) as [->|Hne']; [|reflexivity].
        destruct (Z.eqb_spec k0 k); [congruence|reflexivity].
  Qed.

  Lemma keys_dset d k v : keys (dset d k v) = add_set (keys d) k.
  Proof.
    unfold add_set. induction d as [|[k0 v0] r IH]; simpl; [reflexivity|].
    destruct (Z.eqb_spec k k0) as [->|Hne]; simpl; [reflexivity|].
    unfold keys in *. rewrite IH. fold (memZ k (map fst r)). destruct (memZ k (map fst r)); reflexivity.
  Qed.

  Lemma dget_Some_In d k v : dget d k = Some v -> In (k, v) d.
  Proof.
    induction d as [|[k' v'] r IH]; simpl; [discriminate|].
    destruct (Z.eqb_spec k k') as [->|Hne].
    - intro E. injection E as ->. now left.
    - intro E. right. apply IH, E.
  Qed.

  Lemma dget_None_notin d k : dget d k = None <-> ~ In k (keys d).
  Proof.
    induction d as [|[k' v'] r IH]; simpl; [tauto|].
    destruct (Z.eqb_spec k k') as [->|Hne]; [split; [discriminate|tauto]|].
    rewrite IH. split; [intros H [E|H']; [congruence|tauto]|tauto].
  Qed.

  Lemma dget_NoDup_In d k v : NoDup (keys d) -> In (k, v) d -> dget d k = Some v.
  Proof.
    induction d as [|[k' v'] r IH]; simpl; [tauto|].
    intros Hnd [E|Hin]; inversion Hnd as [|? ? Hk Hr]; subst.
    - injection E as -> ->. now rewrite Z.eqb_refl.
    - destruct (Z.eqb_spec k k') as [->|Hne]; [|apply IH; assumption].
      exfalso. apply Hk. apply (in_map fst) in Hin. exact Hin.
  Qed.

  Lemma dmem_In d k : dmem d k = true <-> In k (keys d).
  Proof.
    unfold dmem. destruct (dget d k) eqn:E.
    - split; [intros _|reflexivity]. apply dget_Some_In in E. apply (in_map fst) in E. exact E.
    - split; [discriminate|]. intro H. apply dget_None_notin in E. contradiction.
  Qed.

  Lemma dget_value_In d k v : dget d k = Some v -> In v (values d).
  Proof. intro E. apply dget_Some_In in E. apply (in_map snd) in E. exact E. Qed.

  Lemma In_keys_dget d k : In k (keys d) <-> exists v, dget d k = Some v.
  Proof.
    rewrite <- dmem_In. unfold dmem. destruct (dget d k) as [v|].
    - split; [intros _; now exists v|reflexivity].
    - split; [discriminate|intros [v E]; discriminate].
  Qed.

  (* values of a duplicate-free dictionary are exactly what lookups return *)
  Lemma values_forall d (P : V -> Prop) : NoDup (keys d) ->
    ((forall v, In v (values d) -> P v) <-> (forall k v, dget d k = Some v -> P v)).
  Proof.
    intro Hnd. split.
    - intros H k v E. apply H, (dget_value_In _ _ _ E).
    - intros H v Hv. unfold values in Hv. apply in_map_iff in Hv. destruct Hv as [[k v'] [E Hin]].
      simpl in E. subst v'. apply (H k), dget_NoDup_In; assumption.
  Qed.

  (* the loop  for k, v in b.items(): a[k] = f(a.get(k), v) *)
  Definition merge_with (f : option V -> V -> V) (a b : dict V) : dict V :=
    fold_left (fun acc kv => dset acc (fst kv) (f (dget acc (fst kv)) (snd kv))) b a.

  Lemma dget_merge_with f a b k : NoDup (keys b) ->
    dget (merge_with f a b) k =
    match dget b k with Some y => Some (f (dget a k) y) | None => dget a k end.
  Proof.
    unfold merge_with. revert a. induction b as [|[k0 v0] r IH]; intros a Hnd; simpl; [reflexivity|].
    inversion Hnd as [|? ? Hk Hr]; subst. rewrite (IH _ Hr). rewrite !dget_dset.
    destruct (Z.eqb_spec k k0) as [->|Hne].
    - assert (E : dget r k0 = None) by (apply dget_None_notin; exact Hk). rewrite E. reflexivity.
    - reflexivity.
  Qed.

  Lemma keys_merge_with f a b : keys (merge_with f a b) = update_set (keys a) (keys b).
  Proof.
    unfold merge_with, update_set. revert a. induction b as [|[k0 v0] r IH]; intro a; simpl; [reflexivity|].
    rewrite IH, keys_dset. reflexivity.
  Qed.
End DictFacts.

Lemma merge_counts_with a b :
  merge_counts a b = merge_with (fun o v => match o with Some c => c | None => 0 end + v) a b.
Proof. reflexivity. Qed.

Lemma merge_min_with a b :
  merge_min a b = merge_with (fun o v => dist_min (match o with Some d => d | None => Inf end) v) a b.
Proof. reflexivity. Qed.

(* ---------- lookup characterisations of the three container merges ---------- *)
Theorem dget_merge_counts a b k : NoDup (keys b) ->
  dget (merge_counts a b) k =
  match dget a k, dget b k with
  | Some x, Some y => Some (x + y)
  | Some x, None => Some x
  | None, Some y => Some y
  | None, None => None
  end.
Proof.
  intro H. rewrite merge_counts_with, dget_merge_with by exact H.
  destruct (dget a k), (dget b k); reflexivity.
Qed.

Lemma dist_min_Inf_l d : dist_min Inf d = d.
Proof. unfold dist_min. destruct d; reflexivity. Qed.

Theorem dget_merge_min a b k : NoDup (keys b) ->
  dget (merge_min a b) k =
  match dget a k, dget b k with
  | Some x, Some y => Some (dist_min x y)
  | Some x, None => Some x
  | None, Some y => Some y
  | None, None => None
  end.
Proof.
  intro H. rewrite merge_min_with, dget_merge_with by exact H.
  destruct (dget a k), (dget b k); try reflexivity. now rewrite dist_min_Inf_l.
Qed.

Theorem keys_merge_counts a b : keys (merge_counts a b) = update_set (keys a) (keys b).
Proof. rewrite merge_counts_with. apply keys_merge_with. Qed.

Theorem keys_merge_min a b : keys (merge_min a b) = update_set (keys a) (keys b).
Proof. rewrite merge_min_with. apply keys_merge_with. Qed.

(* ================================================================================================ *)
(* Part 2: validity, unpacked; merge preserves validity and the container invariant                 *)
(* ================================================================================================ *)
Definition dists_nonneg (bd : dict dist) : Prop := forall d, In d (values bd) -> dist_nonneg d = true.

Lemma combine_eqb_eq (a b : list Z) :
  forallb (fun k => Z.eqb (fst k) (snd k)) (combine a b) = true -> length a = length b -> a = b.
Proof.
  revert b. induction a as [|x a IH]; intros [|y b]; simpl; try discriminate; [reflexivity|].
  rewrite andb_true_iff. intros [E H] L. apply Z.eqb_eq in E. subst. f_equal. apply IH; [exact H|lia].
Qed.

Lemma combine_eqb_refl (l : list Z) : forallb (fun k => Z.eqb (fst k) (snd k)) (combine l l) = true.
Proof. induction l as [|x l IH]; simpl; [reflexivity|]. now rewrite Z.eqb_refl. Qed.

Record Valid (t : trace) (r : registry) : Prop := {
  v_nd_code : NoDup (exec_code t);
  v_nd_cov : NoDup (cov_lines t);
  v_nd_chk : NoDup (chk_lines t);
  v_cov_sub : incl (cov_lines t) (lines r);
  v_chk_sub : incl (chk_lines t) (lines r);
  v_nd_keys : NoDup (keys (exec_pred t));
  v_keys_sub : incl (keys (exec_pred t)) (predicates r);
  v_keys_true : keys (true_d t) = keys (exec_pred t);
  v_keys_false : keys (false_d t) = keys (exec_pred t);
  v_counts : forall c, In c (values (exec_pred t)) -> 1 <= c;
  v_nn_true : dists_nonneg (true_d t);
  v_nn_false : dists_nonneg (false_d t);
}.

Lemma map_length_keys {V} (d : dict V) : length (keys d) = length d.
Proof. apply map_length. Qed.

Lemma valid_Valid t r : valid t r = true <-> Valid t r.
Proof.
  unfold valid. rewrite !andb_true_iff. split.
  - intros [[[[[[[[[[[[[A1 A2] A3] A4] A5] A6] A7] A8] A9] A10] A11] A12] A13] A14].
    constructor.
    + now apply nodupb_NoDup.
    + now apply nodupb_NoDup.
    + now apply nodupb_NoDup.
    + now apply subsetb_incl.
    + now apply subsetb_incl.
    + now apply nodupb_NoDup.
    + now apply subsetb_incl.
    + apply combine_eqb_eq; [exact A8|]. rewrite !map_length_keys. now apply Nat.eqb_eq.
    + apply combine_eqb_eq; [exact A10|]. rewrite !map_length_keys. now apply Nat.eqb_eq.
    + intros c Hc. rewrite forallb_forall in A12. apply Z.leb_le, A12, Hc.
    + intros d Hd. rewrite forallb_forall in A13. apply A13, Hd.
    + intros d Hd. rewrite forallb_forall in A14. apply A14, Hd.
  - intros [B1 B2 B3 B4 B5 B6 B7 B8 B9 B10 B11 B12].
    repeat split.
    + now apply nodupb_NoDup.
    + now apply nodupb_NoDup.
    + now apply nodupb_NoDup.
    + now apply subsetb_incl.
    + now apply subsetb_incl.
    + now apply nodupb_NoDup.
    + now apply subsetb_incl.
    + rewrite B8. apply combine_eqb_refl.
    + apply Nat.eqb_eq. rewrite <- !map_length_keys. now rewrite B8.
    + rewrite B9. apply combine_eqb_refl.
    + apply Nat.eqb_eq. rewrite <- !map_length_keys. now rewrite B9.
    + apply forallb_forall. intros c Hc. apply Z.leb_le, B10, Hc.
    + apply forallb_forall. exact B11.
    + apply forallb_forall. exact B12.
Qed.

Lemma trace_wf_spec t : trace_wf t = true <->
  NoDup (exec_code t) /\ NoDup (cov_lines t) /\ NoDup (chk_lines t) /\
  NoDup (keys (exec_pred t)) /\ NoDup (keys (true_d t)) /\ NoDup (keys (false_d t)).
Proof. unfold trace_wf. rewrite !andb_true_iff, !nodupb_NoDup. tauto. Qed.

Lemma Valid_wf t r : Valid t r -> trace_wf t = true.
Proof.
  intros [B1 B2 B3 B4 B5 B6 B7 B8 B9 B10 B11 B12]. apply trace_wf_spec.
  rewrite B8, B9. tauto.
Qed.

Lemma valid_wf t r : valid t r = true -> trace_wf t = true.
Proof. intro H. apply (Valid_wf t r), valid_Valid, H. Qed.

Lemma wf_empty : trace_wf empty_trace = true.
Proof. reflexivity. Qed.

Lemma valid_empty r : valid empty_trace r = true.
Proof. reflexivity. Qed.

(* merge keeps the container invariant of its left argument, whatever the right argument is *)
Theorem wf_merge a b : trace_wf a = true -> trace_wf (merge a b) = true.
Proof.
  rewrite !trace_wf_spec. intros (H1 & H2 & H3 & H4 & H5 & H6). simpl.
  rewrite keys_merge_counts, !keys_merge_min. repeat split; now apply NoDup_update_set.
Qed.

Lemma dist_nonneg_min x y : dist_nonneg x = true -> dist_nonneg y = true -> dist_nonneg (dist_min x y) = true.
Proof. intros Hx Hy. unfold dist_min. destruct (dist_le y x); assumption. Qed.

Lemma dists_nonneg_merge_min a b : NoDup (keys a) -> NoDup (keys b) ->
  dists_nonneg a -> dists_nonneg b -> dists_nonneg (merge_min a b).
Proof.
  intros Na Nb Ha Hb. unfold dists_nonneg.
  apply (values_forall (merge_min a b) (fun d => dist_nonneg d = true)).
  { rewrite keys_merge_min. now apply NoDup_update_set. }
  intros k v. rewrite (dget_merge_min a b k Nb).
  destruct (dget a k) as [x|] eqn:Ea, (dget b k) as [y|] eqn:Eb; intro E; try discriminate;
    injection E as <-.
  - apply dist_nonneg_min; [apply Ha, (dget_value_In _ _ _ Ea)|apply Hb, (dget_value_In _ _ _ Eb)].
  - apply Ha, (dget_value_In _ _ _ Ea).
  - apply Hb, (dget_value_In _ _ _ Eb).
Qed.

Theorem Valid_merge a b r : Valid a r -> Valid b r -> Valid (merge a b) r.
Proof.
  intros [A1 A2 A3 A4 A5 A6 A7 A8 A9 A10 A11 A12] [B1 B2 B3 B4 B5 B6 B7 B8 B9 B10 B11 B12].
  constructor; simpl.
  - now apply NoDup_update_set.
  - now apply NoDup_update_set.
  - now apply NoDup_update_set.
  - now apply incl_update_set.
  - now apply incl_update_set.
  - rewrite keys_merge_counts. now apply NoDup_update_set.
  - rewrite keys_merge_counts. now apply incl_update_set.
  - rewrite keys_merge_min, keys_merge_counts, A8, B8. reflexivity.
  - rewrite keys_merge_min, keys_merge_counts, A9, B9. reflexivity.
  - apply (values_forall (merge_counts (exec_pred a) (exec_pred b)) (fun c => 1 <= c)).
    { rewrite keys_merge_counts. now apply NoDup_update_set. }
    intros k v. rewrite (dget_merge_counts _ _ k B6).
    destruct (dget (exec_pred a) k) as [x|] eqn:Ea, (dget (exec_pred b) k) as [y|] eqn:Eb;
      intro E; try discriminate; injection E as <-.
    + pose proof (A10 x (dget_value_In _ _ _ Ea)). pose proof (B10 y (dget_value_In _ _ _ Eb)). lia.
    + apply A10, (dget_value_In _ _ _ Ea).
    + apply B10, (dget_value_In _ _ _ Eb).
  - apply dists_nonneg_merge_min; try assumption; [rewrite A8|rewrite B8]; assumption.
  - apply dists_nonneg_merge_min; try assumption; [rewrite A9|rewrite B9]; assumption.
Qed.

Theorem valid_merge a b r : valid a r = true -> valid b r = true -> valid (merge a b) r = true.
Proof. rewrite !valid_Valid. apply Valid_merge. Qed.

Theorem valid_merge_all ts r : Forall (fun t => valid t r = true) ts -> valid (merge_all ts) r = true.
Proof.
  unfold merge_all. generalize (valid_empty r). generalize empty_trace.
  induction ts as [|t ts IH]; intros acc Hacc H; simpl; [exact Hacc|].
  inversion H; subst. apply IH; [apply valid_merge; assumption|assumption].
Qed.

(* ================================================================================================ *)
(* Part 3: trace equivalence; merge is a commutative monoid operation up to equivalence             *)
(* ================================================================================================ *)
Open Scope Q_scope.

Lemma Qle_bool_false x y : Qle_bool x y = false -> y < x.
Proof. intro H. apply Qnot_le_lt. intro L. apply Qle_bool_iff in L. congruence. Qed.

Ltac qbool :=
  repeat match goal with
  | H : Qle_bool _ _ = true |- _ => apply Qle_bool_iff in H
  | H : Qle_bool _ _ = false |- _ => apply Qle_bool_false in H
  | H : Qeq_bool _ _ = true |- _ => apply Qeq_bool_iff in H
  | H : Qeq_bool _ _ = false |- _ => apply Qeq_bool_neq in H
  end.

Ltac case_qle :=
  repeat (match goal with
          | |- context [Qle_bool ?a ?b] => destruct (Qle_bool a b) eqn:?
          end; cbn [dist_min dist_le dist_equiv] in * ).

Lemma dist_equiv_refl d : dist_equiv d d.
Proof. destruct d; simpl; [reflexivity|exact I]. Qed.

Lemma dist_equiv_sym a b : dist_equiv a b -> dist_equiv b a.
Proof. destruct a, b; simpl; try tauto. intro H. now symmetry. Qed.

Lemma dist_equiv_trans a b c : dist_equiv a b -> dist_equiv b c -> dist_equiv a c.
Proof. destruct a, b, c; simpl; try tauto. intros H1 H2. now rewrite H1. Qed.

Lemma dist_min_compat x x' y y' :
  dist_equiv x x' -> dist_equiv y y' -> dist_equiv (dist_min x y) (dist_min x' y').
Proof.
  destruct x as [x|], x' as [x'|], y as [y|], y' as [y'|]; simpl; try tauto; intros H1 H2;
    unfold dist_min; cbn [dist_le]; case_qle; qbool; simpl; try tauto; try lra.
Qed.

Lemma dist_min_comm x y : dist_equiv (dist_min x y) (dist_min y x).
Proof.
  destruct x as [x|], y as [y|]; unfold dist_min; cbn [dist_le]; case_qle; qbool; simpl; try tauto; try lra.
Qed.

Lemma dist_min_assoc x y z : dist_equiv (dist_min (dist_min x y) z) (dist_min x (dist_min y z)).
Proof.
  destruct x as [x|], y as [y|], z as [z|]; unfold dist_min; cbn [dist_le];
    case_qle; qbool; simpl; try tauto; try lra.
Qed.

Lemma odist_equiv_refl o : odist_equiv o o.
Proof. destruct o; simpl; [apply dist_equiv_refl|exact I]. Qed.

Lemma odist_equiv_sym a b : odist_equiv a b -> odist_equiv b a.
Proof. destruct a, b; simpl; try tauto. apply dist_equiv_sym. Qed.

Lemma odist_equiv_trans a b c : odist_equiv a b -> odist_equiv b c -> odist_equiv a c.
Proof. destruct a, b, c; simpl; try tauto. apply dist_equiv_trans. Qed.

Lemma te_refl a : trace_equiv a a.
Proof. constructor; intro; try reflexivity; apply odist_equiv_refl. Qed.

Lemma te_sym a b : trace_equiv a b -> trace_equiv b a.
Proof.
  intros [H1 H2 H3 H4 H5 H6]. constructor; intro k; try (symmetry; auto; fail).
  - apply odist_equiv_sym, H3.
  - apply odist_equiv_sym, H4.
Qed.

Lemma te_trans a b c : trace_equiv a b -> trace_equiv b c -> trace_equiv a c.
Proof.
  intros [H1 H2 H3 H4 H5 H6] [G1 G2 G3 G4 G5 G6]. constructor; intro k.
  - now rewrite H1.
  - now rewrite H2.
  - eapply odist_equiv_trans; [apply H3|apply G3].
  - eapply odist_equiv_trans; [apply H4|apply G4].
  - now rewrite H5.
  - now rewrite H6.
Qed.

(* --- the three container merges: compatibility, commutativity, associativity, identity --- *)
Lemma set_merge_compat a a' b b' :
  set_equiv a a' -> set_equiv b b' -> set_equiv (update_set a b) (update_set a' b').
Proof. intros H1 H2 x. now rewrite !memZ_update_set, H1, H2. Qed.

Lemma set_merge_comm a b : set_equiv (update_set a b) (update_set b a).
Proof. intro x. rewrite !memZ_update_set. apply orb_comm. Qed.

Lemma set_merge_assoc a b c : set_equiv (update_set (update_set a b) c) (update_set a (update_set b c)).
Proof. intro x. rewrite !memZ_update_set. now rewrite orb_assoc. Qed.

Lemma set_merge_empty_l a : set_equiv (update_set [] a) a.
Proof. intro x. now rewrite memZ_update_set. Qed.

Lemma counts_merge_compat a a' b b' : NoDup (keys b) -> NoDup (keys b') ->
  dictZ_equiv a a' -> dictZ_equiv b b' -> dictZ_equiv (merge_counts a b) (merge_counts a' b').
Proof. intros N N' H1 H2 k. now rewrite !dget_merge_counts, H1, H2. Qed.

Lemma counts_merge_comm a b : NoDup (keys a) -> NoDup (keys b) ->
  dictZ_equiv (merge_counts a b) (merge_counts b a).
Proof.
  intros Na Nb k. rewrite !dget_merge_counts by assumption.
  destruct (dget a k), (dget b k); try reflexivity. f_equal. apply Z.add_comm.
Qed.

Lemma counts_merge_assoc a b c : NoDup (keys b) -> NoDup (keys c) ->
  dictZ_equiv (merge_counts (merge_counts a b) c) (merge_counts a (merge_counts b c)).
Proof.
  intros Nb Nc k.
  assert (Nbc : NoDup (keys (merge_counts b c))) by (rewrite keys_merge_counts; now apply NoDup_update_set).
  rewrite !dget_merge_counts by assumption.
  destruct (dget a k), (dget b k), (dget c k); try reflexivity. f_equal. symmetry. apply Z.add_assoc.
Qed.

Lemma counts_merge_empty_l a : NoDup (keys a) -> dictZ_equiv (merge_counts [] a) a.
Proof. intros Na k. rewrite dget_merge_counts by assumption. simpl. destruct (dget a k); reflexivity. Qed.

Lemma min_merge_compat a a' b b' : NoDup (keys b) -> NoDup (keys b') ->
  dictD_equiv a a' -> dictD_equiv b b' -> dictD_equiv (merge_min a b) (merge_min a' b').
Proof.
  intros N N' H1 H2 k. rewrite !dget_merge_min by assumption.
  specialize (H1 k). specialize (H2 k).
  destruct (dget a k), (dget a' k), (dget b k), (dget b' k); simpl in *; try tauto.
  now apply dist_min_compat.
Qed.

Lemma min_merge_comm a b : NoDup (keys a) -> NoDup (keys b) ->
  dictD_equiv (merge_min a b) (merge_min b a).
Proof.
  intros Na Nb k. rewrite !dget_merge_min by assumption.
  destruct (dget a k), (dget b k); simpl; try apply dist_equiv_refl; try exact I. apply dist_min_comm.
Qed.

Lemma min_merge_assoc a b c : NoDup (keys b) -> NoDup (keys c) ->
  dictD_equiv (merge_min (merge_min a b) c) (merge_min a (merge_min b c)).
Proof.
  intros Nb Nc k.
  assert (Nbc : NoDup (keys (merge_min b c))) by (rewrite keys_merge_min; now apply NoDup_update_set).
  rewrite !dget_merge_min by assumption.
  destruct (dget a k), (dget b k), (dget c k); simpl; try apply dist_equiv_refl; try exact I.
  apply dist_min_assoc.
Qed.

Lemma min_merge_empty_l a : NoDup (keys a) -> dictD_equiv (merge_min [] a) a.
Proof.
  intros Na k. rewrite dget_merge_min by assumption. simpl.
  destruct (dget a k); simpl; [apply dist_equiv_refl|exact I].
Qed.

(* --- traces --- *)
Theorem merge_compat a a' b b' : trace_wf b = true -> trace_wf b' = true ->
  trace_equiv a a' -> trace_equiv b b' -> trace_equiv (merge a b) (merge a' b').
Proof.
  rewrite !trace_wf_spec. intros (_ & _ & _ & N1 & N2 & N3) (_ & _ & _ & N1' & N2' & N3').
  intros [H1 H2 H3 H4 H5 H6] [G1 G2 G3 G4 G5 G6]. constructor; simpl.
  - now apply set_merge_compat.
  - now apply counts_merge_compat.
  - now apply min_merge_compat.
  - now apply min_merge_compat.
  - now apply set_merge_compat.
  - now apply set_merge_compat.
Qed.

Theorem merge_comm a b : trace_wf a = true -> trace_wf b = true ->
  trace_equiv (merge a b) (merge b a).
Proof.
  rewrite !trace_wf_spec. intros (_ & _ & _ & N1 & N2 & N3) (_ & _ & _ & N1' & N2' & N3').
  constructor; simpl.
  - apply set_merge_comm.
  - now apply counts_merge_comm.
  - now apply min_merge_comm.
  - now apply min_merge_comm.
  - apply set_merge_comm.
  - apply set_merge_comm.
Qed.

Theorem merge_assoc a b c : trace_wf b = true -> trace_wf c = true ->
  trace_equiv (merge (merge a b) c) (merge a (merge b c)).
Proof.
  rewrite !trace_wf_spec. intros (_ & _ & _ & N1 & N2 & N3) (_ & _ & _ & N1' & N2' & N3').
  constructor; simpl.
  - apply set_merge_assoc.
  - now apply counts_merge_assoc.
  - now apply min_merge_assoc.
  - now apply min_merge_assoc.
  - apply set_merge_assoc.
  - apply set_merge_assoc.
Qed.

Theorem merge_empty_l a : trace_wf a = true -> trace_equiv (merge empty_trace a) a.
Proof.
  rewrite trace_wf_spec. intros (_ & _ & _ & N1 & N2 & N3). constructor; simpl.
  - apply set_merge_empty_l.
  - now apply counts_merge_empty_l.
  - now apply min_merge_empty_l.
  - now apply min_merge_empty_l.
  - apply set_merge_empty_l.
  - apply set_merge_empty_l.
Qed.

Theorem merge_empty_r a : merge a empty_trace = a.
Proof. destruct a; reflexivity. Qed.

(* --- folds: analyze_results over any permutation and any grouping --- *)
Definition all_wf (ts : list trace) : Prop := Forall (fun t => trace_wf t = true) ts.

Lemma wf_fold ts acc : trace_wf acc = true -> trace_wf (fold_left merge ts acc) = true.
Proof. revert acc. induction ts as [|t ts IH]; intros acc H; simpl; [exact H|]. apply IH, wf_merge, H. Qed.

Lemma wf_merge_all ts : trace_wf (merge_all ts) = true.
Proof. apply wf_fold, wf_empty. Qed.

Lemma fold_merge_compat ts acc acc' : all_wf ts -> trace_equiv acc acc' ->
  trace_equiv (fold_left merge ts acc) (fold_left merge ts acc').
Proof.
  revert acc acc'. induction ts as [|t ts IH]; intros acc acc' W H; simpl; [exact H|].
  inversion W; subst. apply IH; [assumption|]. apply merge_compat; try assumption. apply te_refl.
Qed.

Lemma merge_swap acc x y : trace_wf x = true -> trace_wf y = true ->
  trace_equiv (merge (merge acc y) x) (merge (merge acc x) y).
Proof.
  intros Wx Wy.
  eapply te_trans; [apply merge_assoc; assumption|].
  eapply te_trans; [|apply te_sym, merge_assoc; assumption].
  apply merge_compat; try (apply wf_merge; assumption); [apply te_refl|apply merge_comm; assumption].
Qed.

Lemma fold_merge_perm ts ts' : Permutation ts ts' -> all_wf ts ->
  forall acc, trace_equiv (fold_left merge ts acc) (fold_left merge ts' acc).
Proof.
  induction 1 as [|x l l' P IH|x y l|l l' l'' P1 IH1 P2 IH2]; intros W acc; simpl.
  - apply te_refl.
  - inversion W; subst. now apply IH.
  - inversion W as [|? ? Wy W']; subst. inversion W' as [|? ? Wx W'']; subst.
    apply fold_merge_compat; [assumption|]. now apply merge_swap.
  - eapply te_trans; [apply IH1, W|]. apply IH2. unfold all_wf in *.
    eapply Permutation_Forall; eassumption.
Qed.

Theorem merge_all_perm ts ts' : Permutation ts ts' -> all_wf ts ->
  trace_equiv (merge_all ts) (merge_all ts').
Proof. intros P W. now apply fold_merge_perm. Qed.

Lemma fold_merge_merge_all ts : all_wf ts ->
  forall acc, trace_equiv (fold_left merge ts acc) (merge acc (merge_all ts)).
Proof.
  induction ts as [|x l IH]; intros W acc.
  - simpl. unfold merge_all. simpl. rewrite merge_empty_r. apply te_refl.
  - inversion W as [|? ? Wx Wl]; subst. simpl.
    eapply te_trans; [apply (IH Wl)|].
    eapply te_trans; [apply merge_assoc; [exact Wx|apply wf_merge_all]|].
    apply merge_compat.
    + apply wf_merge, Wx.
    + apply wf_merge_all.
    + apply te_refl.
    + apply te_sym. unfold merge_all at 1. simpl.
      eapply te_trans; [apply (IH Wl)|].
      apply merge_compat; try apply wf_merge_all; [apply merge_empty_l, Wx|apply te_refl].
Qed.

Theorem merge_all_app ts1 ts2 : all_wf ts2 ->
  trace_equiv (merge_all (ts1 ++ ts2)) (merge (merge_all ts1) (merge_all ts2)).
Proof. intro W. unfold merge_all at 1. rewrite fold_left_app. now apply fold_merge_merge_all. Qed.

Lemma wf_eval m : all_wf (leaves m) -> trace_wf (eval m) = true.
Proof.
  destruct m as [t|l r]; simpl; intro W.
  - now inversion W.
  - apply wf_merge. revert W. generalize r. clear r.
    induction l as [t|l1 IH1 l2 IH2]; intros r W; simpl in *.
    + now inversion W.
    + apply wf_merge. apply (IH1 l2). unfold all_wf in *. rewrite <- app_assoc in W.
      rewrite Forall_app in W. rewrite Forall_app. destruct W as [W1 W2]. rewrite Forall_app in W2. tauto.
Qed.

Theorem eval_merge_all m : all_wf (leaves m) -> trace_equiv (eval m) (merge_all (leaves m)).
Proof.
  induction m as [t|l IHl r IHr]; simpl; intro W.
  - inversion W; subst. apply te_sym. unfold merge_all. simpl. now apply merge_empty_l.
  - unfold all_wf in W. apply Forall_app in W. destruct W as [Wl Wr].
    eapply te_trans; [|apply te_sym, merge_all_app, Wr].
    apply merge_compat; [now apply wf_eval|apply wf_merge_all|now apply IHl|now apply IHr].
Qed.

(* any two orders and groupings of the same traces give equivalent results *)
Theorem eval_order_grouping_independent m m' :
  Permutation (leaves m) (leaves m') -> all_wf (leaves m) -> trace_equiv (eval m) (eval m').
Proof.
  intros P W.
  assert (W' : all_wf (leaves m')) by (unfold all_wf in *; eapply Permutation_Forall; eassumption).
  eapply te_trans; [apply eval_merge_all, W|].
  eapply te_trans; [apply merge_all_perm; eassumption|].
  apply te_sym, eval_merge_all, W'.
Qed.

(* ================================================================================================ *)
(* Part 4: the metric functions respect trace equivalence                                           *)
(* ================================================================================================ *)
Lemma set_equiv_In a b : set_equiv a b -> forall x, In x a <-> In x b.
Proof. intros H x. rewrite <- !memZ_In, (H x). tauto. Qed.

Lemma set_equiv_perm a b : NoDup a -> NoDup b -> set_equiv a b -> Permutation a b.
Proof. intros Na Nb H. apply NoDup_Permutation; try assumption. now apply set_equiv_In. Qed.

Lemma set_equiv_length a b : NoDup a -> NoDup b -> set_equiv a b -> length a = length b.
Proof. intros Na Nb H. apply Permutation_length, set_equiv_perm; assumption. Qed.

Lemma count_if_cons {A} (f : A -> bool) x l :
  count_if f (x :: l) = ((if f x then 1 else 0) + count_if f l)%Z.
Proof. unfold count_if. simpl. destruct (f x); simpl length; lia. Qed.

Lemma count_if_app {A} (f : A -> bool) l s : count_if f (l ++ s) = (count_if f l + count_if f s)%Z.
Proof. unfold count_if. rewrite filter_app, app_length. lia. Qed.

Lemma count_if_nonneg {A} (f : A -> bool) l : (0 <= count_if f l)%Z.
Proof. unfold count_if. lia. Qed.

Lemma count_if_le_impl {A} (f g : A -> bool) l :
  (forall x, In x l -> f x = true -> g x = true) -> (count_if f l <= count_if g l)%Z.
Proof.
  induction l as [|x l IH]; intro H; [unfold count_if; simpl; lia|].
  rewrite !count_if_cons.
  assert (IH' : (count_if f l <= count_if g l)%Z) by (apply IH; intros y Hy; apply H; now right).
  destruct (f x) eqn:F; [rewrite (H x (or_introl eq_refl) F); lia|destruct (g x); lia].
Qed.

Lemma count_if_ext_in {A} (f g : A -> bool) l :
  (forall x, In x l -> f x = g x) -> count_if f l = count_if g l.
Proof.
  intro H. apply Z.le_antisymm; apply count_if_le_impl; intros x Hx E; [rewrite <- H|rewrite H]; assumption.
Qed.

Lemma count_if_perm {A} (f : A -> bool) l l' : Permutation l l' -> count_if f l = count_if f l'.
Proof.
  induction 1 as [|x l l' P IH|x y l|l l' l'' P1 IH1 P2 IH2]; rewrite ?count_if_cons; try lia.
Qed.

Lemma dist_is_zero_compat x y : dist_equiv x y -> dist_is_zero x = dist_is_zero y.
Proof.
  destruct x as [x|], y as [y|]; simpl; try tauto. intro H.
  destruct (Qeq_bool x 0) eqn:E1, (Qeq_bool y 0) eqn:E2; qbool; try reflexivity; exfalso.
  - apply E2. now rewrite <- H.
  - apply E1. now rewrite H.
Qed.

Lemma normalise_compat x y : dist_equiv x y -> normalise x == normalise y.
Proof. destruct x as [x|], y as [y|]; simpl; try tauto; [|reflexivity]. intro H. now rewrite H. Qed.

Lemma has_zero_compat a b p : dictD_equiv a b -> has_zero a p = has_zero b p.
Proof.
  intro H. specialize (H p). unfold has_zero.
  destruct (dget a p), (dget b p); simpl in H; try tauto. now apply dist_is_zero_compat.
Qed.

Lemma dictD_equiv_keys a b : dictD_equiv a b -> set_equiv (keys a) (keys b).
Proof.
  intros H k. specialize (H k).
  destruct (memZ k (keys a)) eqn:Ea, (memZ k (keys b)) eqn:Eb; try reflexivity; exfalso.
  - apply memZ_In, In_keys_dget in Ea. destruct Ea as [v Ea]. apply memZ_false in Eb.
    apply dget_None_notin in Eb. rewrite Ea, Eb in H. exact H.
  - apply memZ_In, In_keys_dget in Eb. destruct Eb as [v Eb]. apply memZ_false in Ea.
    apply dget_None_notin in Ea. rewrite Ea, Eb in H. exact H.
Qed.

(* number of zero distances = number of keys whose lookup is zero (keys are distinct) *)
Lemma count_zero_keys d : NoDup (keys d) ->
  count_if dist_is_zero (values d) = count_if (has_zero d) (keys d).
Proof.
  induction d as [|[k v] r IH]; intro N; [reflexivity|].
  simpl in N. inversion N as [|? ? Hk Hr]; subst.
  change (values ((k, v) :: r)) with (v :: values r). change (keys ((k, v) :: r)) with (k :: keys r).
  rewrite !count_if_cons, (IH Hr). f_equal.
  - unfold has_zero. simpl. now rewrite Z.eqb_refl.
  - apply count_if_ext_in. intros k' Hk'. unfold has_zero. simpl.
    destruct (Z.eqb_spec k' k) as [->|Hne]; [contradiction|reflexivity].
Qed.

Lemma count_zero_compat a b : NoDup (keys a) -> NoDup (keys b) -> dictD_equiv a b ->
  count_if dist_is_zero (values a) = count_if dist_is_zero (values b).
Proof.
  intros Na Nb H. rewrite !count_zero_keys by assumption.
  rewrite (count_if_perm (has_zero a) (keys a) (keys b)).
  - apply count_if_ext_in. intros k _. now apply has_zero_compat.
  - apply set_equiv_perm; try assumption. now apply dictD_equiv_keys.
Qed.

(* ---- sums ---- *)
Fixpoint qsum (l : list Q) : Q := match l with [] => 0 | x :: r => x + qsum r end.

Lemma qsum_map_le {A} (f g : A -> Q) l : (forall x, In x l -> f x <= g x) -> qsum (map f l) <= qsum (map g l).
Proof.
  induction l as [|x l IH]; intro H; simpl; [lra|].
  assert (f x <= g x) by (apply H; now left).
  assert (qsum (map f l) <= qsum (map g l)) by (apply IH; intros; apply H; now right). lra.
Qed.

Lemma qsum_map_eq {A} (f g : A -> Q) l : (forall x, In x l -> f x == g x) -> qsum (map f l) == qsum (map g l).
Proof.
  intro H. apply Qle_antisym; apply qsum_map_le; intros x Hx; rewrite (H x Hx); lra.
Qed.

Definition pred_term (t : trace) (ex_true ex_false : list Z) (p : Z) : Q :=
  (if memZ p ex_true then 0 else predicate_fitness p (true_d t) t) +
  (if memZ p ex_false then 0 else predicate_fitness p (false_d t) t).

Lemma fold_pred_terms t ex_true ex_false ps acc :
  fold_left (fun acc p =>
               let acc1 := if memZ p ex_true then acc else acc + predicate_fitness p (true_d t) t in
               if memZ p ex_false then acc1 else acc1 + predicate_fitness p (false_d t) t) ps acc
  == acc + qsum (map (pred_term t ex_true ex_false) ps).
Proof.
  revert acc. induction ps as [|p r IH]; intro acc; simpl; [lra|].
  rewrite IH. unfold pred_term at 2. cbv zeta.
  destruct (memZ p ex_true), (memZ p ex_false); lra.
Qed.

Lemma branch_fitness_ex_sum t r ec et ef :
  branch_fitness_ex t r ec et ef ==
  inject_Z (code_objects_missing t r ec) + qsum (map (pred_term t et ef) (predicates r)).
Proof. unfold branch_fitness_ex. rewrite fold_pred_terms. lra. Qed.

Lemma predicate_fitness_compat p da db a b :
  dictD_equiv da db -> dictZ_equiv (exec_pred a) (exec_pred b) ->
  predicate_fitness p da a == predicate_fitness p db b.
Proof.
  intros H1 H2. unfold predicate_fitness. specialize (H1 p). rewrite (H2 p).
  destruct (dget da p) as [x|], (dget db p) as [y|]; simpl in H1; try tauto; [|reflexivity].
  rewrite (dist_is_zero_compat x y H1). destruct (dist_is_zero y); [reflexivity|].
  destruct (dget (exec_pred b) p) as [c|]; [|reflexivity].
  destruct (2 <=? c)%Z; [|reflexivity]. now apply normalise_compat.
Qed.

Theorem branch_fitness_respects a b r ec et ef : trace_equiv a b ->
  branch_fitness_ex a r ec et ef == branch_fitness_ex b r ec et ef.
Proof.
  intros [H1 H2 H3 H4 H5 H6]. rewrite !branch_fitness_ex_sum.
  assert (E : code_objects_missing a r ec = code_objects_missing b r ec).
  { unfold code_objects_missing. apply count_if_ext_in. intros c _. now rewrite (H1 c). }
  rewrite E. apply Qplus_comp; [reflexivity|]. apply qsum_map_eq. intros p _. unfold pred_term.
  pose proof (predicate_fitness_compat p (true_d a) (true_d b) a b H3 H2) as P1.
  pose proof (predicate_fitness_compat p (false_d a) (false_d b) a b H4 H2) as P2.
  destruct (memZ p et), (memZ p ef); lra.
Qed.

Lemma existsb_ext {A} (f g : A -> bool) l : (forall x, f x = g x) -> existsb f l = existsb g l.
Proof. intro H. induction l as [|x l IH]; simpl; [reflexivity|]. now rewrite H, IH. Qed.

Lemma forallb_ext {A} (f g : A -> bool) l : (forall x, f x = g x) -> forallb f l = forallb g l.
Proof. intro H. induction l as [|x l IH]; simpl; [reflexivity|]. now rewrite H, IH. Qed.

Theorem branch_is_covered_respects a b r ec et ef : trace_equiv a b ->
  branch_is_covered_ex a r ec et ef = branch_is_covered_ex b r ec et ef.
Proof.
  intros [H1 H2 H3 H4 H5 H6]. unfold branch_is_covered_ex.
  rewrite (existsb_ext _ (fun c => negb (memZ c (exec_code b)) && negb (memZ c ec))).
  2:{ intro c. now rewrite (H1 c). }
  rewrite (forallb_ext _ (fun p => (memZ p et || has_zero (true_d b) p) && (memZ p ef || has_zero (false_d b) p))).
  2:{ intro p. now rewrite (has_zero_compat _ _ p H3), (has_zero_compat _ _ p H4). }
  reflexivity.
Qed.

Theorem branch_coverage_respects a b r : trace_wf a = true -> trace_wf b = true -> trace_equiv a b ->
  branch_coverage a r = branch_coverage b r.
Proof.
  rewrite !trace_wf_spec. intros (A1 & A2 & A3 & A4 & A5 & A6) (B1 & B2 & B3 & B4 & B5 & B6).
  intros [H1 H2 H3 H4 H5 H6]. unfold branch_coverage, branch_covered_count.
  rewrite (count_if_perm _ (exec_code a) (exec_code b)) by (now apply set_equiv_perm).
  rewrite (count_zero_compat (true_d a) (true_d b)) by assumption.
  rewrite (count_zero_compat (false_d a) (false_d b)) by assumption. reflexivity.
Qed.

Theorem line_metrics_respect a b r : trace_wf a = true -> trace_wf b = true -> trace_equiv a b ->
  line_coverage a r = line_coverage b r /\ line_fitness a r = line_fitness b r /\
  line_is_covered a r = line_is_covered b r /\
  checked_coverage a r = checked_coverage b r /\ checked_fitness a r = checked_fitness b r /\
  checked_is_covered a r = checked_is_covered b r.
Proof.
  rewrite !trace_wf_spec. intros (A1 & A2 & A3 & A4 & A5 & A6) (B1 & B2 & B3 & B4 & B5 & B6).
  intros [H1 H2 H3 H4 H5 H6].
  unfold line_coverage, line_fitness, line_is_covered, checked_coverage, checked_fitness, checked_is_covered.
  rewrite (set_equiv_length (cov_lines a) (cov_lines b)) by assumption.
  rewrite (set_equiv_length (chk_lines a) (chk_lines b)) by assumption. repeat split.
Qed.

Theorem goal_functions_respect a b : trace_equiv a b -> forall x v,
  line_goal_covered a x = line_goal_covered b x /\ checked_goal_covered a x = checked_goal_covered b x /\
  branchless_goal_covered a x = branchless_goal_covered b x /\
  branch_goal_covered a x v = branch_goal_covered b x v.
Proof.
  intros [H1 H2 H3 H4 H5 H6] x v.
  unfold line_goal_covered, checked_goal_covered, branchless_goal_covered, branch_goal_covered, dmem.
  rewrite (H1 x), (H5 x), (H6 x), (H2 x). repeat split.
  destruct v; [now rewrite (has_zero_compat _ _ x H3)|now rewrite (has_zero_compat _ _ x H4)].
Qed.

(* ================================================================================================ *)
(* Part 5: monotonicity — coverage never drops and fitness never rises when a trace is merged in     *)
(* ================================================================================================ *)
(* ---------- normalise ---------- *)
Lemma div_1plus_pos q : 0 < q -> 0 < q / (1 + q) /\ q / (1 + q) < 1.
Proof.
  intro H. assert (P : 0 < 1 + q) by lra. split.
  - apply Qlt_shift_div_l; [exact P|lra].
  - apply Qlt_shift_div_r; [exact P|lra].
Qed.

Lemma div_1plus_zero q : q == 0 -> q / (1 + q) == 0.
Proof. intro H. rewrite H. reflexivity. Qed.

Lemma normalise_range d : dist_nonneg d = true -> 0 <= normalise d /\ normalise d <= 1.
Proof.
  destruct d as [q|]; simpl; [|intros _; lra].
  intro H. qbool.
  destruct (Qlt_le_dec 0 q) as [P|N].
  - destruct (div_1plus_pos q P). lra.
  - assert (E : q == 0) by lra. rewrite (div_1plus_zero q E). lra.
Qed.

Lemma div_1plus_mono x y : 0 <= x -> x <= y -> x / (1 + x) <= y / (1 + y).
Proof.
  intros Hx Hxy. assert (Px : 0 < 1 + x) by lra. assert (Py : 0 < 1 + y) by lra.
  apply Qle_shift_div_l; [exact Py|].
  setoid_replace (x / (1 + x) * (1 + y)) with ((x * (1 + y)) / (1 + x)) by (field; lra).
  apply Qle_shift_div_r; [exact Px|]. nra.
Qed.

Lemma normalise_mono a b :
  dist_nonneg a = true -> dist_le a b = true -> normalise a <= normalise b.
Proof.
  destruct a as [x|], b as [y|]; simpl; intros Ha Hab; try discriminate; try lra.
  - qbool. now apply div_1plus_mono.
  - apply (normalise_range (Fin x) Ha).
Qed.

(* ---------- min ---------- *)
Lemma dist_min_le_l x y : dist_le (dist_min x y) x = true.
Proof.
  destruct x as [x|], y as [y|]; unfold dist_min; cbn [dist_le]; try reflexivity.
  - destruct (Qle_bool y x) eqn:E; cbn [dist_le]; [exact E|]. apply Qle_bool_iff. lra.
  - apply Qle_bool_iff. lra.
Qed.

Lemma dist_min_zero_l x y :
  dist_is_zero x = true -> dist_nonneg y = true -> dist_is_zero (dist_min x y) = true.
Proof.
  destruct x as [x|], y as [y|]; simpl; try discriminate; intros Hx Hy; unfold dist_min; cbn [dist_le].
  - destruct (Qle_bool y x) eqn:E; simpl; [|exact Hx]. qbool. apply Qeq_bool_iff. lra.
  - exact Hx.
Qed.

Lemma has_zero_merge_min a b p : NoDup (keys b) -> dists_nonneg b ->
  has_zero a p = true -> has_zero (merge_min a b) p = true.
Proof.
  intros Nb Hb. unfold has_zero. rewrite (dget_merge_min a b p Nb).
  destruct (dget a p) as [x|]; [|discriminate]. destruct (dget b p) as [y|] eqn:Eb; [|tauto].
  intro Hx. apply dist_min_zero_l; [exact Hx|]. apply Hb, (dget_value_In _ _ _ Eb).
Qed.

(* ---------- coverage counts ---------- *)
Lemma count_if_update_set_ge (f : Z -> bool) l xs : (count_if f l <= count_if f (update_set l xs))%Z.
Proof.
  destruct (update_set_extends l xs) as [s ->]. rewrite count_if_app.
  pose proof (count_if_nonneg f s). lia.
Qed.

Lemma length_update_set_ge l xs : (length l <= length (update_set l xs))%nat.
Proof. destruct (update_set_extends l xs) as [s ->]. rewrite app_length. lia. Qed.

Lemma count_zero_merge_min_ge a b : NoDup (keys a) -> NoDup (keys b) -> dists_nonneg b ->
  (count_if dist_is_zero (values a) <= count_if dist_is_zero (values (merge_min a b)))%Z.
Proof.
  intros Na Nb Hb.
  assert (Nm : NoDup (keys (merge_min a b))) by (rewrite keys_merge_min; now apply NoDup_update_set).
  rewrite !count_zero_keys by assumption. rewrite keys_merge_min.
  eapply Z.le_trans; [|apply count_if_update_set_ge].
  apply count_if_le_impl. intros k _. now apply has_zero_merge_min.
Qed.

Lemma Valid_keys_true_nd t r : Valid t r -> NoDup (keys (true_d t)).
Proof. intros [B1 B2 B3 B4 B5 B6 B7 B8 B9 B10 B11 B12]. now rewrite B8. Qed.
Lemma Valid_keys_false_nd t r : Valid t r -> NoDup (keys (false_d t)).
Proof. intros [B1 B2 B3 B4 B5 B6 B7 B8 B9 B10 B11 B12]. now rewrite B9. Qed.

Lemma branch_covered_count_mono a b r : Valid a r -> Valid b r ->
  (branch_covered_count a r <= branch_covered_count (merge a b) r)%Z.
Proof.
  intros Va Vb. unfold branch_covered_count. simpl.
  pose proof (count_if_update_set_ge (fun c => memZ c (branchless r)) (exec_code a) (exec_code b)).
  pose proof (count_zero_merge_min_ge (true_d a) (true_d b) (Valid_keys_true_nd a r Va)
                (Valid_keys_true_nd b r Vb) (v_nn_true b r Vb)).
  pose proof (count_zero_merge_min_ge (false_d a) (false_d b) (Valid_keys_false_nd a r Va)
                (Valid_keys_false_nd b r Vb) (v_nn_false b r Vb)).
  lia.
Qed.

Lemma ratio_mono c c' e : (c <= c')%Z -> (0 <= e)%Z -> ratio c e <= ratio c' e.
Proof.
  intros Hc He. unfold ratio. destruct (Z.eqb_spec e 0) as [->|Hne]; [lra|].
  unfold Qdiv. apply Qmult_le_compat_r; [now rewrite <- Zle_Qle|].
  apply Qinv_le_0_compat. rewrite <- (Zle_Qle 0). exact He.
Qed.

Theorem branch_coverage_mono a b r : Valid a r -> Valid b r ->
  branch_coverage a r <= branch_coverage (merge a b) r.
Proof.
  intros Va Vb. unfold branch_coverage. apply ratio_mono; [now apply branch_covered_count_mono|].
  unfold branch_existing_count. lia.
Qed.

(* the line functions only need the shape of OrderedSet.update: no premise at all *)
Theorem line_coverage_mono a b r : line_coverage a r <= line_coverage (merge a b) r.
Proof.
  unfold line_coverage. simpl. apply ratio_mono; [|lia].
  pose proof (length_update_set_ge (cov_lines a) (cov_lines b)). lia.
Qed.

Theorem checked_coverage_mono a b r : checked_coverage a r <= checked_coverage (merge a b) r.
Proof.
  unfold checked_coverage. simpl. apply ratio_mono; [|lia].
  pose proof (length_update_set_ge (chk_lines a) (chk_lines b)). lia.
Qed.

Theorem line_fitness_anti a b r : (line_fitness (merge a b) r <= line_fitness a r)%Z.
Proof.
  unfold line_fitness. simpl. pose proof (length_update_set_ge (cov_lines a) (cov_lines b)). lia.
Qed.

Theorem checked_fitness_anti a b r : (checked_fitness (merge a b) r <= checked_fitness a r)%Z.
Proof.
  unfold checked_fitness. simpl. pose proof (length_update_set_ge (chk_lines a) (chk_lines b)). lia.
Qed.

(* ---------- branch-distance fitness ---------- *)
Lemma keys_eq_dget_None {V W} (d1 : dict V) (d2 : dict W) p :
  keys d1 = keys d2 -> (dget d1 p = None <-> dget d2 p = None).
Proof. intro K. rewrite !dget_None_notin, K. tauto. Qed.

Lemma predicate_fitness_range p bd t : dists_nonneg bd ->
  0 <= predicate_fitness p bd t /\ predicate_fitness p bd t <= 1.
Proof.
  intro N. unfold predicate_fitness. destruct (dget bd p) as [d|] eqn:E; [|lra].
  destruct (dist_is_zero d); [lra|].
  destruct (dget (exec_pred t) p) as [c|]; [|lra].
  destruct (2 <=? c)%Z; [|lra]. apply normalise_range, N, (dget_value_In _ _ _ E).
Qed.

(* the ">= 2 executions" rule is monotone because counts only grow and distances only shrink *)
Lemma predicate_fitness_anti a b r p da db : Valid a r -> Valid b r ->
  keys da = keys (exec_pred a) -> keys db = keys (exec_pred b) ->
  dists_nonneg da -> dists_nonneg db ->
  predicate_fitness p (merge_min da db) (merge a b) <= predicate_fitness p da a.
Proof.
  intros Va Vb Ka Kb Na Nb.
  assert (NDb : NoDup (keys db)) by (rewrite Kb; apply (v_nd_keys b r Vb)).
  assert (NDa : NoDup (keys da)) by (rewrite Ka; apply (v_nd_keys a r Va)).
  pose proof (dists_nonneg_merge_min da db NDa NDb Na Nb) as Nm.
  pose proof (predicate_fitness_range p (merge_min da db) (merge a b) Nm) as [Rm0 Rm1].
  pose proof (predicate_fitness_range p da a Na) as [Ra0 Ra1].
  revert Rm0 Rm1 Ra0 Ra1.
  unfold predicate_fitness. cbn [exec_pred merge].
  rewrite (dget_merge_min da db p NDb), (dget_merge_counts _ _ p (v_nd_keys b r Vb)).
  pose proof (keys_eq_dget_None da (exec_pred a) p Ka) as [Ca1 Ca2].
  pose proof (keys_eq_dget_None db (exec_pred b) p Kb) as [Cb1 Cb2].
  destruct (dget da p) as [x|] eqn:Ea.
  - destruct (dget (exec_pred a) p) as [ca|] eqn:Eca; [|discriminate (Ca2 eq_refl)].
    assert (Hx : dist_nonneg x = true) by (apply Na, (dget_value_In _ _ _ Ea)).
    assert (Hca : (1 <= ca)%Z) by (apply (v_counts a r Va), (dget_value_In _ _ _ Eca)).
    destruct (dget db p) as [y|] eqn:Eb.
    + destruct (dget (exec_pred b) p) as [cb|] eqn:Ecb; [|discriminate (Cb2 eq_refl)].
      assert (Hy : dist_nonneg y = true) by (apply Nb, (dget_value_In _ _ _ Eb)).
      assert (Hcb : (1 <= cb)%Z) by (apply (v_counts b r Vb), (dget_value_In _ _ _ Ecb)).
      intros Rm0 Rm1 Ra0 Ra1.
      destruct (dist_is_zero x) eqn:Zx.
      * rewrite (dist_min_zero_l x y Zx Hy). lra.
      * destruct (dist_is_zero (dist_min x y)) eqn:Zm; [exact Ra0|].
        assert (T : (2 <=? ca + cb)%Z = true) by (apply Z.leb_le; lia). rewrite T.
        pose proof (normalise_mono (dist_min x y) x (dist_nonneg_min x y Hx Hy) (dist_min_le_l x y)) as M.
        pose proof (normalise_range x Hx) as [_ R1].
        destruct (2 <=? ca)%Z; lra.
    + destruct (dget (exec_pred b) p) as [cb|] eqn:Ecb; [discriminate (Cb1 eq_refl)|].
      intros _ _ _ _. lra.
  - destruct (dget (exec_pred a) p) as [ca|] eqn:Eca; [discriminate (Ca1 eq_refl)|].
    intros _ Rm1 _ _. exact Rm1.
Qed.

Lemma pred_term_anti a b r et ef p : Valid a r -> Valid b r ->
  pred_term (merge a b) et ef p <= pred_term a et ef p.
Proof.
  intros Va Vb. unfold pred_term.
  pose proof (predicate_fitness_anti a b r p (true_d a) (true_d b) Va Vb
                (v_keys_true a r Va) (v_keys_true b r Vb) (v_nn_true a r Va) (v_nn_true b r Vb)) as P1.
  pose proof (predicate_fitness_anti a b r p (false_d a) (false_d b) Va Vb
                (v_keys_false a r Va) (v_keys_false b r Vb) (v_nn_false a r Va) (v_nn_false b r Vb)) as P2.
  cbn [true_d false_d merge] in *. destruct (memZ p et), (memZ p ef); lra.
Qed.

Lemma code_objects_missing_anti a b r ec :
  (code_objects_missing (merge a b) r ec <= code_objects_missing a r ec)%Z.
Proof.
  unfold code_objects_missing. apply count_if_le_impl. intros c _. simpl.
  rewrite memZ_update_set. destruct (memZ c (exec_code a)), (memZ c (exec_code b)), (memZ c ec); simpl; congruence.
Qed.

Theorem branch_fitness_anti a b r ec et ef : Valid a r -> Valid b r ->
  branch_fitness_ex (merge a b) r ec et ef <= branch_fitness_ex a r ec et ef.
Proof.
  intros Va Vb. rewrite !branch_fitness_ex_sum.
  pose proof (code_objects_missing_anti a b r ec) as C. rewrite Zle_Qle in C.
  pose proof (qsum_map_le (pred_term (merge a b) et ef) (pred_term a et ef) (predicates r)
                (fun p _ => pred_term_anti a b r et ef p Va Vb)) as S.
  lra.
Qed.

(* ---------- covered verdicts and goals only switch on ---------- *)
Theorem branch_is_covered_mono a b r ec et ef : Valid a r -> Valid b r ->
  branch_is_covered_ex a r ec et ef = true -> branch_is_covered_ex (merge a b) r ec et ef = true.
Proof.
  intros Va Vb. unfold branch_is_covered_ex.
  destruct (existsb _ (branchless r)) eqn:X; [discriminate|]. intro F.
  assert (X' : existsb (fun c => negb (memZ c (exec_code (merge a b))) && negb (memZ c ec)) (branchless r) = false).
  { apply not_true_is_false. intro T. apply existsb_exists in T. destruct T as [c [Hc T]].
    assert (existsb (fun c => negb (memZ c (exec_code a)) && negb (memZ c ec)) (branchless r) = true).
    { apply existsb_exists. exists c. split; [exact Hc|]. simpl in T. rewrite memZ_update_set in T.
      destruct (memZ c (exec_code a)), (memZ c (exec_code b)), (memZ c ec); simpl in *; congruence. }
    congruence. }
  rewrite X'. rewrite forallb_forall in *. intros p Hp. specialize (F p Hp).
  apply andb_true_iff in F. destruct F as [F1 F2]. apply orb_true_iff in F1, F2. cbn [true_d false_d merge].
  apply andb_true_iff. split; apply orb_true_iff.
  - destruct F1 as [F1|F1]; [now left|right].
    apply has_zero_merge_min; [apply (Valid_keys_true_nd b r Vb)|apply (v_nn_true b r Vb)|exact F1].
  - destruct F2 as [F2|F2]; [now left|right].
    apply has_zero_merge_min; [apply (Valid_keys_false_nd b r Vb)|apply (v_nn_false b r Vb)|exact F2].
Qed.

Lemma full_length_mono l xs u : NoDup l -> incl l u -> incl xs u ->
  Nat.eqb (length l) (length u) = true -> Nat.eqb (length (update_set l xs)) (length u) = true.
Proof.
  intros N I1 I2 E. apply Nat.eqb_eq in E. apply Nat.eqb_eq.
  pose proof (length_update_set_ge l xs).
  pose proof (NoDup_incl_length (NoDup_update_set l xs N) (incl_update_set l xs u I1 I2)). lia.
Qed.

Theorem line_is_covered_mono a b r : Valid a r -> Valid b r ->
  line_is_covered a r = true -> line_is_covered (merge a b) r = true.
Proof.
  intros Va Vb. unfold line_is_covered. simpl.
  apply full_length_mono; [apply (v_nd_cov a r Va)|apply (v_cov_sub a r Va)|apply (v_cov_sub b r Vb)].
Qed.

Theorem checked_is_covered_mono a b r : Valid a r -> Valid b r ->
  checked_is_covered a r = true -> checked_is_covered (merge a b) r = true.
Proof.
  intros Va Vb. unfold checked_is_covered. simpl.
  apply full_length_mono; [apply (v_nd_chk a r Va)|apply (v_chk_sub a r Va)|apply (v_chk_sub b r Vb)].
Qed.

Theorem goals_mono a b r x v : Valid b r ->
  (line_goal_covered a x = true -> line_goal_covered (merge a b) x = true) /\
  (checked_goal_covered a x = true -> checked_goal_covered (merge a b) x = true) /\
  (branchless_goal_covered a x = true -> branchless_goal_covered (merge a b) x = true) /\
  (branch_goal_covered a x v = true -> branch_goal_covered (merge a b) x v = true).
Proof.
  intro Vb. unfold line_goal_covered, checked_goal_covered, branchless_goal_covered, branch_goal_covered.
  cbn [cov_lines chk_lines exec_code exec_pred true_d false_d merge]. rewrite !memZ_update_set.
  repeat split; try (intros ->; reflexivity).
  rewrite !andb_true_iff. intros [D Z0]. split.
  - apply dmem_In. rewrite keys_merge_counts. apply In_update_set. left. now apply dmem_In.
  - destruct v; apply has_zero_merge_min; try exact Z0.
    + apply (Valid_keys_true_nd b r Vb).
    + apply (v_nn_true b r Vb).
    + apply (Valid_keys_false_nd b r Vb).
    + apply (v_nn_false b r Vb).
Qed.

(* ================================================================================================ *)
(* Part 6: suites — adding a test case anywhere in a suite                                          *)
(* ================================================================================================ *)
Theorem merge_improves a b r : valid a r = true -> valid b r = true -> improves a (merge a b) r.
Proof.
  rewrite !valid_Valid. intros Va Vb. unfold improves. repeat split.
  - now apply branch_coverage_mono.
  - apply line_coverage_mono.
  - apply checked_coverage_mono.
  - intros. now apply branch_fitness_anti.
  - apply line_fitness_anti.
  - apply checked_fitness_anti.
  - intros ec et ef. now apply branch_is_covered_mono.
  - now apply line_is_covered_mono.
  - now apply checked_is_covered_mono.
Qed.

Lemma improves_respects a b b' r : trace_wf b = true -> trace_wf b' = true -> trace_equiv b b' ->
  improves a b r -> improves a b' r.
Proof.
  intros W W' E (I1 & I2 & I3 & I4 & I5 & I6 & I7 & I8 & I9).
  pose proof (branch_coverage_respects b b' r W W' E) as R1.
  pose proof (line_metrics_respect b b' r W W' E) as (R2 & R3 & R4 & R5 & R6 & R7).
  unfold improves. rewrite <- R1, <- R2, <- R3, <- R4, <- R5, <- R6, <- R7. repeat split; try assumption.
  - intros ec et ef. rewrite <- (branch_fitness_respects b b' r ec et ef E). apply I4.
  - intros ec et ef. rewrite <- (branch_is_covered_respects b b' r ec et ef E). apply I7.
Qed.

Definition all_valid (ts : list trace) (r : registry) : Prop := Forall (fun t => valid t r = true) ts.

Lemma all_valid_wf ts r : all_valid ts r -> all_wf ts.
Proof. unfold all_valid, all_wf. apply Forall_impl. intros t. apply valid_wf. Qed.

(* a suite with one more test case, inserted at any position (and the rest in any order) *)
Theorem suite_add_test_improves ts t ts' r :
  all_valid ts r -> valid t r = true -> Permutation ts' (t :: ts) ->
  improves (merge_all ts) (merge_all ts') r.
Proof.
  intros Vs Vt P.
  assert (P' : Permutation (ts ++ [t]) ts').
  { apply Permutation_sym. eapply Permutation_trans; [exact P|apply Permutation_cons_append]. }
  assert (W : all_wf (ts ++ [t])).
  { unfold all_wf. apply Forall_app. split; [apply (all_valid_wf ts r Vs)|].
    constructor; [apply (valid_wf t r Vt)|constructor]. }
  apply (improves_respects _ (merge_all (ts ++ [t]))); try apply wf_merge_all.
  - now apply merge_all_perm.
  - unfold merge_all at 2. rewrite fold_left_app. simpl. fold (merge_all ts).
    apply merge_improves; [now apply valid_merge_all|exact Vt].
Qed.

(* ================================================================================================ *)
(* Examples: the hypotheses are satisfiable by non-trivial traces; they are needed                   *)
(* ================================================================================================ *)
Open Scope Z_scope.
Definition ex_reg : registry := {| branchless := [0; 7]; predicates := [0; 1; 2]; lines := [0; 1; 2; 3; 4] |}.
Definition ex_a : trace := {|
  exec_code := [0; 3]; exec_pred := [(0, 1); (1, 2)]%Z;
  true_d := [(0, Fin 0); (1, Fin (3 # 2))]; false_d := [(0, Fin 1); (1, Fin 0)];
  cov_lines := [0; 1]; chk_lines := [1] |}.
Definition ex_b : trace := {|
  exec_code := [7; 3]; exec_pred := [(1, 1); (2, 4)]%Z;
  true_d := [(1, Fin (1 # 2)); (2, Inf)]; false_d := [(1, Fin 2); (2, Fin 0)];
  cov_lines := [4; 1]; chk_lines := [] |}.

Example ex_valid : valid ex_a ex_reg = true /\ valid ex_b ex_reg = true /\
                   all_wf [ex_a; ex_b] /\ all_valid [ex_a; ex_b] ex_reg.
Proof. repeat split; repeat constructor. Qed.

Example ex_strict :
  (branch_coverage ex_a ex_reg < branch_coverage (merge ex_a ex_b) ex_reg)%Q /\
  (branch_fitness (merge ex_a ex_b) ex_reg < branch_fitness ex_a ex_reg)%Q /\
  ~ (merge ex_a ex_b = merge ex_b ex_a).
Proof. split; [reflexivity|split; [reflexivity|discriminate]]. Qed.

(* Distances >= 0 (C04's conclusion, part of [valid]) cannot be dropped: a negative distance in
   the merged-in trace turns a covered branch into an uncovered one. *)
Definition ex_neg : trace := {|
  exec_code := []; exec_pred := [(0, 1)]%Z; true_d := [(0, Fin (-1))]; false_d := [(0, Fin 1)];
  cov_lines := []; chk_lines := [] |}.

Example nonneg_needed :
  trace_wf ex_a = true /\ trace_wf ex_neg = true /\
  (branch_coverage (merge ex_a ex_neg) ex_reg < branch_coverage ex_a ex_reg)%Q.
Proof. repeat split. Qed.

(* ---------- boolean-premise forms used by Properties/C11.v ---------- *)
Lemma branch_coverage_mono_b a b r : valid a r = true -> valid b r = true ->
  (branch_coverage a r <= branch_coverage (merge a b) r)%Q.
Proof. intros Ha Hb. apply branch_coverage_mono; now apply valid_Valid. Qed.

Lemma branch_fitness_anti_b a b r ec et ef : valid a r = true -> valid b r = true ->
  (branch_fitness_ex (merge a b) r ec et ef <= branch_fitness_ex a r ec et ef)%Q.
Proof. intros Ha Hb. apply branch_fitness_anti; now apply valid_Valid. Qed.

Lemma line_family_mono a b r :
  (line_coverage a r <= line_coverage (merge a b) r)%Q /\
  (checked_coverage a r <= checked_coverage (merge a b) r)%Q /\
  line_fitness (merge a b) r <= line_fitness a r /\
  checked_fitness (merge a b) r <= checked_fitness a r.
Proof.
  exact (conj (line_coverage_mono a b r) (conj (checked_coverage_mono a b r)
           (conj (line_fitness_anti a b r) (checked_fitness_anti a b r)))).
Qed.

Lemma goals_mono_b a b r x v : valid b r = true ->
  (line_goal_covered a x = true -> line_goal_covered (merge a b) x = true) /\
  (checked_goal_covered a x = true -> checked_goal_covered (merge a b) x = true) /\
  (branchless_goal_covered a x = true -> branchless_goal_covered (merge a b) x = true) /\
  (branch_goal_covered a x v = true -> branch_goal_covered (merge a b) x v = true).
Proof. intro Hb. apply (goals_mono a b r x v). now apply valid_Valid. Qed.

Lemma nonneg_needed_ex : exists a b r,
  trace_wf a = true /\ trace_wf b = true /\
  (branch_coverage (merge a b) r < branch_coverage a r)%Q.
Proof. exact (ex_intro _ ex_a (ex_intro _ ex_neg (ex_intro _ ex_reg nonneg_needed))). Qed.

(* ---------- the correspondence checker's comparison implies trace equivalence ---------- *)
Lemma set_eqb_equiv a b : set_eqb a b = true -> set_equiv a b.
Proof.
  unfold set_eqb. rewrite !andb_true_iff, !subsetb_incl. intros [[H1 H2] _] x.
  destruct (memZ x a) eqn:Ea, (memZ x b) eqn:Eb; try reflexivity; exfalso.
  - apply memZ_In in Ea. apply memZ_false in Eb. auto.
  - apply memZ_In in Eb. apply memZ_false in Ea. auto.
Qed.

Lemma dist_eqb_equiv x y : dist_eqb x y = true -> dist_equiv x y.
Proof. destruct x, y; simpl; try discriminate; [apply Qeq_bool_iff|trivial]. Qed.

Lemma dict_eqb_lookup {V} (eqb : V -> V -> bool) (a b : dict V) k :
  set_eqb (keys a) (keys b) = true ->
  forallb (fun k => match dget a k, dget b k with Some x, Some y => eqb x y | _, _ => false end) (keys a) = true ->
  match dget a k, dget b k with
  | Some x, Some y => eqb x y = true
  | None, None => True
  | _, _ => False
  end.
Proof.
  intros S F. apply set_eqb_equiv in S. specialize (S k). rewrite forallb_forall in F.
  destruct (dget a k) as [x|] eqn:Ea.
  - assert (I : In k (keys a)) by (apply In_keys_dget; now exists x).
    specialize (F k I). rewrite Ea in F. destruct (dget b k); [exact F|discriminate].
  - apply dget_None_notin in Ea. apply memZ_false in Ea. rewrite Ea in S. symmetry in S.
    apply memZ_false, dget_None_notin in S. now rewrite S.
Qed.

Theorem trace_eqb_equiv a b : trace_eqb a b = true -> trace_equiv a b.
Proof.
  unfold trace_eqb, dictZ_eqb, dictD_eqb. rewrite !andb_true_iff.
  intros [[[[[H1 [H2 H2']] [H3 H3']] [H4 H4']] H5] H6]. constructor.
  - now apply set_eqb_equiv.
  - intro k. pose proof (dict_eqb_lookup Z.eqb _ _ k H2 H2') as L.
    destruct (dget (exec_pred a) k), (dget (exec_pred b) k); try tauto. apply Z.eqb_eq in L. now subst.
  - intro k. pose proof (dict_eqb_lookup dist_eqb _ _ k H3 H3') as L.
    destruct (dget (true_d a) k), (dget (true_d b) k); simpl; try tauto. now apply dist_eqb_equiv.
  - intro k. pose proof (dict_eqb_lookup dist_eqb _ _ k H4 H4') as L.
    destruct (dget (false_d a) k), (dget (false_d b) k); simpl; try tauto. now apply dist_eqb_equiv.
  - now apply set_eqb_equiv.
  - now apply set_eqb_equiv.
Qed.

(* ================================================================================================ *)
(* Part 7: the instruction part — executed_instructions and executed_assertions                     *)
(* ================================================================================================ *)
Lemma ilen_imerge a b : ilen (imerge a b) = ilen a + ilen b.
Proof. unfold ilen. simpl. rewrite app_length. lia. Qed.

Lemma shift_asserts_app k l1 l2 : shift_asserts k (l1 ++ l2) = shift_asserts k l1 ++ shift_asserts k l2.
Proof. apply map_app. Qed.

Lemma shift_asserts_shift j k l : shift_asserts j (shift_asserts k l) = shift_asserts (k + j) l.
Proof.
  unfold shift_asserts. rewrite map_map. apply map_ext. intros [p a]. simpl. f_equal. lia.
Qed.

Lemma shift_asserts_0 l : shift_asserts 0 l = l.
Proof.
  unfold shift_asserts. rewrite <- (map_id l) at 2. apply map_ext. intros [p a]. simpl. f_equal. lia.
Qed.

(* grouping never matters for positions: ((a+b)+c) = (a+(b+c)), literally *)
Theorem imerge_assoc a b c : imerge (imerge a b) c = imerge a (imerge b c).
Proof.
  unfold imerge at 1 3. cbn [instrs asserts]. rewrite ilen_imerge. f_equal.
  - unfold imerge. cbn [instrs]. now rewrite app_assoc.
  - unfold imerge at 1 2. cbn [asserts]. rewrite shift_asserts_app, shift_asserts_shift, <- app_assoc, (Z.add_comm (ilen b)).
    reflexivity.
Qed.

Theorem imerge_empty_l a : imerge iempty a = a.
Proof. destruct a as [i s]. unfold imerge, ilen. simpl. now rewrite shift_asserts_0. Qed.

Theorem imerge_empty_r a : imerge a iempty = a.
Proof. destruct a as [i s]. unfold imerge. simpl. now rewrite !app_nil_r. Qed.

Lemma ifold_imerge ts acc : fold_left imerge ts acc = imerge acc (imerge_all ts).
Proof.
  revert acc. induction ts as [|t ts IH]; intro acc; simpl.
  - unfold imerge_all. simpl. now rewrite imerge_empty_r.
  - rewrite IH. unfold imerge_all. simpl. rewrite (IH (imerge iempty t)), imerge_empty_l.
    now rewrite imerge_assoc.
Qed.

Theorem imerge_all_app ts1 ts2 : imerge_all (ts1 ++ ts2) = imerge (imerge_all ts1) (imerge_all ts2).
Proof. unfold imerge_all at 1. rewrite fold_left_app. apply ifold_imerge. Qed.

(* any tree of merge / analyze_results calls = the flat left-to-right merge of its leaves *)
Theorem ieval_flat m : ieval m = imerge_all (ileaves m).
Proof.
  induction m as [t|l IHl r IHr]; simpl.
  - unfold imerge_all. simpl. now rewrite imerge_empty_l.
  - now rewrite imerge_all_app, IHl, IHr.
Qed.

Theorem ieval_grouping_independent m m' : ileaves m = ileaves m' -> ieval m = ieval m'.
Proof. intro H. now rewrite !ieval_flat, H. Qed.

(* positions stay inside the trace, and every assertion keeps pointing at its own instruction *)
Lemma iwf_spec t : iwf t = true <-> forall pa, In pa (asserts t) -> 0 <= fst pa < ilen t.
Proof.
  unfold iwf. rewrite forallb_forall. split; intros H pa Hpa; specialize (H pa Hpa).
  - apply andb_true_iff in H. destruct H as [H1 H2]. apply Z.leb_le in H1. apply Z.ltb_lt in H2. lia.
  - apply andb_true_iff. split; [apply Z.leb_le|apply Z.ltb_lt]; lia.
Qed.

Theorem iwf_imerge a b : iwf a = true -> iwf b = true -> iwf (imerge a b) = true.
Proof.
  rewrite !iwf_spec. intros Ha Hb pa Hpa. rewrite ilen_imerge. cbn [imerge asserts] in Hpa.
  apply in_app_or in Hpa. destruct Hpa as [H|H].
  - specialize (Ha pa H). unfold ilen in *. lia.
  - unfold shift_asserts in H. apply in_map_iff in H. destruct H as [[p x] [<- H]].
    specialize (Hb _ H). simpl in *. unfold ilen in *. lia.
Qed.

Theorem target_imerge_left a b pos : 0 <= pos < ilen a -> target (imerge a b) pos = target a pos.
Proof.
  intro H. unfold target, ilen in *. cbn [imerge instrs]. apply nth_error_app1. lia.
Qed.

Theorem target_imerge_right a b pos : 0 <= pos -> target (imerge a b) (pos + ilen a) = target b pos.
Proof.
  intro H. unfold target, ilen. cbn [imerge instrs]. rewrite nth_error_app2 by lia. f_equal. lia.
Qed.

Theorem asserts_imerge a b :
  asserts (imerge a b) = asserts a ++ map (fun pa => (fst pa + ilen a, snd pa)) (asserts b) /\
  map snd (asserts (imerge a b)) = map snd (asserts a) ++ map snd (asserts b).
Proof.
  split; [reflexivity|]. cbn [imerge asserts]. rewrite map_app. f_equal.
  unfold shift_asserts. rewrite map_map. reflexivity.
Qed.

Definition ex_ia : itrace := {| instrs := [10; 11; 12]; asserts := [(2, 0)] |}.
Definition ex_ib : itrace := {| instrs := [20; 21]; asserts := [(1, 1)] |}.
Definition ex_ic : itrace := {| instrs := [30; 31; 32; 33]; asserts := [(0, 2); (3, 3)] |}.
Example ex_itraces :
  iwf ex_ia = true /\ iwf ex_ib = true /\ iwf ex_ic = true /\
  asserts (imerge (imerge ex_ia ex_ib) ex_ic) = [(2, 0); (4, 1); (5, 2); (8, 3)] /\
  asserts (imerge ex_ia (imerge ex_ib ex_ic)) = [(2, 0); (4, 1); (5, 2); (8, 3)] /\
  imerge ex_ia ex_ib <> imerge ex_ib ex_ia.
Proof. repeat split. discriminate. Qed.

(* ================================================================================================ *)
(* Part 8: execution counts are additive — for ALL traces, in particular for equal ones             *)
(* ================================================================================================ *)
Theorem count_of_merge a b k : trace_wf b = true ->
  count_of (merge a b) k = count_of a k + count_of b k.
Proof.
  rewrite trace_wf_spec. intros (_ & _ & _ & N & _ & _). unfold count_of. cbn [exec_pred merge].
  rewrite (dget_merge_counts _ _ k N).
  destruct (dget (exec_pred a) k), (dget (exec_pred b) k); lia.
Qed.

Theorem dmem_merge_counts a b k : trace_wf b = true ->
  dmem (exec_pred (merge a b)) k = dmem (exec_pred a) k || dmem (exec_pred b) k.
Proof.
  rewrite trace_wf_spec. intros (_ & _ & _ & N & _ & _). unfold dmem. cbn [exec_pred merge].
  rewrite (dget_merge_counts _ _ k N).
  destruct (dget (exec_pred a) k), (dget (exec_pred b) k); reflexivity.
Qed.

(* merging a trace with (a copy of) itself doubles every count: nothing is dropped *)
Theorem count_of_merge_self a k : trace_wf a = true -> count_of (merge a a) k = 2 * count_of a k.
Proof. intro W. rewrite (count_of_merge a a k W). lia. Qed.

Lemma count_of_fold ts acc k : all_wf ts ->
  count_of (fold_left merge ts acc) k = count_of acc k + total_count ts k.
Proof.
  revert acc. induction ts as [|t ts IH]; intros acc W; simpl; [lia|].
  inversion W; subst. rewrite (IH _ H2), (count_of_merge acc t k H1). lia.
Qed.

(* analyze_results: the merged count is the sum of the counts of all results, duplicates included *)
Theorem count_of_merge_all ts k : all_wf ts -> count_of (merge_all ts) k = total_count ts k.
Proof. intro W. unfold merge_all. rewrite (count_of_fold ts empty_trace k W). reflexivity. Qed.

Example ex_duplicate_counts :
  count_of (merge_all [ex_a; ex_a; ex_b]) 1 = 5 /\ count_of (merge_all [ex_a; ex_b; ex_a]) 1 = 5 /\
  trace_equiv (merge_all [ex_a; ex_a; ex_b]) (merge_all [ex_a; ex_b; ex_a]).
Proof.
  split; [reflexivity|split; [reflexivity|]]. apply trace_eqb_equiv. reflexivity.
Qed.
