(* C15 — proofs: every container operation preserves well-formedness under its (decidable)
   precondition, hence so does every history; crossover and the (fixed) insertion loop respect the
   length bound.  The heavy lifting is in Base/TestCaseIR{Facts,Fwd,Append,Ruv}.v. *)
From Coq Require Import List NArith ZArith Bool Lia.
From Verif Require Import Base.TestCaseIR Base.TestCaseIRFacts Base.TestCaseIRFwd
  Base.TestCaseIRAppend Base.TestCaseIRRuv Models.C15.
Import ListNotations. Import IR. Import C15.

(* --- reflection of the decidable preconditions ------------------------------------------------ *)
Lemma ins_okb_spec t i s : ins_okb t i s = true -> ins_ok t i s.
Proof.
  unfold ins_okb, ins_ok. rewrite andb_true_iff, forallb_forall. intros [H1 H2]. split.
  - intros u Hu. apply mem_In. auto.
  - intros v Hv. rewrite Hv in H2. apply andb_true_iff in H2. destruct H2 as [Ha Hb].
    apply negb_true_iff in Ha. apply mem_false in Ha. apply N.ltb_lt in Hb. auto.
Qed.

Lemma opt_eqb_spec a b : opt_eqb a b = true <-> a = b.
Proof.
  destruct a, b; simpl; try (split; congruence).
  rewrite N.eqb_eq. split; congruence.
Qed.

Lemma repl_okb_spec t i s : repl_okb t i s = true -> repl_ok t i s.
Proof.
  unfold repl_okb, repl_ok. rewrite andb_true_iff, forallb_forall. intros [H1 H2]. split.
  - intros u Hu. apply mem_In. auto.
  - destruct (nth_error (stmts t) i) as [old|]; [|exact I].
    apply orb_true_iff in H2. destruct H2 as [H2|H2].
    + left. apply opt_eqb_spec. exact H2.
    + right. apply andb_true_iff in H2. destruct H2 as [Ha Hb].
      destruct (bound old); [discriminate|]. split; [reflexivity|].
      intros v Hv. rewrite Hv in Hb. apply andb_true_iff in Hb. destruct Hb as [Hc Hd].
      apply negb_true_iff in Hc. apply mem_false in Hc. apply N.ltb_lt in Hd. auto.
Qed.

Lemma okmarksb_spec T : forall marks l, okmarksb T marks l = true -> okmarks T marks l.
Proof.
  induction marks as [|m ms IH]; intros [|s r] H; cbn [okmarksb okmarks] in *;
    try exact I; try discriminate.
  apply andb_true_iff in H. destruct H as [H1 H2]. split; [|auto].
  destruct m.
  - rewrite forallb_forall in H1. intros v Hv. apply mem_In. auto.
  - apply negb_true_iff in H1. apply intersects_false. exact H1.
Qed.

Lemma marks_ok_WF t marks :
  WF t -> marks_okb marks (stmts t) = true -> WF (with_stmts t (keep marks (stmts t))).
Proof.
  intros HW H. apply WF_keep; [exact HW|]. apply okmarksb_spec in H.
  eapply keep_scoped; [exact H|apply (wf_scoped _ HW)|]. intros x [].
Qed.

(* --- one operation, every history ------------------------------------------------------------- *)
Theorem step_WF t o : WF t -> op_okb t o = true -> WF (step t o).
Proof.
  intros HW Hok. destruct o; cbn [step op_okb] in *.
  - apply add_WF; [exact HW|apply ins_okb_spec; exact Hok].
  - apply insert_WF; [exact HW|apply ins_okb_spec; exact Hok].
  - unfold remove_statement. destruct (i <? size t); [|exact HW]. apply marks_ok_WF; auto.
  - apply replace_WF; [exact HW|apply repl_okb_spec; exact Hok].
  - unfold remove_batch. apply marks_ok_WF; auto.
  - apply chop_WF. exact HW.
  - apply next_var_WF. exact HW.
  - apply clone_WF. exact HW.
  - apply remove_fwd_WF. exact HW.
  - apply remove_fwd_WF. exact HW.
  - apply append_from_WF; [exact HW|apply wfb_spec; exact Hok].
  - apply ruv_WF. exact HW.
Qed.

Theorem run_WF : forall ops t, WF t -> ops_okb t ops = true -> WF (run t ops).
Proof.
  induction ops as [|o r IH]; intros t HW Hok; cbn [run ops_okb] in *; [exact HW|].
  apply andb_true_iff in Hok. destruct Hok as [H1 H2]. apply IH; [|exact H2].
  apply step_WF; auto.
Qed.

(* operations that need no precondition at all *)
Theorem unconditional_ops_WF t :
  WF t ->
  (forall p, WF (chop t p)) /\ WF (clone t) /\ WF (snd (next_var_name t)) /\
  (forall i, WF (remove_fwd false t i)) /\ (forall i, WF (remove_fwd true t i)) /\
  WF (remove_unused_variables t) /\
  (forall other start o, WF other -> WF (append_test_case_from t other start o)).
Proof.
  intro HW.
  split; [intro; apply chop_WF; auto|].
  split; [apply clone_WF; auto|].
  split; [apply next_var_WF; auto|].
  split; [intro; apply remove_fwd_WF; auto|].
  split; [intro; apply remove_fwd_WF; auto|].
  split; [apply ruv_WF; auto|].
  intros. apply append_from_WF; auto.
Qed.

(* the name handed out by next_var_name is not bound anywhere in the test case *)
Theorem next_var_is_fresh t : WF t -> ~ In (fst (next_var_name t)) (bvars (stmts t)).
Proof. exact (next_var_fresh t). Qed.

(* --- clone: independent copy ------------------------------------------------------------------ *)
(* the clone's registry is rebuilt from its own statements: it does not depend on (or share) the
   original's registry, whatever state that is in *)
Theorem clone_registry_independent t : reg (clone t) = rebuild (stmts t).
Proof. reflexivity. Qed.

Theorem clone_same_content t : stmts (clone t) = stmts t /\ counter (clone t) = counter t.
Proof. split; reflexivity. Qed.

(* whatever is done to the clone, the original is unchanged, and vice versa *)
Theorem clone_independent t ops :
  fst (run_on_clone (clone_pair t) ops) = t /\ snd (run_on_clone (clone_pair t) ops) = run (clone t) ops
  /\ snd (run_on_orig (clone_pair t) ops) = clone t.
Proof. repeat split. Qed.

(* both components stay well-formed under their own histories *)
Theorem clone_pair_WF t ops1 ops2 :
  WF t -> ops_okb t ops1 = true -> ops_okb (clone t) ops2 = true ->
  WF (run t ops1) /\ WF (run (clone t) ops2).
Proof. intros HW H1 H2. split; apply run_WF; auto. apply clone_WF. exact HW. Qed.

(* --- local search: a rejected step restores the test case exactly ----------------------------- *)
Lemma ls_attempts_rejected saved : forall atts cur,
  WF saved -> snd (ls_attempts saved cur atts) = false ->
  fst (ls_attempts saved cur atts) = cur \/ fst (ls_attempts saved cur atts) = saved.
Proof.
  induction atts as [|[p imp] r IH]; intros cur HW H; cbn [ls_attempts] in *; [left; reflexivity|].
  destruct imp; [discriminate|]. right. rewrite (clone_eq saved HW) in *.
  destruct (IH saved HW H) as [E|E]; exact E.
Qed.

Theorem ls_rejected_restores t atts :
  WF t -> snd (ls_search t atts) = false -> fst (ls_search t atts) = t.
Proof.
  intros HW H. unfold ls_search in *. rewrite (clone_eq t HW) in *.
  destruct (ls_attempts_rejected t atts t HW H); assumption.
Qed.

Theorem ls_search_WF t atts :
  WF t -> Forall (fun a => WF (fst a)) atts -> WF (fst (ls_search t atts)).
Proof.
  intros HW. unfold ls_search. rewrite (clone_eq t HW).
  assert (G : forall atts cur, WF cur -> Forall (fun a => WF (fst a)) atts -> WF (fst (ls_attempts t cur atts))).
  { induction atts0 as [|[p imp] r IH]; intros cur Hc Hf; cbn [ls_attempts]; [exact Hc|].
    inversion Hf; subst. destruct imp; [assumption|]. apply IH; [apply clone_WF; exact HW|assumption]. }
  apply G. exact HW.
Qed.

(* --- insertion loop ---------------------------------------------------------------------------- *)
Theorem insert_loop_bound maxlen : forall ps t,
  size (insert_loop maxlen t ps) <= Nat.max (size t) maxlen.
Proof.
  induction ps as [|p r IH]; intro t; cbn [insert_loop]; [lia|].
  destruct (size t <? maxlen) eqn:E; [|lia]. apply Nat.ltb_lt in E.
  destruct (maxlen <? size p) eqn:E2.
  - specialize (IH t). lia.
  - apply Nat.ltb_ge in E2. specialize (IH p). lia.
Qed.

Theorem insert_loop_WF maxlen : forall ps t, WF t -> Forall WF ps -> WF (insert_loop maxlen t ps).
Proof.
  induction ps as [|p r IH]; intros t HW Hps; cbn [insert_loop]; [exact HW|].
  inversion Hps; subst. destruct (size t <? maxlen); [|exact HW].
  destruct (maxlen <? size p); apply IH; auto.
Qed.

Lemma insert_loop_sizes maxlen : forall ps t,
  size (insert_loop maxlen t ps) = insert_sizes maxlen (size t) (map size ps).
Proof.
  induction ps as [|p r IH]; intro t; cbn [insert_loop insert_sizes map]; [reflexivity|].
  destruct (size t <? maxlen); [|reflexivity].
  destruct (maxlen <? size p); apply IH.
Qed.

Definition st0 : stmt :=
  {| bound := Some 0%N; uses := []; sty := Some 1%N; asserts := []; conv := true; node := 1%N |}.
Definition st1 : stmt :=
  {| bound := Some 1%N; uses := [0%N]; sty := Some 2%N; asserts := []; conv := true; node := 2%N |}.
Definition st2 : stmt :=
  {| bound := Some 2%N; uses := [0%N; 1%N]; sty := Some 1%N; asserts := []; conv := true; node := 3%N |}.

(* the code before the fix: a single insertion of a call with one dependency overshoots *)
Theorem insert_loop_orig_exceeds : exists maxlen t ps,
  WF t /\ Forall WF ps /\ size (insert_loop_orig maxlen t ps) > Nat.max (size t) maxlen.
Proof.
  exists 1, empty, [mk [st0; st1] 2%N]. split; [apply WF_empty|]. split.
  - constructor; [|constructor]. apply wfb_spec. reflexivity.
  - vm_compute. lia.
Qed.

(* --- non-vacuity ------------------------------------------------------------------------------- *)
Example ex_tc : tc := mk [st0; st1; st2] 3%N.
Example ex_tc_WF : WF ex_tc.
Proof. apply wfb_spec. reflexivity. Qed.

(* a history that inserts, replaces, deletes with dependencies, appends from another test case and
   removes unused variables satisfies the preconditions and changes the test case *)
Example ex_history : list op :=
  [ ONextVar;
    OInsert 1 {| bound := Some 3%N; uses := [0%N]; sty := Some 2%N; asserts := []; conv := true; node := 4%N |};
    OReplace 0 {| bound := Some 0%N; uses := []; sty := Some 1%N; asserts := []; conv := true; node := 9%N |};
    ODeleteGracefully 2;
    OAppendFrom ex_tc 1 [0%N];
    ORuv; OChop 2 ].
Example ex_history_ok : ops_okb ex_tc ex_history = true.
Proof. vm_compute. reflexivity. Qed.
Example ex_history_result : size (run ex_tc ex_history) = 3 /\ wfb (run ex_tc ex_history) = true.
Proof. vm_compute. split; reflexivity. Qed.
