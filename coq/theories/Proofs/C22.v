(* C22 — proofs about the minimisation model (Models/C22.v). *)
From Coq Require Import List ZArith Bool QArith Lia.
From Verif Require Import Models.C22.
Import ListNotations. Import C22.
Close Scope Q_scope. Open Scope nat_scope.

(* ================================================================ generic loop facts *)
Section IterFacts.
  Context {A : Type}.
  Variable step : A -> option A.

  Lemma iterT_inv (Inv : A -> Prop) :
    (forall a a', step a = Some a' -> Inv a -> Inv a') ->
    forall fuel a, Inv a -> Inv (iterT step fuel a).
  Proof.
    intros Hstep fuel; induction fuel as [|f IH]; intros a Ha; simpl; [exact Ha|].
    destruct (step a) as [a'|] eqn:E; [|exact Ha].
    apply IH. eapply Hstep; eauto.
  Qed.

  (* a decreasing measure: the exit condition is reached within [mu a + 1] rounds *)
  Lemma iterT_exit (mu : A -> nat) :
    (forall a a', step a = Some a' -> mu a' < mu a) ->
    forall fuel a, mu a < fuel -> step (iterT step fuel a) = None.
  Proof.
    intros Hdec fuel; induction fuel as [|f IH]; intros a Hlt; [lia|]. simpl.
    destruct (step a) as [a'|] eqn:E; [|exact E].
    apply IH. specialize (Hdec _ _ E). lia.
  Qed.

  (* ... and more fuel changes nothing *)
  Lemma iterT_stable (mu : A -> nat) :
    (forall a a', step a = Some a' -> mu a' < mu a) ->
    forall fuel fuel' a, mu a < fuel -> mu a < fuel' -> iterT step fuel a = iterT step fuel' a.
  Proof.
    intros Hdec fuel; induction fuel as [|f IH]; intros fuel' a H1 H2; [lia|].
    destruct fuel' as [|f']; [lia|]. simpl.
    destruct (step a) as [a'|] eqn:E; [|reflexivity].
    specialize (Hdec _ _ E). apply IH; lia.
  Qed.
End IterFacts.

(* ================================================================ order-preserving embeddings *)
Inductive Emb {A} (R : A -> A -> Prop) : list A -> list A -> Prop :=
| Emb_nil : Emb R [] []
| Emb_skip x r o : Emb R r o -> Emb R r (x :: o)
| Emb_keep y x r o : R y x -> Emb R r o -> Emb R (y :: r) (x :: o).

Section EmbFacts.
  Context {A : Type}.
  Variable R : A -> A -> Prop.

  Lemma Emb_nil_l : forall o, Emb R [] o.
  Proof. induction o; [apply Emb_nil|apply Emb_skip; assumption]. Qed.

  Lemma Emb_length : forall r o, Emb R r o -> length r <= length o.
  Proof. induction 1; simpl; lia. Qed.

  Lemma Emb_app : forall a b c d, Emb R a b -> Emb R c d -> Emb R (a ++ c) (b ++ d).
  Proof.
    intros a b c d H H2; induction H; simpl;
      [exact H2|apply Emb_skip; assumption|apply Emb_keep; assumption].
  Qed.

  Hypothesis Rrefl : forall x, R x x.

  Lemma Emb_refl : forall l, Emb R l l.
  Proof. induction l; [apply Emb_nil|apply Emb_keep; auto]. Qed.

  Lemma Emb_filter : forall f l, Emb R (filter f l) l.
  Proof.
    intros f l; induction l as [|x l IH]; simpl; [apply Emb_nil|].
    destruct (f x); [apply Emb_keep; auto|apply Emb_skip; auto].
  Qed.

  Lemma Emb_map_l : forall f l, (forall x, R (f x) x) -> Emb R (map f l) l.
  Proof. intros f l H; induction l; simpl; [apply Emb_nil|apply Emb_keep; auto]. Qed.

  Lemma Emb_replace_nth : forall n y l x,
    nth_error l n = Some x -> R y x -> Emb R (replace_nth n y l) l.
  Proof.
    induction n as [|n IH]; intros y l x Hn Hr; destruct l as [|a l]; simpl in *; try discriminate.
    - injection Hn as ->. apply Emb_keep; [exact Hr|apply Emb_refl].
    - apply Emb_keep; [apply Rrefl|eapply IH; eauto].
  Qed.

  Hypothesis Rtrans : forall x y z, R x y -> R y z -> R x z.

  Lemma Emb_trans : forall b c, Emb R b c -> forall a, Emb R a b -> Emb R a c.
  Proof.
    induction 1 as [|x r o H IH|y x r o Hr H IH]; intros a Ha.
    - exact Ha.
    - apply Emb_skip. apply IH; exact Ha.
    - inversion Ha as [|x' r' o' Ha'|z x' r' o' Hz Ha']; subst.
      + apply Emb_skip. apply IH; exact Ha'.
      + apply Emb_keep; [eapply Rtrans; eauto|apply IH; exact Ha'].
  Qed.
End EmbFacts.

Lemma Emb_mono {A} (R R' : A -> A -> Prop) :
  (forall x y, R x y -> R' x y) -> forall a b, Emb R a b -> Emb R' a b.
Proof.
  intros H a b E; induction E; [apply Emb_nil|apply Emb_skip; auto|apply Emb_keep; auto].
Qed.

Lemma Emb_eq_In {A} : forall (a b : list A), Emb eq a b -> forall x, In x a -> In x b.
Proof.
  induction 1 as [|x r o H IH|y x r o Hr H IH]; intros z Hz; simpl in *; auto.
  destruct Hz as [<-|Hz]; [left; auto|right; auto].
Qed.

Lemma Forall2_Emb {A} (R : A -> A -> Prop) : forall a b, Forall2 R a b -> Emb R a b.
Proof. induction 1; [apply Emb_nil|apply Emb_keep; auto]. Qed.

(* ================================================================ small list facts *)
Lemma memZ_In : forall x l, memZ x l = true <-> In x l.
Proof.
  intros x l; unfold memZ; rewrite existsb_exists; split.
  - intros [y [Hy He]]. apply Z.eqb_eq in He; subst; exact Hy.
  - intros H; exists x; split; [exact H|apply Z.eqb_refl].
Qed.

Lemma memZ_false : forall x l, memZ x l = false <-> ~ In x l.
Proof.
  intros x l; split.
  - intros H Hin. apply memZ_In in Hin. congruence.
  - intros H. destruct (memZ x l) eqn:E; [|reflexivity]. apply memZ_In in E. contradiction.
Qed.

Lemma nth_error_skipn {A} : forall i (l : list A) x,
  nth_error l i = Some x -> exists rest, skipn i l = x :: rest.
Proof.
  induction i as [|i IH]; intros [|a l] x H; simpl in *; try discriminate.
  - injection H as ->. eexists; reflexivity.
  - apply IH; exact H.
Qed.

Lemma filter_split_length {A} (f : A -> bool) : forall l,
  length (filter f l) + length (filter (fun x => negb (f x)) l) = length l.
Proof. induction l as [|x l IH]; simpl; [reflexivity|]. destruct (f x); simpl; lia. Qed.

Lemma nth_error_map_inv {A B} (f : A -> B) : forall l n y,
  nth_error (map f l) n = Some y -> exists x, nth_error l n = Some x /\ y = f x.
Proof.
  induction l as [|a l IH]; intros [|n] y H; simpl in *; try discriminate.
  - injection H as <-. eexists; split; reflexivity.
  - apply IH; exact H.
Qed.

Lemma Forall2_nth_error_l {A B} (R : A -> B -> Prop) : forall a b n x,
  Forall2 R a b -> nth_error a n = Some x -> exists y, nth_error b n = Some y /\ R x y.
Proof.
  intros a b n x H; revert n x; induction H; intros [|n] z Hn; simpl in *; try discriminate.
  - injection Hn as <-. eexists; split; [reflexivity|assumption].
  - apply IHForall2; exact Hn.
Qed.

Lemma Forall2_In_r {A B} (R : A -> B -> Prop) : forall a b y,
  Forall2 R a b -> In y b -> exists x, In x a /\ R x y.
Proof.
  intros a b y H; induction H; intros Hy; simpl in *; [contradiction|].
  destruct Hy as [<-|Hy]; [eexists; split; [left; reflexivity|assumption]|].
  destruct (IHForall2 Hy) as [z [Hz Hr]]. exists z; split; [right; exact Hz|exact Hr].
Qed.

Lemma Forall2_In_l {A B} (R : A -> B -> Prop) : forall a b x,
  Forall2 R a b -> In x a -> exists y, In y b /\ R x y.
Proof.
  intros a b x H; induction H; intros Hx; simpl in *; [contradiction|].
  destruct Hx as [<-|Hx]; [eexists; split; [left; reflexivity|assumption]|].
  destruct (IHForall2 Hx) as [z [Hz Hr]]. exists z; split; [right; exact Hz|exact Hr].
Qed.

Lemma Forall2_replace_nth {A B} (R : A -> B -> Prop) : forall n a b x y,
  Forall2 R a b -> nth_error b n = Some y -> R x y -> Forall2 R (replace_nth n x a) b.
Proof.
  induction n as [|n IH]; intros a b x y H Hn Hr; destruct H; simpl in *; try discriminate.
  - injection Hn as ->. constructor; assumption.
  - constructor; [assumption|eapply IH; eauto].
Qed.

Lemma Forall2_map_l {A B} (R : B -> A -> Prop) (f : A -> B) : forall l,
  (forall x, In x l -> R (f x) x) -> Forall2 R (map f l) l.
Proof.
  induction l as [|a l IH]; intros H; simpl; constructor.
  - apply H; left; reflexivity.
  - apply IH; intros x Hx; apply H; right; exact Hx.
Qed.

Lemma Forall2_weaken {A B} (R R' : A -> B -> Prop) :
  (forall x y, R x y -> R' x y) -> forall a b, Forall2 R a b -> Forall2 R' a b.
Proof. intros H a b F; induction F; constructor; auto. Qed.

Lemma nth_error_replace_nth_same {A} : forall n (l : list A) x y,
  nth_error l n = Some y -> nth_error (replace_nth n x l) n = Some x.
Proof.
  induction n as [|n IH]; intros [|a l] x y H; simpl in *; try discriminate; [reflexivity|].
  eapply IH; eauto.
Qed.

(* ================================================================ forward dependencies *)
Definition closedP (t : tcase) (P : list Z) : Prop :=
  forall s x u, In s t -> bound s = Some x -> memZ x P = true -> In u (uses s) -> memZ u P = true.

Lemma closedP_mono : forall t t' P, closedP t P -> (forall s, In s t' -> In s t) -> closedP t' P.
Proof. intros t t' P H Hi s x u Hs. apply H. apply Hi; exact Hs. Qed.

Lemma fd_pass_fst : forall rest T, map fst (snd (fst (fd_pass T rest))) = map fst rest.
Proof.
  induction rest as [|[s b] r IH]; intros T; simpl; [reflexivity|].
  destruct b.
  - specialize (IH T). destruct (fd_pass T r) as [[T' r'] ch]. simpl in *. f_equal; exact IH.
  - destruct (meets (uses s) T).
    + match goal with |- context [fd_pass ?T1 r] =>
        specialize (IH T1); destruct (fd_pass T1 r) as [[T' r'] ch] end.
      simpl in *. f_equal; exact IH.
    + specialize (IH T). destruct (fd_pass T r) as [[T' r'] ch]. simpl in *. f_equal; exact IH.
Qed.

Lemma fd_pass_unmarked : forall rest T,
  unmarked (snd (fst (fd_pass T rest))) <= unmarked rest /\
  (snd (fd_pass T rest) = true -> unmarked (snd (fst (fd_pass T rest))) < unmarked rest).
Proof.
  unfold unmarked.
  induction rest as [|[s b] r IH]; intros T; simpl; [split; [lia|discriminate]|].
  destruct b.
  - specialize (IH T). destruct (fd_pass T r) as [[T' r'] ch]. simpl in *. exact IH.
  - destruct (meets (uses s) T).
    + match goal with |- context [fd_pass ?T1 r] =>
        specialize (IH T1); destruct (fd_pass T1 r) as [[T' r'] ch] end.
      simpl in *. destruct IH as [IH _]. split; intros; lia.
    + specialize (IH T). destruct (fd_pass T r) as [[T' r'] ch]. simpl in *.
      destruct IH as [IH1 IH2]. split; [lia|]. intros H; specialize (IH2 H); lia.
Qed.

Lemma fd_step_dec : forall a a', fd_step a = Some a' -> unmarked (snd a') < unmarked (snd a).
Proof.
  intros [T rest] a' H. unfold fd_step in H.
  pose proof (fd_pass_unmarked rest T) as [_ Hd].
  destruct (fd_pass T rest) as [[T' r'] ch]. simpl in *.
  destruct ch; [|discriminate]. injection H as <-. simpl. apply Hd; reflexivity.
Qed.

Lemma unmarked_init : forall rest, unmarked (map (fun s => (s, false)) rest) = length rest.
Proof. unfold unmarked; induction rest; simpl; auto. Qed.

Lemma fd_pass_prot t P (Hc : closedP t P) : forall rest T,
  (forall p, In p rest -> In (fst p) t) ->
  (forall x, In x T -> memZ x P = false) ->
  (forall s, In (s, true) rest -> protb P s = false) ->
  (forall x, In x (fst (fst (fd_pass T rest))) -> memZ x P = false) /\
  (forall s, In (s, true) (snd (fst (fd_pass T rest))) -> protb P s = false).
Proof.
  induction rest as [|[s b] r IH]; intros T Hin HT Hm; simpl.
  - split; [exact HT|intros s []].
  - assert (Hin' : forall p, In p r -> In (fst p) t) by (intros p Hp; apply Hin; right; exact Hp).
    assert (Hm' : forall s0, In (s0, true) r -> protb P s0 = false)
      by (intros s0 Hs0; apply Hm; right; exact Hs0).
    destruct b.
    + destruct (IH T Hin' HT Hm') as [I1 I2].
      destruct (fd_pass T r) as [[T' r'] ch]. simpl in *. split; [exact I1|].
      intros s0 [E|H0]; [|apply I2; exact H0].
      injection E as <-. apply Hm; left; reflexivity.
    + destruct (meets (uses s) T) eqn:Em.
      * assert (Hs : protb P s = false).
        { unfold meets in Em. apply existsb_exists in Em. destruct Em as [u [Hu Hmu]].
          apply memZ_In in Hmu. specialize (HT _ Hmu).
          destruct (protb P s) eqn:Ep; [|reflexivity]. unfold protb in Ep.
          destruct (bound s) as [x|] eqn:Eb; [|discriminate].
          assert (Ht : In s t) by (apply (Hin (s, false)); left; reflexivity).
          rewrite (Hc s x u Ht Eb Ep Hu) in HT. discriminate. }
        match goal with |- context [fd_pass ?T1 r] => assert (HT1 : forall x, In x T1 -> memZ x P = false) end.
        { unfold protb in Hs. destruct (bound s) as [x|]; [|exact HT].
          destruct (memZ x T); [exact HT|]. intros y [<-|Hy]; [exact Hs|apply HT; exact Hy]. }
        match goal with |- context [fd_pass ?T1 r] =>
          destruct (IH T1 Hin' HT1 Hm') as [I1 I2]; destruct (fd_pass T1 r) as [[T' r'] ch] end.
        simpl in *. split; [exact I1|].
        intros s0 [E|H0]; [|apply I2; exact H0]. injection E as <-. exact Hs.
      * destruct (IH T Hin' HT Hm') as [I1 I2].
        destruct (fd_pass T r) as [[T' r'] ch]. simpl in *. split; [exact I1|].
        intros s0 [E|H0]; [discriminate E|apply I2; exact H0].
Qed.

Lemma fd_close_fst : forall root rest, map fst (fd_close root rest) = rest.
Proof.
  intros root rest. unfold fd_close.
  set (T0 := match bound root with Some x => [x] | None => [] end).
  assert (H : map fst (snd (iterT fd_step (S (length rest)) (T0, map (fun s => (s, false)) rest))) = rest).
  { apply (iterT_inv fd_step (fun st => map fst (snd st) = rest)).
    - intros [T r] a' Hs Hi. unfold fd_step in Hs.
      pose proof (fd_pass_fst r T) as Hf.
      destruct (fd_pass T r) as [[T' r'] ch]. destruct ch; [|discriminate].
      injection Hs as <-. simpl in *. rewrite Hf; exact Hi.
    - simpl. rewrite map_map. simpl. apply map_id. }
  exact H.
Qed.

Lemma fd_close_prot t P root rest :
  closedP t P -> protb P root = false -> (forall s, In s rest -> In s t) ->
  forall s, In (s, true) (fd_close root rest) -> protb P s = false.
Proof.
  intros Hc Hroot Hin. unfold fd_close.
  set (T0 := match bound root with Some x => [x] | None => [] end).
  assert (H : (fun st => (forall p, In p (snd st) -> In (fst p) t) /\
                         (forall x, In x (fst st) -> memZ x P = false) /\
                         (forall s, In (s, true) (snd st) -> protb P s = false))
              (iterT fd_step (S (length rest)) (T0, map (fun s => (s, false)) rest))).
  { apply iterT_inv.
    - intros [T r] a' Hs [H1 [H2 H3]]. unfold fd_step in Hs.
      pose proof (fd_pass_prot t P Hc r T H1 H2 H3) as [I1 I2].
      pose proof (fd_pass_fst r T) as Hf.
      destruct (fd_pass T r) as [[T' r'] ch]. destruct ch; [|discriminate].
      injection Hs as <-. simpl in *. split; [|split; assumption].
      intros p Hp. assert (Hq : In (fst p) (map fst r)) by (rewrite <- Hf; apply in_map; exact Hp).
      apply in_map_iff in Hq. destruct Hq as [q [Hq1 Hq2]]. rewrite <- Hq1. apply H1; exact Hq2.
    - simpl. split; [|split].
      + intros p Hp. apply in_map_iff in Hp. destruct Hp as [s [<- Hs]]. simpl. apply Hin; exact Hs.
      + subst T0. unfold protb in Hroot. destruct (bound root) as [x|]; [|intros x []].
        intros y [<-|[]]. exact Hroot.
      + intros s Hs. apply in_map_iff in Hs. destruct Hs as [s' [E _]]. discriminate E. }
  destruct H as [_ [_ H]]. exact H.
Qed.

Lemma skipn_In {A} : forall i (l : list A) x, In x (skipn i l) -> In x l.
Proof.
  intros i l x H. rewrite <- (firstn_skipn i l). apply in_or_app; right; exact H.
Qed.

Lemma remove_fwd_sub : forall t i, Emb eq (remove_fwd t i) t.
Proof.
  intros t i. unfold remove_fwd. destruct (skipn i t) as [|root rest] eqn:E.
  - apply Emb_refl; reflexivity.
  - remember (firstn i t) as pre eqn:Epre.
    assert (Ht : t = pre ++ root :: rest) by (rewrite Epre, <- E; symmetry; apply firstn_skipn).
    rewrite Ht. clear Ht Epre E.
    apply Emb_app; [apply Emb_refl; reflexivity|]. apply Emb_skip.
    rewrite <- (fd_close_fst root rest) at 2.
    generalize (fd_close root rest). intros l. induction l as [|[s b] l IH]; simpl; [apply Emb_nil|].
    destruct b; simpl; [apply Emb_skip; exact IH|apply Emb_keep; [reflexivity|exact IH]].
Qed.

Lemma remove_fwd_length : forall t i s,
  nth_error t i = Some s -> length (remove_fwd t i) < length t.
Proof.
  intros t i s Hn. destruct (nth_error_skipn _ _ _ Hn) as [rest E].
  unfold remove_fwd. rewrite E.
  assert (Ht : length t = length (firstn i t) + S (length rest)).
  { rewrite <- (firstn_skipn i t) at 1. rewrite app_length, E. reflexivity. }
  rewrite app_length, map_length, Ht.
  pose proof (filter_split_length (fun p : stmt * bool => negb (snd p)) (fd_close s rest)) as Hf.
  assert (Hl : length (fd_close s rest) = length rest).
  { rewrite <- (fd_close_fst s rest) at 2. rewrite map_length; reflexivity. }
  assert (Hle : length (filter (fun p : stmt * bool => negb (snd p)) (fd_close s rest)) <= length rest).
  { rewrite <- Hl, <- Hf. apply Nat.le_add_r. }
  apply Nat.add_lt_mono_l. apply Nat.lt_succ_r. exact Hle.
Qed.

Lemma remove_fwd_keeps : forall t P i root,
  closedP t P -> nth_error t i = Some root -> protb P root = false ->
  forall s, In s t -> protb P s = true -> In s (remove_fwd t i).
Proof.
  intros t P i root Hc Hn Hroot s Hs Hp.
  destruct (nth_error_skipn _ _ _ Hn) as [rest E].
  unfold remove_fwd. rewrite E.
  rewrite <- (firstn_skipn i t) in Hs. apply in_app_or in Hs. apply in_or_app.
  destruct Hs as [Hs|Hs]; [left; exact Hs|right].
  rewrite E in Hs. destruct Hs as [<-|Hs]; [congruence|].
  assert (Hin : forall x, In x rest -> In x t).
  { intros x Hx. apply (skipn_In i). rewrite E. right; exact Hx. }
  pose proof (fd_close_prot t P root rest Hc Hroot Hin) as Hfc.
  rewrite <- (fd_close_fst root rest) in Hs. apply in_map_iff in Hs.
  destruct Hs as [[s' b] [E1 Hs]]. simpl in E1; subst s'.
  apply in_map_iff. exists (s, b). split; [reflexivity|]. apply filter_In. split; [exact Hs|].
  destruct b; [|reflexivity]. rewrite (Hfc s Hs) in Hp. discriminate.
Qed.

(* ================================================================ protected variables *)
Lemma prot_step_dec t : forall a a', prot_step t a = Some a' -> length (snd a') < length (snd a).
Proof.
  intros [P R] a' H. unfold prot_step in H.
  pose proof (filter_split_length (needed t P) R) as Hf.
  destruct (filter (needed t P) R) as [|n0 new] eqn:E; [discriminate|].
  injection H as <-. simpl in *. lia.
Qed.

Definition prot_final (t : tcase) : list Z * list Z :=
  iterT (prot_step t) (S (length (flat_map uses t))) (direct t, flat_map uses t).

Lemma prot_final_exit t : prot_step t (prot_final t) = None.
Proof.
  unfold prot_final. apply (iterT_exit (prot_step t) (fun a => length (snd a))).
  - apply prot_step_dec.
  - simpl. lia.
Qed.

Lemma protected_direct t : forall x, In x (direct t) -> memZ x (protected_set t) = true.
Proof.
  intros x Hx. apply memZ_In. unfold protected_set.
  apply (iterT_inv (prot_step t) (fun st => In x (fst st))); [|exact Hx].
  intros [P R] a' H Hi. unfold prot_step in H.
  destruct (filter (needed t P) R) as [|n0 new]; [discriminate|]. injection H as <-.
  simpl in *. right. apply in_or_app; right; exact Hi.
Qed.

Lemma protected_closed t : closedP t (protected_set t).
Proof.
  assert (H2 : (fun st => forall u, In u (flat_map uses t) -> memZ u (fst st) = true \/ In u (snd st))
               (prot_final t)).
  { unfold prot_final. apply iterT_inv.
    - intros [P R] a' H Hi u Hu. unfold prot_step in H.
      destruct (filter (needed t P) R) as [|n0 new] eqn:E; [discriminate|]. injection H as <-.
      cbn [fst snd] in *. destruct (Hi u Hu) as [Hp|Hr].
      + left. apply memZ_In. right. apply in_or_app; right. apply memZ_In; exact Hp.
      + destruct (needed t P u) eqn:N.
        * left. apply memZ_In. change (In u ((n0 :: new) ++ P)). rewrite <- E.
          apply in_or_app; left. apply filter_In; split; assumption.
        * right. apply filter_In; split; [exact Hr|rewrite N; reflexivity].
    - intros u Hu; right; exact Hu. }
  pose proof (prot_final_exit t) as Hx.
  unfold protected_set. fold (prot_final t).
  destruct (prot_final t) as [P R]. simpl in *.
  unfold prot_step in Hx. destruct (filter (needed t P) R) as [|n0 new] eqn:E; [|discriminate].
  intros s x u Hs Hb Hxp Hu.
  assert (Hfu : In u (flat_map uses t)) by (apply in_flat_map; exists s; split; assumption).
  destruct (H2 u Hfu) as [Hp|Hr]; [exact Hp|].
  assert (N : needed t P u = true).
  { unfold needed. apply existsb_exists. exists s. split; [exact Hs|]. rewrite Hb.
    rewrite Hxp. simpl. apply memZ_In; exact Hu. }
  assert (Hf : In u (filter (needed t P) R)) by (apply filter_In; split; assumption).
  rewrite E in Hf. destruct Hf.
Qed.

(* ================================================================ the iterative visitors *)
(* [t'] is a sub-sequence of [t0] that still holds every statement binding a variable of [P] *)
Definition Keep (P : list Z) (t0 t' : tcase) : Prop :=
  Emb eq t' t0 /\ forall s, In s t0 -> protb P s = true -> In s t'.

Lemma eq_trans3 {A} : forall x y z : A, x = y -> y = z -> x = z.
Proof. intros; congruence. Qed.

Lemma Keep_refl P t : Keep P t t.
Proof. split; [apply Emb_refl; reflexivity|auto]. Qed.

Lemma Keep_step P t0 t' i s :
  closedP t0 P -> Keep P t0 t' -> nth_error t' i = Some s -> protb P s = false ->
  Keep P t0 (remove_fwd t' i).
Proof.
  intros Hc [He Hk] Hn Hp. split.
  - apply (Emb_trans eq eq_trans3 t' t0 He). apply remove_fwd_sub.
  - intros x Hx Hpx. eapply remove_fwd_keeps; eauto.
    eapply closedP_mono; [exact Hc|]. apply Emb_eq_In; exact He.
Qed.

Section VisitorFacts.
  Variable cov : oracle.

  (* ---------------------------------------------------------------- forward *)
  Lemma fwd_step_cases P orig t i ch a' :
    fwd_step cov P orig (t, i, ch) = Some a' ->
    exists s, nth_error t i = Some s /\
      (a' = (t, S i, ch) \/ (protb P s = false /\ a' = (remove_fwd t i, i, true))).
  Proof.
    unfold fwd_step. destruct (nth_error t i) as [s|]; [|discriminate].
    intros H. exists s. split; [reflexivity|].
    destruct (protb P s); [left; congruence|].
    destruct (same orig (cov1 cov (remove_fwd t i))); [right; split; congruence|left; congruence].
  Qed.

  Definition fwd_mu (st : tcase * nat * bool) : nat := length (fst (fst st)) - snd (fst st).

  Lemma fwd_step_dec P orig : forall a a', fwd_step cov P orig a = Some a' -> fwd_mu a' < fwd_mu a.
  Proof.
    intros [[t i] ch] a' H. destruct (fwd_step_cases _ _ _ _ _ _ H) as [s [Hn [->|[_ ->]]]];
      unfold fwd_mu; simpl.
    - assert (i < length t) by (apply nth_error_Some; congruence). lia.
    - assert (i < length t) by (apply nth_error_Some; congruence).
      pose proof (remove_fwd_length _ _ _ Hn). lia.
  Qed.

  Lemma fwd_round_exit P orig t : fwd_step cov P orig (fwd_round cov P orig t) = None.
  Proof.
    unfold fwd_round. apply (iterT_exit _ fwd_mu (fwd_step_dec P orig)). unfold fwd_mu; simpl; lia.
  Qed.

  Lemma fwd_round_keep P orig t0 t :
    closedP t0 P -> Keep P t0 t -> Keep P t0 (fst (fst (fwd_round cov P orig t))).
  Proof.
    intros Hc Hk. unfold fwd_round.
    apply (iterT_inv _ (fun st => Keep P t0 (fst (fst st)))); [|exact Hk].
    intros [[t' i] ch] a' Hs Hi.
    destruct (fwd_step_cases _ _ _ _ _ _ Hs) as [s [Hn [->|[Hp ->]]]]; simpl in *; [exact Hi|].
    eapply Keep_step; eauto.
  Qed.

  Lemma fwd_round_len P orig t :
    length (fst (fst (fwd_round cov P orig t))) <= length t /\
    (snd (fwd_round cov P orig t) = true -> length (fst (fst (fwd_round cov P orig t))) < length t).
  Proof.
    unfold fwd_round.
    apply (iterT_inv _ (fun st => length (fst (fst st)) <= length t /\
                                  (snd st = true -> length (fst (fst st)) < length t))).
    - intros [[t' i] ch] a' Hs [H1 H2].
      destruct (fwd_step_cases _ _ _ _ _ _ Hs) as [s [Hn [->|[Hp ->]]]]; simpl in *; [auto|].
      pose proof (remove_fwd_length _ _ _ Hn). split; intros; lia.
    - simpl. split; [lia|discriminate].
  Qed.

  Lemma fwd_outer_dec P orig : forall t t', fwd_outer_step cov P orig t = Some t' -> length t' < length t.
  Proof.
    intros t t' H. unfold fwd_outer_step in H. pose proof (fwd_round_len P orig t) as [_ Hl].
    destruct (fwd_round cov P orig t) as [[t1 i] ch]. destruct ch; [|discriminate].
    injection H as <-. apply Hl; reflexivity.
  Qed.

  Lemma forward_visit_exit t :
    fwd_outer_step cov (protected_set t) (cov1 cov t) (forward_visit cov t) = None.
  Proof.
    unfold forward_visit. apply (iterT_exit _ (@length stmt) (fwd_outer_dec _ _)). lia.
  Qed.

  Lemma forward_visit_keep t : Keep (protected_set t) t (forward_visit cov t).
  Proof.
    unfold forward_visit.
    apply (iterT_inv _ (fun t' => Keep (protected_set t) t t')); [|apply Keep_refl].
    intros t1 t2 Hs Hi. unfold fwd_outer_step in Hs.
    pose proof (fwd_round_keep (protected_set t) (cov1 cov t) t t1 (protected_closed t) Hi) as Hk.
    destruct (fwd_round cov (protected_set t) (cov1 cov t) t1) as [[t3 i] ch].
    destruct ch; [|discriminate]. injection Hs as <-. exact Hk.
  Qed.

  (* ---------------------------------------------------------------- backward *)
  Lemma bwd_scan_spec P orig : forall k t c,
    bwd_scan cov P orig k t = Some c ->
    exists i s, nth_error t i = Some s /\ protb P s = false /\ c = remove_fwd t i.
  Proof.
    induction k as [|i IH]; intros t c H; simpl in H; [discriminate|].
    destruct (nth_error t i) as [s|] eqn:En; [|apply IH; exact H].
    destruct (protb P s) eqn:Ep; [apply IH; exact H|].
    destruct (same orig (cov1 cov (remove_fwd t i))); [|apply IH; exact H].
    injection H as <-. exists i, s. auto.
  Qed.

  Lemma bwd_step_spec P orig t c :
    bwd_step cov P orig t = Some c ->
    exists i s, nth_error t i = Some s /\ protb P s = false /\ c = remove_fwd t i.
  Proof.
    unfold bwd_step. destruct t as [|a t]; [discriminate|]. apply bwd_scan_spec.
  Qed.

  Lemma bwd_step_dec P orig : forall t c, bwd_step cov P orig t = Some c -> length c < length t.
  Proof.
    intros t c H. destruct (bwd_step_spec _ _ _ _ H) as [i [s [Hn [_ ->]]]].
    eapply remove_fwd_length; eauto.
  Qed.

  Lemma backward_visit_exit t :
    bwd_step cov (protected_set t) (cov1 cov t) (backward_visit cov t) = None.
  Proof.
    unfold backward_visit. apply (iterT_exit _ (@length stmt) (bwd_step_dec _ _)). lia.
  Qed.

  Lemma backward_visit_keep t : Keep (protected_set t) t (backward_visit cov t).
  Proof.
    unfold backward_visit.
    apply (iterT_inv _ (fun t' => Keep (protected_set t) t t')); [|apply Keep_refl].
    intros t1 t2 Hs Hi. destruct (bwd_step_spec _ _ _ _ Hs) as [i [s [Hn [Hp ->]]]].
    eapply Keep_step; eauto. apply protected_closed.
  Qed.

  (* ---------------------------------------------------------------- suite *)
  Lemma list_eqb_refl : forall l, list_eqb Z.eqb l l = true.
  Proof. induction l; simpl; [reflexivity|]. rewrite Z.eqb_refl; exact IHl. Qed.

  Lemma remove_first_sub : forall t s, Emb eq (remove_first t s) s.
  Proof.
    intros t s; induction s as [|a s IH]; simpl; [apply Emb_nil|].
    destruct (tc_eqb a t); [apply Emb_skip; apply Emb_refl; reflexivity|].
    apply Emb_keep; [reflexivity|exact IH].
  Qed.

  Lemma remove_first_length : forall t s, In t s -> S (length (remove_first t s)) = length s.
  Proof.
    intros t s; induction s as [|a s IH]; intros Hin; simpl in *; [contradiction|].
    destruct (tc_eqb a t) eqn:E; [reflexivity|].
    destruct Hin as [->|Hin]; [unfold tc_eqb in E; rewrite list_eqb_refl in E; discriminate|].
    simpl. rewrite IH; auto.
  Qed.

  Lemma suite_step_cases orig s i a' :
    suite_step cov orig (s, i) = Some a' ->
    exists t, nth_error s i = Some t /\ (a' = (s, S i) \/ a' = (remove_first t s, i)).
  Proof.
    unfold suite_step. destruct (nth_error s i) as [t|]; [|discriminate].
    destruct (Nat.eqb (length s) 1); [discriminate|]. intros H. exists t. split; [reflexivity|].
    destruct (same orig (cov (remove_first t s))); [right|left]; congruence.
  Qed.

  Definition suite_mu (st : suite * nat) : nat := length (fst st) - snd st.

  Lemma suite_step_dec orig : forall a a', suite_step cov orig a = Some a' -> suite_mu a' < suite_mu a.
  Proof.
    intros [s i] a' H. destruct (suite_step_cases _ _ _ _ H) as [t [Hn [-> | ->]]]; unfold suite_mu; simpl.
    - assert (i < length s) by (apply nth_error_Some; congruence). lia.
    - assert (i < length s) by (apply nth_error_Some; congruence).
      pose proof (remove_first_length t s (nth_error_In _ _ Hn)). lia.
  Qed.

  Lemma suite_loop_exit orig s :
    suite_step cov orig (iterT (suite_step cov orig) (S (length s)) (s, 0)) = None.
  Proof. apply (iterT_exit _ suite_mu (suite_step_dec orig)). unfold suite_mu; simpl; lia. Qed.

  Lemma suite_visit_sub s : Emb eq (suite_visit cov s) s.
  Proof.
    unfold suite_visit. destruct (Nat.leb (length s) 1); [apply Emb_refl; reflexivity|].
    apply (iterT_inv _ (fun st => Emb eq (fst st) s)); [|apply Emb_refl; reflexivity].
    intros [s1 i] a' H Hi. destruct (suite_step_cases _ _ _ _ H) as [t [Hn [-> | ->]]]; simpl in *; [exact Hi|].
    apply (Emb_trans eq eq_trans3 s1 s Hi). apply remove_first_sub.
  Qed.

  (* ---------------------------------------------------------------- combined *)
  Lemma comb_step_cases orig idx P s i ch a' :
    comb_step cov orig idx P (s, i, ch) = Some a' ->
    exists t x, nth_error s idx = Some t /\ nth_error t i = Some x /\
      (a' = (s, S i, ch) \/
       (protb P x = false /\ a' = (replace_nth idx (remove_fwd t i) s, i, true))).
  Proof.
    unfold comb_step. destruct (nth_error s idx) as [t|] eqn:E1; [|discriminate].
    destruct (nth_error t i) as [x|] eqn:E2; [|discriminate]. intros H. exists t, x.
    split; [reflexivity|split; [exact E2|]].
    destruct (protb P x); [left; congruence|].
    destruct (same orig (cov (replace_nth idx (remove_fwd t i) s))); [right; split; congruence|left; congruence].
  Qed.

  Definition comb_mu (idx : nat) (st : suite * nat * bool) : nat :=
    match nth_error (fst (fst st)) idx with Some t => length t | None => 0 end - snd (fst st).

  Lemma comb_step_dec orig idx P : forall a a',
    comb_step cov orig idx P a = Some a' -> comb_mu idx a' < comb_mu idx a.
  Proof.
    intros [[s i] ch] a' H.
    destruct (comb_step_cases _ _ _ _ _ _ _ H) as [t [x [Hs [Hn [->|[_ ->]]]]]]; unfold comb_mu; simpl.
    - rewrite Hs. assert (i < length t) by (apply nth_error_Some; congruence). lia.
    - rewrite (nth_error_replace_nth_same _ _ _ _ Hs), Hs.
      assert (i < length t) by (apply nth_error_Some; congruence).
      pose proof (remove_fwd_length _ _ _ Hn). lia.
  Qed.

  Lemma comb_inner_exit orig idx P s ch :
    let n := match nth_error s idx with Some t => length t | None => 0 end in
    comb_step cov orig idx P (iterT (comb_step cov orig idx P) (S n) (s, 0, ch)) = None.
  Proof.
    intros n. apply (iterT_exit _ (comb_mu idx) (comb_step_dec orig idx P)).
    subst n. unfold comb_mu, suite, tcase in *; simpl. destruct (nth_error s idx); lia.
  Qed.

  Definition total (s : suite) : nat := length (concat s).

  Lemma total_replace : forall idx (s : suite) t c,
    nth_error s idx = Some t -> length c < length t -> total (replace_nth idx c s) < total s.
  Proof.
    unfold total. induction idx as [|idx IH]; intros [|a s] t c Hn Hl; simpl in *; try discriminate.
    - injection Hn as ->. rewrite !app_length. lia.
    - rewrite !app_length. specialize (IH s t c Hn Hl). lia.
  Qed.

  (* the per-test relation the combined visitor maintains against the original suite *)
  Definition KeptBy (t' t0 : tcase) : Prop := Keep (protected_set t0) t0 t'.

  Lemma comb_test_inv orig idx s0 t0 s ch :
    nth_error s0 idx = Some t0 -> Forall2 KeptBy s s0 ->
    Forall2 KeptBy (fst (comb_test cov orig idx (protected_set t0) s ch)) s0.
  Proof.
    intros H0 HF. unfold comb_test.
    match goal with |- context [iterT ?f ?k ?a] =>
      assert (H : Forall2 KeptBy (fst (fst (iterT f k a))) s0);
        [|destruct (iterT f k a) as [[s' i'] ch']; exact H] end.
    { apply (iterT_inv _ (fun st => Forall2 KeptBy (fst (fst st)) s0)); [|exact HF].
      intros [[s1 i] c1] a' Hs Hi.
      destruct (comb_step_cases _ _ _ _ _ _ _ Hs) as [t [x [Hn [Hx [->|[Hp ->]]]]]]; simpl in *; [exact Hi|].
      destruct (Forall2_nth_error_l _ _ _ _ _ Hi Hn) as [y [Hy Hk]].
      rewrite H0 in Hy. injection Hy as <-.
      eapply Forall2_replace_nth; [exact Hi|exact H0|].
      unfold KeptBy in *. eapply Keep_step; eauto. apply protected_closed. }
  Qed.

  Lemma comb_test_total orig idx P s ch :
    total (fst (comb_test cov orig idx P s ch)) <= total s /\
    (snd (comb_test cov orig idx P s ch) = true ->
     ch = true \/ total (fst (comb_test cov orig idx P s ch)) < total s).
  Proof.
    unfold comb_test.
    match goal with |- context [iterT ?f ?k ?a] =>
      assert (H : (fun st => total (fst (fst st)) <= total s /\
                             (snd st = true -> ch = true \/ total (fst (fst st)) < total s))
                  (iterT f k a));
        [|destruct (iterT f k a) as [[s' i'] ch']; exact H] end.
    { apply iterT_inv.
      - intros [[s1 i] c1] a' Hs [H1 H2].
        destruct (comb_step_cases _ _ _ _ _ _ _ Hs) as [t [x [Hn [Hx [->|[Hp ->]]]]]]; simpl in *; [auto|].
        pose proof (total_replace idx s1 t (remove_fwd t i) Hn (remove_fwd_length _ _ _ Hx)).
        split; [apply Nat.lt_le_incl; eapply Nat.lt_le_trans; eauto|].
        intros _. right. eapply Nat.lt_le_trans; eauto.
      - simpl. split; [lia|]. intros ->. left; reflexivity. }
  Qed.

  Lemma comb_tests_inv orig s0 : forall Ps idx s ch,
    (forall j P, nth_error Ps j = Some P ->
       exists t0, nth_error s0 (idx + j) = Some t0 /\ P = protected_set t0) ->
    Forall2 KeptBy s s0 ->
    Forall2 KeptBy (fst (comb_tests cov orig Ps idx s ch)) s0.
  Proof.
    induction Ps as [|P Ps IH]; intros idx s ch HP HF; simpl; [exact HF|].
    destruct (HP 0 P eq_refl) as [t0 [H0 ->]]. rewrite Nat.add_0_r in H0.
    pose proof (comb_test_inv orig idx s0 t0 s ch H0 HF) as H1.
    destruct (comb_test cov orig idx (protected_set t0) s ch) as [s' ch']. simpl in H1.
    apply IH; [|exact H1].
    intros j Q Hj. destruct (HP (S j) Q Hj) as [t1 [Ht1 ->]].
    exists t1. split; [|reflexivity]. rewrite <- Ht1. f_equal. lia.
  Qed.

  Lemma comb_tests_total orig : forall Ps idx s ch,
    total (fst (comb_tests cov orig Ps idx s ch)) <= total s /\
    (snd (comb_tests cov orig Ps idx s ch) = true ->
     ch = true \/ total (fst (comb_tests cov orig Ps idx s ch)) < total s).
  Proof.
    induction Ps as [|P Ps IH]; intros idx s ch; simpl.
    - split; [lia|]. intros ->; left; reflexivity.
    - pose proof (comb_test_total orig idx P s ch) as [T1 T2].
      destruct (comb_test cov orig idx P s ch) as [s' ch']. simpl in *.
      destruct (IH (S idx) s' ch') as [U1 U2]. split; [lia|].
      intros Hc. destruct (U2 Hc) as [->|Hlt]; [|right; lia].
      destruct (T2 eq_refl) as [->|Hlt]; [left; reflexivity|right; lia].
  Qed.

  Lemma comb_outer_dec orig Ps : forall s s',
    comb_outer_step cov orig Ps s = Some s' -> total s' < total s.
  Proof.
    intros s s' H. unfold comb_outer_step in H.
    pose proof (comb_tests_total orig Ps 0 s false) as [_ T].
    destruct (comb_tests cov orig Ps 0 s false) as [s1 ch]. destruct ch; [|discriminate].
    injection H as <-. simpl in T. destruct (T eq_refl) as [E|Hlt]; [discriminate|exact Hlt].
  Qed.

  Lemma combined_visit_exit s :
    comb_outer_step cov (cov s) (map protected_set s) (combined_visit cov s) = None.
  Proof.
    unfold combined_visit. apply (iterT_exit _ total (comb_outer_dec _ _)). unfold total; lia.
  Qed.

  Lemma combined_visit_keep s : Forall2 KeptBy (combined_visit cov s) s.
  Proof.
    unfold combined_visit.
    apply (iterT_inv _ (fun s' => Forall2 KeptBy s' s)).
    - intros s1 s2 Hs Hi. unfold comb_outer_step in Hs.
      assert (HP : forall j P, nth_error (map protected_set s) j = Some P ->
                     exists t0, nth_error s (0 + j) = Some t0 /\ P = protected_set t0).
      { intros j P Hj. apply nth_error_map_inv in Hj. exact Hj. }
      pose proof (comb_tests_inv (cov s) s (map protected_set s) 0 s1 false HP Hi) as H1.
      destruct (comb_tests cov (cov s) (map protected_set s) 0 s1 false) as [s3 ch].
      destruct ch; [|discriminate]. injection Hs as <-. exact H1.
    - clear. induction s as [|t s IH]; constructor; [apply Keep_refl|exact IH].
  Qed.
End VisitorFacts.

(* ================================================================ remove_unused_variables *)
(* a statement of the result is an original statement or its "v = e" -> "e" form *)
Definition drv (r o : stmt) : Prop := r = o \/ r = strip o.

Lemma drv_refl : forall x, drv x x.
Proof. intros x; left; reflexivity. Qed.

Lemma strip_strip : forall s, strip (strip s) = strip s.
Proof. intros s; reflexivity. Qed.

Lemma drv_trans : forall x y z, drv x y -> drv y z -> drv x z.
Proof.
  intros x y z [-> | ->] [-> | ->]; unfold drv; auto.
Qed.

Lemma Emb_drv_refl : forall t, Emb drv t t.
Proof. apply Emb_refl. apply drv_refl. Qed.

Lemma Emb_drv_trans : forall a b c : tcase, Emb drv a b -> Emb drv b c -> Emb drv a c.
Proof. intros a b c H1 H2. exact (Emb_trans drv drv_trans b c H2 a H1). Qed.

Lemma ruv_aux_drv : forall t, Forall2 drv (fst (ruv_aux t)) t.
Proof.
  induction t as [|a r IH]; simpl; [constructor|].
  destruct (ruv_aux r) as [r' A]. simpl in IH.
  destruct (bound a) as [x|].
  - destruct (memZ x (asrc a ++ A)); simpl; constructor; auto.
    + left; reflexivity.
    + destruct (can_strip a); [right|left]; reflexivity.
  - simpl; constructor; [left; reflexivity|exact IH].
Qed.

Lemma ruv_emb : forall t, Emb drv (ruv t) t.
Proof. intros t. apply Forall2_Emb. apply ruv_aux_drv. Qed.

Lemma ruv_direct : forall t, direct (ruv t) = direct t.
Proof.
  unfold ruv, direct. induction t as [|a r IH]; simpl; [reflexivity|].
  destruct (ruv_aux r) as [r' A]. simpl in IH.
  destruct (bound a) as [x|].
  - destruct (memZ x (asrc a ++ A)); simpl; [rewrite IH; reflexivity|].
    destruct (can_strip a); simpl; rewrite IH; reflexivity.
  - simpl. rewrite IH; reflexivity.
Qed.

Definition bound_in (x : Z) (t : tcase) : Prop := exists s, In s t /\ bound s = Some x.

(* well-formed test cases, as the test factory builds them: every variable is bound once, and an
   assertion refers to variables bound at or before the statement that carries it *)
Fixpoint wf_tc (t : tcase) : Prop :=
  match t with
  | [] => True
  | a :: r => wf_tc r /\ (forall x, bound a = Some x -> ~ bound_in x r)
                      /\ (forall x, In x (asrc a) -> ~ bound_in x r)
  end.

Lemma ruv_alive : forall t x, In x (direct t) -> ~ bound_in x t -> In x (snd (ruv_aux t)).
Proof.
  unfold direct. induction t as [|a r IH]; intros x Hd Hb; simpl in *; [contradiction|].
  destruct (ruv_aux r) as [r' A]. simpl in IH.
  assert (HA1 : In x (asrc a ++ A)).
  { apply in_app_or in Hd. apply in_or_app. destruct Hd as [Hd|Hd]; [left; exact Hd|right].
    apply IH; [exact Hd|]. intros [s [Hs Hbs]]. apply Hb. exists s. split; [right; exact Hs|exact Hbs]. }
  assert (Hne : bound a <> Some x).
  { intros E. apply Hb. exists a. split; [left; reflexivity|exact E]. }
  destruct (bound a) as [y|].
  - destruct (memZ y (asrc a ++ A)); simpl; apply in_or_app; right; [|exact HA1].
    unfold removeZ. apply filter_In. split; [exact HA1|].
    destruct (Z.eqb y x) eqn:E; [|reflexivity]. apply Z.eqb_eq in E. congruence.
  - simpl. apply in_or_app; right; exact HA1.
Qed.

Lemma ruv_keeps : forall t, wf_tc t ->
  forall s x, In s t -> bound s = Some x -> In x (direct t) -> In s (ruv t).
Proof.
  unfold ruv, direct. induction t as [|a r IH]; intros Hwf s x Hs Hb Hd; simpl in *; [contradiction|].
  destruct Hwf as [Hwr [Hnb Hna]].
  pose proof (ruv_alive r x) as Hal. unfold direct in Hal.
  destruct (ruv_aux r) as [r' A]. simpl in *.
  destruct Hs as [->|Hs].
  - rewrite Hb.
    assert (HA1 : In x (asrc s ++ A)).
    { apply in_app_or in Hd. apply in_or_app. destruct Hd as [Hd|Hd]; [left; exact Hd|right].
      apply Hal; [exact Hd|]. apply Hnb; exact Hb. }
    apply memZ_In in HA1. rewrite HA1. simpl. left; reflexivity.
  - assert (Hr : In s r').
    { apply (IH Hwr s x Hs Hb). apply in_app_or in Hd. destruct Hd as [Hd|Hd]; [|exact Hd].
      exfalso. apply (Hna x Hd). exists s. split; assumption. }
    destruct (bound a) as [y|]; [destruct (memZ y (asrc a ++ A))|]; simpl; right; exact Hr.
Qed.

(* ================================================================ generator._minimize *)
Lemma same_refl : forall a, same a a = true.
Proof.
  unfold same. induction a as [|q a IH]; simpl; [reflexivity|].
  rewrite IH. rewrite andb_true_r. apply Qeq_bool_iff. apply Qeq_refl.
Qed.

Lemma same_Forall2 : forall a b, length a = length b -> same a b = true -> Forall2 Qeq a b.
Proof.
  unfold same. induction a as [|q a IH]; intros [|p b] Hl H; simpl in *; try discriminate; constructor.
  - apply andb_prop in H. destruct H as [H _]. apply Qeq_bool_iff; exact H.
  - apply IH; [lia|]. apply andb_prop in H. destruct H as [_ H]. exact H.
Qed.

Lemma remove_empty_idem : forall s, remove_empty (remove_empty s) = remove_empty s.
Proof.
  unfold remove_empty. induction s as [|t s IH]; simpl; [reflexivity|].
  destruct (negb (Nat.eqb (length t) 0)) eqn:E; simpl; [rewrite E, IH; reflexivity|exact IH].
Qed.

Lemma remove_empty_In : forall t s, In t s -> t <> [] -> In t (remove_empty s).
Proof.
  intros t s Hin Hne. unfold remove_empty. apply filter_In. split; [exact Hin|].
  destruct t; [congruence|reflexivity].
Qed.

Lemma remove_empty_sub : forall s, Emb eq (remove_empty s) s.
Proof. intros s. unfold remove_empty. apply Emb_filter. reflexivity. Qed.

Lemma Emb2_of_eq : forall a b : suite, Emb eq a b -> Emb (Emb drv) a b.
Proof. apply Emb_mono. intros x y ->. apply Emb_drv_refl. Qed.

Lemma Emb2_trans : forall a b c : suite, Emb (Emb drv) a b -> Emb (Emb drv) b c -> Emb (Emb drv) a c.
Proof.
  intros a b c H1 H2. refine (Emb_trans (Emb drv) _ b c H2 a H1).
  intros x y z Hx Hy. eapply Emb_drv_trans; eauto.
Qed.

Section Top.
  Variable cov : oracle.

  Lemma case_visit_emb d t : Emb drv (case_visit cov d t) t.
  Proof.
    unfold case_visit. eapply Emb_drv_trans; [|apply ruv_emb].
    apply (Emb_mono eq drv); [intros x y ->; apply drv_refl|].
    destruct d; [apply forward_visit_keep|apply backward_visit_keep].
  Qed.

  Lemma case_visit_protected d t :
    wf_tc t -> forall s x, In s t -> bound s = Some x -> In x (direct t) -> In s (case_visit cov d t).
  Proof.
    intros Hwf s x Hs Hb Hd. unfold case_visit.
    assert (H1 : In s (ruv t)) by (eapply ruv_keeps; eauto).
    assert (H2 : protb (protected_set (ruv t)) s = true).
    { unfold protb. rewrite Hb. apply protected_direct. rewrite ruv_direct. exact Hd. }
    destruct d.
    - destruct (forward_visit_keep cov (ruv t)) as [_ K]. apply K; assumption.
    - destruct (backward_visit_keep cov (ruv t)) as [_ K]. apply K; assumption.
  Qed.

  Lemma map_case_visit_emb d s : Emb (Emb drv) (map (case_visit cov d) s) s.
  Proof. apply Forall2_Emb. apply Forall2_map_l. intros t _. apply case_visit_emb. Qed.

  Lemma combined_visit_emb s : Emb (Emb eq) (combined_visit cov s) s.
  Proof.
    apply Forall2_Emb. eapply Forall2_weaken; [|apply combined_visit_keep].
    intros a b [H _]. exact H.
  Qed.

  Lemma run_strategy_emb st d s : Emb (Emb drv) (run_strategy cov st d s) s.
  Proof.
    destruct st; simpl.
    - apply map_case_visit_emb.
    - eapply Emb2_trans; [|apply map_case_visit_emb]. apply Emb2_of_eq. apply suite_visit_sub.
    - eapply (Emb_mono (Emb eq) (Emb drv)); [|apply combined_visit_emb].
      intros x y H. eapply (Emb_mono eq drv); [|exact H]. intros u v ->. apply drv_refl.
  Qed.

  Lemma minimize_emb st d s : Emb (Emb drv) (minimize cov st d s) s.
  Proof.
    unfold minimize, candidate.
    destruct (same (cov s) (cov (remove_empty (run_strategy cov st d s)))).
    - rewrite remove_empty_idem. eapply Emb2_trans; [|apply run_strategy_emb].
      apply Emb2_of_eq. apply remove_empty_sub.
    - apply Emb2_of_eq. apply Emb_refl. reflexivity.
  Qed.

  (* COMBINED never rewrites statements: literally a sub-suite of sub-sequences *)
  Lemma minimize_combined_sub d s : Emb (Emb eq) (minimize cov COMBINED d s) s.
  Proof.
    unfold minimize, candidate. simpl.
    destruct (same (cov s) (cov (remove_empty (combined_visit cov s)))).
    - rewrite remove_empty_idem.
      refine (Emb_trans (Emb eq) _ _ _ (combined_visit_emb s) _ _).
      + intros x y z Hx Hy. exact (Emb_trans eq eq_trans3 y z Hy x Hx).
      + eapply (Emb_mono eq (Emb eq)); [|apply remove_empty_sub].
        intros x y ->. apply Emb_refl. reflexivity.
    - apply Emb_refl. intros x. apply Emb_refl. reflexivity.
  Qed.

  Lemma minimize_cov st d s : same (cov s) (cov (minimize cov st d s)) = true.
  Proof.
    unfold minimize. destruct (same (cov s) (cov (candidate cov st d s))) eqn:E.
    - unfold candidate in *. rewrite remove_empty_idem. exact E.
    - apply same_refl.
  Qed.

  Lemma minimize_cov_Qeq st d s n :
    (forall x, length (cov x) = n) -> Forall2 Qeq (cov s) (cov (minimize cov st d s)).
  Proof.
    intros Hn. apply same_Forall2; [rewrite !Hn; reflexivity|apply minimize_cov].
  Qed.

  Lemma nonempty_of_In {A} : forall (x : A) l, In x l -> l <> [].
  Proof. intros x l H E. rewrite E in H. exact H. Qed.

  Lemma minimize_protected_case d s0 t s x :
    In t s0 -> wf_tc t -> In s t -> bound s = Some x -> In x (direct t) ->
    exists t', In t' (minimize cov CASE d s0) /\ In s t'.
  Proof.
    intros Ht Hwf Hs Hb Hd. unfold minimize, candidate. simpl.
    destruct (same (cov s0) (cov (remove_empty (map (case_visit cov d) s0)))).
    - exists (case_visit cov d t).
      assert (Hk : In s (case_visit cov d t)) by (eapply case_visit_protected; eauto).
      split; [|exact Hk].
      apply remove_empty_In; [|eapply nonempty_of_In; exact Hk].
      apply remove_empty_In; [|eapply nonempty_of_In; exact Hk].
      apply in_map; exact Ht.
    - exists t. split; assumption.
  Qed.

  Lemma minimize_protected_combined d s0 t s x :
    In t s0 -> In s t -> bound s = Some x -> In x (direct t) ->
    exists t', In t' (minimize cov COMBINED d s0) /\ In s t'.
  Proof.
    intros Ht Hs Hb Hd. unfold minimize, candidate. simpl.
    destruct (same (cov s0) (cov (remove_empty (combined_visit cov s0)))).
    - destruct (Forall2_In_r _ _ _ t (combined_visit_keep cov s0) Ht) as [t' [Ht' [_ K]]].
      assert (Hk : In s t').
      { apply K; [exact Hs|]. unfold protb. rewrite Hb. apply protected_direct; exact Hd. }
      exists t'. split; [|exact Hk].
      apply remove_empty_In; [|eapply nonempty_of_In; exact Hk].
      apply remove_empty_In; [|eapply nonempty_of_In; exact Hk]. exact Ht'.
    - exists t. split; assumption.
  Qed.

  (* SUITE: a test case that survives still holds its asserted-on statements *)
  Lemma minimize_protected_suite_partial d s0 t' :
    In t' (minimize cov SUITE d s0) ->
    exists t, In t s0 /\ Emb drv t' t /\
      (wf_tc t -> forall s x, In s t -> bound s = Some x -> In x (direct t) -> In s t').
  Proof.
    unfold minimize, candidate. simpl.
    destruct (same (cov s0) (cov (remove_empty (suite_visit cov (map (case_visit cov d) s0))))).
    - intros H. unfold remove_empty in H. apply filter_In in H. destruct H as [H _].
      apply filter_In in H. destruct H as [H _].
      apply (Emb_eq_In _ _ (suite_visit_sub cov _)) in H.
      apply in_map_iff in H. destruct H as [t [<- Ht]].
      exists t. split; [exact Ht|]. split; [apply case_visit_emb|].
      intros Hwf s x. apply case_visit_protected; exact Hwf.
    - intros H. exists t'. split; [exact H|]. split; [apply Emb_drv_refl|]. intros _ s x Hs _ _. exact Hs.
  Qed.
End Top.

(* SUITE removes whole redundant test cases, asserted-on statements included (by design) *)
Definition ex_a : stmt := mkStmt 0 1 true (Some 0%Z) [] [0%Z].
Definition ex_b : stmt := mkStmt 2 3 true (Some 1%Z) [] [1%Z].
Definition ex_cov : oracle := fun _ => [Qmake 1 1].

Lemma suite_protected_refuted :
  exists (cov : oracle) (s0 : suite) (t : tcase) (s : stmt) (x : Z),
    In t s0 /\ wf_tc t /\ In s t /\ bound s = Some x /\ In x (direct t) /\
    forall t', In t' (minimize cov SUITE FORWARD s0) -> ~ In s t'.
Proof.
  exists ex_cov, [[ex_a]; [ex_b]], [ex_a], ex_a, 0%Z.
  split; [left; reflexivity|]. split; [simpl; repeat split; intros x H [s [[] _]]|].
  split; [left; reflexivity|]. split; [reflexivity|]. split; [left; reflexivity|].
  assert (E : minimize ex_cov SUITE FORWARD [[ex_a]; [ex_b]] = [[ex_b]]) by (vm_compute; reflexivity).
  rewrite E. intros t' [<-|[]] [H|[]]. discriminate H.
Qed.

(* ================================================================ non-vacuity *)
(* a well-formed test case with an asserted-on statement, kept by CASE and COMBINED under an
   oracle that would let everything go *)
Definition ex_t : tcase :=
  [ mkStmt 10 11 true (Some 5%Z) [] [];
    mkStmt 12 13 true (Some 6%Z) [5%Z] [6%Z];
    mkStmt 14 15 true (Some 7%Z) [] [] ].

Example ex_wf : wf_tc ex_t /\ In 6%Z (direct ex_t).
Proof.
  split; [|left; reflexivity]. simpl. repeat split; intros x H [s [Hs Hb]]; simpl in *;
    repeat (destruct Hs as [<-|Hs]; [simpl in *; try congruence|]); try contradiction;
    try (destruct H as [<-|[]]; discriminate).
Qed.

Example ex_case_keeps :
  map (map code) (minimize ex_cov CASE FORWARD [ex_t]) = [[10; 12]]%Z /\
  map (map code) (minimize ex_cov COMBINED BACKWARD [ex_t]) = [[10; 12]]%Z.
Proof. split; vm_compute; reflexivity. Qed.

(* ================================================================ termination, collected *)
Lemma fd_close_exit : forall root rest,
  fd_step (iterT fd_step (S (length rest))
             (match bound root with Some x => [x] | None => [] end,
              map (fun s => (s, false)) rest)) = None.
Proof.
  intros root rest. apply (iterT_exit fd_step (fun a => unmarked (snd a)) fd_step_dec).
  simpl. rewrite unmarked_init. lia.
Qed.

(* Every [while] loop of the model reaches its exit condition within the fuel it is given
   (fuel = decreasing measure + 1): the fuel never truncates a loop. *)
Definition all_loops_exit (cov : oracle) : Prop :=
  (forall t, prot_step t (prot_final t) = None) /\
  (forall root rest,
     fd_step (iterT fd_step (S (length rest))
                (match bound root with Some x => [x] | None => [] end,
                 map (fun s => (s, false)) rest)) = None) /\
  (forall P orig t, fwd_step cov P orig (fwd_round cov P orig t) = None) /\
  (forall t, fwd_outer_step cov (protected_set t) (cov1 cov t) (forward_visit cov t) = None) /\
  (forall t, bwd_step cov (protected_set t) (cov1 cov t) (backward_visit cov t) = None) /\
  (forall orig s, suite_step cov orig (iterT (suite_step cov orig) (S (length s)) (s, 0)) = None) /\
  (forall orig idx P s ch,
     comb_step cov orig idx P
       (iterT (comb_step cov orig idx P)
          (S (match nth_error s idx with Some t => length t | None => 0 end)) (s, 0, ch)) = None) /\
  (forall s, comb_outer_step cov (cov s) (map protected_set s) (combined_visit cov s) = None).

Lemma termination : forall cov, all_loops_exit cov.
Proof.
  intros cov. unfold all_loops_exit. repeat split.
  - apply prot_final_exit.
  - apply fd_close_exit.
  - apply fwd_round_exit.
  - apply forward_visit_exit.
  - apply backward_visit_exit.
  - apply suite_loop_exit.
  - intros. apply (comb_inner_exit cov orig idx P s ch).
  - apply combined_visit_exit.
Qed.

(* the measures themselves: one productive round strictly decreases them *)
Lemma measures_decrease : forall cov,
  (forall t a a', prot_step t a = Some a' -> length (snd a') < length (snd a)) /\
  (forall a a', fd_step a = Some a' -> unmarked (snd a') < unmarked (snd a)) /\
  (forall P orig a a', fwd_step cov P orig a = Some a' -> fwd_mu a' < fwd_mu a) /\
  (forall P orig t t', fwd_outer_step cov P orig t = Some t' -> length t' < length t) /\
  (forall P orig t t', bwd_step cov P orig t = Some t' -> length t' < length t) /\
  (forall orig a a', suite_step cov orig a = Some a' -> suite_mu a' < suite_mu a) /\
  (forall orig idx P a a', comb_step cov orig idx P a = Some a' -> comb_mu idx a' < comb_mu idx a) /\
  (forall orig Ps s s', comb_outer_step cov orig Ps s = Some s' -> total s' < total s).
Proof.
  intros cov. repeat split.
  - apply prot_step_dec.
  - apply fd_step_dec.
  - apply fwd_step_dec.
  - apply fwd_outer_dec.
  - apply bwd_step_dec.
  - apply suite_step_dec.
  - apply comb_step_dec.
  - apply comb_outer_dec.
Qed.

Lemma visitor_keeps : forall cov t,
  Keep (protected_set t) t (forward_visit cov t) /\ Keep (protected_set t) t (backward_visit cov t).
Proof. intros; split; [apply forward_visit_keep|apply backward_visit_keep]. Qed.

Lemma protected_spec : forall t,
  (forall x, In x (direct t) -> In x (protected_set t)) /\
  (forall s x u, In s t -> bound s = Some x -> In x (protected_set t) -> In u (uses s) ->
                 In u (protected_set t)).
Proof.
  intros t. split.
  - intros x H. apply memZ_In. apply protected_direct; exact H.
  - intros s x u Hs Hb Hx Hu. apply memZ_In. eapply (protected_closed t); eauto. apply memZ_In; exact Hx.
Qed.
