(* C09 — proofs about the slicer model (Models/C09.v). *)
From Coq Require Import List ZArith Bool Lia.
From Verif Require Import Models.C09.
Import ListNotations. Import C09.
Open Scope Z_scope.

(* ================================================================================================ *)
(* 1. The slice holds only instructions of the flow, or the criterion                               *)
(* ================================================================================================ *)

Lemma in_slice_upd_ctrl s c : in_slice (upd_ctrl s c) = in_slice s.
Proof. reflexivity. Qed.

Lemma in_slice_check_ctrl t e s : in_slice (snd (check_ctrl t e s)) = in_slice s.
Proof. unfold check_ctrl. destruct (negb (is_cond e)); reflexivity. Qed.

Lemma in_slice_add_ctrl t e s : in_slice (add_ctrl t e s) = in_slice s.
Proof. unfold add_ctrl. destruct (ctrl _); reflexivity. Qed.

Lemma in_slice_check_explicit e s : in_slice (snd (check_explicit e s)) = in_slice s.
Proof.
  unfold check_explicit. destruct (negb (is_def e)); [reflexivity|].
  destruct (mem e); reflexivity.
Qed.

Lemma in_slice_add_uses e s : in_slice (add_uses e s) = in_slice s.
Proof. unfold add_uses. destruct (mem e); reflexivity. Qed.

Lemma in_slice_housekeeping e s s' : housekeeping e s = Some s' -> in_slice s' = in_slice s.
Proof.
  unfold housekeeping. intro H.
  destruct (set_fattrs (frames s) (attr_vars s)) as [|f0 fr0] eqn:E0; [discriminate|].
  destruct (f_ret e); cbn [fst snd] in H;
  destruct (f_call e); try destruct (sim s); cbn in H;
  repeat match type of H with
         | match ?x with _ => _ end = _ => destruct x; try discriminate
         end; inversion H; reflexivity.
Qed.

Lemma step_in_slice t s e s' :
  step t s e = Some s' -> forall x, In x (in_slice s') -> x = e \/ In x (in_slice s).
Proof.
  unfold step. intros H x Hx.
  set (s1 := if f_exc e then _ else s) in H.
  assert (E1 : in_slice s1 = in_slice s) by (unfold s1; destruct (f_exc e); reflexivity).
  destruct (housekeeping e s1) as [s2|] eqn:E2; [|discriminate].
  apply in_slice_housekeeping in E2.
  destruct (check_ctrl t e s2) as [cdep s3] eqn:E3.
  assert (I3 : in_slice s3 = in_slice s2) by (rewrite <- (in_slice_check_ctrl t e s2), E3; reflexivity).
  destruct (check_explicit e s3) as [[edep created] s4] eqn:E4.
  assert (I4 : in_slice s4 = in_slice s3) by (rewrite <- (in_slice_check_explicit e s3), E4; reflexivity).
  destruct (if sim s4 then update_push (frames s4) (pushes e) (f_ret e) else Some (frames s4, false, true))
    as [[[fs5 sdep] incl]|] eqn:E5; [|discriminate].
  destruct (if sim s4 then update_pop fs5 (pops e) e _ else Some fs5) as [fs6|] eqn:E6; [|discriminate].
  assert (I0 : in_slice s4 = in_slice s) by congruence.
  destruct (cdep || edep || (f_call e && cod s4) || sdep || ujump e).
  - destruct (is_use e && incl); inversion H; subst s'; clear H;
      rewrite ?in_slice_add_uses, in_slice_add_ctrl in Hx; cbn [in_slice] in Hx;
      (destruct Hx as [Hx|Hx]; [left; congruence | right; rewrite <- I0; exact Hx]).
  - inversion H; subst s'; clear H. cbn [in_slice] in Hx. right. rewrite <- I0. exact Hx.
Qed.

Lemma run_in_slice t flow : forall s s',
  run t s flow = Some s' -> forall x, In x (in_slice s') -> In x flow \/ In x (in_slice s).
Proof.
  induction flow as [|e r IH]; intros s s' H x Hx; cbn [run] in H.
  - inversion H; subst. right; exact Hx.
  - destruct (step t s e) as [s1|] eqn:E; [|discriminate].
    destruct (IH _ _ H x Hx) as [Hin|Hin].
    + left; right; exact Hin.
    + destruct (step_in_slice _ _ _ _ E x Hin) as [->|Hin'].
      * left; left; reflexivity.
      * right; exact Hin'.
Qed.

Lemma dedup_incl seen l x : In x (dedup seen l) -> In x l.
Proof.
  revert seen; induction l as [|e r IH]; intros seen H; cbn [dedup] in H; [exact H|].
  destruct (memZ (uid e) seen).
  - right; eapply IH; exact H.
  - destruct H as [->|H]; [left; reflexivity | right; eapply IH; exact H].
Qed.

Lemma init_in_slice t c s : init t c = Some s -> in_slice s = [c].
Proof.
  unfold init. intro H.
  destruct (update_push init_frames (pushes c) false) as [[[fs1 a] b]|]; [|discriminate].
  destruct (update_pop fs1 (pops c) c true) as [fs2|]; [|discriminate].
  inversion H. rewrite in_slice_add_ctrl. reflexivity.
Qed.

Theorem slice_subset_trace t c flow sl :
  slice t c flow = Some sl -> forall x, In x sl -> x = c \/ In x flow.
Proof.
  unfold slice. intros H x Hx.
  destruct (init t c) as [s0|] eqn:E0; [|discriminate].
  destruct (run t s0 flow) as [s|] eqn:E1; [|discriminate].
  inversion H; subst sl; clear H.
  apply dedup_incl in Hx.
  destruct (run_in_slice _ _ _ _ E1 x Hx) as [Hin|Hin]; [right; exact Hin|].
  rewrite (init_in_slice _ _ _ E0) in Hin. destruct Hin as [<-|[]]. left; reflexivity.
Qed.

(* ================================================================================================ *)
(* 2. Checked lines are lines of executed instructions                                              *)
(* ================================================================================================ *)

(* line id [i] is the registered line of a module (non-test) instruction of the flow, or of the criterion *)
Definition executed_line (lt : linetab) (c : einstr) (flow : list einstr) (i : Z) : Prop :=
  exists e, (e = c \/ In e flow) /\ in_test e = false /\ line_id lt (file e) (line e) = Some i.

Lemma In_addZ x y l : In x (addZ y l) -> x = y \/ In x l.
Proof. unfold addZ. destruct (memZ y l); [right; assumption|]. intros [<-|H]; auto. Qed.

Lemma In_remZ x y l : In x (remZ y l) -> In x l.
Proof. unfold remZ. intro H. apply filter_In in H. tauto. Qed.

Lemma map_lines_sound lt l : forall cur res,
  map_lines lt cur l = Some res ->
  forall i, In i res -> exists e, In e l /\ in_test e = false /\ line_id lt (file e) (line e) = Some i.
Proof.
  induction l as [|e r IH]; intros cur res H i Hi; cbn [map_lines] in H.
  - inversion H; subst. destruct Hi.
  - destruct (in_test e) eqn:Et.
    + destruct (IH _ _ H i Hi) as (x & Hx & Hr). exists x; split; [right; exact Hx | exact Hr].
    + destruct (match cur with Some c => line e =? c | None => false end).
      * destruct (IH _ _ H i Hi) as (x & Hx & Hr). exists x; split; [right; exact Hx | exact Hr].
      * destruct (line_id lt (file e) (line e)) as [k|] eqn:Ek; [|discriminate].
        destruct (map_lines lt (Some (line e)) r) as [res'|] eqn:Er; [|discriminate].
        inversion H; subst res; clear H.
        apply In_addZ in Hi. destruct Hi as [->|Hi].
        -- exists e; split; [left; reflexivity | split; assumption].
        -- destruct (IH _ _ Er i Hi) as (x & Hx & Hr). exists x; split; [right; exact Hx | exact Hr].
Qed.

Lemma stmt_lines_sound lt sl ls :
  stmt_lines lt sl = Some ls ->
  forall i, In i ls -> exists e, In e sl /\ in_test e = false /\ line_id lt (file e) (line e) = Some i.
Proof.
  unfold stmt_lines. intros H i Hi.
  destruct (map_lines lt None sl) as [m|] eqn:Em; [|discriminate].
  assert (Hm : In i m).
  { destruct (cleanse_target sl) as [r|]; [|inversion H; subst; exact Hi].
    destruct (line_id lt (file r) (line r)) as [k|]; [|discriminate].
    destruct (memZ k m); [|discriminate]. inversion H; subst ls. eapply In_remZ; exact Hi. }
  eapply map_lines_sound; eassumption.
Qed.

Lemma model_lines_sound lt k sl ls :
  model_lines lt k sl = Some ls ->
  forall i, In i ls -> exists e, In e sl /\ in_test e = false /\ line_id lt (file e) (line e) = Some i.
Proof.
  unfold model_lines. destruct (k =? 0); [apply stmt_lines_sound | apply map_lines_sound].
Qed.

Theorem checked_subset_executed t lt k c flow sl ls :
  slice t c flow = Some sl -> model_lines lt k sl = Some ls ->
  forall i, In i ls -> executed_line lt c flow i.
Proof.
  intros Hs Hl i Hi.
  destruct (model_lines_sound _ _ _ _ Hl i Hi) as (e & He & Ht & Hid).
  exists e. split; [eapply slice_subset_trace; eassumption | split; assumption].
Qed.

Lemma In_union x a b : In x (union a b) -> In x a \/ In x b.
Proof.
  unfold union. induction a as [|y r IH]; cbn [fold_right]; [auto|].
  intro H. apply In_addZ in H. destruct H as [->|H]; [left; left; reflexivity|].
  destruct (IH H); [left; right; assumption | right; assumption].
Qed.

(* compute_statement_checked_lines: every reported line id belongs to an executed instruction of
   one of the statement criteria *)
Theorem statement_checked_lines_executed t lt cs : forall ls,
  stmt_union t lt cs = Some ls ->
  forall i, In i ls -> exists c, In c cs /\ executed_line lt (sc_crit c) (sc_flow c) i.
Proof.
  induction cs as [|c r IH]; intros ls H i Hi; cbn [stmt_union] in H.
  - inversion H; subst. destruct Hi.
  - destruct (sc_kind c =? 0).
    + destruct (slice t (sc_crit c) (sc_flow c)) as [sl|] eqn:Es; [|discriminate].
      destruct (stmt_lines lt sl) as [a|] eqn:Ea; [|discriminate].
      destruct (stmt_union t lt r) as [b|] eqn:Eb; [|discriminate].
      inversion H; subst ls; clear H.
      apply In_union in Hi. destruct Hi as [Hi|Hi].
      * exists c. split; [left; reflexivity|].
        destruct (stmt_lines_sound _ _ _ Ea i Hi) as (e & He & Ht & Hid).
        exists e. split; [eapply slice_subset_trace; eassumption | split; assumption].
      * destruct (IH _ eq_refl i Hi) as (c' & Hc & Hx). exists c'; split; [right; exact Hc | exact Hx].
    + destruct (IH _ H i Hi) as (c' & Hc & Hx). exists c'; split; [right; exact Hc | exact Hx].
Qed.

Lemma assert_concat_sound t cs : forall l,
  assert_concat t cs = Some l ->
  forall e, In e l -> exists c, In c cs /\ (e = sc_crit c \/ In e (sc_flow c)).
Proof.
  induction cs as [|c r IH]; intros l H e He; cbn [assert_concat] in H.
  - inversion H; subst. destruct He.
  - destruct (sc_kind c =? 1).
    + destruct (slice t (sc_crit c) (sc_flow c)) as [sl|] eqn:Es; [|discriminate].
      destruct (assert_concat t r) as [rest|] eqn:Er; [|discriminate].
      inversion H; subst l; clear H. apply in_app_or in He. destruct He as [He|He].
      * exists c. split; [left; reflexivity | eapply slice_subset_trace; eassumption].
      * destruct (IH _ eq_refl e He) as (c' & Hc & Hx). exists c'; split; [right; exact Hc | exact Hx].
    + destruct (IH _ H e He) as (c' & Hc & Hx). exists c'; split; [right; exact Hc | exact Hx].
Qed.

(* compute_assertion_checked_coverage counts only lines of executed instructions *)
Theorem assertion_checked_lines_executed t lt cs ls :
  assert_lines t lt cs = Some ls ->
  forall i, In i ls -> exists c, In c cs /\ executed_line lt (sc_crit c) (sc_flow c) i.
Proof.
  unfold assert_lines. intros H i Hi.
  destruct (assert_concat t cs) as [l|] eqn:El; [|discriminate].
  destruct (map_lines_sound _ _ _ _ H i Hi) as (e & He & Ht & Hid).
  destruct (assert_concat_sound _ _ _ El e He) as (c & Hc & Hx).
  exists c. split; [exact Hc|]. exists e. split; [exact Hx | split; assumption].
Qed.

(* ================================================================================================ *)
(* 3. The backward pop/push bookkeeping pairs every consumer with its producer                      *)
(* ================================================================================================ *)
Section Stack.
  Context {A : Type} (po pu : A -> nat).

  Lemma combine_app_l {X Y} (a b : list X) (s : list Y) :
    combine (a ++ b) s = combine a (firstn (length a) s) ++ combine b (skipn (length a) s).
  Proof.
    revert s; induction a as [|x a IH]; intro s; cbn; [reflexivity|].
    destruct s as [|y s]; cbn.
    - rewrite combine_nil. destruct b; reflexivity.
    - rewrite IH. reflexivity.
  Qed.
  Lemma combine_app_r {X Y} (l : list X) (a b : list Y) :
    combine l (a ++ b) = combine (firstn (length a) l) a ++ combine (skipn (length a) l) b.
  Proof.
    revert l; induction a as [|y a IH]; intro l; cbn; [reflexivity|].
    destruct l as [|x l]; cbn; [reflexivity|]. rewrite IH. reflexivity.
  Qed.

  Theorem stack_producer_gen : forall tr S x,
    In x (Fw po pu S tr) <-> In x (Ed po pu tr) \/ In x (combine (Bk po pu tr) S).
  Proof.
    induction tr as [|e r IH]; intros S x; cbn [Fw Ed Bk].
    - cbn. tauto.
    - rewrite in_app_iff, IH, combine_app_r, repeat_length, in_app_iff.
      rewrite combine_app_l, repeat_length, !in_app_iff. tauto.
  Qed.

  (* started on the empty stack: the backward simulation finds exactly the forward pairs *)
  Corollary stack_producer : forall tr x, In x (Fw po pu [] tr) <-> In x (Ed po pu tr).
  Proof.
    intros tr x. rewrite stack_producer_gen, combine_nil. cbn [In]. tauto.
  Qed.
End Stack.

(* ================================================================================================ *)
(* 4. Dependence closure on the straight-line fragment                                              *)
(* ================================================================================================ *)

Definition occ := (einstr * bool)%type.            (* executed instruction with its "in slice" mark *)
Definition opo (x : occ) : nat := pops (fst x).
Definition opu (x : occ) : nat := pushes (fst x).
Definition ent (x : occ) : entry := entry_of (fst x) (snd x).
Definition plain (t : entry) : Prop := e_store t = false /\ e_access t = false.

Definition key_in (k : bool * Z * Z) (s : st) : Prop :=
  (if fst (fst k) then memP (snd (fst k), snd k) (guses s) else memP (snd (fst k), snd k) (luses s)) = true.

(* --- pop_n ---------------------------------------------------------------------------------------- *)
Lemma pop_n_fst n : forall b acc, fst (pop_n n b acc) = skipn n b.
Proof.
  induction n as [|n IH]; intros b acc; cbn [pop_n]; [reflexivity|].
  destruct (pop_one b acc) as [b' acc'] eqn:E. rewrite IH.
  unfold pop_one in E. destruct b as [|t r]; [inversion E; subst; destruct n; reflexivity|].
  destruct (e_in t); inversion E; subst; reflexivity.
Qed.

Lemma pop_n_imp n : forall b i c, fst (snd (pop_n n b (i, c))) = i || existsb e_in (firstn n b).
Proof.
  induction n as [|n IH]; intros b i c; cbn [pop_n firstn].
  - cbn. rewrite orb_false_r. reflexivity.
  - destruct (pop_one b (i, c)) as [b' [i' c']] eqn:E. rewrite IH.
    unfold pop_one in E. destruct b as [|t r].
    + inversion E; subst. destruct n; cbn; reflexivity.
    + cbn [firstn existsb]. destruct (e_in t); inversion E; subst; cbn [fst snd].
      * rewrite orb_true_r. reflexivity.
      * reflexivity.
Qed.

Lemma pop_n_incl n : forall b i, Forall plain b -> snd (snd (pop_n n b (i, true))) = true.
Proof.
  induction n as [|n IH]; intros b i Hb; cbn [pop_n]; [reflexivity|].
  destruct (pop_one b (i, true)) as [b' [i' c']] eqn:E.
  unfold pop_one in E. destruct b as [|t r].
  - inversion E; subst. apply IH. constructor.
  - inversion Hb as [|? ? [Hs Ha] Hr]; subst.
    rewrite Hs, Ha in E. cbn [andb snd] in E.
    destruct (e_in t); [destruct r|]; inversion E; subst; apply IH; assumption.
Qed.

(* --- uses sets ------------------------------------------------------------------------------------ *)
Definition lu_rem (e : einstr) (lu : list (Z * Z)) : list (Z * Z) :=
  if is_def e then match mem e with MVar false n sc _ _ _ => remP (n, sc) lu | _ => lu end else lu.
Definition gu_rem (e : einstr) (gu : list (Z * Z)) : list (Z * Z) :=
  if is_def e then match mem e with MVar true n sc _ _ _ => remP (n, sc) gu | _ => gu end else gu.
Definition lu_add (e : einstr) (lu : list (Z * Z)) : list (Z * Z) :=
  match mem e with MVar false n sc _ _ _ => addP (n, sc) lu | _ => lu end.
Definition gu_add (e : einstr) (gu : list (Z * Z)) : list (Z * Z) :=
  match mem e with MVar true n sc _ _ _ => addP (n, sc) gu | _ => gu end.

Lemma ce_fields e s :
  let s' := snd (check_explicit e s) in
  in_slice s' = in_slice s /\ frames s' = frames s /\ sim s' = sim s /\ ctrl_deps s' = ctrl_deps s /\
  luses s' = lu_rem e (luses s) /\ guses s' = gu_rem e (guses s).
Proof.
  unfold check_explicit, lu_rem, gu_rem. destruct (is_def e); cbn [negb].
  - destruct (mem e) as [|g n sc a m c|n sr a m el]; cbn; [tauto| |tauto]. destruct g; tauto.
  - cbn. tauto.
Qed.

Lemma au_fields e s :
  let s' := add_uses e s in
  in_slice s' = in_slice s /\ frames s' = frames s /\ sim s' = sim s /\
  luses s' = lu_add e (luses s) /\ guses s' = gu_add e (guses s).
Proof.
  unfold add_uses, lu_add, gu_add. destruct (mem e) as [|g n sc a m c|n sr a m el]; cbn; [tauto| |tauto].
  destruct g; tauto.
Qed.

Lemma ac_fields t e s :
  let s' := add_ctrl t e s in
  in_slice s' = in_slice s /\ frames s' = frames s /\ sim s' = sim s /\
  luses s' = luses s /\ guses s' = guses s.
Proof. unfold add_ctrl. destruct (ctrl _); cbn; tauto. Qed.

Lemma eqP_refl a : eqP a a = true.
Proof. unfold eqP. rewrite !Z.eqb_refl. reflexivity. Qed.
Lemma eqP_eq a b : eqP a b = true -> a = b.
Proof.
  unfold eqP. destruct a, b; cbn. intro H. apply andb_prop in H. destruct H as [H1 H2].
  apply Z.eqb_eq in H1, H2. subst. reflexivity.
Qed.
Lemma memP_In x l : memP x l = true <-> In x l.
Proof.
  unfold memP. rewrite existsb_exists. split.
  - intros (y & Hy & E). apply eqP_eq in E. subst. exact Hy.
  - intro H. exists x. split; [exact H | apply eqP_refl].
Qed.
Lemma memP_addP_same x l : memP x (addP x l) = true.
Proof.
  unfold addP. destruct (memP x l) eqn:E; [exact E|]. apply memP_In. left; reflexivity.
Qed.
Lemma memP_addP_keep x y l : memP x l = true -> memP x (addP y l) = true.
Proof.
  unfold addP. destruct (memP y l); [auto|]. intro H. apply memP_In. right. apply memP_In. exact H.
Qed.
Lemma memP_remP_keep x y l : x <> y -> memP x l = true -> memP x (remP y l) = true.
Proof.
  intros Hne H. apply memP_In. apply memP_In in H. unfold remP. apply filter_In. split; [exact H|].
  destruct (eqP x y) eqn:E; [apply eqP_eq in E; contradiction | reflexivity].
Qed.

(* the explicit-dependency test fires when the instruction defines a pending key *)
Lemma ce_fires e s k : defs_key e k -> key_in k s -> fst (fst (check_explicit e s)) = true.
Proof.
  intros [Hd Hk] Hin. unfold check_explicit. rewrite Hd. cbn [negb].
  unfold key in Hk. destruct (mem e) as [|g n sc a m c|n sr a m el]; try discriminate.
  inversion Hk; subst k; clear Hk. unfold key_in in Hin. cbn [fst snd] in Hin.
  cbn [fst]. destruct g; rewrite Hin; reflexivity.
Qed.

(* keys other than the one the instruction defines survive check_explicit *)
Lemma rem_keeps e s k :
  ~ defs_key e k -> key_in k s ->
  (if fst (fst k) then memP (snd (fst k), snd k) (gu_rem e (guses s))
   else memP (snd (fst k), snd k) (lu_rem e (luses s))) = true.
Proof.
  intros Hnd Hin. unfold key_in in Hin. unfold gu_rem, lu_rem, defs_key, key in *.
  destruct k as [[g n] sc]. cbn [fst snd] in *.
  destruct (is_def e); [|exact Hin].
  destruct (mem e) as [|g' n' sc' a m c|n' sr a m el]; try exact Hin.
  destruct g, g'; try exact Hin.
  - apply memP_remP_keep; [|exact Hin]. intro E. inversion E; subst. apply Hnd. split; reflexivity.
  - apply memP_remP_keep; [|exact Hin]. intro E. inversion E; subst. apply Hnd. split; reflexivity.
Qed.

Lemma add_keeps e (k : bool * Z * Z) lu gu :
  (if fst (fst k) then memP (snd (fst k), snd k) gu else memP (snd (fst k), snd k) lu) = true ->
  (if fst (fst k) then memP (snd (fst k), snd k) (gu_add e gu)
   else memP (snd (fst k), snd k) (lu_add e lu)) = true.
Proof.
  unfold gu_add, lu_add. destruct k as [[g n] sc]. cbn [fst snd].
  destruct (mem e) as [|g' n' sc' a m c|n' sr a m el]; try (intro H; exact H).
  destruct g, g'; intro H; try exact H; apply memP_addP_keep; exact H.
Qed.

Lemma add_adds e k lu gu :
  key e = Some k ->
  (if fst (fst k) then memP (snd (fst k), snd k) (gu_add e gu)
   else memP (snd (fst k), snd k) (lu_add e lu)) = true.
Proof.
  unfold key, gu_add, lu_add. destruct (mem e) as [|g' n' sc' a m c|n' sr a m el]; try discriminate.
  intro H; inversion H; subst k; cbn [fst snd]. destruct g'; apply memP_addP_same.
Qed.

(* --- one step in the fragment ---------------------------------------------------------------------- *)
Lemma frag_flags e : frag_instr e = true ->
  f_call e = false /\ f_ret e = false /\ f_exc e = false /\ is_cond e = false /\ ujump e = false /\
  is_store e = false /\ is_access e = false.
Proof.
  unfold frag_instr. intro H.
  repeat (apply andb_prop in H; destruct H as [H ?]).
  repeat match goal with X : negb _ = true |- _ => apply negb_true_iff in X end.
  tauto.
Qed.

Lemma step_frag t s e b fa rest s' :
  frag_instr e = true -> sim s = true -> frames s = mkF b fa :: rest -> Forall plain b ->
  step t s e = Some s' ->
  exists edep : bool,
    (forall k, defs_key e k -> key_in k s -> edep = true) /\
    let cis := edep || existsb e_in (firstn (pushes e) b) in
    frames s' = mkF (repeat (entry_of e cis) (pops e) ++ skipn (pushes e) b) (attr_vars s) :: rest /\
    sim s' = true /\
    in_slice s' = (if cis then e :: in_slice s else in_slice s) /\
    luses s' = (if cis && is_use e then lu_add e (lu_rem e (luses s)) else lu_rem e (luses s)) /\
    guses s' = (if cis && is_use e then gu_add e (gu_rem e (guses s)) else gu_rem e (guses s)).
Proof.
  intros Hf Hsim Hfr Hb H.
  destruct (frag_flags e Hf) as (Fc & Fr & Fx & Fcond & Fj & Fst & Fac).
  unfold step in H. rewrite Fx in H.
  unfold housekeeping in H. rewrite Hfr, Fr, Fc in H. cbn [set_fattrs blk fattrs] in H.
  set (s2 := mkS (in_slice s) (ctrl_deps s) (luses s) (guses s) (addr_uses s) (attr_uses s)
                 (attr_vars s) (mkF b (attr_vars s) :: rest) (new_attr s) (cod s) (sim s)) in H.
  unfold check_ctrl in H. rewrite Fcond in H. cbn [negb] in H.
  destruct (check_explicit e s2) as [[edep created] s4] eqn:E4.
  pose proof (ce_fields e s2) as CE. rewrite E4 in CE. cbn [snd] in CE.
  destruct CE as (C1 & C2 & C3 & C4 & C5 & C6).
  assert (S4 : sim s4 = true) by (rewrite C3; exact Hsim).
  rewrite S4, C2 in H. cbn [frames s2] in H.
  unfold update_push in H. cbn [blk fattrs] in H.
  destruct (pop_n (pushes e) b (false, true)) as [b' [imp incl]] eqn:EP.
  assert (Eb : b' = skipn (pushes e) b) by (rewrite <- (pop_n_fst (pushes e) b (false, true)), EP; reflexivity).
  assert (Ei : imp = existsb e_in (firstn (pushes e) b))
    by (pose proof (pop_n_imp (pushes e) b false true) as X; rewrite EP in X; exact X).
  assert (Ec : incl = true)
    by (pose proof (pop_n_incl (pushes e) b false Hb) as X; rewrite EP in X; exact X).
  subst b' imp incl. cbn [fattrs] in H.
  rewrite Fj in H. cbn [andb orb] in H. rewrite ?orb_false_r in H.
  unfold update_pop in H.
  exists edep. split.
  { intros k Hd Hk. pose proof (ce_fires e s2 k Hd) as X. rewrite E4 in X. apply X. exact Hk. }
  cbn zeta.
  destruct (edep || existsb e_in (firstn (pushes e) b)) eqn:Ecis.
  - rewrite andb_true_r in H. cbn [andb].
    destruct (is_use e); inversion H; subst s'; clear H.
    + match goal with |- context [add_uses e ?x] => pose proof (au_fields e x) as AU end.
      cbn zeta in AU. destruct AU as (A1 & A2 & A3 & A4 & A5).
      rewrite A1, A2, A3, A4, A5.
      match goal with |- context [add_ctrl t e ?x] => pose proof (ac_fields t e x) as AC end.
      cbn zeta in AC. destruct AC as (B1 & B2 & B3 & B4 & B5).
      rewrite B1, B2, B3, B4, B5. cbn. rewrite C1, C5, C6. cbn. repeat split; try reflexivity; try exact S4.
    + match goal with |- context [add_ctrl t e ?x] => pose proof (ac_fields t e x) as AC end.
      cbn zeta in AC. destruct AC as (B1 & B2 & B3 & B4 & B5).
      rewrite B1, B2, B3, B4, B5. cbn. rewrite C1, C5, C6. cbn. repeat split; try reflexivity; try exact S4.
  - inversion H; subst s'; clear H. cbn. rewrite C1, C5, C6. cbn. repeat split; try reflexivity; try exact S4.
Qed.

(* --- the invariant of the backward run --------------------------------------------------------------- *)
Definition Bm (done : list occ) : list entry := map ent (Bk opo opu done).

Lemma Bk_incl {A} (po pu : A -> nat) tr x : In x (Bk po pu tr) -> In x tr.
Proof.
  induction tr as [|e r IH]; cbn [Bk]; [tauto|]. intro H. apply in_app_or in H. destruct H as [H|H].
  - apply repeat_spec in H. left; congruence.
  - right. apply IH. revert H. generalize (Bk po pu r) as l. generalize (pu e) as n.
    induction n as [|n IHn]; intros l H; [exact H|]. destruct l as [|y l]; [destruct H|].
    right. apply IHn. exact H.
Qed.

Lemma In_firstn {A} n (l : list A) x : In x (firstn n l) -> In x l.
Proof.
  revert l; induction n as [|n IH]; intros l H; [destruct H|]. destruct l as [|y l]; [destruct H|].
  destruct H as [->|H]; [left; reflexivity | right; apply IH; exact H].
Qed.

Lemma map_repeat {X Y} (f : X -> Y) x n : map f (repeat x n) = repeat (f x) n.
Proof. induction n as [|n IH]; cbn; [reflexivity | rewrite IH; reflexivity]. Qed.

Lemma Bk_map (done : list occ) : map fst (Bk opo opu done) = Bk pops pushes (map fst done).
Proof.
  induction done as [|[e m] r IH]; cbn [Bk map]; [reflexivity|].
  rewrite map_app, map_repeat. rewrite <- skipn_map. cbn [opo opu fst].
  f_equal. f_equal. exact IH.
Qed.

Lemma fst_unique (l : list occ) a x y : NoDup (map fst l) -> In (a, x) l -> In (a, y) l -> x = y.
Proof.
  induction l as [|[b m] r IH]; intros Hn Hx Hy; [destruct Hx|].
  cbn [map fst] in Hn. inversion Hn as [|? ? Hnot Hr]; subst.
  destruct Hx as [Ex|Hx], Hy as [Ey|Hy].
  - congruence.
  - inversion Ex; subst. exfalso. apply Hnot. change a with (fst (a, y)). apply in_map. exact Hy.
  - inversion Ey; subst. exfalso. apply Hnot. change a with (fst (a, x)). apply in_map. exact Hx.
  - apply IH; assumption.
Qed.

Record Inv (done : list occ) (s : st) : Prop := mkInv {
  I_fr : exists fa rest, frames s = mkF (Bm done) fa :: rest;
  I_sim : sim s = true;
  I_plain : Forall (fun x : occ => is_store (fst x) = false /\ is_access (fst x) = false) done;
  I_nd : NoDup (map fst done);
  I_m1 : forall e, In (e, true) done -> In e (in_slice s);
  I_m2 : forall e, In e (in_slice s) -> In (e, true) done;
  I_pend : forall pre j post k, done = pre ++ (j, true) :: post -> uses_key j k ->
           (forall x, In x pre -> ~ defs_key (fst x) k) -> key_in k s;
  I_hd : forall pre i mi mid j post k, done = pre ++ (i, mi) :: mid ++ (j, true) :: post ->
           defs_key i k -> uses_key j k -> (forall x, In x mid -> ~ defs_key (fst x) k) -> mi = true;
  I_hs : forall pre i mi rest j, done = pre ++ (i, mi) :: rest ->
           In j (firstn (pushes i) (Bk pops pushes (map fst rest))) -> In (j, true) rest -> mi = true }.

Lemma Bm_plain done :
  Forall (fun x : occ => is_store (fst x) = false /\ is_access (fst x) = false) done -> Forall plain (Bm done).
Proof.
  intro H. unfold Bm. apply Forall_forall. intros t Ht. apply in_map_iff in Ht.
  destruct Ht as (o & <- & Ho). apply Bk_incl in Ho. rewrite Forall_forall in H.
  apply H in Ho. exact Ho.
Qed.

Lemma existsb_Bm n done :
  existsb e_in (firstn n (Bm done)) = existsb snd (firstn n (Bk opo opu done)).
Proof.
  unfold Bm. rewrite firstn_map. generalize (firstn n (Bk opo opu done)) as l.
  induction l as [|o l IH]; cbn; [reflexivity|]. rewrite IH. reflexivity.
Qed.

Lemma inv_step t done s e s' :
  Inv done s -> frag_instr e = true -> ~ In e (map fst done) -> step t s e = Some s' ->
  exists m, Inv ((e, m) :: done) s'.
Proof.
  intros [Hfr Hsim Hpl Hnd Hm1 Hm2 Hpend Hhd Hhs] Hf Hnew H.
  destruct Hfr as (fa & rest & Hfr).
  destruct (step_frag t s e _ _ _ _ Hf Hsim Hfr (Bm_plain _ Hpl) H) as (edep & Hedep & HF & HS & HI & HL & HG).
  rewrite existsb_Bm in HF, HI, HL, HG.
  set (cis := edep || existsb snd (firstn (pushes e) (Bk opo opu done))) in *.
  destruct (frag_flags e Hf) as (_ & _ & _ & _ & _ & Fst & Fac).
  exists cis. constructor.
  - exists (attr_vars s), rest. rewrite HF. unfold Bm. cbn [Bk]. rewrite map_app, map_repeat, <- skipn_map.
    reflexivity.
  - exact HS.
  - constructor; [cbn; split; assumption | exact Hpl].
  - cbn [map fst]. constructor; assumption.
  - intros x [Hx|Hx].
    + injection Hx as E1 E2. rewrite HI, E2. left; exact E1.
    + rewrite HI. apply Hm1 in Hx. destruct cis; [right|]; exact Hx.
  - intros x Hx. rewrite HI in Hx. destruct cis eqn:Ec.
    + destruct Hx as [<-|Hx]; [left; reflexivity | right; apply Hm2; exact Hx].
    + right; apply Hm2; exact Hx.
  - intros pre j post k Hd Hu Hno. unfold key_in. rewrite HL, HG.
    destruct pre as [|p pre'].
    + cbn [app] in Hd. injection Hd as E1 E2 E3. subst j. rewrite E2. destruct Hu as [Hu Hk]. rewrite Hu.
      cbn [andb]. apply add_adds. exact Hk.
    + cbn [app] in Hd. injection Hd as E1 E2. subst p.
      assert (K : key_in k s).
      { eapply Hpend; [exact E2 | exact Hu|]. intros x Hx. apply Hno. right; exact Hx. }
      assert (Nd : ~ defs_key e k) by (apply (Hno (e, cis)); left; reflexivity).
      pose proof (rem_keeps e s k Nd K) as R.
      destruct (cis && is_use e); [apply add_keeps; exact R | exact R].
  - intros pre i mi mid j post k Hd Hdef Hu Hno.
    destruct pre as [|p pre'].
    + cbn [app] in Hd. injection Hd as E1 E2 E3. subst i.
      assert (K : key_in k s) by (eapply Hpend; [exact E3 | exact Hu | exact Hno]).
      rewrite <- E2. unfold cis. rewrite (Hedep k Hdef K). reflexivity.
    + cbn [app] in Hd. injection Hd as E1 E2. eapply Hhd; eassumption.
  - intros pre i mi rest' j Hd Hj Hjt.
    destruct pre as [|p pre'].
    + cbn [app] in Hd. injection Hd as E1 E2 E3. subst i rest'. rewrite <- E2.
      rewrite <- Bk_map, firstn_map in Hj. apply in_map_iff in Hj. destruct Hj as ([j' mj] & Ej & Hj).
      cbn [fst] in Ej. subst j'.
      assert (Hjd : In (j, mj) done) by (eapply Bk_incl, In_firstn; exact Hj).
      assert (mj = true) by (eapply fst_unique; eassumption). subst mj.
      unfold cis. replace (existsb snd (firstn (pushes e) (Bk opo opu done))) with true; [apply orb_true_r|].
      symmetry. apply existsb_exists. exists (j, true). split; [exact Hj | reflexivity].
    + cbn [app] in Hd. injection Hd as E1 E2. eapply Hhs; eassumption.
Qed.

Lemma pop_n_nil n acc : pop_n n [] acc = ([], acc).
Proof. induction n as [|n IH]; cbn [pop_n pop_one]; [reflexivity | exact IH]. Qed.

Lemma inv_init t c s0 :
  init t c = Some s0 -> is_store c = false -> is_access c = false -> is_use c = false ->
  Inv [(c, true)] s0.
Proof.
  unfold init. intros H Hs Ha Hu.
  unfold init_frames, DEFAULT_STACK_HEIGHT in H. cbn [repeat] in H.
  unfold update_push in H. cbn [blk fattrs empty_frame] in H. rewrite pop_n_nil in H.
  unfold update_pop in H. cbn [blk fattrs] in H. inversion H; subst s0; clear H.
  pose proof (ac_fields t c (mkS [c] [] [] [] [] [] []
     (mkF (repeat (entry_of c true) (pops c) ++ []) [] ::
      repeat empty_frame 39) [] false true)) as AC.
  cbn zeta in AC. cbn [repeat] in AC. destruct AC as (B1 & B2 & B3 & B4 & B5).
  constructor.
  - eexists _, _. rewrite B2. unfold Bm. cbn [Bk]. rewrite map_app, map_repeat.
    assert (X : skipn (opu (c, true)) (@nil occ) = []) by (destruct (opu (c, true)); reflexivity).
    rewrite X. cbn [map]. reflexivity.
  - rewrite B3. reflexivity.
  - constructor; [cbn; split; assumption | constructor].
  - cbn. constructor; [intros [] | constructor].
  - intros e [He|[]]. inversion He; subst. rewrite B1. left; reflexivity.
  - intros e He. rewrite B1 in He. destruct He as [<-|[]]. left; reflexivity.
  - intros pre j post k Hd [Hju _]. destruct pre as [|p pre]; cbn [app] in Hd.
    + inversion Hd; subst. congruence.
    + inversion Hd as [[Hp Hr]]. destruct pre; discriminate.
  - intros pre i mi mid j post k Hd. exfalso.
    apply (f_equal (@length occ)) in Hd. rewrite app_length in Hd. cbn [length] in Hd.
    rewrite app_length in Hd. cbn [length] in Hd. lia.
  - intros pre i mi rest j Hd _ _. destruct pre as [|p pre]; cbn [app] in Hd.
    + inversion Hd; reflexivity.
    + inversion Hd as [[Hp Hr]]. destruct pre; discriminate.
Qed.

Lemma inv_run t flow : forall done s s',
  Inv done s -> forallb frag_instr flow = true -> NoDup (rev flow ++ map fst done) ->
  run t s flow = Some s' ->
  exists done', Inv done' s' /\ map fst done' = rev flow ++ map fst done /\ (exists p, done' = p ++ done).
Proof.
  induction flow as [|e r IH]; intros done s s' HI Hf Hn H; cbn [run] in H.
  - inversion H; subst. exists done. split; [exact HI | split; [reflexivity | exists []; reflexivity]].
  - destruct (step t s e) as [s1|] eqn:E; [|discriminate].
    cbn [forallb] in Hf. apply andb_prop in Hf. destruct Hf as [Hfe Hfr].
    cbn [rev] in Hn. rewrite <- app_assoc in Hn. cbn [app] in Hn.
    assert (Hnew : ~ In e (map fst done)).
    { apply NoDup_remove_2 in Hn. intro X. apply Hn. apply in_or_app. right; exact X. }
    destruct (inv_step t done s e s1 HI Hfe Hnew E) as (m & HI1).
    destruct (IH ((e, m) :: done) s1 s' HI1 Hfr Hn H) as (done' & HI' & Hmap & (p & Hp)).
    exists done'. split; [exact HI'|]. split.
    + rewrite Hmap. cbn [rev map fst]. rewrite <- app_assoc. reflexivity.
    + exists (p ++ [(e, m)]). rewrite <- app_assoc. exact Hp.
Qed.

Lemma Ed_hist {A} (po pu : A -> nat) tr a b :
  In (a, b) (Ed po pu tr) ->
  exists pre rest, tr = pre ++ b :: rest /\ In a (firstn (pu b) (Bk po pu rest)).
Proof.
  induction tr as [|e r IH]; cbn [Ed]; [intros []|]. intro H. apply in_app_or in H. destruct H as [H|H].
  - pose proof (in_combine_l _ _ _ _ H) as Ha. pose proof (in_combine_r _ _ _ _ H) as Hb.
    apply repeat_spec in Hb. subst b. exists [], r. split; [reflexivity | exact Ha].
  - destruct (IH H) as (pre & rest & -> & Hin). exists (e :: pre), rest. split; [reflexivity | exact Hin].
Qed.

Lemma memZ_cons x y l : memZ x (y :: l) = (x =? y) || memZ x l.
Proof. reflexivity. Qed.

Lemma dedup_keeps l : forall seen x,
  In x l -> memZ (uid x) seen = false -> exists y, In y (dedup seen l) /\ uid y = uid x.
Proof.
  induction l as [|e r IH]; intros seen x Hx Hs; [destruct Hx|]. cbn [dedup].
  destruct Hx as [->|Hx].
  - rewrite Hs. exists x. split; [left; reflexivity | reflexivity].
  - destruct (memZ (uid e) seen) eqn:Es.
    + apply IH; assumption.
    + destruct (uid x =? uid e) eqn:Eu.
      * apply Z.eqb_eq in Eu. exists e. split; [left; reflexivity | symmetry; exact Eu].
      * destruct (IH (uid e :: seen) x Hx) as (y & Hy & Hu).
        { rewrite memZ_cons, Eu, Hs. reflexivity. }
        exists y. split; [right; exact Hy | exact Hu].
Qed.

Lemma map_inj_on {X Y} (f : X -> Y) l x y :
  NoDup (map f l) -> In x l -> In y l -> f x = f y -> x = y.
Proof.
  induction l as [|a r IH]; intros Hn Hx Hy E; [destruct Hx|].
  cbn [map] in Hn. inversion Hn as [|? ? Hnot Hr]; subst.
  destruct Hx as [->|Hx], Hy as [->|Hy].
  - reflexivity.
  - exfalso. apply Hnot. rewrite E. apply in_map. exact Hy.
  - exfalso. apply Hnot. rewrite <- E. apply in_map. exact Hx.
  - apply IH; assumption.
Qed.

(* one dependence step: whatever an instruction of the slice depends on is in the slice *)
Theorem slice_closed_step t c flow sl :
  forallb frag_instr flow = true -> is_store c = false -> is_access c = false -> is_use c = false ->
  NoDup (map uid (rev flow ++ [c])) ->
  slice t c flow = Some sl ->
  In c sl /\ forall j i, In j sl -> ddep (rev flow ++ [c]) j i -> In i sl.
Proof.
  intros Hf Hcs Hca Hcu Hnd Hsl. unfold slice in Hsl.
  destruct (init t c) as [s0|] eqn:E0; [|discriminate].
  destruct (run t s0 flow) as [s|] eqn:E1; [|discriminate].
  inversion Hsl; subst sl; clear Hsl.
  pose proof (inv_init t c s0 E0 Hcs Hca Hcu) as HI0.
  assert (Hnd' : NoDup (rev flow ++ map fst [(c, true)])) by (cbn [map fst]; eapply NoDup_map_inv; exact Hnd).
  destruct (inv_run t flow _ _ _ HI0 Hf Hnd' E1) as (done & HI & Hmap & (p & Hp)).
  cbn [map fst] in Hmap.
  destruct HI as [_ _ _ Hndd Hm1 Hm2 _ Hhd Hhs].
  assert (marked : forall i, In (i, true) done -> In i (dedup [] (in_slice s))).
  { intros i Hi. pose proof (Hm1 i Hi) as Hin.
    destruct (dedup_keeps (in_slice s) [] i Hin eq_refl) as (y & Hy & Hu).
    assert (Hyd : In (y, true) done) by (apply Hm2; eapply dedup_incl; exact Hy).
    assert (y = i).
    { apply (map_inj_on uid (rev flow ++ [c])); [exact Hnd | | | exact Hu];
        rewrite <- Hmap; [change y with (fst (y, true)) | change i with (fst (i, true))]; apply in_map; assumption. }
    subst y. exact Hy. }
  split.
  { apply marked. rewrite Hp. apply in_or_app. right. left. reflexivity. }
  intros j i Hj Hdep.
  assert (Hjt : In (j, true) done) by (apply Hm2; eapply dedup_incl; exact Hj).
  destruct Hdep as [pre i mid j post k Htr Hdef Huse Hno | j i Hst].
  - rewrite Htr in Hmap.
    apply map_eq_app in Hmap. destruct Hmap as (d1 & d2 & -> & M1 & M2).
    apply map_eq_cons in M2. destruct M2 as ([i' mi] & d3 & -> & Ei & M3). cbn [fst] in Ei. subst i'.
    apply map_eq_app in M3. destruct M3 as (dmid & d4 & -> & M4 & M5).
    apply map_eq_cons in M5. destruct M5 as ([j' mj] & dpost & -> & Ej & M6). cbn [fst] in Ej. subst j'.
    assert (mj = true).
    { eapply (fst_unique _ j); [exact Hndd | | exact Hjt].
      apply in_or_app. right. right. apply in_or_app. right. left. reflexivity. }
    subst mj. apply marked.
    assert (mi = true).
    { eapply (Hhd d1 i mi dmid j dpost k); [reflexivity | exact Hdef | exact Huse|].
      intros x Hx. apply Hno. rewrite <- M4. apply in_map. exact Hx. }
    subst mi. apply in_or_app. right. left. reflexivity.
  - apply (stack_producer pops pushes) in Hst. apply Ed_hist in Hst.
    destruct Hst as (pre & rest & Htr & Hin).
    rewrite Htr in Hmap.
    apply map_eq_app in Hmap. destruct Hmap as (d1 & d2 & -> & M1 & M2).
    apply map_eq_cons in M2. destruct M2 as ([i' mi] & drest & -> & Ei & M3). cbn [fst] in Ei. subst i'.
    apply marked.
    assert (mi = true).
    { assert (Hjr : In j (map fst drest)).
      { rewrite M3. eapply Bk_incl, In_firstn. exact Hin. }
      apply in_map_iff in Hjr. destruct Hjr as ([j' mj] & Ej & Hjr). cbn [fst] in Ej. subst j'.
      assert (mj = true).
      { eapply (fst_unique _ j); [exact Hndd | | exact Hjt].
        apply in_or_app. right. right. exact Hjr. }
      subst mj.
      eapply (Hhs d1 i mi drest j); [reflexivity | rewrite M3; exact Hin | exact Hjr]. }
    subst mi. apply in_or_app. right. left. reflexivity.
Qed.

(* soundness on the straight-line fragment: everything the criterion transitively depends on *)
Theorem slice_closed_partial t c flow sl :
  forallb frag_instr flow = true -> is_store c = false -> is_access c = false -> is_use c = false ->
  NoDup (map uid (rev flow ++ [c])) ->
  slice t c flow = Some sl ->
  forall i, ddep_star (rev flow ++ [c]) c i -> In i sl.
Proof.
  intros Hf Hcs Hca Hcu Hnd Hsl i Hstar.
  destruct (slice_closed_step t c flow sl Hf Hcs Hca Hcu Hnd Hsl) as [Hc Hstep].
  revert Hc. induction Hstar as [a | a b d Hab IH Hbd]; intro Ha; [exact Ha|].
  eapply Hstep; [apply IH; exact Ha | exact Hbd].
Qed.

(* the TraceStack of the model is the backward simulation [Bk] of the executed trace, and an
   instruction is marked exactly when it is in the slice *)
Theorem trace_stack_simulation t c flow s0 s :
  forallb frag_instr flow = true -> is_store c = false -> is_access c = false -> is_use c = false ->
  NoDup (rev flow ++ [c]) ->
  init t c = Some s0 -> run t s0 flow = Some s ->
  exists done fa rest,
    map fst done = rev flow ++ [c] /\
    frames s = mkF (map ent (Bk opo opu done)) fa :: rest /\
    (forall e, In (e, true) done <-> In e (in_slice s)).
Proof.
  intros Hf Hcs Hca Hcu Hnd E0 E1.
  pose proof (inv_init t c s0 E0 Hcs Hca Hcu) as HI0.
  destruct (inv_run t flow _ _ _ HI0 Hf Hnd E1) as (done & HI & Hmap & _).
  destruct HI as [(fa & rest & Hfr) _ _ _ Hm1 Hm2 _ _ _].
  exists done, fa, rest. split; [exact Hmap | split; [exact Hfr|]].
  intro e; split; [apply Hm1 | apply Hm2].
Qed.

(* ================================================================================================ *)
(* 5. Non-vacuity examples and the refutation of the unrestricted closure                           *)
(* ================================================================================================ *)
Module Ex.
  (*   x = 7          LOAD_CONST 7 ; STORE_FAST x
       y = 1          LOAD_CONST 1 ; STORE_FAST y      (irrelevant)
       return x       LOAD_FAST x  ; RETURN_VALUE      (criterion)                                  *)
  Definition ins (u : Z) (po pu : nat) (d us : bool) (m : meminfo) : einstr :=
    mkI u 4 0 2 u false po pu d us false false false false false false false false false m.
  Definition i_const7 := ins 1 0 1 false false MNone.
  Definition i_storex := ins 2 1 0 true false (MVar false 10 4 100 false true).
  Definition i_const1 := ins 3 0 1 false false MNone.
  Definition i_storey := ins 4 1 0 true false (MVar false 11 4 101 false true).
  Definition i_loadx := ins 5 0 1 false true (MVar false 10 4 100 false false).
  Definition i_ret := ins 6 1 0 false false MNone.
  Definition flow := [i_loadx; i_storey; i_const1; i_storex; i_const7].   (* newest first *)

  Example slice_value : slice [] i_ret flow = Some [i_const7; i_storex; i_loadx; i_ret].
  Proof. vm_compute. reflexivity. Qed.

  Example hyps :
    forallb frag_instr flow = true /\ is_store i_ret = false /\ is_access i_ret = false /\
    is_use i_ret = false /\ NoDup (map uid (rev flow ++ [i_ret])).
  Proof.
    repeat split; try reflexivity. cbn.
    repeat (constructor; [cbn; intuition discriminate|]). constructor.
  Qed.

  Example dep_chain : ddep_star (rev flow ++ [i_ret]) i_ret i_const7.
  Proof.
    eapply dds_step; [eapply dds_step; [eapply dds_step; [apply dds_refl|]|]|].
    - apply dd_stack. vm_compute. right. right. left. reflexivity.       (* RETURN_VALUE consumes LOAD_FAST x *)
    - apply (dd_data _ [i_const7] i_storex [i_const1; i_storey] i_loadx [i_ret] (false, 10, 4)).
      + reflexivity.
      + split; reflexivity.
      + split; reflexivity.
      + intros x [<-|[<-|[]]] [Hd Hk]; discriminate.
    - apply dd_stack. vm_compute. left. reflexivity.                      (* STORE_FAST x consumes LOAD_CONST 7 *)
  Qed.

  Example checked_lines_value :
    model_lines [(0, (2, 1)); (1, (2, 2)); (7, (2, 5)); (8, (2, 6))] 0 [i_const7; i_storex; i_loadx; i_ret]
    = Some [0; 1; 7; 8].
  Proof. vm_compute. reflexivity. Qed.

  (* Outside the fragment the closure fails: the operand of a (non-method) attribute access is taken
     into the slice, but its uses are not followed (include_use = False), so the definition of the
     variable that names the object is lost:   q = o ; return q.w                                   *)
  Definition a_loado := ins 1 0 1 false true (MVar false 20 4 200 true false).
  Definition a_storeq := ins 2 1 0 true false (MVar false 21 4 200 true false).
  Definition a_loadq := ins 3 0 1 false true (MVar false 21 4 200 true false).
  Definition a_loadattr : einstr :=
    mkI 4 4 0 2 4 false 1 1 false true false false false false true false false false false (MAttr 30 200 300 false false).
  Definition a_ret := ins 5 1 0 false false MNone.
  Definition aflow := [a_loadattr; a_loadq; a_storeq; a_loado].

  Example attr_slice : slice [] a_ret aflow = Some [a_loadq; a_loadattr; a_ret].
  Proof. vm_compute. reflexivity. Qed.
End Ex.

Theorem slice_closed_refuted :
  exists t c flow sl j i,
    slice t c flow = Some sl /\ NoDup (map uid (rev flow ++ [c])) /\
    In j sl /\ ddep (rev flow ++ [c]) j i /\ ~ In i sl.
Proof.
  exists [], Ex.a_ret, Ex.aflow, [Ex.a_loadq; Ex.a_loadattr; Ex.a_ret], Ex.a_loadq, Ex.a_storeq.
  split; [exact Ex.attr_slice|]. split.
  { cbn. repeat (constructor; [cbn; intuition discriminate|]). constructor. }
  split; [left; reflexivity|]. split.
  - apply (dd_data _ [Ex.a_loado] Ex.a_storeq [] Ex.a_loadq [Ex.a_loadattr; Ex.a_ret] (false, 21, 4)).
    + reflexivity.
    + split; reflexivity.
    + split; reflexivity.
    + intros x [].
  - intros [H|[H|[H|[]]]]; discriminate.
Qed.
