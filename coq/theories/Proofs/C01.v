(* C01 — proofs. *)
From Coq Require Import List ZArith Bool Lia.
From Verif Require Import Models.C01.
Import ListNotations. Import C01.

(* ------------------------------------------------------------------------------------------ *)
(* Model A: consequences of the per-snippet contract *)

Lemma snippet_neutral : forall s, snippet_ok s -> s_orig s = None ->
  forall (V : Type) (st : stack V), need s <= length st ->
    exists evs, exec (s_code s) st = Some (st, evs).
Proof.
  intros s Hok Ho V st Hn. destruct (Hok V st Hn) as [evs [_ He]].
  exists evs. rewrite He. unfold expected_stack. rewrite Ho. reflexivity.
Qed.

Lemma orig_alone : forall V p q (st : stack V), p <= length st ->
  exec [ORIG p q] st = Some (results q (rev (firstn p st)) ++ skipn p st, [EOrig (rev (firstn p st))]).
Proof.
  intros V p q st H. cbn [exec step].
  destruct (Nat.ltb (length st) p) eqn:E; [apply Nat.ltb_lt in E; lia|]. reflexivity.
Qed.

Lemma override_same_effect : forall s p q, snippet_ok s -> s_orig s = Some (p, q) ->
  forall (V : Type) (st : stack V), need s <= length st ->
    exists st' evs args,
      exec (s_code s) st = Some (st', evs) /\
      exec [ORIG p q] st = Some (st', [EOrig args]) /\
      In (EOrig args) evs.
Proof.
  intros s p q Hok Ho V st Hn. destruct (Hok V st Hn) as [evs [Hev He]].
  assert (Hp : p <= length st).
  { unfold need in Hn. rewrite Ho in Hn. lia. }
  exists (expected_stack s st), evs, (rev (firstn p st)). split; [exact He|]. split.
  - rewrite (orig_alone V p q st Hp). unfold expected_stack. rewrite Ho. reflexivity.
  - unfold expected_events in Hev.
    destruct (expected_args (s_action s) (pushes s) st (s_args s) 1%N) as [l|]; [|discriminate].
    injection Hev as <-. unfold orig_args. rewrite Ho.
    apply in_or_app. right. apply in_or_app. left. left. reflexivity.
Qed.

Lemma filter_app' : forall A (f : A -> bool) l1 l2, filter f (l1 ++ l2) = filter f l1 ++ filter f l2.
Proof. intros. induction l1 as [|x r IH]; simpl; [reflexivity|]. destruct (f x); simpl; rewrite IH; reflexivity. Qed.

Lemma reads_no_call : forall V args, filter (@is_call V) (reads args) = [].
Proof.
  intros V args. induction args as [|a r IH]; simpl; [reflexivity|].
  destruct a; simpl; assumption.
Qed.

Lemma reads_no_userop : forall V args, filter (@is_user_op V) (reads args) = [].
Proof.
  intros V args. induction args as [|a r IH]; simpl; [reflexivity|].
  destruct a; simpl; assumption.
Qed.

Lemma user_ops_no_call : forall V a (st : stack V), filter is_call (user_ops a st) = [].
Proof. intros V a st. destruct a; simpl; try reflexivity; destruct st as [|b [|c r]]; reflexivity. Qed.

(* exactly one call, of the method loaded from constant 0 (the tracer / the constant provider),
   and its arguments are the intended cells *)
Lemma snippet_args : forall s, snippet_ok s ->
  forall (V : Type) (st : stack V), need s <= length st ->
    exists evs st' l,
      exec (s_code s) st = Some (st', evs) /\
      expected_args (s_action s) (pushes s) st (s_args s) 1%N = Some l /\
      filter is_call evs = [ECall 0%N l].
Proof.
  intros s Hok V st Hn. destruct (Hok V st Hn) as [evs [Hev He]].
  unfold expected_events in Hev.
  destruct (expected_args (s_action s) (pushes s) st (s_args s) 1%N) as [l|] eqn:El; [|discriminate].
  injection Hev as <-. eexists _, _, l. split; [exact He|]. split; [reflexivity|].
  rewrite !filter_app', user_ops_no_call, reads_no_call.
  destruct (s_orig s); reflexivity.
Qed.

Lemma stack_args_intended : forall V a q (st : stack V) args k l n i,
  expected_args a q st args k = Some l -> nth_error args n = Some (AStack i) ->
  exists v, intended a q i st = Some v /\ nth_error l n = Some v.
Proof.
  intros V a q st args. induction args as [|x r IH]; intros k l n i He Hn.
  - destruct n; discriminate.
  - destruct n as [|n].
    + simpl in Hn. injection Hn as ->. simpl in He.
      destruct (intended a q i st) as [v|]; [|discriminate].
      destruct (expected_args a q st r k) as [l'|]; [|discriminate]. injection He as <-.
      exists v. split; reflexivity.
    + simpl in Hn. simpl in He.
      destruct x.
      * destruct (expected_args a q st r (N.succ k)) as [l'|] eqn:E; [|discriminate]. injection He as <-.
        apply (IH _ _ _ _ E Hn).
      * destruct (intended a q i0 st); [|discriminate].
        destruct (expected_args a q st r k) as [l'|] eqn:E; [|discriminate]. injection He as <-.
        apply (IH _ _ _ _ E Hn).
      * destruct (expected_args a q st r k) as [l'|] eqn:E; [|discriminate]. injection He as <-.
        apply (IH _ _ _ _ E Hn).
      * destruct (expected_args a q st r k) as [l'|] eqn:E; [|discriminate]. injection He as <-.
        apply (IH _ _ _ _ E Hn).
Qed.

(* a snippet whose action is not ADD_* applies no operator to subject values *)
Lemma snippet_observes_only : forall s, snippet_ok s -> adds (s_action s) = false ->
  forall (V : Type) (st : stack V), need s <= length st ->
    exists evs st', exec (s_code s) st = Some (st', evs) /\ filter is_user_op evs = [].
Proof.
  intros s Hok Ha V st Hn. destruct (Hok V st Hn) as [evs [Hev He]].
  unfold expected_events in Hev.
  destruct (expected_args (s_action s) (pushes s) st (s_args s) 1%N) as [l|]; [|discriminate].
  injection Hev as <-. eexists _, _. split; [exact He|].
  rewrite !filter_app', reads_no_userop.
  assert (user_ops (s_action s) st = []) as ->.
  { destruct (s_action s); try reflexivity; discriminate. }
  destruct (s_orig s); reflexivity.
Qed.

(* generic tactic used by the regenerated file: symbolic evaluation on a stack whose first cells
   are universally quantified *)
Ltac snippet_tac :=
  let V := fresh "V" in let st := fresh "st" in let H := fresh "H" in
  intros V st H;
  destruct st as [|? [|? [|? [|? st]]]];
  cbn in H; try lia; eexists; split; reflexivity.

(* non-vacuity: the compare probe as the 3.12 generator emits it *)
Definition ex_compare : snippet :=
  {| s_action := COPY_FIRST_TWO; s_args := [AStack 2; AStack 1; AConst; AConst]; s_orig := None;
     s_code := [LOAD_CONST 0; LOAD_METHOD; COPY 4; COPY 4; LOAD_CONST 1; LOAD_CONST 2; CALL 4; POP_TOP] |}.
Example ex_compare_ok : snippet_ok ex_compare.
Proof. unfold snippet_ok. snippet_tac. Qed.

Definition ex_store_subscr : snippet :=
  {| s_action := COPY_SECOND_SHIFT_DOWN_THREE; s_args := [AConst; AStack 1]; s_orig := Some (3, 0);
     s_code := [COPY 2; SWAP 4; SWAP 3; SWAP 2; ORIG 3 0; LOAD_CONST 0; LOAD_METHOD; LOAD_CONST 1; COPY 4;
                CALL 2; POP_TOP; POP_TOP] |}.
Example ex_store_subscr_ok : snippet_ok ex_store_subscr.
Proof. unfold snippet_ok. snippet_tac. Qed.

(* the seeding probe of startswith before the repair: it applies + to two subject cells *)
Definition old_startswith : snippet :=
  {| s_action := ADD_FIRST_TWO_REVERSED; s_args := [AStack 1]; s_orig := None;
     s_code := [COPY 1; COPY 3; BINARY_ADD; LOAD_CONST 0; LOAD_METHOD; COPY 3; CALL 1; POP_TOP; POP_TOP] |}.
Example old_startswith_ok : snippet_ok old_startswith.
Proof. unfold snippet_ok. snippet_tac. Qed.
Lemma old_startswith_applies_operator :
  exists (st : stack nat) st' evs, exec (s_code old_startswith) st = Some (st', evs) /\
                                   In (EUserOp (SUT 0) (SUT 1)) evs.
Proof. exists [SUT 0; SUT 1]. eexists _, _. split; [reflexivity|]. left. reflexivity. Qed.

(* ------------------------------------------------------------------------------------------ *)
(* Model A': placement *)

Lemma pos_spec : forall A (l : list (relem A)) n p, pos l n = Some p ->
  exists l1 x l2, l = l1 ++ RI x :: l2 /\ length l1 = p /\ instrs l1 = firstn n (instrs l) /\
                  length (instrs l1) = n /\ nth_error (instrs l) n = Some x.
Proof.
  intros A l. induction l as [|e r IH]; intros n p H; simpl in H; [discriminate|].
  destruct e as [a|k].
  - destruct n as [|m].
    + injection H as <-. exists [], a, r. repeat split.
    + destruct (pos r m) as [p'|] eqn:E; [|discriminate]. injection H as <-.
      destruct (IH m p' E) as [l1 [x [l2 [-> [Hl [Hi [Hn Hx]]]]]]].
      exists (RI a :: l1), x, l2. simpl.
      split; [reflexivity|]. split; [rewrite Hl; reflexivity|]. split; [rewrite Hi; reflexivity|].
      split; [rewrite Hn; reflexivity|exact Hx].
  - destruct (pos r n) as [p'|] eqn:E; [|discriminate]. injection H as <-.
    destruct (IH n p' E) as [l1 [x [l2 [-> [Hl [Hi [Hn Hx]]]]]]].
    exists (RP k :: l1), x, l2. simpl.
    split; [reflexivity|]. split; [rewrite Hl; reflexivity|]. split; [exact Hi|]. split; [exact Hn|exact Hx].
Qed.

Lemma pos_total : forall A (l : list (relem A)) n, n < length (instrs l) -> exists p, pos l n = Some p.
Proof.
  intros A l. induction l as [|e r IH]; intros n H; simpl in H; [lia|].
  destruct e as [a|k]; simpl in *.
  - destruct n as [|m]; [eauto|]. destruct (IH m) as [p Hp]; [lia|]. rewrite Hp. simpl. eauto.
  - destruct (IH n H) as [p Hp]. rewrite Hp. simpl. eauto.
Qed.

Lemma instrs_app : forall A (l1 l2 : list (relem A)), instrs (l1 ++ l2) = instrs l1 ++ instrs l2.
Proof.
  intros A l1 l2. induction l1 as [|e r IH]; simpl; [reflexivity|].
  destruct e; simpl; rewrite IH; reflexivity.
Qed.

Lemma instrs_map_RI : forall A (s : list A), instrs (map RI s) = s.
Proof. intros A s. induction s as [|x r IH]; simpl; [reflexivity|]. rewrite IH. reflexivity. Qed.

Lemma firstn_len_app : forall A (l1 l2 : list A), firstn (length l1) (l1 ++ l2) = l1.
Proof. intros A l1 l2. induction l1 as [|x r IH]; simpl; [reflexivity|]. rewrite IH. reflexivity. Qed.

Lemma skipn_len_app : forall A (l1 l2 : list A), skipn (length l1) (l1 ++ l2) = l2.
Proof. intros A l1 l2. induction l1 as [|x r IH]; simpl; [reflexivity|]. exact IH. Qed.

Lemma skipn_Slen_app : forall A (l1 l2 : list A) y, skipn (S (length l1)) (l1 ++ y :: l2) = l2.
Proof. intros A l1 l2 y. induction l1 as [|x r IH]; simpl; [reflexivity|]. exact IH. Qed.

Lemma firstn_Slen_app : forall A (l1 l2 : list A) y, firstn (S (length l1)) (l1 ++ y :: l2) = l1 ++ [y].
Proof. intros A l1 l2 y. induction l1 as [|x r IH]; simpl; [reflexivity|]. simpl in IH. rewrite IH. reflexivity. Qed.

Lemma splice_at : forall A (l1 l2 x : list A), splice (l1 ++ l2) (length l1) (length l1) x = l1 ++ x ++ l2.
Proof. intros A l1 l2 x. unfold splice. rewrite firstn_len_app, skipn_len_app. reflexivity. Qed.

Lemma splice_after : forall A (l1 l2 x : list A) y,
  splice (l1 ++ y :: l2) (S (length l1)) (S (length l1)) x = l1 ++ y :: x ++ l2.
Proof.
  intros A l1 l2 x y. unfold splice. rewrite firstn_Slen_app, skipn_Slen_app, <- app_assoc. reflexivity.
Qed.

Lemma splice_over : forall A (l1 l2 x : list A) y,
  splice (l1 ++ y :: l2) (length l1) (S (length l1)) x = l1 ++ x ++ l2.
Proof. intros A l1 l2 x y. unfold splice. rewrite firstn_len_app, skipn_Slen_app. reflexivity. Qed.

(* The statement of placement: with the index translated by [pos], the snippet lands immediately
   before the instruction the index was computed for; pseudo-instructions and all other
   instructions keep their places. *)
Lemma placed_before_target : forall A (l : list (relem A)) (i : Z) n x (snip : list A),
  norm (length (instrs l)) i = Some n -> nth_error (instrs l) n = Some x ->
  exists l1 l2, l = l1 ++ RI x :: l2 /\ length (instrs l1) = n /\
                insert_before l i snip = Some (l1 ++ map RI snip ++ RI x :: l2).
Proof.
  intros A l i n x snip Hn Hx. unfold insert_before, pos_z. rewrite Hn.
  destruct (pos_total A l n) as [p Hp]; [apply nth_error_Some; congruence|].
  rewrite Hp. destruct (pos_spec A l n p Hp) as [l1 [y [l2 [-> [Hl [_ [Hc Hy]]]]]]].
  assert (y = x) by congruence. subst y.
  exists l1, l2. repeat split; try assumption. simpl. rewrite <- Hl, splice_at. reflexivity.
Qed.

Lemma placed_after_target : forall A (l : list (relem A)) (i : Z) n x (snip : list A),
  norm (length (instrs l)) i = Some n -> nth_error (instrs l) n = Some x ->
  exists l1 l2, l = l1 ++ RI x :: l2 /\ length (instrs l1) = n /\
                insert_after l i snip = Some (l1 ++ RI x :: map RI snip ++ l2).
Proof.
  intros A l i n x snip Hn Hx. unfold insert_after, pos_z. rewrite Hn.
  destruct (pos_total A l n) as [p Hp]; [apply nth_error_Some; congruence|].
  rewrite Hp. destruct (pos_spec A l n p Hp) as [l1 [y [l2 [-> [Hl [_ [Hc Hy]]]]]]].
  assert (y = x) by congruence. subst y.
  exists l1, l2. repeat split; try assumption. simpl. rewrite <- Hl, splice_after. reflexivity.
Qed.

Lemma placed_over_target : forall A (l : list (relem A)) (i : Z) n x (snip : list A),
  norm (length (instrs l)) i = Some n -> nth_error (instrs l) n = Some x ->
  exists l1 l2, l = l1 ++ RI x :: l2 /\ length (instrs l1) = n /\
                override l i snip = Some (l1 ++ map RI snip ++ l2).
Proof.
  intros A l i n x snip Hn Hx. unfold override, pos_z. rewrite Hn.
  destruct (pos_total A l n) as [p Hp]; [apply nth_error_Some; congruence|].
  rewrite Hp. destruct (pos_spec A l n p Hp) as [l1 [y [l2 [-> [Hl [_ [Hc Hy]]]]]]].
  assert (y = x) by congruence. subst y.
  exists l1, l2. repeat split; try assumption. simpl. rewrite <- Hl, splice_over. reflexivity.
Qed.

(* consequently the instruction-only view is the ordinary list insertion the adapters reason with *)
Lemma before_view : forall A (l : list (relem A)) (i : Z) n x (snip : list A) l',
  norm (length (instrs l)) i = Some n -> nth_error (instrs l) n = Some x ->
  insert_before l i snip = Some l' ->
  instrs l' = firstn n (instrs l) ++ snip ++ skipn n (instrs l).
Proof.
  intros A l i n x snip l' Hn Hx Hi.
  destruct (placed_before_target A l i n x snip Hn Hx) as [l1 [l2 [-> [Hc Hr]]]].
  rewrite Hr in Hi. injection Hi as <-.
  rewrite !instrs_app, instrs_map_RI. cbn [instrs]. subst n.
  rewrite firstn_len_app, skipn_len_app. reflexivity.
Qed.

(* the unrepaired placement is wrong as soon as a pseudo-instruction precedes the target *)
Lemma raw_placement_refuted :
  exists (l : list (relem nat)) n x, nth_error (instrs l) n = Some x /\
    forall l1 l2, l = l1 ++ RI x :: l2 -> insert_before_raw l n [7] <> l1 ++ [RI 7] ++ RI x :: l2.
Proof.
  exists [RP 0; RI 1; RI 2], 1, 2. split; [reflexivity|].
  intros l1 l2 H Hr. destruct l1 as [|a [|b [|c l1]]]; simpl in H; try discriminate;
    cbv in Hr; try discriminate.
  injection H as _ _ H. destruct l1; discriminate.
Qed.

Example placement_nonvacuous :
  insert_before [RP 0; RI 1; RP 1; RI 2; RI 3] (-2)%Z [7; 8]
  = Some [RP 0; RI 1; RP 1; RI 7; RI 8; RI 2; RI 3].
Proof. reflexivity. Qed.

(* ------------------------------------------------------------------------------------------ *)
(* Model B': the provider never applies an operator or method to a value whose class may define it *)
Lemma provider_touches_builtins_only : forall e a b c, In c (touches e a b) -> user_defined c = false.
Proof.
  intros e a b c H. destruct e; simpl in H.
  - contradiction.
  - destruct a; simpl in H; try contradiction. destruct H as [<-|H]; [reflexivity|contradiction].
  - destruct a, b; simpl in H; try contradiction;
      repeat (destruct H as [<-|H]; [reflexivity|]); contradiction.
Qed.

Lemma provider_no_user_code : forall e a b, existsb user_defined (touches e a b) = false.
Proof. intros e a b. destruct e, a, b; reflexivity. Qed.

Lemma provider_keeps_builtin_behaviour :
  stores EAddConcat VStr VStr = true /\ stores EAddConcat VBytes VBytes = true /\
  stores EAddValue VStr = fun _ => true.
Proof. repeat split. Qed.
