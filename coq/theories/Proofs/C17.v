(* C17 — proofs about the search-loop / stopping-condition model (Models/C17.v). *)
From Coq Require Import List ZArith Bool Lia.
From Verif Require Import Models.C17.
Import ListNotations.
Import C17.
Open Scope Z_scope.

(* ---------- vocabulary of the statements ---------- *)
(* events that can only occur when an iteration has been started *)
Definition starts_iter (e : event) : bool :=
  match e with Exec | ExecEnd _ | IterEnd | IterStart => true | _ => false end.

(* [pre] (the events after SearchStart) ends at an iteration boundary, i.e. at the loop head *)
Definition at_head (hf : bool) (pre : list event) : Prop :=
  (hf = false /\ pre = []) \/ (exists p, pre = p ++ [IterEnd]) \/ (exists p, pre = p ++ [FirstIter]).

(* budget b is not yet reached by v *)
Definition below (o : option cond) (v : Z) : Prop := forall c, o = Some c -> v < lim c.
Definition reached (o : option cond) (v : Z) : Prop := exists c, o = Some c /\ lim c <= v.

(* o' is o with its counter advanced by d *)
Definition shifted (o o' : option cond) (d : Z) : Prop :=
  match o, o' with
  | Some c, Some c' => cnt c' = cnt c + d /\ lim c' = lim c
  | None, None => True
  | _, _ => False
  end.

Definition d_iter (e : event) : Z := match e with IterEnd => 1 | _ => 0 end.
Definition d_exec (e : event) : Z := match e with Exec => 1 | _ => 0 end.
Definition d_stmt (e : event) : Z := match e with ExecEnd k => k | _ => 0 end.

Lemma shifted_refl o : shifted o o 0.
Proof. destruct o as [c|]; cbn; [lia|exact I]. Qed.

Lemma shifted_trans o1 o2 o3 d1 d2 : shifted o1 o2 d1 -> shifted o2 o3 d2 -> shifted o1 o3 (d1 + d2).
Proof. destruct o1, o2, o3; cbn; try tauto; lia. Qed.

Lemma n_iter_cons e r : n_iter (e :: r) = d_iter e + n_iter r.
Proof. destruct e; reflexivity. Qed.
Lemma n_exec_cons e r : n_exec (e :: r) = d_exec e + n_exec r.
Proof. destruct e; reflexivity. Qed.
Lemma n_stmt_cons e r : n_stmt (e :: r) = d_stmt e + n_stmt r.
Proof. destruct e; reflexivity. Qed.

Lemma n_iter_app a b : n_iter (a ++ b) = n_iter a + n_iter b.
Proof. induction a as [|e r IH]; [reflexivity|]. cbn [app]. rewrite !n_iter_cons, IH. lia. Qed.

(* ---------- one step ---------- *)
Lemma step_effect hf st e st' :
  step hf st e = Some st' -> ph st <> PInit ->
  ph st' <> PInit /\
  shifted (c_iter (cs st)) (c_iter (cs st')) (d_iter e) /\
  shifted (c_test (cs st)) (c_test (cs st')) (d_exec e) /\
  shifted (c_stmt (cs st)) (c_stmt (cs st')) (d_stmt e).
Proof.
  intros Hs Hp. destruct st as [p [ci ct cm]]. cbn [ph cs] in *. unfold step in Hs. cbn [ph cs] in Hs.
  destruct p; [congruence| | | |];
    destruct e; try discriminate;
    try (destruct (resources_left _); [|discriminate]);
    inversion Hs; subst; clear Hs; cbn [ph cs c_iter c_test c_stmt on_exec on_exec_end on_iter_end
                                          d_iter d_exec d_stmt];
    (split; [discriminate|]); repeat split;
    try apply shifted_refl;
    try (destruct ci as [c|]; cbn; [lia|exact I]);
    try (destruct ct as [c|]; cbn; [lia|exact I]);
    try (destruct cm as [c|]; cbn; [lia|exact I]).
Qed.

Lemma run_app hf st a b :
  run hf st (a ++ b) = match run hf st a with Some st' => run hf st' b | None => None end.
Proof.
  revert st. induction a as [|e r IH]; intro st; cbn [app run]; [reflexivity|].
  destruct (step hf st e); [apply IH|reflexivity].
Qed.

Lemma run_effect hf : forall tr st st',
  run hf st tr = Some st' -> ph st <> PInit ->
  ph st' <> PInit /\
  shifted (c_iter (cs st)) (c_iter (cs st')) (n_iter tr) /\
  shifted (c_test (cs st)) (c_test (cs st')) (n_exec tr) /\
  shifted (c_stmt (cs st)) (c_stmt (cs st')) (n_stmt tr).
Proof.
  induction tr as [|e r IH]; intros st st' Hr Hp; cbn [run] in Hr.
  - inversion Hr; subst. repeat split; try exact Hp; apply shifted_refl.
  - destruct (step hf st e) as [st1|] eqn:Es; [|discriminate].
    destruct (step_effect _ _ _ _ Es Hp) as [Hp1 [S1 [S2 S3]]].
    destruct (IH _ _ Hr Hp1) as [Hp2 [R1 [R2 R3]]].
    rewrite n_iter_cons, n_exec_cons, n_stmt_cons.
    repeat split; [exact Hp2|eapply shifted_trans; eassumption..].
Qed.

(* the state right after before_search_start *)
Definition started (hf : bool) (s : conds) : state :=
  {| ph := if hf then PPop else PHead; cs := on_search_start s |}.

Lemma run_start hf s tr st :
  run hf (init s) tr = Some st -> tr <> [] ->
  exists r, tr = SearchStart :: r /\ run hf (started hf s) r = Some st.
Proof.
  intros Hr Hne. destruct tr as [|e r]; [congruence|]. cbn [run] in Hr.
  destruct e; cbn in Hr; try discriminate. exists r. split; [reflexivity|exact Hr].
Qed.

Lemma started_not_init hf s : ph (started hf s) <> PInit.
Proof. unfold started. cbn. destruct hf; discriminate. Qed.

Lemma started_zero hf s :
  shifted (omap cond_reset (c_iter s)) (c_iter (cs (started hf s))) 0 /\
  shifted (omap cond_reset (c_test s)) (c_test (cs (started hf s))) 0 /\
  shifted (omap cond_reset (c_stmt s)) (c_stmt (cs (started hf s))) 0.
Proof. cbn. repeat split; apply shifted_refl. Qed.

(* counters_exact: after the events [tr] following before_search_start, every configured counter
   equals the number of the corresponding events *)
Lemma counters_exact hf s tr st :
  run hf (init s) (SearchStart :: tr) = Some st ->
  (forall c, c_iter s = Some c -> exists c', c_iter (cs st) = Some c' /\ cnt c' = n_iter tr /\ lim c' = lim c) /\
  (forall c, c_test s = Some c -> exists c', c_test (cs st) = Some c' /\ cnt c' = n_exec tr /\ lim c' = lim c) /\
  (forall c, c_stmt s = Some c -> exists c', c_stmt (cs st) = Some c' /\ cnt c' = n_stmt tr /\ lim c' = lim c).
Proof.
  intro Hr. cbn [run init step ph cs] in Hr. fold (started hf s) in Hr.
  destruct (run_effect hf _ _ _ Hr (started_not_init hf s)) as [_ [R1 [R2 R3]]].
  cbn [started cs on_search_start c_iter c_test c_stmt] in R1, R2, R3.
  repeat split; intros c Ec; rewrite Ec in *; cbn [omap shifted] in *.
  - destruct (c_iter (cs st)) as [c'|]; [|destruct R1]. exists c'. cbn in R1. split; [reflexivity|lia].
  - destruct (c_test (cs st)) as [c'|]; [|destruct R2]. exists c'. cbn in R2. split; [reflexivity|lia].
  - destruct (c_stmt (cs st)) as [c'|]; [|destruct R3]. exists c'. cbn in R3. split; [reflexivity|lia].
Qed.

(* ---------- iterations never exceed the iteration budget ---------- *)
Definition iter_inv (st : state) : Prop :=
  match c_iter (cs st) with
  | Some c => cnt c <= lim c /\ (ph st = PIter -> cnt c < lim c)
  | None => True
  end.

Lemma resources_left_spec s :
  resources_left s = true <->
  (forall c, c_iter s = Some c -> cnt c < lim c) /\ (forall c, c_test s = Some c -> cnt c < lim c) /\
  (forall c, c_stmt s = Some c -> cnt c < lim c).
Proof.
  unfold resources_left. cbn [forallb]. rewrite !andb_true_iff, !negb_true_iff.
  unfold oful, cond_fulfilled. destruct (c_iter s) as [a|], (c_test s) as [b|], (c_stmt s) as [c|];
    split; intro H; repeat split; try reflexivity; try (intros x Ex; inversion Ex; subst; lia);
    try discriminate; try tauto;
    try (destruct H as [H1 [H2 H3]]; first [specialize (H1 _ eq_refl)|idtac];
         first [specialize (H2 _ eq_refl)|idtac]; first [specialize (H3 _ eq_refl)|idtac]; lia).
Qed.

Lemma step_iter_inv hf st e st' :
  step hf st e = Some st' -> ph st <> PInit -> iter_inv st -> iter_inv st'.
Proof.
  intros Hs Hp Hi. destruct st as [p [ci ct cm]]. unfold iter_inv in *. cbn [ph cs c_iter] in *.
  unfold step in Hs. cbn [ph cs] in Hs.
  destruct p; [congruence| | | |]; destruct e; try discriminate.
  all: try (destruct (resources_left _) eqn:Er; [apply resources_left_spec in Er; cbn [c_iter] in Er;
                                                  destruct Er as [Er _]|discriminate]).
  all: inversion Hs; subst; clear Hs; cbn [ph cs c_iter on_exec on_exec_end on_iter_end].
  all: destruct ci as [c|]; cbn [omap cond_incr set_cnt cnt lim]; try exact I.
  all: try specialize (Er _ eq_refl).
  all: try (split; [lia|]; intro Hph; first [discriminate Hph|lia]).
  all: try (destruct Hi as [H1 H2]; split; [lia|intro Hph; first [discriminate Hph|apply H2; reflexivity|lia]]).
  destruct Hi as [H1 H2]. specialize (H2 eq_refl). split; [lia|intro Hph; discriminate Hph].
Qed.

Lemma run_iter_inv hf : forall tr st st',
  run hf st tr = Some st' -> ph st <> PInit -> iter_inv st -> iter_inv st'.
Proof.
  induction tr as [|e r IH]; intros st st' Hr Hp Hi; cbn [run] in Hr.
  - inversion Hr; subst. exact Hi.
  - destruct (step hf st e) as [st1|] eqn:Es; [|discriminate].
    destruct (step_effect _ _ _ _ Es Hp) as [Hp1 _].
    apply (IH _ _ Hr Hp1). eapply step_iter_inv; eassumption.
Qed.

Lemma iterations_le_budget hf s tr c :
  accepts hf s tr = true -> c_iter s = Some c -> 0 < lim c -> n_iter tr <= lim c.
Proof.
  unfold accepts. intros Ha Ec Hl. destruct (run hf (init s) tr) as [st|] eqn:Hr; [|discriminate].
  destruct tr as [|e0 r0] eqn:Et; [cbn; lia|]. rewrite <- Et in *.
  destruct (run_start hf s tr st Hr ltac:(rewrite Et; discriminate)) as [r [-> Hr']].
  assert (Hi0 : iter_inv (started hf s)).
  { unfold iter_inv, started. cbn. rewrite Ec. cbn. split; [lia|]. destruct hf; discriminate. }
  pose proof (run_iter_inv hf _ _ _ Hr' (started_not_init hf s) Hi0) as Hi.
  destruct (counters_exact hf s r st Hr) as [C1 _]. destruct (C1 c Ec) as [c' [E1 [E2 E3]]].
  unfold iter_inv in Hi. rewrite E1 in Hi. cbn [n_iter]. lia.
Qed.

(* every pass through the loop body counts: the body is entered at most budget times *)
Definition d_start (e : event) : Z := match e with IterStart => 1 | _ => 0 end.
Lemma n_start_cons e r : n_start (e :: r) = d_start e + n_start r.
Proof. destruct e; reflexivity. Qed.

Definition in_iter (st : state) : Z := match ph st with PIter => 1 | _ => 0 end.
Definition icnt (st : state) : Z := match c_iter (cs st) with Some c => cnt c | None => 0 end.

Lemma step_start_inv hf st e st' :
  step hf st e = Some st' -> ph st <> PInit -> c_iter (cs st) <> None ->
  c_iter (cs st') <> None /\ icnt st' + in_iter st' >= icnt st + in_iter st + d_start e.
Proof.
  intros Hs Hp Hc. destruct st as [p [ci ct cm]]. unfold icnt, in_iter in *. cbn [ph cs c_iter] in *.
  unfold step in Hs. cbn [ph cs] in Hs. destruct ci as [c|]; [|congruence].
  destruct p; [congruence| | | |]; destruct e; try discriminate;
    try (destruct (resources_left _); [|discriminate]);
    inversion Hs; subst; clear Hs;
    cbn [ph cs c_iter on_exec on_exec_end on_iter_end omap cond_incr set_cnt cnt d_start];
    (split; [discriminate|lia]).
Qed.

Lemma run_start_inv hf : forall tr st st',
  run hf st tr = Some st' -> ph st <> PInit -> c_iter (cs st) <> None ->
  icnt st' + in_iter st' >= icnt st + in_iter st + n_start tr.
Proof.
  induction tr as [|e r IH]; intros st st' Hr Hp Hc; cbn [run] in Hr.
  - inversion Hr; subst. cbn [n_start]. lia.
  - destruct (step hf st e) as [st1|] eqn:Es; [|discriminate].
    destruct (step_effect _ _ _ _ Es Hp) as [Hp1 _].
    destruct (step_start_inv _ _ _ _ Es Hp Hc) as [Hc1 H1].
    pose proof (IH _ _ Hr Hp1 Hc1) as H2. rewrite n_start_cons. lia.
Qed.

Lemma starts_le_budget hf s tr c :
  accepts hf s tr = true -> c_iter s = Some c -> 0 < lim c -> n_start tr <= lim c.
Proof.
  unfold accepts. intros Ha Ec Hl. destruct (run hf (init s) tr) as [st|] eqn:Hr; [|discriminate].
  destruct tr as [|e0 r0] eqn:Et; [cbn; lia|]. rewrite <- Et in *.
  destruct (run_start hf s tr st Hr ltac:(rewrite Et; discriminate)) as [r [-> Hr']].
  assert (Hi0 : iter_inv (started hf s)).
  { unfold iter_inv, started. cbn. rewrite Ec. cbn. split; [lia|]. destruct hf; discriminate. }
  pose proof (run_iter_inv hf _ _ _ Hr' (started_not_init hf s) Hi0) as Hi.
  assert (Hc0 : c_iter (cs (started hf s)) <> None) by (cbn; rewrite Ec; discriminate).
  pose proof (run_start_inv hf _ _ _ Hr' (started_not_init hf s) Hc0) as Hs.
  destruct (counters_exact hf s r st Hr) as [C1 _]. destruct (C1 c Ec) as [c' [E1 [E2 E3]]].
  unfold iter_inv in Hi. rewrite E1 in Hi. unfold icnt, in_iter in Hs. rewrite E1 in Hs.
  cbn [started cs ph on_search_start c_iter] in Hs. rewrite Ec in Hs. cbn [omap cond_reset set_cnt cnt] in Hs.
  cbn [n_start]. destruct Hi as [H1 H2].
  destruct (ph st) eqn:Eph; destruct hf; cbn in Hs; try lia; specialize (H2 eq_refl); lia.
Qed.

(* ---------- no iteration starts once a budget is reached ---------- *)
Lemma step_last_head hf st e st' :
  step hf st e = Some st' -> (e = IterEnd \/ e = FirstIter) -> ph st' = PHead.
Proof.
  intros Hs He. destruct st as [p s]. unfold step in Hs. cbn [ph cs] in Hs.
  destruct He as [-> | ->]; destruct p; try discriminate;
    try (destruct (resources_left s); [|discriminate]); inversion Hs; reflexivity.
Qed.

Lemma head_phase hf s pre st :
  run hf (init s) (SearchStart :: pre) = Some st -> at_head hf pre -> ph st = PHead.
Proof.
  intros Hr Hh. cbn [run init step ph cs] in Hr. fold (started hf s) in Hr.
  destruct Hh as [[-> ->]|[[p ->]|[p ->]]].
  - cbn in Hr. inversion Hr. reflexivity.
  - rewrite run_app in Hr. destruct (run hf (started hf s) p) as [st1|]; [|discriminate].
    cbn [run] in Hr. destruct (step hf st1 IterEnd) as [st2|] eqn:Es; [|discriminate].
    inversion Hr; subst. eapply step_last_head; [exact Es|left; reflexivity].
  - rewrite run_app in Hr. destruct (run hf (started hf s) p) as [st1|]; [|discriminate].
    cbn [run] in Hr. destruct (step hf st1 FirstIter) as [st2|] eqn:Es; [|discriminate].
    inversion Hr; subst. eapply step_last_head; [exact Es|right; reflexivity].
Qed.

Lemma no_start_after_budget hf s pre e post :
  accepts hf s (SearchStart :: pre ++ e :: post) = true ->
  at_head hf pre -> starts_iter e = true ->
  below (c_iter s) (n_iter pre) /\ below (c_test s) (n_exec pre) /\ below (c_stmt s) (n_stmt pre).
Proof.
  unfold accepts. intros Ha Hh He.
  destruct (run hf (init s) (SearchStart :: pre ++ e :: post)) as [stf|] eqn:Hr; [|discriminate].
  change (SearchStart :: pre ++ e :: post) with ((SearchStart :: pre) ++ e :: post) in Hr.
  rewrite run_app in Hr.
  destruct (run hf (init s) (SearchStart :: pre)) as [st1|] eqn:Hr1; [|discriminate].
  pose proof (head_phase hf s pre st1 Hr1 Hh) as Hph.
  destruct (counters_exact hf s pre st1 Hr1) as [C1 [C2 C3]].
  cbn [run] in Hr. destruct (step hf st1 e) as [st2|] eqn:Es; [|discriminate].
  assert (Hres : resources_left (cs st1) = true).
  { destruct st1 as [p1 s1]. cbn [ph cs] in *. subst p1. unfold step in Es. cbn [ph cs] in Es.
    destruct e; try discriminate; destruct (resources_left s1); try reflexivity; discriminate. }
  apply resources_left_spec in Hres. destruct Hres as [R1 [R2 R3]].
  repeat split; intros c Ec.
  - destruct (C1 c Ec) as [c' [E1 [E2 E3]]]. specialize (R1 c' E1). lia.
  - destruct (C2 c Ec) as [c' [E1 [E2 E3]]]. specialize (R2 c' E1). lia.
  - destruct (C3 c Ec) as [c' [E1 [E2 E3]]]. specialize (R3 c' E1). lia.
Qed.

(* once a budget is reached at an iteration boundary, the search can only finish *)
Lemma run_done_no_iter hf : forall tr st st', ph st = PDone -> run hf st tr = Some st' -> n_iter tr = 0.
Proof.
  induction tr as [|e r IH]; intros st st' Hp Hr; [reflexivity|]. cbn [run] in Hr.
  destruct (step hf st e) as [st1|] eqn:Es; [|discriminate].
  destruct st as [p s]. cbn [ph] in Hp. subst p. unfold step in Es. cbn [ph cs] in Es.
  destruct e; try discriminate; inversion Es; subst; rewrite n_iter_cons; cbn [d_iter];
    (erewrite IH; [reflexivity| |exact Hr]); reflexivity.
Qed.

Lemma stops_at_boundary hf s pre rest :
  accepts hf s (SearchStart :: pre ++ rest) = true -> at_head hf pre ->
  (reached (c_iter s) (n_iter pre) \/ reached (c_test s) (n_exec pre) \/ reached (c_stmt s) (n_stmt pre)) ->
  rest = [] \/ exists post, rest = SearchEnd :: post /\ n_iter post = 0.
Proof.
  intros Ha Hh Hre. destruct rest as [|e post]; [left; reflexivity|right].
  destruct (starts_iter e) eqn:Ese.
  - destruct (no_start_after_budget hf s pre e post Ha Hh Ese) as [B1 [B2 B3]].
    destruct Hre as [[c [Ec Hc]]|[[c [Ec Hc]]|[c [Ec Hc]]]];
      [specialize (B1 c Ec)|specialize (B2 c Ec)|specialize (B3 c Ec)]; lia.
  - unfold accepts in Ha.
    destruct (run hf (init s) (SearchStart :: pre ++ e :: post)) as [stf|] eqn:Hr; [|discriminate].
    change (SearchStart :: pre ++ e :: post) with ((SearchStart :: pre) ++ e :: post) in Hr.
    rewrite run_app in Hr.
    destruct (run hf (init s) (SearchStart :: pre)) as [st1|] eqn:Hr1; [|discriminate].
    pose proof (head_phase hf s pre st1 Hr1 Hh) as Hph.
    cbn [run] in Hr. destruct (step hf st1 e) as [st2|] eqn:Es; [|discriminate].
    destruct st1 as [p1 s1]. cbn [ph] in Hph. subst p1. unfold step in Es. cbn [ph cs] in Es.
    destruct e; try discriminate. inversion Es; subst.
    exists post. split; [reflexivity|]. eapply run_done_no_iter; [|exact Hr]. reflexivity.
Qed.

(* the replay used for real runs is the acceptor plus the counter comparison *)
Lemma replay_accepts hf : forall tr st i,
  replay hf st tr i = None -> exists st', run hf st (map fst tr) = Some st'.
Proof.
  induction tr as [|[e o] r IH]; intros st i Hr; cbn [replay map fst run] in *.
  - exists st. reflexivity.
  - destruct (step hf st e) as [st1|]; [|discriminate].
    destruct (obs_ok (cs st1) o); [|discriminate]. eapply IH. exact Hr.
Qed.

(* ---------- non-vacuity ---------- *)
Example ex_conds : conds :=
  {| c_iter := Some {| cnt := 7; lim := 2 |}; c_test := Some {| cnt := 0; lim := 5 |}; c_stmt := None |}.

Example ex_run_accepted :
  accepts true ex_conds [SearchStart; Exec; ExecEnd 3; Exec; ExecEnd 2; FirstIter; Exec; ExecEnd 1; Exec;
                         ExecEnd 1; IterEnd; Exec; Exec; ExecEnd 4; ExecEnd 0; IterEnd; SearchEnd] = true.
Proof. reflexivity. Qed.

(* a third iteration, or an iteration after the 5th execution, is rejected *)
Example ex_run_rejected_iter :
  accepts true ex_conds [SearchStart; FirstIter; IterEnd; IterEnd; IterEnd; SearchEnd] = false.
Proof. reflexivity. Qed.

Example ex_run_rejected_exec :
  accepts true ex_conds [SearchStart; Exec; Exec; Exec; Exec; Exec; FirstIter; Exec; IterEnd; SearchEnd] = false.
Proof. reflexivity. Qed.

(* a second pass through the loop body without after_search_iteration is rejected *)
Example ex_run_rejected_uncounted :
  accepts false ex_conds [SearchStart; IterStart; Exec; ExecEnd 1; IterEnd; IterStart; Exec; ExecEnd 1; IterStart] = false.
Proof. reflexivity. Qed.

Example ex_at_head : at_head true [Exec; ExecEnd 3; FirstIter; Exec; IterEnd].
Proof. right. left. exists [Exec; ExecEnd 3; FirstIter; Exec]. reflexivity. Qed.
