(* C35 — proofs: report totals = numerators / denominators of the tracked coverage, per-line
   annotations sum to the totals, a line is marked covered iff the suite covers it. *)
From Coq Require Import List ZArith QArith Bool Lia Permutation.
From Verif Require Import Models.C10 Models.C11 Models.C35 Proofs.C11.
Import ListNotations.
Import C10 C35.
Open Scope Z_scope.

(* ================================================================================================ *)
(* sums                                                                                             *)
(* ================================================================================================ *)
Fixpoint zsum (l : list Z) : Z := match l with [] => 0 | x :: r => x + zsum r end.

Lemma fold_eadd l a : fold_left eadd l a = (fst a + zsum (map fst l), snd a + zsum (map snd l)).
Proof.
  revert a. induction l as [|x l IH]; intro a; simpl.
  - destruct a; simpl; f_equal; lia.
  - rewrite IH. unfold eadd. simpl. f_equal; lia.
Qed.

Lemma esum_zsum l : esum l = (zsum (map fst l), zsum (map snd l)).
Proof. unfold esum. rewrite fold_eadd. reflexivity. Qed.

Lemma zsum_app l1 l2 : zsum (l1 ++ l2) = zsum l1 + zsum l2.
Proof. induction l1 as [|x l IH]; simpl; lia. Qed.

Lemma zsum_map_add {A} (a b : A -> Z) l : zsum (map (fun x => a x + b x) l) = zsum (map a l) + zsum (map b l).
Proof. induction l as [|x l IH]; simpl; lia. Qed.

Lemma zsum_map_const {A} (c : Z) (l : list A) : zsum (map (fun _ => c) l) = c * Z.of_nat (length l).
Proof. induction l as [|x l IH]; simpl length; simpl zsum; simpl map; lia. Qed.

Lemma zsum_map_ext {A} (f g : A -> Z) l : (forall x, In x l -> f x = g x) -> zsum (map f l) = zsum (map g l).
Proof.
  induction l as [|x l IH]; intro H; simpl; [reflexivity|].
  rewrite (H x (or_introl eq_refl)), IH; [reflexivity|]. intros y Hy. apply H. now right.
Qed.

Lemma zsum_b2z {A} (g : A -> bool) l : zsum (map (fun x => b2z (g x)) l) = count_if g l.
Proof.
  induction l as [|x l IH]; [reflexivity|]. rewrite count_if_cons. simpl. rewrite IH. unfold b2z. reflexivity.
Qed.

Lemma count_if_map {A B} (g : B -> bool) (h : A -> B) l : count_if g (map h l) = count_if (fun x => g (h x)) l.
Proof. induction l as [|x l IH]; [reflexivity|]. simpl map. rewrite !count_if_cons, IH. reflexivity. Qed.

Lemma count_if_true_length {A} (l : list A) : count_if (fun _ => true) l = Z.of_nat (length l).
Proof. induction l as [|x l IH]; [reflexivity|]. rewrite count_if_cons, IH. simpl length. lia. Qed.

Lemma count_if_filter {A} (f g : A -> bool) l : count_if f (filter g l) = count_if (fun x => f x && g x) l.
Proof.
  induction l as [|x l IH]; [reflexivity|]. simpl filter. rewrite count_if_cons.
  destruct (g x); [rewrite count_if_cons, IH|rewrite IH]; rewrite ?andb_true_r, ?andb_false_r; reflexivity.
Qed.

(* counting over a duplicate-free sublist vs the whole duplicate-free list *)
Lemma count_if_sub (f : Z -> bool) l u : NoDup l -> NoDup u -> incl l u ->
  (forall x, ~ In x l -> f x = false) -> count_if f l = count_if f u.
Proof.
  intros Nl Nu I F.
  transitivity (count_if f (filter (fun x => memZ x l) u)).
  - apply count_if_perm. apply NoDup_Permutation; [exact Nl|now apply NoDup_filter|].
    intro x. rewrite filter_In, memZ_In. split; [intro H; split; [apply I, H|exact H]|tauto].
  - rewrite count_if_filter. apply count_if_ext_in. intros x _.
    destruct (memZ x l) eqn:E; [now rewrite andb_true_r|]. apply memZ_false in E. rewrite (F x E). reflexivity.
Qed.

(* |a ∩ b| counted from either side *)
Lemma inter_count a b : NoDup a -> NoDup b ->
  count_if (fun x => memZ x b) a = count_if (fun x => memZ x a) b.
Proof.
  intros Na Nb. unfold count_if. f_equal. apply Permutation_length.
  apply NoDup_Permutation; try (now apply NoDup_filter).
  intro x. rewrite !filter_In, !memZ_In. tauto.
Qed.

(* ================================================================================================ *)
(* the accumulating dictionaries                                                                    *)
(* ================================================================================================ *)
Section Additive.
  Variable f : entry -> Z.
  Hypothesis f_add : forall a b, f (eadd a b) = f a + f b.
  Hypothesis f_zero : f ezero = 0.

  Lemma zsum_dset_acc (d : dict entry) k e :
    zsum (map f (values (dset d k (eadd (get0 d k) e)))) = zsum (map f (values d)) + f e.
  Proof.
    induction d as [|[k0 v0] r IH].
    - unfold get0. simpl. rewrite f_add, f_zero. lia.
    - unfold get0 in *. simpl. destruct (Z.eqb_spec k k0) as [->|Hne]; simpl.
      + rewrite f_add. lia.
      + rewrite IH. lia.
  Qed.

  Lemma zsum_fold_acc {A} (key : A -> Z) (contrib : A -> entry) ps (d : dict entry) :
    zsum (map f (values (fold_left (fun d x => dset d (key x) (eadd (get0 d (key x)) (contrib x))) ps d)))
    = zsum (map f (values d)) + zsum (map (fun x => f (contrib x)) ps).
  Proof.
    revert d. induction ps as [|x ps IH]; intro d; simpl; [lia|]. rewrite IH, zsum_dset_acc. lia.
  Qed.

  (* sum over an index list of the looked-up entries = sum of all values, when every key is indexed once *)
  Lemma zsum_update (g : Z -> Z) k a l : NoDup l -> In k l ->
    zsum (map (fun i => if i =? k then a else g i) l) = a + zsum (map g l) - g k.
  Proof.
    induction l as [|x l IH]; intros N I; [contradiction|]. inversion N as [|? ? Hx Hl]; subst. simpl.
    destruct (Z.eqb_spec x k) as [->|Hne].
    - rewrite (zsum_map_ext (fun i => if i =? k then a else g i) g l); [lia|].
      intros y Hy. destruct (Z.eqb_spec y k) as [->|]; [contradiction|reflexivity].
    - destruct I as [E|I]; [congruence|]. rewrite (IH Hl I). lia.
  Qed.

  Lemma zsum_get0_index (d : dict entry) l : NoDup (keys d) -> NoDup l -> incl (keys d) l ->
    zsum (map (fun i => f (get0 d i)) l) = zsum (map f (values d)).
  Proof.
    induction d as [|[k v] r IH]; intros Nd Nl I.
    - simpl. rewrite (zsum_map_ext _ (fun _ => 0)); [rewrite zsum_map_const; lia|].
      intros i _. unfold get0. simpl. exact f_zero.
    - simpl in Nd. inversion Nd as [|? ? Hk Hr]; subst.
      assert (Ik : In k l) by (apply I; now left).
      assert (Ir : incl (keys r) l) by (intros y Hy; apply I; now right).
      rewrite (zsum_map_ext _ (fun i => if i =? k then f v else f (get0 r i))).
      2:{ intros i _. unfold get0. simpl. destruct (i =? k); reflexivity. }
      rewrite (zsum_update (fun i => f (get0 r i)) k (f v) l Nl Ik), (IH Hr Nl Ir).
      assert (E : get0 r k = ezero).
      { unfold get0. assert (dget r k = None) as -> by (apply dget_None_notin; exact Hk). reflexivity. }
      rewrite E, f_zero. simpl. lia.
  Qed.
End Additive.

Lemma fst_add a b : fst (eadd a b) = fst a + fst b. Proof. reflexivity. Qed.
Lemma snd_add a b : snd (eadd a b) = snd a + snd b. Proof. reflexivity. Qed.

Lemma keys_fold_acc {A} (key : A -> Z) (val : dict entry -> A -> entry) ps (d : dict entry) :
  keys (fold_left (fun d x => dset d (key x) (val d x)) ps d) = update_set (keys d) (map key ps).
Proof.
  unfold update_set. revert d. induction ps as [|x ps IH]; intro d; simpl; [reflexivity|].
  rewrite IH, keys_dset. reflexivity.
Qed.

Lemma keys_pred_cov rr t : keys (pred_cov rr t) = update_set [] (map snd (r_preds rr)).
Proof.
  unfold pred_cov.
  exact (keys_fold_acc snd (fun d pl => eadd (get0 d (snd pl))
           (b2z (has_zero (true_d t) (fst pl)) + b2z (has_zero (false_d t) (fst pl)), 2)) (r_preds rr) []).
Qed.

Lemma keys_code_cov rr t : keys (code_cov rr t) = update_set [] (map snd (r_branchless rr)).
Proof.
  unfold code_cov.
  exact (keys_fold_acc snd (fun d cl => eadd (get0 d (snd cl)) (b2z (memZ (fst cl) (exec_code t)), 1))
           (r_branchless rr) []).
Qed.

(* totals of the two dictionaries as plain counts *)
Lemma pred_cov_totals rr t :
  esum (values (pred_cov rr t)) =
  (count_if (has_zero (true_d t)) (map fst (r_preds rr)) + count_if (has_zero (false_d t)) (map fst (r_preds rr)),
   2 * Z.of_nat (length (r_preds rr))).
Proof.
  rewrite esum_zsum. unfold pred_cov. f_equal.
  - rewrite (zsum_fold_acc fst fst_add eq_refl). cbn [values map zsum fst snd].
    rewrite (zsum_map_add (fun pl => b2z (has_zero (true_d t) (fst pl))) (fun pl => b2z (has_zero (false_d t) (fst pl)))).
    rewrite !zsum_b2z, !count_if_map. reflexivity.
  - rewrite (zsum_fold_acc snd snd_add eq_refl). cbn [values map zsum fst snd]. rewrite zsum_map_const. lia.
Qed.

Lemma code_cov_totals rr t :
  esum (values (code_cov rr t)) =
  (count_if (fun c => memZ c (exec_code t)) (map fst (r_branchless rr)), Z.of_nat (length (r_branchless rr))).
Proof.
  rewrite esum_zsum. unfold code_cov. f_equal.
  - rewrite (zsum_fold_acc fst fst_add eq_refl). cbn [values map zsum fst snd]. rewrite zsum_b2z, count_if_map. reflexivity.
  - rewrite (zsum_fold_acc snd snd_add eq_refl). cbn [values map zsum fst snd]. rewrite zsum_map_const. lia.
Qed.

(* ================================================================================================ *)
(* premises, unpacked                                                                               *)
(* ================================================================================================ *)
Lemma registry_wf_spec r : registry_wf r = true <->
  NoDup (branchless r) /\ NoDup (predicates r) /\ NoDup (lines r).
Proof. unfold registry_wf. rewrite !andb_true_iff, !nodupb_NoDup. tauto. Qed.

Lemma In_seqZ n i : In i (seqZ n) <-> 1 <= i <= n.
Proof.
  unfold seqZ. rewrite in_map_iff. split.
  - intros [k [<- Hk]]. apply in_seq in Hk. lia.
  - intro H. exists (Z.to_nat i). split; [lia|]. apply in_seq. lia.
Qed.

Lemma NoDup_seqZ n : NoDup (seqZ n).
Proof. unfold seqZ. apply FinFun.Injective_map_NoDup; [exact Nat2Z.inj|apply seq_NoDup]. Qed.

Lemma in_range_spec n x : in_range n x = true <-> 1 <= x <= n.
Proof. unfold in_range. rewrite andb_true_iff, !Z.leb_le. tauto. Qed.

Lemma in_source_spec rr : in_source rr = true <->
  (forall x, In x (map snd (r_branchless rr)) -> 1 <= x <= r_nsource rr) /\
  (forall x, In x (map snd (r_preds rr)) -> 1 <= x <= r_nsource rr) /\
  (forall x, In x (values (r_lines rr)) -> 1 <= x <= r_nsource rr).
Proof.
  unfold in_source. rewrite !andb_true_iff, !forallb_forall.
  split.
  - intros [[H1 H2] H3]. split; [|split]; intros x Hx; apply in_range_spec; auto.
  - intros (H1 & H2 & H3). split; [split|]; intros x Hx; apply in_range_spec; auto.
Qed.

Lemma update_set_NoDup_app l xs : NoDup (l ++ xs) -> update_set l xs = l ++ xs.
Proof.
  unfold update_set. revert l. induction xs as [|y r IH]; intros l N; simpl; [now rewrite app_nil_r|].
  assert (E : add_set l y = l ++ [y]).
  { unfold add_set. destruct (memZ y l) eqn:M; [|reflexivity]. exfalso. apply memZ_In in M.
    apply NoDup_remove_2 in N. apply N, in_or_app. now left. }
  rewrite E, IH; rewrite <- app_assoc; [reflexivity|exact N].
Qed.

Lemma update_set_nil_NoDup xs : NoDup xs -> update_set [] xs = xs.
Proof. intro N. now rewrite (update_set_NoDup_app [] xs N). Qed.

Lemma In_linenos rr ids i : In i (linenos rr ids) <-> exists id, In id ids /\ lineno rr id = i.
Proof.
  unfold linenos. rewrite In_update_set, in_map_iff. split.
  - intros [[]|[id [E H]]]. exists id. tauto.
  - intros [id [H E]]. right. exists id. tauto.
Qed.

Lemma NoDup_linenos rr ids : NoDup (linenos rr ids).
Proof. unfold linenos. apply NoDup_update_set. constructor. Qed.

Lemma dget_values_inj (d : dict Z) a b x : NoDup (values d) ->
  dget d a = Some x -> dget d b = Some x -> a = b.
Proof.
  induction d as [|[k v] r IH]; simpl; [discriminate|]. intro N. inversion N as [|? ? Hv Hr]; subst.
  destruct (Z.eqb_spec a k) as [->|Ha], (Z.eqb_spec b k) as [->|Hb]; intros E1 E2.
  - reflexivity.
  - exfalso. injection E1 as <-. apply Hv, (dget_value_In _ _ _ E2).
  - exfalso. injection E2 as <-. apply Hv, (dget_value_In _ _ _ E1).
  - now apply IH.
Qed.

Lemma NoDup_map_inj_in {A B} (f : A -> B) l :
  (forall a b, In a l -> In b l -> f a = f b -> a = b) -> NoDup l -> NoDup (map f l).
Proof.
  induction l as [|x l IH]; intros Inj N; simpl; [constructor|]. inversion N as [|? ? Hx Hl]; subst.
  constructor.
  - intro H. apply in_map_iff in H. destruct H as [y [E Hy]].
    assert (y = x) by (apply Inj; [now right|now left|exact E]). subst. contradiction.
  - apply IH; [|exact Hl]. intros a b Ha Hb. apply Inj; now right.
Qed.

Lemma linenos_of_registered rr ids : NoDup (values (r_lines rr)) -> NoDup ids -> incl ids (keys (r_lines rr)) ->
  linenos rr ids = map (lineno rr) ids.
Proof.
  intros Nv Ni I. unfold linenos. apply update_set_nil_NoDup. apply NoDup_map_inj_in; [|exact Ni].
  intros a b Ha Hb E. apply I, In_keys_dget in Ha. apply I, In_keys_dget in Hb.
  destruct Ha as [x Ea], Hb as [y Eb]. unfold lineno in E. rewrite Ea, Eb in E. subst y.
  exact (dget_values_inj _ a b x Nv Ea Eb).
Qed.

Lemma lineno_in_values rr id : In id (keys (r_lines rr)) -> In (lineno rr id) (values (r_lines rr)).
Proof. intro H. apply In_keys_dget in H. destruct H as [x E]. unfold lineno. rewrite E. apply (dget_value_In _ _ _ E). Qed.

(* ================================================================================================ *)
(* T1: branch totals = numerator / denominator of compute_branch_coverage                           *)
(* ================================================================================================ *)
Lemma count_zero_registry (d : dict dist) preds : NoDup (keys d) -> NoDup preds -> incl (keys d) preds ->
  count_if (has_zero d) preds = count_if dist_is_zero (values d).
Proof.
  intros Nd Np I. rewrite (count_zero_keys d Nd). symmetry. apply count_if_sub; try assumption.
  intros x Hx. unfold has_zero. apply dget_None_notin in Hx. now rewrite Hx.
Qed.

Theorem branch_totals rr t ml :
  valid t (to_registry rr) = true -> registry_wf (to_registry rr) = true ->
  let rp := get_report rr t true ml in
  fst (rp_branches rp) + fst (rp_branchless rp) = branch_covered_count t (to_registry rr) /\
  snd (rp_branches rp) + snd (rp_branchless rp) = branch_existing_count (to_registry rr) /\
  rp_branch_cov rp = Some (ratio (fst (rp_branches rp) + fst (rp_branchless rp))
                                 (snd (rp_branches rp) + snd (rp_branchless rp))).
Proof.
  intros V W. apply valid_Valid in V. apply registry_wf_spec in W. destruct W as (W1 & W2 & W3).
  destruct V as [B1 B2 B3 B4 B5 B6 B7 B8 B9 B10 B11 B12].
  cbn [get_report rp_branches rp_branchless rp_branch_cov]. rewrite pred_cov_totals, code_cov_totals.
  cbn [fst snd].
  assert (E1 : fst (count_if (has_zero (true_d t)) (map fst (r_preds rr)) +
                    count_if (has_zero (false_d t)) (map fst (r_preds rr)), 0) +
               count_if (fun c => memZ c (exec_code t)) (map fst (r_branchless rr))
               = branch_covered_count t (to_registry rr)).
  { unfold branch_covered_count. cbn [fst to_registry branchless predicates] in *.
    rewrite (count_zero_registry (true_d t)) by (rewrite ?B8; assumption).
    rewrite (count_zero_registry (false_d t)) by (rewrite ?B9; assumption).
    rewrite (inter_count (exec_code t) (map fst (r_branchless rr)) B1 W1). lia. }
  cbn [fst] in E1.
  assert (E2 : 2 * Z.of_nat (length (r_preds rr)) + Z.of_nat (length (r_branchless rr))
               = branch_existing_count (to_registry rr)).
  { unfold branch_existing_count. cbn [to_registry branchless predicates]. rewrite !map_length. lia. }
  split; [exact E1|]. split; [exact E2|]. unfold branch_coverage. now rewrite E1, E2.
Qed.

(* ================================================================================================ *)
(* T2: line totals = numerator / denominator of compute_line_coverage                               *)
(* ================================================================================================ *)
Theorem line_totals rr t mb :
  valid t (to_registry rr) = true -> registry_wf (to_registry rr) = true -> linenos_distinct rr = true ->
  let rp := get_report rr t mb true in
  rp_lines rp = (Z.of_nat (length (cov_lines t)), Z.of_nat (length (lines (to_registry rr)))) /\
  rp_line_cov rp = Some (ratio (fst (rp_lines rp)) (snd (rp_lines rp))).
Proof.
  intros V W D. apply valid_Valid in V. apply registry_wf_spec in W. destruct W as (W1 & W2 & W3).
  destruct V as [B1 B2 B3 B4 B5 B6 B7 B8 B9 B10 B11 B12]. apply nodupb_NoDup in D.
  cbn [get_report rp_lines rp_line_cov to_registry lines] in *.
  rewrite (linenos_of_registered rr (cov_lines t) D B2 B4).
  rewrite (linenos_of_registered rr (keys (r_lines rr)) D W3 (incl_refl _)).
  rewrite !map_length. split; reflexivity.
Qed.

(* ================================================================================================ *)
(* T3: the per-line annotations sum to the totals                                                   *)
(* ================================================================================================ *)
Lemma esum_map_eadd {A} (p q : A -> entry) l :
  esum (map (fun a => eadd (p a) (q a)) l) = eadd (esum (map p l)) (esum (map q l)).
Proof.
  rewrite !esum_zsum, !map_map. unfold eadd. cbn [fst snd].
  rewrite (zsum_map_add (fun a => fst (p a)) (fun a => fst (q a))).
  rewrite (zsum_map_add (fun a => snd (p a)) (fun a => snd (q a))). reflexivity.
Qed.

Lemma esum_map_zero {A} (l : list A) : esum (map (fun _ => ezero) l) = ezero.
Proof. rewrite esum_zsum, !map_map. cbn [fst snd ezero]. rewrite !zsum_map_const. reflexivity. Qed.

Lemma esum_get0_index (d : dict entry) l : NoDup (keys d) -> NoDup l -> incl (keys d) l ->
  esum (map (get0 d) l) = esum (values d).
Proof.
  intros Nd Nl I. rewrite !esum_zsum, !map_map.
  rewrite (zsum_get0_index fst eq_refl d l Nd Nl I).
  rewrite (zsum_get0_index snd eq_refl d l Nd Nl I). reflexivity.
Qed.

Lemma count_if_all {A} (g : A -> bool) l : (forall x, In x l -> g x = true) -> count_if g l = Z.of_nat (length l).
Proof.
  intro H. rewrite <- count_if_true_length. apply count_if_ext_in. exact H.
Qed.

Lemma zsum_member_index L n : NoDup L -> (forall x, In x L -> 1 <= x <= n) ->
  zsum (map (fun i => b2z (memZ i L)) (seqZ n)) = Z.of_nat (length L).
Proof.
  intros N R. rewrite zsum_b2z, (inter_count (seqZ n) L (NoDup_seqZ n) N).
  apply count_if_all. intros x Hx. apply memZ_In, In_seqZ, R, Hx.
Qed.

Theorem annotations_sum rr t mb ml :
  valid t (to_registry rr) = true -> in_source rr = true ->
  let rp := get_report rr t mb ml in
  esum (map a_branches (rp_annots rp)) = rp_branches rp /\
  esum (map a_branchless (rp_annots rp)) = rp_branchless rp /\
  esum (map a_lines (rp_annots rp)) = rp_lines rp /\
  esum (map a_total (rp_annots rp)) = eadd (eadd (rp_branchless rp) (rp_branches rp)) (rp_lines rp).
Proof.
  intros V S. apply valid_Valid in V. apply in_source_spec in S. destruct S as (S1 & S2 & S3).
  destruct V as [B1 B2 B3 B4 B5 B6 B7 B8 B9 B10 B11 B12].
  cbn [get_report rp_annots rp_branches rp_branchless rp_lines].
  set (n := r_nsource rr) in *.
  assert (Hbr : esum (map a_branches (map (annot_of rr t mb ml) (seqZ n)))
                = (if mb then esum (values (pred_cov rr t)) else ezero)).
  { rewrite map_map. cbn [annot_of a_branches]. destruct mb; [|apply esum_map_zero].
    apply esum_get0_index; [rewrite keys_pred_cov; apply NoDup_update_set; constructor|apply NoDup_seqZ|].
    intros k Hk. rewrite keys_pred_cov in Hk. apply In_update_set in Hk. destruct Hk as [[]|Hk].
    apply In_seqZ, S2, Hk. }
  assert (Hbl : esum (map a_branchless (map (annot_of rr t mb ml) (seqZ n)))
                = (if mb then esum (values (code_cov rr t)) else ezero)).
  { rewrite map_map. cbn [annot_of a_branchless]. destruct mb; [|apply esum_map_zero].
    apply esum_get0_index; [rewrite keys_code_cov; apply NoDup_update_set; constructor|apply NoDup_seqZ|].
    intros k Hk. rewrite keys_code_cov in Hk. apply In_update_set in Hk. destruct Hk as [[]|Hk].
    apply In_seqZ, S1, Hk. }
  assert (Hln : esum (map a_lines (map (annot_of rr t mb ml) (seqZ n)))
                = (if ml then (Z.of_nat (length (linenos rr (cov_lines t))),
                               Z.of_nat (length (linenos rr (keys (r_lines rr))))) else ezero)).
  { rewrite map_map. cbn [annot_of a_lines]. destruct ml; [|apply esum_map_zero].
    rewrite esum_zsum, !map_map. cbn [fst snd]. f_equal.
    - apply zsum_member_index; [apply NoDup_linenos|]. intros x Hx. apply In_linenos in Hx.
      destruct Hx as [id [Hid <-]]. apply S3, lineno_in_values, B4, Hid.
    - apply zsum_member_index; [apply NoDup_linenos|]. intros x Hx. apply In_linenos in Hx.
      destruct Hx as [id [Hid <-]]. apply S3, lineno_in_values, Hid. }
  split; [exact Hbr|]. split; [exact Hbl|]. split; [exact Hln|].
  rewrite <- Hbr, <- Hbl, <- Hln. rewrite !map_map.
  rewrite <- (esum_map_eadd (fun i => a_branchless (annot_of rr t mb ml i)) (fun i => a_branches (annot_of rr t mb ml i))).
  rewrite <- (esum_map_eadd (fun i => eadd (a_branchless (annot_of rr t mb ml i)) (a_branches (annot_of rr t mb ml i)))
                (fun i => a_lines (annot_of rr t mb ml i))).
  reflexivity.
Qed.

(* ================================================================================================ *)
(* T4: a line is marked covered exactly when the suite covers it                                    *)
(* ================================================================================================ *)
Definition suite_covers (rr : rreg) (t : trace) (i : Z) : Prop :=
  exists id, In id (cov_lines t) /\ lineno rr id = i.

Lemma b2z_one b : b2z b = 1 <-> b = true.
Proof. destruct b; simpl; split; intro; try reflexivity; try lia; discriminate. Qed.

Theorem line_marked_iff_covered rr t mb i :
  fst (a_lines (annot_of rr t mb true i)) = 1 <-> suite_covers rr t i.
Proof.
  cbn [annot_of a_lines fst]. rewrite b2z_one, memZ_In, In_linenos. reflexivity.
Qed.

Lemma covered_is_existing rr t i : valid t (to_registry rr) = true ->
  memZ i (linenos rr (cov_lines t)) = true -> memZ i (linenos rr (keys (r_lines rr))) = true.
Proof.
  intros V. apply valid_Valid in V. destruct V as [B1 B2 B3 B4 B5 B6 B7 B8 B9 B10 B11 B12].
  rewrite !memZ_In, !In_linenos. intros [id [H E]]. exists id. split; [apply B4, H|exact E].
Qed.

(* HTML tool tip "Line i covered", Cobertura hits with the LINE metric only *)
Theorem shown_covered_iff rr t mb i : valid t (to_registry rr) = true ->
  (html_line_msg (annot_of rr t mb true i) = 1 <-> suite_covers rr t i) /\
  (xml_hits (annot_of rr t false true i) = true <-> suite_covers rr t i) /\
  (suite_covers rr t i -> xml_hits (annot_of rr t mb true i) = true).
Proof.
  intro V. pose proof (covered_is_existing rr t i V) as CE.
  pose proof (line_marked_iff_covered rr t mb i) as L. cbn [annot_of a_lines fst] in L.
  unfold html_line_msg, xml_hits. cbn [annot_of a_lines a_branches a_branchless fst snd ezero].
  rewrite <- L. clear L.
  destruct (memZ i (linenos rr (cov_lines t))) eqn:C.
  - rewrite (CE eq_refl). cbn. repeat split; auto.
  - destruct (memZ i (linenos rr (keys (r_lines rr)))); cbn; repeat split; intro H; try discriminate; try lia.
Qed.

(* ================================================================================================ *)
(* Example: a non-trivial report satisfying all premises                                            *)
(* ================================================================================================ *)
Definition ex_rr : rreg :=
  {| r_branchless := [(0, 1); (3, 9)]; r_preds := [(0, 4); (1, 4); (2, 6)];
     r_lines := [(0, 1); (1, 3); (2, 4); (3, 6); (4, 9)]; r_nsource := 10 |}.
Definition ex_t : trace :=
  {| exec_code := [0; 1]; exec_pred := [(0, 2); (1, 1)];
     true_d := [(0, Fin 0); (1, Fin (3 # 2))]; false_d := [(0, Fin 0); (1, Fin 0)];
     cov_lines := [0; 2; 1]; chk_lines := [] |}.

Example ex_premises :
  valid ex_t (to_registry ex_rr) = true /\ registry_wf (to_registry ex_rr) = true /\
  in_source ex_rr = true /\ linenos_distinct ex_rr = true.
Proof. repeat split. Qed.

Example ex_report_values :
  let rp := get_report ex_rr ex_t true true in
  rp_branches rp = (3, 6) /\ rp_branchless rp = (1, 2) /\ rp_lines rp = (3, 5) /\
  map a_total (rp_annots rp) = [(2, 2); (0, 0); (1, 1); (4, 5); (0, 0); (0, 3); (0, 0); (0, 0); (0, 2); (0, 0)].
Proof. repeat split. Qed.

(* the premise "inside the source" is needed: a predicate on a line beyond the source is counted in
   the totals but appears in no annotation *)
Definition ex_rr_out : rreg :=
  {| r_branchless := []; r_preds := [(0, 4)]; r_lines := []; r_nsource := 3 |}.
Example in_source_needed :
  let rp := get_report ex_rr_out empty_trace true true in
  in_source ex_rr_out = false /\ rp_branches rp = (0, 2) /\ esum (map a_branches (rp_annots rp)) = (0, 0).
Proof. repeat split. Qed.
