(* C26 — proofs about generator selection and the memoised type queries (Models/C26.v). *)
From Coq Require Import List NArith Bool Arith Lia.
From Verif Require Import Models.C25 Proofs.C25 Models.C26.
Import ListNotations.
Import C25 C26.

(* ------------------------------------------------------------------------------------------ *)
(* A. offered generators *)
Lemma in_all_gens tb x : In x (all_gens tb) <-> exists e, In e tb /\ In x (snd e).
Proof. unfold all_gens. apply in_flat_map. Qed.

Lemma offered_r_not_any g tb typ : typ <> TAny ->
  offered_r g tb typ = flat_map (fun e => if is_maybe_subtype g (fst e) typ then snd e else []) tb.
Proof. intro H. destruct typ; try reflexivity; congruence. Qed.

Lemma offered_h_not_any g anyd prims tb typ : typ <> TAny ->
  offered_h g anyd prims tb typ =
  if is_primitive prims typ then []
  else flat_map (fun e => match distance g anyd typ (fst e) with Some _ => snd e | None => [] end) tb.
Proof. intro H. destruct typ; try reflexivity; congruence. Qed.

Lemma ty_any_dec (t : ty) : {t = TAny} + {t <> TAny}.
Proof. destruct t; (left; reflexivity) || (right; discriminate). Qed.

(* every generator the random provider offers returns a type that may be a subtype of the request *)
Lemma offered_r_compatible g tb typ x :
  In x (offered_r g tb typ) ->
  exists e, In e tb /\ In x (snd e) /\ is_maybe_subtype g (fst e) typ = true.
Proof.
  destruct (ty_any_dec typ) as [->|Hn].
  - simpl. intro H. apply in_all_gens in H. destruct H as [e [He Hx]].
    exists e. repeat split; auto. apply issub_any_r.
  - rewrite offered_r_not_any by exact Hn. intro H. apply in_flat_map in H.
    destruct H as [e [He Hx]]. exists e.
    destruct (is_maybe_subtype g (fst e) typ) eqn:E; [auto|contradiction].
Qed.

(* and nothing compatible is withheld *)
Lemma offered_r_complete g tb typ e x :
  In e tb -> In x (snd e) -> is_maybe_subtype g (fst e) typ = true -> In x (offered_r g tb typ).
Proof.
  intros He Hx Hm. destruct (ty_any_dec typ) as [->|Hn].
  - simpl. apply in_all_gens. eauto.
  - rewrite offered_r_not_any by exact Hn. apply in_flat_map. exists e. rewrite Hm. auto.
Qed.

Lemma offered_h_defined g anyd prims tb typ x :
  typ <> TAny -> In x (offered_h g anyd prims tb typ) ->
  is_primitive prims typ = false /\
  exists e d, In e tb /\ In x (snd e) /\ distance g anyd typ (fst e) = Some d.
Proof.
  intros Hn H. rewrite offered_h_not_any in H by exact Hn.
  destruct (is_primitive prims typ); [contradiction|]. split; [reflexivity|].
  apply in_flat_map in H. destruct H as [e [He Hx]].
  destruct (distance g anyd typ (fst e)) as [d|] eqn:E; [|contradiction].
  exists e, d. auto.
Qed.

Lemma wf_table_in g tb e : wf_table g tb = true -> In e tb -> wf g (fst e) = true.
Proof. unfold wf_table. intros H He. rewrite forallb_forall in H. auto. Qed.

(* the heuristic provider: compatible under the covariant reading of list/set/dict ... *)
Lemma offered_h_compatible_cov g anyd prims tb typ x :
  wf_table g tb = true -> wf g typ = true ->
  In x (offered_h g anyd prims tb typ) ->
  exists e, In e tb /\ In x (snd e) /\ is_maybe_subtype_cov g (fst e) typ = true.
Proof.
  intros Wt Wy H. destruct (ty_any_dec typ) as [->|Hn].
  - simpl in H. apply in_all_gens in H. destruct H as [e [He Hx]].
    exists e. repeat split; auto. apply issub_any_r.
  - apply offered_h_defined in H; [|exact Hn]. destruct H as [_ [e [d [He [Hx Hd]]]]].
    exists e. repeat split; auto.
    eapply distance_defined_sound_cov; [exact Wy|eapply wf_table_in; eauto|exact Hd].
Qed.

(* ... and under the real is_maybe_subtype when the request holds no list/set/dict instance *)
Lemma offered_h_compatible_partial g anyd prims tb typ x :
  wf_table g tb = true -> wf g typ = true -> hg_free g typ = true ->
  In x (offered_h g anyd prims tb typ) ->
  exists e, In e tb /\ In x (snd e) /\ is_maybe_subtype g (fst e) typ = true.
Proof.
  intros Wt Wy Hf H. destruct (ty_any_dec typ) as [->|Hn].
  - simpl in H. apply in_all_gens in H. destruct H as [e [He Hx]].
    exists e. repeat split; auto. apply issub_any_r.
  - apply offered_h_defined in H; [|exact Hn]. destruct H as [_ [e [d [He [Hx Hd]]]]].
    exists e. repeat split; auto.
    eapply distance_defined_sound_partial; [exact Wy|eapply wf_table_in; eauto|exact Hf|exact Hd].
Qed.

(* the heuristic provider never offers more than the random one (same hypothesis) *)
Lemma providers_agree_partial g anyd prims tb typ :
  wf_table g tb = true -> wf g typ = true -> hg_free g typ = true ->
  incl (offered_h g anyd prims tb typ) (offered_r g tb typ).
Proof.
  intros Wt Wy Hf x H.
  destruct (offered_h_compatible_partial _ _ _ _ _ _ Wt Wy Hf H) as [e [He [Hx Hm]]].
  eapply offered_r_complete; eauto.
Qed.

Lemma providers_agree_on_any g anyd prims tb :
  offered_h g anyd prims tb TAny = offered_r g tb TAny.
Proof. reflexivity. Qed.

(* refutations: a primitive request (int) is served by the random provider only; a list[object]
   request is served with a list[int] generator by the heuristic provider only *)
Definition tb_ex : table := [(t_K, [0%N]); (t_list t_int, [1%N]); (TUnion [t_int; TNone], [2%N]); (TAny, [3%N])].

Lemma providers_agree_refuted :
  wf_table g_ex tb_ex = true /\
  offered_h g_ex 30%N [2%N] tb_ex t_int = [] /\ offered_r g_ex tb_ex t_int = [2%N; 3%N] /\
  offered_h g_ex 30%N [2%N] tb_ex (t_list t_obj) = [0%N; 1%N; 3%N] /\
  offered_r g_ex tb_ex (t_list t_obj) = [0%N; 3%N] /\
  offered_h g_ex 30%N [2%N] tb_ex (TTuple [t_int]) = [] /\
  offered_r g_ex tb_ex (TTuple [t_int]) = [3%N].
Proof. vm_compute. repeat split; reflexivity. Qed.

Lemma offered_h_incompatible_refuted :
  exists x, In x (offered_h g_ex 30%N [2%N] tb_ex (t_list t_obj)) /\
    forall e, In e tb_ex -> In x (snd e) -> is_maybe_subtype g_ex (fst e) (t_list t_obj) = false.
Proof.
  exists 1%N. split; [vm_compute; auto|].
  intros e He Hx. simpl in He.
  destruct He as [<-|[<-|[<-|[<-|[]]]]]; simpl in Hx; try (destruct Hx as [Hx|[]]; discriminate).
  vm_compute. reflexivity.
Qed.

Example offered_example :
  wf g_ex (TUnion [t_obj; TNone]) = true /\ hg_free g_ex (TUnion [t_obj; TNone]) = true /\
  offered_h g_ex 30%N [2%N] tb_ex (TUnion [t_obj; TNone]) = [0%N; 1%N; 2%N; 3%N] /\
  offered_r g_ex tb_ex (TUnion [t_obj; TNone]) = [0%N; 1%N; 2%N; 3%N].
Proof. vm_compute. repeat split; reflexivity. Qed.

(* ------------------------------------------------------------------------------------------ *)
(* B. memoised queries *)
Lemma forall2b_eq {A} (f : A -> A -> bool) l : forall r,
  (forall x y, In x l -> f x y = true -> x = y) -> forall2b f l r = true -> l = r.
Proof.
  induction l as [|x l IH]; intros [|y r] H H1; simpl in *; try discriminate; try reflexivity.
  apply andb_true_iff in H1. destruct H1 as [A1 B1]. f_equal.
  - apply H; auto.
  - apply IH; auto.
Qed.

Lemma ty_eqb_eq_gen n : forall a b, size a <= n -> ty_eqb a b = true -> a = b.
Proof.
  induction n as [|n IH]; intros a b Hn H; [pose proof (size_pos a); lia|].
  destruct a as [| |c x|x|x]; destruct b as [| |d y|y|y]; simpl in H; try discriminate; try reflexivity.
  - apply andb_true_iff in H. destruct H as [Hc Hx]. apply N.eqb_eq in Hc. subst d. f_equal.
    eapply forall2b_eq; [|exact Hx]. intros u v Hu Huv. apply IH; [|exact Huv].
    apply In_size_le in Hu. simpl in Hn. lia.
  - f_equal. eapply forall2b_eq; [|exact H]. intros u v Hu Huv. apply IH; [|exact Huv].
    apply In_size_le in Hu. simpl in Hn. lia.
  - f_equal. eapply forall2b_eq; [|exact H]. intros u v Hu Huv. apply IH; [|exact Huv].
    apply In_size_le in Hu. simpl in Hn. lia.
Qed.

Lemma ty_eqb_eq a b : ty_eqb a b = true -> a = b.
Proof. apply ty_eqb_eq_gen with (n := size a). auto. Qed.

Lemma qkey_eqb_eq a b : qkey_eqb a b = true -> a = b.
Proof.
  destruct a, b; simpl; try discriminate; intro H; apply andb_true_iff in H; destruct H as [H1 H2].
  - apply N.eqb_eq in H1. apply N.eqb_eq in H2. congruence.
  - apply ty_eqb_eq in H1. apply ty_eqb_eq in H2. congruence.
  - apply ty_eqb_eq in H1. apply ty_eqb_eq in H2. congruence.
  - apply ty_eqb_eq in H1. apply ty_eqb_eq in H2. congruence.
Qed.

Lemma cache_get_In c q a : cache_get c q = Some a -> In (q, a) c.
Proof.
  induction c as [|[k b] c IH]; simpl; [discriminate|].
  destruct (qkey_eqb q k) eqn:E.
  - intro H. inversion H; subst. apply qkey_eqb_eq in E. subst. auto.
  - auto.
Qed.

(* one step of the repaired code keeps every memoised answer equal to its recomputation on the
   current graph, and a query returns that recomputation *)
Lemma step_fresh anyd s o :
  fresh_cache (gr s) anyd (ca s) ->
  fresh_cache (gr (fst (step true anyd s o))) anyd (ca (fst (step true anyd s o))).
Proof.
  intro F. destruct o as [q|p c|q]; simpl.
  - destruct (cache_get (ca s) q) eqn:E; simpl; [exact F|].
    intros k a [H|H]; [inversion H; reflexivity|apply F; exact H].
  - destruct (has_edge (gr s) p c); simpl; [exact F|]. intros k a [].
  - intros k a H. apply filter_In in H. apply F. tauto.
Qed.

Lemma step_query_answer anyd s q :
  fresh_cache (gr s) anyd (ca s) ->
  snd (step true anyd s (Query q)) = Some (compute (gr s) anyd q).
Proof.
  intro F. simpl. destruct (cache_get (ca s) q) eqn:E; simpl; [|reflexivity].
  apply cache_get_In in E. rewrite (F _ _ E). reflexivity.
Qed.

Lemma run_fresh anyd ops : forall s,
  fresh_cache (gr s) anyd (ca s) ->
  fresh_cache (gr (fst (run true anyd s ops))) anyd (ca (fst (run true anyd s ops))).
Proof.
  induction ops as [|o ops IH]; intros s F; simpl; [exact F|].
  pose proof (step_fresh anyd s o F) as F1.
  destruct (step true anyd s o) as [s1 a] eqn:E1. simpl in F1.
  specialize (IH s1 F1). destruct (run true anyd s1 ops) as [s2 l] eqn:E2. simpl in *. exact IH.
Qed.

(* for every history of queries, edge additions and evictions that starts with an empty cache:
   whatever is memoised at the end equals its recomputation on the final graph ... *)
Lemma cache_fresh anyd g ops :
  let s' := fst (run true anyd {| gr := g; ca := [] |} ops) in
  fresh_cache (gr s') anyd (ca s').
Proof. apply run_fresh. intros k a []. Qed.

(* ... so a query asked after the history is answered as on a freshly built type system *)
Lemma cached_query_current anyd g ops q :
  let s' := fst (run true anyd {| gr := g; ca := [] |} ops) in
  snd (step true anyd s' (Query q)) = Some (compute (gr s') anyd q).
Proof. apply step_query_answer. apply cache_fresh. Qed.

Lemma run_cons i anyd s o r :
  run i anyd s (o :: r) =
  let '(s1, a) := step i anyd s o in let '(s2, l) := run i anyd s1 r in (s2, a :: l).
Proof. reflexivity. Qed.

(* every answer given inside the history is the recomputation on the graph of that moment *)
Lemma run_answers anyd ops : forall s,
  fresh_cache (gr s) anyd (ca s) ->
  forall pre q post, ops = pre ++ Query q :: post ->
  nth_error (snd (run true anyd s ops)) (length pre) =
  Some (Some (compute (gr (fst (run true anyd s pre))) anyd q)).
Proof.
  induction ops as [|o ops IH]; intros s F pre q post E.
  - destruct pre; discriminate.
  - destruct pre as [|o' pre]; simpl in E; inversion E; subst.
    + pose proof (step_query_answer anyd s q F) as A. rewrite run_cons.
      destruct (step true anyd s (Query q)) as [s1 a] eqn:E1. simpl in A. subst a.
      destruct (run true anyd s1 post) as [s2 l]. reflexivity.
    + pose proof (step_fresh anyd s o' F) as F1. rewrite !run_cons.
      destruct (step true anyd s o') as [s1 a] eqn:E1. simpl in F1.
      specialize (IH s1 F1 pre q post eq_refl).
      destruct (run true anyd s1 (pre ++ Query q :: post)) as [s2 l] eqn:E2.
      destruct (run true anyd s1 pre) as [s3 l3] eqn:E3. simpl in *. exact IH.
Qed.

(* without the invalidation (the code before the repair) the statement is false:
   is_subtype(int, float) asked before the numeric-tower edge float -> int stays False *)
Definition g_nt : graph := {| nodes := [0; 1]%N; edges := []; hgs := [] |}.
Lemma cache_stale_without_invalidation :
  let ops := [Query (KSub (TInst 0%N []) (TInst 1%N [])); AddEdge 1%N 0%N] in
  let s' := fst (run false 30%N {| gr := g_nt; ca := [] |} ops) in
  snd (step false 30%N s' (Query (KSub (TInst 0%N []) (TInst 1%N [])))) = Some (ABool false) /\
  compute (gr s') 30%N (KSub (TInst 0%N []) (TInst 1%N [])) = ABool true.
Proof. vm_compute. split; reflexivity. Qed.

Example cache_fresh_example :
  let ops := [Query (KSub (TInst 0%N []) (TInst 1%N [])); AddEdge 1%N 0%N;
              Query (KDist (TInst 1%N []) (TInst 0%N [])); Evict (KDist (TInst 1%N []) (TInst 0%N []));
              Query (KSub (TInst 0%N []) (TInst 1%N []))] in
  snd (run true 30%N {| gr := g_nt; ca := [] |} ops) =
  [Some (ABool false); None; Some (ADist (Some 1%N)); None; Some (ABool true)].
Proof. vm_compute. reflexivity. Qed.

(* ------------------------------------------------------------------------------------------ *)
(* C. the providers' own cache *)
Lemma pcache_get_In c t a : pcache_get c t = Some a -> In (t, a) c.
Proof.
  induction c as [|[k b] c IH]; simpl; [discriminate|].
  destruct (ty_eqb t k) eqn:E.
  - intro H. inversion H; subst. apply ty_eqb_eq in E. subst. auto.
  - auto.
Qed.

Lemma pstep_fresh k anyd prims s o :
  disciplined o = true -> pfresh k anyd prims s -> pfresh k anyd prims (fst (pstep k anyd prims s o)).
Proof.
  intros D F. destruct o as [typ|g old new|tb clear|p c|]; simpl in *.
  - destruct (pcache_get (pca s) typ) eqn:E; simpl; [exact F|].
    intros t a [H|H]; [inversion H; reflexivity|apply F; exact H].
  - intros t a [].
  - subst clear. intros t a [].
  - discriminate.
  - intros t a [].
Qed.

Lemma pstep_query_answer k anyd prims s typ :
  pfresh k anyd prims s ->
  snd (pstep k anyd prims s (PQuery typ)) = Some (offered k (pgr s) anyd prims (ptb s) typ).
Proof.
  intro F. simpl. destruct (pcache_get (pca s) typ) eqn:E; simpl; [|reflexivity].
  apply pcache_get_In in E. rewrite (F _ _ E). reflexivity.
Qed.

Lemma prun_cons k anyd prims s o r :
  prun k anyd prims s (o :: r) =
  let '(s1, a) := pstep k anyd prims s o in let '(s2, l) := prun k anyd prims s1 r in (s2, a :: l).
Proof. reflexivity. Qed.

Lemma prun_fresh k anyd prims ops : forall s,
  forallb disciplined ops = true -> pfresh k anyd prims s ->
  pfresh k anyd prims (fst (prun k anyd prims s ops)).
Proof.
  induction ops as [|o ops IH]; intros s D F; [exact F|].
  simpl in D. apply andb_true_iff in D. destruct D as [D1 D2].
  pose proof (pstep_fresh k anyd prims s o D1 F) as F1. rewrite prun_cons.
  destruct (pstep k anyd prims s o) as [s1 a] eqn:E1. simpl in F1.
  specialize (IH s1 D2 F1). destruct (prun k anyd prims s1 ops) as [s2 l] eqn:E2. simpl in *. exact IH.
Qed.

(* for every history in which each change of the generator table is followed by
   clear_generator_cache (and the graph does not change): a request asked afterwards is answered
   as by a provider freshly built on the final table *)
Lemma provider_cache_fresh k anyd prims g tb ops typ :
  forallb disciplined ops = true ->
  let s' := fst (prun k anyd prims {| pgr := g; ptb := tb; pca := [] |} ops) in
  snd (pstep k anyd prims s' (PQuery typ)) = Some (offered k (pgr s') anyd prims (ptb s') typ).
Proof.
  intro D. apply pstep_query_answer. apply prun_fresh; [exact D|]. intros t a [].
Qed.

(* and any history ending in clear_generator_cache is as good as a fresh provider *)
Lemma provider_cache_fresh_after_clear k anyd prims s ops typ :
  let s' := fst (pstep k anyd prims (fst (prun k anyd prims s ops)) PClear) in
  snd (pstep k anyd prims s' (PQuery typ)) = Some (offered k (pgr s') anyd prims (ptb s') typ).
Proof. apply pstep_query_answer. intros t a []. Qed.

(* the cache is NOT invalidated by a graph update (add_subclass_edge cannot reach the provider):
   K (class 6) is requested, then the edge K -> str is added; the cached answer misses the
   generator returning str.  Same for a table change without clear_generator_cache. *)
Definition tb_ph : table := [(t_K, [0%N]); (t_str, [1%N])].
Lemma provider_cache_stale_after_graph_update :
  let s' := fst (prun PRand 30%N [] {| pgr := g_ex; ptb := tb_ph; pca := [] |} [PQuery t_K; PEdge 6%N 1%N]) in
  snd (pstep PRand 30%N [] s' (PQuery t_K)) = Some [0%N] /\
  offered PRand (pgr s') 30%N [] (ptb s') t_K = [0%N; 1%N].
Proof. vm_compute. split; reflexivity. Qed.

Lemma provider_cache_stale_without_clear :
  let s' := fst (prun PHeur 30%N [] {| pgr := g_ex; ptb := tb_ph; pca := [] |}
                      [PQuery t_K; PTable [(t_K, [0%N; 1%N])] false]) in
  snd (pstep PHeur 30%N [] s' (PQuery t_K)) = Some [0%N] /\
  offered PHeur (pgr s') 30%N [] (ptb s') t_K = [0%N; 1%N].
Proof. vm_compute. split; reflexivity. Qed.

Example provider_cache_example :
  snd (prun PHeur 30%N [] {| pgr := g_ex; ptb := tb_ph; pca := [] |}
            [PQuery t_K; PTable [(t_K, [0%N; 1%N])] true; PQuery t_K; PClear; PQuery t_obj]) =
  [Some [0%N]; None; Some [0%N; 1%N]; None; Some [0%N; 1%N]].
Proof. vm_compute. reflexivity. Qed.

(* ------------------------------------------------------------------------------------------ *)
(* D. update_return_type moves the registration: dropped under the old key, present under the new *)
Lemma ty_eqb_refl_gen n : forall a, size a <= n -> ty_eqb a a = true.
Proof.
  induction n as [|n IH]; intros a Hn; [pose proof (size_pos a); lia|].
  destruct a as [| |c x|x|x]; simpl; try reflexivity.
  - rewrite N.eqb_refl. simpl. apply forall2b_diag. intros u Hu. apply IH.
    apply In_size_le in Hu. simpl in Hn. lia.
  - apply forall2b_diag. intros u Hu. apply IH. apply In_size_le in Hu. simpl in Hn. lia.
  - apply forall2b_diag. intros u Hu. apply IH. apply In_size_le in Hu. simpl in Hn. lia.
Qed.

Lemma ty_eqb_refl a : ty_eqb a a = true.
Proof. apply ty_eqb_refl_gen with (n := size a). auto. Qed.

Lemma tb_add_In tb new g e : In e (tb_add tb new g) -> In e tb \/ fst e = new.
Proof.
  induction tb as [|e0 r IH]; simpl.
  - intros [<-|[]]. right. reflexivity.
  - destruct (ty_eqb (fst e0) new) eqn:E.
    + intros [<-|H]; [right; simpl; apply ty_eqb_eq; exact E|left; right; exact H].
    + intros [<-|H]; [left; left; reflexivity|]. destruct (IH H) as [H1|H1]; [left; right; exact H1|right; exact H1].
Qed.

Lemma tb_add_registers tb new g : exists e, In e (tb_add tb new g) /\ fst e = new /\ In g (snd e).
Proof.
  induction tb as [|e0 r IH]; simpl.
  - exists (new, [g]). simpl. auto.
  - destruct (ty_eqb (fst e0) new) eqn:E.
    + eexists. split; [left; reflexivity|]. simpl. split; [apply ty_eqb_eq; exact E|].
      destruct (memN g (snd e0)) eqn:M; [apply memN_In; exact M|apply in_or_app; right; simpl; auto].
    + destruct IH as [e [H1 H2]]. exists e. split; [right; exact H1|exact H2].
Qed.

Lemma tb_drop_In tb old g e :
  In e (tb_drop tb old g) -> In g (snd e) ->
  ty_eqb (fst e) old = false /\ In e tb.
Proof.
  induction tb as [|e0 r IH]; simpl; [tauto|].
  destruct (ty_eqb (fst e0) old) eqn:E.
  - intros H Hg. apply in_app_or in H. destruct H as [H|H].
    + destruct (nonempty (filter (fun x => negb (N.eqb x g)) (snd e0))); [|contradiction].
      destruct H as [<-|[]]. simpl in Hg. apply filter_In in Hg. destruct Hg as [_ Hg].
      rewrite N.eqb_refl in Hg. discriminate.
    + destruct (IH H Hg) as [H1 H2]. auto.
  - intros [<-|H] Hg; [auto|]. destruct (IH H Hg) as [H1 H2]. auto.
Qed.

(* after update_return_type(g: old -> new) g is registered under the new type ... *)
Lemma update_registers_new tb g old new :
  exists e, In e (tb_update tb g old new) /\ fst e = new /\ In g (snd e).
Proof. apply tb_add_registers. Qed.

(* ... and, when it was registered under its old return type only, under nothing else *)
Lemma update_only_new tb g old new :
  (forall e, In e tb -> In g (snd e) -> fst e = old) ->
  forall e, In e (tb_update tb g old new) -> In g (snd e) -> fst e = new.
Proof.
  intros H e He Hg. apply tb_add_In in He. destruct He as [He|He]; [|exact He].
  destruct (tb_drop_In _ _ _ _ He Hg) as [H1 H2].
  rewrite (H e H2 Hg) in H1. rewrite ty_eqb_refl in H1. discriminate.
Qed.

(* hence the random provider offers the updated generator only for requests its NEW return type
   may be a subtype of (for the heuristic provider combine with offered_h_compatible_cov) *)
Lemma updated_generator_compatible gph tb g old new typ :
  (forall e, In e tb -> In g (snd e) -> fst e = old) ->
  In g (offered_r gph (tb_update tb g old new) typ) -> is_maybe_subtype gph new typ = true.
Proof.
  intros H Hin. apply offered_r_compatible in Hin. destruct Hin as [e [He [Hg Hm]]].
  rewrite <- (update_only_new tb g old new H e He Hg). exact Hm.
Qed.

Example update_example :
  tb_update tb_ex 3%N TAny (TUnion [t_K]) =
    [(t_K, [0%N]); (t_list t_int, [1%N]); (TUnion [t_int; TNone], [2%N]); (TUnion [t_K], [3%N])] /\
  offered_r g_ex (tb_update tb_ex 3%N TAny (TUnion [t_K])) t_str = [] /\
  offered_r g_ex tb_ex t_str = [3%N].
Proof. vm_compute. repeat split; reflexivity. Qed.

(* ------------------------------------------------------------------------------------------ *)
(* E. queries are observations: a history of queries and evictions changes neither the graph nor any
   later answer *)
Definition is_observation (o : op) : bool := match o with AddEdge _ _ => false | _ => true end.

Lemma step_observation_graph i anyd s o : is_observation o = true -> gr (fst (step i anyd s o)) = gr s.
Proof.
  destruct o as [q|p c|q]; simpl; intro H; try discriminate; [|reflexivity].
  destruct (cache_get (ca s) q); reflexivity.
Qed.

Lemma run_observation_graph i anyd ops : forall s,
  forallb is_observation ops = true -> gr (fst (run i anyd s ops)) = gr s.
Proof.
  induction ops as [|o ops IH]; intros s H; [reflexivity|].
  simpl in H. apply andb_true_iff in H. destruct H as [H1 H2]. rewrite run_cons.
  pose proof (step_observation_graph i anyd s o H1) as G.
  destruct (step i anyd s o) as [s1 a] eqn:E1. simpl in G.
  specialize (IH s1 H2). destruct (run i anyd s1 ops) as [s2 l] eqn:E2. simpl in *. congruence.
Qed.

Lemma queries_leave_answers_unchanged anyd s ops q :
  fresh_cache (gr s) anyd (ca s) -> forallb is_observation ops = true ->
  snd (step true anyd (fst (run true anyd s ops)) (Query q)) = Some (compute (gr s) anyd q).
Proof.
  intros F H. rewrite step_query_answer by (apply run_fresh; exact F).
  rewrite (run_observation_graph true anyd ops s H). reflexivity.
Qed.
