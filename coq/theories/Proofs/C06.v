(* C06 — proofs: the executable post-dominance / control-dependence computation equals the
   path-based definition for every finite graph; the checked well-formedness implies the stated
   CFG shape; every node is reachable from the root in the control-dependence graph; a node
   without control dependency is root dependent; the case checker is sound. *)
From Coq Require Import List NArith Bool Arith Lia.
From Verif Require Import Base.Graph Models.C06.
Import ListNotations.
Import Graph C06.

(* ------------------------------------------------------------------ post-dominance *)
Lemma walk_avoid_end E b x p z :
  walk (avoid E b) x p z -> z <> b -> walk E x p z /\ ~ In b p.
Proof.
  intros H. induction H as [x | x y p z Hxy _ IH]; intro Hz.
  - split; [apply walk_nil|]. intros [H | []]. congruence.
  - apply avoid_In in Hxy. destruct Hxy as [Hxy [Hx _]].
    destruct (IH Hz) as [Hw Hn]. split; [eapply walk_cons; eauto|].
    intros [H | H]; [congruence | exact (Hn H)].
Qed.

Lemma escape_set_spec E ex b x :
  In x (escape_set E ex b) <-> exists p, walk E x p ex /\ ~ In b p.
Proof.
  unfold escape_set. destruct (N.eqb b ex) eqn:Hb.
  - apply N.eqb_eq in Hb. subst b. split; [intros []|].
    intros [p [Hw Hn]]. apply Hn. eapply walk_in_end; eauto.
  - apply N.eqb_neq in Hb. rewrite reach_set_spec. split.
    + intros [a [[Ha | []] Hr]]. subst a. apply (proj1 (reach_rev _ _ _)) in Hr.
      destruct (reach_walk _ _ _ Hr) as [p Hp]. exists p.
      apply walk_avoid_end; [exact Hp | congruence].
    + intros [p [Hw Hn]]. exists ex. split; [left; reflexivity|].
      apply (proj2 (reach_rev _ _ _)). eapply walk_reach. apply avoid_walk; eauto.
Qed.

Lemma postdomb_spec E ex b x : postdomb E ex b x = true <-> postdom E ex b x.
Proof.
  unfold postdomb, postdom. rewrite negb_true_iff, memb_false, escape_set_spec. split.
  - intros H p Hw. destruct (in_dec N.eq_dec b p) as [Hi | Hn]; [exact Hi|].
    exfalso. apply H. exists p. split; assumption.
  - intros H [p [Hw Hn]]. apply Hn. apply H. exact Hw.
Qed.

Lemma postdomb_false E ex b x : postdomb E ex b x = false <-> ~ postdom E ex b x.
Proof.
  rewrite <- postdomb_spec. destruct (postdomb E ex b x); split; intro H.
  - discriminate H.
  - exfalso. apply H. reflexivity.
  - intro H1. discriminate H1.
  - reflexivity.
Qed.

Lemma postdom_dec E ex b x : {postdom E ex b x} + {~ postdom E ex b x}.
Proof.
  destruct (postdomb E ex b x) eqn:H.
  - left. apply postdomb_spec. exact H.
  - right. apply postdomb_false. exact H.
Qed.

Lemma postdom_refl E ex b : postdom E ex b b.
Proof. intros p Hw. eapply walk_in_start; eauto. Qed.

(* ------------------------------------------------------------------ control dependence *)
Lemma uedges_In L a b : In (a, b) (uedges L) <-> exists v, In (a, v, b) L.
Proof.
  unfold uedges. rewrite in_map_iff. split.
  - intros [[[a' v] b'] [He Hin]]. cbn [src dst fst snd] in He. inversion He; subst. eauto.
  - intros [v H]. exists (a, v, b). split; [reflexivity | exact H].
Qed.

Lemma cd_for_spec L ex b a v b' :
  In (a, v, b') (cd_for L ex b) <-> b' = b /\ cd_spec L ex a v b.
Proof.
  unfold cd_for, cd_spec. rewrite in_map_iff. split.
  - intros [[[a0 v0] s] [He Hin]]. cbn [src lab dst fst snd] in He. inversion He; subst a0 v0 b'.
    apply filter_In in Hin. destruct Hin as [Hin Hc]. cbn [src lab dst fst snd] in Hc.
    apply andb_true_iff in Hc. destruct Hc as [H1 H2].
    split; [reflexivity|]. exists s. split; [exact Hin|].
    split; [apply postdomb_spec; exact H1|].
    intros [Hne Hp]. apply orb_true_iff in H2. destruct H2 as [H2 | H2].
    + apply N.eqb_eq in H2. congruence.
    + apply postdomb_spec in Hp. unfold postdomb in Hp. rewrite H2 in Hp. discriminate Hp.
  - intros [-> [s [Hin [Hp Hn]]]]. exists (a, v, s). split; [reflexivity|].
    apply filter_In. split; [exact Hin|]. cbn [src lab dst fst snd].
    apply andb_true_iff. split; [apply postdomb_spec in Hp; exact Hp|].
    apply orb_true_iff. destruct (N.eqb b a) eqn:Hba; [left; reflexivity|]. right.
    apply N.eqb_neq in Hba.
    destruct (memb a (escape_set (uedges L) ex b)) eqn:Hm; [reflexivity|].
    exfalso. apply Hn. split; [exact Hba|]. apply postdomb_spec. unfold postdomb. rewrite Hm. reflexivity.
Qed.

Lemma cdg_full_spec Ns L ex a v b :
  In (a, v, b) (cdg_full Ns L ex) <-> In b Ns /\ cd_spec L ex a v b.
Proof.
  unfold cdg_full. rewrite in_flat_map. split.
  - intros [b0 [Hb Hin]]. apply cd_for_spec in Hin. destruct Hin as [-> Hc]. split; assumption.
  - intros [Hb Hc]. exists b. split; [exact Hb|]. apply cd_for_spec. split; [reflexivity | exact Hc].
Qed.

Theorem cdg_model_spec g a v b :
  In (a, v, b) (cdg_model g) <->
  In b (aug_nodes g) /\ artificial a = false /\ artificial b = false /\
  cd_spec (aug_edges g) EXIT a v b.
Proof.
  unfold cdg_model. rewrite filter_In, cdg_full_spec. cbn [src dst fst snd].
  rewrite andb_true_iff, !negb_true_iff. tauto.
Qed.

(* ------------------------------------------------------------------ well-formedness *)
Lemma forallb_memb_incl l R : forallb (fun n => memb n R) l = true <-> incl l R.
Proof.
  rewrite forallb_forall. unfold incl. split; intros H n Hn.
  - apply memb_In. apply H. exact Hn.
  - apply memb_In. apply H. exact Hn.
Qed.

Lemma filter_length1 {A} (f : A -> bool) l x y :
  length (filter f l) = 1 -> In x l -> f x = true -> In y l -> f y = true -> x = y.
Proof.
  intros Hl Hx Hfx Hy Hfy.
  assert (Hx' : In x (filter f l)) by (apply filter_In; split; assumption).
  assert (Hy' : In y (filter f l)) by (apply filter_In; split; assumption).
  destruct (filter f l) as [|z [|z' r]]; cbn [length] in Hl; try discriminate Hl.
  destruct Hx' as [<- | []]. destruct Hy' as [<- | []]. reflexivity.
Qed.

Theorem cfg_wfb_sound g : cfg_wfb g = true -> wf g.
Proof.
  unfold cfg_wfb. rewrite !andb_true_iff.
  intros [[[[[[He Hx] Ha] Hed] Hone] Hfrom] Hto].
  apply memb_In in He. apply memb_In in Hx.
  apply negb_true_iff in Ha. apply memb_false in Ha.
  rewrite forallb_forall in Hed.
  assert (Hedge : forall a v b, In (a, v, b) (edges g) ->
            In a (nodes g) /\ In b (nodes g) /\ b <> ENTRY /\ a <> EXIT).
  { intros a v b Hin. specialize (Hed _ Hin). cbn [src dst fst snd] in Hed.
    rewrite !andb_true_iff, !negb_true_iff, !N.eqb_neq, !memb_In in Hed. tauto. }
  apply Nat.eqb_eq in Hone.
  cbv zeta in Hfrom, Hto. rewrite forallb_memb_incl in Hfrom, Hto.
  constructor; try assumption.
  - intros a v b Hin. destruct (Hedge _ _ _ Hin) as [H1 [H2 _]]. split; assumption.
  - intros a v Hin. destruct (Hedge _ _ _ Hin) as [_ [_ [H _]]]. apply H. reflexivity.
  - intros v b Hin. destruct (Hedge _ _ _ Hin) as [_ [_ [_ H]]]. apply H. reflexivity.
  - intros v b v' b' H1 H2.
    assert (Heq : (ENTRY, v, b) = (ENTRY, v', b')).
    { eapply (filter_length1 (fun e : ledge => N.eqb (src e) ENTRY)); eauto. }
    inversion Heq. reflexivity.
  - intros n Hn. apply Hfrom in Hn. apply reach_set_spec in Hn.
    destruct Hn as [a [[<- | []] Hr]]. exact Hr.
  - intros n Hn. apply Hto in Hn. apply reach_set_spec in Hn.
    destruct Hn as [a [[<- | []] Hr]]. apply (proj1 (reach_rev _ _ _)) in Hr. exact Hr.
Qed.

(* consequences stated in the property: a single entry and a single exit *)
Lemma reach_last E a z : reach E a z -> a = z \/ exists y, In (y, z) E.
Proof. intro H. destruct H; [left; reflexivity | right; eauto]. Qed.

Lemma reach_first E a z : reach E a z -> a = z \/ exists y, In (a, y) E.
Proof.
  intro H. induction H as [|y z Hr IH Hyz]; [left; reflexivity|]. right.
  destruct IH as [-> | IH]; eauto.
Qed.

Theorem wf_single_entry g : wf g ->
  forall n, In n (nodes g) -> n <> ENTRY -> exists a v, In (a, v, n) (edges g).
Proof.
  intros W n Hn Hne. destruct (reach_last _ _ _ (wf_from_entry g W n Hn)) as [H | [y H]].
  - congruence.
  - apply uedges_In in H. destruct H as [v H]. eauto.
Qed.

Theorem wf_single_exit g : wf g ->
  forall n, In n (nodes g) -> n <> EXIT -> exists v b, In (n, v, b) (edges g).
Proof.
  intros W n Hn Hne. destruct (reach_first _ _ _ (wf_to_exit g W n Hn)) as [H | [y H]].
  - congruence.
  - apply uedges_In in H. destruct H as [v H]. eauto.
Qed.

(* ------------------------------------------------------------------ root reachability *)
Section RootReach.
Variable g : cfg.
Hypothesis W : wf g.

Let L := aug_edges g.
Let E := uedges L.

Lemma aug_edge_cases a v b :
  In (a, v, b) L <-> (a = AUG /\ v = None /\ (b = ENTRY \/ b = EXIT)) \/ In (a, v, b) (edges g).
Proof.
  unfold L, aug_edges. cbn [In]. split.
  - intros [H | [H | H]]; [inversion H; subst; left; auto | inversion H; subst; left; auto | right; exact H].
  - intros [[-> [-> [-> | ->]]] | H]; auto.
Qed.

Lemma edge_src_not_exit a v b : In (a, v, b) L -> a <> EXIT.
Proof.
  intros H ->. apply aug_edge_cases in H. destruct H as [[H _] | H].
  - discriminate H.
  - exact (wf_exit_no_succ g W _ _ H).
Qed.

Lemma edge_src_in a v b : In (a, v, b) L -> In a (aug_nodes g).
Proof.
  intro H. apply aug_edge_cases in H. destruct H as [[-> _] | H].
  - left. reflexivity.
  - right. apply (wf_edges g W _ _ _ H).
Qed.

Lemma not_postdom_aug n : n <> AUG -> n <> EXIT -> ~ postdom E EXIT n AUG.
Proof.
  intros H1 H2 Hp.
  assert (Hw : walk E AUG [AUG; EXIT] EXIT).
  { eapply walk_cons; [|apply walk_nil]. apply uedges_In. exists None.
    unfold L, aug_edges. right. left. reflexivity. }
  specialize (Hp _ Hw). destruct Hp as [H | [H | []]]; congruence.
Qed.

Lemma entry_postdom n v s :
  In (ENTRY, v, s) L -> postdom E EXIT n s -> postdom E EXIT n ENTRY.
Proof.
  intros Hin Hp p Hw. inversion Hw as [x Hx | x y q z Hxy Hq]; subst.
  apply uedges_In in Hxy. destruct Hxy as [v' Hxy].
  apply aug_edge_cases in Hin. apply aug_edge_cases in Hxy.
  destruct Hin as [[Hin _] | Hin]; [discriminate Hin|].
  destruct Hxy as [[Hxy _] | Hxy]; [discriminate Hxy|].
  pose proof (wf_entry_one_succ g W _ _ _ _ Hin Hxy) as Heq. inversion Heq; subst.
  right. apply Hp. exact Hq.
Qed.

(* Walking from x to n, where n does not post-dominate x: some node y of the walk has an edge to a
   node post-dominated by n while n does not post-dominate y. *)
Lemma ctrl_step n : forall x p, walk E x p n -> ~ postdom E EXIT n x ->
  exists y q v s, walk E x q y /\ length q < length p /\
                  In (y, v, s) L /\ postdom E EXIT n s /\ ~ postdom E EXIT n y.
Proof.
  intros x p Hw. induction Hw as [x | x y p z Hxy Hw IH]; intro Hnp.
  - exfalso. apply Hnp. apply postdom_refl.
  - destruct (postdom_dec E EXIT z y) as [Hy | Hy].
    + apply uedges_In in Hxy. destruct Hxy as [v Hxy].
      exists x, [x], v, y. repeat split; try assumption; [apply walk_nil|].
      destruct (walk_head _ _ _ _ Hw) as [q ->]. cbn [length]. lia.
    + destruct (IH Hy) as [y' [q [v [s [Hq [Hl H]]]]]].
      exists y', (x :: q), v, s. split; [eapply walk_cons; eauto|].
      split; [cbn [length]; lia | exact H].
Qed.

Lemma root_reach_aux : forall k n p,
  walk E AUG p n -> length p <= k -> In n (aug_nodes g) -> n <> ENTRY -> n <> EXIT ->
  reach (uedges (cdg_model g)) AUG n.
Proof.
  induction k as [|k IH]; intros n p Hw Hk Hn Hne Hnx.
  - destruct (walk_head _ _ _ _ Hw) as [q ->]. cbn [length] in Hk. lia.
  - destruct (N.eq_dec n AUG) as [-> | Hna]; [apply reach_refl|].
    destruct (ctrl_step n AUG p Hw (not_postdom_aug n Hna Hnx))
      as [y [q [v [s [Hq [Hl [Hin [Hps Hnpy]]]]]]]].
    assert (Hyx : y <> EXIT) by (eapply edge_src_not_exit; eauto).
    assert (Hye : y <> ENTRY).
    { intros ->. apply Hnpy. eapply entry_postdom; eauto. }
    apply reach_step with (y := y).
    + apply (IH y q); [exact Hq | lia | eapply edge_src_in; eauto | exact Hye | exact Hyx].
    + apply uedges_In. exists v. apply cdg_model_spec.
      assert (Hart : forall m, m <> ENTRY -> m <> EXIT -> artificial m = false).
      { intros m H1 H2. unfold artificial. apply orb_false_iff.
        split; apply N.eqb_neq; assumption. }
      split; [exact Hn|]. split; [apply Hart; assumption|]. split; [apply Hart; assumption|].
      exists s. split; [exact Hin|]. split; [exact Hps|]. intros [_ H]. exact (Hnpy H).
Qed.

Lemma aug_reaches n : In n (nodes g) -> exists p, walk E AUG p n.
Proof.
  intro Hn. apply reach_walk. apply reach_cons with (b := ENTRY).
  - apply uedges_In. exists None. unfold L, aug_edges. left. reflexivity.
  - eapply reach_incl; [|apply (wf_from_entry g W n Hn)].
    intros [a b] H. apply uedges_In in H. destruct H as [v H]. apply uedges_In. exists v.
    unfold L, aug_edges. right. right. exact H.
Qed.

Theorem cdg_root_reachable n :
  In n (nodes g) -> n <> ENTRY -> n <> EXIT -> reach (uedges (cdg_model g)) AUG n.
Proof.
  intros Hn H1 H2. destruct (aug_reaches n Hn) as [p Hp].
  eapply root_reach_aux; [exact Hp | apply Nat.le_refl | right; exact Hn | exact H1 | exact H2].
Qed.

(* a labelled control dependence is a dependence on a real branch outcome of the CFG *)
Lemma cdg_labelled_edge_is_branch a v b :
  In (a, Some v, b) (cdg_model g) -> exists s, In (a, Some v, s) (edges g).
Proof.
  intro H. apply cdg_model_spec in H. destruct H as [_ [_ [_ [s [Hin _]]]]].
  apply aug_edge_cases in Hin. destruct Hin as [[_ [Hv _]] | Hin]; [discriminate Hv|]. eauto.
Qed.

End RootReach.

(* ------------------------------------------------------------------ queries *)
Lemma back_closure_spec C n x : In x (back_closure C n) <-> reach (unl C) x n.
Proof.
  unfold back_closure. rewrite reach_set_spec. split.
  - intros [a [[<- | []] Hr]]. apply (proj1 (reach_rev _ _ _)) in Hr. exact Hr.
  - intro Hr. exists n. split; [left; reflexivity | apply (proj2 (reach_rev _ _ _)); exact Hr].
Qed.

Lemma unl_In C a b : In (a, b) (unl C) <-> exists v, In (a, v, b) C /\ unlabelled (a, v, b) = true.
Proof.
  unfold unl. rewrite uedges_In. split; intros [v H]; exists v.
  - apply filter_In in H. exact H.
  - apply filter_In. exact H.
Qed.

Lemma is_root_model_spec C n :
  is_root_model C n = true <-> exists v x, In (AUG, v, x) C /\ reach (unl C) x n.
Proof.
  unfold is_root_model. cbv zeta. rewrite existsb_exists. split.
  - intros [[[a v] x] [Hin Hc]]. cbn [src dst fst snd] in Hc.
    apply andb_true_iff in Hc. destruct Hc as [Ha Hm]. apply N.eqb_eq in Ha. subst a.
    exists v, x. split; [exact Hin|]. apply back_closure_spec. apply memb_In. exact Hm.
  - intros [v [x [Hin Hr]]]. exists (AUG, v, x). split; [exact Hin|]. cbn [src dst fst snd].
    apply andb_true_iff. split; [apply N.eqb_refl|]. apply memb_In. apply back_closure_spec. exact Hr.
Qed.

Lemma deps_model_spec C n p v :
  In (p, v) (deps_model C n) <->
  exists x, In (p, Some v, x) C /\ p <> AUG /\ reach (unl C) x n.
Proof.
  unfold deps_model. cbv zeta. rewrite in_flat_map. split.
  - intros [[[a l] x] [Hin Hc]]. cbn [src lab dst fst snd] in Hc.
    destruct l as [v0|]; [|destruct Hc].
    unfold unlabelled in Hc. cbn [src lab fst snd] in Hc.
    destruct (N.eqb a AUG) eqn:Ha; cbn [negb andb] in Hc; [destruct Hc|].
    destruct (memb x (back_closure C n)) eqn:Hm; [|destruct Hc].
    destruct Hc as [Hc | []]. inversion Hc; subst a v0.
    exists x. split; [exact Hin|]. split; [apply N.eqb_neq; exact Ha|].
    apply back_closure_spec. apply memb_In. exact Hm.
  - intros [x [Hin [Hp Hr]]]. exists (p, Some v, x). split; [exact Hin|].
    cbn [src lab dst fst snd]. unfold unlabelled. cbn [src lab fst snd].
    apply N.eqb_neq in Hp. rewrite Hp. cbn [negb andb].
    apply back_closure_spec in Hr. apply memb_In in Hr. rewrite Hr. left. reflexivity.
Qed.

(* every node of the CDG that is reachable from the root is root dependent or has a dependency *)
Lemma reach_root_or_dep C n :
  reach (uedges C) AUG n -> n <> AUG ->
  is_root_model C n = true \/ exists d, In d (deps_model C n).
Proof.
  intro Hr. induction Hr as [|y z Hr IH Hyz]; intro Hn; [congruence|].
  apply uedges_In in Hyz. destruct Hyz as [l Hyz].
  destruct (N.eq_dec y AUG) as [-> | Hy].
  - left. apply is_root_model_spec. exists l, z. split; [exact Hyz | apply reach_refl].
  - destruct l as [v|].
    + right. exists (y, v). apply deps_model_spec. exists z.
      split; [exact Hyz|]. split; [exact Hy | apply reach_refl].
    + assert (Hu : In (y, z) (unl C)).
      { apply unl_In. exists None. split; [exact Hyz | reflexivity]. }
      destruct (IH Hy) as [H | [[p v] H]].
      * left. apply is_root_model_spec in H. destruct H as [v [x [Hin Hrx]]].
        apply is_root_model_spec. exists v, x. split; [exact Hin|]. eapply reach_step; eauto.
      * right. exists (p, v). apply deps_model_spec in H. destruct H as [x [Hin [Hp Hrx]]].
        apply deps_model_spec. exists x. split; [exact Hin|]. split; [exact Hp|].
        eapply reach_step; eauto.
Qed.

Theorem root_or_dependency g n :
  wf g -> In n (nodes g) -> n <> ENTRY -> n <> EXIT ->
  is_root_model (cdg_model g) n = true \/ deps_model (cdg_model g) n <> [].
Proof.
  intros W Hn H1 H2.
  assert (Hna : n <> AUG) by (intros ->; exact (wf_aug g W Hn)).
  destruct (reach_root_or_dep _ n (cdg_root_reachable g W n Hn H1 H2) Hna) as [H | [d H]].
  - left. exact H.
  - right. intro He. rewrite He in H. destruct H.
Qed.

Theorem dependency_is_branch g n p v :
  wf g -> In (p, v) (deps_model (cdg_model g) n) -> exists s, In (p, Some v, s) (edges g).
Proof.
  intros W H. apply deps_model_spec in H. destruct H as [x [Hin _]].
  eapply cdg_labelled_edge_is_branch; eauto.
Qed.

(* ------------------------------------------------------------------ soundness of the checker *)
Lemma ledge_eqb_eq e f : ledge_eqb e f = true <-> e = f.
Proof.
  destruct e as [[a v] b], f as [[a' v'] b']. unfold ledge_eqb. cbn [src lab dst fst snd].
  rewrite !andb_true_iff, !N.eqb_eq. split.
  - intros [[-> ->] H]. destruct v as [x|], v' as [y|]; try discriminate H; [|reflexivity].
    apply eqb_prop in H. subst. reflexivity.
  - intro H. inversion H; subst. split; [split; reflexivity|].
    destruct v' as [y|]; [apply eqb_reflx | reflexivity].
Qed.

Lemma lmem_In e l : lmem e l = true <-> In e l.
Proof.
  unfold lmem. rewrite existsb_exists. split.
  - intros [f [Hf He]]. apply ledge_eqb_eq in He. subst. exact Hf.
  - intro H. exists e. split; [exact H | apply ledge_eqb_eq; reflexivity].
Qed.

Lemma lset_eqb_spec l1 l2 : lset_eqb l1 l2 = true <-> (forall e, In e l1 <-> In e l2).
Proof.
  unfold lset_eqb. rewrite andb_true_iff, !forallb_forall. split.
  - intros [H1 H2] e. split; intro H; apply lmem_In; [apply H1 | apply H2]; exact H.
  - intro H. split; intros e He; apply lmem_In; apply H; exact He.
Qed.

Theorem check_case_sound g C os :
  check_case (g, C, os) = true ->
  wf g /\
  (forall a v b, In (a, v, b) C <->
     In b (aug_nodes g) /\ artificial a = false /\ artificial b = false /\
     cd_spec (aug_edges g) EXIT a v b).
Proof.
  unfold check_case, check_code. intro H.
  destruct (cfg_wfb g) eqn:Hw; cbn [negb] in H; [|discriminate H].
  cbv zeta in H.
  destruct (lset_eqb (cdg_model g) C) eqn:Hc; cbn [negb] in H; [|discriminate H].
  split; [apply cfg_wfb_sound; exact Hw|].
  intros a v b. rewrite <- cdg_model_spec. rewrite lset_eqb_spec in Hc. symmetry. apply Hc.
Qed.

(* ------------------------------------------------------------------ non-vacuity examples *)
(* if/else diamond: 3 -> 4 (True), 3 -> 5 (False), 4 -> 6, 5 -> 6, 6 -> EXIT *)
Definition ex_diamond : cfg :=
  {| nodes := [1; 2; 3; 4; 5; 6]%N;
     edges := [(1, None, 3); (3, Some true, 4); (3, Some false, 5); (4, None, 6); (5, None, 6);
               (6, None, 2)]%N |}.

Example ex_diamond_wf : cfg_wfb ex_diamond = true.
Proof. vm_compute. reflexivity. Qed.

Example ex_diamond_cdg :
  lset_eqb (cdg_model ex_diamond)
           [(0, None, 3); (0, None, 6); (3, Some true, 4); (3, Some false, 5)]%N = true.
Proof. vm_compute. reflexivity. Qed.

(* a block that yields (edge to EXIT) and ends in a conditional jump: node 6 depends on BOTH
   outcomes of node 3 (the shape of glob._rlistdir) *)
Definition ex_yield : cfg :=
  {| nodes := [1; 2; 3; 4; 5; 6]%N;
     edges := [(1, None, 3); (3, None, 2); (3, Some true, 4); (3, Some false, 5); (4, None, 6);
               (5, None, 6); (6, None, 2)]%N |}.

Example ex_yield_wf : cfg_wfb ex_yield = true.
Proof. vm_compute. reflexivity. Qed.

Example ex_yield_cdg :
  lset_eqb (cdg_model ex_yield)
           [(0, None, 3); (3, Some true, 4); (3, Some false, 5); (3, Some true, 6);
            (3, Some false, 6)]%N = true.
Proof. vm_compute. reflexivity. Qed.

Example ex_yield_deps :
  dset_eqb (deps_model (cdg_model ex_yield) 6%N) [(3%N, true); (3%N, false)] = true /\
  is_root_model (cdg_model ex_yield) 6%N = false /\
  is_root_model (cdg_model ex_yield) 3%N = true.
Proof. vm_compute. repeat split. Qed.
