(* C23 — proofs about Models/C23.v. *)
From Coq Require Import List ZArith NArith Bool String Lia.
From Coq Require Import PrimFloat FloatAxioms.
From Verif Require Import Base.PyExpr Base.PyExprFacts Models.C23.
Import ListNotations.
Open Scope Z_scope.

Import PyExpr PyExprFacts C23.

Section Atoms.
  Variables ftok itok stok btok : Type.
  Variable repr_float : float -> ftok.
  Variable repr_nat : Z -> itok.
  Variable repr_str : pystr -> stok.
  Variable repr_bytes : pystr -> btok.
  Variable parse_float : ftok -> float.
  Variable parse_int : itok -> Z.
  Variable parse_str : stok -> pystr.
  Variable parse_bytes : btok -> pystr.
  Variable float_of_Z : Z -> float.

  (* the atom round trips (CPython: float(repr(x)) == x for finite x, int(str(n)) == n,
     the tokenizer reads repr(s) back as s) *)
  Hypothesis float_rt : forall f, ftok_ok f = true -> parse_float (repr_float f) = f.
  Hypothesis nat_rt : forall n, 0 <= n -> parse_int (repr_nat n) = n.
  Hypothesis str_rt : forall s, parse_str (repr_str s) = s.
  Hypothesis bytes_rt : forall s, parse_bytes (repr_bytes s) = s.

  Notation expr := (PyExpr.expr ftok itok stok btok).
  Notation eval := (PyExpr.eval parse_float parse_int parse_str parse_bytes).
  Notation lit := (literal_to_cst ftok itok stok btok repr_float repr_nat repr_str repr_bytes).
  Notation f2c := (float_to_cst ftok itok stok btok repr_float repr_str).
  Notation i2c := (int_to_cst ftok itok stok btok repr_nat).
  Notation leval := (literal_eval ftok itok stok btok parse_float parse_int parse_str parse_bytes).
  Notation parse_lit := (parse_literal ftok itok stok btok parse_float parse_int parse_str parse_bytes float_of_Z).
  Notation gen := (generate_literal ftok itok stok btok repr_float repr_nat repr_str repr_bytes).
  Notation mut := (mutate_literal ftok itok stok btok repr_float repr_nat repr_str repr_bytes parse_float parse_int float_of_Z).
  Notation dmut := (dispatch_mutate ftok itok stok btok repr_float repr_nat repr_str repr_bytes parse_float parse_int float_of_Z).
  Notation shp := (shape ftok itok stok btok parse_str).
  Notation eshape := (elem_shape ftok itok stok btok parse_str).
  Notation fshape := (float_shape ftok itok stok btok parse_str).
  Notation ishape := (int_shape ftok itok stok btok).
  Notation el := (elem_expr ftok itok stok btok repr_float repr_nat repr_str).
  Notation refs := (refs_ok ftok itok stok btok parse_float parse_int parse_str parse_bytes).
  Notation refok := (ref_ok ftok itok stok btok parse_float parse_int parse_str parse_bytes).

  (* ------------------------------------------------------------------------------------------ *)
  (* scalars *)
  Lemma eval_int g z : eval g (i2c z) = Ok (VInt z).
  Proof.
    unfold int_to_cst. destruct (z <? 0) eqn:E.
    - rewrite eval_neg. simpl. rewrite nat_rt by lia. simpl. f_equal. f_equal. lia.
    - simpl. rewrite nat_rt by lia. reflexivity.
  Qed.

  (* the non-negative part |f| *)
  Lemma eval_float_inner g f :
    unshadowed g "float" = true ->
    eval g (if ffinite (PrimFloat.abs f) then EFloat (repr_float (PrimFloat.abs f))
            else float_call ftok itok stok btok repr_str (if fnan (PrimFloat.abs f) then "nan" else "inf"))
    = Ok (VFloat (PrimFloat.abs f)).
  Proof.
    intro Hu. destruct (ffinite (PrimFloat.abs f)) eqn:Ef.
    - simpl. rewrite float_rt by (apply ftok_ok_abs; exact Ef). reflexivity.
    - unfold float_call.
      assert (Hc := fclass_abs f). unfold ffinite in Ef. unfold fnan.
      destruct (fclass f) eqn:Ec; rewrite Hc in *; try discriminate.
      + rewrite (eval_float_call _ _ _ _ _ _ _ _ g _ "nan" Hu (str_rt _)).
        rewrite (call_float _ _ _ _ g "nan" nan Hu) by tauto. rewrite (class_nan _ Hc). reflexivity.
      + rewrite (eval_float_call _ _ _ _ _ _ _ _ g _ "inf" Hu (str_rt _)).
        rewrite (call_float _ _ _ _ g "inf" infinity Hu) by tauto. rewrite (class_inf _ Hc). reflexivity.
  Qed.

  Lemma eval_float g f : unshadowed g "float" = true -> eval g (f2c f) = Ok (VFloat f).
  Proof.
    intro Hu. unfold float_to_cst. cbv zeta. destruct (fneg f) eqn:En.
    - rewrite eval_neg. rewrite (eval_float_inner g f Hu). simpl. rewrite (opp_abs _ En). reflexivity.
    - rewrite (eval_float_inner g f Hu). rewrite (abs_nonneg _ En). reflexivity.
  Qed.

  Lemma eval_complex g a b :
    unshadowed g "float" = true -> unshadowed g "complex" = true ->
    eval g (complex_to_cst ftok itok stok btok repr_float repr_str a b) = Ok (VComplex a b).
  Proof.
    intros Hf Hc. unfold complex_to_cst. rewrite eval_call.
    change (mapM (eval g) [f2c a; f2c b]) with
      (match eval g (f2c a) with
       | Ok y => match (match eval g (f2c b) with Ok y0 => Ok [y0] | Err e => Err e end) with
                 | Ok ys => Ok (y :: ys) | Err e => Err e end
       | Err e => Err e end).
    rewrite !eval_float by assumption. simpl. rewrite Hc. reflexivity.
  Qed.

  (* ------------------------------------------------------------------------------------------ *)
  (* eval . render = id *)
  Lemma visible_parts g :
    builtins_visible g = true ->
    unshadowed g "float" = true /\ unshadowed g "complex" = true /\ unshadowed g "set" = true.
  Proof.
    unfold builtins_visible. intro H. apply andb_prop in H as [H H3]. apply andb_prop in H as [H1 H2]. tauto.
  Qed.

  Lemma eval_render : forall g v,
    builtins_visible g = true -> literal_value v = true -> wfb v = true -> eval g (lit v) = Ok v.
  Proof.
    intros g v Hg. destruct (visible_parts g Hg) as [Hf [Hc Hs]].
    induction v using value_ind_nested; intros Hl Hw; simpl in Hl; try discriminate.
    - reflexivity.
    - cbn [literal_to_cst]. destruct b; reflexivity.
    - cbn [literal_to_cst]. apply eval_int.
    - cbn [literal_to_cst]. apply eval_float. exact Hf.
    - cbn [literal_to_cst]. apply eval_complex; assumption.
    - simpl. rewrite str_rt. reflexivity.
    - simpl. rewrite bytes_rt. reflexivity.
    - (* list *)
      cbn [literal_to_cst]. rewrite eval_list. rewrite (mapM_map_ok (eval g) lit l); [reflexivity|].
      simpl in Hw. rewrite forallb_forall in Hl, Hw. rewrite Forall_forall in H |- *.
      intros x Hx. apply H; auto.
    - cbn [literal_to_cst]. rewrite eval_tuple. rewrite (mapM_map_ok (eval g) lit l); [reflexivity|].
      simpl in Hw. rewrite forallb_forall in Hl, Hw. rewrite Forall_forall in H |- *.
      intros x Hx. apply H; auto.
    - (* set *)
      simpl in Hw. apply andb_prop in Hw as [Hw Hd]. apply andb_prop in Hw as [Hw Hh].
      destruct l as [|x r].
      + cbn [literal_to_cst]. unfold set_call. rewrite eval_call. simpl. rewrite Hs. reflexivity.
      + cbn [literal_to_cst map]. rewrite eval_set.
        change (lit x :: map lit r) with (map lit (x :: r)).
        rewrite (mapM_map_ok (eval g) lit (x :: r)).
        * rewrite Hh. rewrite (set_build_distinct _ _ Hd). reflexivity.
        * rewrite forallb_forall in Hl, Hw. rewrite Forall_forall in H |- *.
          intros y Hy. apply H; auto.
    - (* dict *)
      simpl in Hw. apply andb_prop in Hw as [Hw Hd]. apply andb_prop in Hw as [Hw Hh].
      cbn [literal_to_cst]. rewrite eval_dict.
      rewrite (mapM_map_ok _ (fun kv => (lit (fst kv), lit (snd kv))) l).
      + rewrite Hh. rewrite (dict_build_distinct _ [] Hd). reflexivity.
      + rewrite forallb_forall in Hl, Hw. rewrite Forall_forall in H |- *.
        intros [k x] Hkx. simpl. destruct (H _ Hkx) as [Hk Hx]. simpl in Hk, Hx.
        specialize (Hl _ Hkx). specialize (Hw _ Hkx). simpl in Hl, Hw.
        apply andb_prop in Hl as [Hl1 Hl2]. apply andb_prop in Hw as [Hw1 Hw2].
        rewrite (Hk Hl1 Hw1), (Hx Hl2 Hw2). reflexivity.
  Qed.

  (* ------------------------------------------------------------------------------------------ *)
  (* parse . render = id *)
  Lemma parse_int_render z : parse_int_e ftok itok stok btok parse_int (i2c z) = Some z.
  Proof.
    unfold int_to_cst. destruct (z <? 0) eqn:E; simpl; rewrite nat_rt by lia; f_equal; lia.
  Qed.

  Lemma float_render_finite f :
    ffinite f = true ->
    f2c f = if fneg f then ENeg (EFloat (repr_float (PrimFloat.abs f))) else EFloat (repr_float (PrimFloat.abs f)).
  Proof. intro H. unfold float_to_cst. rewrite ffinite_abs, H. reflexivity. Qed.

  Lemma parse_float_render f :
    ffinite f = true -> parse_float_e ftok itok stok btok parse_float (f2c f) = Some f.
  Proof.
    intro H. rewrite (float_render_finite f H).
    assert (Hok : ftok_ok (PrimFloat.abs f) = true) by (apply ftok_ok_abs; rewrite ffinite_abs; exact H).
    destruct (fneg f) eqn:En; simpl; rewrite float_rt by exact Hok.
    - rewrite (opp_abs _ En). reflexivity.
    - rewrite (abs_nonneg _ En). reflexivity.
  Qed.

  Lemma leval_float f : ffinite f = true -> leval (f2c f) = Ok (VFloat f).
  Proof.
    intro H. rewrite (float_render_finite f H).
    assert (Hok : ftok_ok (PrimFloat.abs f) = true) by (apply ftok_ok_abs; rewrite ffinite_abs; exact H).
    destruct (fneg f) eqn:En; simpl; rewrite float_rt by exact Hok.
    - rewrite (opp_abs _ En). reflexivity.
    - rewrite (abs_nonneg _ En). reflexivity.
  Qed.

  Lemma leval_int z : leval (i2c z) = Ok (VInt z).
  Proof.
    unfold int_to_cst. destruct (z <? 0) eqn:E; simpl; rewrite nat_rt by lia; do 2 f_equal; lia.
  Qed.

  Lemma leval_list (l : list expr) :
    leval (EList l) = match mapM leval l with Ok vs => Ok (VList vs) | Err x => Err x end.
  Proof. reflexivity. Qed.
  Lemma leval_tuple (l : list expr) :
    leval (ETuple l) = match mapM leval l with Ok vs => Ok (VTuple vs) | Err x => Err x end.
  Proof. reflexivity. Qed.
  Lemma leval_set (x : expr) r :
    leval (ESet (x :: r)) =
    match mapM leval (x :: r) with
    | Ok vs => if forallb hashable vs then Ok (VSet (set_build [] vs)) else Err TypeError
    | Err e => Err e
    end.
  Proof. reflexivity. Qed.
  Lemma leval_dict (l : list (expr * expr)) :
    leval (EDict l) =
    match mapM (fun p => match leval (fst p) with
                         | Ok k => match leval (snd p) with Ok v => Ok (k, v) | Err x => Err x end
                         | Err x => Err x
                         end) l with
    | Ok kvs => if forallb (fun kv => hashable (fst kv)) kvs then Ok (VDict (dict_build [] kvs)) else Err TypeError
    | Err x => Err x
    end.
  Proof. reflexivity. Qed.

  Lemma leval_render : forall v, plain v = true -> wfb v = true -> leval (lit v) = Ok v.
  Proof.
    induction v using value_ind_nested; intros Hl Hw; simpl in Hl; try discriminate.
    - reflexivity.
    - simpl. destruct b; reflexivity.
    - simpl. apply leval_int.
    - simpl. apply leval_float. exact Hl.
    - simpl. rewrite str_rt. reflexivity.
    - simpl. rewrite bytes_rt. reflexivity.
    - cbn [literal_to_cst]. rewrite leval_list. rewrite (mapM_map_ok leval lit l); [reflexivity|].
      simpl in Hw. rewrite forallb_forall in Hl, Hw. rewrite Forall_forall in H |- *.
      intros x Hx. apply H; auto.
    - cbn [literal_to_cst]. rewrite leval_tuple. rewrite (mapM_map_ok leval lit l); [reflexivity|].
      simpl in Hw. rewrite forallb_forall in Hl, Hw. rewrite Forall_forall in H |- *.
      intros x Hx. apply H; auto.
    - simpl in Hw. apply andb_prop in Hw as [Hw Hd]. apply andb_prop in Hw as [Hw Hh].
      destruct l as [|x r].
      + reflexivity.
      + cbn [literal_to_cst map]. rewrite leval_set.
        change (lit x :: map lit r) with (map lit (x :: r)).
        rewrite (mapM_map_ok leval lit (x :: r)).
        * rewrite Hh. rewrite (set_build_distinct _ _ Hd). reflexivity.
        * rewrite forallb_forall in Hl, Hw. rewrite Forall_forall in H |- *.
          intros y Hy. apply H; auto.
    - simpl in Hw. apply andb_prop in Hw as [Hw Hd]. apply andb_prop in Hw as [Hw Hh].
      cbn [literal_to_cst]. rewrite leval_dict.
      rewrite (mapM_map_ok _ (fun kv => (lit (fst kv), lit (snd kv))) l).
      + rewrite Hh. rewrite (dict_build_distinct _ [] Hd). reflexivity.
      + rewrite forallb_forall in Hl, Hw. rewrite Forall_forall in H |- *.
        intros [k x] Hkx. simpl. destruct (H _ Hkx) as [Hk Hx]. simpl in Hk, Hx.
        specialize (Hl _ Hkx). specialize (Hw _ Hkx). simpl in Hl, Hw.
        apply andb_prop in Hl as [Hl1 Hl2]. apply andb_prop in Hw as [Hw1 Hw2].
        rewrite (Hk Hl1 Hw1), (Hx Hl2 Hw2). reflexivity.
  Qed.

  Lemma parse_component_render f :
    ffinite f = true ->
    parse_component ftok itok stok btok parse_float parse_int float_of_Z (f2c f) = Some f.
  Proof. intro H. unfold parse_component. rewrite (parse_float_render f H). reflexivity. Qed.

  Lemma parse_render : forall t v,
    parseable t v = true -> wfb v = true -> parse_lit (lit v) t = Some v.
  Proof.
    intros t v Hp Hw.
    assert (Hcoll : forall t', (t' = TList \/ t' = TSet \/ t' = TTuple \/ t' = TDict \/ t' = TNone) ->
                    plain v = true -> isinstance_raw t' v = true ->
                    match leval (lit v) with Ok v0 => if isinstance_raw t' v0 then Some v0 else None | Err _ => None end = Some v).
    { intros t' _ Hpl Hi. rewrite (leval_render v Hpl Hw). rewrite Hi. reflexivity. }
    destruct t; unfold parseable in Hp.
    - (* bool *) destruct v; try discriminate. destruct b; reflexivity.
    - destruct v; try discriminate. simpl. rewrite parse_int_render. reflexivity.
    - destruct v; try discriminate. simpl in Hp. simpl. rewrite (parse_float_render f Hp). reflexivity.
    - destruct v; try discriminate. apply andb_prop in Hp as [Ha Hb]. simpl.
      rewrite (parse_component_render re Ha), (parse_component_render im Hb). reflexivity.
    - destruct v; try discriminate. simpl. rewrite str_rt. reflexivity.
    - destruct v; try discriminate. simpl. rewrite bytes_rt. reflexivity.
    - apply andb_prop in Hp as [Ht Hpl]. apply (Hcoll TList); [tauto | exact Hpl | destruct v; try discriminate; reflexivity].
    - apply andb_prop in Hp as [Ht Hpl]. apply (Hcoll TSet); [tauto | exact Hpl | destruct v; try discriminate; reflexivity].
    - apply andb_prop in Hp as [Ht Hpl]. apply (Hcoll TTuple); [tauto | exact Hpl | destruct v; try discriminate; reflexivity].
    - apply andb_prop in Hp as [Ht Hpl]. apply (Hcoll TDict); [tauto | exact Hpl | destruct v; try discriminate; reflexivity].
    - apply (Hcoll TNone); [tauto | exact Hp | reflexivity].
  Qed.

  (* ------------------------------------------------------------------------------------------ *)
  (* generated literals stay in the shape of their type *)
  Lemma fshape_render f : fshape (f2c f) = true.
  Proof.
    unfold float_to_cst, float_shape, float_call.
    destruct (fneg f), (ffinite (PrimFloat.abs f)); try reflexivity;
      cbn [float_inner_shape is_call String.eqb Ascii.eqb Bool.eqb]; rewrite str_rt;
      destruct (fnan (PrimFloat.abs f)); reflexivity.
  Qed.

  Lemma int_shape_render z : ishape (i2c z) = true.
  Proof. unfold int_to_cst. destruct (z <? 0); reflexivity. Qed.

  Lemma eshape_elem d : eshape (el d) = true.
  Proof.
    unfold elem_shape. destruct d; simpl.
    - destruct b; reflexivity.
    - rewrite int_shape_render. rewrite ?orb_true_r. reflexivity.
    - rewrite fshape_render. rewrite ?orb_true_r. reflexivity.
    - rewrite ?orb_true_r. reflexivity.
    - rewrite ?orb_true_r. reflexivity.
  Qed.

  Lemma eshape_elems l : forallb eshape (map el l) = true.
  Proof. induction l as [|x r IH]; simpl; [reflexivity|]. rewrite eshape_elem, IH. reflexivity. Qed.

  Lemma item_shape_combine ks vs :
    forallb (fun p : expr * expr => match fst p with EStr _ => true | _ => false end && eshape (snd p))
            (combine (map (fun k => EStr (repr_str k)) ks) (map el vs)) = true.
  Proof.
    revert vs. induction ks as [|k r IH]; intros [|x vs]; simpl; try reflexivity.
    rewrite eshape_elem, IH. reflexivity.
  Qed.

  Lemma generate_shape : forall t d, shp t (gen t d) = true.
  Proof.
    intros t d. destruct t; simpl.
    - destruct (d_bool d); reflexivity.
    - apply int_shape_render.
    - apply fshape_render.
    - rewrite !fshape_render. reflexivity.
    - reflexivity.
    - reflexivity.
    - destruct (d_empty d); [reflexivity|]. cbn [shape]. apply (eshape_elems (d_first d :: d_rest d)).
    - destruct (d_empty d); [reflexivity|]. cbn [shape map]. apply (eshape_elems (d_first d :: d_rest d)).
    - destruct (d_empty d); [reflexivity|]. cbn [shape]. apply (eshape_elems (d_first d :: d_rest d)).
    - destruct (d_empty d); [reflexivity|]. cbn [shape]. apply item_shape_combine.
    - reflexivity.
  Qed.

  Lemma forallb_remove_nth {A} (p : A -> bool) n l : forallb p l = true -> forallb p (remove_nth n l) = true.
  Proof.
    intro H. unfold remove_nth. rewrite forallb_app.
    assert (Hs : forall k, forallb p (skipn k l) = true).
    { intro k. revert l H. induction k as [|k IH]; intros l H; [exact H|].
      destruct l as [|x r]; [reflexivity|]. simpl in H. apply andb_prop in H as [_ H]. simpl. apply IH. exact H. }
    rewrite Hs, andb_true_r. clear Hs.
    revert l H. induction n as [|n IH]; intros l H; [reflexivity|].
    destruct l as [|x r]; [reflexivity|]. simpl in *. apply andb_prop in H as [Hx H]. rewrite Hx. apply IH. exact H.
  Qed.
  Lemma is_call_inv (e : expr) name args kw :
    is_call ftok itok stok btok e name = Some (args, kw) -> e = ECall (EName name) args kw.
  Proof.
    destruct e as [| | | | | | |f a k| | | | | | | |]; try discriminate. destruct f; try discriminate. simpl.
    destruct (String.eqb n name) eqn:E; [|discriminate]. apply String.eqb_eq in E. subst.
    intro H. injection H as -> ->. reflexivity.
  Qed.

  Lemma seq_shape l d : forallb eshape l = true -> forallb eshape (mutate_seq ftok itok stok btok repr_float repr_nat repr_str l d) = true.
  Proof.
    intro H. unfold mutate_seq. destruct l as [|x r].
    - simpl. rewrite eshape_elem. reflexivity.
    - destruct (d_empty d).
      + apply forallb_remove_nth. exact H.
      + rewrite forallb_app. apply andb_true_intro. split; [exact H|simpl; rewrite eshape_elem; reflexivity].
  Qed.

  Lemma dispatch_shape : forall t e d, scalar t = true \/ shp t e = true -> shp t (dmut e t d) = true.
  Proof.
    intros t e d H. destruct t; simpl in H.
    - simpl. destruct e; try (destruct (d_bool d); reflexivity). destruct (String.eqb n "True"); reflexivity.
    - simpl. destruct (parse_int_e _ _ _ _ _ e); [apply int_shape_render|apply (generate_shape TInt)].
    - simpl. destruct (parse_float_e _ _ _ _ _ e); [apply fshape_render|apply (generate_shape TFloat)].
    - simpl. destruct (parse_complex _ _ _ _ _ _ _ e) as [v|]; [|apply (generate_shape TComplex)].
      destruct v; try apply (generate_shape TComplex).
      destruct (d_which d); simpl; rewrite !fshape_render; reflexivity.
    - destruct e; reflexivity.
    - destruct e; reflexivity.
    - destruct H as [H|H]; [discriminate|]. destruct e; try discriminate. simpl. apply seq_shape. exact H.
    - (* set *)
      destruct H as [H|H]; [discriminate|]. destruct e; try discriminate.
      + simpl. rewrite eshape_elem. reflexivity.
      + destruct l as [|x r]; [discriminate|]. cbn [dispatch_mutate]. destruct (d_empty d).
        * assert (Hr := forallb_remove_nth eshape (d_idx d) (x :: r) H).
          destruct (remove_nth (d_idx d) (x :: r)) as [|y r']; [reflexivity|]. exact Hr.
        * cbn [app shape]. change (x :: r ++ [el (d_first d)]) with ((x :: r) ++ [el (d_first d)]).
          rewrite forallb_app. apply andb_true_intro. split; [exact H|simpl; rewrite eshape_elem; reflexivity].
    - destruct H as [H|H]; [discriminate|]. destruct e; try discriminate. simpl. apply seq_shape. exact H.
    - (* dict *)
      destruct H as [H|H]; [discriminate|]. destruct e; try discriminate. cbn [dispatch_mutate]. simpl in H.
      destruct l as [|x r].
      + simpl. rewrite eshape_elem. reflexivity.
      + destruct (d_empty d).
        * cbn [shape]. apply forallb_remove_nth. exact H.
        * cbn [shape]. rewrite forallb_app. apply andb_true_intro. split; [exact H|simpl; rewrite eshape_elem; reflexivity].
    - reflexivity.
  Qed.

  Lemma mutate_shape : forall t e d, shp t e = true -> shp t (mut e t d) = true.
  Proof.
    intros t e d H. unfold mutate_literal. destruct (d_perturb d); [apply generate_shape|].
    apply dispatch_shape. right. exact H.
  Qed.

  Lemma mutate_scalar_shape : forall t e d, scalar t = true -> shp t (mut e t d) = true.
  Proof.
    intros t e d H. unfold mutate_literal. destruct (d_perturb d); [apply generate_shape|].
    apply dispatch_shape. left. exact H.
  Qed.

  (* ------------------------------------------------------------------------------------------ *)
  (* every expression of the shape of type t evaluates to a value of type t *)
  Lemma finner_eval g (e : expr) :
    unshadowed g "float" = true -> float_inner_shape ftok itok stok btok parse_str e = true ->
    exists f, eval g e = Ok (VFloat f).
  Proof.
    intros Hu H. unfold float_inner_shape in H.
    destruct (is_call ftok itok stok btok e "float") as [[args kw]|] eqn:Ec.
    - destruct e; try (eexists; reflexivity); try discriminate.
      apply is_call_inv in Ec. rewrite Ec.
      destruct args as [|a rest]; try discriminate. destruct a; try discriminate.
      destruct rest; try discriminate. destruct kw; try discriminate.
      apply orb_prop in H as [H|H]; apply pystr_eqb_eq in H.
      + exists infinity. rewrite (eval_float_call _ _ _ _ _ _ _ _ g _ "inf" Hu H). apply call_float; tauto.
      + exists nan. rewrite (eval_float_call _ _ _ _ _ _ _ _ g _ "nan" Hu H). apply call_float; tauto.
    - destruct e; try discriminate. eexists; reflexivity.
  Qed.

  Lemma fshape_eval g (e : expr) :
    unshadowed g "float" = true -> fshape e = true -> exists f, eval g e = Ok (VFloat f).
  Proof.
    intros Hu H. unfold float_shape in H.
    destruct e; try (apply finner_eval; assumption).
    destruct (finner_eval g e Hu H) as [f Hf]. exists (PrimFloat.opp f). rewrite eval_neg, Hf. reflexivity.
  Qed.

  Lemma elem_eval g h (e : expr) :
    unshadowed g "float" = true -> eshape e = true -> refok g h e = true ->
    exists v, eval g e = Ok v /\ (h = true -> hashable v = true).
  Proof.
    intros Hu H Hr. destruct e; try (unfold elem_shape in H; simpl in H; discriminate).
    - (* name *) unfold ref_ok in Hr. destruct (eval g (EName n)) as [v|]; [|discriminate].
      exists v. split; [reflexivity|]. intros ->. exact Hr.
    - eexists. split; [reflexivity|reflexivity].
    - eexists. split; [reflexivity|reflexivity].
    - eexists. split; [reflexivity|reflexivity].
    - (* ENeg: int or float *)
      unfold elem_shape in H. simpl in H. rewrite orb_false_r in H.
      apply orb_prop in H as [H|H].
      + destruct e; try discriminate. eexists. split; [reflexivity|reflexivity].
      + destruct (finner_eval g e Hu H) as [f Hf]. exists (VFloat (PrimFloat.opp f)).
        rewrite eval_neg, Hf. split; reflexivity.
    - (* call: float('inf') *)
      unfold elem_shape in H. simpl in H. rewrite orb_false_r in H.
      destruct (fshape_eval g (ECall e args kw) Hu H) as [f Hf]. exists (VFloat f). split; [exact Hf|reflexivity].
  Qed.

  Lemma elems_eval g h (l : list expr) :
    unshadowed g "float" = true -> forallb eshape l = true -> forallb (refok g h) l = true ->
    exists vs, mapM (eval g) l = Ok vs /\ (h = true -> forallb hashable vs = true).
  Proof.
    intros Hu. induction l as [|x r IH]; simpl; intros H Hr.
    - exists []. split; reflexivity.
    - apply andb_prop in H as [H1 H2]. apply andb_prop in Hr as [Hr1 Hr2].
      destruct (elem_eval g h x Hu H1 Hr1) as [v [Hv Hh]]. destruct (IH H2 Hr2) as [vs [Hvs Hhs]].
      exists (v :: vs). rewrite Hv, Hvs. split; [reflexivity|]. intros ->. simpl. rewrite Hh, Hhs; reflexivity.
  Qed.

  Lemma shape_sound : forall g t e,
    builtins_visible g = true -> shp t e = true -> refs g t e = true ->
    exists v, eval g e = Ok v /\ has_type t v = true.
  Proof.
    intros g t e Hg H Hr. destruct (visible_parts g Hg) as [Hf [Hc Hs]]. destruct t; simpl in H.
    - destruct e; try discriminate. apply orb_prop in H as [H|H]; apply String.eqb_eq in H; subst;
        eexists; (split; [reflexivity|reflexivity]).
    - destruct e; try discriminate; [|destruct e; try discriminate]; eexists; (split; [reflexivity|reflexivity]).
    - destruct (fshape_eval g e Hf H) as [f Hv]. exists (VFloat f). split; [exact Hv|reflexivity].
    - destruct (is_call ftok itok stok btok e "complex") as [[args kw]|] eqn:Ec; [|discriminate].
      apply is_call_inv in Ec. subst e.
      destruct args as [|a [|b [|]]]; try discriminate. destruct kw; try discriminate.
      apply andb_prop in H as [Ha Hb].
      destruct (fshape_eval g a Hf Ha) as [x Hx]. destruct (fshape_eval g b Hf Hb) as [y Hy].
      exists (VComplex x y). split; [|reflexivity]. rewrite eval_call.
      change (mapM (eval g) [a; b]) with
        (match eval g a with
         | Ok y => match (match eval g b with Ok y0 => Ok [y0] | Err e => Err e end) with
                   | Ok ys => Ok (y :: ys) | Err e => Err e end
         | Err e => Err e end).
      rewrite Hx, Hy. simpl. rewrite Hc. reflexivity.
    - destruct e; try discriminate. eexists; (split; [reflexivity|reflexivity]).
    - destruct e; try discriminate. eexists; (split; [reflexivity|reflexivity]).
    - destruct e; try discriminate. simpl in Hr.
      destruct (elems_eval g false l Hf H Hr) as [vs [Hvs _]]. exists (VList vs). rewrite eval_list, Hvs. split; reflexivity.
    - (* set *)
      destruct e; try discriminate.
      + destruct (is_call ftok itok stok btok (ECall e args kw) "set") as [[a k]|] eqn:Ec; [|discriminate].
        apply is_call_inv in Ec. rewrite Ec. destruct a; try discriminate. destruct k; try discriminate.
        exists (VSet []). rewrite eval_call. simpl. rewrite Hs. split; reflexivity.
      + destruct l as [|x r]; [discriminate|]. simpl in Hr.
        destruct (elems_eval g true (x :: r) Hf H Hr) as [vs [Hvs Hh]].
        exists (VSet (set_build [] vs)). rewrite eval_set, Hvs, (Hh eq_refl). split; reflexivity.
    - destruct e; try discriminate. simpl in Hr.
      destruct (elems_eval g false l Hf H Hr) as [vs [Hvs _]]. exists (VTuple vs). rewrite eval_tuple, Hvs. split; reflexivity.
    - (* dict *)
      destruct e; try discriminate. simpl in Hr. rewrite eval_dict.
      assert (Hm : exists kvs, mapM (fun p : expr * expr => match eval g (fst p) with
                         | Ok k => match eval g (snd p) with Ok v => Ok (k, v) | Err x => Err x end
                         | Err x => Err x
                         end) l = Ok kvs /\ forallb (fun kv => hashable (fst kv)) kvs = true).
      { induction l as [|[k x] r IH]; simpl.
        - exists []. split; reflexivity.
        - simpl in H, Hr. apply andb_prop in H as [H1 H2]. apply andb_prop in Hr as [Hr1 Hr2].
          apply andb_prop in H1 as [Hk Hx]. destruct k; try discriminate.
          destruct (elem_eval g false x Hf Hx Hr1) as [v [Hv _]]. destruct (IH H2 Hr2) as [kvs [Hkvs Hh]].
          exists ((VStr (parse_str t), v) :: kvs). simpl. rewrite Hv, Hkvs. split; [reflexivity|]. simpl. exact Hh. }
      destruct Hm as [kvs [Hkvs Hh]]. rewrite Hkvs, Hh. eexists. split; reflexivity.
    - destruct e; try discriminate. apply String.eqb_eq in H. subst. eexists. split; reflexivity.
  Qed.

  Lemma generated_well_typed : forall g t d,
    builtins_visible g = true -> refs g t (gen t d) = true ->
    exists v, eval g (gen t d) = Ok v /\ has_type t v = true.
  Proof. intros g t d Hg Hr. apply shape_sound; [exact Hg|apply generate_shape|exact Hr]. Qed.

  Lemma mutated_well_typed : forall g t e d,
    builtins_visible g = true -> (scalar t = true \/ shp t e = true) -> refs g t (mut e t d) = true ->
    exists v, eval g (mut e t d) = Ok v /\ has_type t v = true.
  Proof.
    intros g t e d Hg H Hr. apply shape_sound; [exact Hg| |exact Hr].
    destruct H as [H|H]; [apply mutate_scalar_shape|apply mutate_shape]; exact H.
  Qed.
End Atoms.

(* ---------------------------------------------------------------------------------------------- *)
(* Non-vacuity.  The hypotheses on the atoms are satisfiable (the instance the correspondence
   evaluates: a token is the value CPython reads from it) ... *)
Example atoms_instance :
  (forall f, ftok_ok f = true -> idf (idf f) = f) /\ (forall n, 0 <= n -> idz (idz n) = n) /\
  (forall s, ids (ids s) = s).
Proof. repeat split. Qed.

(* ... and a value with signed zeros, NaN, infinities, nested collections satisfies the hypotheses of
   eval_render and round-trips bit-exactly *)
Definition sample_value : value :=
  VList [VFloat neg_zero; VComplex neg_zero nan; VFloat neg_infinity; VInt (-5);
         VSet [VInt 1; VStr [97%N]; VTuple [VFloat zero]]; VDict [(VStr [], VList []); (VInt 7, VNone)]; VSet []].

Example sample_hypotheses :
  literal_value sample_value = true /\ wfb sample_value = true /\ builtins_visible (env_of []) = true.
Proof. vm_compute. repeat split. Qed.

Example sample_roundtrip :
  eval0 (env_of []) (literal_to_cst0 sample_value) = Ok sample_value.
Proof.
  destruct sample_hypotheses as [Hl [Hw Hg]].
  exact (eval_render float Z pystr pystr idf idz ids ids idf idz ids ids
           (fun f _ => eq_refl) (fun n _ => eq_refl) (fun s => eq_refl) (fun s => eq_refl)
           (env_of []) sample_value Hg Hl Hw).
Qed.

(* why the sign test needs the sign bit: `value < 0` is false for -0.0 (the defect repaired by
   fixes/C23-float-negzero), while the two zeros are different values *)
Example negative_zero_is_not_below_zero :
  PrimFloat.ltb neg_zero zero = false /\ fneg neg_zero = true /\ zero <> neg_zero.
Proof. repeat split; try reflexivity. exact zero_neq_neg_zero. Qed.

Example parse_example :
  parse_literal0 (literal_to_cst0 (VTuple [VFloat neg_zero; VInt (-3)])) TTuple
  = Some (VTuple [VFloat neg_zero; VInt (-3)]).
Proof.
  apply (parse_render float Z pystr pystr idf idz ids ids idf idz ids ids float_of_Z0
           (fun f _ => eq_refl) (fun n _ => eq_refl) (fun s => eq_refl) (fun s => eq_refl)); reflexivity.
Qed.
