(* C08 — proofs about the exclusion model (Models/C08.v). *)
From Coq Require Import List ZArith Bool Lia ZifyBool.
From Verif Require Import Models.C08.
Import ListNotations. Import C08. Open Scope Z_scope.

(* ---------------------------------------------------------------------------------------------- *)
(* induction over rose trees *)
Lemma node_ind' (P : node -> Prop) :
  (forall k s e ks, Forall P ks -> P (Node k s e ks)) -> forall n, P n.
Proof.
  intro H. fix IH 1. intros [k s e ks]. apply H.
  induction ks as [|c r IHr]; constructor; [apply IH | exact IHr].
Qed.

Lemma mem_In x l : mem x l = true <-> In x l.
Proof.
  unfold mem. rewrite existsb_exists. split.
  - intros [y [Hy E]]. apply Z.eqb_eq in E. subst. exact Hy.
  - intro H. exists x. split; [exact H | apply Z.eqb_refl].
Qed.

Lemma mem_false x l : mem x l = false <-> ~ In x l.
Proof. rewrite <- mem_In. destruct (mem x l); split; intro H; try discriminate; try reflexivity; exfalso; apply H; reflexivity. Qed.

Lemma flatten_eq k s e ks : flatten (Node k s e ks) = Node k s e ks :: flat_map flatten ks.
Proof. reflexivity. Qed.

Lemma In_flatten b n : In b (flatten n) <-> b = n \/ exists c, In c (nkids n) /\ In b (flatten c).
Proof.
  destruct n as [k s e ks]. rewrite flatten_eq. cbn [nkids In]. rewrite in_flat_map. split.
  - intros [H|H]; [left; symmetry; exact H | right; exact H].
  - intros [H|H]; [left; symmetry; exact H | right; exact H].
Qed.

Lemma flatten_self n : In n (flatten n).
Proof. apply In_flatten. left. reflexivity. Qed.

Lemma flatten_trans a b c : In a (flatten b) -> In b (flatten c) -> In a (flatten c).
Proof.
  revert a b. induction c as [k s e ks IH] using node_ind'. intros a b Hab Hbc.
  apply In_flatten in Hbc. destruct Hbc as [E|[d [Hd Hb]]].
  - subst. exact Hab.
  - apply In_flatten. right. exists d. split; [exact Hd|].
    rewrite Forall_forall in IH. eapply IH; eauto.
Qed.

(* ---------------------------------------------------------------------------------------------- *)
(* Declarative exclusion.  [between no prev after] : a marked line lies strictly between two arms *)
Definition between (no : list Z) (prev after : list node) : Prop :=
  exists p a x, hd_error prev = Some p /\ hd_error after = Some a /\ In x no /\
                nend (last prev p) < x < nstart a.

Lemma between_marked_spec no prev after : between_marked no prev after = true <-> between no prev after.
Proof.
  unfold between_marked, between. destruct prev as [|p pr]; [|destruct after as [|a ar]].
  - split; [discriminate|]. intros (p & a & x & H & _). discriminate.
  - split; [discriminate|]. intros (p0 & a & x & _ & H & _). discriminate.
  - rewrite existsb_exists. split.
    + intros [x [Hx Hb]]. exists p, a, x. cbn [hd_error]. repeat split; try exact Hx; lia.
    + intros (p0 & a0 & x & Hp & Ha & Hx & Hr). cbn [hd_error] in Hp, Ha. inversion Hp; inversion Ha; subst.
      exists x. split; [exact Hx|]. lia.
Qed.

(* line [l] lies in an arm of compound statement [b] whose label carries a marker *)
Inductive arm_excludes (no : list Z) (l : Z) (b : node) : Prop :=
  | EX_match : is_match b = true -> In (nstart b) no -> arm_excludes no l b
  | EX_case c : is_match b = true -> In c (cases b) -> in_body (arm_of ABody c) l = true ->
                In (nstart c) no -> arm_excludes no l b
  | EX_body : (is_if b || is_loop b || is_try b) = true -> in_body (arm_of ABody b) l = true ->
              In (nstart b) no -> arm_excludes no l b
  | EX_handler h : is_try b = true -> In h (handlers b) -> in_body (arm_of ABody h) l = true ->
                   In (nstart h) no -> arm_excludes no l b
  | EX_try_else : is_try b = true -> in_body (arm_of AOrelse b) l = true ->
                  between no (try_else_prev b) (arm_of AOrelse b) -> arm_excludes no l b
  | EX_finally : is_try b = true -> in_body (arm_of AFinal b) l = true ->
                 between no (try_final_prev b) (arm_of AFinal b) -> arm_excludes no l b
  | EX_else : (is_if b || is_loop b) = true -> (is_if b && has_elif b) = false ->
              in_body (arm_of AOrelse b) l = true ->
              between no (arm_of ABody b) (arm_of AOrelse b) -> arm_excludes no l b.

Lemma existsb_In {A} (f : A -> bool) l : existsb f l = true <-> exists x, In x l /\ f x = true.
Proof. apply existsb_exists. Qed.

Lemma excl_by_spec no b l : excl_by no b l = true <-> within b l = true /\ arm_excludes no l b.
Proof.
  unfold excl_by. destruct (within b l) eqn:W; cbn [negb];
    [|split; [discriminate|intros [X _]; discriminate]].
  transitivity (arm_excludes no l b); [|split; [intro; split; [reflexivity|assumption]|intros [_ X]; exact X]].
  rewrite !orb_true_iff, !andb_true_iff, !orb_true_iff, !existsb_In, !andb_true_iff, !between_marked_spec, !mem_In.
  split.
  - intros [[[H|H]|H]|H].
    + destruct H as [Hm [H|[c [Hc H]]]].
      * apply EX_match; assumption.
      * rewrite andb_true_iff, mem_In in H. destruct H. eapply EX_case; eauto.
    + destruct H as [[Hk Hb] Hn]. apply EX_body; try assumption.
      rewrite !orb_true_iff. exact Hk.
    + destruct H as [Ht [[H|H]|H]].
      * destruct H as [h [Hh H]]. rewrite andb_true_iff, mem_In in H. destruct H. eapply EX_handler; eauto.
      * destruct H. apply EX_try_else; assumption.
      * destruct H. apply EX_finally; assumption.
    + destruct H as [[[Hk Hne] Hb] Hbt]. apply EX_else; try assumption.
      * rewrite orb_true_iff. exact Hk.
      * apply negb_true_iff. exact Hne.
  - intros H. destruct H as [Hm Hn|c Hm Hc Hb Hn|Hk Hb Hn|h Ht Hh Hb Hn|Ht Hb Hbt|Ht Hb Hbt|Hk Hne Hb Hbt].
    + left; left; left. split; [exact Hm|]. left. exact Hn.
    + left; left; left. split; [exact Hm|]. right. exists c. split; [exact Hc|].
      rewrite andb_true_iff, mem_In. split; assumption.
    + left; left; right. rewrite !orb_true_iff in Hk. repeat split; assumption.
    + left; right. split; [exact Ht|]. left; left. exists h. split; [exact Hh|].
      rewrite andb_true_iff, mem_In. split; assumption.
    + left; right. split; [exact Ht|]. left; right. split; assumption.
    + left; right. split; [exact Ht|]. right. split; assumption.
    + right. rewrite orb_true_iff in Hk. apply negb_true_iff in Hne. repeat split; assumption.
Qed.

(* [l] is excluded inside the subtree [n]: some compound statement of the subtree that spans [l]
   has a marked arm holding [l] *)
Inductive excluded_in (no : list Z) (l : Z) : node -> Prop :=
  | EI_here n : within n l = true -> arm_excludes no l n -> excluded_in no l n
  | EI_kid n c : In c (nkids n) -> excluded_in no l c -> excluded_in no l n.

Lemma excluded_in_flatten no l n :
  excluded_in no l n <-> exists b, In b (flatten n) /\ within b l = true /\ arm_excludes no l b.
Proof.
  split.
  - induction 1 as [n Hw Ha|n c Hc _ IH].
    + exists n. split; [apply flatten_self|]. split; assumption.
    + destruct IH as [b [Hb H]]. exists b. split; [|exact H].
      apply In_flatten. right. exists c. split; assumption.
  - induction n as [k s e ks IH] using node_ind'. intros [b [Hb [Hw Ha]]].
    apply In_flatten in Hb. destruct Hb as [E|[c [Hc Hb]]].
    + subst. apply EI_here; assumption.
    + eapply EI_kid; [exact Hc|]. rewrite Forall_forall in IH. apply IH; [exact Hc|].
      exists b. repeat split; assumption.
Qed.

Definition in_only (mi : info) (sc : node) (l : Z) : Prop :=
  only_cover mi = [] \/ In l (only_cover mi)
  \/ (exists x, In x (only_cover mi) /\ nstart sc <= x <= nend sc /\ ~ In x (no_cover mi))
  \/ (exists n, In n (flatten (root mi)) /\ is_scope n = true /\ In (nstart n) (only_cover mi)
                /\ nstart n <= nstart sc /\ nend sc <= nend n).

Lemma in_cover_spec mi sc l :
  in_cover mi sc l = true <-> ~ In l (no_cover mi) /\ in_only mi sc l.
Proof.
  unfold in_cover, in_only.
  destruct (mem l (no_cover mi)) eqn:M.
  { apply mem_In in M. split; [discriminate|]. intros [X _]. contradiction. }
  apply mem_false in M.
  transitivity ((match only_cover mi with [] => true | _ => false end
      || mem l (only_cover mi)
      || existsb (fun x => (nstart sc <=? x) && (x <=? nend sc) && negb (mem x (no_cover mi))) (only_cover mi)
      || in_only_scope mi sc) = true).
  { destruct (match only_cover mi with [] => true | _ => false end
      || mem l (only_cover mi)
      || existsb (fun x => (nstart sc <=? x) && (x <=? nend sc) && negb (mem x (no_cover mi))) (only_cover mi));
      cbn [orb]; reflexivity. }
  unfold in_only_scope.
  rewrite !orb_true_iff, !existsb_In, mem_In.
  transitivity (in_only mi sc l); [|unfold in_only; tauto]. unfold in_only. split.
  - intros [[[H|H]|H]|H].
    + left. destruct (only_cover mi); [reflexivity|discriminate].
    + right; left. exact H.
    + right; right; left. destruct H as [x [Hx H]]. rewrite !andb_true_iff, negb_true_iff, mem_false in H.
      exists x. split; [exact Hx|]. split; [lia|tauto].
    + right; right; right. destruct H as [n [Hn H]]. rewrite !andb_true_iff, mem_In in H.
      exists n. split; [exact Hn|]. repeat split; try tauto; lia.
  - intros [H|[H|[H|H]]].
    + left; left; left. rewrite H. reflexivity.
    + left; left; right. exact H.
    + left; right. destruct H as [x [Hx [Hr Hn]]]. exists x. split; [exact Hx|].
      rewrite !andb_true_iff, negb_true_iff, mem_false. repeat split; try lia; exact Hn.
    + right. destruct H as [n [Hn [Hs [Ho [H1 H2]]]]]. exists n. split; [exact Hn|].
      rewrite !andb_true_iff, mem_In. repeat split; try assumption; lia.
Qed.

Lemma should_cover_line_spec mi sc l :
  should_cover_line mi sc l = true <->
  ~ In l (no_cover mi) /\ in_only mi sc l /\ ~ excluded_in (no_cover mi) l sc.
Proof.
  unfold should_cover_line. rewrite andb_true_iff, in_cover_spec, negb_true_iff.
  rewrite excluded_in_flatten. split.
  - intros [[H1 H2] H3]. repeat split; try assumption. intros [b [Hb Hx]].
    assert (E : existsb (fun b => excl_by (no_cover mi) b l) (flatten sc) = true).
    { apply existsb_In. exists b. split; [exact Hb|]. apply excl_by_spec. exact Hx. }
    rewrite E in H3. discriminate.
  - intros [H1 [H2 H3]]. split; [split; assumption|].
    destruct (existsb (fun b => excl_by (no_cover mi) b l) (flatten sc)) eqn:E; [|reflexivity].
    exfalso. apply H3. apply existsb_In in E. destruct E as [b [Hb Hx]]. exists b. split; [exact Hb|].
    apply excl_by_spec. exact Hx.
Qed.

Corollary should_cover_line_false mi sc l :
  should_cover_line mi sc l = false <->
  In l (no_cover mi) \/ ~ in_only mi sc l \/ excluded_in (no_cover mi) l sc.
Proof.
  destruct (should_cover_line mi sc l) eqn:E.
  - apply should_cover_line_spec in E. destruct E as [H1 [H2 H3]]. split; [discriminate|]. tauto.
  - split; [|reflexivity]. intros _.
    destruct (mem l (no_cover mi)) eqn:M; [left; apply mem_In; exact M|]. apply mem_false in M.
    destruct (in_cover mi sc l) eqn:C.
    + right; right. apply excluded_in_flatten.
      unfold should_cover_line in E. rewrite C in E. cbn in E. apply negb_false_iff in E.
      apply existsb_In in E. destruct E as [b [Hb Hx]]. exists b. split; [exact Hb|]. apply excl_by_spec. exact Hx.
    + right; left. intro H. assert (in_cover mi sc l = true) by (apply in_cover_spec; tauto). congruence.
Qed.

(* nothing marked, nothing selected: everything is covered *)
Lemma no_exclusions_all_covered mi sc l :
  no_cover mi = [] -> only_cover mi = [] -> should_cover_line mi sc l = true.
Proof.
  intros Hn Ho. apply should_cover_line_spec. rewrite Hn. split; [intros []|]. split; [left; exact Ho|].
  intro H. apply excluded_in_flatten in H. destruct H as [b [_ [_ H]]].
  destruct H as [? H|? ? ? ? H|? ? H|? ? ? ? H|? ? H|? ? H|? ? ? H]; try (exact H);
    destruct H as (p & a & x & _ & _ & Hx & _); exact Hx.
Qed.

(* a larger marker set never adds a covered line (same only_cover) *)
Lemma arm_excludes_mono no no' l b :
  (forall x, In x no -> In x no') -> arm_excludes no l b -> arm_excludes no' l b.
Proof.
  intros Hs H. assert (Hb : forall p a, between no p a -> between no' p a).
  { intros p a (p0 & a0 & x & H1 & H2 & H3 & H4). exists p0, a0, x. repeat split; auto; lia. }
  destruct H; [apply EX_match|eapply EX_case|apply EX_body|eapply EX_handler|apply EX_try_else|apply EX_finally|apply EX_else]; eauto.
Qed.

Lemma excluded_in_mono no no' l n :
  (forall x, In x no -> In x no') -> excluded_in no l n -> excluded_in no' l n.
Proof.
  intros Hs H. induction H as [n Hw Ha|n c Hc _ IH].
  - apply EI_here; [exact Hw|]. eapply arm_excludes_mono; eauto.
  - eapply EI_kid; eauto.
Qed.

(* ---------------------------------------------------------------------------------------------- *)
(* conditional statements *)
Lemma should_cover_cond_header mi sc l b :
  find (fun b => cond_node b l) (flatten sc) = Some b ->
  should_cover_cond mi sc l = true ->
  should_cover_line mi sc (nstart b) = true.
Proof.
  intros Hf H. unfold should_cover_cond in H. rewrite Hf in H. apply andb_true_iff in H. tauto.
Qed.

Lemma should_cover_cond_else mi sc l b x :
  find (fun b => cond_node b l) (flatten sc) = Some b ->
  should_cover_cond mi sc l = true ->
  is_case b = false -> (is_if b && has_elif b) = false ->
  in_between x (arm_of ABody b) (arm_of AOrelse b) = true ->
  should_cover_line mi sc x = true.
Proof.
  intros Hf H Hc He Hx. unfold should_cover_cond in H. rewrite Hf in H. apply andb_true_iff in H.
  destruct H as [_ H]. rewrite Hc, He in H. cbn in H.
  unfold else_lines_covered in H. unfold in_between in Hx.
  destruct (arm_of ABody b) as [|p pr] eqn:EB; [discriminate|].
  destruct (arm_of AOrelse b) as [|a ar] eqn:EO; [discriminate|].
  rewrite forallb_forall in H. apply H.
  apply andb_true_iff in Hx. destruct Hx as [H1 H2].
  set (lo := nend (last (p :: pr) p) + 1) in *.
  assert (G : forall n a0, a0 <= x < a0 + Z.of_nat n -> In x (zrange a0 n)).
  { induction n as [|n IHn]; intros a0 Hr; [lia|]. cbn [zrange].
    destruct (Z.eq_dec a0 x); [left; assumption|right]. apply IHn. lia. }
  apply G. lia.
Qed.

(* ---------------------------------------------------------------------------------------------- *)
(* scopes: lookup and should_be_covered *)
Lemma get_scope_found mi s :
  In s (flatten (root mi)) -> is_scope s = true ->
  exists s', get_scope mi (first_line s) = Some s' /\ is_scope s' = true /\ first_line s' = first_line s
             /\ In s' (flatten (root mi)).
Proof.
  intros Hin Hs. unfold get_scope.
  destruct (find (fun n => is_scope n && (first_line n =? first_line s)) (flatten (root mi))) as [s'|] eqn:E.
  - apply find_some in E. destruct E as [Hi H]. apply andb_true_iff in H. destruct H as [H1 H2].
    apply Z.eqb_eq in H2. exists s'. auto.
  - exfalso. eapply find_none in E; [|exact Hin]. cbn in E. rewrite Hs, Z.eqb_refl in E. discriminate.
Qed.

Lemma should_be_covered_spec mi sc :
  should_be_covered mi sc = true ->
  ~ In (nstart sc) (no_cover mi)
  /\ (forall d, In d (flatten (root mi)) -> is_def d = true -> nstart d <= nstart sc <= nend d ->
                ~ In (nstart d) (no_cover mi))
  /\ (is_module sc = false -> ~ excluded_in (no_cover mi) (nstart sc) (root mi)).
Proof.
  unfold should_be_covered. rewrite !andb_true_iff. intros [[H1 H2] H3]. repeat split.
  - apply in_cover_spec in H1. tauto.
  - intros d Hd Hdef Hr. rewrite forallb_forall in H2. specialize (H2 d Hd).
    rewrite Hdef in H2. cbn in H2.
    assert (E : ((nstart d <=? nstart sc) && (nstart sc <=? nend d)) = true) by (apply andb_true_iff; split; lia).
    rewrite E in H2. cbn in H2. apply in_cover_spec in H2. tauto.
  - intros Hm. rewrite Hm in H3. cbn in H3. apply should_cover_line_spec in H3. tauto.
Qed.

(* ranges nest: a positioned descendant lies within its positioned ancestor *)
Lemma wfb_desc n : forall lo hi d, wfb lo hi n = true -> In d (flatten n) ->
  nstart d <= nend d -> lo <= low d /\ nend d <= hi.
Proof.
  induction n as [k s e ks IH] using node_ind'. intros lo hi d Hw Hd Hp.
  rewrite Forall_forall in IH. apply In_flatten in Hd. cbn [wfb] in Hw.
  destruct Hd as [E|[c [Hc Hd]]].
  - subst d. cbn [nstart nend] in Hp. destruct (s <=? e) eqn:Ese; [|lia].
    rewrite !andb_true_iff in Hw. cbn [nend]. lia.
  - cbn [nkids] in Hc. destruct (s <=? e) eqn:Ese.
    + rewrite !andb_true_iff in Hw. destruct Hw as [[H1 H2] H3]. rewrite forallb_forall in H3.
      specialize (IH c Hc _ _ d (H3 c Hc) Hd Hp). lia.
    + rewrite forallb_forall in Hw. exact (IH c Hc _ _ d (Hw c Hc) Hd Hp).
Qed.

Lemma wfb_sub n : forall lo hi d, wfb lo hi n = true -> In d (flatten n) ->
  exists lo' hi', wfb lo' hi' d = true.
Proof.
  induction n as [k s e ks IH] using node_ind'. intros lo hi d Hw Hd.
  rewrite Forall_forall in IH. apply In_flatten in Hd. destruct Hd as [E|[c [Hc Hd]]].
  - subst. eauto.
  - cbn [nkids] in Hc. cbn [wfb] in Hw. destruct (s <=? e).
    + rewrite !andb_true_iff in Hw. destruct Hw as [_ H3]. rewrite forallb_forall in H3. eapply IH; eauto.
    + rewrite forallb_forall in Hw. eapply IH; eauto.
Qed.

Lemma low_le n : low n <= nstart n.
Proof. unfold low. destruct (nkind n); lia. Qed.

(* everything nested in a definition whose header is excluded is skipped *)
Lemma nested_in_excluded_def mi lo hi d s :
  wfb lo hi (root mi) = true ->
  In d (flatten (root mi)) -> is_def d = true -> nstart d <= nend d -> In (nstart d) (no_cover mi) ->
  In s (flatten d) -> nstart s <= nend s -> nstart d <= nstart s ->
  should_be_covered mi s = false.
Proof.
  intros Hw Hd Hdef Hde Hno Hs Hp Hlow.
  destruct (should_be_covered mi s) eqn:E; [|reflexivity]. exfalso.
  apply should_be_covered_spec in E. destruct E as [_ [H _]].
  apply (H d Hd Hdef); [|exact Hno].
  destruct (wfb_sub _ _ _ d Hw Hd) as [lo' [hi' Hwd]].
  destruct d as [k ds de dks]. cbn [nstart nend] in *.
  split; [exact Hlow|].
  apply In_flatten in Hs. destruct Hs as [E|[c [Hc Hs]]].
  - subst s. cbn [nend nstart] in *. lia.
  - cbn [nkids] in Hc. cbn [wfb] in Hwd.
    assert (X : (ds <=? de) = true) by lia. rewrite X in Hwd.
    rewrite !andb_true_iff in Hwd. destruct Hwd as [_ H3]. rewrite forallb_forall in H3.
    pose proof (wfb_desc c _ _ s (H3 c Hc) Hs Hp) as Q. lia.
Qed.

(* a scope that starts inside an excluded arm is skipped (fix D) *)
Lemma scope_in_excluded_arm mi s :
  is_module s = false -> excluded_in (no_cover mi) (nstart s) (root mi) -> should_be_covered mi s = false.
Proof.
  intros Hm Hx. destruct (should_be_covered mi s) eqn:E; [|reflexivity]. exfalso.
  apply should_be_covered_spec in E. destruct E as [_ [_ H]]. exact (H Hm Hx).
Qed.

(* fix C: inside an only_cover target everything that is not excluded is in cover *)
Lemma inside_only_target mi t s l :
  In t (flatten (root mi)) -> is_scope t = true -> In (nstart t) (only_cover mi) ->
  nstart t <= nstart s -> nend s <= nend t -> ~ In l (no_cover mi) -> in_cover mi s l = true.
Proof.
  intros Ht Hs Ho H1 H2 Hn. apply in_cover_spec. split; [exact Hn|].
  right; right; right. exists t. repeat split; assumption.
Qed.

(* ---------------------------------------------------------------------------------------------- *)
(* the instrumentation's registries *)
Definition scope_ok (mi : info) (c : cobj) : bool :=
  match get_scope mi (co_line c) with Some s => should_be_covered mi s | None => true end.
Definition parent_ok (c : cobj) (done : list bool) : bool :=
  match co_parent c with None => true | Some p => nth p done false end.

Lemma registered_upto_spec mi cos : forall done,
  exists tail, registered_upto mi cos done = done ++ tail /\ length tail = length cos /\
    forall j c, nth_error cos j = Some c ->
      nth (length done + j) (done ++ tail) false =
      parent_ok c (firstn (length done + j) (done ++ tail)) && scope_ok mi c.
Proof.
  induction cos as [|c r IH]; intro done.
  - exists []. cbn. rewrite app_nil_r. repeat split; auto. intros j c H. destruct j; discriminate.
  - cbn [registered_upto].
    set (me := (match co_parent c with None => true | Some p => nth p done false end)
               && match get_scope mi (co_line c) with Some s => should_be_covered mi s | None => true end).
    destruct (IH (done ++ [me])) as [tail [E [L H]]].
    exists (me :: tail). split; [rewrite E, <- app_assoc; reflexivity|]. split; [cbn; lia|].
    intros j c0 Hj. destruct j as [|j].
    + cbn in Hj. inversion Hj; subst c0. rewrite Nat.add_0_r.
      rewrite app_nth2 by lia. rewrite Nat.sub_diag. cbn [nth].
      rewrite firstn_app, Nat.sub_diag, firstn_all. cbn [firstn]. rewrite app_nil_r.
      reflexivity.
    + cbn in Hj. specialize (H j c0 Hj). rewrite app_length in H. cbn [length] in H.
      replace (length done + S j)%nat with (length done + 1 + j)%nat by lia.
      replace (done ++ me :: tail) with ((done ++ [me]) ++ tail) by (rewrite <- app_assoc; reflexivity).
      exact H.
Qed.

Lemma registered_nth mi cos j c :
  nth_error cos j = Some c ->
  nth j (registered mi cos) false = parent_ok c (firstn j (registered mi cos)) && scope_ok mi c.
Proof.
  intro H. unfold registered. destruct (registered_upto_spec mi cos []) as [tail [E [_ Hn]]].
  rewrite E. cbn [app length] in *. exact (Hn j c H).
Qed.

Lemma registered_length mi cos : length (registered mi cos) = length cos.
Proof.
  unfold registered. destruct (registered_upto_spec mi cos []) as [tail [E [L _]]]. rewrite E. exact L.
Qed.

Lemma nth_firstn_lt {A} (l : list A) d p j : (p < j)%nat -> nth p (firstn j l) d = nth p l d.
Proof.
  revert p j. induction l as [|x r IH]; intros p j H.
  - rewrite firstn_nil. reflexivity.
  - destruct j; [lia|]. destruct p; [reflexivity|]. cbn. apply IH. lia.
Qed.

Lemma nth_firstn_ge {A} (l : list A) d p j : (j <= p)%nat -> nth p (firstn j l) d = d.
Proof. intro H. apply nth_overflow. rewrite firstn_length. lia. Qed.

(* a code object is instrumented only if its scope should be covered and its parent was instrumented *)
Lemma registered_sound mi cos j c :
  nth_error cos j = Some c -> nth j (registered mi cos) false = true ->
  scope_ok mi c = true /\
  (forall p, co_parent c = Some p -> (p < j)%nat /\ nth p (registered mi cos) false = true).
Proof.
  intros Hc H. rewrite (registered_nth _ _ _ _ Hc) in H. apply andb_true_iff in H. destruct H as [Hp Hs].
  split; [exact Hs|]. intros p E. unfold parent_ok in Hp. rewrite E in Hp.
  destruct (Nat.lt_ge_cases p j) as [L|G].
  - split; [exact L|]. rewrite nth_firstn_lt in Hp by exact L. exact Hp.
  - rewrite nth_firstn_ge in Hp by exact G. discriminate.
Qed.

Lemma registered_complete mi cos j c :
  nth_error cos j = Some c -> scope_ok mi c = true ->
  (forall p, co_parent c = Some p -> (p < j)%nat /\ nth p (registered mi cos) false = true) ->
  nth j (registered mi cos) false = true.
Proof.
  intros Hc Hs Hp. rewrite (registered_nth _ _ _ _ Hc), Hs, andb_true_r. unfold parent_ok.
  destruct (co_parent c) as [p|]; [|reflexivity]. destruct (Hp p eq_refl) as [L H].
  rewrite nth_firstn_lt by exact L. exact H.
Qed.

Lemma In_select {A} (x : A) : forall flags l,
  In x (select flags l) <-> exists j, nth_error l j = Some x /\ nth j flags false = true.
Proof.
  induction flags as [|f fr IH]; intros l.
  - cbn. split; [intros []|]. intros [j [_ H]]. destruct j; discriminate.
  - destruct l as [|y r].
    + destruct f; cbn; (split; [intros []|]); intros [j [H _]]; destruct j; discriminate.
    + destruct f; cbn [select].
      * split.
        -- intros [E|H]; [exists 0%nat; subst; auto|]. apply IH in H. destruct H as [j H]. exists (S j). exact H.
        -- intros [[|j] [H1 H2]]; [left; cbn in H1; inversion H1; reflexivity|right; apply IH; exists j; auto].
      * rewrite IH. split.
        -- intros [j H]. exists (S j). exact H.
        -- intros [[|j] [H1 H2]]; [cbn in H2; discriminate|exists j; auto].
Qed.

Definition co_has_line (c : cobj) (l : Z) : Prop :=
  exists b, In b (co_blocks c) /\ In (Some l) (b_ilines b).

Lemma co_line_goals_spec mi c l :
  In l (co_line_goals mi c) <-> co_has_line c l /\ line_ok mi (get_scope mi (co_line c)) (Some l) = true.
Proof.
  unfold co_line_goals, co_has_line. rewrite in_flat_map. split.
  - intros [b [Hb H]]. apply in_flat_map in H. destruct H as [o [Ho H]].
    destruct o as [x|]; [|destruct H].
    destruct (line_ok mi (get_scope mi (co_line c)) (Some x)) eqn:E; [|destruct H].
    destruct H as [H|[]]. subst x. split; [exists b; auto|exact E].
  - intros [[b [Hb Hl]] Hok]. exists b. split; [exact Hb|]. apply in_flat_map. exists (Some l).
    split; [exact Hl|]. rewrite Hok. left. reflexivity.
Qed.

(* line goals = lines of instrumented code objects that their scope covers *)
Lemma line_goals_exact mi cos l :
  In l (line_goals mi cos) <->
  exists j c, nth_error cos j = Some c /\ nth j (registered mi cos) false = true /\
              co_has_line c l /\ line_ok mi (get_scope mi (co_line c)) (Some l) = true.
Proof.
  unfold line_goals. rewrite in_flat_map. split.
  - intros [c [Hc H]]. apply In_select in Hc. destruct Hc as [j [H1 H2]].
    apply co_line_goals_spec in H. exists j, c. tauto.
  - intros [j [c [H1 [H2 H3]]]]. exists c. split; [apply In_select; exists j; auto|].
    apply co_line_goals_spec. exact H3.
Qed.

(* no line goal lies in excluded code *)
Lemma line_goal_not_excluded mi cos l :
  In l (line_goals mi cos) ->
  exists j c, nth_error cos j = Some c /\ nth j (registered mi cos) false = true /\ co_has_line c l /\
    forall sc, get_scope mi (co_line c) = Some sc ->
      ~ In l (no_cover mi) /\ in_only mi sc l /\ ~ excluded_in (no_cover mi) l sc
      /\ should_be_covered mi sc = true.
Proof.
  intro H. apply line_goals_exact in H. destruct H as [j [c [H1 [H2 [H3 H4]]]]].
  exists j, c. repeat split; try assumption; intros; rewrite H in H4; cbn in H4;
    try (apply should_cover_line_spec in H4; tauto).
  pose proof (registered_sound _ _ _ _ H1 H2) as [Hs _]. unfold scope_ok in Hs. rewrite H in Hs. exact Hs.
Qed.

(* every executable line outside excluded code of an instrumented code object is a line goal *)
Lemma line_goal_complete mi cos j c sc l :
  nth_error cos j = Some c -> nth j (registered mi cos) false = true ->
  get_scope mi (co_line c) = Some sc -> co_has_line c l ->
  ~ In l (no_cover mi) -> in_only mi sc l -> ~ excluded_in (no_cover mi) l sc ->
  In l (line_goals mi cos).
Proof.
  intros H1 H2 Hs H3 Hn Ho Hx. apply line_goals_exact. exists j, c. repeat split; try assumption.
  rewrite Hs. cbn. apply should_cover_line_spec. tauto.
Qed.

(* predicates *)
Lemma pred_goal_spec mi c b sc :
  get_scope mi (co_line c) = Some sc ->
  (b_pred b && cond_ok mi (Some sc) b && existsb (line_ok mi (Some sc)) (b_lines b)) = true ->
  b_pred b = true
  /\ (forall x, b_last b = Some (Some x) -> should_cover_cond mi sc x = true)
  /\ (exists o, In o (b_lines b) /\ match o with Some x => should_cover_line mi sc x = true | None => True end).
Proof.
  intros _ H. rewrite !andb_true_iff in H. destruct H as [[H1 H2] H3]. split; [exact H1|]. split.
  - intros x E. unfold cond_ok in H2. rewrite E in H2. exact H2.
  - apply existsb_In in H3. destruct H3 as [o [Ho H]]. exists o. split; [exact Ho|].
    destruct o; [exact H|exact I].
Qed.

(* partial: a registered predicate whose jump sits on the header line of an if/for/while/case is not
   in excluded code *)
Lemma pred_goal_header_not_excluded mi b sc x h :
  (b_pred b && cond_ok mi (Some sc) b && existsb (line_ok mi (Some sc)) (b_lines b)) = true ->
  b_last b = Some (Some x) ->
  find (fun n => cond_node n x) (flatten sc) = Some h -> nstart h = x ->
  ~ In x (no_cover mi) /\ ~ excluded_in (no_cover mi) x sc.
Proof.
  intros H Hl Hf Hx. rewrite !andb_true_iff in H. destruct H as [[_ H2] _].
  unfold cond_ok in H2. rewrite Hl in H2.
  pose proof (should_cover_cond_header _ _ _ _ Hf H2) as Q. rewrite Hx in Q.
  apply should_cover_line_spec in Q. tauto.
Qed.

(* refuted in general: `x = 1 ; y = a if b else c  # pragma: no cover` keeps its predicate *)
Definition wit_tree : node :=
  Node (KScope true false 0 0) 0 3
    [Node (KScope false true 1 1) 1 3 [Node KOther 2 2 []; Node KOther 3 3 []]].
Definition wit_info : info := {| root := wit_tree; no_cover := [3]; only_cover := [] |}.
Definition wit_block : block :=
  {| b_lines := [Some 2; Some 3]; b_ilines := [Some 2; Some 3]; b_last := Some (Some 3); b_pred := true |}.
Definition wit_cos : list cobj :=
  [ {| co_line := 0; co_parent := None; co_blocks := [] |};
    {| co_line := 1; co_parent := Some 0%nat; co_blocks := [wit_block] |} ].

Lemma pred_goal_refuted :
  exists mi cos, pred_goals mi cos = [Some []; Some [true]] /\
    exists sc, get_scope mi 1 = Some sc /\ should_cover_line mi sc 3 = false /\ In 3 (no_cover mi)
               /\ ~ In 3 (line_goals mi cos).
Proof.
  exists wit_info, wit_cos. split; [vm_compute; reflexivity|].
  eexists. split; [vm_compute; reflexivity|]. split; [vm_compute; reflexivity|].
  split; [left; reflexivity|]. vm_compute. intuition discriminate.
Qed.

(* ---------------------------------------------------------------------------------------------- *)
(* fix E: a definition is found under its qualified name wherever it is defined *)
Inductive qualified : list Z -> node -> list Z -> node -> Prop :=
  | Q_here parent n k s e ks m d f nm :
      n = Node k s e ks -> k = KScope m d f nm -> m = false -> qualified parent n (parent ++ [nm]) n
  | Q_scope parent n k s e ks m d f nm c q t :
      n = Node k s e ks -> k = KScope m d f nm -> In c ks ->
      qualified (if m then [] else parent ++ [nm]) c q t -> qualified parent n q t
  | Q_other parent n c q t :
      is_scope n = false -> In c (nkids n) -> qualified parent c q t -> qualified parent n q t.

Lemma scope_names_complete parent n q t :
  qualified parent n q t -> In (q, nstart t) (scope_names parent n).
Proof.
  induction 1 as [parent n k s e ks m d f nm En Ek Em|parent n k s e ks m d f nm c q t En Ek Hc _ IH|parent n c q t Hs Hc _ IH].
  - subst. cbn. left. reflexivity.
  - subst. cbn [scope_names]. destruct m.
    + apply in_flat_map. exists c. auto.
    + right. apply in_flat_map. exists c. auto.
  - destruct n as [k s e ks]. cbn [nkids] in Hc. unfold is_scope in Hs. cbn [nkind] in Hs.
    destruct k; try discriminate; cbn [scope_names]; apply in_flat_map; exists c; auto.
Qed.

Lemma lookup_last_found q l d : In (q, l) d -> exists l', lookup_last q d = Some l' /\ In (q, l') d.
Proof.
  intro H. unfold lookup_last.
  destruct (filter (fun p => qeqb q (fst p)) (rev d)) as [|p r] eqn:E.
  - exfalso. assert (X : In (q, l) (filter (fun p => qeqb q (fst p)) (rev d))).
    { apply filter_In. split; [apply in_rev in H; exact H|]. cbn. unfold qeqb. destruct (list_eq_dec Z.eq_dec q q); congruence. }
    rewrite E in X. exact X.
  - assert (X : In p (filter (fun p => qeqb q (fst p)) (rev d))) by (rewrite E; left; reflexivity).
    apply filter_In in X. destruct X as [X1 X2]. unfold qeqb in X2.
    destruct (list_eq_dec Z.eq_dec q (fst p)) as [Eq|]; [|discriminate].
    exists (snd p). split; [reflexivity|]. apply in_rev in X1. destruct p as [a b]. cbn in *. subst. exact X1.
Qed.

(* a listed name that denotes a definition of the module resolves to a line bound to that name *)
Lemma named_target_resolves t q n :
  qualified [] t q n -> forall targets, In q targets ->
  exists l, In l (find_lines t targets) /\ In (q, l) (scope_names [] t).
Proof.
  intros Hq targets Hin. apply scope_names_complete in Hq.
  destruct (lookup_last_found _ _ _ Hq) as [l' [E Hl]]. exists l'. split; [|exact Hl].
  unfold find_lines. apply in_flat_map. exists q. split; [exact Hin|]. rewrite E. left. reflexivity.
Qed.

(* ---------------------------------------------------------------------------------------------- *)
(* non-vacuity: a module with a decorated, excluded function, an else arm holding a single if, and a
   lambda inside an excluded arm *)
Definition ex_tree : node :=
  Node (KScope true false 0 0) 0 12
    [ Node (KScope false true 1 1) 2 4                      (* @deco / def f(): # no cover *)
        [Node KOther 3 3 []; Node KOther 4 4 []];
      Node (KScope false true 5 2) 5 12                     (* def g(a): *)
        [ Node (KIf false false) 6 12
            [ Node (KArm ABody) 0 (-1) [Node KOther 7 7 []];
              Node (KArm AOrelse) 0 (-1)                    (* else:  # no cover  (line 8) *)
                [ Node (KIf false false) 9 12
                    [ Node (KArm ABody) 0 (-1) [Node KOther 10 10 [Node (KScope false false 10 3) 10 10 []]];
                      Node (KArm AOrelse) 0 (-1) [Node KOther 12 12 []] ] ] ] ] ].
Definition ex_info : info := from_path ex_tree [2; 8] [] [].

Example ex_wf : wfb 0 13 ex_tree = true. Proof. reflexivity. Qed.
Example ex_decorated_found : exists s, get_scope ex_info 1 = Some s /\ should_be_covered ex_info s = false.
Proof. eexists. split; vm_compute; reflexivity. Qed.
Example ex_else_if_excluded : exists s, get_scope ex_info 5 = Some s /\
  map (should_cover_line ex_info s) [6; 7; 9; 10; 12] = [true; true; false; false; false].
Proof. eexists. split; vm_compute; reflexivity. Qed.
Example ex_lambda_in_excluded_arm : exists s, get_scope ex_info 10 = Some s /\ should_be_covered ex_info s = false.
Proof. eexists. split; vm_compute; reflexivity. Qed.
Example ex_line_goals :
  line_goals ex_info
    [ {| co_line := 0; co_parent := None; co_blocks := [{| b_lines := [Some 1; Some 2; Some 5]; b_ilines := [Some 1; Some 2; Some 5]; b_last := Some (Some 5); b_pred := false |}] |};
      {| co_line := 1; co_parent := Some 0%nat; co_blocks := [{| b_lines := [Some 3; Some 4]; b_ilines := [Some 3; Some 4]; b_last := Some (Some 4); b_pred := false |}] |};
      {| co_line := 5; co_parent := Some 0%nat; co_blocks := [{| b_lines := [Some 6; Some 7; Some 9; Some 10; Some 12]; b_ilines := [Some 6; Some 7; Some 9; Some 10; Some 12]; b_last := Some (Some 12); b_pred := false |}] |} ]
  = [1; 5; 6; 7].
Proof. vm_compute. reflexivity. Qed.
