(* C28 — proofs about the model in Models/C28.v *)
From Coq Require Import List ZArith Bool Lia Permutation Sorted.
From Verif Require Import Models.C28.
Import ListNotations. Import C28.

(* ------------------------------------------------------------------------------------------ *)
(* lists                                                                                       *)
Lemma upd_nth_id {A} (l : list A) i (f : A -> A) :
  (forall x, nth_error l i = Some x -> f x = x) -> upd_nth l i f = l.
Proof.
  revert i. induction l as [|x r IH]; intros i H; destruct i as [|j]; cbn [upd_nth]; auto.
  - rewrite (H x); auto.
  - rewrite IH; auto.
Qed.

Lemma upd_nth_out {A} (l : list A) i (f : A -> A) : nth_error l i = None -> upd_nth l i f = l.
Proof. intros H. apply upd_nth_id. intros x Hx. congruence. Qed.

Lemma upd_nth_twice {A} (l : list A) i (f g : A -> A) :
  upd_nth (upd_nth l i f) i g = upd_nth l i (fun x => g (f x)).
Proof.
  revert i. induction l as [|x r IH]; intros i; destruct i as [|j]; cbn [upd_nth]; auto.
  rewrite IH. reflexivity.
Qed.

Lemma nth_error_upd_same {A} (l : list A) i (f : A -> A) :
  nth_error (upd_nth l i f) i = option_map f (nth_error l i).
Proof.
  revert i. induction l as [|x r IH]; intros i; destruct i as [|j]; cbn [upd_nth nth_error option_map]; auto.
Qed.

Lemma nth_error_upd_other {A} (l : list A) i j (f : A -> A) :
  i <> j -> nth_error (upd_nth l i f) j = nth_error l j.
Proof.
  revert i j. induction l as [|x r IH]; intros i j H; destruct i as [|i'], j as [|j']; cbn [upd_nth nth_error]; auto;
    try congruence.
Qed.

Lemma length_upd_nth {A} (l : list A) i (f : A -> A) : length (upd_nth l i f) = length l.
Proof.
  revert i. induction l as [|x r IH]; intros i; destruct i as [|j]; cbn [upd_nth length]; auto.
Qed.

Lemma node_eta t : Node (label t) (kids t) = t.
Proof. destruct t; reflexivity. Qed.

(* ------------------------------------------------------------------------------------------ *)
(* substitution                                                                                *)
Lemma write_invalid : forall p t r, get t p = None -> write t p r = t.
Proof.
  induction p as [|i q IH]; intros t r H; cbn [get write] in *; [discriminate|].
  destruct (nth_error (kids t) i) as [c|] eqn:Hn.
  - rewrite upd_nth_id; [apply node_eta|]. intros x Hx. rewrite Hn in Hx. inversion Hx; subst. apply IH; auto.
  - rewrite upd_nth_out by auto. apply node_eta.
Qed.

(* A mutant is the original with exactly the subtree at the site replaced ... *)
Lemma get_write_same : forall p t r, get t p <> None -> get (write t p r) p = Some r.
Proof.
  induction p as [|i q IH]; intros t r H; cbn [get write] in *; auto.
  cbn [kids]. rewrite nth_error_upd_same.
  destruct (nth_error (kids t) i) as [c|]; [|congruence]. cbn [option_map]. apply IH; auto.
Qed.

(* ... every subtree beside the site is untouched ... *)
Lemma get_write_diverge : forall p p' t r, divergeb p p' = true -> get (write t p r) p' = get t p'.
Proof.
  induction p as [|i q IH]; intros p' t r H; destruct p' as [|j q']; cbn [divergeb] in H; try discriminate.
  cbn [get write kids]. destruct (Nat.eqb i j) eqn:Hij.
  - apply Nat.eqb_eq in Hij. subst j. rewrite nth_error_upd_same.
    destruct (nth_error (kids t) i) as [c|]; cbn [option_map]; auto.
  - apply Nat.eqb_neq in Hij. rewrite nth_error_upd_other by auto. reflexivity.
Qed.

(* ... and every node above the site keeps its label and its number of children. *)
Lemma write_above : forall pre t p r c, get t pre = Some c ->
  exists c', get (write t (pre ++ p) r) pre = Some c' /\
             (p <> [] -> label c' = label c /\ length (kids c') = length (kids c)).
Proof.
  induction pre as [|i q IH]; intros t p r c H; cbn [get app] in *.
  - inversion H; subst c. exists (write t p r). split; auto. intros Hp.
    destruct p as [|j p']; [congruence|]. cbn [write label kids]. rewrite length_upd_nth. auto.
  - cbn [write kids]. rewrite nth_error_upd_same.
    destruct (nth_error (kids t) i) as [c0|]; [|discriminate]. cbn [option_map]. apply IH; auto.
Qed.

Lemma restore_write t p r : restore (write t p r) p (get t p) = t.
Proof.
  destruct (get t p) as [v|] eqn:Hg; cbn [restore].
  - revert t r v Hg. induction p as [|i q IH]; intros t r v Hg; cbn [get write] in *.
    + inversion Hg; auto.
    + cbn [label kids]. rewrite upd_nth_twice.
      destruct (nth_error (kids t) i) as [c|] eqn:Hn; [|discriminate].
      rewrite upd_nth_id; [apply node_eta|]. intros x Hx. rewrite Hn in Hx. inversion Hx; subst. apply IH; auto.
  - apply write_invalid; auto.
Qed.

(* ------------------------------------------------------------------------------------------ *)
(* the generator protocol                                                                      *)
Lemma drain_susp t : forall sites p r,
  drain (S (length sites)) (write t p r) (Susp p (get t p) sites) = (map (apply_site t) sites, t, Finished).
Proof.
  induction sites as [|[p' r'] rest IH]; intros p r.
  - cbn [drain next length map]. rewrite restore_write. reflexivity.
  - cbn [length]. change (drain (S (S (length rest))) (write t p r) (Susp p (get t p) ((p', r') :: rest)))
      with (match next (write t p r) (Susp p (get t p) ((p', r') :: rest)) with
            | (s', g', Some y) => let '(ys, sf, gf) := drain (S (length rest)) s' g' in (y :: ys, sf, gf)
            | (s', g', None) => ([], s', g')
            end).
    cbn [next]. rewrite restore_write. rewrite IH. reflexivity.
Qed.

(* Exhausting the generator yields exactly the functional mutants, in order, each a single
   substitution into the ORIGINAL, and leaves the tree as it was. *)
Lemma drain_fresh t sites :
  drain (S (length sites)) t (Fresh sites) = (map (apply_site t) sites, t, Finished).
Proof.
  destruct sites as [|[p r] rest].
  - reflexivity.
  - cbn [length]. change (drain (S (S (length rest))) t (Fresh ((p, r) :: rest)))
      with (match next t (Fresh ((p, r) :: rest)) with
            | (s', g', Some y) => let '(ys, sf, gf) := drain (S (length rest)) s' g' in (y :: ys, sf, gf)
            | (s', g', None) => ([], s', g')
            end).
    cbn [next]. rewrite drain_susp. reflexivity.
Qed.

Lemma drain_operator op t :
  drain (S (length (muts op t))) t (Fresh (muts op t)) = (mutants op t, t, Finished).
Proof. apply drain_fresh. Qed.

Lemma next_consistent t s g :
  consistent t s g ->
  let '(s', g', y) := next s g in
  consistent t s' g' /\
  match y with
  | Some m => m = s' /\ exists p r, m = write t p r /\
              (match g with Fresh todo | Susp _ _ todo => hd_error todo = Some (p, r) | Finished => False end)
  | None => s' = t
  end.
Proof.
  destruct g as [todo|p saved todo|]; cbn [consistent next].
  - intros ->. destruct todo as [|[p r] rest]; cbn [consistent].
    + auto.
    + split; [split; eauto|]. split; auto. exists p, r. auto.
  - intros [[r0 ->] ->]. destruct todo as [|[p' r'] rest]; rewrite restore_write; cbn [consistent].
    + auto.
    + split; [split; eauto|]. split; auto. exists p', r'. auto.
  - intros ->. auto.
Qed.

(* Closing a suspended generator restores the tree when the yield is protected by try/finally ... *)
Lemma close_fixed_restores t s g : consistent t s g -> fst (close true s g) = t.
Proof.
  destruct g as [todo|p saved todo|]; cbn [consistent close fst]; auto.
  intros [[r ->] ->]. apply restore_write.
Qed.

(* ... and leaves the mutant in place when it is not. *)
Lemma close_unfixed_keeps_mutation t s p saved todo :
  consistent t s (Susp p saved todo) -> fst (close false s (Susp p saved todo)) = s.
Proof. reflexivity. Qed.

Example close_midway_leaves_mutated :
  exists t sites, let '(s, g, _) := next t (Fresh sites) in fst (close false s g) <> t.
Proof.
  exists (Node 1 [Node 2 []; Node 3 []]), [([0], Node 9 [])]. cbn. intros H. inversion H.
Qed.

Example close_midway_fixed_example :
  let t := Node 1 [Node 2 []; Node 3 []] in
  let '(s, g, _) := next t (Fresh [([0], Node 9 []); ([1], Node 8 [])]) in fst (close true s g) = t.
Proof. reflexivity. Qed.

(* ------------------------------------------------------------------------------------------ *)
(* higher-order mutants: nested in-place mutations undone in reverse order                     *)
Lemma hom_restores_gen : forall sites s log,
  hom_undo (fst (hom_apply s sites log)) (snd (hom_apply s sites log)) = hom_undo s log.
Proof.
  induction sites as [|[p r] rest IH]; intros s log; cbn [hom_apply]; auto.
  rewrite IH. unfold hom_undo. cbn [fold_left fst snd]. rewrite restore_write. reflexivity.
Qed.

Lemma hom_restores sites t :
  hom_undo (fst (hom_apply t sites [])) (snd (hom_apply t sites [])) = t.
Proof. rewrite hom_restores_gen. reflexivity. Qed.

(* the higher-order mutant is the composition of single substitutions *)
Lemma hom_apply_fold : forall sites s log,
  fst (hom_apply s sites log) = fold_left apply_site sites s.
Proof. induction sites as [|[p r] rest IH]; intros s log; cbn [hom_apply fold_left]; auto. Qed.

(* undoing in the order of application is wrong in general (here: the same slot twice) *)
Example hom_forward_order_can_fail :
  let t := Node 1 [Node 2 []] in
  let '(s, log) := hom_apply t [([0], Node 7 []); ([0], Node 8 [])] [] in
  hom_undo s (rev log) <> t.
Proof. cbn. intros H. inversion H. Qed.

(* ------------------------------------------------------------------------------------------ *)
(* round robin                                                                                 *)
Lemma perm_heads_tails {A} (ls : list (list A)) : Permutation (concat ls) (heads ls ++ concat (tails ls)).
Proof.
  induction ls as [|l r IH]; cbn [concat heads tails flat_map map]; auto.
  fold (heads r). fold (tails r). destruct l as [|x l']; cbn [app tl].
  - exact IH.
  - constructor. rewrite IH. rewrite !app_assoc. apply Permutation_app_tail. apply Permutation_app_comm.
Qed.

Lemma concat_all_nil {A} (ls : list (list A)) : (forall l, In l ls -> l = []) -> concat ls = [].
Proof.
  induction ls as [|l r IH]; intros H; cbn [concat]; auto.
  rewrite (H l) by (left; auto). rewrite IH; auto. intros x Hx. apply H. right; auto.
Qed.

Lemma rr_perm {A} : forall fuel (ls : list (list A)),
  (forall l, In l ls -> length l <= fuel) -> Permutation (rr fuel ls) (concat ls).
Proof.
  induction fuel as [|f IH]; intros ls H; cbn [rr].
  - rewrite concat_all_nil; auto. intros l Hl. specialize (H l Hl). destruct l; [auto|cbn in H; lia].
  - rewrite (perm_heads_tails ls). apply Permutation_app_head. apply IH.
    intros l Hl. unfold tails in Hl. apply in_map_iff in Hl. destruct Hl as [l0 [<- Hl0]].
    specialize (H l0 Hl0). destruct l0; cbn [tl length] in *; lia.
Qed.

Lemma length_le_concat {A} (ls : list (list A)) l : In l ls -> length l <= length (concat ls).
Proof.
  induction ls as [|x r IH]; intros H; [destruct H|]. cbn [concat]. rewrite app_length.
  destruct H as [->|H]; [lia|]. specialize (IH H). lia.
Qed.

Lemma round_robin_perm {A} (ls : list (list A)) : Permutation (round_robin ls) (concat ls).
Proof. unfold round_robin. apply rr_perm. intros l Hl. apply length_le_concat; auto. Qed.

(* ------------------------------------------------------------------------------------------ *)
(* sampling and reordering yield mutants of the full enumeration                               *)
Lemma sublist_refl {A} (l : list A) : sublist l l.
Proof. induction l; [constructor|apply sl_take; auto]. Qed.

Lemma sublist_app {A} (a b c d : list A) : sublist a b -> sublist c d -> sublist (a ++ c) (b ++ d).
Proof. intros H1 H2. induction H1; cbn [app]; auto; [apply sl_skip|apply sl_take]; auto. Qed.

Lemma sublist_concat {A} (xs ys : list (list A)) : Forall2 sublist xs ys -> sublist (concat xs) (concat ys).
Proof. intros H. induction H; cbn [concat]; [constructor|apply sublist_app; auto]. Qed.

Lemma sublist_length {A} (a b : list A) : sublist a b -> length a <= length b.
Proof. intros H. induction H; cbn [length]; lia. Qed.

Lemma sublist_In {A} (a b : list A) x : sublist a b -> In x a -> In x b.
Proof. intros H. induction H; cbn [In]; intuition auto. Qed.

(* per operator: same flag, and the sampled list is a sublist of the operator's full list *)
Definition sampled_from {A} (s f : bool * list A) : Prop := fst s = fst f /\ sublist (snd s) (snd f).

Lemma regular_sub {A} (ls' ls : list (bool * list A)) :
  Forall2 sampled_from ls' ls -> Forall2 sublist (regular ls') (regular ls).
Proof.
  intros H. induction H as [|[b' l'] [b l] r' r [Hb Hs] _ IH]; [constructor|].
  cbn [fst snd] in *. subst b'. unfold regular. cbn [filter fst]. destruct b; cbn [negb map snd]; auto.
Qed.

Lemma deferred_sub {A} (ls' ls : list (bool * list A)) :
  Forall2 sampled_from ls' ls -> Forall2 sublist (deferred ls') (deferred ls).
Proof.
  intros H. induction H as [|[b' l'] [b l] r' r [Hb Hs] _ IH]; [constructor|].
  cbn [fst snd] in *. subst b'. unfold deferred. cbn [filter fst]. destruct b; cbn [map snd]; auto.
Qed.

Lemma partition_perm {A} (ls : list (bool * list A)) :
  Permutation (concat (map snd ls)) (concat (regular ls) ++ concat (deferred ls)).
Proof.
  induction ls as [|[b l] r IH]; cbn [map snd concat]; auto.
  unfold regular, deferred in *. cbn [filter fst]. destruct b; cbn [negb map snd concat].
  - rewrite IH. rewrite !app_assoc. apply Permutation_app_tail. apply Permutation_app_comm.
  - rewrite IH. rewrite app_assoc. reflexivity.
Qed.

(* The selected (sampled, interleaved, deferred) enumeration is, up to order, a sub-multiset of the
   full enumeration. *)
Lemma select_sub_multiset {A} (ls' ls : list (bool * list A)) :
  Forall2 sampled_from ls' ls ->
  exists m full, Permutation (select_model ls') m /\ sublist m full /\ Permutation full (concat (map snd ls)).
Proof.
  intros H. exists (concat (regular ls') ++ concat (deferred ls')), (concat (regular ls) ++ concat (deferred ls)).
  split; [|split].
  - unfold select_model. apply Permutation_app; apply round_robin_perm.
  - apply sublist_app; apply sublist_concat; [apply regular_sub|apply deferred_sub]; auto.
  - symmetry. apply partition_perm.
Qed.

(* without sampling the reordered enumeration is a permutation of the full one *)
Lemma select_reorder_perm {A} (ls : list (bool * list A)) :
  Permutation (select_model ls) (concat (map snd ls)).
Proof.
  unfold select_model. rewrite (partition_perm ls). apply Permutation_app; apply round_robin_perm.
Qed.

Lemma select_count_le {A} (ls' ls : list (bool * list A)) :
  Forall2 sampled_from ls' ls -> length (select_model ls') <= length (concat (map snd ls)).
Proof.
  intros H. destruct (select_sub_multiset ls' ls H) as [m [full [Hp [Hs Hf]]]].
  rewrite (Permutation_length Hp). rewrite <- (Permutation_length Hf). apply sublist_length; auto.
Qed.

Lemma select_members {A} (ls' ls : list (bool * list A)) x :
  Forall2 sampled_from ls' ls -> In x (select_model ls') -> In x (concat (map snd ls)).
Proof.
  intros H Hx. destruct (select_sub_multiset ls' ls H) as [m [full [Hp [Hs Hf]]]].
  eapply Permutation_in; [exact Hf|]. eapply sublist_In; [exact Hs|]. eapply Permutation_in; [exact Hp|auto].
Qed.

Lemma fm_ext_in {A B} (f g : A -> list B) l : (forall a, In a l -> f a = g a) -> flat_map f l = flat_map g l.
Proof.
  induction l as [|x r IH]; intros H; cbn [flat_map]; auto.
  rewrite (H x) by (left; auto). rewrite IH; auto. intros a Ha. apply H. right; auto.
Qed.

(* sorted distinct indices pick a sublist *)
Lemma pick_sublist_from {A} : forall (l : list A) (idxs : list nat) (base : nat),
  (forall i, In i idxs -> base <= i) ->
  StronglySorted lt idxs ->
  sublist (flat_map (fun i => match nth_error l (i - base) with Some x => [x] | None => [] end) idxs) l.
Proof.
  induction l as [|x r IH]; intros idxs base Hge Hs.
  - assert (E : flat_map (fun i => match nth_error (@nil A) (i - base) with Some x => [x] | None => [] end) idxs = []).
    { clear. induction idxs as [|i r IH]; cbn [flat_map]; auto. destruct (i - base); cbn; auto. }
    rewrite E. constructor.
  - destruct idxs as [|i rest]; cbn [flat_map].
    + clear. induction (x :: r); [constructor|apply sl_skip; auto].
    + inversion Hs as [|? ? Hs' Hall]; subst.
      assert (Hi : base <= i) by (apply Hge; left; auto).
      destruct (Nat.eq_dec i base) as [->|Hne].
      * replace (base - base) with 0 by lia. cbn [nth_error app]. apply sl_take.
        assert (E : flat_map (fun i => match nth_error (x :: r) (i - base) with Some y => [y] | None => [] end) rest
                    = flat_map (fun i => match nth_error r (i - S base) with Some y => [y] | None => [] end) rest).
        { apply fm_ext_in. intros j Hj. rewrite Forall_forall in Hall. specialize (Hall j Hj).
          replace (j - base) with (S (j - S base)) by lia. reflexivity. }
        rewrite E. apply IH; auto. intros j Hj. rewrite Forall_forall in Hall. specialize (Hall j Hj). lia.
      * apply sl_skip.
        assert (E : (match nth_error (x :: r) (i - base) with Some y => [y] | None => [] end ++
                     flat_map (fun i => match nth_error (x :: r) (i - base) with Some y => [y] | None => [] end) rest)
                    = flat_map (fun i => match nth_error r (i - S base) with Some y => [y] | None => [] end) (i :: rest)).
        { cbn [flat_map]. f_equal.
          - replace (i - base) with (S (i - S base)) by lia. reflexivity.
          - apply fm_ext_in. intros j Hj. rewrite Forall_forall in Hall. specialize (Hall j Hj).
            replace (j - base) with (S (j - S base)) by lia. reflexivity. }
        rewrite E. apply IH; auto.
        intros j [<-|Hj]; [lia|]. rewrite Forall_forall in Hall. specialize (Hall j Hj). lia.
Qed.

Lemma pick_sublist {A} (l : list A) idxs : StronglySorted lt idxs -> sublist (pick l idxs) l.
Proof.
  intros Hs. unfold pick.
  assert (E : flat_map (fun i => match nth_error l i with Some x => [x] | None => [] end) idxs
              = flat_map (fun i => match nth_error l (i - 0) with Some x => [x] | None => [] end) idxs).
  { apply fm_ext_in. intros i _. rewrite Nat.sub_0_r. reflexivity. }
  rewrite E. apply pick_sublist_from; auto. intros; lia.
Qed.

(* ------------------------------------------------------------------------------------------ *)
Lemma mutation_count_is_length ops t :
  mutation_count ops t = length (concat (map (fun op => mutants op t) ops)).
Proof.
  unfold mutation_count. induction ops as [|op r IH]; cbn [map concat]; auto.
  rewrite !app_length. unfold mutants at 1. rewrite map_length. f_equal. exact IH.
Qed.

(* non-vacuity: an operator that negates every node labelled 5 on a small tree *)
Example muts_example :
  let op := fun t => if Z.eqb (label t) 5 then [Node 6 (kids t)] else [] in
  let t := Node 1 [Node 5 [Node 2 []]; Node 3 [Node 5 []]] in
  muts op t = [([0], Node 6 [Node 2 []]); ([1; 0], Node 6 [])]
  /\ mutants op t = [Node 1 [Node 6 [Node 2 []]; Node 3 [Node 5 []]]; Node 1 [Node 5 [Node 2 []]; Node 3 [Node 6 []]]].
Proof. cbn. split; reflexivity. Qed.

Example select_example :
  select_model [(false, [1; 2; 3]%Z); (true, [10; 11]%Z); (false, [4]%Z)] = [1; 4; 2; 3; 10; 11]%Z.
Proof. reflexivity. Qed.

Example sampled_example : Forall2 sampled_from [(false, [1; 3]%Z); (true, [11]%Z)] [(false, [1; 2; 3]%Z); (true, [10; 11]%Z)].
Proof.
  constructor; [split; [reflexivity|cbn; apply sl_take, sl_skip, sl_take, sl_nil]|].
  constructor; [split; [reflexivity|cbn; apply sl_skip, sl_take, sl_nil]|constructor].
Qed.
