(* C10 — proofs about the metric functions: fitness >= 0, coverage in [0,1],
   covered <-> fitness 0 <-> coverage 1. *)
From Coq Require Import List ZArith QArith Bool Lia Lqa.
From Verif Require Import Models.C10.
Import ListNotations.
Import C10.
Open Scope Q_scope.

(* ---------- booleans over Q ---------- *)
Lemma Qle_bool_true x y : Qle_bool x y = true <-> x <= y.
Proof. apply Qle_bool_iff. Qed.

Lemma Qeq_bool_true x y : Qeq_bool x y = true <-> x == y.
Proof. apply Qeq_bool_iff. Qed.

(* ---------- normalise ---------- *)
Lemma normalise_fin q : 0 <= q -> normalise (Fin q) == q / (1 + q).
Proof. reflexivity. Qed.

Lemma div_1plus_pos q : 0 < q -> 0 < q / (1 + q) /\ q / (1 + q) < 1.
Proof.
  intro H. assert (P : 0 < 1 + q) by lra. split.
  - apply Qlt_shift_div_l; [exact P|lra].
  - apply Qlt_shift_div_r; [exact P|lra].
Qed.

Lemma div_1plus_zero q : q == 0 -> q / (1 + q) == 0.
Proof. intro H. rewrite H. reflexivity. Qed.

Theorem normalise_range d : dist_nonneg d = true -> 0 <= normalise d /\ normalise d <= 1.
Proof.
  destruct d as [q|]; simpl; [|intros _; lra].
  intro H. apply Qle_bool_true in H.
  destruct (Qlt_le_dec 0 q) as [P|N].
  - destruct (div_1plus_pos q P). lra.
  - assert (E : q == 0) by lra. rewrite (div_1plus_zero q E). lra.
Qed.

Theorem normalise_fin_lt_1 q : 0 <= q -> normalise (Fin q) < 1.
Proof.
  intro H. simpl. destruct (Qlt_le_dec 0 q) as [P|N].
  - apply (div_1plus_pos q P).
  - assert (E : q == 0) by lra. rewrite (div_1plus_zero q E). lra.
Qed.

Theorem normalise_zero_iff d : dist_nonneg d = true ->
  (normalise d == 0 <-> dist_is_zero d = true).
Proof.
  destruct d as [q|]; simpl.
  - intro H. apply Qle_bool_true in H. rewrite Qeq_bool_true. split.
    + intro E. destruct (Qlt_le_dec 0 q) as [P|N]; [|lra].
      destruct (div_1plus_pos q P). lra.
    + apply div_1plus_zero.
  - intros _. split; [intro H; lra|discriminate].
Qed.

Theorem normalise_inf : normalise Inf == 1.
Proof. reflexivity. Qed.

Lemma div_1plus_mono x y : 0 <= x -> x <= y -> x / (1 + x) <= y / (1 + y).
Proof.
  intros Hx Hxy. assert (Px : 0 < 1 + x) by lra. assert (Py : 0 < 1 + y) by lra.
  apply Qle_shift_div_l; [exact Py|].
  setoid_replace (x / (1 + x) * (1 + y)) with ((x * (1 + y)) / (1 + x)) by (field; lra).
  apply Qle_shift_div_r; [exact Px|]. nra.
Qed.

Theorem normalise_mono a b :
  dist_nonneg a = true -> dist_le a b = true -> normalise a <= normalise b.
Proof.
  destruct a as [x|], b as [y|]; simpl; intros Ha Hab; try discriminate; try lra.
  - apply Qle_bool_true in Ha, Hab. now apply div_1plus_mono.
  - apply Qle_bool_true in Ha. apply Qlt_le_weak, (normalise_fin_lt_1 x Ha).
Qed.

(* ---------- lists of ids ---------- *)
Lemma memZ_In x l : memZ x l = true <-> In x l.
Proof.
  unfold memZ. rewrite existsb_exists. split.
  - intros [y [Hy He]]. apply Z.eqb_eq in He. now subst.
  - intro H. exists x. split; [exact H|apply Z.eqb_refl].
Qed.

Lemma memZ_false x l : memZ x l = false <-> ~ In x l.
Proof. rewrite <- memZ_In. destruct (memZ x l); split; congruence. Qed.

Lemma nodupb_NoDup l : nodupb l = true <-> NoDup l.
Proof.
  induction l as [|x r IH]; simpl.
  - split; [constructor|reflexivity].
  - rewrite andb_true_iff, negb_true_iff, memZ_false, IH. split.
    + intros [H1 H2]. now constructor.
    + intro H. inversion H; subst. tauto.
Qed.

Lemma subsetb_incl a b : subsetb a b = true <-> incl a b.
Proof.
  unfold subsetb, incl. rewrite forallb_forall. split; intros H x Hx; apply memZ_In, H, Hx.
Qed.

(* ---------- dictionaries ---------- *)
Section DictFacts.
  Context {V : Type}.
  Implicit Types d : dict V.

  Lemma dget_Some_In d k v : dget d k = Some v -> In (k, v) d.
  Proof.
    induction d as [|[k' v'] r IH]; simpl; [discriminate|].
    destruct (Z.eqb_spec k k') as [->|Hne].
    - intro E. injection E as ->. now left.
    - intro E. right. apply IH, E.
  Qed.

  Lemma dget_None_notin d k : dget d k = None <-> ~ In k (keys d).
  Proof.
    induction d as [|[k' v'] r IH]; simpl; [tauto|].
    destruct (Z.eqb_spec k k') as [->|Hne]; [split; [discriminate|tauto]|].
    rewrite IH. split; [intros H [E|H']; [congruence|tauto]|tauto].
  Qed.

  Lemma dget_NoDup_In d k v : NoDup (keys d) -> In (k, v) d -> dget d k = Some v.
  Proof.
    induction d as [|[k' v'] r IH]; simpl; [tauto|].
    intros Hnd [E|Hin]; inversion Hnd as [|? ? Hk Hr]; subst.
    - injection E as -> ->. now rewrite Z.eqb_refl.
    - destruct (Z.eqb_spec k k') as [->|Hne]; [|apply IH; assumption].
      exfalso. apply Hk. apply (in_map fst) in Hin. exact Hin.
  Qed.

  Lemma dmem_In d k : dmem d k = true <-> In k (keys d).
  Proof.
    unfold dmem. destruct (dget d k) eqn:E.
    - split; [intros _|reflexivity]. apply dget_Some_In in E. apply (in_map fst) in E. exact E.
    - split; [discriminate|]. intro H. apply dget_None_notin in E. contradiction.
  Qed.

  Lemma dget_value_In d k v : dget d k = Some v -> In v (values d).
  Proof. intro E. apply dget_Some_In in E. apply (in_map snd) in E. exact E. Qed.
End DictFacts.

(* ---------- sums of non-negative terms ---------- *)
Fixpoint qsum (l : list Q) : Q := match l with [] => 0 | x :: r => x + qsum r end.

Lemma qsum_nonneg l : (forall x, In x l -> 0 <= x) -> 0 <= qsum l.
Proof.
  induction l as [|x r IH]; simpl; intro H; [lra|].
  assert (0 <= x) by (apply H; now left). assert (0 <= qsum r) by (apply IH; intros; apply H; now right). lra.
Qed.

Lemma qsum_zero_iff l : (forall x, In x l -> 0 <= x) -> (qsum l == 0 <-> forall x, In x l -> x == 0).
Proof.
  induction l as [|x r IH]; simpl; intro H; [split; [tauto|reflexivity]|].
  assert (Hx : 0 <= x) by (apply H; now left).
  assert (Hr : forall y, In y r -> 0 <= y) by (intros; apply H; now right).
  pose proof (qsum_nonneg r Hr) as Sr. specialize (IH Hr). split.
  - intros E y [<-|Hy]; [lra|]. apply IH; [lra|exact Hy].
  - intro A. assert (x == 0) by (apply A; now left).
    assert (qsum r == 0) by (apply IH; intros; apply A; now right). lra.
Qed.

Lemma qsum_le l1 l2 : Forall2 Qle l1 l2 -> qsum l1 <= qsum l2.
Proof. induction 1; simpl; lra. Qed.

(* the accumulation loop of compute_branch_distance_fitness as a sum of per-predicate terms *)
Definition pred_term (t : trace) (ex_true ex_false : list Z) (p : Z) : Q :=
  (if memZ p ex_true then 0 else predicate_fitness p (true_d t) t) +
  (if memZ p ex_false then 0 else predicate_fitness p (false_d t) t).

Lemma fold_pred_terms t ex_true ex_false ps acc :
  fold_left (fun acc p =>
               let acc1 := if memZ p ex_true then acc else acc + predicate_fitness p (true_d t) t in
               if memZ p ex_false then acc1 else acc1 + predicate_fitness p (false_d t) t) ps acc
  == acc + qsum (map (pred_term t ex_true ex_false) ps).
Proof.
  revert acc. induction ps as [|p r IH]; intro acc; simpl; [lra|].
  rewrite IH. unfold pred_term at 2. cbv zeta.
  destruct (memZ p ex_true), (memZ p ex_false); lra.
Qed.

Lemma branch_fitness_ex_sum t r ec et ef :
  branch_fitness_ex t r ec et ef ==
  inject_Z (code_objects_missing t r ec) + qsum (map (pred_term t et ef) (predicates r)).
Proof. unfold branch_fitness_ex. rewrite fold_pred_terms. lra. Qed.

(* ---------- predicate fitness ---------- *)
Definition dists_nonneg (bd : dict dist) : Prop := forall d, In d (values bd) -> dist_nonneg d = true.

Lemma predicate_fitness_range p bd t : dists_nonneg bd ->
  0 <= predicate_fitness p bd t /\ predicate_fitness p bd t <= 1.
Proof.
  intro N. unfold predicate_fitness. destruct (dget bd p) as [d|] eqn:E; [|lra].
  destruct (dist_is_zero d); [lra|].
  destruct (dget (exec_pred t) p) as [c|]; [|lra].
  destruct (2 <=? c)%Z; [|lra]. apply normalise_range, N, (dget_value_In _ _ _ E).
Qed.

Lemma predicate_fitness_zero_iff p bd t : dists_nonneg bd ->
  (predicate_fitness p bd t == 0 <-> has_zero bd p = true).
Proof.
  intro N. unfold predicate_fitness, has_zero. destruct (dget bd p) as [d|] eqn:E.
  - destruct (dist_is_zero d) eqn:Z; [split; [reflexivity|intros _; lra]|].
    split; [|discriminate]. intro F. exfalso.
    assert (Nd : dist_nonneg d = true) by (apply N, (dget_value_In _ _ _ E)).
    destruct (dget (exec_pred t) p) as [c|]; [|lra].
    destruct (2 <=? c)%Z; [|lra]. apply (normalise_zero_iff d Nd) in F. congruence.
  - split; [intro; lra|discriminate].
Qed.

(* ---------- validity, unpacked ---------- *)
Lemma combine_eqb_eq (a b : list Z) :
  forallb (fun k => Z.eqb (fst k) (snd k)) (combine a b) = true -> length a = length b -> a = b.
Proof.
  revert b. induction a as [|x a IH]; intros [|y b]; simpl; try discriminate; [reflexivity|].
  rewrite andb_true_iff. intros [E H] L. apply Z.eqb_eq in E. subst. f_equal. apply IH; [exact H|lia].
Qed.

Record Valid (t : trace) (r : registry) : Prop := {
  v_nd_code : NoDup (exec_code t);
  v_nd_cov : NoDup (cov_lines t);
  v_nd_chk : NoDup (chk_lines t);
  v_cov_sub : incl (cov_lines t) (lines r);
  v_chk_sub : incl (chk_lines t) (lines r);
  v_nd_keys : NoDup (keys (exec_pred t));
  v_keys_sub : incl (keys (exec_pred t)) (predicates r);
  v_keys_true : keys (true_d t) = keys (exec_pred t);
  v_keys_false : keys (false_d t) = keys (exec_pred t);
  v_counts : forall c, In c (values (exec_pred t)) -> (1 <= c)%Z;
  v_nn_true : dists_nonneg (true_d t);
  v_nn_false : dists_nonneg (false_d t);
}.

Lemma map_length_keys {V} (d : dict V) : length (keys d) = length d.
Proof. apply map_length. Qed.

Lemma valid_Valid t r : valid t r = true -> Valid t r.
Proof.
  unfold valid. rewrite !andb_true_iff.
  intros [[[[[[[[[[[[[A1 A2] A3] A4] A5] A6] A7] A8] A9] A10] A11] A12] A13] A14].
  constructor.
  - now apply nodupb_NoDup.
  - now apply nodupb_NoDup.
  - now apply nodupb_NoDup.
  - now apply subsetb_incl.
  - now apply subsetb_incl.
  - now apply nodupb_NoDup.
  - now apply subsetb_incl.
  - apply combine_eqb_eq; [exact A8|]. rewrite !map_length_keys. now apply Nat.eqb_eq.
  - apply combine_eqb_eq; [exact A10|]. rewrite !map_length_keys. now apply Nat.eqb_eq.
  - intros c Hc. rewrite forallb_forall in A12. apply Z.leb_le, A12, Hc.
  - intros d Hd. rewrite forallb_forall in A13. apply A13, Hd.
  - intros d Hd. rewrite forallb_forall in A14. apply A14, Hd.
Qed.

(* ---------- suite level: fitness >= 0, fitness = 0 <-> covered ---------- *)
Lemma count_if_nonneg {A} (f : A -> bool) l : (0 <= count_if f l)%Z.
Proof. unfold count_if. lia. Qed.

Lemma count_if_zero_iff {A} (f : A -> bool) l : count_if f l = 0%Z <-> existsb f l = false.
Proof.
  unfold count_if. induction l as [|x r IH]; simpl; [tauto|].
  destruct (f x); simpl; [split; [lia|discriminate]|exact IH].
Qed.

Lemma pred_term_range t et ef p : dists_nonneg (true_d t) -> dists_nonneg (false_d t) ->
  0 <= pred_term t et ef p.
Proof.
  intros Nt Nf. unfold pred_term.
  pose proof (predicate_fitness_range p (true_d t) t Nt).
  pose proof (predicate_fitness_range p (false_d t) t Nf).
  destruct (memZ p et), (memZ p ef); lra.
Qed.

Lemma pred_term_zero_iff t et ef p : dists_nonneg (true_d t) -> dists_nonneg (false_d t) ->
  (pred_term t et ef p == 0 <->
   (memZ p et || has_zero (true_d t) p) && (memZ p ef || has_zero (false_d t) p) = true).
Proof.
  intros Nt Nf. unfold pred_term.
  pose proof (predicate_fitness_range p (true_d t) t Nt) as [R1 _].
  pose proof (predicate_fitness_range p (false_d t) t Nf) as [R2 _].
  pose proof (predicate_fitness_zero_iff p (true_d t) t Nt) as Z1.
  pose proof (predicate_fitness_zero_iff p (false_d t) t Nf) as Z2.
  rewrite andb_true_iff, !orb_true_iff.
  destruct (memZ p et), (memZ p ef); split.
  - intros _. split; now left.
  - intros _. lra.
  - intro E. split; [now left|right; apply Z2; lra].
  - intros [_ [H|H]]; [discriminate|]. apply Z2 in H. lra.
  - intro E. split; [right; apply Z1; lra|now left].
  - intros [[H|H] _]; [discriminate|]. apply Z1 in H. lra.
  - intro E. split; right; [apply Z1|apply Z2]; lra.
  - intros [[H1|H1] [H2|H2]]; try discriminate. apply Z1 in H1. apply Z2 in H2. lra.
Qed.

Theorem branch_fitness_nonneg t r ec et ef :
  dists_nonneg (true_d t) -> dists_nonneg (false_d t) -> 0 <= branch_fitness_ex t r ec et ef.
Proof.
  intros Nt Nf. rewrite branch_fitness_ex_sum.
  assert (0 <= inject_Z (code_objects_missing t r ec)).
  { rewrite <- (Zle_Qle 0). apply count_if_nonneg. }
  assert (0 <= qsum (map (pred_term t et ef) (predicates r))).
  { apply qsum_nonneg. intros x Hx. apply in_map_iff in Hx. destruct Hx as [p [<- _]].
    now apply pred_term_range. }
  lra.
Qed.

Theorem branch_fitness_zero_iff_covered t r ec et ef :
  dists_nonneg (true_d t) -> dists_nonneg (false_d t) ->
  (branch_fitness_ex t r ec et ef == 0 <-> branch_is_covered_ex t r ec et ef = true).
Proof.
  intros Nt Nf. rewrite branch_fitness_ex_sum. unfold branch_is_covered_ex.
  set (f := fun c => negb (memZ c (exec_code t)) && negb (memZ c ec)).
  set (terms := map (pred_term t et ef) (predicates r)).
  assert (M : (0 <= code_objects_missing t r ec)%Z) by apply count_if_nonneg.
  assert (Mq : 0 <= inject_Z (code_objects_missing t r ec)) by (rewrite <- (Zle_Qle 0); exact M).
  assert (Tn : forall x, In x terms -> 0 <= x).
  { intros x Hx. apply in_map_iff in Hx. destruct Hx as [p [<- _]]. now apply pred_term_range. }
  pose proof (qsum_nonneg terms Tn) as S.
  pose proof (qsum_zero_iff terms Tn) as SZ.
  pose proof (count_if_zero_iff f (branchless r)) as CZ. fold (code_objects_missing t r ec) in CZ.
  split.
  - intro E.
    assert (E1 : inject_Z (code_objects_missing t r ec) == 0) by lra.
    assert (E2 : qsum terms == 0) by lra.
    assert (code_objects_missing t r ec = 0%Z) as E1' by (unfold Qeq in E1; simpl in E1; lia).
    rewrite (proj1 CZ E1'). apply forallb_forall. intros p Hp.
    apply (pred_term_zero_iff t et ef p Nt Nf). apply (proj1 SZ E2). apply in_map. exact Hp.
  - destruct (existsb f (branchless r)) eqn:X; [discriminate|]. intro F.
    assert (E0 : code_objects_missing t r ec = 0%Z) by (apply CZ; reflexivity).
    rewrite E0. rewrite forallb_forall in F.
    assert (qsum terms == 0).
    { apply SZ. intros x Hx. apply in_map_iff in Hx. destruct Hx as [p [<- Hp]].
      apply (pred_term_zero_iff t et ef p Nt Nf), F, Hp. }
    change (inject_Z 0) with 0. lra.
Qed.

(* ---------- coverage values ---------- *)
Lemma ratio_range c e : (0 <= c <= e)%Z -> 0 <= ratio c e /\ ratio c e <= 1.
Proof.
  intro H. unfold ratio. destruct (Z.eqb_spec e 0) as [->|Hne]; [lra|].
  assert (P : 0 < inject_Z e) by (rewrite <- (Zlt_Qlt 0); lia).
  assert (C0 : 0 <= inject_Z c) by (rewrite <- (Zle_Qle 0); lia).
  assert (CE : inject_Z c <= inject_Z e) by (rewrite <- Zle_Qle; lia).
  split.
  - apply Qle_shift_div_l; [exact P|lra].
  - apply Qle_shift_div_r; [exact P|lra].
Qed.

Lemma ratio_one_iff c e : (0 <= c <= e)%Z -> (ratio c e == 1 <-> c = e).
Proof.
  intro H. unfold ratio. destruct (Z.eqb_spec e 0) as [->|Hne]; [split; [intros _; lia|reflexivity]|].
  assert (P : 0 < inject_Z e) by (rewrite <- (Zlt_Qlt 0); lia).
  split.
  - intro E. assert (inject_Z c == inject_Z e).
    { setoid_replace (inject_Z c) with (inject_Z c / inject_Z e * inject_Z e) by (field; lra). rewrite E. lra. }
    unfold Qeq in H0. simpl in H0. lia.
  - intros ->. field. lra.
Qed.

Lemma filter_length_le {A} (f : A -> bool) l : (length (filter f l) <= length l)%nat.
Proof. induction l as [|x r IH]; simpl; [lia|]. destruct (f x); simpl; lia. Qed.

Lemma filter_length_all {A} (f : A -> bool) l :
  length (filter f l) = length l <-> forall x, In x l -> f x = true.
Proof.
  induction l as [|x r IH]; simpl; [split; [tauto|reflexivity]|].
  pose proof (filter_length_le f r). destruct (f x) eqn:E; simpl.
  - split.
    + intros L y [<-|Hy]; [exact E|]. apply IH; [lia|exact Hy].
    + intro H'. f_equal. apply IH. intros y Hy. apply H'. now right.
  - split; [lia|]. intro H'. specialize (H' x (or_introl eq_refl)). congruence.
Qed.

Section BranchCoverage.
  Variables (t : trace) (r : registry).
  Hypothesis V : Valid t r.
  Hypothesis Wb : NoDup (branchless r).
  Hypothesis Wp : NoDup (predicates r).

  Let A := filter (fun c => memZ c (branchless r)) (exec_code t).

  Lemma A_le : (length A <= length (branchless r))%nat.
  Proof.
    apply NoDup_incl_length; [apply NoDup_filter, (v_nd_code _ _ V)|].
    intros c Hc. apply filter_In in Hc. apply memZ_In, Hc.
  Qed.

  Lemma A_full_iff : length A = length (branchless r) <-> (forall c, In c (branchless r) -> In c (exec_code t)).
  Proof.
    split.
    - intros L c Hc.
      assert (I : incl (branchless r) A).
      { apply NoDup_length_incl; [apply NoDup_filter, (v_nd_code _ _ V)|lia|].
        intros x Hx. apply filter_In in Hx. apply memZ_In, Hx. }
      apply I in Hc. apply filter_In in Hc. tauto.
    - intro H. apply Nat.le_antisymm; [apply A_le|].
      apply NoDup_incl_length; [exact Wb|]. intros c Hc. apply filter_In. split; [apply H, Hc|apply memZ_In, Hc].
  Qed.

  Lemma zeros_le (bd : dict dist) : keys bd = keys (exec_pred t) ->
    (length (filter dist_is_zero (values bd)) <= length (predicates r))%nat.
  Proof.
    intro K. etransitivity; [apply filter_length_le|].
    unfold values. rewrite map_length, <- (map_length fst). fold (keys bd). rewrite K.
    apply NoDup_incl_length; [apply (v_nd_keys _ _ V)|apply (v_keys_sub _ _ V)].
  Qed.

  Lemma zeros_full_iff (bd : dict dist) : keys bd = keys (exec_pred t) ->
    (length (filter dist_is_zero (values bd)) = length (predicates r) <->
     forall p, In p (predicates r) -> has_zero bd p = true).
  Proof.
    intro K.
    assert (Nk : NoDup (keys bd)) by (rewrite K; apply (v_nd_keys _ _ V)).
    assert (Sk : incl (keys bd) (predicates r)) by (rewrite K; apply (v_keys_sub _ _ V)).
    assert (Lk : (length (keys bd) <= length (predicates r))%nat) by (apply NoDup_incl_length; assumption).
    assert (Lv : length (values bd) = length (keys bd)) by (unfold values, keys; now rewrite !map_length).
    pose proof (filter_length_le dist_is_zero (values bd)) as Lf.
    split.
    - intros L p Hp.
      assert (Hall : forall d, In d (values bd) -> dist_is_zero d = true) by (apply filter_length_all; lia).
      assert (I : incl (predicates r) (keys bd)) by (apply NoDup_length_incl; [exact Nk|lia|exact Sk]).
      apply I, dmem_In in Hp. unfold dmem, has_zero in *. destruct (dget bd p) as [d|] eqn:E; [|discriminate].
      apply Hall, (dget_value_In _ _ _ E).
    - intro H.
      assert (I : incl (predicates r) (keys bd)).
      { intros p Hp. apply dmem_In. specialize (H p Hp). unfold has_zero, dmem in *.
        destruct (dget bd p); [reflexivity|discriminate]. }
      assert (length (predicates r) <= length (keys bd))%nat by (apply NoDup_incl_length; assumption).
      assert (Hall : length (filter dist_is_zero (values bd)) = length (values bd)).
      { apply filter_length_all. intros d Hd. apply in_map_iff in Hd. destruct Hd as [[k v] [<- Hkv]].
        simpl. assert (Hk : In k (keys bd)) by (apply (in_map fst) in Hkv; exact Hkv).
        specialize (H k (Sk k Hk)). unfold has_zero in H.
        rewrite (dget_NoDup_In bd k v Nk Hkv) in H. exact H. }
      lia.
  Qed.

  Theorem branch_counts_bounds : (0 <= branch_covered_count t r <= branch_existing_count r)%Z.
  Proof.
    unfold branch_covered_count, branch_existing_count, count_if. fold A.
    pose proof A_le. pose proof (zeros_le (true_d t) (v_keys_true _ _ V)).
    pose proof (zeros_le (false_d t) (v_keys_false _ _ V)). lia.
  Qed.

  Theorem branch_coverage_range : 0 <= branch_coverage t r /\ branch_coverage t r <= 1.
  Proof. apply ratio_range, branch_counts_bounds. Qed.

  Theorem branch_covered_iff_coverage_one :
    branch_is_covered t r = true <-> branch_coverage t r == 1.
  Proof.
    unfold branch_coverage. rewrite (ratio_one_iff _ _ branch_counts_bounds).
    unfold branch_covered_count, branch_existing_count, count_if. fold A.
    pose proof A_le as LA. pose proof (zeros_le (true_d t) (v_keys_true _ _ V)) as LT.
    pose proof (zeros_le (false_d t) (v_keys_false _ _ V)) as LF.
    pose proof A_full_iff as FA.
    pose proof (zeros_full_iff (true_d t) (v_keys_true _ _ V)) as FT.
    pose proof (zeros_full_iff (false_d t) (v_keys_false _ _ V)) as FF.
    unfold branch_is_covered, branch_is_covered_ex. split.
    - destruct (existsb _ (branchless r)) eqn:X; [discriminate|]. intro F.
      rewrite forallb_forall in F.
      assert (length A = length (branchless r)).
      { apply FA. intros c Hc. destruct (memZ c (exec_code t)) eqn:M; [now apply memZ_In|].
        exfalso. assert (existsb (fun c0 => negb (memZ c0 (exec_code t)) && negb (memZ c0 [])) (branchless r) = true).
        { apply existsb_exists. exists c. split; [exact Hc|]. rewrite M. reflexivity. }
        congruence. }
      assert (length (filter dist_is_zero (values (true_d t))) = length (predicates r)).
      { apply FT. intros p Hp. specialize (F p Hp). simpl in F. now apply andb_true_iff in F. }
      assert (length (filter dist_is_zero (values (false_d t))) = length (predicates r)).
      { apply FF. intros p Hp. specialize (F p Hp). simpl in F. now apply andb_true_iff in F. }
      lia.
    - intro E.
      assert (EA : length A = length (branchless r)) by lia.
      assert (ET : length (filter dist_is_zero (values (true_d t))) = length (predicates r)) by lia.
      assert (EF : length (filter dist_is_zero (values (false_d t))) = length (predicates r)) by lia.
      assert (X : existsb (fun c => negb (memZ c (exec_code t)) && negb (memZ c [])) (branchless r) = false).
      { apply not_true_is_false. intro X. apply existsb_exists in X. destruct X as [c [Hc Hf]].
        apply (proj1 FA EA), memZ_In in Hc. rewrite Hc in Hf. discriminate. }
      rewrite X. apply forallb_forall. intros p Hp. simpl.
      rewrite (proj1 FT ET p Hp), (proj1 FF EF p Hp). reflexivity.
  Qed.
End BranchCoverage.

(* suite branch fitness is zero exactly when branch coverage is 1 *)
Theorem branch_fitness_zero_iff_coverage_one t r :
  Valid t r -> NoDup (branchless r) -> NoDup (predicates r) ->
  (branch_fitness t r == 0 <-> branch_coverage t r == 1).
Proof.
  intros V Wb Wp. unfold branch_fitness.
  rewrite (branch_fitness_zero_iff_covered t r [] [] [] (v_nn_true _ _ V) (v_nn_false _ _ V)).
  apply (branch_covered_iff_coverage_one t r V Wb Wp).
Qed.

(* ---------- line / checked coverage ---------- *)
Section Lines.
  Variables (cov : list Z) (ls : list Z).
  Hypothesis Nc : NoDup cov.
  Hypothesis Sc : incl cov ls.

  Lemma lines_le : (length cov <= length ls)%nat.
  Proof. now apply NoDup_incl_length. Qed.

  Lemma lines_ratio_range :
    0 <= ratio (Z.of_nat (length cov)) (Z.of_nat (length ls)) /\
    ratio (Z.of_nat (length cov)) (Z.of_nat (length ls)) <= 1.
  Proof. apply ratio_range. pose proof lines_le. lia. Qed.

  Lemma lines_fitness_nonneg : (0 <= Z.of_nat (length ls) - Z.of_nat (length cov))%Z.
  Proof. pose proof lines_le. lia. Qed.

  Lemma lines_three_way :
    ((Z.of_nat (length ls) - Z.of_nat (length cov))%Z = 0%Z <-> Nat.eqb (length cov) (length ls) = true) /\
    (Nat.eqb (length cov) (length ls) = true <->
     ratio (Z.of_nat (length cov)) (Z.of_nat (length ls)) == 1).
  Proof.
    pose proof lines_le as L. split.
    - rewrite Nat.eqb_eq. lia.
    - rewrite Nat.eqb_eq, ratio_one_iff by lia. lia.
  Qed.

  (* all lines covered, as sets *)
  Lemma lines_full_iff : length cov = length ls -> forall l, In l ls -> In l cov.
  Proof. intros L. apply NoDup_length_incl; [exact Nc|lia|exact Sc]. Qed.
End Lines.

Theorem line_metrics_agree t r : Valid t r ->
  (0 <= line_fitness t r)%Z /\
  (0 <= line_coverage t r /\ line_coverage t r <= 1) /\
  (line_fitness t r = 0%Z <-> line_is_covered t r = true) /\
  (line_is_covered t r = true <-> line_coverage t r == 1).
Proof.
  intro V. pose proof (v_nd_cov _ _ V) as N. pose proof (v_cov_sub _ _ V) as S.
  unfold line_fitness, line_coverage, line_is_covered.
  split; [now apply lines_fitness_nonneg|]. split; [now apply lines_ratio_range|].
  now apply lines_three_way.
Qed.

Theorem checked_metrics_agree t r : Valid t r ->
  (0 <= checked_fitness t r)%Z /\
  (0 <= checked_coverage t r /\ checked_coverage t r <= 1) /\
  (checked_fitness t r = 0%Z <-> checked_is_covered t r = true) /\
  (checked_is_covered t r = true <-> checked_coverage t r == 1).
Proof.
  intro V. pose proof (v_nd_chk _ _ V) as N. pose proof (v_chk_sub _ _ V) as S.
  unfold checked_fitness, checked_coverage, checked_is_covered.
  split; [now apply lines_fitness_nonneg|]. split; [now apply lines_ratio_range|].
  now apply lines_three_way.
Qed.

(* ---------- goal level ---------- *)
Theorem line_goal_agree t l :
  (line_goal_fitness t l == 0 <-> line_goal_covered t l = true) /\ 0 <= line_goal_fitness t l.
Proof. unfold line_goal_fitness. destruct (line_goal_covered t l); (split; [split|]); first [reflexivity | lra | discriminate | (intros _; lra) | (intro H; lra)]. Qed.

Theorem checked_goal_agree t l :
  (checked_goal_fitness t l == 0 <-> checked_goal_covered t l = true) /\ 0 <= checked_goal_fitness t l.
Proof. unfold checked_goal_fitness. destruct (checked_goal_covered t l); (split; [split|]); first [reflexivity | lra | discriminate | (intros _; lra) | (intro H; lra)]. Qed.

Theorem branchless_goal_agree t c :
  (branchless_goal_fitness t c == 0 <-> branchless_goal_covered t c = true) /\ 0 <= branchless_goal_fitness t c.
Proof.
  unfold branchless_goal_fitness, branchless_goal_covered.
  destruct (memZ c (exec_code t)); (split; [split|]); first [reflexivity | lra | discriminate | (intros _; lra) | (intro H; lra)].
Qed.

Lemma dist_add_nonneg a b : dist_nonneg a = true -> dist_nonneg b = true -> dist_nonneg (dist_add a b) = true.
Proof.
  destruct a as [x|], b as [y|]; simpl; try reflexivity.
  rewrite !Qle_bool_true. lra.
Qed.

Lemma dget_inf_nonneg bd p : dists_nonneg bd -> dist_nonneg (dget_inf bd p) = true.
Proof.
  intro N. unfold dget_inf. destruct (dget bd p) eqn:E; [|reflexivity]. apply N, (dget_value_In _ _ _ E).
Qed.

Section BranchGoal.
  Variables (t : trace) (r : registry).
  Variables (p code_of_p diameter : Z) (path_len : Z -> option Z).
  Hypothesis V : Valid t r.
  (* decidable structural premises, validated per CFG by the extractor *)
  Hypothesis Diam : (1 <= diameter)%Z.
  Hypothesis Path : forall e n, path_len e = Some n -> e <> p -> (1 <= n)%Z.
  (* an executed predicate's code object was executed *)
  Hypothesis Code : dmem (exec_pred t) p = true -> memZ code_of_p (exec_code t) = true.

  Lemma fold_candidates_level es acc :
    (forall e, In e es -> e <> p) -> (1 <= fst acc)%Z -> dist_nonneg (snd acc) = true ->
    let res := fold_left (fun acc e =>
                 match path_len e with
                 | Some n => cfd_min acc (n, dist_add (dget_inf (true_d t) e) (dget_inf (false_d t) e))
                 | None => acc
                 end) es acc in
    (1 <= fst res)%Z /\ dist_nonneg (snd res) = true.
  Proof.
    revert acc. induction es as [|e es IH]; intros acc Hne L N; simpl; [tauto|].
    apply IH.
    - intros e' He'. apply Hne. now right.
    - destruct (path_len e) as [n|] eqn:P; [|exact L]. unfold cfd_min.
      destruct (cfd_lt _ acc); [simpl; apply (Path e n P), Hne; now left|exact L].
    - destruct (path_len e) as [n|] eqn:P; [|exact N]. unfold cfd_min.
      destruct (cfd_lt _ acc); [simpl|exact N].
      apply dist_add_nonneg; apply dget_inf_nonneg; [apply (v_nn_true _ _ V)|apply (v_nn_false _ _ V)].
  Qed.

  Theorem branch_goal_fitness_nonneg value :
    0 <= branch_goal_fitness t p value code_of_p diameter path_len.
  Proof.
    unfold branch_goal_fitness, branch_goal_distance, cfd_fitness.
    destruct (negb (memZ code_of_p (exec_code t))).
    - simpl. assert (0 <= inject_Z diameter) by (rewrite <- (Zle_Qle 0); lia).
      setoid_replace (0 / (1 + 0)) with 0 by reflexivity. lra.
    - destruct (dmem (exec_pred t) p) eqn:M.
      + simpl fst. simpl snd. change (inject_Z 0) with 0.
        assert (N : dist_nonneg (dget_inf (if value then true_d t else false_d t) p) = true).
        { apply dget_inf_nonneg. destruct value; [apply (v_nn_true _ _ V)|apply (v_nn_false _ _ V)]. }
        destruct (normalise_range _ N). lra.
      + destruct (fold_candidates_level (keys (exec_pred t)) (diameter, Fin 0)) as [L N].
        * intros e He ->. apply dmem_In in He. congruence.
        * exact Diam.
        * reflexivity.
        * cbv zeta in L, N. destruct (normalise_range _ N).
          assert (1 <= inject_Z (fst (fold_left (fun acc e => match path_len e with
             | Some n => cfd_min acc (n, dist_add (dget_inf (true_d t) e) (dget_inf (false_d t) e))
             | None => acc end) (keys (exec_pred t)) (diameter, Fin 0)))) by (rewrite <- (Zle_Qle 1); exact L).
          lra.
  Qed.

  Theorem branch_goal_zero_iff_covered value :
    branch_goal_fitness t p value code_of_p diameter path_len == 0 <->
    branch_goal_covered t p value = true.
  Proof.
    unfold branch_goal_fitness, branch_goal_distance, cfd_fitness, branch_goal_covered.
    destruct (memZ code_of_p (exec_code t)) eqn:C; simpl negb; cbv iota.
    - destruct (dmem (exec_pred t) p) eqn:M.
      + simpl fst. simpl snd. change (inject_Z 0) with 0. simpl andb.
        set (bd := if value then true_d t else false_d t).
        assert (Nb : dists_nonneg bd) by (destruct value; [apply (v_nn_true _ _ V)|apply (v_nn_false _ _ V)]).
        assert (Kb : keys bd = keys (exec_pred t)) by (destruct value; [apply (v_keys_true _ _ V)|apply (v_keys_false _ _ V)]).
        assert (Hin : dmem bd p = true) by (apply dmem_In; rewrite Kb; apply dmem_In, M).
        unfold dmem in Hin. unfold dget_inf, has_zero. destruct (dget bd p) as [d|] eqn:E; [|discriminate].
        assert (Nd : dist_nonneg d = true) by (apply Nb, (dget_value_In _ _ _ E)).
        rewrite <- (normalise_zero_iff d Nd). split; intro H; lra.
      + simpl andb. split; [|discriminate]. intro F. exfalso.
        destruct (fold_candidates_level (keys (exec_pred t)) (diameter, Fin 0)) as [L N].
        * intros e He ->. apply dmem_In in He. congruence.
        * exact Diam.
        * reflexivity.
        * cbv zeta in L, N. destruct (normalise_range _ N).
          assert (1 <= inject_Z (fst (fold_left (fun acc e => match path_len e with
             | Some n => cfd_min acc (n, dist_add (dget_inf (true_d t) e) (dget_inf (false_d t) e))
             | None => acc end) (keys (exec_pred t)) (diameter, Fin 0)))) by (rewrite <- (Zle_Qle 1); exact L).
          lra.
    - assert (M : dmem (exec_pred t) p = false).
      { destruct (dmem (exec_pred t) p) eqn:M; [|reflexivity]. discriminate (Code eq_refl). }
      rewrite M. simpl andb. split; [|discriminate]. intro F. exfalso. simpl in F.
      assert (1 <= inject_Z diameter) by (rewrite <- (Zle_Qle 1); exact Diam).
      setoid_replace (0 / (1 + 0)) with 0 in F by reflexivity. lra.
  Qed.
End BranchGoal.

(* the covered verdict the computation cache derives from a fitness value (isclose(v, 0.0), i.e.
   v == 0 for non-negative v) agrees with the verdict computed directly *)
Definition verdict_from_fitness (f : Q) : bool := Qeq_bool f 0.

Corollary cache_verdicts_agree_suite t r ec et ef :
  dists_nonneg (true_d t) -> dists_nonneg (false_d t) ->
  verdict_from_fitness (branch_fitness_ex t r ec et ef) = branch_is_covered_ex t r ec et ef.
Proof.
  intros Nt Nf. unfold verdict_from_fitness.
  pose proof (branch_fitness_zero_iff_covered t r ec et ef Nt Nf) as H.
  destruct (branch_is_covered_ex t r ec et ef).
  - apply Qeq_bool_true, H. reflexivity.
  - apply not_true_is_false. intro E. apply Qeq_bool_true, H in E. discriminate.
Qed.

(* non-vacuity: a valid trace with one fully covered and one half covered predicate *)
Example valid_example :
  let r := {| branchless := [7%Z]; predicates := [1%Z; 2%Z]; lines := [10%Z; 11%Z; 12%Z] |} in
  let t := {| exec_code := [7%Z; 3%Z]; exec_pred := [(1%Z, 2%Z); (2%Z, 1%Z)];
              true_d := [(1%Z, Fin 0); (2%Z, Fin (3#2))]; false_d := [(1%Z, Fin 0); (2%Z, Fin 0)];
              cov_lines := [10%Z; 12%Z]; chk_lines := [10%Z] |} in
  valid t r = true /\ registry_wf r = true /\ branch_is_covered t r = false /\
  Qeq_bool (branch_coverage t r) (4#5) = true /\ Qeq_bool (branch_fitness t r) 1 = true.
Proof. vm_compute. repeat split. Qed.
