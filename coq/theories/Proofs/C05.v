(* C05 — proofs about Models/C05.v. *)
From Coq Require Import List ZArith Bool.
From Verif Require Import Models.C05.
Import ListNotations. Import C05.

(* induction principle for the nested event trees *)
Section EvInd.
  Variable P : ev -> Prop.
  Hypothesis HLine : forall id, P (Line id).
  Hypothesis HPred : forall id inner r, Forall P inner -> P (Pred id inner r).
  Hypothesis HTrack : forall id inner r, Forall P inner -> P (Track id inner r).
  Hypothesis HDis : forall inner r, Forall P inner -> P (DisableBlock inner r).
  Hypothesis HEn : forall inner r, Forall P inner -> P (EnableBlock inner r).

  Fixpoint ev_ind' (e : ev) : P e :=
    let all := (fix go (l : list ev) : Forall P l :=
                  match l with
                  | [] => Forall_nil P
                  | x :: r => Forall_cons x (ev_ind' x) (go r)
                  end) in
    match e with
    | Line id => HLine id
    | Pred id inner r => HPred id inner r (all inner)
    | Track id inner r => HTrack id inner r (all inner)
    | DisableBlock inner r => HDis inner r (all inner)
    | EnableBlock inner r => HEn inner r (all inner)
    end.
End EvInd.

(* unfolding equations *)
Lemma run_nil : forall fin st, run fin [] st = st.
Proof. reflexivity. Qed.
Lemma run_cons : forall fin e l st, run fin (e :: l) st = run fin l (run_ev fin e st).
Proof. reflexivity. Qed.
Lemma run_app : forall fin a b st, run fin (a ++ b) st = run fin b (run fin a st).
Proof.
  intros fin a; induction a as [|e a IH]; intros b st; [reflexivity|].
  rewrite <- app_comm_cons, !run_cons. apply IH.
Qed.

Lemma run_ev_Line : forall fin id st,
  run_ev fin (Line id) st = if enabled st then rec_line id st else st.
Proof. reflexivity. Qed.
Lemma run_ev_Pred : forall fin id inner r st,
  run_ev fin (Pred id inner r) st =
  if enabled st then
    let st2 := run fin inner (set_enabled false st) in
    let st3 := if r then st2 else rec_pred id st2 in
    if r && negb fin then st3 else set_enabled true st3
  else st.
Proof. reflexivity. Qed.
Lemma run_ev_Track : forall fin id inner r st,
  run_ev fin (Track id inner r) st =
  if enabled st then
    let st2 := run fin inner st in
    if r then st2 else rec_instr id st2
  else st.
Proof. reflexivity. Qed.
Lemma run_ev_Dis : forall fin inner r st,
  run_ev fin (DisableBlock inner r) st =
  if enabled st then
    let st2 := run fin inner (set_enabled false st) in
    if r && negb fin then st2 else set_enabled true st2
  else run fin inner st.
Proof. reflexivity. Qed.
Lemma run_ev_En : forall fin inner r st,
  run_ev fin (EnableBlock inner r) st =
  if enabled st then run fin inner st
  else
    let st2 := run fin inner (set_enabled true st) in
    if r && negb fin then st2 else set_enabled false st2.
Proof. reflexivity. Qed.

(* ---- 1. the switch is restored by every event, whatever raises inside ------------------------- *)
Lemma run_enabled_of_Forall : forall l,
  Forall (fun e => forall st, enabled (run_ev true e st) = enabled st) l ->
  forall st, enabled (run true l st) = enabled st.
Proof.
  intros l H; induction H as [|e l He _ IH]; intros st; [reflexivity|].
  rewrite run_cons, IH. apply He.
Qed.

Lemma run_ev_enabled : forall e st, enabled (run_ev true e st) = enabled st.
Proof.
  induction e as [id|id inner r IH|id inner r IH|inner r IH|inner r IH] using ev_ind'; intros st.
  - rewrite run_ev_Line. destruct (enabled st) eqn:E; [exact E|exact E].
  - rewrite run_ev_Pred. destruct (enabled st) eqn:E; [|exact E].
    cbn zeta. rewrite andb_false_r. reflexivity.
  - rewrite run_ev_Track. destruct (enabled st) eqn:E; [|exact E].
    cbn zeta. destruct r; cbn [rec_instr enabled]; rewrite (run_enabled_of_Forall inner IH); exact E.
  - rewrite run_ev_Dis. destruct (enabled st) eqn:E.
    + cbn zeta. rewrite andb_false_r. reflexivity.
    + rewrite (run_enabled_of_Forall inner IH). exact E.
  - rewrite run_ev_En. destruct (enabled st) eqn:E.
    + rewrite (run_enabled_of_Forall inner IH). exact E.
    + cbn zeta. rewrite andb_false_r. reflexivity.
Qed.

Lemma run_enabled : forall evs st, enabled (run true evs st) = enabled st.
Proof.
  intros evs st. apply run_enabled_of_Forall. apply Forall_forall. intros e _. apply run_ev_enabled.
Qed.

Lemma statement_enabled : forall before body after st,
  enabled (run true (statement before body after) st) = enabled st.
Proof. intros. apply run_enabled. Qed.

(* ---- 2. nothing recorded is ever lost (for either variant of the brackets) --------------------- *)
Definition le_state (a b : state) : Prop :=
  incl (lines a) (lines b) /\ incl (preds a) (preds b) /\ incl (instrs a) (instrs b).

Lemma le_refl : forall a, le_state a a.
Proof. intro a; repeat split; apply incl_refl. Qed.
Lemma le_trans : forall a b c, le_state a b -> le_state b c -> le_state a c.
Proof. intros a b c [H1 [H2 H5]] [H3 [H4 H6]]; repeat split; eapply incl_tran; eassumption. Qed.
Lemma le_set_enabled_r : forall a b x, le_state a b -> le_state a (set_enabled x b).
Proof. intros a b x H; exact H. Qed.
Lemma le_set_enabled_l : forall a b x, le_state a b -> le_state (set_enabled x a) b.
Proof. intros a b x H; exact H. Qed.
Lemma le_rec_line : forall a id, le_state a (rec_line id a).
Proof. intros a id; split; [apply incl_tl|split]; apply incl_refl. Qed.
Lemma le_rec_pred : forall a id, le_state a (rec_pred id a).
Proof. intros a id; split; [|split; [apply incl_tl|]]; apply incl_refl. Qed.
Lemma le_rec_instr : forall a id, le_state a (rec_instr id a).
Proof. intros a id; split; [|split; [|apply incl_tl]]; apply incl_refl. Qed.

Lemma run_mono_of_Forall : forall fin l,
  Forall (fun e => forall st, le_state st (run_ev fin e st)) l ->
  forall st, le_state st (run fin l st).
Proof.
  intros fin l H; induction H as [|e l He _ IH]; intros st; [apply le_refl|].
  rewrite run_cons. eapply le_trans; [apply He|apply IH].
Qed.

Lemma run_ev_mono : forall fin e st, le_state st (run_ev fin e st).
Proof.
  intros fin e; induction e as [id|id inner r IH|id inner r IH|inner r IH|inner r IH] using ev_ind'; intros st.
  - rewrite run_ev_Line. destruct (enabled st); [apply le_rec_line|apply le_refl].
  - rewrite run_ev_Pred. destruct (enabled st); [|apply le_refl]. cbn zeta.
    assert (H : le_state st (run fin inner (set_enabled false st))).
    { exact (run_mono_of_Forall fin inner IH (set_enabled false st)). }
    assert (H3 : le_state st (if r then run fin inner (set_enabled false st)
                              else rec_pred id (run fin inner (set_enabled false st)))).
    { destruct r; [exact H|]. eapply le_trans; [exact H|apply le_rec_pred]. }
    destruct (r && negb fin); [exact H3|apply le_set_enabled_r; exact H3].
  - rewrite run_ev_Track. destruct (enabled st); [|apply le_refl]. cbn zeta.
    assert (H : le_state st (run fin inner st)) by exact (run_mono_of_Forall fin inner IH st).
    destruct r; [exact H|]. eapply le_trans; [exact H|apply le_rec_instr].
  - rewrite run_ev_Dis. destruct (enabled st).
    + cbn zeta.
      assert (H : le_state st (run fin inner (set_enabled false st))).
      { exact (run_mono_of_Forall fin inner IH (set_enabled false st)). }
      destruct (r && negb fin); [exact H|apply le_set_enabled_r; exact H].
    + apply (run_mono_of_Forall fin inner IH).
  - rewrite run_ev_En. destruct (enabled st).
    + apply (run_mono_of_Forall fin inner IH).
    + cbn zeta.
      assert (H : le_state st (run fin inner (set_enabled true st))).
      { exact (run_mono_of_Forall fin inner IH (set_enabled true st)). }
      destruct (r && negb fin); [exact H|apply le_set_enabled_r; exact H].
Qed.

Lemma run_mono : forall fin evs st, le_state st (run fin evs st).
Proof.
  intros fin evs st. apply run_mono_of_Forall. apply Forall_forall. intros e _. apply run_ev_mono.
Qed.

(* ---- 3. whatever happened before (any exceptions in any callbacks), later code is recorded ----- *)
Lemma line_recorded_after : forall pre id post st,
  enabled st = true -> In id (lines (run true (pre ++ Line id :: post) st)).
Proof.
  intros pre id post st E. rewrite run_app, run_cons, run_ev_Line.
  rewrite (run_enabled pre st), E.
  apply (proj1 (run_mono true post (rec_line id (run true pre st)))). left; reflexivity.
Qed.

Lemma pred_recorded_after : forall pre id inner post st,
  enabled st = true -> In id (preds (run true (pre ++ Pred id inner false :: post) st)).
Proof.
  intros pre id inner post st E. rewrite run_app, run_cons, run_ev_Pred.
  rewrite (run_enabled pre st), E. cbn zeta. rewrite andb_false_l.
  apply (proj1 (proj2 (run_mono true post _))). left; reflexivity.
Qed.

Lemma instr_recorded_after : forall pre id inner post st,
  enabled st = true -> In id (instrs (run true (pre ++ Track id inner false :: post) st)).
Proof.
  intros pre id inner post st E. rewrite run_app, run_cons, run_ev_Track.
  rewrite (run_enabled pre st), E. cbn zeta.
  apply (proj2 (proj2 (run_mono true post _))). left; reflexivity.
Qed.

(* disabled means not recorded (the design of the switch; must not change either) *)
Lemma disabled_records_nothing : forall fin id st,
  enabled st = false ->
  run_ev fin (Line id) st = st /\ (forall inner r, run_ev fin (Pred id inner r) st = st) /\
  (forall inner r, run_ev fin (Track id inner r) st = st).
Proof.
  intros fin id st E. split; [|split; intros inner r];
    [rewrite run_ev_Line|rewrite run_ev_Pred|rewrite run_ev_Track]; rewrite E; reflexivity.
Qed.

(* ---- 3b. threads: what other threads do (e.g. one abandoned inside a bracket after a timeout, or
   leaving it later) never changes the switch or the records of the thread running a test case --- *)
Lemma run_in_other : forall fin t t' evs T, t' <> t -> run_in fin t evs T t' = T t'.
Proof.
  intros fin t t' evs T H. unfold run_in. destruct (Z.eqb t' t) eqn:E; [|reflexivity].
  apply Z.eqb_eq in E. contradiction.
Qed.

Lemma run_in_self : forall fin t evs T, run_in fin t evs T t = run fin evs (T t).
Proof. intros. unfold run_in. rewrite Z.eqb_refl. reflexivity. Qed.

(* the state of thread t after a schedule is the result of running t's own events, in order *)
Fixpoint own (t : Z) (sched : list (Z * list ev)) : list ev :=
  match sched with
  | [] => []
  | (t', evs) :: r => if Z.eqb t t' then evs ++ own t r else own t r
  end.

Lemma run_schedule_thread : forall fin sched T t,
  run_schedule fin sched T t = run fin (own t sched) (T t).
Proof.
  intros fin sched; induction sched as [|[t' evs] r IH]; intros T t; [reflexivity|].
  unfold run_schedule in *. cbn [fold_left fst snd own]. rewrite IH.
  destruct (Z.eqb t t') eqn:E.
  - apply Z.eqb_eq in E. subst t'. rewrite run_in_self, run_app. reflexivity.
  - rewrite run_in_other; [reflexivity|]. intro H. subst t'. rewrite Z.eqb_refl in E. discriminate.
Qed.

Lemma schedule_enabled : forall sched T t,
  enabled (run_schedule true sched T t) = enabled (T t).
Proof. intros. rewrite run_schedule_thread. apply run_enabled. Qed.

(* a test case executed in a fresh thread records its lines whatever the other threads do *)
Lemma fresh_thread_records : forall sched T t pre id post,
  T t = st_fresh -> own t sched = pre ++ Line id :: post ->
  In id (lines (run_schedule true sched T t)).
Proof.
  intros sched T t pre id post HT Ho. rewrite run_schedule_thread, Ho, HT.
  apply line_recorded_after. reflexivity.
Qed.

(* ---- 4. without `finally` the property fails: the unrepaired code ------------------------------- *)
Definition st0 : state := {| enabled := true; lines := []; preds := []; instrs := [] |}.

Lemma without_finally_refuted :
  exists evs id, enabled (run false evs st0) = false /\ ~ In id (lines (run false (evs ++ [Line id]) st0)).
Proof.
  exists [Pred 0%Z [] true], 7%Z. split; [reflexivity|]. cbn. intros [].
Qed.

(* non-vacuity: a statement whose body raises inside a callback, catches it, and goes on; nested
   brackets as produced by the assertion observer *)
Example ex_statement :
  let body := [Line 1; Pred 0 [Line 5; Pred 3 [] false] true; Track 4 [Line 6] true; Line 2; Pred 1 [] false] in
  let after := [EnableBlock [Pred 2 [Line 9] true; Line 3] false] in
  let st := run true (statement [Line 8] body after) st0 in
  enabled st = true /\ lines st = [3; 2; 6; 1]%Z /\ preds st = [1]%Z.
Proof. cbv. repeat split. Qed.

Example ex_statement_without_finally :
  let body := [Line 1; Pred 0 [] true; Line 2; Pred 1 [] false] in
  let st := run false (statement [] body []) st0 in
  lines st = [1]%Z /\ preds st = []%Z.
Proof. cbv. repeat split. Qed.
