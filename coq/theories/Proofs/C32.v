(* C32 — proofs about the interleaving model of the tracer (Models/C32.v). *)
From Coq Require Import List ZArith Bool Arith Lia.
From Verif Require Import Models.C32.
Import ListNotations. Import C32.
Open Scope Z_scope.

Lemma upd_same {A} (f : tid -> A) t v : upd f t v t = v.
Proof. unfold upd. rewrite Nat.eqb_refl. reflexivity. Qed.

Lemma upd_other {A} (f : tid -> A) t u v : u <> t -> upd f t v u = f u.
Proof. intro H. unfold upd. destruct (Nat.eqb u t) eqn:E; [apply Nat.eqb_eq in E; contradiction|reflexivity]. Qed.

Ltac destr_step :=
  repeat match goal with
  | |- context [match st ?x with _ => _ end] => destruct (st x) eqn:?
  | |- context [if is_live ?x then _ else _] => destruct (is_live x) eqn:?
  | |- context [if enabled ?x then _ else _] => destruct (enabled x) eqn:?
  | |- context [if is_current ?s ?t then _ else _] => destruct (is_current s t) eqn:?
  | |- context [if guard ?s then _ else _] => destruct (guard s) eqn:?
  | |- context [match results ?s ?t with _ => _ end] => destruct (results s t) eqn:?
  end;
  cbn [imp guard current loc results set_loc set_current set_result].

(* ---- constants of a run ------------------------------------------------------------------------ *)
Lemma step_imp s a : imp (step s a) = imp s.
Proof. destruct a; cbn [step]; destr_step; reflexivity. Qed.

Lemma step_guard s a : guard (step s a) = guard s.
Proof. destruct a; cbn [step]; destr_step; try reflexivity; congruence. Qed.

Lemma run_imp sched : forall s, imp (run s sched) = imp s.
Proof. induction sched as [|a r IH]; intro s; [reflexivity|]. cbn [run fold_left]. fold (run (step s a) r). rewrite IH. apply step_imp. Qed.

(* ---- frame: an action touches only the thread-local state of its actor --------------------------- *)
Lemma step_frame s a u : actor a <> Some u -> loc (step s a) u = loc s u.
Proof.
  intro H. destruct a as [t|t|t e|t|t|t|t| |t|t|t e]; cbn [step actor] in *;
    try (assert (Hu : u <> t) by congruence);
    destr_step; try reflexivity;
    try (apply upd_other; exact Hu).
Qed.

(* only the main thread's Harvest writes results, and only once per test *)
Lemma step_results_other s a u : a <> Harvest u -> results (step s a) u = results s u.
Proof.
  intro H. destruct a as [t|t|t e|t|t|t|t| |t|t|t e]; cbn [step]; destr_step; try reflexivity;
    apply upd_other; congruence.
Qed.

Lemma action_eq_harvest a u : a = Harvest u \/ a <> Harvest u.
Proof.
  destruct a as [t|t|t e|t|t|t|t| |t|t|t e]; try (right; discriminate).
  destruct (Nat.eq_dec t u) as [E|E]; [left; subst; reflexivity|right; congruence].
Qed.

Lemma step_result_stable s a u r : results s u = Some r -> results (step s a) u = Some r.
Proof.
  intro H. destruct (action_eq_harvest a u) as [E|E].
  - subst a. cbn [step]. rewrite H. exact H.
  - rewrite (step_results_other s a u E). exact H.
Qed.

Lemma run_cons s a r : run s (a :: r) = run (step s a) r.
Proof. reflexivity. Qed.

Lemma run_result_stable sched : forall s u r, results s u = Some r -> results (run s sched) u = Some r.
Proof.
  induction sched as [|a r IH]; intros s u x H; [exact H|].
  rewrite run_cons. apply IH. apply step_result_stable. exact H.
Qed.

Lemma run_frame sched : forall s u, (forall a, In a sched -> actor a <> Some u) -> loc (run s sched) u = loc s u.
Proof.
  induction sched as [|a r IH]; intros s u H; [reflexivity|].
  rewrite run_cons. rewrite IH.
  - apply step_frame. apply H. left. reflexivity.
  - intros b Hb. apply H. right. exact Hb.
Qed.

(* ---- no pollution: whatever ends up in thread u's trace was probed by thread u ------------------ *)
Ltac split_upd u t :=
  unfold upd in *; destruct (Nat.eqb u t) eqn:?E;
  [apply Nat.eqb_eq in E; subst|].

(* [recorded_by u e a]: action a is thread u recording event e (a line/branch probe, or the end of a
   predicate callback) *)
Definition recorded_by (u : tid) (e : Z) (a : action) : Prop := a = Probe u e \/ a = HookEnd u e.

Lemma step_trace_in s a u e :
  In e (trace (loc (step s a) u)) -> In e (trace (loc s u)) \/ In e (imp s) \/ recorded_by u e a.
Proof.
  unfold recorded_by.
  destruct a as [t|t|t e'|t|t|t|t| |t|t|t e']; cbn [step]; destr_step; intro H; auto;
    split_upd u t; cbn [trace] in H; auto;
    (apply in_app_or in H; destruct H as [H|[H|[]]]; [auto|]; subst; auto).
Qed.

Lemma run_trace_in sched : forall s u e, In e (trace (loc (run s sched) u)) ->
  In e (trace (loc s u)) \/ In e (imp s) \/ exists a, In a sched /\ recorded_by u e a.
Proof.
  induction sched as [|a r IH]; intros s u e H; [auto|].
  rewrite run_cons in H. destruct (IH _ _ _ H) as [H1|[H1|(b & Hb & Rb)]].
  - destruct (step_trace_in _ _ _ _ H1) as [H2|[H2|H2]]; auto.
    right. right. exists a. split; [left; reflexivity|exact H2].
  - rewrite step_imp in H1. auto.
  - right. right. exists b. split; [right; exact Hb|exact Rb].
Qed.

Lemma step_result_origin s a u l :
  results (step s a) u = Some (ROk l) -> results s u = Some (ROk l) \/ l = trace (loc s u).
Proof.
  destruct (action_eq_harvest a u) as [E|E].
  - subst a. cbn [step]. destruct (results s u) eqn:R; [intro H; left; congruence|].
    destruct (st (loc s u)); cbn [results set_result]; rewrite upd_same; intro H; inversion H; auto.
  - rewrite (step_results_other s a u E). auto.
Qed.

Lemma run_result_in sched : forall s u l, results (run s sched) u = Some (ROk l) ->
  forall e, In e l ->
  (exists l0, results s u = Some (ROk l0) /\ In e l0) \/ In e (trace (loc s u)) \/ In e (imp s)
  \/ exists a, In a sched /\ recorded_by u e a.
Proof.
  induction sched as [|a r IH]; intros s u l H e He.
  - left. exists l. auto.
  - rewrite run_cons in H. destruct (IH _ _ _ H e He) as [(l0 & R & I0)|[H1|[H1|(b & Hb & Rb)]]].
    + destruct (step_result_origin _ _ _ _ R) as [R'|R'].
      * left. exists l0. auto.
      * subst l0. auto.
    + destruct (step_trace_in _ _ _ _ H1) as [H2|[H2|H2]]; auto.
      right. right. right. exists a. split; [left; reflexivity|exact H2].
    + rewrite step_imp in H1. auto.
    + right. right. right. exists b. split; [right; exact Hb|exact Rb].
Qed.

Lemma no_pollution_trace g im sched u e :
  In e (trace (loc (run (init_state g im) sched) u)) ->
  In e im \/ exists a, In a sched /\ recorded_by u e a.
Proof.
  intro H. destruct (run_trace_in _ _ _ _ H) as [H1|[H1|H1]]; auto. cbn in H1. contradiction.
Qed.

Lemma no_pollution_result g im sched u l :
  results (run (init_state g im) sched) u = Some (ROk l) ->
  forall e, In e l -> In e im \/ exists a, In a sched /\ recorded_by u e a.
Proof.
  intros H e He. destruct (run_result_in _ _ _ _ H e He) as [(l0 & R & _)|[H1|[H1|H1]]]; auto.
  - cbn in R. discriminate.
  - cbn in H1. contradiction.
Qed.

(* events recorded by other threads never show up: the contrapositive, in the property's words *)
Lemma foreign_events_never_added g im sched u l e :
  results (run (init_state g im) sched) u = Some (ROk l) ->
  ~ In e im -> ~ In (Probe u e) sched -> ~ In (HookEnd u e) sched -> ~ In e l.
Proof.
  intros H A B B' C. destruct (no_pollution_result _ _ _ _ _ H e C) as [D|(a & Ia & [Ra|Ra])];
    [contradiction|subst a; contradiction|subst a; contradiction].
Qed.

(* ---- the abandoned thread dies and records nothing ------------------------------------------------ *)
Lemma probe_aborts s t e :
  is_live (loc s t) = true -> enabled (loc s t) = true -> is_current s t = false ->
  st (loc (step s (Probe t e)) t) = Aborting
  /\ trace (loc (step s (Probe t e)) t) = trace (loc s t)
  /\ raises s (Probe t e) = true.
Proof.
  intros L E C. cbn [step raises]. rewrite L, E, C. cbn [loc set_loc]. rewrite upd_same. auto.
Qed.

Lemma check_aborts s t :
  is_live (loc s t) = true -> is_current s t = false ->
  st (loc (step s (Check t)) t) = Aborting /\ trace (loc (step s (Check t)) t) = trace (loc s t).
Proof.
  intros L C. cbn [step]. rewrite L, C. cbn [loc set_loc]. rewrite upd_same. auto.
Qed.

Lemma stop_revokes s t : is_current (step s Stop) t = false.
Proof. reflexivity. Qed.

Lemma enter_revokes s t t' : t' <> t -> is_live (loc s t') = true -> is_current (step s (Enter t')) t = false.
Proof.
  intros N L. cbn [step]. rewrite L. unfold is_current; cbn [current set_current].
  destruct (Nat.eqb t' t) eqn:E; [apply Nat.eqb_eq in E; contradiction|reflexivity].
Qed.

(* zombie invariant: thread t has started and, as long as it can still act (Live, or inside a hook), it is
   not the current thread *)
Definition active (l : tlocal) : bool := match st l with Live | InHook => true | _ => false end.

Definition zombie (s : state) (t : tid) : Prop :=
  st (loc s t) <> Fresh /\ (active (loc s t) = true -> is_current s t = false).

Lemma step_current_cases s a :
  current (step s a) = current s \/ current (step s a) = None
  \/ exists u, a = Enter u /\ current (step s a) = Some u.
Proof.
  destruct a as [u|u|u e|u|u|u|u| |u|u|u e]; cbn [step]; destr_step; auto.
  right. right. exists u. auto.
Qed.

Lemma step_not_current s a t : a <> Enter t -> is_current s t = false -> is_current (step s a) t = false.
Proof.
  intros NE C. unfold is_current in *.
  destruct (step_current_cases s a) as [H|[H|(u & -> & H)]]; rewrite H; auto.
  destruct (Nat.eqb u t) eqn:E; [apply Nat.eqb_eq in E; congruence|reflexivity].
Qed.

Lemma option_eq_actor a t : actor a = Some t \/ actor a <> Some t.
Proof.
  destruct (actor a) as [u|]; [|right; discriminate].
  destruct (Nat.eq_dec u t) as [->|N]; [left; reflexivity|right; congruence].
Qed.

(* what one action of thread t itself does to t's local state, given that t is not the current thread *)
Lemma own_step_not_current s a t : actor a = Some t -> a <> Enter t -> is_current s t = false ->
  st (loc s t) <> Fresh ->
  st (loc (step s a) t) <> Fresh
  /\ ((forall e, a <> HookEnd t e) -> trace (loc (step s a) t) = trace (loc s t)).
Proof.
  intros A NE C NF.
  destruct a as [u|u|u e|u|u|u|u| |u|u|u e]; cbn in A; try discriminate; inversion A; subst u; clear A;
    cbn [step]; try rewrite C.
  - (* Init *) destruct (st (loc s t)) eqn:S; try congruence; (split; [congruence|reflexivity]).
  - (* Enter *) congruence.
  - (* Probe *) destruct (is_live (loc s t)); [|split; [exact NF|reflexivity]].
    destruct (enabled (loc s t)); [|split; [exact NF|reflexivity]].
    cbn [loc set_loc]. rewrite upd_same. cbn [st trace]. split; [discriminate|reflexivity].
  - (* Check *) destruct (is_live (loc s t)); [|split; [exact NF|reflexivity]].
    cbn [loc set_loc]. rewrite upd_same. cbn [st trace]. split; [discriminate|reflexivity].
  - (* Disable *) destruct (is_live (loc s t)); [|split; [exact NF|reflexivity]].
    cbn [loc set_loc]. rewrite upd_same. cbn [st trace]. split; [discriminate|reflexivity].
  - (* Enable *) destruct (is_live (loc s t)); [|split; [exact NF|reflexivity]].
    cbn [loc set_loc]. rewrite upd_same. cbn [st trace]. split; [discriminate|reflexivity].
  - (* Exit *) destruct (st (loc s t)) eqn:S; try (split; [congruence|reflexivity]);
      destruct (guard s); cbn [loc set_loc set_current]; rewrite upd_same; cbn [st trace];
      (split; [discriminate|reflexivity]).
  - (* HookBegin *) destruct (is_live (loc s t)); [|split; [exact NF|reflexivity]].
    destruct (enabled (loc s t)); [|split; [exact NF|reflexivity]].
    cbn [loc set_loc]. rewrite upd_same. cbn [st trace]. split; [discriminate|reflexivity].
  - (* HookEnd *) destruct (st (loc s t)) eqn:S; try (split; [congruence|reflexivity]).
    cbn [loc set_loc]. rewrite upd_same. cbn [st trace]. split; [discriminate|].
    intro H. exfalso. apply (H e). reflexivity.
Qed.

(* an action of thread t never makes t current, except Enter t *)
Lemma own_step_current s a t : actor a = Some t -> a <> Enter t -> is_current s t = false ->
  is_current (step s a) t = false.
Proof. intros _ NE C. apply step_not_current; assumption. Qed.

(* a thread that was aborted or has left its with-block *)
Definition dead (l : tlocal) : bool := match st l with Aborting | Finished | Done => true | _ => false end.

Lemma dead_step s a t : dead (loc s t) = true ->
  dead (loc (step s a) t) = true /\ trace (loc (step s a) t) = trace (loc s t).
Proof.
  intro D. destruct (option_eq_actor a t) as [A|A]; [|rewrite (step_frame s a t A); auto].
  unfold dead in D.
  destruct a as [u|u|u e|u|u|u|u| |u|u|u e]; cbn in A; try discriminate; inversion A; subst u; clear A;
    cbn [step]; unfold is_live, dead;
    destruct (st (loc s t)) eqn:S; try discriminate D; rewrite ?S; auto;
    destruct (guard s); try destruct (is_current s t); cbn [loc set_loc set_current];
    rewrite ?upd_same; cbn [st trace]; rewrite ?S; auto.
Qed.

Lemma not_fresh_inactive_dead l : st l <> Fresh -> active l = false -> dead l = true.
Proof. unfold active, dead. destruct (st l); congruence. Qed.

Lemma dead_not_active l : dead l = true -> st l <> Fresh /\ active l = false.
Proof. unfold active, dead. destruct (st l); split; congruence. Qed.

Lemma zombie_step s a t : zombie s t -> a <> Enter t ->
  zombie (step s a) t
  /\ ((forall e, a <> HookEnd t e) -> trace (loc (step s a) t) = trace (loc s t)).
Proof.
  intros [NF NC] NE. unfold zombie.
  destruct (active (loc s t)) eqn:Act.
  - pose proof (NC eq_refl) as C.
    destruct (option_eq_actor a t) as [A|A].
    + destruct (own_step_not_current s a t A NE C NF) as [F T].
      split; [split; [exact F|intros _; apply step_not_current; assumption]|exact T].
    + rewrite (step_frame s a t A). split; [split; [exact NF|]|reflexivity].
      intros _. apply step_not_current; assumption.
  - pose proof (not_fresh_inactive_dead _ NF Act) as D.
    destruct (dead_step s a t D) as [D' T']. destruct (dead_not_active _ D') as [F' A'].
    split; [split; [exact F'|]|intros _; exact T'].
    intro L. rewrite A' in L. discriminate.
Qed.

Lemma zombie_run sched : forall s t, zombie s t -> ~ In (Enter t) sched ->
  (forall e, ~ In (HookEnd t e) sched) ->
  zombie (run s sched) t /\ trace (loc (run s sched) t) = trace (loc s t).
Proof.
  induction sched as [|a r IH]; intros s t Z N NH; [auto|].
  rewrite run_cons.
  assert (NE : a <> Enter t) by (intro E; apply N; left; exact E).
  assert (NHa : forall e, a <> HookEnd t e) by (intros e E; apply (NH e); left; exact E).
  destruct (zombie_step s a t Z NE) as [Z' T'].
  destruct (IH (step s a) t Z') as [Z'' T''].
  - intro I; apply N; right; exact I.
  - intros e I. apply (NH e). right. exact I.
  - split; [exact Z''|]. rewrite T''. apply T'. exact NHa.
Qed.

(* the invariant alone survives also the completion of a pending hook *)
Lemma zombie_run_inv sched : forall s t, zombie s t -> ~ In (Enter t) sched -> zombie (run s sched) t.
Proof.
  induction sched as [|a r IH]; intros s t Z N; [exact Z|].
  rewrite run_cons. apply IH.
  - apply zombie_step; [exact Z|]. intro E; apply N; left; exact E.
  - intro I; apply N; right; exact I.
Qed.

(* after the main thread's stop(), the abandoned thread t never adds anything to its trace, whatever it
   and everybody else does afterwards (t does not re-enter the tracer, and is not inside a predicate
   callback whose recording is still pending — that case is [pending_hook_records_locally]) *)
Lemma abandoned_records_nothing s t sched : st (loc s t) <> Fresh -> ~ In (Enter t) sched ->
  (forall e, ~ In (HookEnd t e) sched) ->
  trace (loc (run (step s Stop) sched) t) = trace (loc s t).
Proof.
  intros NF N NH.
  assert (Z : zombie (step s Stop) t) by (split; [exact NF|intros _; reflexivity]).
  destruct (zombie_run sched _ t Z N NH) as [_ T]. exact T.
Qed.

(* ... and the same once a later test has entered the tracer *)
Lemma superseded_records_nothing s t t' sched : t' <> t -> st (loc s t) <> Fresh ->
  is_live (loc s t') = true -> ~ In (Enter t) sched -> (forall e, ~ In (HookEnd t e) sched) ->
  trace (loc (run (step s (Enter t')) sched) t) = trace (loc s t).
Proof.
  intros D NF L N NH.
  assert (F : loc (step s (Enter t')) t = loc s t) by (apply step_frame; cbn; congruence).
  assert (Z : zombie (step s (Enter t')) t).
  { split; [rewrite F; exact NF|intros _; apply enter_revokes; assumption]. }
  destruct (zombie_run sched _ t Z N NH) as [_ T]. rewrite T, F. reflexivity.
Qed.

(* An abandoned thread that resumes INSIDE a predicate callback (it was blocked in an operator of the code
   under test, past the gate) completes the recording: the event goes to its own trace and nowhere else —
   no other thread's local state, no result, not the tracer-wide state — and the thread is then live but
   not current, so that its next gate aborts it. *)
Lemma pending_hook_records_locally s t e :
  st (loc s t) = InHook ->
  trace (loc (step s (HookEnd t e)) t) = trace (loc s t) ++ [e]
  /\ (forall u, u <> t -> loc (step s (HookEnd t e)) u = loc s u)
  /\ results (step s (HookEnd t e)) = results s
  /\ current (step s (HookEnd t e)) = current s
  /\ imp (step s (HookEnd t e)) = imp s.
Proof.
  intro S. cbn [step]. rewrite S. cbn [loc set_loc results current imp]. rewrite upd_same. cbn [trace].
  repeat split. intros u N. apply upd_other. exact N.
Qed.

Lemma resumed_zombie_dies s t e e' : zombie s t -> st (loc s t) = InHook ->
  let s1 := step s (HookEnd t e) in
  st (loc (step s1 (HookBegin t)) t) = Aborting
  /\ st (loc (step s1 (Probe t e')) t) = Aborting
  /\ trace (loc (step s1 (Probe t e')) t) = trace (loc s t) ++ [e].
Proof.
  intros [NF NC] S s1.
  assert (C : is_current s t = false) by (apply NC; unfold active; rewrite S; reflexivity).
  assert (L1 : loc s1 t = {| st := Live; enabled := true; trace := trace (loc s t) ++ [e] |}).
  { unfold s1. cbn [step]. rewrite S. cbn [loc set_loc]. apply upd_same. }
  assert (C1 : is_current s1 t = false).
  { unfold s1. cbn [step]. rewrite S. exact C. }
  cbn [step]. rewrite L1. unfold is_live. cbn [st enabled]. rewrite C1.
  cbn [loc set_loc]. rewrite !upd_same. cbn [st trace]. auto.
Qed.

(* a thread that is no longer active is frozen for good *)
Lemma dead_is_frozen s t sched : dead (loc s t) = true ->
  trace (loc (run s sched) t) = trace (loc s t) /\ dead (loc (run s sched) t) = true.
Proof.
  revert s. induction sched as [|a r IH]; intros s D; [auto|].
  rewrite run_cons. destruct (dead_step s a t D) as [D' T'].
  destruct (IH (step s a) D') as [T D'']. split; [congruence|exact D''].
Qed.

(* ---- the guarded __exit__ ------------------------------------------------------------------------ *)
Lemma guarded_exit_keeps_current s t : guard s = true -> is_current s t = false ->
  current (step s (Exit t)) = current s.
Proof.
  intros G C. cbn [step]. rewrite G, C. destruct (st (loc s t)); reflexivity.
Qed.

(* the code as it is: a foreign thread's __exit__ revokes the current thread *)
Lemma unguarded_exit_revokes s t u : guard s = false ->
  st (loc s t) = Live \/ st (loc s t) = Aborting -> is_current (step s (Exit t)) u = false.
Proof.
  intros G [S|S]; cbn [step]; rewrite S, G; reflexivity.
Qed.

(* Observation (not part of the property's statement): thread 1 is abandoned (Stop, Harvest), test 2
   starts, the zombie wakes up, is aborted, and its __exit__ stops the tracer under test 2, which is
   then aborted at its next probe although the main thread never stopped it: test 2 is reported as a
   timeout.  Nothing is ADDED to its result; with the guarded __exit__ it keeps its events. *)
Definition wake_schedule : list action :=
  [Init 1; Enter 1; Probe 1 10; Stop; Harvest 1;
   Init 2; Enter 2; Probe 2 20; Probe 1 11; Exit 1; Probe 2 21; Exit 2; Harvest 2]%nat.

Example later_test_can_be_aborted :
  results (run (init_state false [7]) wake_schedule) 2%nat = Some RTimeout
  /\ results (run (init_state false [7]) wake_schedule) 1%nat = Some RTimeout
  /\ trace (loc (run (init_state false [7]) wake_schedule) 2%nat) = [7; 20].
Proof. repeat split. Qed.

Example guarded_exit_protects_later_test :
  results (run (init_state true [7]) wake_schedule) 2%nat = Some (ROk [7; 20; 21])
  /\ results (run (init_state true [7]) wake_schedule) 1%nat = Some RTimeout.
Proof. repeat split. Qed.

(* non-vacuity of the zombie lemmas: a reachable state with a live abandoned thread *)
Example zombie_reachable :
  let s := run (init_state false []) [Init 1; Enter 1; Probe 1 10]%nat in
  st (loc s 1%nat) <> Fresh /\ is_live (loc s 1%nat) = true
  /\ trace (loc (run (step s Stop) [Probe 1 11; Exit 1; Probe 1 12]%nat) 1%nat) = [10].
Proof. cbn. repeat split. discriminate. Qed.

(* thread 1 is abandoned while it is blocked inside a predicate callback; test 2 runs and is harvested;
   then thread 1 wakes up and completes the recording: the event lands in ITS trace, the result of test 2
   is untouched, and thread 1 is aborted at its next probe *)
Definition inhook_schedule : list action :=
  [Init 1; Enter 1; Probe 1 10; HookBegin 1; Stop; Harvest 1;
   Init 2; Enter 2; Probe 2 20; Exit 2; Harvest 2;
   HookEnd 1 1000007; Probe 1 11; Exit 1]%nat.

Example abandoned_inside_hook :
  let s := run (init_state false [7]) inhook_schedule in
  results s 2%nat = Some (ROk [7; 20]) /\ results s 1%nat = Some RTimeout
  /\ trace (loc s 1%nat) = [7; 10; 1000007] /\ st (loc s 1%nat) = Done.
Proof. cbn. repeat split. Qed.

(* ---- model time of execute --------------------------------------------------------------------- *)
Lemma exec_duration_bound tmo maxT fin : 0 <= tmo -> 0 <= maxT ->
  (forall d, fin = Some d -> 0 <= d) -> 0 <= exec_duration tmo maxT fin <= tmo + maxT.
Proof.
  intros Ht Hm Hd. unfold exec_duration. destruct fin as [d|]; [|lia].
  specialize (Hd d eq_refl). destruct (tmo <? d) eqn:E.
  - apply Z.ltb_lt in E. lia.
  - apply Z.ltb_ge in E. lia.
Qed.

Lemma nonterminating_times_out tmo maxT :
  exec_timeout tmo None = true /\ exec_duration tmo maxT None = tmo + maxT.
Proof. split; reflexivity. Qed.

Lemma timeout_iff_late tmo d : exec_timeout tmo (Some d) = true <-> tmo < d.
Proof. unfold exec_timeout. apply Z.ltb_lt. Qed.
