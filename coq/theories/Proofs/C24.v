(* C24 — proofs about the seed-parser model. *)
From Coq Require Import List NArith Bool Lia.
From Verif Require Import Models.C24.
Import ListNotations.
Import C24.

(* ---------- attribute chains ---------- *)
Lemma attrs_is_attr l : forall e a, exists e' a', attrs (EAttr e a) l = EAttr e' a'.
Proof.
  induction l as [|x r IH]; intros e a; simpl.
  - exists e, a. reflexivity.
  - unfold attrs in *. simpl. apply IH.
Qed.

Lemma chain_attrs l : forall e r p, chain e = Some (r, p) -> chain (attrs e l) = Some (r, p ++ l).
Proof.
  induction l as [|x q IH]; intros e r p H; simpl.
  - rewrite app_nil_r. exact H.
  - unfold attrs in *. simpl. rewrite (IH (EAttr e x) r (p ++ [x])).
    + rewrite <- app_assoc. reflexivity.
    + simpl. rewrite H. reflexivity.
Qed.

Lemma roots_attrs l : forall e, roots (attrs e l) = roots e.
Proof.
  induction l as [|x q IH]; intro e; simpl; [reflexivity|].
  unfold attrs in *. simpl. rewrite IH. reflexivity.
Qed.

Lemma resolve_alias_type t inner :
  resolve_type (attrs (EAttr (EName n_alias) t) inner) = Some (false, t, inner).
Proof.
  destruct (attrs_is_attr inner (EName n_alias) t) as [e' [a' He]].
  unfold resolve_type. rewrite He. rewrite <- He.
  rewrite (chain_attrs inner (EAttr (EName n_alias) t) n_alias [t]); reflexivity.
Qed.

Lemma resolve_builtin_type t :
  resolve_type (EName (n_builtin_type t)) = Some (true, t, []).
Proof.
  unfold resolve_type, n_builtin_type.
  assert (H : N.leb 100 (100 + t) = true) by (apply N.leb_le; lia).
  rewrite H. f_equal. f_equal. f_equal. lia.
Qed.

Arguments resolve_type : simpl never.
Arguments n_builtin_type : simpl never.
Arguments attrs : simpl never.

(* ---------- forms: parse o render ---------- *)
Definition liftable (known : N -> bool) (f : form) : bool :=
  match f with
  | FObject (SVar v) VNoneBool | FObject (SVar v) VPlain => known v
  | FIsInstanceB (SVar v) _ | FIsInstanceM (SVar v) _ _ => known v
  | FLen (SVar v) => known v
  | _ => false
  end.

Lemma parse_render_liftable known f : liftable known f = true -> parse known (render f) = Some f.
Proof.
  destruct f as [s v|s nf|s|s t|s t inner|s]; destruct s as [x|x a|a]; simpl; try discriminate.
  - destruct v; simpl; try discriminate; intro H; unfold parse; simpl; unfold parse_eq_lit; rewrite H; reflexivity.
  - intro H. unfold parse. simpl. rewrite H. rewrite resolve_builtin_type. reflexivity.
  - intro H. unfold parse. simpl. rewrite H. rewrite resolve_alias_type. reflexivity.
  - intro H. unfold parse. simpl. rewrite H. reflexivity.
Qed.

Lemma parse_render_not_liftable known f : liftable known f = false -> parse known (render f) = None.
Proof.
  destruct f as [s v|s nf|s|s t|s t inner|s]; destruct s as [x|x a|a]; simpl;
    try (intros _; reflexivity).
  - destruct v; simpl; intro H; unfold parse; simpl; unfold parse_eq_lit; try rewrite H; try reflexivity;
      destruct (known x); reflexivity.
  - destruct v; intros _; reflexivity.
  - destruct v; intros _; reflexivity.
  - intros _. unfold parse. simpl. unfold parse_eq_lit. destruct (known x); destruct nf; reflexivity.
  - intro H. unfold parse. simpl. rewrite H. reflexivity.
  - intro H. unfold parse. simpl. rewrite H. reflexivity.
  - intro H. unfold parse. simpl. rewrite H. reflexivity.
Qed.

(* whatever the parser lifts renders to the same code *)
Lemma render_parse_render known f f' : parse known (render f) = Some f' -> render f' = render f.
Proof.
  intro H. destruct (liftable known f) eqn:E.
  - rewrite (parse_render_liftable known f E) in H. inversion H. reflexivity.
  - rewrite (parse_render_not_liftable known f E) in H. discriminate.
Qed.

Definition src_known (known : N -> bool) (f : form) : bool :=
  match src_var (form_src f) with Some v => known v | None => true end.

Lemma roots_known known f :
  src_known known f = true -> forallb (name_known known) (roots (render f)) = true.
Proof.
  unfold src_known.
  destruct f as [s v|s nf|s|s t|s t inner|s]; destruct s as [x|x a|a]; simpl; intro H;
    try (destruct v; simpl; rewrite ?H; reflexivity);
    try (destruct nf; simpl; rewrite ?H; reflexivity);
    try (simpl; rewrite ?H; reflexivity);
    try (simpl; rewrite ?roots_attrs; simpl; rewrite ?H; reflexivity).
Qed.

(* a rendered assertion whose reference is in scope is lifted unchanged or kept raw, never dropped *)
Lemma classify_render known f :
  src_known known f = true ->
  classify known (render f) = if liftable known f then Lift f else Raw.
Proof.
  intro H. unfold classify. destruct (liftable known f) eqn:E.
  - rewrite (parse_render_liftable known f E). reflexivity.
  - rewrite (parse_render_not_liftable known f E). rewrite (roots_known known f H). reflexivity.
Qed.

(* ---------- test cases: deserialize, then re-render ---------- *)
Lemma rerender_push st it b : rerender (push st it b) = rerender st ++ [it].
Proof. unfold rerender, push. simpl. rewrite flat_map_app. simpl. reflexivity. Qed.

Lemma rerender_attach st f : acc st <> [] -> rerender (attach st f) = rerender st ++ [IAssert f].
Proof.
  unfold rerender, attach. destruct (acc st) as [|p r]; [congruence|]. intros _. simpl.
  rewrite !flat_map_app. simpl. rewrite !app_nil_r.
  rewrite map_app. simpl. rewrite <- app_assoc. simpl. reflexivity.
Qed.

Lemma kn_mem st : kn st = fun v => mem v (vars st).
Proof. reflexivity. Qed.

Definition inv (st : state) : Prop := vars st <> [] -> acc st <> [].

Lemma mem_nonempty v l : mem v l = true -> l <> [].
Proof. destruct l; [discriminate|congruence]. Qed.

Lemma liftable_src known f : liftable known f = true -> exists v, src_var (form_src f) = Some v /\ known v = true.
Proof.
  destruct f as [s v|s nf|s|s t|s t inner|s]; destruct s as [x|x a|a]; simpl; try discriminate.
  - destruct v; try discriminate; intro H; exists x; auto.
  - intro H; exists x; auto.
  - intro H; exists x; auto.
  - intro H; exists x; auto.
Qed.

Lemma step_closed st it rest :
  inv st -> closed (vars st) (it :: rest) = true ->
  let st' := step st it in
  inv st' /\ rerender st' = rerender st ++ [it] /\ closed (vars st') rest = true.
Proof.
  intros Hinv Hc. destruct it as [id b uses|f]; simpl in Hc; apply andb_true_iff in Hc; destruct Hc as [H1 H2].
  - simpl. rewrite kn_mem. rewrite H1. split; [|split].
    + unfold inv, push. simpl. intros _. discriminate.
    + apply rerender_push.
    + unfold push. simpl. exact H2.
  - assert (Hsk : src_known (kn st) f = true).
    { unfold src_known. destruct (src_var (form_src f)); [exact H1|reflexivity]. }
    simpl. rewrite (classify_render (kn st) f Hsk).
    destruct (liftable (kn st) f) eqn:El.
    + destruct (liftable_src _ _ El) as [v [Hv Hk]].
      assert (Hne : acc st <> []). { apply Hinv. apply (mem_nonempty v). exact Hk. }
      split; [|split].
      * unfold inv, attach. destruct (acc st); [congruence|]. simpl. intros _. discriminate.
      * apply rerender_attach. exact Hne.
      * unfold attach. destruct (acc st); simpl; exact H2.
    + split; [|split].
      * unfold inv, push. simpl. intros _. discriminate.
      * apply rerender_push.
      * unfold push. simpl. exact H2.
Qed.

Lemma fold_closed items : forall st,
  inv st -> closed (vars st) items = true ->
  rerender (fold_left step items st) = rerender st ++ items.
Proof.
  induction items as [|it r IH]; intros st Hinv Hc; simpl.
  - rewrite app_nil_r. reflexivity.
  - destruct (step_closed st it r Hinv Hc) as [Hi [Hr Hc']].
    rewrite IH by assumption. rewrite Hr. rewrite <- app_assoc. reflexivity.
Qed.

Lemma roundtrip items : closed [] items = true -> rerender (deserialize items) = items.
Proof.
  intro H. unfold deserialize. rewrite fold_closed.
  - reflexivity.
  - unfold inv. simpl. congruence.
  - exact H.
Qed.

(* the lifted assertions are attached exactly to the statement they follow *)
Lemma attach_position items f :
  closed [] (items ++ [IAssert f]) = true ->
  liftable (kn (deserialize items)) f = true ->
  exists p r, acc (deserialize items) = p :: r /\
    acc (deserialize (items ++ [IAssert f])) = {| p_item := p_item p; p_rasserts := f :: p_rasserts p |} :: r.
Proof.
  intros Hc Hl. unfold deserialize in *. rewrite fold_left_app. simpl.
  set (st := fold_left step items {| acc := []; vars := [] |}) in *.
  assert (Hsk : src_known (kn st) f = true).
  { destruct (liftable_src _ _ Hl) as [v [Hv Hk]]. unfold src_known. rewrite Hv. exact Hk. }
  rewrite (classify_render (kn st) f Hsk). rewrite Hl.
  unfold attach. destruct (acc st) as [|p r] eqn:Ea.
  - exfalso. destruct (liftable_src _ _ Hl) as [v [_ Hk]].
    (* a known variable implies a statement: vars and acc grow together *)
    assert (Hinv : forall its s0, inv s0 -> inv (fold_left step its s0)).
    { induction its as [|i q IHq]; intros s0 H0; simpl; [exact H0|]. apply IHq.
      destruct i as [id b uses|g]; simpl.
      - destruct (forallb (name_known (kn s0)) uses); [|exact H0]. unfold inv, push. simpl. intros _. discriminate.
      - destruct (classify (kn s0) (render g)).
        + unfold inv, attach. destruct (acc s0) eqn:E0; simpl; [intro Hv0; apply H0 in Hv0; congruence|intros _; discriminate].
        + unfold inv, push. simpl. intros _. discriminate.
        + exact H0. }
    assert (Hi : inv st). { apply Hinv. unfold inv. simpl. congruence. }
    apply Hi; [|exact Ea]. apply (mem_nonempty v). exact Hk.
  - exists p, r. split; reflexivity.
Qed.

(* ---------- what does not round-trip: names the parser does not know ---------- *)
(* `with pytest.raises(Exc): ...` where Exc is imported at module level from a third module: the
   statement reads a name outside the ambient set and is dropped *)
Lemma unknown_name_refuted :
  exists items, rerender (deserialize items) <> items.
Proof. exists [IStmt 0 None [NAmbient 1; NUnknown 0]]. vm_compute. discriminate. Qed.

(* before the repair: lifted assertions went to the statement that bound the variable *)
Definition attach_at_binding (st : list (item * list form)) (v : N) (f : form) : list (item * list form) :=
  map (fun p => match fst p with
                | IStmt _ (Some b) _ => if N.eqb b v then (fst p, snd p ++ [f]) else p
                | _ => p
                end) st.

Example old_attachment_moves_assertions :
  let items := [IStmt 0 (Some 0%N) []; IStmt 1 None [NVar 0]; IAssert (FLen (SVar 0))] in
  closed [] items = true /\
  rerender (deserialize items) = items /\
  flat_map (fun p => fst p :: map IAssert (snd p))
    (attach_at_binding [(IStmt 0 (Some 0%N) [], []); (IStmt 1 None [NVar 0], [])] 0 (FLen (SVar 0)))
  <> items.
Proof. vm_compute. repeat split; discriminate. Qed.

(* ---------- non-vacuity ---------- *)
Example ex_items : list item :=
  [ IStmt 0 (Some 0%N) [n_alias];
    IAssert (FIsInstanceM (SVar 0) 7 [8%N]);
    IAssert (FFloat (SDot 0 4) false);
    IAssert (FObject (SDot 0 5) (VEnum 1 2));
    IStmt 1 (Some 1%N) [NVar 0];
    IAssert (FObject (SVar 1) VPlain);
    IAssert (FLen (SVar 0));
    IAssert (FTypeName (SVar 1));
    IAssert (FObject (SAlias 9) VPlain);
    IStmt 2 None [n_pytest; n_alias; NVar 1] ].

Example ex_closed : closed [] ex_items = true.
Proof. reflexivity. Qed.

Example ex_parsed :
  map (fun p => (p_item p, rev (p_rasserts p))) (rev (acc (deserialize ex_items))) =
  [ (IStmt 0 (Some 0%N) [n_alias], [FIsInstanceM (SVar 0) 7 [8%N]]);
    (IAssert (FFloat (SDot 0 4) false), []);
    (IAssert (FObject (SDot 0 5) (VEnum 1 2)), []);
    (IStmt 1 (Some 1%N) [NVar 0], [FObject (SVar 1) VPlain; FLen (SVar 0)]);
    (IAssert (FTypeName (SVar 1)), []);
    (IAssert (FObject (SAlias 9) VPlain), []);
    (IStmt 2 None [n_pytest; n_alias; NVar 1], []) ].
Proof. reflexivity. Qed.

(* a leading bare literal (an unused str primitive the writer rewrote to an expression statement) is a
   statement like any other: it is kept in first position *)
Example ex_leading_literal :
  let items := [IStmt 0 None []; IStmt 1 (Some 1%N) [n_alias]; IAssert (FObject (SVar 1) VPlain)] in
  closed [] items = true /\ rerender (deserialize items) = items.
Proof. split; reflexivity. Qed.
