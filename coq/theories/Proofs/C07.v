(* C07 — proofs: pruning a CDG by node removal with re-linking keeps every remaining node
   reachable from the root; root reachability of a CDG yields a chain of control dependencies
   from a root-dependent node; building the goal graph cannot fail under the checked premises;
   the goals manager keeps the tracked goals closed under "children of covered goals". *)
From Coq Require Import List NArith Bool Arith Lia.
From Verif Require Import Base.Graph Models.C06 Proofs.C06 Models.C07.
Import ListNotations.
Import Graph C06 C07.

(* ------------------------------------------------------------------ (A) pruning *)
Lemma relink_kept C n a v b :
  In (a, v, b) C -> a <> n -> b <> n -> In (a, v, b) (remove_relink C n).
Proof.
  intros Hin Ha Hb. unfold remove_relink. apply in_or_app. left.
  apply filter_In. split; [exact Hin|]. cbn [src dst fst snd].
  apply andb_true_iff. split; apply negb_true_iff; apply N.eqb_neq; assumption.
Qed.

Lemma has_edge_true C a b : has_edge C a b = true -> exists v, In (a, v, b) C.
Proof.
  unfold has_edge. rewrite existsb_exists. intros [[[a' v] b'] [Hin Hc]].
  cbn [src dst fst snd] in Hc. apply andb_true_iff in Hc. destruct Hc as [H1 H2].
  apply N.eqb_eq in H1. apply N.eqb_eq in H2. subst. eauto.
Qed.

Lemma relink_new C n a v1 v2 b :
  In (a, v1, n) C -> In (n, v2, b) C -> a <> n -> b <> n ->
  exists v, In (a, v, b) (remove_relink C n).
Proof.
  intros H1 H2 Ha Hb. unfold remove_relink.
  set (kept := filter (fun e : ledge => negb (N.eqb (src e) n) && negb (N.eqb (dst e) n)) C).
  destruct (has_edge kept a b) eqn:Hh.
  - destruct (has_edge_true _ _ _ Hh) as [v Hv]. exists v. apply in_or_app. left. exact Hv.
  - exists None. apply in_or_app. right. apply in_flat_map. exists a. split.
    + apply nodup_In. apply in_map_iff. exists (a, v1, n). split; [reflexivity|].
      apply filter_In. split; [exact H1|]. cbn [src dst fst snd].
      rewrite N.eqb_refl. cbn [andb]. apply negb_true_iff. apply N.eqb_neq. exact Ha.
    + apply in_flat_map. exists b. split.
      * apply nodup_In. apply in_map_iff. exists (n, v2, b). split; [reflexivity|].
        apply filter_In. split; [exact H2|]. cbn [src dst fst snd].
        rewrite N.eqb_refl. cbn [andb]. apply negb_true_iff. apply N.eqb_neq. exact Hb.
      * rewrite Hh. left. reflexivity.
Qed.

Lemma prune_one_aux C n a :
  a <> n -> forall x, reach (uedges C) a x ->
  (x <> n -> reach (uedges (remove_relink C n)) a x) /\
  (x = n -> exists y, y <> n /\ reach (uedges (remove_relink C n)) a y /\ In (y, n) (uedges C)).
Proof.
  intros Ha x Hr. induction Hr as [|y z Hr [IH1 IH2] Hyz].
  - split; [intros _; apply reach_refl | intro H; congruence].
  - destruct (N.eq_dec y n) as [Hy | Hy].
    + destruct (IH2 Hy) as [w [Hw [Hrw Hwn]]]. subst y. split.
      * intro Hz. apply reach_step with (y := w); [exact Hrw|].
        apply uedges_In in Hwn. destruct Hwn as [v1 Hwn].
        apply uedges_In in Hyz. destruct Hyz as [v2 Hyz].
        destruct (relink_new C n w v1 v2 z Hwn Hyz Hw Hz) as [v Hv].
        apply uedges_In. exists v. exact Hv.
      * intros _. exists w. repeat split; assumption.
    + specialize (IH1 Hy). split.
      * intro Hz. apply reach_step with (y := y); [exact IH1|].
        apply uedges_In in Hyz. destruct Hyz as [v Hyz].
        apply uedges_In. exists v. apply relink_kept; assumption.
      * intros ->. exists y. repeat split; assumption.
Qed.

Lemma prune_one_preserves C n a x :
  a <> n -> x <> n -> reach (uedges C) a x -> reach (uedges (remove_relink C n)) a x.
Proof. intros Ha Hx Hr. apply (proj1 (prune_one_aux C n a Ha x Hr)). exact Hx. Qed.

Theorem prune_preserves_reach : forall removed C a x,
  ~ In a removed -> ~ In x removed ->
  reach (uedges C) a x -> reach (uedges (prune C removed)) a x.
Proof.
  unfold prune. induction removed as [|n r IH]; intros C a x Ha Hx Hr; cbn [fold_left]; [exact Hr|].
  apply IH.
  - intro H. apply Ha. right. exact H.
  - intro H. apply Hx. right. exact H.
  - apply prune_one_preserves; [intro; apply Ha; left; congruence | intro; apply Hx; left; congruence | exact Hr].
Qed.

(* remaining nodes of the covered CDG of a well-formed CFG are reachable from the root *)
Theorem pruned_cdg_root_reachable g removed n :
  wf g -> In n (nodes g) -> n <> ENTRY -> n <> EXIT -> ~ In AUG removed -> ~ In n removed ->
  reach (uedges (prune (cdg_model g) removed)) AUG n.
Proof.
  intros W Hn H1 H2 Ha Hr. apply prune_preserves_reach; [exact Ha | exact Hr|].
  apply cdg_root_reachable; assumption.
Qed.

(* ------------------------------------------------------------------ dependency chains *)
(* n is reached from a root-dependent node by a chain of reported control dependencies; in the
   goal graph each link (p, v) -> n is the pair of edges from goal (p, v) to both goals of n *)
Inductive dep_reach (C : list ledge) : N -> Prop :=
| dr_root n : is_root_model C n = true -> dep_reach C n
| dr_step p v n : dep_reach C p -> In (p, v) (deps_model C n) -> dep_reach C n.

Theorem reach_dep_chain C n : reach (uedges C) AUG n -> n <> AUG -> dep_reach C n.
Proof.
  intro Hr. induction Hr as [|y z Hr IH Hyz]; intro Hn; [congruence|].
  apply uedges_In in Hyz. destruct Hyz as [l Hyz].
  destruct (N.eq_dec y AUG) as [-> | Hy].
  - apply dr_root. apply is_root_model_spec. exists l, z. split; [exact Hyz | apply reach_refl].
  - specialize (IH Hy). destruct l as [v|].
    + apply dr_step with (p := y) (v := v); [exact IH|].
      apply deps_model_spec. exists z. split; [exact Hyz|]. split; [exact Hy | apply reach_refl].
    + assert (Hu : In (y, z) (unl C)).
      { apply unl_In. exists None. split; [exact Hyz | reflexivity]. }
      inversion IH as [n0 Hroot | p v n0 Hp Hd]; subst.
      * apply dr_root. apply is_root_model_spec in Hroot. destruct Hroot as [v [x [Hin Hrx]]].
        apply is_root_model_spec. exists v, x. split; [exact Hin|]. eapply reach_step; eauto.
      * apply dr_step with (p := p) (v := v); [exact Hp|].
        apply deps_model_spec in Hd. destruct Hd as [x [Hin [Hpa Hrx]]].
        apply deps_model_spec. exists x. split; [exact Hin|]. split; [exact Hpa|].
        eapply reach_step; eauto.
Qed.

(* ------------------------------------------------------------------ (B) building never fails *)
Lemma dep_edges_ok m c co i : forall ds,
  forallb (fun d => match pid_of c (fst d) with
                    | None => false
                    | Some pid' => match index_of (GB co pid' (snd d)) (goals m) 0%N with
                                   | None => false | Some _ => true end
                    end) ds = true ->
  exists es, dep_edges m c co i ds = inr es /\ (ds <> [] -> exists j, In (j, i) es).
Proof.
  induction ds as [|[p v] r IH]; intro H; cbn [dep_edges].
  - exists []. split; [reflexivity|]. intro Hn. congruence.
  - cbn [forallb fst snd] in H. apply andb_true_iff in H. destruct H as [H1 H2].
    destruct (pid_of c p) as [pid'|]; [|discriminate H1].
    destruct (index_of (GB co pid' v) (goals m) 0%N) as [j|]; [|discriminate H1].
    destruct (IH H2) as [es [He _]]. rewrite He.
    exists ((j, i) :: es). split; [reflexivity|]. intros _. exists j. left. reflexivity.
Qed.

Lemma sanity_aux m : forall gs i0,
  forallb (goal_premise m) gs = true ->
  exists E, all_edges m gs i0 = inr E /\
    forall Eall Rall, incl E Eall -> incl (root_indices m gs i0) Rall ->
      forallb (fun g => has_parent Eall g || memb g Rall) (indices gs i0) = true.
Proof.
  induction gs as [|g r IH]; intros i0 H.
  - exists []. split; [reflexivity|]. intros; reflexivity.
  - cbn [forallb] in H. apply andb_true_iff in H. destruct H as [Hg Hr].
    destruct (IH (N.succ i0) Hr) as [E' [HE' Hrest]].
    destruct g as [co | co pid v].
    + cbn [all_edges]. rewrite HE'. exists E'. split; [reflexivity|].
      intros Eall Rall Hi Hroots. cbn [indices forallb]. apply andb_true_iff. split.
      * apply orb_true_iff. right. apply memb_In. apply Hroots.
        cbn [root_indices goal_is_root app]. left. reflexivity.
      * apply Hrest; [exact Hi|]. intros x Hx. apply Hroots.
        cbn [root_indices goal_is_root app]. right. exact Hx.
    + cbn [all_edges]. unfold goal_premise in Hg.
      destruct (goal_node m (GB co pid v)) as [[c n]|] eqn:Hgn; [|discriminate Hg].
      apply andb_true_iff in Hg. destruct Hg as [Hg Hdeps].
      apply andb_true_iff in Hg. destruct Hg as [Hreach Hna].
      apply reachb_spec in Hreach. apply negb_true_iff in Hna. apply N.eqb_neq in Hna.
      destruct (dep_edges_ok m c co i0 _ Hdeps) as [es [Hes Hpar]].
      rewrite Hes, HE'. exists (es ++ E'). split; [reflexivity|].
      intros Eall Rall Hi Hroots. cbn [indices forallb]. apply andb_true_iff. split.
      * apply orb_true_iff.
        destruct (reach_root_or_dep _ n Hreach Hna) as [Hroot | [d Hd]].
        -- right. apply memb_In. apply Hroots. cbn [root_indices].
           unfold goal_is_root. rewrite Hgn, Hroot. left. reflexivity.
        -- left. destruct Hpar as [j Hj]; [intro He; rewrite He in Hd; destruct Hd|].
           unfold has_parent. apply existsb_exists. exists (j, i0). split.
           ++ apply Hi. apply in_or_app. left. exact Hj.
           ++ cbn [snd]. apply N.eqb_refl.
      * apply Hrest.
        -- intros x Hx. apply Hi. apply in_or_app. right. exact Hx.
        -- intros x Hx. apply Hroots. cbn [root_indices]. apply in_or_app. right. exact Hx.
Qed.

Theorem build_total m : premisesb m = true -> exists E R, build m = inr (E, R).
Proof.
  unfold premisesb, build. intro H.
  destruct (sanity_aux m (goals m) 0%N H) as [E [HE Hs]]. rewrite HE. cbv zeta. unfold sanity.
  rewrite (Hs E (root_indices m (goals m) 0%N) (incl_refl _) (incl_refl _)).
  eauto.
Qed.

(* ------------------------------------------------------------------ (C) goals manager *)
Definition Inv (G : ggraph) (st : gstate) : Prop :=
  incl (groots G) (fst st) /\ incl (snd st) (fst st) /\
  (forall g c, In g (snd st) -> In (g, c) (gedges G) -> In c (fst st)).

Lemma enabled_In G C tl g c :
  In (g, c) (enabled G C tl) <-> In (g, c) (gedges G) /\ (In g C \/ In g tl).
Proof.
  unfold enabled. rewrite filter_In. cbn [fst]. rewrite orb_true_iff, !memb_In. tauto.
Qed.

Lemma reach_set_incl E T : incl T (reach_set E T).
Proof. intros x Hx. apply reach_set_spec. exists x. split; [exact Hx | apply reach_refl]. Qed.

Lemma reach_set_closed E T y z : In y (reach_set E T) -> In (y, z) E -> In z (reach_set E T).
Proof.
  intros Hy Hyz. apply reach_set_spec in Hy. destruct Hy as [a [Ha Hr]].
  apply reach_set_spec. exists a. split; [exact Ha | eapply reach_step; eauto].
Qed.

Lemma update_fst G T C tl : fst (update G (T, C) tl) = reach_set (enabled G C tl) T.
Proof. reflexivity. Qed.

Lemma update_snd_In G T C tl x :
  In x (snd (update G (T, C) tl)) <-> In x C \/ (In x (reach_set (enabled G C tl) T) /\ In x tl).
Proof.
  cbn [update snd]. rewrite in_app_iff, filter_In, andb_true_iff, negb_true_iff, memb_In, memb_false.
  destruct (in_dec N.eq_dec x C); tauto.
Qed.

Lemma update_inv G st tl : Inv G st -> Inv G (update G st tl).
Proof.
  destruct st as [T C]. intros [Hr [Hc Hcl]]. cbn [fst snd] in Hr, Hc, Hcl.
  unfold Inv. rewrite update_fst. repeat split.
  - eapply incl_tran; [exact Hr | apply reach_set_incl].
  - intros x Hx. apply update_snd_In in Hx. destruct Hx as [Hx | [Hx _]]; [|exact Hx].
    apply reach_set_incl. apply Hc. exact Hx.
  - intros g c Hg Hgc. apply update_snd_In in Hg. destruct Hg as [Hg | [Hg Ht]].
    + apply reach_set_closed with (y := g).
      * apply reach_set_incl. apply Hc. exact Hg.
      * apply enabled_In. split; [exact Hgc | left; exact Hg].
    + apply reach_set_closed with (y := g); [exact Hg|].
      apply enabled_In. split; [exact Hgc | right; exact Ht].
Qed.

Lemma init_inv G : Inv G (init G).
Proof.
  unfold Inv, init. cbn [fst snd]. repeat split.
  - intros x Hx. apply nodup_In. exact Hx.
  - intros x [].
  - intros g c [].
Qed.

Lemma fold_inv G : forall hist st, Inv G st -> Inv G (fold_left (update G) hist st).
Proof.
  induction hist as [|tl r IH]; intros st H; cbn [fold_left]; [exact H|].
  apply IH. apply update_inv. exact H.
Qed.

Theorem run_inv G hist : Inv G (run G hist).
Proof. unfold run. apply fold_inv. apply init_inv. Qed.

Theorem update_monotone G st tl :
  incl (fst st) (fst (update G st tl)) /\ incl (snd st) (snd (update G st tl)).
Proof.
  destruct st as [T C]. split.
  - rewrite update_fst. apply reach_set_incl.
  - intros x Hx. apply update_snd_In. left. exact Hx.
Qed.

Lemma current_In st g : In g (current st) <-> In g (fst st) /\ ~ In g (snd st).
Proof. unfold current. rewrite filter_In, negb_true_iff, memb_false. tauto. Qed.

(* a goal whose parents are all covered is current or covered; a goal without parent is a root *)
Theorem becomes_current G hist g :
  ggraph_okb G = true -> In g (gnodes G) ->
  (forall p, In (p, g) (gedges G) -> In p (snd (run G hist))) ->
  In g (current (run G hist)) \/ In g (snd (run G hist)).
Proof.
  intros Hok Hg Hpar.
  assert (Ht : In g (fst (run G hist))).
  { destruct (run_inv G hist) as [Hr [_ Hcl]].
    unfold ggraph_okb in Hok. rewrite !andb_true_iff in Hok. destruct Hok as [[Hok _] _].
    rewrite forallb_forall in Hok. specialize (Hok g Hg). apply orb_true_iff in Hok.
    destruct Hok as [Hp | Hroot].
    - unfold has_parent in Hp. apply existsb_exists in Hp. destruct Hp as [[p g'] [Hin He]].
      cbn [snd] in He. apply N.eqb_eq in He. subst g'.
      apply (Hcl p g); [apply Hpar; exact Hin | exact Hin].
    - apply Hr. apply memb_In. exact Hroot. }
  destruct (in_dec N.eq_dec g (snd (run G hist))) as [Hc | Hc]; [right; exact Hc|].
  left. apply current_In. split; assumption.
Qed.

(* any goal reachable from a root through covered goals has been handed out *)
Theorem eventually_current G hist r g :
  In r (groots G) ->
  reach (filter (fun e => memb (fst e) (snd (run G hist))) (gedges G)) r g ->
  In g (fst (run G hist)).
Proof.
  intros Hr Hreach. destruct (run_inv G hist) as [Hroots [_ Hcl]].
  induction Hreach as [|y z _ IH Hyz]; [apply Hroots; exact Hr|].
  apply filter_In in Hyz. destruct Hyz as [Hyz Hc]. cbn [fst] in Hc. apply memb_In in Hc.
  eapply Hcl; eauto.
Qed.

(* if the goal graph is root reachable, solutions covering every goal drain all goals in one update *)
Theorem drain G hist tl :
  ggraph_okb G = true -> root_reachableb G = true -> incl (gnodes G) tl ->
  let st := update G (run G hist) tl in
  incl (gnodes G) (snd st) /\ (forall g, In g (gnodes G) -> ~ In g (current st)).
Proof.
  intros Hok Hrr Htl.
  assert (Hall : incl (gnodes G) (snd (update G (run G hist) tl))).
  { destruct (run_inv G hist) as [Hroots _].
    destruct (run G hist) as [T C] eqn:Hst. cbn [fst snd] in Hroots.
    unfold ggraph_okb in Hok. rewrite !andb_true_iff in Hok. destruct Hok as [[_ Hed] _].
    rewrite forallb_forall in Hed.
    unfold root_reachableb in Hrr. cbv zeta in Hrr. rewrite forallb_forall in Hrr.
    intros g Hg. apply update_snd_In.
    destruct (in_dec N.eq_dec g C) as [Hc | Hc]; [left; exact Hc|]. right.
    split; [|apply Htl; exact Hg].
    specialize (Hrr g Hg). apply memb_In in Hrr. apply reach_set_spec in Hrr.
    destruct Hrr as [r [Hr Hreach]].
    apply reach_set_spec. exists r. split; [apply Hroots; exact Hr|].
    eapply reach_incl; [|exact Hreach].
    intros [a b] Hab. apply enabled_In. split; [exact Hab|]. right. apply Htl.
    specialize (Hed _ Hab). cbn [fst snd] in Hed. apply andb_true_iff in Hed.
    apply memb_In. apply Hed. }
  cbv zeta. split; [exact Hall|].
  intros g Hg Hcur. apply current_In in Hcur. destruct Hcur as [_ Hn]. apply Hn. apply Hall. exact Hg.
Qed.

(* ------------------------------------------------------------------ non-vacuity examples *)
(* nested ifs: goals 0/1 = outer True/False (roots), 2/3 = inner True/False under outer True *)
Definition ex_G : ggraph :=
  {| gnodes := [0; 1; 2; 3]%N; gedges := [(0, 2); (0, 3)]%N; groots := [0; 1]%N |}.

Example ex_G_ok : ggraph_okb ex_G = true /\ root_reachableb ex_G = true.
Proof. vm_compute. split; reflexivity. Qed.

Example ex_G_run :
  current (run ex_G [[1%N]; [0%N]; [3%N; 2%N]]) = [] /\
  nset_eqb (current (run ex_G [[2%N]])) [0; 1]%N = true /\
  nset_eqb (current (run ex_G [[0%N]])) [1; 2; 3]%N = true /\
  nset_eqb (snd (run ex_G [[0%N; 2%N]])) [0; 2]%N = true.
Proof. vm_compute. repeat split. Qed.

(* code object with `if a: (if b: ...)`: node 3 branches (pid 0), node 4 (pid 1) depends on (3, True) *)
Definition ex_mod : modul :=
  {| cos := [{| co_id := 0; co_cdg := [(0, None, 3); (3, Some true, 4); (4, Some true, 5); (0, None, 6)]%N;
                co_preds := [(3, 0); (4, 1)]%N |}; {| co_id := 1; co_cdg := [(0, None, 3)]%N; co_preds := [] |}];
     goals := [GB 0 0 true; GB 0 0 false; GB 0 1 true; GB 0 1 false; GL 1] |}.

Example ex_mod_premises : premisesb ex_mod = true.
Proof. vm_compute. reflexivity. Qed.

Example ex_mod_build : build ex_mod = inr ([(0, 2); (0, 3)]%N, [0; 1; 4]%N).
Proof. vm_compute. reflexivity. Qed.

Example ex_prune :
  lset_eqb (prune [(0, None, 3); (3, Some true, 4); (4, Some true, 5); (4, Some false, 6); (0, None, 7)]%N [4%N])
           [(0, None, 3); (3, None, 5); (3, None, 6); (0, None, 7)]%N = true.
Proof. vm_compute. reflexivity. Qed.
