(* C23 — Literal values round-trip through generated source.
   Only statements, closed by [exact]; model: Models/C23.v, proofs: Proofs/C23.v, shared value and
   expression model: Base/PyExpr.v.

   The theorems hold for EVERY representation of number/string tokens whose round trip is exact
   (Section hypotheses below; for CPython: float(repr(x)) == x for finite x, int(str(n)) == n, the
   tokenizer reads repr(s) back as s — sampled by the correspondence on every run).
   Floats are binary64 (PrimFloat): equality below is Leibniz equality, i.e. bit-exact with signed
   zeros and infinities distinguished and NaN identified with NaN. *)
From Coq Require Import List ZArith Bool String.
From Coq Require Import PrimFloat.
From Verif Require Import Base.PyExpr Models.C23 Proofs.C23.
Import ListNotations. Import PyExpr C23. Open Scope Z_scope.

Section Atoms.
  Variables ftok itok stok btok : Type.
  Variable repr_float : float -> ftok.
  Variable repr_nat : Z -> itok.
  Variable repr_str : pystr -> stok.
  Variable repr_bytes : pystr -> btok.
  Variable parse_float : ftok -> float.
  Variable parse_int : itok -> Z.
  Variable parse_str : stok -> pystr.
  Variable parse_bytes : btok -> pystr.
  Variable float_of_Z : Z -> float.
  Hypothesis float_rt : forall f, ftok_ok f = true -> parse_float (repr_float f) = f.
  Hypothesis nat_rt : forall n, 0 <= n -> parse_int (repr_nat n) = n.
  Hypothesis str_rt : forall s, parse_str (repr_str s) = s.
  Hypothesis bytes_rt : forall s, parse_bytes (repr_bytes s) = s.

  Notation eval := (PyExpr.eval parse_float parse_int parse_str parse_bytes).
  Notation render := (literal_to_cst ftok itok stok btok repr_float repr_nat repr_str repr_bytes).
  Notation parse := (parse_literal ftok itok stok btok parse_float parse_int parse_str parse_bytes float_of_Z).
  Notation generate := (generate_literal ftok itok stok btok repr_float repr_nat repr_str repr_bytes).
  Notation mutate := (mutate_literal ftok itok stok btok repr_float repr_nat repr_str repr_bytes parse_float parse_int float_of_Z).
  Notation shape := (C23.shape ftok itok stok btok parse_str).
  Notation refs_ok := (C23.refs_ok ftok itok stok btok parse_float parse_int parse_str parse_bytes).

  (* Rendering a value and evaluating the rendered expression yields the same value: all ints, floats
     (negative numbers, -0.0, +-inf, NaN), complex numbers, str, bytes, None, bool and arbitrarily nested
     list/tuple/set/dict of them (wfb: set elements / dict keys hashable and pairwise unequal, which
     every Python set/dict satisfies), in any namespace that does not shadow float/complex/set. *)
  Theorem C23_eval_render : forall g v,
    builtins_visible g = true -> literal_value v = true -> wfb v = true ->
    eval g (render v) = Ok v.
  Proof. exact (eval_render _ _ _ _ _ _ _ _ _ _ _ _ float_rt nat_rt str_rt bytes_rt). Qed.

  (* parse_literal inverts literal_to_cst wherever it can succeed at all: finite floats, complex with
     finite parts at top level, everything else nested without complex / non-finite floats
     (ast.literal_eval accepts no calls except set(); _parse_float no float('inf')). *)
  Theorem C23_parse_render : forall t v,
    parseable t v = true -> wfb v = true -> parse (render v) t = Some v.
  Proof. exact (parse_render _ _ _ _ _ _ _ _ _ _ _ _ float_of_Z float_rt nat_rt str_rt bytes_rt). Qed.

  (* Whatever the random draws / seeded constants are, generate_literal produces an expression of the
     requested type's shape, mutate_literal keeps that shape (for scalar types whatever the old
     expression was), *)
  Theorem C23_generate_shape : forall t d, shape t (generate t d) = true.
  Proof. exact (generate_shape _ _ _ _ _ _ _ _ _ str_rt). Qed.

  Theorem C23_mutate_shape : forall t e d,
    scalar t = true \/ shape t e = true -> shape t (mutate e t d) = true.
  Proof.
    exact (fun t e d H => match H with
                          | or_introl H => mutate_scalar_shape _ _ _ _ _ _ _ _ _ _ _ float_of_Z str_rt t e d H
                          | or_intror H => mutate_shape _ _ _ _ _ _ _ _ _ _ _ float_of_Z str_rt t e d H
                          end).
  Qed.

  (* and every expression of that shape evaluates, without error, to a value of the type — provided
     pooled references used as elements are bound (to hashable objects inside a set display). *)
  Theorem C23_shape_well_typed : forall g t e,
    builtins_visible g = true -> shape t e = true -> refs_ok g t e = true ->
    exists v, eval g e = Ok v /\ has_type t v = true.
  Proof. exact (shape_sound _ _ _ _ _ _ _ _). Qed.

  Theorem C23_generated_well_typed : forall g t d,
    builtins_visible g = true -> refs_ok g t (generate t d) = true ->
    exists v, eval g (generate t d) = Ok v /\ has_type t v = true.
  Proof. exact (generated_well_typed _ _ _ _ _ _ _ _ _ _ _ _ str_rt). Qed.

  Theorem C23_mutated_well_typed : forall g t e d,
    builtins_visible g = true -> scalar t = true \/ shape t e = true -> refs_ok g t (mutate e t d) = true ->
    exists v, eval g (mutate e t d) = Ok v /\ has_type t v = true.
  Proof. exact (mutated_well_typed _ _ _ _ _ _ _ _ _ _ _ _ float_of_Z str_rt). Qed.
End Atoms.

Print Assumptions C23_eval_render.
Print Assumptions C23_parse_render.
Print Assumptions C23_generate_shape.
Print Assumptions C23_mutate_shape.
Print Assumptions C23_shape_well_typed.
Print Assumptions C23_generated_well_typed.
Print Assumptions C23_mutated_well_typed.
