(* C11 — Adding tests never lowers coverage or raises fitness; merging execution traces is
   order-independent.  Only statements, closed by [exact]; model in Models/C10.v (merge, metric
   functions, valid) and Models/C11.v (trace_equiv, trace_wf, mtree/eval/leaves, improves),
   proofs in Proofs/C11.v.

   [trace_wf] is the representation invariant of Python's dict / OrderedSet (no key twice);
   [valid t r] is what validate_execution_trace and C04 guarantee (ids registered, the three
   predicate dictionaries have the same keys, counts >= 1, distances >= 0 and not NaN). *)
From Coq Require Import List ZArith QArith Bool Permutation.
From Verif Require Import Models.C10 Models.C11 Proofs.C11.
Import ListNotations. Import C10 C11. Open Scope Z_scope.

(* ---------- what merge computes (lookup / membership characterisation) ---------- *)
Theorem C11_merge_set_membership : forall x l xs,
  memZ x (update_set l xs) = memZ x l || memZ x xs.
Proof. exact memZ_update_set. Qed.
Print Assumptions C11_merge_set_membership.

Theorem C11_merge_counts_lookup : forall a b k, NoDup (keys b) ->
  dget (merge_counts a b) k =
  match dget a k, dget b k with
  | Some x, Some y => Some (x + y)
  | Some x, None => Some x
  | None, Some y => Some y
  | None, None => None
  end.
Proof. exact dget_merge_counts. Qed.
Print Assumptions C11_merge_counts_lookup.

Theorem C11_merge_min_lookup : forall a b k, NoDup (keys b) ->
  dget (merge_min a b) k =
  match dget a k, dget b k with
  | Some x, Some y => Some (dist_min x y)
  | Some x, None => Some x
  | None, Some y => Some y
  | None, None => None
  end.
Proof. exact dget_merge_min. Qed.
Print Assumptions C11_merge_min_lookup.

(* ---------- merge keeps traces well formed and valid ---------- *)
Theorem C11_merge_preserves_wf : forall a b, trace_wf a = true -> trace_wf (merge a b) = true.
Proof. exact wf_merge. Qed.
Print Assumptions C11_merge_preserves_wf.

Theorem C11_merge_preserves_valid : forall a b r,
  valid a r = true -> valid b r = true -> valid (merge a b) r = true.
Proof. exact valid_merge. Qed.
Print Assumptions C11_merge_preserves_valid.

Theorem C11_analyze_results_valid : forall ts r,
  Forall (fun t => valid t r = true) ts -> valid (merge_all ts) r = true.
Proof. exact valid_merge_all. Qed.
Print Assumptions C11_analyze_results_valid.

(* ---------- order independence ---------- *)
Theorem C11_merge_comm : forall a b, trace_wf a = true -> trace_wf b = true ->
  trace_equiv (merge a b) (merge b a).
Proof. exact merge_comm. Qed.
Print Assumptions C11_merge_comm.

Theorem C11_merge_assoc : forall a b c, trace_wf b = true -> trace_wf c = true ->
  trace_equiv (merge (merge a b) c) (merge a (merge b c)).
Proof. exact merge_assoc. Qed.
Print Assumptions C11_merge_assoc.

Theorem C11_merge_congruence : forall a a' b b', trace_wf b = true -> trace_wf b' = true ->
  trace_equiv a a' -> trace_equiv b b' -> trace_equiv (merge a b) (merge a' b').
Proof. exact merge_compat. Qed.
Print Assumptions C11_merge_congruence.

(* analyze_results over any permutation of the results *)
Theorem C11_analyze_results_order_independent : forall ts ts',
  Permutation ts ts' -> Forall (fun t => trace_wf t = true) ts ->
  trace_equiv (merge_all ts) (merge_all ts').
Proof. exact merge_all_perm. Qed.
Print Assumptions C11_analyze_results_order_independent.

(* any order and any grouping (tree of merge calls) of the same traces *)
Theorem C11_order_and_grouping_independent : forall m m',
  Permutation (leaves m) (leaves m') -> Forall (fun t => trace_wf t = true) (leaves m) ->
  trace_equiv (eval m) (eval m').
Proof. exact eval_order_grouping_independent. Qed.
Print Assumptions C11_order_and_grouping_independent.

(* ---------- equivalent traces get the same metric values ---------- *)
Theorem C11_branch_fitness_respects_equiv : forall a b r ec et ef, trace_equiv a b ->
  (branch_fitness_ex a r ec et ef == branch_fitness_ex b r ec et ef)%Q.
Proof. exact branch_fitness_respects. Qed.
Print Assumptions C11_branch_fitness_respects_equiv.

Theorem C11_branch_is_covered_respects_equiv : forall a b r ec et ef, trace_equiv a b ->
  branch_is_covered_ex a r ec et ef = branch_is_covered_ex b r ec et ef.
Proof. exact branch_is_covered_respects. Qed.
Print Assumptions C11_branch_is_covered_respects_equiv.

Theorem C11_branch_coverage_respects_equiv : forall a b r,
  trace_wf a = true -> trace_wf b = true -> trace_equiv a b ->
  branch_coverage a r = branch_coverage b r.
Proof. exact branch_coverage_respects. Qed.
Print Assumptions C11_branch_coverage_respects_equiv.

Theorem C11_line_metrics_respect_equiv : forall a b r,
  trace_wf a = true -> trace_wf b = true -> trace_equiv a b ->
  line_coverage a r = line_coverage b r /\ line_fitness a r = line_fitness b r /\
  line_is_covered a r = line_is_covered b r /\
  checked_coverage a r = checked_coverage b r /\ checked_fitness a r = checked_fitness b r /\
  checked_is_covered a r = checked_is_covered b r.
Proof. exact line_metrics_respect. Qed.
Print Assumptions C11_line_metrics_respect_equiv.

(* ---------- monotonicity ---------- *)
Theorem C11_branch_coverage_monotone : forall a b r, valid a r = true -> valid b r = true ->
  (branch_coverage a r <= branch_coverage (merge a b) r)%Q.
Proof. exact branch_coverage_mono_b. Qed.
Print Assumptions C11_branch_coverage_monotone.

Theorem C11_line_coverage_monotone : forall a b r,
  (line_coverage a r <= line_coverage (merge a b) r)%Q /\
  (checked_coverage a r <= checked_coverage (merge a b) r)%Q /\
  line_fitness (merge a b) r <= line_fitness a r /\
  checked_fitness (merge a b) r <= checked_fitness a r.
Proof. exact line_family_mono. Qed.
Print Assumptions C11_line_coverage_monotone.

Theorem C11_branch_fitness_antitone : forall a b r ec et ef, valid a r = true -> valid b r = true ->
  (branch_fitness_ex (merge a b) r ec et ef <= branch_fitness_ex a r ec et ef)%Q.
Proof. exact branch_fitness_anti_b. Qed.
Print Assumptions C11_branch_fitness_antitone.

(* every suite-level coverage / fitness / covered verdict at once *)
Theorem C11_merge_improves : forall a b r, valid a r = true -> valid b r = true ->
  improves a (merge a b) r.
Proof. exact merge_improves. Qed.
Print Assumptions C11_merge_improves.

(* the property: a suite [ts] and the suite with the test [t] added at any position *)
Theorem C11_adding_a_test_improves : forall ts t ts' r,
  Forall (fun x => valid x r = true) ts -> valid t r = true -> Permutation ts' (t :: ts) ->
  improves (merge_all ts) (merge_all ts') r.
Proof. exact suite_add_test_improves. Qed.
Print Assumptions C11_adding_a_test_improves.

(* goal-level covered verdicts only switch on *)
Theorem C11_goals_monotone : forall a b r x v, valid b r = true ->
  (line_goal_covered a x = true -> line_goal_covered (merge a b) x = true) /\
  (checked_goal_covered a x = true -> checked_goal_covered (merge a b) x = true) /\
  (branchless_goal_covered a x = true -> branchless_goal_covered (merge a b) x = true) /\
  (branch_goal_covered a x v = true -> branch_goal_covered (merge a b) x v = true).
Proof. exact goals_mono_b. Qed.
Print Assumptions C11_goals_monotone.

(* distances >= 0 is needed: with a negative distance coverage drops *)
Theorem C11_nonneg_distances_needed : exists a b r,
  trace_wf a = true /\ trace_wf b = true /\
  (branch_coverage (merge a b) r < branch_coverage a r)%Q.
Proof. exact nonneg_needed_ex. Qed.
Print Assumptions C11_nonneg_distances_needed.

(* the comparison used by the correspondence check (Models/C11.v check_case) is sound for [trace_equiv] *)
Theorem C11_checker_comparison_sound : forall a b, trace_eqb a b = true -> trace_equiv a b.
Proof. exact trace_eqb_equiv. Qed.
Print Assumptions C11_checker_comparison_sound.

(* ---------- the instruction part: executed_instructions / executed_assertions ---------- *)
(* grouping never changes instruction order or assertion positions: ((a+b)+c) = (a+(b+c)) *)
Theorem C11_assertion_positions_assoc : forall a b c, imerge (imerge a b) c = imerge a (imerge b c).
Proof. exact imerge_assoc. Qed.
Print Assumptions C11_assertion_positions_assoc.

(* every tree of merge / analyze_results calls equals the flat left-to-right merge of its leaves,
   so two scripts with the same leaf sequence give the same positions *)
Theorem C11_assertion_positions_grouping_independent : forall m m',
  ileaves m = ileaves m' -> ieval m = ieval m'.
Proof. exact ieval_grouping_independent. Qed.
Print Assumptions C11_assertion_positions_grouping_independent.

Theorem C11_instruction_merge_flat : forall m, ieval m = imerge_all (ileaves m).
Proof. exact ieval_flat. Qed.
Print Assumptions C11_instruction_merge_flat.

(* merged assertions are the own ones followed by shifted copies of the merged-in ones *)
Theorem C11_assertions_after_merge : forall a b,
  asserts (imerge a b) = asserts a ++ map (fun pa => (fst pa + ilen a, snd pa)) (asserts b) /\
  map snd (asserts (imerge a b)) = map snd (asserts a) ++ map snd (asserts b).
Proof. exact asserts_imerge. Qed.
Print Assumptions C11_assertions_after_merge.

(* positions stay inside the merged trace and keep pointing at the same instruction *)
Theorem C11_assertion_positions_in_range : forall a b,
  iwf a = true -> iwf b = true -> iwf (imerge a b) = true.
Proof. exact iwf_imerge. Qed.
Print Assumptions C11_assertion_positions_in_range.

Theorem C11_assertion_target_left : forall a b pos,
  0 <= pos < ilen a -> target (imerge a b) pos = target a pos.
Proof. exact target_imerge_left. Qed.
Print Assumptions C11_assertion_target_left.

Theorem C11_assertion_target_right : forall a b pos,
  0 <= pos -> target (imerge a b) (pos + ilen a) = target b pos.
Proof. exact target_imerge_right. Qed.
Print Assumptions C11_assertion_target_right.

(* ---------- execution counts are additive for ALL traces, equal ones included ---------- *)
Theorem C11_counts_additive : forall a b k, trace_wf b = true ->
  count_of (merge a b) k = count_of a k + count_of b k.
Proof. exact count_of_merge. Qed.
Print Assumptions C11_counts_additive.

(* a trace merged with an equal trace is not dropped: every count doubles *)
Theorem C11_counts_merge_equal_traces : forall a k, trace_wf a = true ->
  count_of (merge a a) k = 2 * count_of a k.
Proof. exact count_of_merge_self. Qed.
Print Assumptions C11_counts_merge_equal_traces.

(* analyze_results: merged count = sum over all results (duplicates counted as often as they occur) *)
Theorem C11_analyze_results_counts_sum : forall ts k,
  Forall (fun t => trace_wf t = true) ts -> count_of (merge_all ts) k = total_count ts k.
Proof. exact count_of_merge_all. Qed.
Print Assumptions C11_analyze_results_counts_sum.
