(* C07 — Every branch goal is reachable in the DynaMOSA goal graph.
   Only statements, closed by [exact]; see Models/C07.v, Proofs/C07.v (and C06 for the CDG).
   Goals are numbered by their position in the list of fitness functions; a goals-manager state is
   (tracked, covered) with current = tracked - covered; a history is the list of sets of goals the
   solutions passed to successive _GoalsManager.update calls cover.  All statements hold for
   every goal graph / CDG / history (no size bound). *)
From Coq Require Import List NArith Bool.
From Verif Require Import Base.Graph Models.C06 Proofs.C06 Models.C07 Proofs.C07.
Import ListNotations. Import Graph C06 C07.

(* After any history of updates: the root goals have been handed out, covered goals are tracked,
   and all structural children of covered goals have been handed out. *)
Theorem C07_update_closed : forall G hist,
  incl (groots G) (fst (run G hist)) /\ incl (snd (run G hist)) (fst (run G hist)) /\
  (forall g c, In g (snd (run G hist)) -> In (g, c) (gedges G) -> In c (fst (run G hist))).
Proof. exact run_inv. Qed.
Print Assumptions C07_update_closed.

Theorem C07_update_monotone : forall G st tl,
  incl (fst st) (fst (update G st tl)) /\ incl (snd st) (snd (update G st tl)).
Proof. exact update_monotone. Qed.
Print Assumptions C07_update_monotone.

(* The property's first clause: in a goal graph that passes the sanity check (goals without
   incoming edge are roots), a goal all of whose structural parents are covered is a current goal
   (or already covered); in particular a goal without parents is an initial goal. *)
Theorem C07_becomes_current : forall G hist g,
  ggraph_okb G = true -> In g (gnodes G) ->
  (forall p, In (p, g) (gedges G) -> In p (snd (run G hist))) ->
  In g (current (run G hist)) \/ In g (snd (run G hist)).
Proof. exact becomes_current. Qed.
Print Assumptions C07_becomes_current.

Theorem C07_eventually_current : forall G hist r g,
  In r (groots G) ->
  reach (filter (fun e => memb (fst e) (snd (run G hist))) (gedges G)) r g ->
  In g (fst (run G hist)).
Proof. exact eventually_current. Qed.
Print Assumptions C07_eventually_current.

(* Reachability of all goals: if every goal is reachable from a root (checked per module), a
   search whose solutions cover everything offered drains all goals. *)
Theorem C07_all_goals_reachable : forall G hist tl,
  ggraph_okb G = true -> root_reachableb G = true -> incl (gnodes G) tl ->
  let st := update G (run G hist) tl in
  incl (gnodes G) (snd st) /\ (forall g, In g (gnodes G) -> ~ In g (current st)).
Proof. exact drain. Qed.
Print Assumptions C07_all_goals_reachable.

(* Coverage exclusions: removing nodes from a CDG with re-linking (edges without branch value)
   keeps every remaining node reachable from the root ... *)
Theorem C07_prune_preserves_root_reach : forall removed C a x,
  ~ In a removed -> ~ In x removed ->
  reach (uedges C) a x -> reach (uedges (prune C removed)) a x.
Proof. exact prune_preserves_reach. Qed.
Print Assumptions C07_prune_preserves_root_reach.

(* ... so, with C06, every remaining block of the covered CDG of a well-formed CFG is reachable
   from the augmented entry, ... *)
Theorem C07_pruned_cdg_root_reachable : forall g removed n,
  wf g -> In n (nodes g) -> n <> ENTRY -> n <> EXIT -> ~ In AUG removed -> ~ In n removed ->
  reach (uedges (prune (cdg_model g) removed)) AUG n.
Proof. exact pruned_cdg_root_reachable. Qed.
Print Assumptions C07_pruned_cdg_root_reachable.

(* ... and every such node hangs on a chain of reported control dependencies that starts at a
   root-dependent node (each link (p, v) -> n is the goal-graph edge from goal (p, v) to the goals
   of n): every predicate's goals are reachable from root goals. *)
Theorem C07_dependency_chain_from_root : forall C n,
  reach (uedges C) AUG n -> n <> AUG -> dep_reach C n.
Proof. exact reach_dep_chain. Qed.
Print Assumptions C07_dependency_chain_from_root.

(* Building the goal graph never fails (no KeyError for an unregistered dependency, no
   RuntimeError for a missing goal, no failed sanity assertion) under decidable premises that are
   checked on every dumped module: every predicate node is reachable from the root in its CDG
   (a theorem for covered CDGs of well-formed CFGs, see above) and every control dependency of a
   registered predicate resolves to a registered predicate with a goal. *)
Theorem C07_build_total : forall m, premisesb m = true -> exists E R, build m = inr (E, R).
Proof. exact build_total. Qed.
Print Assumptions C07_build_total.
