(* C19 — Generated regression assertions are kept in the exported file.
   Only statements, closed by [exact]; model in Base/TestCaseIR.v (remove_unused_variables, after
   fix C19-keep-assertions) and Models/C19.v (export); proofs in Base/TestCaseIRRuv.v, Proofs/C19.v. *)
From Coq Require Import List NArith ZArith Bool.
From Verif Require Import Base.TestCaseIR Base.TestCaseIRFacts Base.TestCaseIRRuv Models.C19 Proofs.C19.
Import ListNotations. Import IR. Import C19.

(* remove_unused_variables (UnusedStatementsTestCaseVisitor, TestSuiteWriter.write) keeps the
   assertion list of every statement, position by position ... *)
Theorem C19_ruv_keeps_assertions : forall t,
  map asserts (stmts (remove_unused_variables t)) = map asserts (stmts t).
Proof. exact ruv_keeps_assertions. Qed.
Print Assumptions C19_ruv_keeps_assertions.

(* ... and neither removes, reorders nor rewrites the right-hand side of a statement: *)
Theorem C19_ruv_keeps_statements : forall t,
  map node (stmts (remove_unused_variables t)) = map node (stmts t)
  /\ map uses (stmts (remove_unused_variables t)) = map uses (stmts t).
Proof. exact ruv_keeps_nodes. Qed.
Print Assumptions C19_ruv_keeps_statements.

(* the only change it makes is to unbind a convertible assignment ("may remove unused bindings") *)
Theorem C19_ruv_only_unbinds : forall t,
  Forall2 (fun s s' => s' = s \/ (s' = unbind s /\ conv s = true /\ bound s <> None))
          (stmts t) (stmts (remove_unused_variables t)).
Proof. exact ruv_only_unbinds. Qed.
Print Assumptions C19_ruv_only_unbinds.

(* A variable mentioned by an assertion of statement i is still bound at i afterwards, so the kept
   assertion can be evaluated; in particular a statement asserted on itself stays bound. *)
Theorem C19_ruv_keeps_asserted_bindings : forall t,
  WF t -> ascoped [] (stmts t) -> ascoped [] (stmts (remove_unused_variables t)).
Proof. exact ruv_keeps_asserted_bindings. Qed.
Print Assumptions C19_ruv_keeps_asserted_bindings.

Theorem C19_asserted_statement_stays_bound : forall t i s v,
  nth_error (stmts t) i = Some s -> bound s = Some v -> In v (aroots s) ->
  nth_error (stmts (remove_unused_variables t)) i = Some s.
Proof. exact ruv_asserted_stays_bound. Qed.
Print Assumptions C19_asserted_statement_stays_bound.

(* the result is still a well-formed test case (C15) *)
Theorem C19_ruv_preserves_WF : forall t, WF t -> WF (remove_unused_variables t).
Proof. exact ruv_WF. Qed.
Print Assumptions C19_ruv_preserves_WF.

(* Export: statement i of the test case appears in the exported function immediately followed by
   all of its renderable assertions, in order ... *)
Theorem C19_export_emits_all : forall t i s,
  nth_error (stmts t) i = Some s ->
  export t = export_body (firstn i (stmts (remove_unused_variables t)))
             ++ (IStmt (node s) :: map IAssert (rendered s))
             ++ export_body (skipn (S i) (stmts (remove_unused_variables t))).
Proof. exact export_emits_all. Qed.
Print Assumptions C19_export_emits_all.

(* ... and the asserts of the exported function are exactly the renderable assertions of the test
   case (none dropped, none invented), the statements exactly its statements. *)
Theorem C19_export_asserts_exact : forall t,
  map (fun i => match i with IAssert a => Some a | IStmt _ => None end)
      (filter is_assert (export t))
  = map Some (flat_map rendered (stmts t)).
Proof. exact export_asserts_exact. Qed.
Print Assumptions C19_export_asserts_exact.

Theorem C19_export_statements_exact : forall t,
  flat_map (fun i => match i with IStmt n => [n] | IAssert _ => [] end) (export t)
  = map node (stmts t).
Proof. exact export_statements_exact. Qed.
Print Assumptions C19_export_statements_exact.

(* Re-execution at export time: _per_statement_exceptions yields exactly one entry per statement,
   so whichever statements raise while the exporter re-executes the test (they are only wrapped in
   pytest.raises or marked xfail), the written function is the complete export; a shorter list
   would truncate it (zip without strict). *)
Theorem C19_export_reexec_complete : forall t raised, export_reexec t raised = export t.
Proof. exact export_reexec_complete. Qed.
Print Assumptions C19_export_reexec_complete.

Theorem C19_short_exception_list_truncates : exists l excs,
  length excs < length l /\ length (build_body l excs) < length (export_body l).
Proof. exact build_body_short_truncates. Qed.
Print Assumptions C19_short_exception_list_truncates.

(* The code before the fix violated the property (finding; witness kept in the corpus). *)
Theorem C19_unfixed_ruv_refuted : exists t,
  WF t /\ ascoped [] (stmts t) /\
  map asserts (stmts (remove_unused_variables_orig t)) <> map asserts (stmts t).
Proof. exact ruv_orig_drops_assertions. Qed.
Print Assumptions C19_unfixed_ruv_refuted.

Theorem C19_unfixed_export_refuted : exists t,
  WF t /\ ascoped [] (stmts t) /\
  length (filter is_assert (export_orig t)) < length (flat_map rendered (stmts t)).
Proof. exact export_orig_drops. Qed.
Print Assumptions C19_unfixed_export_refuted.
