(* C31 — In-process and subprocess execution agree.   (PARTIAL, thin)
   Only statements, closed by [exact]; model in Models/C31.v, proofs in Proofs/C31.v.

   Full statement of the property: "For every deterministic test case, executing it in-process and in a
   subprocess yields the same timeout flag, the same exception types at the same statement positions,
   the same covered lines and branch outcomes, and the same assertion and assertion-verification traces."

   Proved here (orchestration only, with the in-process executor E as a black box and the fate of each
   subprocess chosen by an adversary): one result per test case and in the test cases' order for every
   crash/timeout pattern; every result is either the transported in-process result of ITS test case or
   the timeout result; with no crash and only picklable items the subprocess executor returns exactly
   map E tests; transport only drops items (never invents or reorders); _fix_assertion_trace is the
   identity for identical bindings and never changes positions, kinds or counts.
   Missing for the full statement (NOT provable in a model shorter than the runtime; decided by the
   in-process vs. subprocess differential on factory-made test cases, which is correspondence and oracle
   at once): pickling/unpickling of results and tracer state (dill), multiprocess/fork semantics, that
   the subprocess really computes E.  Hence the names [..._partial]. *)
From Coq Require Import List ZArith Bool.
From Verif Require Import Models.C31 Proofs.C31.
Import ListNotations. Import C31. Open Scope Z_scope.

Theorem C31_shape_partial : forall (test item : Type) (E : test -> list item) (picklable : item -> bool)
    ts batch_ok singles,
  length (execute_multiple E picklable ts batch_ok singles) = length ts.
Proof. exact @shape. Qed.
Print Assumptions C31_shape_partial.

Theorem C31_order_partial : forall (test item : Type) (E : test -> list item) (picklable : item -> bool)
    ts batch_ok singles i t,
  nth_error ts i = Some t ->
  nth_error (execute_multiple E picklable ts batch_ok singles) i = Some (via_subprocess E picklable t)
  \/ nth_error (execute_multiple E picklable ts batch_ok singles) i = Some Timeout.
Proof. exact @order. Qed.
Print Assumptions C31_order_partial.

Theorem C31_transparent_partial : forall (test item : Type) (E : test -> list item) (picklable : item -> bool)
    ts singles,
  (forall t, In t ts -> forallb picklable (E t) = true) ->
  execute_multiple E picklable ts true singles = in_process E ts.
Proof. exact @transparent. Qed.
Print Assumptions C31_transparent_partial.

Theorem C31_fallback_all_ok_partial : forall (test item : Type) (E : test -> list item)
    (picklable : item -> bool) ts oks,
  length oks = length ts -> forallb (fun b => b) oks = true ->
  fallback E picklable ts oks = map (via_subprocess E picklable) ts.
Proof. exact @fallback_all_ok. Qed.
Print Assumptions C31_fallback_all_ok_partial.

Theorem C31_transport_only_drops_partial : forall (item : Type) (picklable : item -> bool) l x,
  In x (transport picklable l) -> In x l /\ picklable x = true.
Proof. exact @transport_sub. Qed.
Print Assumptions C31_transport_only_drops_partial.

Theorem C31_fix_trace_identity_partial : forall b tr, NoDup (map fst b) -> fix_trace b b tr = Some tr.
Proof. exact fix_trace_identity. Qed.
Print Assumptions C31_fix_trace_identity_partial.

Theorem C31_fix_trace_shape_partial : forall old new tr tr', fix_trace old new tr = Some tr' ->
  map fst tr' = map fst tr /\ map (fun pe => map fst (snd pe)) tr' = map (fun pe => map fst (snd pe)) tr.
Proof. exact fix_trace_shape. Qed.
Print Assumptions C31_fix_trace_shape_partial.

(* Time limits: when the limits observed in the child processes equal the parent's (checked on every run
   by [check_lcase]), every test case gets the same budget min(maximum, per_statement * size) on both sides. *)
Theorem C31_budget_agree_partial : forall c, check_lcase c = true ->
  forall ch size, In ch (l_child c) ->
  budget (fst ch) (snd ch) size = budget (fst (l_parent c)) (snd (l_parent c)) size.
Proof. exact budget_agree. Qed.
Print Assumptions C31_budget_agree_partial.
